(* C18 proofs (and the device-list half of C07).
   Part 1: pointer level.  A well-formedness invariant WF of the heap / Sources[] representation, the content view [slot st i]
           (the entry Sources[i] points to), and for every sequence of primitive operations the handlers use (update in place, move,
           park, replace a placeholder, drop, new) its effect on the content view.
   Part 2: every handler is safe under WF, re-establishes WF, and its effect is described on the content view.
   Part 3: the invariant between the content view and the abstract mirror; the theorems. *)
From Coq Require Import ZArith List Bool Lia.
From N2kV Require Import Base.Res Base.ListAux Model.TextDefs Model.DevListDefs Spec.TextSpec Spec.DevListSpec Proofs.TextProofsA Proofs.TextProofsB.
Import ListNotations ResNotations.
Local Open Scope Z_scope.

(* ---------- lists ---------- *)
Lemma nth_error_set_nth_eq {A} (l:list A) : forall i v, (i < length l)%nat -> nth_error (set_nth l i v) i = Some v.
Proof. induction l as [|x l IH]; intros [|i] v H; cbn [length] in H; try lia; cbn [set_nth nth_error]; [reflexivity|]. apply IH. lia. Qed.
Lemma nth_error_set_nth_neq {A} (l:list A) : forall i j v, i <> j -> nth_error (set_nth l i v) j = nth_error l j.
Proof.
  induction l as [|x l IH]; intros [|i] [|j] v H; cbn [set_nth nth_error]; try reflexivity; try congruence.
  apply IH. congruence.
Qed.
Lemma nth_error_set_nth_oob {A} (l:list A) : forall i v, (length l <= i)%nat -> set_nth l i v = l.
Proof. induction l as [|x l IH]; intros [|i] v H; cbn [length] in H; try lia; cbn [set_nth]; [reflexivity| |]; [reflexivity|]. rewrite IH by lia. reflexivity. Qed.
Lemma nth_error_snoc {A} (l:list A) x : nth_error (l ++ [x]) (length l) = Some x.
Proof. rewrite nth_error_app2 by lia. rewrite Nat.sub_diag. reflexivity. Qed.
Lemma nth_error_snoc_lt {A} (l:list A) x j : (j < length l)%nat -> nth_error (l ++ [x]) j = nth_error l j.
Proof. intros H. apply nth_error_app1. exact H. Qed.
Lemma set_nth_snoc_lt {A} (l:list A) x j v : (j < length l)%nat -> set_nth (l ++ [x]) j v = set_nth l j v ++ [x].
Proof. intros H. apply set_nth_app_l. exact H. Qed.

Lemma skipn_app_len {A} (a b:list A) : skipn (length a) (a ++ b) = b.
Proof. induction a as [|x a IH]; [reflexivity|exact IH]. Qed.

(* ---------- explicit forms of the primitive state transformers ---------- *)
Definition sref (st:state) (i:nat) : option nat := match nth_error (sources st) i with Some o => o | None => None end.
Definition hp (st:state) (oid:nat) : option entry := match nth_error (heap st) oid with Some (Some e) => Some e | _ => None end.
Definition slot (st:state) (i:nat) : option entry := match sref st i with Some oid => hp st oid | None => None end.

Definition upd (st:state) (oid:nat) (e:entry) : state := with_hs st (set_nth (heap st) oid (Some e)) (sources st) (maxdev st).
Definition fre (st:state) (oid:nat) : state := with_hs st (set_nth (heap st) oid None) (sources st) (maxdev st).
Definition sset (st:state) (i:nat) (v:option nat) : state := with_hs st (heap st) (set_nth (sources st) i v) (maxdev st).
Definition mx (st:state) (s:Z) : Z := if s >=? maxdev st then s + 1 else maxdev st.
Definition sv (st:state) (oid:nat) (e:entry) (s:nat) : state :=
  with_hs st (set_nth (heap st) oid (Some (with_src e (Z.of_nat s)))) (set_nth (sources st) s (Some oid)) (mx st (Z.of_nat s)).

Lemma hp_some st oid e : hp st oid = Some e <-> nth_error (heap st) oid = Some (Some e).
Proof. unfold hp. destruct (nth_error (heap st) oid) as [[x|]|]; split; intros H; congruence. Qed.

Lemma deref_ok st oid e : hp st oid = Some e -> deref st oid = Ok e.
Proof. intros H. apply hp_some in H. unfold deref. rewrite H. reflexivity. Qed.
Lemma deref_inv st oid e : deref st oid = Ok e -> hp st oid = Some e.
Proof. unfold deref, hp. destruct (nth_error (heap st) oid) as [[x|]|]; congruence. Qed.
Lemma update_ok st oid e0 e : hp st oid = Some e0 -> update st oid e = Ok (upd st oid e).
Proof. intros H. apply hp_some in H. unfold update. rewrite H. reflexivity. Qed.
Lemma free_ok st oid e0 : hp st oid = Some e0 -> free st oid = Ok (fre st oid).
Proof. intros H. apply hp_some in H. unfold free. rewrite H. reflexivity. Qed.
Lemma src_ok_iff i : src_ok i = true <-> 0 <= i < 254.
Proof. unfold src_ok, MaxBus. rewrite andb_true_iff, Z.leb_le, Z.ltb_lt. reflexivity. Qed.
Lemma src_get_ok st i : length (sources st) = 254%nat -> 0 <= i < 254 -> src_get st i = Ok (sref st (Z.to_nat i)).
Proof.
  intros Hl Hi. unfold src_get, sref. rewrite (proj2 (src_ok_iff i) Hi).
  destruct (nth_error (sources st) (Z.to_nat i)) eqn:E; [reflexivity|]. apply nth_error_None in E. lia.
Qed.
Lemma src_set_ok st i v : 0 <= i < 254 -> src_set st i v = Ok (sset st (Z.to_nat i) v).
Proof. intros Hi. unfold src_set. rewrite (proj2 (src_ok_iff i) Hi). reflexivity. Qed.
Lemma save_device_ok st oid e s : length (sources st) = 254%nat -> (s < 254)%nat -> hp st oid = Some e ->
  save_device st oid (Z.of_nat s) = Ok (sv st oid e s).
Proof.
  intros Hl Hs He. unfold save_device, MaxBus. destruct (Z.geb_spec (Z.of_nat s) 254); [lia|].
  rewrite (deref_ok _ _ _ He). cbn [bind]. rewrite (update_ok _ _ _ _ He). cbn [bind].
  rewrite src_set_ok by lia. cbn [bind]. rewrite Nat2Z.id. unfold sv, mx, sset, upd, with_hs. cbn [heap sources maxdev updated pending].
  destruct (Z.of_nat s >=? maxdev st); reflexivity.
Qed.

(* ---------- the representation invariant ---------- *)
Definition WF (st:state) : Prop :=
  length (sources st) = 254%nat /\ 0 <= maxdev st <= 254 /\
  forall i oid, sref st i = Some oid -> exists e, hp st oid = Some e /\ e_src e = Z.of_nat i /\ Z.of_nat i < maxdev st.

Lemma sref_lt st i oid : length (sources st) = 254%nat -> sref st i = Some oid -> (i < 254)%nat.
Proof.
  intros Hl H. unfold sref in H. destruct (nth_error (sources st) i) eqn:E; [|discriminate].
  rewrite <- Hl. apply nth_error_Some. congruence.
Qed.
Lemma wf_uniq st i j oid : WF st -> sref st i = Some oid -> sref st j = Some oid -> i = j.
Proof.
  intros (_ & _ & W) Hi Hj. destruct (W i oid Hi) as (e & He & Hs & _). destruct (W j oid Hj) as (e' & He' & Hs' & _).
  rewrite He in He'. injection He' as <-. lia.
Qed.
Lemma wf_slot st i oid : WF st -> sref st i = Some oid -> exists e, hp st oid = Some e /\ slot st i = Some e /\ e_src e = Z.of_nat i /\ Z.of_nat i < maxdev st.
Proof. intros (_ & _ & W) H. destruct (W i oid H) as (e & He & Hs & Hm). exists e. unfold slot. rewrite H. auto. Qed.
Lemma slot_inv st i e : slot st i = Some e -> exists oid, sref st i = Some oid /\ hp st oid = Some e.
Proof. unfold slot. destruct (sref st i) as [oid|]; [|discriminate]. intros H. exists oid. auto. Qed.
Lemma slot_none_of_sref st i : sref st i = None -> slot st i = None.
Proof. unfold slot. intros ->. reflexivity. Qed.
Lemma wf_sref_of_slot_none st i : WF st -> slot st i = None -> sref st i = None.
Proof.
  intros W H. destruct (sref st i) as [oid|] eqn:E; [|reflexivity].
  destruct (wf_slot _ _ _ W E) as (e & _ & Hs & _). congruence.
Qed.

Lemma wf_init : WF init_state.
Proof.
  split; [reflexivity|]. split; [cbn; lia|]. intros i oid H. unfold sref, init_state in H. cbn [sources] in H.
  destruct (nth_error (repeat None 254) i) eqn:E; [|discriminate]. apply nth_error_In in E. apply repeat_spec in E. subst. discriminate.
Qed.

(* projections of the explicit transformers *)
Lemma sref_sset_eq st i v : (i < length (sources st))%nat -> sref (sset st i v) i = v.
Proof. intros H. unfold sref, sset, with_hs. cbn [sources]. rewrite nth_error_set_nth_eq by exact H. reflexivity. Qed.
Lemma sref_sset_neq st i j v : i <> j -> sref (sset st i v) j = sref st j.
Proof. intros H. unfold sref, sset, with_hs. cbn [sources]. rewrite nth_error_set_nth_neq by exact H. reflexivity. Qed.
Lemma hp_upd_eq st oid e0 e : hp st oid = Some e0 -> hp (upd st oid e) oid = Some e.
Proof.
  intros H. apply hp_some in H. apply hp_some. unfold upd, with_hs. cbn [heap]. apply nth_error_set_nth_eq.
  apply nth_error_Some. congruence.
Qed.
Lemma hp_upd_neq st oid o e : oid <> o -> hp (upd st oid e) o = hp st o.
Proof. intros H. unfold hp, upd, with_hs. cbn [heap]. rewrite nth_error_set_nth_neq by exact H. reflexivity. Qed.
Lemma hp_fre_eq st oid : hp (fre st oid) oid = None.
Proof.
  unfold hp, fre, with_hs. cbn [heap]. destruct (Nat.lt_ge_cases oid (length (heap st))) as [H|H].
  - rewrite nth_error_set_nth_eq by exact H. reflexivity.
  - rewrite nth_error_set_nth_oob by exact H. destruct (nth_error (heap st) oid) eqn:E; [|reflexivity].
    assert (nth_error (heap st) oid <> None) by congruence. apply nth_error_Some in H0. lia.
Qed.
Lemma hp_fre_neq st oid o : oid <> o -> hp (fre st oid) o = hp st o.
Proof. intros H. unfold hp, fre, with_hs. cbn [heap]. rewrite nth_error_set_nth_neq by exact H. reflexivity. Qed.

(* ---------- effects on the content view ---------- *)
(* 1. update in place: the entry at slot s is replaced by one with the same Source *)
Lemma wf_upd st s oid e : WF st -> sref st s = Some oid -> e_src e = Z.of_nat s ->
  WF (upd st oid e) /\ (forall j, slot (upd st oid e) j = if Nat.eqb j s then Some e else slot st j) /\ (forall j, sref (upd st oid e) j = sref st j).
Proof.
  intros W Hs He. pose proof W as (Hl & Hm & Wf). destruct (wf_slot _ _ _ W Hs) as (e0 & He0 & _ & _ & Hlt).
  split; [|split].
  - split; [exact Hl|]. split; [exact Hm|]. intros i o Hi. change (sref (upd st oid e) i) with (sref st i) in Hi.
    destruct (Nat.eq_dec o oid) as [->|Hne].
    + assert (i = s) by (eapply wf_uniq; eauto). subst i. exists e. rewrite (hp_upd_eq _ _ _ _ He0). change (maxdev (upd st oid e)) with (maxdev st). auto.
    + destruct (Wf i o Hi) as (x & Hx & Hsx & Hmx). exists x. rewrite hp_upd_neq by congruence. change (maxdev (upd st oid e)) with (maxdev st). auto.
  - intros j. unfold slot. change (sref (upd st oid e) j) with (sref st j). destruct (Nat.eqb_spec j s) as [->|Hne].
    + rewrite Hs. apply (hp_upd_eq _ _ _ _ He0).
    + destruct (sref st j) as [o|] eqn:E; [|reflexivity]. apply hp_upd_neq. intros ->. apply Hne. eapply wf_uniq; eauto.
  - reflexivity.
Qed.

(* generic way to establish WF of an explicit final state *)
Lemma wf_intro st' : length (sources st') = 254%nat -> 0 <= maxdev st' <= 254 ->
  (forall i oid, (i < 254)%nat -> sref st' i = Some oid -> exists e, hp st' oid = Some e /\ e_src e = Z.of_nat i /\ Z.of_nat i < maxdev st') -> WF st'.
Proof. intros Hl Hm H. split; [exact Hl|]. split; [exact Hm|]. intros i oid Hi. apply H; [|exact Hi]. eapply sref_lt; eauto. Qed.

Lemma mx_ge st s : maxdev st <= mx st s /\ s < mx st s.
Proof. unfold mx. destruct (Z.geb_spec s (maxdev st)); lia. Qed.
Lemma mx_le st s : 0 <= maxdev st <= 254 -> 0 <= s < 254 -> 0 <= mx st s <= 254.
Proof. unfold mx. destruct (Z.geb_spec s (maxdev st)); lia. Qed.

(* 2. move: the entry at slot k goes to the empty slot s (k is cleared before or after: the same final state) *)
Definition moved (st:state) (k s oid:nat) (e:entry) : state := sv (sset st k None) oid e s.
Lemma moved_alt st k s oid e : k <> s -> sset (sv st oid e s) k None = moved st k s oid e.
Proof.
  intros H. unfold moved, sv, sset, mx, with_hs. cbn [heap sources maxdev updated pending].
  rewrite (set_nth_comm (sources st) s k) by congruence. reflexivity.
Qed.
Lemma wf_moved st k s oid e : WF st -> sref st k = Some oid -> hp st oid = Some e -> sref st s = None -> (s < 254)%nat ->
  WF (moved st k s oid e) /\
  (forall j, slot (moved st k s oid e) j = if Nat.eqb j s then Some (with_src e (Z.of_nat s)) else if Nat.eqb j k then None else slot st j) /\
  maxdev (moved st k s oid e) = mx st (Z.of_nat s).
Proof.
  intros W Hk He Hs Hs254. pose proof W as (Hl & Hm & Wf).
  assert (Hks : k <> s) by (intros ->; congruence).
  assert (Hk254 : (k < 254)%nat) by (eapply sref_lt; eauto).
  assert (Hsrc : forall j, sref (moved st k s oid e) j = if Nat.eqb j s then Some oid else if Nat.eqb j k then None else sref st j).
  { intros j. unfold moved, sv, sref, sset, with_hs. cbn [sources].
    destruct (Nat.eqb_spec j s) as [->|H1].
    - rewrite nth_error_set_nth_eq by (rewrite set_nth_length; lia). reflexivity.
    - rewrite nth_error_set_nth_neq by congruence. destruct (Nat.eqb_spec j k) as [->|H2].
      + rewrite nth_error_set_nth_eq by lia. reflexivity.
      + rewrite nth_error_set_nth_neq by congruence. reflexivity. }
  assert (Hhp : forall o, hp (moved st k s oid e) o = if Nat.eqb o oid then Some (with_src e (Z.of_nat s)) else hp st o).
  { intros o. unfold moved, sv, hp, sset, with_hs. cbn [heap]. destruct (Nat.eqb_spec o oid) as [->|H1].
    - rewrite nth_error_set_nth_eq; [reflexivity|]. apply hp_some in He. apply nth_error_Some. congruence.
    - rewrite nth_error_set_nth_neq by congruence. reflexivity. }
  assert (Hmax : maxdev (moved st k s oid e) = mx st (Z.of_nat s)) by reflexivity.
  pose proof (mx_ge st (Z.of_nat s)) as [Hge Hgt].
  split; [|split; [|exact Hmax]].
  - apply wf_intro.
    + unfold moved, sv, sset, with_hs. cbn [sources]. rewrite !set_nth_length. exact Hl.
    + rewrite Hmax. apply mx_le; lia.
    + intros i o Hi Hr. rewrite Hsrc in Hr. rewrite Hmax. destruct (Nat.eqb_spec i s) as [->|H1].
      * injection Hr as <-. exists (with_src e (Z.of_nat s)). rewrite Hhp, Nat.eqb_refl. cbn [with_src e_src]. auto.
      * destruct (Nat.eqb_spec i k) as [->|H2]; [discriminate|].
        destruct (Wf i o Hr) as (x & Hx & Hsx & Hmx). exists x. rewrite Hhp.
        destruct (Nat.eqb_spec o oid) as [->|H3]; [exfalso; apply H2; eapply wf_uniq; eauto|]. split; [exact Hx|]. split; [exact Hsx|lia].
  - intros j. unfold slot. rewrite Hsrc. destruct (Nat.eqb_spec j s) as [->|H1].
    + rewrite Hhp, Nat.eqb_refl. reflexivity.
    + destruct (Nat.eqb_spec j k) as [->|H2]; [reflexivity|]. destruct (sref st j) as [o|] eqn:E; [|reflexivity].
      rewrite Hhp. destruct (Nat.eqb_spec o oid) as [->|H3]; [exfalso; apply H2; eapply wf_uniq; eauto|reflexivity].
Qed.

(* 3. new: a fresh object goes to the empty slot s *)
Definition added (st:state) (e:entry) (s:nat) : state := sv (fst (alloc st e)) (length (heap st)) e s.
Lemma wf_heap_bound st i oid : WF st -> sref st i = Some oid -> (oid < length (heap st))%nat.
Proof. intros W H. destruct (wf_slot _ _ _ W H) as (e & He & _). apply hp_some in He. apply nth_error_Some. congruence. Qed.
Lemma wf_added st e s : WF st -> sref st s = None -> (s < 254)%nat ->
  WF (added st e s) /\
  (forall j, slot (added st e s) j = if Nat.eqb j s then Some (with_src e (Z.of_nat s)) else slot st j) /\
  maxdev (added st e s) = mx st (Z.of_nat s) /\
  hp (fst (alloc st e)) (length (heap st)) = Some e.
Proof.
  intros W Hs Hs254. pose proof W as (Hl & Hm & Wf). set (oid := length (heap st)).
  assert (Hsrc : forall j, sref (added st e s) j = if Nat.eqb j s then Some oid else sref st j).
  { intros j. unfold added, sv, alloc, sref, with_hs. cbn [fst sources]. destruct (Nat.eqb_spec j s) as [->|H1].
    - rewrite nth_error_set_nth_eq by lia. reflexivity.
    - rewrite nth_error_set_nth_neq by congruence. reflexivity. }
  assert (Hhp : forall o, hp (added st e s) o = if Nat.eqb o oid then Some (with_src e (Z.of_nat s)) else hp st o).
  { intros o. unfold added, sv, alloc, hp, with_hs. cbn [fst heap]. fold oid. destruct (Nat.eqb_spec o oid) as [->|H1].
    - rewrite nth_error_set_nth_eq by (rewrite app_length; cbn [length]; lia). reflexivity.
    - rewrite nth_error_set_nth_neq by congruence. destruct (Nat.lt_ge_cases o oid) as [H|H].
      + rewrite nth_error_snoc_lt by exact H. reflexivity.
      + assert (E1 : nth_error (heap st ++ [Some e]) o = None) by (apply nth_error_None; rewrite app_length; cbn [length]; lia).
        assert (E2 : nth_error (heap st) o = None) by (apply nth_error_None; lia). rewrite E1, E2. reflexivity. }
  assert (Hmax : maxdev (added st e s) = mx st (Z.of_nat s)) by reflexivity.
  pose proof (mx_ge st (Z.of_nat s)) as [Hge Hgt].
  split; [|split; [|split; [exact Hmax|]]].
  - apply wf_intro.
    + unfold added, sv, alloc, with_hs. cbn [fst sources]. rewrite set_nth_length. exact Hl.
    + rewrite Hmax. apply mx_le; lia.
    + intros i o Hi Hr. rewrite Hsrc in Hr. rewrite Hmax. destruct (Nat.eqb_spec i s) as [->|H1].
      * injection Hr as <-. exists (with_src e (Z.of_nat s)). rewrite Hhp, Nat.eqb_refl. cbn [with_src e_src]. auto.
      * destruct (Wf i o Hr) as (x & Hx & Hsx & Hmx). exists x. rewrite Hhp.
        pose proof (wf_heap_bound _ _ _ W Hr). destruct (Nat.eqb_spec o oid) as [->|H3]; [unfold oid in *; lia|]. split; [exact Hx|]. split; [exact Hsx|lia].
  - intros j. unfold slot. rewrite Hsrc. destruct (Nat.eqb_spec j s) as [->|H1].
    + rewrite Hhp, Nat.eqb_refl. reflexivity.
    + destruct (sref st j) as [o|] eqn:E; [|reflexivity]. rewrite Hhp.
      pose proof (wf_heap_bound _ _ _ W E). destruct (Nat.eqb_spec o oid) as [->|H3]; [unfold oid in *; lia|reflexivity].
  - apply hp_some. unfold alloc, with_hs. cbn [fst heap]. apply nth_error_snoc.
Qed.

(* 4. replace: the object at slot s is deleted, the entry at slot k takes its place *)
Definition replaced (st:state) (k s oid oid2:nat) (e2:entry) : state := sv (sset (fre st oid) k None) oid2 e2 s.
Lemma wf_replaced st k s oid oid2 e2 : WF st -> sref st s = Some oid -> sref st k = Some oid2 -> hp st oid2 = Some e2 -> k <> s ->
  WF (replaced st k s oid oid2 e2) /\
  (forall j, slot (replaced st k s oid oid2 e2) j = if Nat.eqb j s then Some (with_src e2 (Z.of_nat s)) else if Nat.eqb j k then None else slot st j) /\
  maxdev (replaced st k s oid oid2 e2) = maxdev st.
Proof.
  intros W Hs Hk He2 Hks. pose proof W as (Hl & Hm & Wf).
  assert (Hs254 : (s < 254)%nat) by (eapply sref_lt; eauto). assert (Hk254 : (k < 254)%nat) by (eapply sref_lt; eauto).
  assert (Hoo : oid <> oid2) by (intros ->; apply Hks; eapply wf_uniq; eauto).
  destruct (wf_slot _ _ _ W Hs) as (e & He & _ & _ & Hslt).
  assert (Hsrc : forall j, sref (replaced st k s oid oid2 e2) j = if Nat.eqb j s then Some oid2 else if Nat.eqb j k then None else sref st j).
  { intros j. unfold replaced, sv, sref, sset, fre, with_hs. cbn [sources].
    destruct (Nat.eqb_spec j s) as [->|H1].
    - rewrite nth_error_set_nth_eq by (rewrite set_nth_length; lia). reflexivity.
    - rewrite nth_error_set_nth_neq by congruence. destruct (Nat.eqb_spec j k) as [->|H2].
      + rewrite nth_error_set_nth_eq by lia. reflexivity.
      + rewrite nth_error_set_nth_neq by congruence. reflexivity. }
  assert (Hhp : forall o, hp (replaced st k s oid oid2 e2) o = if Nat.eqb o oid2 then Some (with_src e2 (Z.of_nat s)) else if Nat.eqb o oid then None else hp st o).
  { intros o. unfold replaced, sv, hp, sset, fre, with_hs. cbn [heap]. destruct (Nat.eqb_spec o oid2) as [->|H1].
    - rewrite nth_error_set_nth_eq; [reflexivity|]. rewrite set_nth_length. apply hp_some in He2. apply nth_error_Some. congruence.
    - rewrite nth_error_set_nth_neq by congruence. destruct (Nat.eqb_spec o oid) as [->|H2].
      + rewrite nth_error_set_nth_eq; [reflexivity|]. apply hp_some in He. apply nth_error_Some. congruence.
      + rewrite nth_error_set_nth_neq by congruence. reflexivity. }
  assert (Hmax : maxdev (replaced st k s oid oid2 e2) = maxdev st).
  { unfold replaced, sv, mx, sset, fre, with_hs. cbn [maxdev]. destruct (Z.geb_spec (Z.of_nat s) (maxdev st)); [lia|reflexivity]. }
  split; [|split; [|exact Hmax]].
  - apply wf_intro.
    + unfold replaced, sv, sset, fre, with_hs. cbn [sources]. rewrite !set_nth_length. exact Hl.
    + rewrite Hmax. exact Hm.
    + intros i o Hi Hr. rewrite Hsrc in Hr. rewrite Hmax. destruct (Nat.eqb_spec i s) as [->|H1].
      * injection Hr as <-. exists (with_src e2 (Z.of_nat s)). rewrite Hhp, Nat.eqb_refl. cbn [with_src e_src]. auto.
      * destruct (Nat.eqb_spec i k) as [->|H2]; [discriminate|].
        destruct (Wf i o Hr) as (x & Hx & Hsx & Hmx). exists x. rewrite Hhp.
        destruct (Nat.eqb_spec o oid2) as [->|H3]; [exfalso; apply H2; eapply wf_uniq; eauto|].
        destruct (Nat.eqb_spec o oid) as [->|H4]; [exfalso; apply H1; eapply wf_uniq; eauto|]. auto.
  - intros j. unfold slot. rewrite Hsrc. destruct (Nat.eqb_spec j s) as [->|H1].
    + rewrite Hhp, Nat.eqb_refl. reflexivity.
    + destruct (Nat.eqb_spec j k) as [->|H2]; [reflexivity|]. destruct (sref st j) as [o|] eqn:E; [|reflexivity].
      rewrite Hhp. destruct (Nat.eqb_spec o oid2) as [->|H3]; [exfalso; apply H2; eapply wf_uniq; eauto|].
      destruct (Nat.eqb_spec o oid) as [->|H4]; [exfalso; apply H1; eapply wf_uniq; eauto|reflexivity].
Qed.

(* 5. drop: the object at slot s is deleted and the slot cleared *)
Definition dropped (st:state) (s oid:nat) : state := sset (fre st oid) s None.
Lemma wf_dropped st s oid : WF st -> sref st s = Some oid ->
  WF (dropped st s oid) /\ (forall j, slot (dropped st s oid) j = if Nat.eqb j s then None else slot st j) /\ maxdev (dropped st s oid) = maxdev st.
Proof.
  intros W Hs. pose proof W as (Hl & Hm & Wf). assert (Hs254 : (s < 254)%nat) by (eapply sref_lt; eauto).
  assert (Hsrc : forall j, sref (dropped st s oid) j = if Nat.eqb j s then None else sref st j).
  { intros j. destruct (Nat.eqb_spec j s) as [->|H1]; [apply sref_sset_eq; cbn; lia|]. unfold dropped. rewrite sref_sset_neq by congruence. reflexivity. }
  assert (Hhp : forall o, o <> oid -> hp (dropped st s oid) o = hp st o).
  { intros o Ho. unfold dropped. change (hp (sset (fre st oid) s None) o) with (hp (fre st oid) o). apply hp_fre_neq. congruence. }
  split; [|split; [|reflexivity]].
  - apply wf_intro.
    + unfold dropped, sset, fre, with_hs. cbn [sources]. rewrite set_nth_length. exact Hl.
    + exact Hm.
    + intros i o Hi Hr. rewrite Hsrc in Hr. destruct (Nat.eqb_spec i s) as [->|H1]; [discriminate|].
      destruct (Wf i o Hr) as (x & Hx & Hsx & Hmx). exists x. rewrite Hhp; [auto|]. intros ->. apply H1. eapply wf_uniq; eauto.
  - intros j. unfold slot. rewrite Hsrc. destruct (Nat.eqb_spec j s) as [->|H1]; [reflexivity|].
    destruct (sref st j) as [o|] eqn:E; [|reflexivity]. apply Hhp. intros ->. apply H1. eapply wf_uniq; eauto.
Qed.

(* ---------- flags do not matter for the representation ---------- *)
Lemma wf_flags st u p : WF st -> WF (with_flags st u p).
Proof. intros W. exact W. Qed.
Lemma slot_flags st u p j : slot (with_flags st u p) j = slot st j.
Proof. reflexivity. Qed.

(* ---------- LocalFindDeviceByName ---------- *)
Lemma fbn_spec st name : WF st -> forall fuel i, 0 <= i -> Z.max 0 (maxdev st - i) < Z.of_nat fuel ->
  (exists k oid e, fbn st name fuel i = Ok (Some oid) /\ i <= Z.of_nat k /\ sref st k = Some oid /\ hp st oid = Some e /\ e_name e = name) \/
  (fbn st name fuel i = Ok None /\ forall j e, i <= Z.of_nat j -> slot st j = Some e -> e_name e <> name).
Proof.
  intros W. pose proof W as (Hl & Hm & Wf). induction fuel as [|fuel IH]; intros i Hi Hf; [lia|].
  cbn [fbn]. destruct (Z.geb_spec i (maxdev st)) as [Hge|Hlt].
  - right. split; [reflexivity|]. intros j e Hj Hs. destruct (slot_inv _ _ _ Hs) as (oid & Hr & _).
    destruct (Wf j oid Hr) as (_ & _ & _ & Hjm). lia.
  - rewrite src_get_ok by lia. cbn [bind]. destruct (sref st (Z.to_nat i)) as [oid|] eqn:Er.
    + destruct (wf_slot _ _ _ W Er) as (e & He & Hsl & _). rewrite (deref_ok _ _ _ He). cbn [bind].
      destruct (Z.eqb_spec (e_name e) name) as [Hn|Hn].
      * left. exists (Z.to_nat i), oid, e. repeat split; auto. lia.
      * destruct (IH (i + 1)) as [(k & o & x & E & Hk & R)|[E Hno]]; [lia|lia| |].
        -- left. exists k, o, x. split; [exact E|]. split; [lia|exact R].
        -- right. split; [exact E|]. intros j x Hj Hs. destruct (Z.eq_dec (Z.of_nat j) i) as [Hji|Hji].
           ++ assert (j = Z.to_nat i) by lia. subst j. rewrite Hsl in Hs. injection Hs as <-. exact Hn.
           ++ apply (Hno j x); [lia|exact Hs].
    + destruct (IH (i + 1)) as [(k & o & x & E & Hk & R)|[E Hno]]; [lia|lia| |].
      * left. exists k, o, x. split; [exact E|]. split; [lia|exact R].
      * right. split; [exact E|]. intros j x Hj Hs. destruct (Z.eq_dec (Z.of_nat j) i) as [Hji|Hji].
        -- assert (j = Z.to_nat i) by lia. subst j. unfold slot in Hs. rewrite Er in Hs. discriminate.
        -- apply (Hno j x); [lia|exact Hs].
Qed.
Lemma find_by_name_spec st name : WF st ->
  (exists k oid e, find_by_name st name = Ok (Some oid) /\ sref st k = Some oid /\ hp st oid = Some e /\ slot st k = Some e /\ e_name e = name) \/
  (find_by_name st name = Ok None /\ forall j e, slot st j = Some e -> e_name e <> name).
Proof.
  intros W. pose proof W as (Hl & Hm & Wf). destruct (fbn_spec st name W 300 0) as [(k & oid & e & E & _ & Hr & He & Hn)|[E Hno]]; [lia|lia| |].
  - left. exists k, oid, e. unfold slot. rewrite Hr. auto.
  - right. split; [exact E|]. intros j e Hs. apply (Hno j e); [lia|exact Hs].
Qed.

(* ---------- first free slot ---------- *)
Lemma first_none_spec : forall l i0, let r := first_none l i0 in
  i0 <= r <= i0 + Z.of_nat (length l) /\
  (r < i0 + Z.of_nat (length l) -> nth_error l (Z.to_nat (r - i0)) = Some None) /\
  (r = i0 + Z.of_nat (length l) -> forall j, (j < length l)%nat -> exists o, nth_error l j = Some (Some o)).
Proof.
  induction l as [|[o|] l IH]; intros i0 r; subst r; cbn [first_none length].
  - split; [lia|]. split; [lia|]. intros _ j Hj. cbn in Hj. lia.
  - destruct (IH (i0 + 1)) as (H1 & H2 & H3). split; [lia|]. split.
    + intros Hlt. replace (Z.to_nat (first_none l (i0 + 1) - i0)) with (S (Z.to_nat (first_none l (i0 + 1) - (i0 + 1)))) by lia.
      cbn [nth_error]. apply H2. lia.
    + intros Heq j Hj. destruct j as [|j]; [exists o; reflexivity|]. cbn [nth_error]. apply H3; lia.
  - split; [lia|]. split; [intros _; rewrite Z.sub_diag; reflexivity|]. intros Heq. lia.
Qed.

(* ---------- function views ---------- *)
Definition T_set (T:nat -> option entry) (s:nat) (v:option entry) : nat -> option entry := fun j => if Nat.eqb j s then v else T j.
Definition clr (e:entry) : entry := clear_pi_loaded e.

(* the claim has found its place: slot s is empty before *)
Definition placed (T T':nat -> option entry) (s:nat) (cn now:Z) : Prop :=
  (exists k e2, k <> s /\ T k = Some e2 /\ e_name e2 = cn /\
     forall j, T' j = T_set (T_set T k None) s (Some (clr (with_src e2 (Z.of_nat s)))) j) \/
  ((forall j e', T j = Some e' -> e_name e' <> cn) /\
     forall j, T' j = T_set T s (Some (clr (with_src (new_entry cn now) (Z.of_nat s)))) j).

Lemma claim_finish_ok st s oid e rq : WF st -> sref st s = Some oid -> hp st oid = Some e ->
  exists st', claim_finish st oid rq = Ok (st', rq) /\ WF st' /\ updated st' = true /\ maxdev st' = maxdev st /\
    forall j, slot st' j = T_set (slot st) s (Some (clr e)) j.
Proof.
  intros W Hr He. unfold claim_finish. rewrite (deref_ok _ _ _ He). cbn [bind]. rewrite (update_ok _ _ _ _ He). cbn [bind].
  destruct (wf_slot _ _ _ W Hr) as (e0 & He0 & _ & Hsrc & _). rewrite He in He0. injection He0 as <-.
  destruct (wf_upd st s oid (clear_pi_loaded e) W Hr) as (W' & Hsl & _); [exact Hsrc|].
  eexists. split; [reflexivity|]. split; [apply wf_flags; exact W'|]. split; [reflexivity|]. split; [reflexivity|].
  intros j. rewrite slot_flags. apply Hsl.
Qed.

Lemma claim_place_ok now st s cn rq : WF st -> (s < 254)%nat -> sref st s = None ->
  exists st', claim_place now st (Z.of_nat s) cn rq = Ok (st', rq) /\ WF st' /\ updated st' = true /\ maxdev st <= maxdev st' /\
    placed (slot st) (slot st') s cn now.
Proof.
  intros W Hs Hr. pose proof W as (Hl & Hm & Wf). unfold claim_place.
  destruct (find_by_name_spec st cn W) as [(k & oid & e & E & Hk & He & Hsl & Hn)|[E Hno]]; rewrite E; cbn [bind].
  - rewrite (deref_ok _ _ _ He). cbn [bind].
    destruct (wf_slot _ _ _ W Hk) as (e0 & He0 & _ & Hsrc & _). rewrite He in He0. injection He0 as <-.
    assert (Hk254 : (k < 254)%nat) by (eapply sref_lt; eauto).
    rewrite Hsrc. rewrite src_set_ok by lia. cbn [bind]. rewrite Nat2Z.id.
    assert (Hks : k <> s) by (intros ->; congruence).
    rewrite (save_device_ok (sset st k None) oid e s); [|cbn; rewrite set_nth_length; exact Hl|exact Hs|exact He]. cbn [bind].
    fold (moved st k s oid e).
    destruct (wf_moved st k s oid e W Hk He Hr Hs) as (W1 & Hsl1 & Hmax1).
    assert (Hr1 : sref (moved st k s oid e) s = Some oid).
    { unfold moved, sv, sref, with_hs. cbn [sources]. rewrite nth_error_set_nth_eq by (cbn; rewrite set_nth_length; lia). reflexivity. }
    assert (He1 : hp (moved st k s oid e) oid = Some (with_src e (Z.of_nat s))).
    { pose proof (Hsl1 s) as H. rewrite Nat.eqb_refl in H. unfold slot in H. rewrite Hr1 in H. exact H. }
    destruct (claim_finish_ok _ s oid _ rq W1 Hr1 He1) as (st' & E' & W' & Hu & Hmx & Hsl').
    exists st'. split; [exact E'|]. split; [exact W'|]. split; [exact Hu|]. split; [rewrite Hmx, Hmax1; apply mx_ge|].
    left. exists k, e. split; [exact Hks|]. split; [exact Hsl|]. split; [exact Hn|].
    intros j. rewrite Hsl'. unfold T_set. destruct (Nat.eqb_spec j s); [reflexivity|]. rewrite Hsl1.
    destruct (Nat.eqb_spec j s); [congruence|]. reflexivity.
  - destruct (alloc st (new_entry cn now)) as [st1 oid] eqn:Ea.
    assert (Hoid : oid = length (heap st)) by (unfold alloc in Ea; congruence).
    assert (Hst1 : st1 = fst (alloc st (new_entry cn now))) by (rewrite Ea; reflexivity).
    destruct (wf_added st (new_entry cn now) s W Hr Hs) as (W1 & Hsl1 & Hmax1 & Hhp1).
    rewrite (save_device_ok st1 oid (new_entry cn now) s); [|subst st1; cbn; exact Hl|exact Hs|subst; exact Hhp1]. cbn [bind].
    subst oid st1. fold (added st (new_entry cn now) s).
    assert (Hr1 : sref (added st (new_entry cn now) s) s = Some (length (heap st))).
    { unfold added, sv, sref, alloc, with_hs. cbn [fst sources]. rewrite nth_error_set_nth_eq by lia. reflexivity. }
    assert (He1 : hp (added st (new_entry cn now) s) (length (heap st)) = Some (with_src (new_entry cn now) (Z.of_nat s))).
    { pose proof (Hsl1 s) as H. rewrite Nat.eqb_refl in H. unfold slot in H. rewrite Hr1 in H. exact H. }
    destruct (claim_finish_ok _ s _ _ rq W1 Hr1 He1) as (st' & E' & W' & Hu & Hmx & Hsl').
    exists st'. split; [exact E'|]. split; [exact W'|]. split; [exact Hu|]. split; [rewrite Hmx, Hmax1; apply mx_ge|].
    right. split; [exact Hno|]. intros j. rewrite Hsl'. unfold T_set. destruct (Nat.eqb_spec j s); [reflexivity|]. rewrite Hsl1.
    destruct (Nat.eqb_spec j s); [congruence|]. reflexivity.
Qed.

(* ---------- HandleIsoAddressClaim ---------- *)
Definition claim_eff (T T':nat -> option entry) (s:nat) (cn now:Z) : Prop :=
  match T s with
  | None => placed T T' s cn now
  | Some e =>
    if e_name e =? 0 then
      (exists k e2, k <> s /\ T k = Some e2 /\ e_name e2 = cn /\
         forall j, T' j = T_set (T_set T k None) s (Some (clr (with_src e2 (Z.of_nat s)))) j) \/
      ((cn <> 0 -> forall j e', T j = Some e' -> e_name e' <> cn) /\
         forall j, T' j = T_set T s (Some (clr (with_name e cn))) j)
    else if e_name e =? cn then forall j, T' j = T j
    else exists T1,
      ((exists i, i <> s /\ T i = None /\ forall j, T1 j = T_set (T_set T i (Some (with_src e (Z.of_nat i)))) s None j) \/
       (forall j, T1 j = T_set T s None j)) /\
      placed T1 T' s cn now
  end.

Lemma sref_of_slot_T st s v (T:nat -> option entry) : WF st -> (forall j, slot st j = T_set T s v j) -> v = None -> sref st s = None.
Proof. intros W H ->. apply wf_sref_of_slot_none; [exact W|]. rewrite H. unfold T_set. rewrite Nat.eqb_refl. reflexivity. Qed.

Lemma handle_claim_ok now ok m st s : WF st -> b_src m = Z.of_nat s -> (s < 254)%nat ->
  exists st' rq, handle_claim now ok m st = Ok (st', rq) /\ WF st' /\ claim_eff (slot st) (slot st') s (claim_name m) now /\
    (updated st' = true \/ st' = st) /\ maxdev st <= maxdev st'.
Proof.
  intros W Hsrc Hs. pose proof W as (Hl & Hm & Wf). unfold handle_claim. rewrite Hsrc. set (cn := claim_name m).
  rewrite src_get_ok by lia. cbn [bind]. rewrite Nat2Z.id. unfold claim_eff.
  destruct (sref st s) as [oid|] eqn:Er.
  2:{ destruct (claim_place_ok now st s cn [] W Hs Er) as (st' & E & W' & Hu & Hmx & Hp).
      exists st', []. rewrite (slot_none_of_sref _ _ Er). split; [exact E|]. split; [exact W'|]. split; [exact Hp|]. split; [left; exact Hu|exact Hmx]. }
  destruct (wf_slot _ _ _ W Er) as (e & He & Hsl & Hes & Hlt). rewrite (deref_ok _ _ _ He). cbn [bind]. rewrite Hsl.
  destruct (Z.eqb_spec (e_name e) 0) as [Hn0|Hn0].
  - (* placeholder *)
    assert (Hname : forall st0, st0 = st ->
      exists st' rq, (st1 <- update st0 oid (with_name e cn) ;; claim_finish (with_flags st1 true (pending st1)) oid []) = Ok (st', rq) /\ WF st' /\
        (forall j, slot st' j = T_set (slot st) s (Some (clr (with_name e cn))) j) /\ updated st' = true /\ maxdev st <= maxdev st').
    { intros st0 ->. rewrite (update_ok _ _ _ _ He). cbn [bind].
      destruct (wf_upd st s oid (with_name e cn) W Er) as (W1 & Hsl1 & Hr1); [exact Hes|].
      assert (He1 : hp (upd st oid (with_name e cn)) oid = Some (with_name e cn)) by (apply (hp_upd_eq _ _ _ _ He)).
      destruct (claim_finish_ok (with_flags (upd st oid (with_name e cn)) true (pending (upd st oid (with_name e cn)))) s oid (with_name e cn) []) as (st' & E' & W' & Hu & Hmx & Hsl');
        [apply wf_flags; exact W1|exact (eq_trans (Hr1 s) Er)|exact He1|].
      exists st', []. split; [exact E'|]. split; [exact W'|]. split; [|split; [exact Hu|rewrite Hmx; cbn; lia]].
      intros j. rewrite Hsl'. unfold T_set. rewrite slot_flags, Hsl1. destruct (Nat.eqb_spec j s); reflexivity. }
    destruct (find_by_name_spec st cn W) as [(k & oid2 & e2 & E & Hk & He2 & Hsl2 & Hn2)|[E Hno]]; rewrite E; cbn [bind].
    + destruct (Nat.eqb_spec oid2 oid) as [Hoo|Hoo].
      * destruct (Hname st eq_refl) as (st' & rq & E' & W' & Hsl' & Hu & Hmx). exists st', rq. split; [exact E'|]. split; [exact W'|].
        split; [|split; [left; exact Hu|exact Hmx]]. right. split; [|exact Hsl'].
        intros Hcn. exfalso. subst oid2. rewrite He in He2. injection He2 as <-. congruence.
      * assert (Hks : k <> s) by (intros ->; congruence).
        rewrite (free_ok _ _ _ He). cbn [bind].
        rewrite (deref_ok (fre st oid) oid2 e2) by (rewrite hp_fre_neq by congruence; exact He2). cbn [bind].
        destruct (wf_slot _ _ _ W Hk) as (e0 & He0 & _ & Hsrc2 & _). rewrite He2 in He0. injection He0 as <-.
        assert (Hk254 : (k < 254)%nat) by (eapply sref_lt; eauto).
        rewrite Hsrc2. rewrite src_set_ok by lia. cbn [bind]. rewrite Nat2Z.id.
        rewrite (save_device_ok (sset (fre st oid) k None) oid2 e2 s); [|cbn; rewrite set_nth_length; exact Hl|exact Hs|].
        2:{ change (hp (sset (fre st oid) k None) oid2) with (hp (fre st oid) oid2). rewrite hp_fre_neq by congruence. exact He2. }
        cbn [bind]. fold (replaced st k s oid oid2 e2).
        destruct (wf_replaced st k s oid oid2 e2 W Er Hk He2 Hks) as (W1 & Hsl1 & Hmax1).
        assert (Hr1 : sref (replaced st k s oid oid2 e2) s = Some oid2).
        { unfold replaced, sv, sref, with_hs. cbn [sources]. rewrite nth_error_set_nth_eq by (cbn; rewrite set_nth_length; lia). reflexivity. }
        assert (He1 : hp (replaced st k s oid oid2 e2) oid2 = Some (with_src e2 (Z.of_nat s))).
        { pose proof (Hsl1 s) as H. rewrite Nat.eqb_refl in H. unfold slot in H. rewrite Hr1 in H. exact H. }
        destruct (claim_finish_ok _ s oid2 _ [] W1 Hr1 He1) as (st' & E' & W' & Hu & Hmx & Hsl').
        exists st', []. split; [exact E'|]. split; [exact W'|]. split; [|split; [left; exact Hu|rewrite Hmx, Hmax1; lia]].
        left. exists k, e2. split; [exact Hks|]. split; [exact Hsl2|]. split; [exact Hn2|].
        intros j. rewrite Hsl'. unfold T_set. destruct (Nat.eqb_spec j s); [reflexivity|]. rewrite Hsl1.
        destruct (Nat.eqb_spec j s); [congruence|]. reflexivity.
    + destruct (Hname st eq_refl) as (st' & rq & E' & W' & Hsl' & Hu & Hmx). exists st', rq. split; [exact E'|]. split; [exact W'|].
      split; [|split; [left; exact Hu|exact Hmx]]. right. split; [|exact Hsl']. intros _. exact Hno.
  - destruct (Z.eqb_spec (e_name e) cn) as [Hnc|Hnc]; cbn [negb].
    + exists st, []. split; [reflexivity|]. split; [exact W|]. split; [intros j; reflexivity|]. split; [right; reflexivity|lia].
    + (* takeover: the old device is parked in the first free slot, or deleted *)
      pose proof (first_none_spec (sources st) 0) as (Hfr & Hfree & Hfull). cbn zeta in Hfr, Hfree, Hfull. rewrite Hl in *.
      set (i := first_none (sources st) 0) in *. unfold MaxBus.
      destruct (Z.ltb_spec i 254) as [Hi|Hi].
      * assert (Hri : sref st (Z.to_nat i) = None).
        { unfold sref. rewrite Z.sub_0_r in Hfree. rewrite Hfree by lia. reflexivity. }
        assert (His : Z.to_nat i <> s) by (intros Heq; rewrite Heq in Hri; congruence).
        pose proof (save_device_ok st oid e (Z.to_nat i) Hl ltac:(lia) He) as Hsv. rewrite Z2Nat.id in Hsv by lia.
        rewrite Hsv. cbn [bind].
        rewrite src_set_ok by lia. cbn [bind]. rewrite Nat2Z.id. rewrite moved_alt by congruence.
        destruct (wf_moved st s (Z.to_nat i) oid e W Er He Hri ltac:(lia)) as (W1 & Hsl1 & Hmax1).
        assert (Hr1 : sref (moved st s (Z.to_nat i) oid e) s = None).
        { apply wf_sref_of_slot_none; [exact W1|]. rewrite Hsl1. destruct (Nat.eqb_spec s (Z.to_nat i)); [congruence|]. rewrite Nat.eqb_refl. reflexivity. }
        destruct (claim_place_ok now _ s cn (send ok 255 PGN_claim) W1 Hs Hr1) as (st' & E' & W' & Hu & Hmx & Hp).
        exists st', (send ok 255 PGN_claim). split; [exact E'|]. split; [exact W'|]. split; [|split; [left; exact Hu|]].
        2:{ pose proof (mx_ge st (Z.of_nat (Z.to_nat i))). lia. }
        exists (slot (moved st s (Z.to_nat i) oid e)). split; [|exact Hp]. left. exists (Z.to_nat i). split; [exact His|].
        split; [apply slot_none_of_sref; exact Hri|]. intros j. rewrite Hsl1. unfold T_set.
        destruct (Nat.eqb_spec j s) as [->|Hjs].
        -- destruct (Nat.eqb_spec s (Z.to_nat i)); [congruence|reflexivity].
        -- destruct (Nat.eqb_spec j (Z.to_nat i)); reflexivity.
      * rewrite (free_ok _ _ _ He). cbn [bind]. rewrite src_set_ok by lia. cbn [bind]. rewrite Nat2Z.id. fold (dropped st s oid).
        destruct (wf_dropped st s oid W Er) as (W1 & Hsl1 & Hmax1).
        assert (Hr1 : sref (dropped st s oid) s = None).
        { apply wf_sref_of_slot_none; [exact W1|]. rewrite Hsl1, Nat.eqb_refl. reflexivity. }
        destruct (claim_place_ok now _ s cn [] W1 Hs Hr1) as (st' & E' & W' & Hu & Hmx & Hp).
        exists st', []. split; [exact E'|]. split; [exact W'|]. split; [|split; [left; exact Hu|lia]].
        exists (slot (dropped st s oid)). split; [|exact Hp]. right. intros j. rewrite Hsl1. reflexivity.
Qed.

(* ---------- messages ---------- *)
Lemma pl_length m : (length (pl m) <= 223)%nat.
Proof. unfold pl. rewrite map_length, firstn_length. lia. Qed.
Lemma pl_bytes m : bytes (pl m).
Proof. unfold bytes, pl. apply Forall_forall. intros x Hx. apply in_map_iff in Hx. destruct Hx as (y & <- & _). apply Z.mod_pos_bound. lia. Qed.
Lemma dlen_range m : 0 <= dlen m <= 223.
Proof. unfold dlen. pose proof (pl_length m). lia. Qed.
Lemma tmsg_payload m : payload (tmsg m).
Proof.
  unfold payload, tmsg. cbn [mdata mlen]. split; [|apply dlen_range].
  rewrite app_length, repeat_length. pose proof (pl_length m). lia.
Qed.
Lemma tmsg_bytes m : bytes (mdata (tmsg m)).
Proof.
  unfold tmsg, bytes. cbn [mdata]. apply Forall_app. split; [apply pl_bytes|]. apply Forall_forall. intros x Hx. apply repeat_spec in Hx. subst. lia.
Qed.

(* ---------- GetVarStr: the size it reports ---------- *)
Lemma get_byte_range m idx v i : payload m -> bytes (mdata m) -> 0 <= idx -> get_byte m idx = Ok (v, i) -> 0 <= v <= 255 /\ idx <= i <= idx + 1.
Proof.
  intros [Hd Hl] Hb Hi. unfold get_byte. destruct (Z.ltb_spec idx (mlen m)) as [Hlt|Hge].
  - unfold rdb, inb. destruct (Z.leb_spec 0 idx); [|lia]. destruct (Z.ltb_spec idx (Z.of_nat (length (mdata m)))); [|lia]. cbn [andb bind].
    intros E. injection E as <- <-. split; [|lia]. unfold znth.
    assert (Hin : In (nth (Z.to_nat idx) (mdata m) 0) (mdata m)) by (apply nth_In; lia).
    unfold bytes in Hb. rewrite Forall_forall in Hb. specialize (Hb _ Hin). lia.
  - intros E. injection E as <- <-. lia.
Qed.

Lemma gvs_bound m dest nul idx r sz i d : payload m -> bytes (mdata m) -> 0 <= idx ->
  get_var_str m (Z.of_nat (length dest)) dest nul idx = Ok (r, sz, i, d) ->
  (0 <= sz /\ (sz <= 255 \/ sz <= Z.of_nat (length dest) - 1)) /\ length d = length dest /\ 0 <= i.
Proof.
  intros Hp Hb Hi E.
  destruct (get_var_str_safe m dest nul idx Hp Hi) as (r' & sz' & i' & d' & E' & Hlen & _ & Hi').
  cbn zeta in E'. rewrite E in E'. injection E' as <- <- <- <-.
  split; [|split; [exact Hlen|exact Hi']]. clear Hlen Hi'.
  revert E. unfold get_var_str.
  destruct (get_byte m idx) as [[len i1]| |] eqn:E1; cbn [bind]; try discriminate.
  destruct (get_byte_range _ _ _ _ Hp Hb Hi E1) as (Hlen1 & Hi1). cbn [fst snd].
  destruct (get_byte m i1) as [[type i2]| |] eqn:E2; cbn [bind]; try discriminate.
  destruct (get_byte_range m i1 type i2 Hp Hb ltac:(lia) E2) as (Ht & Hi2). cbn [fst snd].
  pose proof Hp as [Hd Hl].
  destruct ((len <=? 2) || (len =? 255) || (type >? 1) || (i2 >=? mlen m)) eqn:Ebad.
  { destruct (Z.of_nat (length dest) >? 0); [destruct (wr dest 0 0); cbn [bind]; try discriminate|cbn [bind]];
      destruct ((len =? 2) && (type <=? 1)); intros E; injection E as _ <- _ _; lia. }
  apply orb_false_iff in Ebad. destruct Ebad as [Ebad E4]. apply orb_false_iff in Ebad. destruct Ebad as [Ebad E3].
  apply orb_false_iff in Ebad. destruct Ebad as [Ea Eb]. apply Z.leb_gt in Ea. rewrite Z.geb_leb in E4. apply Z.leb_gt in E4.
  set (len2 := if len - 2 + i2 >? mlen m then (mlen m - i2) mod 256 else len - 2).
  assert (Hlen2 : 0 <= len2 <= 255 /\ i2 + len2 <= mlen m).
  { subst len2. destruct (Z.gtb_spec (len - 2 + i2) (mlen m)); [rewrite Z.mod_small by lia; lia|lia]. }
  destruct (Z.gtb_spec (Z.of_nat (length dest)) 0) as [Hpos|Hz]; [|intros E; injection E as _ <- _ _; lia].
  destruct (Z.eqb_spec type 1).
  - destruct (get_str_sized m (Z.of_nat (length dest)) dest len2 nul i2) as [[[x y] z]| |]; cbn [bind]; try discriminate.
    intros E. injection E as _ <- _ _. lia.
  - destruct (ucs2_to_utf8_spec m dest i2 len2 nul Hp ltac:(lia) ltac:(lia) ltac:(lia) ltac:(lia)) as [Eu Hol].
    rewrite Eu. cbn [bind fst snd]. intros E. injection E as _ <- _ _. lia.
Qed.

Lemma gvs3_ok tm dest idx : payload tm -> bytes (mdata tm) -> 0 <= idx ->
  exists r sz i d, get_var_str3 tm (Z.of_nat (length dest)) dest idx = Ok (r, sz, i, d) /\
    0 <= sz /\ (sz <= 255 \/ sz <= Z.of_nat (length dest) - 1) /\ length d = length dest /\ 0 <= i.
Proof.
  intros Hp Hb Hi. unfold get_var_str3.
  destruct (get_var_str_safe tm dest 255 idx Hp Hi) as (r & sz & i & d & E & _).
  cbn zeta in E. destruct (gvs_bound _ _ _ _ _ _ _ _ Hp Hb Hi E) as ((H1 & H2) & H3 & H4).
  exists r, sz, i, d. auto.
Qed.

(* ---------- HandleConfigurationInformation ---------- *)
Lemma scratch_len : Z.of_nat (length (repeat 0 (Z.to_nat SCRATCH))) = SCRATCH.
Proof. rewrite repeat_length. reflexivity. Qed.

Lemma measure_conf_ok tm : payload tm -> bytes (mdata tm) ->
  measure_conf tm = Ok None \/
  exists m0 a0 b0, measure_conf tm = Ok (Some (m0, a0, b0)) /\ 0 <= m0 <= 334 /\ 0 <= a0 <= 334 /\ 0 <= b0 <= 334.
Proof.
  intros Hp Hb. unfold measure_conf. set (sc := repeat 0 (Z.to_nat SCRATCH)).
  assert (Hsc : Z.of_nat (length sc) = SCRATCH) by apply scratch_len.
  destruct (gvs3_ok tm sc 0 Hp Hb ltac:(lia)) as (r1 & s1 & i1 & b1 & E1 & H1a & H1b & H1c & H1d).
  rewrite Hsc in E1, H1b. rewrite E1. cbn [bind]. destruct r1; cbn [negb]; [|left; reflexivity].
  destruct (gvs3_ok tm b1 i1 Hp Hb H1d) as (r2 & s2 & i2 & b2 & E2 & H2a & H2b & H2c & H2d).
  rewrite H1c, Hsc in E2, H2b. rewrite E2. cbn [bind]. destruct r2; cbn [negb]; [|left; reflexivity].
  destruct (gvs3_ok tm b2 i2 Hp Hb H2d) as (r3 & s3 & i3 & b3 & E3 & H3a & H3b & H3c & H3d).
  rewrite H2c, H1c, Hsc in E3, H3b. rewrite E3. cbn [bind]. destruct r3; cbn [negb]; [|left; reflexivity].
  right. exists s3, s1, s2. unfold SCRATCH in *. split; [reflexivity|]. lia.
Qed.

Definition conf_only (e e2:entry) : Prop := e2 = with_conf e (e_cil e2) (e_confi e2) (e_man e2) (e_d1 e2) (e_d2 e2).
Lemma conf_only_refl e : conf_only e e.
Proof. destruct e; reflexivity. Qed.
Lemma conf_only_with e l b m d1 d2 : conf_only e (with_conf e l b m d1 d2).
Proof. reflexivity. Qed.
Lemma conf_only_trans e e1 l b m d1 d2 : conf_only e e1 -> conf_only e (with_conf e1 l b m d1 d2).
Proof. intros H. rewrite H. reflexivity. Qed.

(* where the three fields lie after InitConfigurationInformation *)
Definition field_ok (b:option (list Z)) (ptr:option Z) (sz off:Z) : Prop :=
  if sz >? 0 then ptr = Some off /\ exists l, b = Some l /\ off + sz <= Z.of_nat (length l) else ptr = None.

Lemma init_conf_ok e szM sz1 sz2 : 0 <= szM <= 335 -> 0 <= sz1 <= 335 -> 0 <= sz2 <= 335 ->
  exists e1, init_conf e szM sz1 sz2 = Ok e1 /\ conf_only e e1 /\
    field_ok (e_confi e1) (e_man e1) szM 0 /\ field_ok (e_confi e1) (e_d1 e1) sz1 szM /\ field_ok (e_confi e1) (e_d2 e1) sz2 (szM + sz1).
Proof.
  intros HM H1 H2. unfold init_conf. rewrite (Z.mod_small (szM + sz1 + sz2) 65536) by lia. set (total := szM + sz1 + sz2).
  set (kept := match e_confi e with Some b => if Z.of_nat (length b) <? total then None else Some b | None => None end).
  set (buf := match kept with Some b => Some b | None => if total >? 0 then Some (repeat 0 (Z.to_nat total)) else None end).
  assert (Hbuf : total > 0 -> exists l, buf = Some l /\ total <= Z.of_nat (length l)).
  { intros Ht. subst buf kept. destruct (e_confi e) as [b|].
    - destruct (Z.ltb_spec (Z.of_nat (length b)) total).
      + destruct (Z.gtb_spec total 0); [|lia]. eexists. split; [reflexivity|]. rewrite repeat_length. lia.
      + exists b. split; [reflexivity|lia].
    - destruct (Z.gtb_spec total 0); [|lia]. eexists. split; [reflexivity|]. rewrite repeat_length. lia. }
  (* one mark step *)
  assert (Hmark : forall (b:option (list Z)) sz off, 0 <= off -> 0 <= sz -> (sz > 0 -> exists l, b = Some l /\ off + sz <= Z.of_nat (length l)) ->
    exists b' p, (if sz >? 0 then match b with Some l => l' <- wr l off 0 ;; Ok (Some l', Some off) | None => OOB end else Ok (b, None)) = Ok (b', p) /\
      field_ok b' p sz off /\ (forall l, b = Some l -> exists l', b' = Some l' /\ length l' = length l) /\ (b = None -> b' = None)).
  { intros b sz off Ho Hs Hb. unfold field_ok. destruct (Z.gtb_spec sz 0) as [Hp|Hz].
    - destruct (Hb ltac:(lia)) as (l & -> & Hl). rewrite wr_ok by lia. cbn [bind]. eexists _, _. split; [reflexivity|]. split.
      + split; [reflexivity|]. eexists. split; [reflexivity|]. rewrite zset_length. exact Hl.
      + split; [|discriminate]. intros l0 E. injection E as <-. eexists. split; [reflexivity|apply zset_length].
    - exists b, None. split; [reflexivity|]. split; [reflexivity|]. split; [|auto]. intros l ->. exists l. auto. }
  destruct (Hmark buf szM 0) as (bA & pA & EA & FA & LA & NA); [lia|lia| |].
  { intros Hp. destruct Hbuf as (l & E & Hl); [lia|]. exists l. split; [exact E|lia]. }
  rewrite EA. cbn [bind fst snd].
  destruct (Hmark bA sz1 szM) as (bB & pB & EB & FB & LB & NB); [lia|lia| |].
  { intros Hp. destruct Hbuf as (l & E & Hl); [lia|]. destruct (LA l E) as (l' & E' & Hl'). exists l'. split; [exact E'|lia]. }
  rewrite EB. cbn [bind fst snd].
  destruct (Hmark bB sz2 (szM + sz1)) as (bC & pC & EC & FC & LC & NC); [lia|lia| |].
  { intros Hp. destruct Hbuf as (l & E & Hl); [lia|]. destruct (LA l E) as (l' & E' & Hl'). destruct (LB l' E') as (l'' & E'' & Hl'').
    exists l''. split; [exact E''|lia]. }
  rewrite EC. cbn [bind fst snd].
  eexists. split; [reflexivity|]. split; [apply conf_only_with|]. cbn [with_conf e_confi e_man e_d1 e_d2].
  (* the earlier fields still lie inside the final buffer (same length) *)
  assert (Hlift : forall b b' p sz off, field_ok b p sz off -> (forall l, b = Some l -> exists l', b' = Some l' /\ length l' = length l) -> field_ok b' p sz off).
  { intros b b' p sz off F L. unfold field_ok in *. destruct (sz >? 0); [|exact F]. destruct F as (-> & l & E & Hl). split; [reflexivity|].
    destruct (L l E) as (l' & E' & Hl'). exists l'. split; [exact E'|lia]. }
  split; [|split; [|exact FC]].
  - apply (Hlift bA bC); [exact FA|]. intros l E. destruct (LB l E) as (l' & E' & Hl'). destruct (LC l' E') as (l'' & E'' & Hl''). exists l''. split; [exact E''|lia].
  - apply (Hlift bB bC); [exact FB|exact LC].
Qed.

Lemma slice_ok b off sz : 0 <= off -> 0 <= sz -> off + sz <= Z.of_nat (length b) ->
  exists d, slice b off sz = Ok d /\ Z.of_nat (length d) = sz.
Proof.
  intros Ho Hs Hl. unfold slice. destruct (Z.leb_spec 0 off); [|lia]. destruct (Z.leb_spec 0 sz); [|lia].
  destruct (Z.leb_spec (off + sz) (Z.of_nat (length b))); [|lia]. cbn [andb]. eexists. split; [reflexivity|].
  rewrite firstn_length, skipn_length. lia.
Qed.
Lemma put_length b off d : 0 <= off -> off + Z.of_nat (length d) <= Z.of_nat (length b) -> length (put b off d) = length b.
Proof. intros Ho Hl. unfold put. rewrite !app_length, firstn_length, skipn_length. lia. Qed.

Lemma read_field_ok tm buf ptr sz off idx : payload tm -> bytes (mdata tm) -> 0 <= idx -> 0 <= off -> 0 <= sz -> field_ok buf ptr sz off ->
  exists ok i buf', read_field tm buf ptr sz idx = Ok (ok, i, buf') /\ 0 <= i /\
    (forall l, buf = Some l -> exists l', buf' = Some l' /\ length l' = length l) /\ (buf = None -> buf' = None).
Proof.
  intros Hp Hb Hi Ho Hs F. unfold field_ok in F. unfold read_field. destruct (Z.gtb_spec sz 0) as [Hpos|Hz].
  - destruct F as (-> & l & -> & Hl). destruct (slice_ok l off sz Ho Hs Hl) as (d & Ed & Hd). rewrite Ed. cbn [bind].
    destruct (gvs3_ok tm d idx Hp Hb Hi) as (r & s & i & d' & E & _ & _ & Hd' & Hi'). rewrite Hd in E. rewrite E. cbn [bind].
    eexists _, _, _. split; [reflexivity|]. split; [exact Hi'|]. split; [|discriminate].
    intros l0 E0. injection E0 as <-. eexists. split; [reflexivity|]. apply put_length; [exact Ho|]. rewrite Hd'. lia.
  - subst ptr. destruct (gvs3_ok tm [] idx Hp Hb Hi) as (r & s & i & d' & E & _ & _ & _ & Hi'). cbn [length Z.of_nat] in E.
    destruct buf as [b|]; rewrite E; cbn [bind]; eexists _, _, _; (split; [reflexivity|]); (split; [exact Hi'|]); split; eauto; discriminate.
Qed.

Lemma field_ok_lift b b' p sz off : field_ok b p sz off -> (forall l, b = Some l -> exists l', b' = Some l' /\ length l' = length l) -> field_ok b' p sz off.
Proof.
  intros F L. unfold field_ok in *. destruct (sz >? 0); [|exact F]. destruct F as (-> & l & E & Hl). split; [reflexivity|].
  destruct (L l E) as (l' & E' & Hl'). exists l'. split; [exact E'|lia].
Qed.

Definition one_slot (st st':state) (s:nat) (e':entry) : Prop :=
  WF st' /\ maxdev st' = maxdev st /\ forall j, slot st' j = T_set (slot st) s (Some e') j.

Lemma update_one_slot st s oid e e' : WF st -> sref st s = Some oid -> hp st oid = Some e -> e_src e' = e_src e ->
  update st oid e' = Ok (upd st oid e') /\ one_slot st (upd st oid e') s e'.
Proof.
  intros W Hr He Hs. split; [apply (update_ok _ _ _ _ He)|].
  destruct (wf_slot _ _ _ W Hr) as (e0 & He0 & _ & Hsrc & _). rewrite He in He0. injection He0 as <-.
  destruct (wf_upd st s oid e' W Hr) as (W' & Hsl & _); [congruence|]. split; [exact W'|]. split; [reflexivity|exact Hsl].
Qed.

Lemma handle_conf_ok m st s : WF st -> b_src m = Z.of_nat s -> (s < 254)%nat ->
  exists st', handle_conf m st = Ok st' /\ WF st' /\ maxdev st' = maxdev st /\
    (st' = st \/ exists e e2, slot st s = Some e /\ conf_only e e2 /\ updated st' = true /\ forall j, slot st' j = T_set (slot st) s (Some e2) j).
Proof.
  intros W Hsrc Hs. pose proof W as (Hl & Hm & Wf). unfold handle_conf. rewrite Hsrc. rewrite src_get_ok by lia. cbn [bind]. rewrite Nat2Z.id.
  destruct (sref st s) as [oid|] eqn:Er; [|exists st; auto].
  destruct (wf_slot _ _ _ W Er) as (e & He & Hsl & Hes & _). rewrite (deref_ok _ _ _ He). cbn [bind].
  pose proof (tmsg_payload m) as Hp. pose proof (tmsg_bytes m) as Hb.
  destruct (measure_conf_ok (tmsg m) Hp Hb) as [E|(m0 & a0 & b0 & E & Hm0 & Ha0 & Hb0)]; rewrite E; cbn [bind]; [exists st; auto|].
  set (szM := if m0 >? 0 then m0 + 1 else 0). set (sz1 := if a0 >? 0 then a0 + 1 else 0). set (sz2 := if b0 >? 0 then b0 + 1 else 0).
  assert (HszM : 0 <= szM <= 335) by (subst szM; destruct (m0 >? 0); lia).
  assert (Hsz1 : 0 <= sz1 <= 335) by (subst sz1; destruct (a0 >? 0); lia).
  assert (Hsz2 : 0 <= sz2 <= 335) by (subst sz2; destruct (b0 >? 0); lia).
  destruct (init_conf_ok e szM sz1 sz2 HszM Hsz1 Hsz2) as (e1 & E1 & Hco & FM & F1 & F2). rewrite E1. cbn [bind].
  assert (Hfin : forall e2, conf_only e e2 ->
     exists st', (st1 <- update st oid e2 ;; Ok (with_flags st1 true (pending st1))) = Ok st' /\ WF st' /\ maxdev st' = maxdev st /\
       (st' = st \/ exists e e2, slot st s = Some e /\ conf_only e e2 /\ updated st' = true /\ forall j, slot st' j = T_set (slot st) s (Some e2) j)).
  { intros e2 Hc. destruct (update_one_slot st s oid e e2 W Er He) as (Eu & W' & Hmx & Hsl'); [rewrite Hc; reflexivity|].
    rewrite Eu. cbn [bind]. eexists. split; [reflexivity|]. split; [apply wf_flags; exact W'|]. split; [exact Hmx|].
    right. exists e, e2. split; [exact Hsl|]. split; [exact Hc|]. split; [reflexivity|]. intros j. rewrite slot_flags. apply Hsl'. }
  destruct (Z.gtb_spec (szM + sz1 + sz2) 0) as [Hpos|Hzero]; [|cbn [bind]; apply Hfin; exact Hco].
  destruct (read_field_ok (tmsg m) (e_confi e1) (e_d1 e1) sz1 szM 0 Hp Hb ltac:(lia) ltac:(lia) ltac:(lia) F1) as (ok1 & i1 & c1 & R1 & Hi1 & L1 & N1).
  rewrite R1. cbn [bind]. destruct ok1; cbn [negb]; [|cbn [bind]; apply Hfin; apply conf_only_trans; exact Hco].
  destruct (read_field_ok (tmsg m) c1 (e_d2 e1) sz2 (szM + sz1) i1 Hp Hb Hi1 ltac:(lia) ltac:(lia) (field_ok_lift _ _ _ _ _ F2 L1)) as (ok2 & i2 & c2 & R2 & Hi2 & L2 & N2).
  rewrite R2. cbn [bind]. destruct ok2; cbn [negb]; [|cbn [bind]; apply Hfin; apply conf_only_trans; exact Hco].
  assert (L12 : forall l, e_confi e1 = Some l -> exists l', c2 = Some l' /\ length l' = length l).
  { intros l El. destruct (L1 l El) as (l' & El' & Hl'). destruct (L2 l' El') as (l'' & El'' & Hl''). exists l''. split; [exact El''|lia]. }
  destruct (read_field_ok (tmsg m) c2 (e_man e1) szM 0 i2 Hp Hb Hi2 ltac:(lia) ltac:(lia) (field_ok_lift _ _ _ _ _ FM L12)) as (ok3 & i3 & c3 & R3 & Hi3 & L3 & N3).
  rewrite R3. cbn [bind]. apply Hfin. apply conf_only_trans. exact Hco.
Qed.

(* ---------- what a well formed 126998 made of ASCII strings leaves behind ---------- *)
Lemma get_byte_at m idx b r : payload m -> 0 <= idx < mlen m -> from m idx = b :: r -> get_byte m idx = Ok (b, idx + 1) /\ from m (idx + 1) = r.
Proof.
  intros Hp Hi Hf. rewrite (from_cons m idx Hp Hi) in Hf. injection Hf as Hb Hr.
  rewrite get_byte_in by assumption. rewrite Hb. split; [reflexivity|exact Hr].
Qed.

(* one variable string of the payload at idx: length byte len+2, type ty, body; empty (len = 0) or ASCII *)
Definition vfield (m:msg) (idx len ty:Z) (body rest:list Z) : Prop :=
  from m idx = (len + 2) :: ty :: body ++ rest /\ Z.of_nat (length body) = len /\ idx + 2 + len <= mlen m /\ 0 <= idx /\
  ((len = 0 /\ (ty = 0 \/ ty = 1)) \/ (1 <= len <= 252 /\ ty = 1)).

Lemma firstn_app_le {A} (a b:list A) n : (n <= length a)%nat -> firstn n (a ++ b) = firstn n a.
Proof. intros H. rewrite firstn_app. replace (n - length a)%nat with 0%nat by lia. cbn [firstn]. apply app_nil_r. Qed.

Lemma gvs_field m idx len ty body rest dest : payload m -> vfield m idx len ty body rest -> (len > 0 -> (0 < length dest)%nat) ->
  exists d', get_var_str3 m (Z.of_nat (length dest)) dest idx = Ok (true, len, idx + 2 + len, d') /\ length d' = length dest /\
    (len > 0 -> Z.of_nat (length dest) = len + 1 -> d' = gmap 255 false body ++ [0]).
Proof.
  intros Hp (Hf & Hlb & Hfit & Hi & Hkind) Hsz. pose proof Hp as [Hd Hl]. unfold get_var_str3, get_var_str.
  destruct (get_byte_at m idx _ _ Hp ltac:(lia) Hf) as [E1 Hf1]. rewrite E1. cbn [bind fst snd].
  destruct (get_byte_at m (idx + 1) _ _ Hp ltac:(lia) Hf1) as [E2 Hf2]. rewrite E2. cbn [bind fst snd].
  replace (idx + 1 + 1) with (idx + 2) in * by lia.
  destruct Hkind as [(H0 & Hty)|(Hlen & Hty)].
  - (* empty *)
    rewrite H0 in *. destruct (Z.leb_spec (0 + 2) 2); [|lia]. cbn [orb].
    destruct (Z.eqb_spec (0 + 2) 2); [|lia]. destruct (Z.leb_spec ty 1); [|lia]. cbn [andb].
    destruct (Z.gtb_spec (Z.of_nat (length dest)) 0).
    + rewrite wr_ok by lia. cbn [bind]. eexists. split; [f_equal; f_equal; f_equal; lia|]. split; [apply zset_length|lia].
    + cbn [bind]. eexists. split; [f_equal; f_equal; f_equal; lia|]. split; [reflexivity|lia].
  - subst ty. destruct (Z.leb_spec (len + 2) 2); [lia|]. destruct (Z.eqb_spec (len + 2) 255); [lia|]. destruct (Z.gtb_spec 1 1); [lia|].
    destruct (Z.geb_spec (idx + 2) (mlen m)); [lia|]. cbn [orb]. replace (len + 2 - 2) with len by lia.
    destruct (Z.gtb_spec (len + (idx + 2)) (mlen m)); [lia|].
    destruct (Z.gtb_spec (Z.of_nat (length dest)) 0); [|specialize (Hsz ltac:(lia)); lia]. change (1 =? 1) with true. cbv iota.
    rewrite (get_str_sized_fits m dest len 255 (idx + 2) Hp ltac:(lia) ltac:(lia) ltac:(lia) ltac:(lia)). cbn [bind].
    pose proof (gs_out_length m (Z.of_nat (length dest)) len 255 (idx + 2) Hp ltac:(lia) ltac:(lia) ltac:(lia) ltac:(lia)) as Hol.
    eexists. split; [f_equal; f_equal; f_equal; lia|]. split; [rewrite app_length, repeat_length; lia|].
    intros _ Hsize. unfold gs_out in *. rewrite Hf2. rewrite Hsize in *. replace (Z.min len (len + 1 - 1)) with len in * by lia.
    rewrite firstn_app_le by lia. rewrite firstn_all2 by lia.
    rewrite gmap_length in Hol. replace (length dest - length (gmap 255 false body))%nat with 1%nat; [reflexivity|].
    rewrite gmap_length. lia.
Qed.

Lemma cstr_go_gmap : forall body rest, cstr_go (gmap 255 false body ++ 0 :: rest) = Ok (cut 255 body).
Proof.
  induction body as [|b body IH]; intros rest; cbn [gmap app cstr_go cut]; [reflexivity|]. cbn [orb].
  destruct ((b =? 0) || (b =? 255)) eqn:Es.
  - cbn [Z.eqb]. reflexivity.
  - apply orb_false_iff in Es. destruct Es as (E0 & _). rewrite E0. rewrite IH. reflexivity.
Qed.

(* the payload as a list and as the padded message *)
Lemma from_tmsg m idx : 0 <= idx <= dlen m -> from (tmsg m) idx = skipn (Z.to_nat idx) (pl m) ++ repeat 0 (223 - length (pl m)).
Proof. intros H. unfold from, tmsg, dlen in *. cbn [mdata]. rewrite skipn_app. replace (Z.to_nat idx - length (pl m))%nat with 0%nat by lia. reflexivity. Qed.

Lemma cut_text : forall l, cut 255 l = s_text l.
Proof. induction l as [|b l IH]; [reflexivity|]. cbn [cut s_text]. rewrite IH. reflexivity. Qed.

(* s_var on the list = a field of the message *)
Lemma s_var_field m idx text r' : 0 <= idx <= dlen m -> s_var (skipn (Z.to_nat idx) (pl m)) = Some (text, r') ->
  exists len ty body rest, vfield (tmsg m) idx len ty body rest /\ text = cut 255 body /\ r' = skipn (Z.to_nat (idx + 2 + len)) (pl m) /\ idx + 2 + len <= dlen m.
Proof.
  intros Hi Hs. pose proof (from_tmsg m idx Hi) as Hfrom. set (pad := repeat 0 (223 - length (pl m))) in *.
  assert (Hlen : Z.of_nat (length (skipn (Z.to_nat idx) (pl m))) = dlen m - idx) by (rewrite skipn_length; unfold dlen in *; lia).
  destruct (skipn (Z.to_nat idx) (pl m)) as [|l [|t r0]] eqn:Er; cbn [s_var] in Hs; try discriminate. cbn [length] in Hlen.
  assert (Hskip : forall n, (n <= length r0)%nat -> skipn n r0 = skipn (Z.to_nat (idx + 2 + Z.of_nat n)) (pl m)).
  { intros n Hn. replace (Z.to_nat (idx + 2 + Z.of_nat n)) with (Z.to_nat idx + (2 + n))%nat by lia. rewrite <- skipn_add, Er. reflexivity. }
  destruct ((3 <=? l) && (l <? 255) && (t =? 1) && (l - 2 <=? Z.of_nat (length r0))) eqn:Ea.
  - apply andb_true_iff in Ea. destruct Ea as (Ea & E4). apply andb_true_iff in Ea. destruct Ea as (Ea & E3). apply andb_true_iff in Ea. destruct Ea as (E1 & E2).
    apply Z.leb_le in E1, E4. apply Z.ltb_lt in E2. apply Z.eqb_eq in E3. injection Hs as <- <-.
    exists (l - 2), t, (firstn (Z.to_nat (l - 2)) r0), (skipn (Z.to_nat (l - 2)) r0 ++ pad).
    split; [|split; [rewrite cut_text; reflexivity|split; [rewrite (Hskip (Z.to_nat (l - 2))) by lia; f_equal; lia|lia]]].
    split; [rewrite Hfrom; cbn [app]; replace (l - 2 + 2) with l by lia; rewrite app_assoc, firstn_skipn; reflexivity|].
    split; [rewrite firstn_length; lia|]. split; [unfold tmsg; cbn [mlen]; lia|]. split; [lia|]. right. lia.
  - destruct ((l =? 2) && ((t =? 0) || (t =? 1))) eqn:Eb; [|discriminate]. apply andb_true_iff in Eb. destruct Eb as (E1 & E2).
    apply Z.eqb_eq in E1. apply orb_true_iff in E2. injection Hs as <- <-.
    exists 0, t, [], (r0 ++ pad). split; [|split; [reflexivity|split; [pose proof (Hskip 0%nat ltac:(lia)) as H0s; cbn [skipn Z.of_nat] in H0s; exact H0s|lia]]].
    split; [rewrite Hfrom; subst l; reflexivity|]. split; [reflexivity|]. split; [unfold tmsg; cbn [mlen]; lia|]. split; [lia|].
    left. split; [reflexivity|]. destruct E2 as [E|E]; apply Z.eqb_eq in E; auto.
Qed.

(* a region of the ConfI buffer holds the bytes d *)
Definition holds (buf:option (list Z)) (off:Z) (d:list Z) : Prop :=
  exists b, buf = Some b /\ 0 <= off /\ off + Z.of_nat (length d) <= Z.of_nat (length b) /\ firstn (length d) (skipn (Z.to_nat off) b) = d.

Lemma firstn_app_exact {A} (a b:list A) : firstn (length a) (a ++ b) = a.
Proof. rewrite firstn_app, Nat.sub_diag, firstn_all. cbn [firstn]. apply app_nil_r. Qed.
Lemma holds_put b off d : 0 <= off -> off + Z.of_nat (length d) <= Z.of_nat (length b) -> holds (Some (put b off d)) off d.
Proof.
  intros Ho Hl. exists (put b off d). split; [reflexivity|]. split; [exact Ho|]. split; [rewrite put_length by assumption; exact Hl|].
  unfold put. assert (Hf : length (firstn (Z.to_nat off) b) = Z.to_nat off) by (rewrite firstn_length; lia).
  rewrite <- Hf at 1. rewrite skipn_app_len. apply firstn_app_exact.
Qed.
Lemma holds_put_other b off d off2 d2 : holds (Some b) off d -> 0 <= off2 -> off2 + Z.of_nat (length d2) <= Z.of_nat (length b) ->
  (off2 + Z.of_nat (length d2) <= off \/ off + Z.of_nat (length d) <= off2) -> holds (Some (put b off2 d2)) off d.
Proof.
  intros (b0 & Eb & Ho & Hl & Hd) Ho2 Hl2 Hdis. injection Eb as <-. exists (put b off2 d2). split; [reflexivity|]. split; [exact Ho|].
  split; [rewrite put_length by assumption; exact Hl|]. rewrite <- Hd at 2. unfold put.
  assert (Hf : length (firstn (Z.to_nat off2) b) = Z.to_nat off2) by (rewrite firstn_length; lia).
  destruct Hdis as [Hbefore|Hafter].
  - (* the other region lies before *)
    rewrite app_assoc. rewrite skipn_app. rewrite (skipn_all2 (firstn (Z.to_nat off2) b ++ d2)) by (rewrite app_length; lia). cbn [app].
    rewrite app_length, Hf. rewrite skipn_add. f_equal. f_equal. lia.
  - (* the other region lies behind *)
    rewrite skipn_app. rewrite Hf. replace (Z.to_nat off - Z.to_nat off2)%nat with 0%nat by lia. cbn [skipn].
    rewrite firstn_app_le by (rewrite skipn_length, Hf; lia).
    rewrite <- (firstn_skipn (Z.to_nat off2) b) at 2. rewrite skipn_app. rewrite Hf. replace (Z.to_nat off - Z.to_nat off2)%nat with 0%nat by lia. cbn [skipn].
    rewrite firstn_app_le by (rewrite skipn_length, Hf; lia). reflexivity.
Qed.
Lemma holds_cstr b off body : holds (Some b) off (gmap 255 false body ++ [0]) -> 
  (if (0 <=? off) && (off <=? Z.of_nat (length b)) then s <- cstr_go (skipn (Z.to_nat off) b) ;; Ok (Some s) else OOB) = Ok (Some (cut 255 body)).
Proof.
  intros (b0 & Eb & Ho & Hl & Hd). injection Eb as <-. destruct (Z.leb_spec 0 off); [|lia]. destruct (Z.leb_spec off (Z.of_nat (length b))); [|lia]. cbn [andb].
  rewrite <- (firstn_skipn (length (gmap 255 false body ++ [0])) (skipn (Z.to_nat off) b)). rewrite Hd. rewrite <- app_assoc. cbn [app].
  rewrite cstr_go_gmap. reflexivity.
Qed.

Definition fsz (len:Z) : Z := if len >? 0 then len + 1 else 0.
Definition ctext (len:Z) (body:list Z) : option (list Z) := if len >? 0 then Some (cut 255 body) else None.

Lemma vfield_len m idx len ty body rest : vfield m idx len ty body rest -> 0 <= len <= 252.
Proof. intros (_ & _ & _ & _ & [(-> & _)|(H & _)]); lia. Qed.

Lemma read_field_val tm buf ptr off idx len ty body rest : payload tm -> vfield tm idx len ty body rest -> 0 <= off -> field_ok buf ptr (fsz len) off ->
  exists buf', read_field tm buf ptr (fsz len) idx = Ok (true, idx + 2 + len, buf') /\
    (len > 0 -> exists b, buf = Some b /\ ptr = Some off /\ off + (len + 1) <= Z.of_nat (length b) /\ buf' = Some (put b off (gmap 255 false body ++ [0]))) /\
    (len = 0 -> buf' = buf /\ ptr = None).
Proof.
  intros Hp Hv Ho F. pose proof (vfield_len _ _ _ _ _ _ Hv) as Hlen. unfold field_ok, fsz in *. unfold read_field.
  destruct (Z.gtb_spec len 0) as [Hpos|Hz].
  - destruct (Z.gtb_spec (len + 1) 0); [|lia]. destruct F as (-> & b & -> & Hl).
    destruct (slice_ok b off (len + 1) Ho ltac:(lia) Hl) as (d & Ed & Hd). rewrite Ed. cbn [bind].
    destruct (gvs_field tm idx len ty body rest d Hp Hv ltac:(lia)) as (d' & E & Hd' & Hval). rewrite Hd in E. rewrite E. cbn [bind].
    eexists. split; [reflexivity|]. split; [|lia]. intros _. exists b. split; [reflexivity|]. split; [reflexivity|]. split; [exact Hl|].
    rewrite (Hval ltac:(lia) Hd). reflexivity.
  - assert (len = 0) by lia. subst len. cbn [Z.gtb Z.compare] in F. subst ptr.
    destruct (gvs_field tm idx 0 ty body rest [] Hp Hv ltac:(lia)) as (d' & E & _). cbn [length Z.of_nat] in E.
    destruct buf as [b|]; rewrite E; cbn [bind]; eexists; (split; [reflexivity|]); split; try lia; auto.
Qed.

Definition rfv (buf buf':option (list Z)) (ptr:option Z) (off len:Z) (body:list Z) : Prop :=
  (len > 0 -> exists b, buf = Some b /\ ptr = Some off /\ off + (len + 1) <= Z.of_nat (length b) /\ buf' = Some (put b off (gmap 255 false body ++ [0]))) /\
  (len = 0 -> buf' = buf /\ ptr = None).
Lemma gmap0_len body len : Z.of_nat (length body) = len -> Z.of_nat (length (gmap 255 false body ++ [0])) = len + 1.
Proof. intros H. rewrite app_length, gmap_length. cbn [length]. lia. Qed.
Lemma rfv_len buf buf' ptr off len body : rfv buf buf' ptr off len body -> 0 <= off -> 0 <= len -> Z.of_nat (length body) = len ->
  forall l, buf = Some l -> exists l', buf' = Some l' /\ length l' = length l.
Proof.
  intros (Hp & Hz) Ho Hl Hb l El. destruct (Z.eq_dec len 0) as [H0|H0].
  - destruct (Hz H0) as (-> & _). exists l. auto.
  - destruct (Hp ltac:(lia)) as (b & Eb & _ & Hfit & ->). rewrite El in Eb. injection Eb as <-. eexists. split; [reflexivity|].
    apply put_length; [exact Ho|]. rewrite (gmap0_len _ _ Hb). exact Hfit.
Qed.
Lemma rfv_holds_other buf buf' ptr off len body off0 d0 : rfv buf buf' ptr off len body -> 0 <= off -> 0 <= len -> Z.of_nat (length body) = len ->
  holds buf off0 d0 -> (len > 0 -> off + (len + 1) <= off0 \/ off0 + Z.of_nat (length d0) <= off) -> holds buf' off0 d0.
Proof.
  intros (Hp & Hz) Ho Hl Hb Hh Hdis. destruct (Z.eq_dec len 0) as [H0|H0].
  - destruct (Hz H0) as (-> & _). exact Hh.
  - destruct (Hp ltac:(lia)) as (b & -> & _ & Hfit & ->). apply holds_put_other; [exact Hh|exact Ho| |]; rewrite (gmap0_len _ _ Hb); [exact Hfit|apply Hdis; lia].
Qed.
Lemma rfv_holds_new buf buf' ptr off len body : rfv buf buf' ptr off len body -> 0 <= off -> len > 0 -> Z.of_nat (length body) = len ->
  ptr = Some off /\ holds buf' off (gmap 255 false body ++ [0]).
Proof.
  intros (Hp & _) Ho Hl Hb. destruct (Hp Hl) as (b & -> & -> & Hfit & ->). split; [reflexivity|]. apply holds_put; [exact Ho|]. rewrite (gmap0_len _ _ Hb). exact Hfit.
Qed.
Lemma vfield_body m idx len ty body rest : vfield m idx len ty body rest -> Z.of_nat (length body) = len.
Proof. intros (_ & H & _). exact H. Qed.

Definition conf_val (e2:entry) (man d1 d2:option (list Z)) : Prop :=
  conf_str e2 (e_man e2) = Ok man /\ conf_str e2 (e_d1 e2) = Ok d1 /\ conf_str e2 (e_d2 e2) = Ok d2.

Lemma conf_str_holds e ptr off len body : 0 <= len -> (len > 0 -> ptr = Some off /\ holds (e_confi e) off (gmap 255 false body ++ [0])) -> (len = 0 -> ptr = None) ->
  conf_str e ptr = Ok (ctext len body).
Proof.
  intros Hl Hp Hz. unfold ctext, conf_str. destruct (Z.gtb_spec len 0) as [Hpos|Hnp].
  - destruct (Hp ltac:(lia)) as (-> & Hh). pose proof Hh as (b & Eb & _). rewrite Eb in *. apply holds_cstr. exact Hh.
  - rewrite (Hz ltac:(lia)). reflexivity.
Qed.

Lemma handle_conf_val m st s oid e l1 t1 b1 r1 l2 t2 b2 r2 l3 t3 b3 r3 :
  WF st -> b_src m = Z.of_nat s -> (s < 254)%nat -> sref st s = Some oid -> hp st oid = Some e ->
  vfield (tmsg m) 0 l1 t1 b1 r1 -> vfield (tmsg m) (0 + 2 + l1) l2 t2 b2 r2 -> vfield (tmsg m) (0 + 2 + l1 + 2 + l2) l3 t3 b3 r3 ->
  exists st' e2, handle_conf m st = Ok st' /\ WF st' /\ maxdev st' = maxdev st /\ updated st' = true /\ conf_only e e2 /\
    (forall j, slot st' j = T_set (slot st) s (Some e2) j) /\ conf_val e2 (ctext l3 b3) (ctext l1 b1) (ctext l2 b2).
Proof.
  intros W Hsrc Hs Er He V1 V2 V3. pose proof W as (Hl & Hm & Wf). unfold handle_conf. rewrite Hsrc. rewrite src_get_ok by lia. cbn [bind]. rewrite Nat2Z.id, Er.
  rewrite (deref_ok _ _ _ He). cbn [bind]. pose proof (tmsg_payload m) as Hp.
  pose proof (vfield_len _ _ _ _ _ _ V1) as HL1. pose proof (vfield_len _ _ _ _ _ _ V2) as HL2. pose proof (vfield_len _ _ _ _ _ _ V3) as HL3.
  pose proof (vfield_body _ _ _ _ _ _ V1) as HB1. pose proof (vfield_body _ _ _ _ _ _ V2) as HB2. pose proof (vfield_body _ _ _ _ _ _ V3) as HB3.
  (* first pass *)
  assert (Hmeas : measure_conf (tmsg m) = Ok (Some (l3, l1, l2))).
  { unfold measure_conf. set (sc := repeat 0 (Z.to_nat SCRATCH)). assert (Hsc : Z.of_nat (length sc) = SCRATCH) by apply scratch_len.
    assert (Hpos : (0 < length sc)%nat) by (unfold SCRATCH in Hsc; lia).
    destruct (gvs_field (tmsg m) 0 l1 t1 b1 r1 sc Hp V1 ltac:(intros _; exact Hpos)) as (d1 & E1 & Hd1 & _). rewrite Hsc in E1. rewrite E1. cbn [bind negb].
    destruct (gvs_field (tmsg m) (0 + 2 + l1) l2 t2 b2 r2 d1 Hp V2 ltac:(intros _; lia)) as (d2 & E2 & Hd2 & _). rewrite Hd1, Hsc in E2. rewrite E2. cbn [bind negb].
    destruct (gvs_field (tmsg m) (0 + 2 + l1 + 2 + l2) l3 t3 b3 r3 d2 Hp V3 ltac:(intros _; lia)) as (d3 & E3 & Hd3 & _). rewrite Hd2, Hd1, Hsc in E3.
    replace (0 + 2 + l1 + 2 + l2) with (0 + 2 + l1 + 2 + l2) in E3 by lia. rewrite E3. cbn [bind negb]. reflexivity. }
  rewrite Hmeas. cbn [bind]. fold (fsz l3) (fsz l1) (fsz l2).
  assert (Hf1 : 0 <= fsz l1 <= 335) by (unfold fsz; destruct (l1 >? 0); lia).
  assert (Hf2 : 0 <= fsz l2 <= 335) by (unfold fsz; destruct (l2 >? 0); lia).
  assert (Hf3 : 0 <= fsz l3 <= 335) by (unfold fsz; destruct (l3 >? 0); lia).
  assert (Hfz : forall l, 0 <= l -> (l > 0 -> fsz l = l + 1) /\ (l = 0 -> fsz l = 0)) by (intros l Hl0; unfold fsz; destruct (Z.gtb_spec l 0); split; lia).
  destruct (init_conf_ok e (fsz l3) (fsz l1) (fsz l2) Hf3 Hf1 Hf2) as (e1 & E1 & Hco & FM & F1 & F2). rewrite E1. cbn [bind].
  assert (Hfin : forall e2, conf_only e e2 -> conf_val e2 (ctext l3 b3) (ctext l1 b1) (ctext l2 b2) ->
     exists st' e2', (st1 <- update st oid e2 ;; Ok (with_flags st1 true (pending st1))) = Ok st' /\ WF st' /\ maxdev st' = maxdev st /\ updated st' = true /\ conf_only e e2' /\
       (forall j, slot st' j = T_set (slot st) s (Some e2') j) /\ conf_val e2' (ctext l3 b3) (ctext l1 b1) (ctext l2 b2)).
  { intros e2 Hc Hv. destruct (update_one_slot st s oid e e2 W Er He) as (Eu & W' & Hmx & Hsl'); [rewrite Hc; reflexivity|].
    rewrite Eu. cbn [bind]. eexists _, e2. split; [reflexivity|]. split; [apply wf_flags; exact W'|]. split; [exact Hmx|]. split; [reflexivity|]. split; [exact Hc|].
    split; [intros j; rewrite slot_flags; apply Hsl'|exact Hv]. }
  destruct (Z.gtb_spec (fsz l3 + fsz l1 + fsz l2) 0) as [Hpos|Hzero].
  2:{ (* nothing to store: three empty strings *)
      assert (l1 = 0 /\ l2 = 0 /\ l3 = 0) as (-> & -> & ->).
      { destruct (Hfz l1 ltac:(lia)), (Hfz l2 ltac:(lia)), (Hfz l3 ltac:(lia)). repeat split; lia. }
      cbn [bind]. apply Hfin; [exact Hco|]. unfold field_ok, fsz in FM, F1, F2. cbn in FM, F1, F2. unfold conf_val. rewrite FM, F1, F2. cbn. auto. }
  (* second pass *)
  destruct (read_field_val (tmsg m) (e_confi e1) (e_d1 e1) (fsz l3) 0 l1 t1 b1 r1 Hp V1 ltac:(lia) F1) as (c1 & R1 & R1v). rewrite R1. cbn [bind negb].
  fold (rfv (e_confi e1) c1 (e_d1 e1) (fsz l3) l1 b1) in R1v.
  pose proof (rfv_len _ _ _ _ _ _ R1v ltac:(lia) ltac:(lia) HB1) as L1.
  destruct (read_field_val (tmsg m) c1 (e_d2 e1) (fsz l3 + fsz l1) (0 + 2 + l1) l2 t2 b2 r2 Hp V2 ltac:(lia) (field_ok_lift _ _ _ _ _ F2 L1)) as (c2 & R2 & R2v). rewrite R2. cbn [bind negb].
  fold (rfv c1 c2 (e_d2 e1) (fsz l3 + fsz l1) l2 b2) in R2v.
  pose proof (rfv_len _ _ _ _ _ _ R2v ltac:(lia) ltac:(lia) HB2) as L2.
  assert (L12 : forall l, e_confi e1 = Some l -> exists l', c2 = Some l' /\ length l' = length l).
  { intros l El. destruct (L1 l El) as (l' & El' & Hl'). destruct (L2 l' El') as (l'' & El'' & Hl''). exists l''. split; [exact El''|lia]. }
  destruct (read_field_val (tmsg m) c2 (e_man e1) 0 (0 + 2 + l1 + 2 + l2) l3 t3 b3 r3 Hp V3 ltac:(lia) (field_ok_lift _ _ _ _ _ FM L12)) as (c3 & R3 & R3v).
  rewrite R3. cbn [bind]. fold (rfv c2 c3 (e_man e1) 0 l3 b3) in R3v.
  apply Hfin; [apply conf_only_trans; exact Hco|]. unfold conf_val. cbn [with_conf e_man e_d1 e_d2].
  destruct (Hfz l1 ltac:(lia)) as (Hz1p & Hz1z). destruct (Hfz l2 ltac:(lia)) as (Hz2p & Hz2z). destruct (Hfz l3 ltac:(lia)) as (Hz3p & Hz3z).
  split; [|split].
  - (* manufacturer information: written last *)
    apply (conf_str_holds _ _ 0); [lia| |intros H0; exact (proj2 (proj2 R3v H0))]. intros Hp3. cbn [with_conf e_confi].
    exact (rfv_holds_new _ _ _ _ _ _ R3v ltac:(lia) Hp3 HB3).
  - (* description 1: written first, then the two others *)
    apply (conf_str_holds _ _ (fsz l3)); [lia| |intros H0; exact (proj2 (proj2 R1v H0))]. intros Hp1. cbn [with_conf e_confi].
    destruct (rfv_holds_new _ _ _ _ _ _ R1v ltac:(lia) Hp1 HB1) as (Eptr & Hh). split; [exact Eptr|].
    apply (rfv_holds_other _ _ _ _ _ _ _ _ R3v ltac:(lia) ltac:(lia) HB3); [|intros Hp3; left; rewrite (Hz3p Hp3); lia].
    apply (rfv_holds_other _ _ _ _ _ _ _ _ R2v ltac:(lia) ltac:(lia) HB2); [exact Hh|]. intros _. right. rewrite (gmap0_len _ _ HB1), (Hz1p Hp1). lia.
  - (* description 2 *)
    apply (conf_str_holds _ _ (fsz l3 + fsz l1)); [lia| |intros H0; exact (proj2 (proj2 R2v H0))]. intros Hp2. cbn [with_conf e_confi].
    destruct (rfv_holds_new _ _ _ _ _ _ R2v ltac:(lia) Hp2 HB2) as (Eptr & Hh). split; [exact Eptr|].
    apply (rfv_holds_other _ _ _ _ _ _ _ _ R3v ltac:(lia) ltac:(lia) HB3); [exact Hh|]. intros Hp3. left. rewrite (Hz3p Hp3). lia.
Qed.

Definition conf_rep (e:entry) (man d1 d2:list Z) : Prop :=
  exists rm r1 r2, conf_str e (e_man e) = Ok rm /\ conf_str e (e_d1 e) = Ok r1 /\ conf_str e (e_d2 e) = Ok r2 /\
                   opt_text rm = man /\ opt_text r1 = d1 /\ opt_text r2 = d2.
Lemma opt_ctext len body : Z.of_nat (length body) = len -> opt_text (ctext len body) = cut 255 body.
Proof. intros H. unfold ctext. destruct (Z.gtb_spec len 0); [reflexivity|]. destruct body; [reflexivity|cbn [length] in H; lia]. Qed.

Lemma s_conf_fields m man d1 d2 : s_conf (pl m) = Some (man, d1, d2) ->
  exists l1 t1 b1 r1 l2 t2 b2 r2 l3 t3 b3 r3,
    vfield (tmsg m) 0 l1 t1 b1 r1 /\ vfield (tmsg m) (0 + 2 + l1) l2 t2 b2 r2 /\ vfield (tmsg m) (0 + 2 + l1 + 2 + l2) l3 t3 b3 r3 /\
    d1 = cut 255 b1 /\ d2 = cut 255 b2 /\ man = cut 255 b3.
Proof.
  unfold s_conf. intros H. pose proof (dlen_range m) as Hd.
  destruct (s_var (pl m)) as [[x1 q1]|] eqn:E1; [|discriminate].
  destruct (s_var_field m 0 x1 q1 ltac:(lia) E1) as (l1 & t1 & b1 & r1 & V1 & -> & -> & Hf1).
  destruct (s_var (skipn (Z.to_nat (0 + 2 + l1)) (pl m))) as [[x2 q2]|] eqn:E2; [|discriminate].
  pose proof (vfield_len _ _ _ _ _ _ V1) as HL1.
  destruct (s_var_field m (0 + 2 + l1) x2 q2 ltac:(lia) E2) as (l2 & t2 & b2 & r2 & V2 & -> & -> & Hf2).
  destruct (s_var (skipn (Z.to_nat (0 + 2 + l1 + 2 + l2)) (pl m))) as [[x3 q3]|] eqn:E3; [|discriminate].
  pose proof (vfield_len _ _ _ _ _ _ V2) as HL2.
  destruct (s_var_field m (0 + 2 + l1 + 2 + l2) x3 q3 ltac:(lia) E3) as (l3 & t3 & b3 & r3 & V3 & -> & _ & _).
  injection H as <- <- <-. exists l1, t1, b1, r1, l2, t2, b2, r2, l3, t3, b3, r3. auto 10.
Qed.

Lemma handle_conf_ok2 m st s : WF st -> b_src m = Z.of_nat s -> (s < 254)%nat ->
  exists st', handle_conf m st = Ok st' /\ WF st' /\ maxdev st' = maxdev st /\
    ((st' = st /\ (slot st s = None \/ s_conf (pl m) = None)) \/
     exists e e2, slot st s = Some e /\ conf_only e e2 /\ updated st' = true /\ (forall j, slot st' j = T_set (slot st) s (Some e2) j) /\
       forall man d1 d2, s_conf (pl m) = Some (man, d1, d2) -> conf_rep e2 man d1 d2).
Proof.
  intros W Hsrc Hs. destruct (s_conf (pl m)) as [[[man d1] d2]|] eqn:Ec.
  - destruct (sref st s) as [oid|] eqn:Er.
    + destruct (wf_slot _ _ _ W Er) as (e & He & Hsl & _).
      destruct (s_conf_fields m man d1 d2 Ec) as (l1 & t1 & b1 & r1 & l2 & t2 & b2 & r2 & l3 & t3 & b3 & r3 & V1 & V2 & V3 & -> & -> & ->).
      destruct (handle_conf_val m st s oid e _ _ _ _ _ _ _ _ _ _ _ _ W Hsrc Hs Er He V1 V2 V3) as (st' & e2 & E & W' & Hmx & Hu & Hco & Hsl' & (C1 & C2 & C3)).
      exists st'. split; [exact E|]. split; [exact W'|]. split; [exact Hmx|]. right. exists e, e2. split; [exact Hsl|]. split; [exact Hco|]. split; [exact Hu|].
      split; [exact Hsl'|]. intros man' d1' d2' Eq. injection Eq as <- <- <-. eexists _, _, _. split; [exact C1|]. split; [exact C2|]. split; [exact C3|].
      rewrite !opt_ctext by (eapply vfield_body; eauto). auto.
    + destruct (handle_conf_ok m st s W Hsrc Hs) as (st' & E & W' & Hmx & [->|(e & e2 & He & _)]).
      * exists st. split; [exact E|]. split; [exact W|]. split; [reflexivity|]. left. split; [reflexivity|]. left. apply slot_none_of_sref. exact Er.
      * rewrite (slot_none_of_sref _ _ Er) in He. discriminate.
  - destruct (handle_conf_ok m st s W Hsrc Hs) as (st' & E & W' & Hmx & [->|(e & e2 & He & Hco & Hu & Hsl)]).
    + exists st. split; [exact E|]. split; [exact W|]. split; [reflexivity|]. left. auto.
    + exists st'. split; [exact E|]. split; [exact W'|]. split; [exact Hmx|]. right. exists e, e2. split; [exact He|]. split; [exact Hco|]. split; [exact Hu|].
      split; [exact Hsl|]. discriminate.
Qed.

(* ---------- HandleProductInformation ---------- *)
Lemma handle_prod_ok m st s : WF st -> b_src m = Z.of_nat s -> (s < 254)%nat ->
  exists st', handle_prod m st = Ok st' /\ WF st' /\ maxdev st' = maxdev st /\
    ((st' = st /\ (slot st s = None \/ (exists e, slot st s = Some e /\ e_pil e = true) \/ parse_pi m = None)) \/
     exists e raw P, slot st s = Some e /\ e_pil e = false /\ parse_pi m = Some raw /\
       ((pi_same raw (e_pi e) = true /\ P = e_pi e /\ updated st' = updated st) \/ (P = pi_norm raw /\ updated st' = true)) /\
       forall j, slot st' j = T_set (slot st) s (Some (with_pi e true P (e_pireq e) (e_npi e))) j).
Proof.
  intros W Hsrc Hs. pose proof W as (Hl & Hm & Wf). unfold handle_prod. rewrite Hsrc. rewrite src_get_ok by lia. cbn [bind]. rewrite Nat2Z.id.
  destruct (sref st s) as [oid|] eqn:Er; [|exists st; pose proof (slot_none_of_sref _ _ Er); auto 7].
  destruct (wf_slot _ _ _ W Er) as (e & He & Hsl & Hes & _). rewrite (deref_ok _ _ _ He). cbn [bind].
  destruct (e_pil e) eqn:Epil; [exists st; split; [reflexivity|]; split; [exact W|]; split; [reflexivity|]; left; split; [reflexivity|]; right; left; exists e; auto|].
  destruct (parse_pi m) as [raw|] eqn:Eraw; [|exists st; auto 8].
  destruct (pi_same raw (e_pi e)) eqn:Esame.
  - destruct (update_one_slot st s oid e (with_pi e true (e_pi e) (e_pireq e) (e_npi e)) W Er He eq_refl) as (Eu & W' & Hmx & Hsl').
    rewrite Eu. eexists. split; [reflexivity|]. split; [exact W'|]. split; [exact Hmx|]. right.
    exists e, raw, (e_pi e). split; [exact Hsl|]. split; [exact Epil|]. split; [reflexivity|]. split; [left; auto|exact Hsl'].
  - destruct (update_one_slot st s oid e (with_pi e true (pi_norm raw) (e_pireq e) (e_npi e)) W Er He eq_refl) as (Eu & W' & Hmx & Hsl').
    rewrite Eu. cbn [bind]. eexists. split; [reflexivity|]. split; [apply wf_flags; exact W'|]. split; [exact Hmx|]. right.
    exists e, raw, (pi_norm raw). split; [exact Hsl|]. split; [exact Epil|]. split; [reflexivity|]. split; [right; auto|].
    intros j. rewrite slot_flags. apply Hsl'.
Qed.

(* ---------- HandleSupportedPGNList ---------- *)
Fixpoint pgn_vals (d:list Z) (n:nat) (idx:Z) : list Z :=
  match n with O => [] | S k => let (v, idx') := get_num d 3 idx 4294967295 in v :: pgn_vals d k idx' end.
Fixpoint cut0 (l:list Z) : list Z := match l with [] => [] | b :: r => if b =? 0 then [] else b :: cut0 r end.

Lemma pgn_vals_length d : forall n idx, length (pgn_vals d n idx) = n.
Proof. induction n as [|n IH]; intros idx; cbn [pgn_vals]; [reflexivity|]. destruct (get_num d 3 idx 4294967295) as [v idx']. cbn [length]. rewrite IH. reflexivity. Qed.

Lemma fill_list_spec d : forall n pre rest idx, (n <= length rest)%nat ->
  fill_list d n (Z.of_nat (length pre)) idx (pre ++ rest) = Ok (pre ++ pgn_vals d n idx ++ skipn n rest).
Proof.
  induction n as [|n IH]; intros pre rest idx Hn; cbn [fill_list pgn_vals]; [reflexivity|].
  destruct (get_num d 3 idx 4294967295) as [v idx'] eqn:Eg.
  destruct rest as [|x rest]; [cbn [length] in Hn; lia|]. cbn [length] in Hn.
  rewrite wr_ok by (rewrite app_length; cbn [length]; lia). cbn [bind].
  unfold zset. rewrite Nat2Z.id, set_nth_here.
  replace (pre ++ v :: rest) with ((pre ++ [v]) ++ rest) by (rewrite <- app_assoc; reflexivity).
  replace (Z.of_nat (length pre) + 1) with (Z.of_nat (length (pre ++ [v]))) by (rewrite app_length; cbn [length]; lia).
  rewrite IH by lia. rewrite <- app_assoc. reflexivity.
Qed.

Lemma zlist_go_app : forall vals rest, zlist_go (vals ++ 0 :: rest) = Ok (cut0 vals).
Proof.
  induction vals as [|v vals IH]; intros rest; cbn [app zlist_go cut0]; [reflexivity|].
  destruct (v =? 0); [reflexivity|]. rewrite IH. reflexivity.
Qed.


Lemma pgn_vals_spec : forall n pre r, (3 * n <= length r)%nat ->
  cut0 (pgn_vals (pre ++ r) n (Z.of_nat (length pre))) = s_pgns r n.
Proof.
  induction n as [|n IH]; intros pre r Hn; cbn [pgn_vals s_pgns cut0]; [reflexivity|].
  destruct r as [|a [|b [|c r]]]; cbn [length] in Hn; try lia.
  unfold get_num. rewrite app_length. cbn [length].
  destruct (Z.leb_spec (Z.of_nat (length pre) + Z.of_nat 3) (Z.of_nat (length pre + S (S (S (length r)))))); [|lia].
  rewrite Nat2Z.id, skipn_app_len. cbn [firstn le_num cut0].
  replace (a + 256 * (b + 256 * (c + 256 * 0))) with (a + 256 * b + 65536 * c) by ring.
  destruct (a + 256 * b + 65536 * c =? 0); [reflexivity|]. f_equal.
  replace (pre ++ a :: b :: c :: r) with ((pre ++ [a; b; c]) ++ r) by (rewrite <- app_assoc; reflexivity).
  replace (Z.of_nat (length pre) + Z.of_nat 3) with (Z.of_nat (length (pre ++ [a; b; c]))) by (rewrite app_length; cbn [length]; lia).
  apply IH. lia.
Qed.

Definition lists_only (e e2:entry) : Prop := e2 = with_lists e (e_tx e2) (e_rx e2).

(* what is stored for a list of [count] PGNs read from index 1 of the payload d *)
Lemma store_list_ok d old count : 0 <= count -> 
  exists l, (l0 <- init_list old count ;; l1 <- fill_list d (Z.to_nat count) 0 1 l0 ;; wr l1 count 0) = Ok l /\
    zlist_go l = Ok (cut0 (pgn_vals d (Z.to_nat count) 1)).
Proof.
  intros Hc. unfold init_list.
  set (kept := match old with Some l => if Z.of_nat (length l) - 1 <? count then None else Some l | None => None end).
  set (l := match kept with Some l => l | None => repeat 0 (Z.to_nat (count + 1)) end).
  assert (Hl : count + 1 <= Z.of_nat (length l)).
  { subst l kept. destruct old as [x|]; [destruct (Z.ltb_spec (Z.of_nat (length x) - 1) count)|]; try rewrite repeat_length; lia. }
  rewrite wr_ok by lia. cbn [bind].
  set (l0 := zset l 0 0). assert (Hl0 : length l0 = length l) by apply zset_length.
  pose proof (fill_list_spec d (Z.to_nat count) [] l0 1 ltac:(lia)) as Hf. cbn [length app Z.of_nat] in Hf. rewrite Hf. cbn [bind].
  set (vals := pgn_vals d (Z.to_nat count) 1). assert (Hv : length vals = Z.to_nat count) by apply pgn_vals_length.
  destruct (skipn (Z.to_nat count) l0) as [|x rest] eqn:Es.
  { assert (length (skipn (Z.to_nat count) l0) = 0%nat) by (rewrite Es; reflexivity). rewrite skipn_length in H. lia. }
  rewrite wr_ok by (rewrite app_length; cbn [length]; lia). unfold zset.
  clearbody vals. rewrite <- Hv. rewrite set_nth_here.
  eexists. split; [reflexivity|]. apply zlist_go_app.
Qed.

Lemma handle_list_ok m st s : WF st -> b_src m = Z.of_nat s -> (s < 254)%nat ->
  exists st', handle_list m st = Ok st' /\ WF st' /\ maxdev st' = maxdev st /\
    ((st' = st /\ slot st s = None) \/ exists e e2, slot st s = Some e /\ updated st' = true /\ lists_only e e2 /\
       (forall j, slot st' j = T_set (slot st) s (Some e2) j) /\
       match s_list (pl m) with
       | Some (k, l) => if k =? 0 then pgn_list (e_tx e2) = Ok (Some l) /\ e_rx e2 = e_rx e
                        else pgn_list (e_rx e2) = Ok (Some l) /\ e_tx e2 = e_tx e
       | None => e2 = e
       end).
Proof.
  intros W Hsrc Hs. pose proof W as (Hl & Hm & Wf). unfold handle_list. rewrite Hsrc. rewrite src_get_ok by lia. cbn [bind]. rewrite Nat2Z.id.
  destruct (sref st s) as [oid|] eqn:Er; [|exists st; pose proof (slot_none_of_sref _ _ Er); auto 7].
  destruct (wf_slot _ _ _ W Er) as (e & He & Hsl & Hes & _). rewrite (deref_ok _ _ _ He). cbn [bind].
  assert (Hfin : forall e2, lists_only e e2 ->
     match s_list (pl m) with
     | Some (k, l) => if k =? 0 then pgn_list (e_tx e2) = Ok (Some l) /\ e_rx e2 = e_rx e else pgn_list (e_rx e2) = Ok (Some l) /\ e_tx e2 = e_tx e
     | None => e2 = e end ->
     exists st', (st1 <- update st oid e2 ;; Ok (with_flags st1 true (pending st1))) = Ok st' /\ WF st' /\ maxdev st' = maxdev st /\
       ((st' = st /\ slot st s = None) \/ exists e e2, slot st s = Some e /\ updated st' = true /\ lists_only e e2 /\
          (forall j, slot st' j = T_set (slot st) s (Some e2) j) /\
          match s_list (pl m) with
          | Some (k, l) => if k =? 0 then pgn_list (e_tx e2) = Ok (Some l) /\ e_rx e2 = e_rx e else pgn_list (e_rx e2) = Ok (Some l) /\ e_tx e2 = e_tx e
          | None => e2 = e end)).
  { intros e2 Hc Hx. destruct (update_one_slot st s oid e e2 W Er He) as (Eu & W' & Hmx & Hsl'); [rewrite Hc; reflexivity|].
    rewrite Eu. cbn [bind]. eexists. split; [reflexivity|]. split; [apply wf_flags; exact W'|]. split; [exact Hmx|].
    right. exists e, e2. split; [exact Hsl|]. split; [reflexivity|]. split; [exact Hc|]. split; [|exact Hx]. intros j. rewrite slot_flags. apply Hsl'. }
  unfold dlen. destruct (pl m) as [|k r] eqn:Ed.
  - (* empty payload: kind 255 *) cbn [length Z.of_nat Z.ltb]. cbn [Z.eqb bind]. apply Hfin; [destruct e; reflexivity|reflexivity].
  - cbn [length]. destruct (Z.ltb_spec 0 (Z.of_nat (S (length r)))); [|lia]. unfold znth. cbn [Z.to_nat nth].
    set (count := ((Z.of_nat (S (length r)) - 1) / 3) mod 256).
    pose proof (pl_length m) as Hpl. rewrite Ed in Hpl. cbn [length] in Hpl.
    assert (Hcount : count = Z.of_nat (length r / 3)).
    { subst count. replace (Z.of_nat (S (length r)) - 1) with (Z.of_nat (length r)) by lia.
      rewrite Nat2Z.inj_div. apply Z.mod_small. split; [apply Z.div_pos; lia|]. apply Z.div_lt_upper_bound; lia. }
    assert (Hvals : cut0 (pgn_vals (k :: r) (Z.to_nat count) 1) = s_pgns r (length r / 3)).
    { rewrite Hcount, Nat2Z.id. apply (pgn_vals_spec (length r / 3) [k] r). pose proof (Nat.mul_div_le (length r) 3). lia. }
    unfold s_list in *. 
    destruct (Z.eqb_spec k 0) as [Hk0|Hk0].
    + destruct (store_list_ok (k :: r) (e_tx e) count ltac:(lia)) as (l & El & Hz). rewrite El. cbn [bind].
      apply Hfin; [reflexivity|]. cbn [orb]. cbn [with_lists e_tx e_rx pgn_list]. rewrite Hz, Hvals. cbn [bind]. destruct (Z.eqb_spec k 0); [auto|lia].
    + destruct (Z.eqb_spec k 1) as [Hk1|Hk1].
      * destruct (store_list_ok (k :: r) (e_rx e) count ltac:(lia)) as (l & El & Hz). rewrite El. cbn [bind].
        apply Hfin; [reflexivity|]. cbn [orb]. destruct (Z.eqb_spec k 0); [lia|]. cbn [with_lists e_tx e_rx pgn_list]. rewrite Hz, Hvals. cbn [bind]. auto.
      * cbn [bind orb]. apply Hfin; [destruct e; reflexivity|reflexivity].
Qed.

(* ---------- request bookkeeping only ---------- *)
Definition eqv (e e1:entry) : Prop :=
  e1 = with_req (with_pi e (e_pil e) (e_pi e) (e_pireq e1) (e_npi e1)) (e_nname e1) (e_cireq e1) (e_nci e1) (e_pgreq e1) (e_npg e1) (e_lmt e1).
Lemma eqv_refl e : eqv e e.
Proof. destruct e; reflexivity. Qed.
Lemma eqv_trans a b c : eqv a b -> eqv b c -> eqv a c.
Proof. unfold eqv. intros H1 H2. rewrite H2. rewrite H1. reflexivity. Qed.
Lemma eqv_with_req e a b c d f g : eqv e (with_req e a b c d f g).
Proof. destruct e; reflexivity. Qed.
Lemma eqv_mark_pi now e : eqv e (mark_pi now e).
Proof. destruct e; reflexivity. Qed.
Lemma eqv_mark_ci now e : eqv e (mark_ci now e).
Proof. destruct e; reflexivity. Qed.
Lemma eqv_mark_pg now e : eqv e (mark_pg now e).
Proof. destruct e; reflexivity. Qed.
Lemma eqv_src e e1 : eqv e e1 -> e_src e1 = e_src e.
Proof. intros ->. reflexivity. Qed.

Definition req_only (st st1:state) : Prop :=
  WF st1 /\ maxdev st1 = maxdev st /\ updated st1 = updated st /\
  forall j, match slot st j with Some e => exists e1, slot st1 j = Some e1 /\ eqv e e1 | None => slot st1 j = None end.
Lemma req_only_refl st : WF st -> req_only st st.
Proof. intros W. split; [exact W|]. split; [reflexivity|]. split; [reflexivity|]. intros j. destruct (slot st j) as [e|]; [|reflexivity]. exists e. split; [reflexivity|apply eqv_refl]. Qed.
Lemma req_only_trans a b c : req_only a b -> req_only b c -> req_only a c.
Proof.
  intros (_ & M1 & U1 & S1) (W2 & M2 & U2 & S2). split; [exact W2|]. split; [congruence|]. split; [congruence|].
  intros j. specialize (S1 j). specialize (S2 j). destruct (slot a j) as [e|].
  - destruct S1 as (e1 & E1 & V1). rewrite E1 in S2. destruct S2 as (e2 & E2 & V2). exists e2. split; [exact E2|eapply eqv_trans; eauto].
  - rewrite S1 in S2. exact S2.
Qed.
Lemma req_only_flags st st1 p : req_only st st1 -> req_only st (with_flags st1 (updated st1) p).
Proof. intros (W & M & U & S). split; [apply wf_flags; exact W|]. split; [exact M|]. split; [exact U|exact S]. Qed.
Lemma req_only_upd st s oid e e' : WF st -> sref st s = Some oid -> hp st oid = Some e -> eqv e e' ->
  update st oid e' = Ok (upd st oid e') /\ req_only st (upd st oid e').
Proof.
  intros W Hr He Hv. destruct (update_one_slot st s oid e e' W Hr He (eqv_src _ _ Hv)) as (Eu & W' & Hmx & Hsl).
  split; [exact Eu|]. split; [exact W'|]. split; [exact Hmx|]. split; [reflexivity|]. intros j. rewrite Hsl. unfold T_set.
  destruct (Nat.eqb_spec j s) as [->|Hne].
  - destruct (wf_slot _ _ _ W Hr) as (e0 & He0 & Hsl0 & _). rewrite He in He0. injection He0 as <-. rewrite Hsl0. exists e'. auto.
  - destruct (slot st j) as [x|]; [|reflexivity]. exists x. split; [reflexivity|apply eqv_refl].
Qed.

Lemma scan_req_ok ready should mark pgn ok : (forall e, eqv e (mark e)) -> forall fuel st i pend, WF st -> 0 <= i ->
  Z.max 0 (maxdev st - i) < Z.of_nat fuel ->
  exists st1 rq ret p, scan_req ready should mark pgn ok st fuel i pend = Ok (st1, rq, ret, p) /\ req_only st st1.
Proof.
  intros Hmark. induction fuel as [|fuel IH]; intros st i pend W Hi Hf; [lia|]. pose proof W as (Hl & Hm & Wf).
  cbn [scan_req]. destruct (Z.geb_spec i (maxdev st)) as [Hge|Hlt].
  - eexists _, _, _, _. split; [reflexivity|apply req_only_refl; exact W].
  - rewrite src_get_ok by lia. cbn [bind]. destruct (sref st (Z.to_nat i)) as [oid|] eqn:Er; [|apply IH; [exact W|lia|lia]].
    destruct (wf_slot _ _ _ W Er) as (e & He & _). rewrite (deref_ok _ _ _ He). cbn [bind].
    destruct (ready e); [|apply IH; [exact W|lia|lia]].
    destruct ok; [|apply IH; [exact W|lia|lia]].
    destruct (req_only_upd st (Z.to_nat i) oid e (mark e) W Er He (Hmark e)) as (Eu & R). rewrite Eu. cbn [bind].
    eexists _, _, _, _. split; [reflexivity|exact R].
Qed.

Lemma handle_other_ok now ok m st s oid : WF st -> b_src m = Z.of_nat s -> (s < 254)%nat -> sref st s = Some oid ->
  exists st' rq, handle_other now ok m st = Ok (st', rq) /\ req_only st st'.
Proof.
  intros W Hsrc Hs Er. pose proof W as (Hl & Hm & Wf). unfold handle_other.
  destruct (pending st); cbn [negb]; [|eexists _, _; split; [reflexivity|apply req_only_refl; exact W]].
  rewrite Hsrc. rewrite src_get_ok by lia. cbn [bind]. rewrite Nat2Z.id, Er.
  destruct (wf_slot _ _ _ W Er) as (e & He & _). rewrite (deref_ok _ _ _ He). cbn [bind].
  assert (H0 : exists st1 rq0 p0,
     (if (e_name e =? 0) && (e_nname e <? 20) && ok
      then st1 <- update st oid (with_req e ((e_nname e + 1) mod 256) (e_cireq e) (e_nci e) (e_pgreq e) (e_npg e) (e_lmt e)) ;;
           Ok (st1, [(Z.of_nat s, PGN_claim)], true)
      else Ok (st, [], false)) = Ok (st1, rq0, p0) /\ req_only st st1).
  { destruct ((e_name e =? 0) && (e_nname e <? 20) && ok).
    - destruct (req_only_upd st s oid e _ W Er He (eqv_with_req e ((e_nname e + 1) mod 256) (e_cireq e) (e_nci e) (e_pgreq e) (e_npg e) (e_lmt e))) as (Eu & R).
      rewrite Eu. cbn [bind]. eexists _, _, _. split; [reflexivity|exact R].
    - eexists _, _, _. split; [reflexivity|apply req_only_refl; exact W]. }
  destruct H0 as (st1 & rq0 & p0 & E0 & R0). rewrite E0. cbn [bind]. pose proof R0 as (W1 & M1 & _).
  destruct (scan_req_ok (ready_pi now) should_pi (mark_pi now) PGN_prod ok (eqv_mark_pi now) 300 st1 0 p0 W1 ltac:(lia)) as (st2 & rq1 & ret1 & p1 & E1 & R1);
    [destruct W1 as (_ & ? & _); lia|].
  rewrite E1. cbn [bind]. pose proof R1 as (W2 & M2 & _).
  destruct (ret1 || p1).
  { eexists _, _. split; [reflexivity|]. apply req_only_flags. eapply req_only_trans; eauto. }
  destruct (scan_req_ok (ready_ci now) should_ci (mark_ci now) PGN_conf ok (eqv_mark_ci now) 300 st2 0 p1 W2 ltac:(lia)) as (st3 & rq2 & ret2 & p2 & E2 & R2);
    [destruct W2 as (_ & ? & _); lia|].
  rewrite E2. cbn [bind]. pose proof R2 as (W3 & M3 & _).
  destruct (ret2 || p2).
  { eexists _, _. split; [reflexivity|]. apply req_only_flags. eapply req_only_trans; [|exact R2]. eapply req_only_trans; eauto. }
  destruct (scan_req_ok (ready_pg now) should_pg (mark_pg now) PGN_list ok (eqv_mark_pg now) 300 st3 0 p2 W3 ltac:(lia)) as (st4 & rq3 & ret3 & p3 & E3 & R3);
    [destruct W3 as (_ & ? & _); lia|].
  rewrite E3. cbn [bind].
  eexists _, _. split; [reflexivity|]. apply req_only_flags. eapply req_only_trans; [|exact R3]. eapply req_only_trans; [|exact R2]. eapply req_only_trans; eauto.
Qed.

Lemma touch_ok now st s : WF st -> (s < 254)%nat -> exists st', touch now (Z.of_nat s) st = Ok st' /\ req_only st st'.
Proof.
  intros W Hs. pose proof W as (Hl & Hm & Wf). unfold touch. rewrite src_get_ok by lia. cbn [bind]. rewrite Nat2Z.id.
  destruct (sref st s) as [oid|] eqn:Er; [|exists st; split; [reflexivity|apply req_only_refl; exact W]].
  destruct (wf_slot _ _ _ W Er) as (e & He & _). rewrite (deref_ok _ _ _ He). cbn [bind].
  set (again := (e_name e =? 0) && (e_nname e >? 0) && has_elapsed (e_lmt e) 60000 now).
  destruct (req_only_upd st s oid e _ W Er He (eqv_with_req e (if again then 0 else e_nname e) (e_cireq e) (e_nci e) (e_pgreq e) (e_npg e) now)) as (Eu & R).
  rewrite Eu. cbn [bind]. eexists. split; [reflexivity|]. destruct again; [apply req_only_flags; exact R|exact R].
Qed.

Lemma add_device_ok now ok st s : WF st -> (s < 254)%nat -> sref st s = None ->
  exists st' rq, add_device now ok (Z.of_nat s) st = Ok (st', rq) /\ WF st' /\ updated st' = updated st /\ maxdev st <= maxdev st' /\
    ((ok = false /\ st' = st) \/ (ok = true /\ forall j, slot st' j = T_set (slot st) s (Some (with_src (new_entry 0 now) (Z.of_nat s))) j)).
Proof.
  intros W Hs Er. pose proof W as (Hl & Hm & Wf). unfold add_device. destruct ok.
  2:{ exists st, []. split; [reflexivity|]. split; [exact W|]. split; [reflexivity|]. split; [lia|]. left. auto. }
  destruct (alloc st (new_entry 0 now)) as [st1 oid] eqn:Ea.
  assert (Hoid : oid = length (heap st)) by (unfold alloc in Ea; congruence).
  assert (Hst1 : st1 = fst (alloc st (new_entry 0 now))) by (rewrite Ea; reflexivity).
  destruct (wf_added st (new_entry 0 now) s W Er Hs) as (W1 & Hsl1 & Hmax1 & Hhp1).
  rewrite (save_device_ok st1 oid (new_entry 0 now) s); [|subst st1; cbn; exact Hl|exact Hs|subst; exact Hhp1]. cbn [bind].
  subst oid st1. fold (added st (new_entry 0 now) s).
  eexists _, _. split; [reflexivity|]. split; [apply wf_flags; exact W1|]. split; [reflexivity|].
  split; [change (maxdev (with_flags (added st (new_entry 0 now) s) (updated (added st (new_entry 0 now) s)) true)) with (maxdev (added st (new_entry 0 now) s)); rewrite Hmax1; apply mx_ge|].
  right. split; [reflexivity|]. intros j. rewrite slot_flags. apply Hsl1.
Qed.

(* ---------- HandleMsg ---------- *)
Definition prod_eff (st1 st2:state) (m:bmsg) (s:nat) : Prop :=
  maxdev st2 = maxdev st1 /\
  ((st2 = st1 /\ (slot st1 s = None \/ (exists e, slot st1 s = Some e /\ e_pil e = true) \/ parse_pi m = None)) \/
   exists e raw P, slot st1 s = Some e /\ e_pil e = false /\ parse_pi m = Some raw /\
     ((pi_same raw (e_pi e) = true /\ P = e_pi e /\ updated st2 = updated st1) \/ (P = pi_norm raw /\ updated st2 = true)) /\
     forall j, slot st2 j = T_set (slot st1) s (Some (with_pi e true P (e_pireq e) (e_npi e))) j).
Definition conf_eff (st1 st2:state) (m:bmsg) (s:nat) : Prop :=
  maxdev st2 = maxdev st1 /\
  ((st2 = st1 /\ (slot st1 s = None \/ s_conf (pl m) = None)) \/
   exists e e2, slot st1 s = Some e /\ conf_only e e2 /\ updated st2 = true /\ (forall j, slot st2 j = T_set (slot st1) s (Some e2) j) /\
     forall man d1 d2, s_conf (pl m) = Some (man, d1, d2) -> conf_rep e2 man d1 d2).
Definition list_eff (st1 st2:state) (m:bmsg) (s:nat) : Prop :=
  maxdev st2 = maxdev st1 /\
  ((st2 = st1 /\ slot st1 s = None) \/ exists e e2, slot st1 s = Some e /\ updated st2 = true /\ lists_only e e2 /\
     (forall j, slot st2 j = T_set (slot st1) s (Some e2) j) /\
     match s_list (pl m) with
     | Some (k, l) => if k =? 0 then pgn_list (e_tx e2) = Ok (Some l) /\ e_rx e2 = e_rx e
                      else pgn_list (e_rx e2) = Ok (Some l) /\ e_tx e2 = e_tx e
     | None => e2 = e
     end).
Definition main_eff (st1 st2:state) (m:bmsg) (s:nat) (now:Z) : Prop :=
  if b_pgn m =? PGN_claim then claim_eff (slot st1) (slot st2) s (claim_name m) now /\ (updated st2 = true \/ st2 = st1) /\ maxdev st1 <= maxdev st2
  else if b_pgn m =? PGN_prod then prod_eff st1 st2 m s
  else if b_pgn m =? PGN_conf then conf_eff st1 st2 m s
  else if b_pgn m =? PGN_list then list_eff st1 st2 m s
  else req_only st1 st2.
Definition msg_eff (st st':state) (m:bmsg) (now:Z) : Prop :=
  (~ (0 <= b_src m < 254) /\ st' = st) \/
  exists s, b_src m = Z.of_nat s /\ (s < 254)%nat /\
    exists st1, WF st1 /\
      (st1 = st \/
       (slot st s = None /\ b_pgn m <> PGN_claim /\ updated st1 = updated st /\ maxdev st <= maxdev st1 /\
        forall j, slot st1 j = T_set (slot st) s (Some (with_src (new_entry 0 now) (Z.of_nat s))) j)) /\
      ((st' = st1 /\ b_pgn m <> PGN_claim /\ ((st1 = st /\ slot st s = None) \/ is_info_pgn (b_pgn m) = false)) \/
       exists st2, WF st2 /\ main_eff st1 st2 m s now /\ req_only st2 st').

Lemma handle_msg_ok now ok m st : WF st ->
  exists st' rq, handle_msg now ok m st = Ok (st', rq) /\ WF st' /\ msg_eff st st' m now.
Proof.
  intros W. pose proof W as (Hl & Hm & Wf). unfold handle_msg, MaxBus.
  destruct (Z.leb_spec 0 (b_src m)) as [H0|H0]; cbn [andb negb].
  2:{ exists st, []. split; [reflexivity|]. split; [exact W|]. left. split; [lia|reflexivity]. }
  destruct (Z.ltb_spec (b_src m) 254) as [H1|H1]; cbn [negb].
  2:{ exists st, []. split; [reflexivity|]. split; [exact W|]. left. split; [lia|reflexivity]. }
  set (s := Z.to_nat (b_src m)). assert (Hsrc : b_src m = Z.of_nat s) by lia. assert (Hs : (s < 254)%nat) by lia.
  rewrite src_get_ok by lia. cbn [bind]. fold s.
  (* the second phase, from a state st1 in which the handler runs *)
  assert (Hmain : forall st1 rq0, WF st1 -> (b_pgn m =? PGN_claim = false -> exists oid, sref st1 s = Some oid) ->
    exists st' rq st2,
      (r1 <- (if b_pgn m =? PGN_claim then handle_claim now ok m st1
              else if b_pgn m =? PGN_prod then st2 <- handle_prod m st1 ;; Ok (st2, [])
              else if b_pgn m =? PGN_conf then st2 <- handle_conf m st1 ;; Ok (st2, [])
              else if b_pgn m =? PGN_list then st2 <- handle_list m st1 ;; Ok (st2, [])
              else handle_other now ok m st1) ;;
       (let (st2, rq1) := r1 in st3 <- touch now (b_src m) st2 ;; Ok (st3, rq0 ++ rq1))) = Ok (st', rq) /\
      WF st' /\ WF st2 /\ main_eff st1 st2 m s now /\ req_only st2 st').
  { intros st1 rq0 W1 Hsome. unfold main_eff.
    assert (Htouch : forall st2 rq1, WF st2 -> exists st' rq, (st3 <- touch now (b_src m) st2 ;; Ok (st3, rq0 ++ rq1)) = Ok (st', rq) /\ WF st' /\ req_only st2 st').
    { intros st2 rq1 W2. rewrite Hsrc. destruct (touch_ok now st2 s W2 Hs) as (st3 & E3 & R3). rewrite E3. cbn [bind].
      eexists _, _. split; [reflexivity|]. split; [apply R3|exact R3]. }
    destruct (b_pgn m =? PGN_claim) eqn:Ec.
    - destruct (handle_claim_ok now ok m st1 s W1 Hsrc Hs) as (st2 & rq1 & E & W2 & Hce & Hu & Hmx). rewrite E. cbn [bind].
      destruct (Htouch st2 rq1 W2) as (st' & rq & E' & W' & R'). exists st', rq, st2. auto 10.
    - destruct (b_pgn m =? PGN_prod) eqn:Ep.
      + destruct (handle_prod_ok m st1 s W1 Hsrc Hs) as (st2 & E & W2 & Hx). rewrite E. cbn [bind].
        destruct (Htouch st2 [] W2) as (st' & rq & E' & W' & R'). exists st', rq, st2. unfold prod_eff. auto 10.
      + destruct (b_pgn m =? PGN_conf) eqn:Ef.
        * destruct (handle_conf_ok2 m st1 s W1 Hsrc Hs) as (st2 & E & W2 & Hx). rewrite E. cbn [bind].
          destruct (Htouch st2 [] W2) as (st' & rq & E' & W' & R'). exists st', rq, st2. unfold conf_eff. auto 10.
        * destruct (b_pgn m =? PGN_list) eqn:El.
          -- destruct (handle_list_ok m st1 s W1 Hsrc Hs) as (st2 & E & W2 & Hx). rewrite E. cbn [bind].
             destruct (Htouch st2 [] W2) as (st' & rq & E' & W' & R'). exists st', rq, st2. unfold list_eff. auto 10.
          -- destruct (Hsome eq_refl) as (oid & Er).
             destruct (handle_other_ok now ok m st1 s oid W1 Hsrc Hs Er) as (st2 & rq1 & E & R). rewrite E. cbn [bind].
             destruct (Htouch st2 rq1 ltac:(apply R)) as (st' & rq & E' & W' & R'). exists st', rq, st2. split; [exact E'|]. split; [exact W'|]. split; [apply R|]. auto. }
  destruct (sref st s) as [oid|] eqn:Er.
  - (* known source *)
    cbn [bind]. destruct (Hmain st [] W ltac:(intros _; exists oid; exact Er)) as (st' & rq & st2 & E & W' & W2 & Hme & R).
    cbn [app] in E. exists st', rq. split; [exact E|]. split; [exact W'|]. right. exists s. split; [exact Hsrc|]. split; [exact Hs|].
    exists st. split; [exact W|]. split; [left; reflexivity|]. right. exists st2. auto.
  - destruct (b_pgn m =? PGN_claim) eqn:Ec.
    + cbn [bind]. destruct (Hmain st [] W ltac:(intros H; congruence)) as (st' & rq & st2 & E & W' & W2 & Hme & R).
      try rewrite Ec in E. cbn [app] in E. exists st', rq. split; [exact E|]. split; [exact W'|]. right. exists s. split; [exact Hsrc|]. split; [exact Hs|].
      exists st. split; [exact W|]. split; [left; reflexivity|]. right. exists st2. auto.
    + rewrite Hsrc. destruct (add_device_ok now ok st s W Hs Er) as (st1 & rq0 & Ea & W1 & Hu1 & Hmx1 & Hcase). rewrite Ea. cbn [bind fst snd].
      assert (Hadd : st1 = st \/ (slot st s = None /\ b_pgn m <> PGN_claim /\ updated st1 = updated st /\ maxdev st <= maxdev st1 /\
                       forall j, slot st1 j = T_set (slot st) s (Some (with_src (new_entry 0 now) (Z.of_nat s))) j)).
      { destruct Hcase as [[_ ->]|[_ Hsl]]; [left; reflexivity|]. right. split; [apply slot_none_of_sref; exact Er|].
        split; [intros Hp; rewrite Hp in Ec; discriminate|]. auto. }
      destruct (is_info_pgn (b_pgn m)) eqn:Einfo; cbn [negb].
      * (* the handler runs on the new placeholder, or finds nothing when the request could not be sent *)
        destruct Hcase as [[-> ->]|[-> Hsl]].
        -- (* nothing was created: the handlers return at once, touch finds nothing *)
           assert (Hfin : exists st' rq, Ok (st, rq0 ++ []) = Ok (st', rq) /\ WF st' /\ msg_eff st st' m now).
           { eexists _, _. split; [reflexivity|]. split; [exact W|].
             right. exists s. split; [exact Hsrc|]. split; [exact Hs|]. exists st. split; [exact W|]. split; [left; reflexivity|]. left.
             split; [reflexivity|]. split; [intros Hp; rewrite Hp in Ec; discriminate|]. left. split; [reflexivity|]. apply slot_none_of_sref. exact Er. }
           unfold is_info_pgn in Einfo. unfold handle_prod, handle_conf, handle_list, touch. rewrite ?Hsrc.
           destruct (b_pgn m =? PGN_prod); [rewrite !src_get_ok by lia; rewrite ?Nat2Z.id, ?Er; cbn [bind]; rewrite ?src_get_ok by lia; rewrite ?Nat2Z.id, ?Er; cbn [bind]; exact Hfin|].
           destruct (b_pgn m =? PGN_conf); [rewrite !src_get_ok by lia; rewrite ?Nat2Z.id, ?Er; cbn [bind]; rewrite ?src_get_ok by lia; rewrite ?Nat2Z.id, ?Er; cbn [bind]; exact Hfin|].
           destruct (b_pgn m =? PGN_list); [rewrite !src_get_ok by lia; rewrite ?Nat2Z.id, ?Er; cbn [bind]; rewrite ?src_get_ok by lia; rewrite ?Nat2Z.id, ?Er; cbn [bind]; exact Hfin|].
           discriminate.
        -- assert (Hr1 : exists oid, sref st1 s = Some oid).
           { destruct (sref st1 s) as [o|] eqn:E1; [eauto|]. pose proof (Hsl s) as H. unfold T_set in H. rewrite Nat.eqb_refl in H.
             rewrite (slot_none_of_sref _ _ E1) in H. discriminate. }
           destruct (Hmain st1 rq0 W1 ltac:(intros _; exact Hr1)) as (st' & rq & st2 & E & W' & W2 & Hme & R).
           rewrite Hsrc in E. rewrite E. exists st', rq. split; [reflexivity|]. split; [exact W'|]. right. exists s. split; [exact Hsrc|]. split; [exact Hs|].
           exists st1. split; [exact W1|]. split; [exact Hadd|]. right. exists st2. auto.
      * exists st1, rq0. split; [reflexivity|]. split; [exact W1|]. right. exists s. split; [exact Hsrc|]. split; [exact Hs|].
        exists st1. split; [exact W1|]. split; [exact Hadd|]. left. split; [reflexivity|]. split; [intros Hp; rewrite Hp in Ec; discriminate|]. right. exact Einfo.
Qed.

(* ====================================================================================================================== *)
(* Part 3: theorems *)

Lemma run_ok : forall h st, WF st -> exists st', run h st = Ok st' /\ WF st'.
Proof.
  induction h as [|[[now ok] m] h IH]; intros st W; cbn [run]; [exists st; auto|].
  destruct (handle_msg_ok now ok m st W) as (st1 & rq & E & W1 & _). rewrite E. cbn [bind fst]. apply IH. exact W1.
Qed.

Lemma entry_at_slot st s : WF st -> 0 <= s < 254 -> entry_at st s = Ok (slot st (Z.to_nat s)).
Proof.
  intros W Hs. pose proof W as (Hl & Hm & Wf). unfold entry_at, find_by_source, MaxBus. destruct (Z.geb_spec s 254); [lia|].
  rewrite src_get_ok by lia. cbn [bind]. unfold slot. destruct (sref st (Z.to_nat s)) as [oid|] eqn:Er; [|reflexivity].
  destruct (wf_slot _ _ _ W Er) as (e & He & _). rewrite (deref_ok _ _ _ He), He. reflexivity.
Qed.
Lemma entry_at_high st s : 254 <= s -> entry_at st s = Ok None.
Proof. intros Hs. unfold entry_at, find_by_source, MaxBus. destruct (Z.geb_spec s 254); [reflexivity|lia]. Qed.
Lemma entry_at_some st s e : WF st -> entry_at st s = Ok (Some e) -> 0 <= s < 254 /\ slot st (Z.to_nat s) = Some e.
Proof.
  intros W H. destruct (Z.lt_ge_cases s 0) as [Hneg|Hpos].
  - unfold entry_at, find_by_source, MaxBus in H. replace (s >=? 254) with false in H by (symmetry; rewrite Z.geb_leb; apply Z.leb_gt; lia). unfold src_get in H.
    assert (src_ok s = false) by (unfold src_ok; destruct (Z.leb_spec 0 s); [lia|reflexivity]). rewrite H0 in H. discriminate.
  - destruct (Z.lt_ge_cases s 254) as [Hlt|Hge]; [|rewrite entry_at_high in H by lia; discriminate].
    rewrite entry_at_slot in H by (auto; lia). injection H as H. split; [lia|exact H].
Qed.

Theorem heap_safe : heap_safe_stmt.
Proof.
  intros h. destruct (run_ok h init_state wf_init) as (st & E & W). exists st. split; [exact E|]. split.
  - intros s Hs. destruct (Z.lt_ge_cases s 254); [rewrite entry_at_slot by (auto; lia)|rewrite entry_at_high by lia]; eauto.
  - intros n. unfold by_name. destruct (find_by_name_spec st n W) as [(k & oid & e & E1 & _ & He & _)|[E1 _]]; rewrite E1; cbn [bind].
    + rewrite (deref_ok _ _ _ He). cbn [bind]. eauto.
    + eauto.
Qed.

(* ---------- invariants on the content view ---------- *)
Definition tview := nat -> option entry.
Definition uniq (T:tview) : Prop :=
  forall i j ei ej, T i = Some ei -> T j = Some ej -> e_name ei = e_name ej -> e_name ei <> 0 -> i = j.

Lemma T_set_eq T s v : T_set T s v s = v.
Proof. unfold T_set. rewrite Nat.eqb_refl. reflexivity. Qed.
Lemma T_set_neq T s v j : j <> s -> T_set T s v j = T j.
Proof. intros H. unfold T_set. destruct (Nat.eqb_spec j s); [congruence|reflexivity]. Qed.

Lemma uniq_ext (T T':tview) : (forall j, T' j = T j) -> uniq T -> uniq T'.
Proof. intros H U i j ei ej Hi Hj. rewrite H in Hi, Hj. eapply U; eauto. Qed.
Lemma uniq_clear T k : uniq T -> uniq (T_set T k None).
Proof.
  intros U i j ei ej Hi Hj. unfold T_set in Hi, Hj. destruct (Nat.eqb_spec i k); [discriminate|]. destruct (Nat.eqb_spec j k); [discriminate|].
  eapply U; eauto.
Qed.
Lemma uniq_set T s e : uniq T -> (e_name e <> 0 -> forall j e', j <> s -> T j = Some e' -> e_name e' <> e_name e) -> uniq (T_set T s (Some e)).
Proof.
  intros U Hno i j ei ej Hi Hj Hn Hnz. unfold T_set in Hi, Hj. destruct (Nat.eqb_spec i s) as [->|Hi']; destruct (Nat.eqb_spec j s) as [->|Hj']; try reflexivity.
  - injection Hi as <-. exfalso. eapply Hno; eauto.
  - injection Hj as <-. exfalso. eapply (Hno ltac:(congruence) i ei); eauto.
  - eapply U; eauto.
Qed.
(* the entry of slot k moves to slot s (keeping its NAME) *)
Lemma uniq_move T k s e2 e2' : uniq T -> T k = Some e2 -> e_name e2' = e_name e2 -> uniq (T_set (T_set T k None) s (Some e2')).
Proof.
  intros U Hk Hn. apply uniq_set; [apply uniq_clear; exact U|]. intros Hnz j e' Hj Hs. unfold T_set in Hs.
  destruct (Nat.eqb_spec j k); [discriminate|]. intros Heq. apply n. eapply U; eauto; congruence.
Qed.

Definition nrm (p:prodinfo) : Prop := p_ver p <> 65535 /\ p_cert p <> 255 /\ p_load p <> 255.
Definition pi_nrm (T:tview) : Prop := forall j e, T j = Some e -> nrm (e_pi e).
Lemma nrm_clear : nrm pi_clear.
Proof. unfold nrm, pi_clear. cbn. lia. Qed.
Lemma nrm_norm p : nrm (pi_norm p).
Proof.
  unfold nrm, pi_norm. cbn [p_ver p_cert p_load]. destruct (Z.eqb_spec (p_ver p) 65535); destruct (Z.eqb_spec (p_cert p) 255); destruct (Z.eqb_spec (p_load p) 255); lia.
Qed.

(* summary of what a claim does to the content view *)
Definition claim_sum (T T':tview) (s:nat) (cn:Z) : Prop :=
  (forall j, j <> s ->
     T' j = T j \/
     (T' j = None /\ exists e2, T j = Some e2 /\ e_name e2 = cn) \/
     (T j = None /\ exists e, T s = Some e /\ e_name e <> cn /\ e_name e <> 0 /\ T' j = Some (with_src e (Z.of_nat j)))) /\
  (((forall j, T' j = T j) /\ exists e, T s = Some e /\ e_name e = cn /\ cn <> 0) \/
   (exists e', T' s = Some e' /\ e_name e' = cn /\ e_pil e' = false /\ (pi_nrm T -> nrm (e_pi e')))) /\
  (uniq T -> uniq T') /\ (pi_nrm T -> pi_nrm T').

Lemma placed_sum (T T':tview) s cn now : T s = None -> placed T T' s cn now ->
  (forall j, j <> s -> T' j = T j \/ (T' j = None /\ exists e2, T j = Some e2 /\ e_name e2 = cn)) /\
  (exists e', T' s = Some e' /\ e_name e' = cn /\ e_pil e' = false /\ (pi_nrm T -> nrm (e_pi e'))) /\
  (uniq T -> uniq T') /\ (pi_nrm T -> pi_nrm T').
Proof.
  intros Hs [(k & e2 & Hks & Hk & Hn & HT')|(Hno & HT')].
  - split; [|split; [|split]].
    + intros j Hj. rewrite HT', T_set_neq by exact Hj. destruct (Nat.eq_dec j k) as [->|Hjk].
      * right. rewrite T_set_eq. split; [reflexivity|]. exists e2. auto.
      * left. apply T_set_neq. exact Hjk.
    + eexists. rewrite HT', T_set_eq. split; [reflexivity|]. split; [exact Hn|]. split; [reflexivity|]. intros Hp. exact (Hp k e2 Hk).
    + intros U. eapply uniq_ext; [exact HT'|]. eapply uniq_move; eauto.
    + intros Hp j e Hj. rewrite HT' in Hj. unfold T_set in Hj. destruct (Nat.eqb_spec j s).
      * injection Hj as <-. exact (Hp k e2 Hk).
      * destruct (Nat.eqb_spec j k); [discriminate|]. exact (Hp j e Hj).
  - split; [|split; [|split]].
    + intros j Hj. left. rewrite HT'. apply T_set_neq. exact Hj.
    + eexists. rewrite HT', T_set_eq. split; [reflexivity|]. split; [reflexivity|]. split; [reflexivity|]. intros _. apply nrm_clear.
    + intros U. eapply uniq_ext; [exact HT'|]. apply uniq_set; [exact U|]. intros _ j e' _ Hj. cbn. exact (Hno j e' Hj).
    + intros Hp j e Hj. rewrite HT' in Hj. unfold T_set in Hj. destruct (Nat.eqb_spec j s).
      * injection Hj as <-. apply nrm_clear.
      * exact (Hp j e Hj).
Qed.

Lemma claim_eff_sum (T T':tview) s cn now : claim_eff T T' s cn now -> claim_sum T T' s cn.
Proof.
  unfold claim_eff, claim_sum. destruct (T s) as [e|] eqn:Es.
  2:{ intros Hp. destruct (placed_sum T T' s cn now Es Hp) as (H1 & H2 & H3 & H4). split; [|split; [right; exact H2|split; assumption]].
      intros j Hj. destruct (H1 j Hj) as [H|H]; auto. }
  destruct (Z.eqb_spec (e_name e) 0) as [Hn0|Hn0].
  - intros [(k & e2 & Hks & Hk & Hn & HT')|(Hno & HT')].
    + split; [|split; [|split]].
      * intros j Hj. rewrite HT', T_set_neq by exact Hj. destruct (Nat.eq_dec j k) as [->|Hjk].
        -- right. left. rewrite T_set_eq. split; [reflexivity|]. exists e2. auto.
        -- left. apply T_set_neq. exact Hjk.
      * right. eexists. rewrite HT', T_set_eq. split; [reflexivity|]. split; [exact Hn|]. split; [reflexivity|]. intros Hp. exact (Hp k e2 Hk).
      * intros U. eapply uniq_ext; [exact HT'|]. eapply uniq_move; eauto.
      * intros Hp j x Hj. rewrite HT' in Hj. unfold T_set in Hj. destruct (Nat.eqb_spec j s).
        -- injection Hj as <-. exact (Hp k e2 Hk).
        -- destruct (Nat.eqb_spec j k); [discriminate|]. exact (Hp j x Hj).
    + split; [|split; [|split]].
      * intros j Hj. left. rewrite HT'. apply T_set_neq. exact Hj.
      * right. eexists. rewrite HT', T_set_eq. split; [reflexivity|]. split; [reflexivity|]. split; [reflexivity|]. intros Hp. exact (Hp s e Es).
      * intros U. eapply uniq_ext; [exact HT'|]. apply uniq_set; [exact U|]. cbn. intros Hcn j e' _ Hj. exact (Hno Hcn j e' Hj).
      * intros Hp j x Hj. rewrite HT' in Hj. unfold T_set in Hj. destruct (Nat.eqb_spec j s).
        -- injection Hj as <-. exact (Hp s e Es).
        -- exact (Hp j x Hj).
  - destruct (Z.eqb_spec (e_name e) cn) as [Hnc|Hnc].
    + intros HT'. split; [intros j _; left; apply HT'|]. split; [left; split; [exact HT'|]; exists e; split; [reflexivity|]; split; [exact Hnc|congruence]|].
      split; [intros U; eapply uniq_ext; eauto|]. intros Hp j x Hj. rewrite HT' in Hj. exact (Hp j x Hj).
    + intros (T1 & Hpark & Hp).
      assert (H1s : T1 s = None) by (destruct Hpark as [(i & His & Hi & HT1)|HT1]; rewrite HT1; apply T_set_eq).
      destruct (placed_sum T1 T' s cn now H1s Hp) as (P1 & P2 & P3 & P4).
      destruct Hpark as [(i & His & Hi & HT1)|HT1].
      * split; [|split; [|split]].
        -- intros j Hj. destruct (P1 j Hj) as [H|(H & e2 & He2 & Hn2)].
           ++ rewrite H, HT1, T_set_neq by exact Hj. destruct (Nat.eq_dec j i) as [->|Hji].
              ** right. right. rewrite T_set_eq. split; [exact Hi|]. exists e. auto.
              ** left. apply T_set_neq. exact Hji.
           ++ rewrite HT1, T_set_neq in He2 by exact Hj. destruct (Nat.eq_dec j i) as [->|Hji].
              ** rewrite T_set_eq in He2. injection He2 as <-. cbn in Hn2. congruence.
              ** rewrite T_set_neq in He2 by exact Hji. right. left. split; [exact H|]. exists e2. auto.
        -- right. destruct P2 as (e' & E' & Hn' & Hl' & Hnr). exists e'. split; [exact E'|]. split; [exact Hn'|]. split; [exact Hl'|].
           intros HpT. apply Hnr. intros j x Hj. rewrite HT1 in Hj. unfold T_set in Hj. destruct (Nat.eqb_spec j s); [discriminate|].
           destruct (Nat.eqb_spec j i); [injection Hj as <-; exact (HpT s e Es)|exact (HpT j x Hj)].
        -- intros U. apply P3. apply (uniq_ext (T_set (T_set T s None) i (Some (with_src e (Z.of_nat i))))).
           ++ intros j. rewrite HT1. unfold T_set. destruct (Nat.eqb_spec j s); destruct (Nat.eqb_spec j i); try reflexivity. congruence.
           ++ eapply uniq_move; eauto.
        -- intros HpT. apply P4. intros j x Hj. rewrite HT1 in Hj. unfold T_set in Hj. destruct (Nat.eqb_spec j s); [discriminate|].
           destruct (Nat.eqb_spec j i); [injection Hj as <-; exact (HpT s e Es)|exact (HpT j x Hj)].
      * split; [|split; [|split]].
        -- intros j Hj. destruct (P1 j Hj) as [H|(H & e2 & He2 & Hn2)].
           ++ left. rewrite H, HT1. apply T_set_neq. exact Hj.
           ++ rewrite HT1, T_set_neq in He2 by exact Hj. right. left. split; [exact H|]. exists e2. auto.
        -- right. destruct P2 as (e' & E' & Hn' & Hl' & Hnr). exists e'. split; [exact E'|]. split; [exact Hn'|]. split; [exact Hl'|].
           intros HpT. apply Hnr. intros j x Hj. rewrite HT1 in Hj. unfold T_set in Hj. destruct (Nat.eqb_spec j s); [discriminate|exact (HpT j x Hj)].
        -- intros U. apply P3. eapply uniq_ext; [exact HT1|]. apply uniq_clear. exact U.
        -- intros HpT. apply P4. intros j x Hj. rewrite HT1 in Hj. unfold T_set in Hj. destruct (Nat.eqb_spec j s); [discriminate|exact (HpT j x Hj)].
Qed.

Lemma claim_eff_same (T T':tview) s cn now e : claim_eff T T' s cn now -> T s = Some e -> e_name e = cn -> cn <> 0 -> forall j, T' j = T j.
Proof.
  unfold claim_eff. intros H Hs Hn Hc. rewrite Hs in H. destruct (Z.eqb_spec (e_name e) 0); [congruence|].
  destruct (Z.eqb_spec (e_name e) cn); [exact H|congruence].
Qed.

(* ---------- the invariant between the content view and the abstract mirror ---------- *)
Definition Mwf (M:mirror) : Prop := NoDup (map a_src M) /\ forall d, In d M -> 0 <= a_src d < 254.
Definition dev_ok (b:bool) (d:adev) (e:entry) : Prop :=
  e_name e = a_name d /\
  (forall l, a_tx d = Some l -> pgn_list (e_tx e) = Ok (Some l)) /\
  (forall l, a_rx d = Some l -> pgn_list (e_rx e) = Ok (Some l)) /\
  (b = true -> (a_pi d = None -> e_pil e = false) /\ (forall p, a_pi d = Some p -> e_pi e = s_reported p /\ e_pil e = true)) /\
  (forall man d1 d2, a_ci d = Some (man, d1, d2) -> conf_rep e man d1 d2).
Definition devs (b:bool) (T:tview) (M:mirror) : Prop :=
  forall d, In d M -> a_name d <> 0 -> exists e, T (Z.to_nat (a_src d)) = Some e /\ dev_ok b d e.
Definition InvT (b:bool) (T:tview) (M:mirror) : Prop := uniq T /\ Mwf M /\ pi_nrm T /\ devs b T M.

Lemma holder_in M a d : holder M a = Some d -> In d M /\ a_src d = a.
Proof. unfold holder. intros H. apply find_some in H. destruct H as [H1 H2]. apply Z.eqb_eq in H2. auto. Qed.
Lemma holder_none M a d : holder M a = None -> In d M -> a_src d <> a.
Proof. unfold holder. intros H Hin Heq. pose proof (find_none _ _ H d Hin) as Hx. cbn in Hx. apply Z.eqb_neq in Hx. auto. Qed.
Lemma nodup_src M d d' : NoDup (map a_src M) -> In d M -> In d' M -> a_src d = a_src d' -> d = d'.
Proof.
  induction M as [|x M IH]; intros Hnd Hd Hd' Heq; [destruct Hd|]. cbn [map] in Hnd. inversion Hnd as [|? ? Hnin Hnd']. subst.
  destruct Hd as [->|Hd]; destruct Hd' as [->|Hd']; try reflexivity.
  - exfalso. apply Hnin. rewrite Heq. apply in_map. exact Hd'.
  - exfalso. apply Hnin. rewrite <- Heq. apply in_map. exact Hd.
  - apply IH; auto.
Qed.
Lemma nodup_map_filter {A B} (f:A -> B) (p:A -> bool) : forall l, NoDup (map f l) -> NoDup (map f (filter p l)).
Proof.
  induction l as [|x l IH]; intros H; [constructor|]. cbn [map] in H. inversion H as [|? ? Hnin Hnd]. subst. cbn [filter].
  destruct (p x); [|apply IH; exact Hnd]. cbn [map]. constructor; [|apply IH; exact Hnd].
  intros Hin. apply Hnin. apply in_map_iff in Hin. destruct Hin as (y & Hy & Hin). apply filter_In in Hin. apply in_map_iff. exists y. tauto.
Qed.

Lemma inv_claim b (T T':tview) M s cn now : InvT b T M -> claim_eff T T' s cn now -> (s < 254)%nat ->
  (b = true -> cn <> 0 -> (forall d, holder M (Z.of_nat s) = Some d -> a_name d <> cn) -> forall e, T s = Some e -> e_name e <> cn) ->
  InvT b T' (s_claim M cn (Z.of_nat s)).
Proof.
  intros (U & (Hnd & Hrng) & Hp & Hd) Heff Hs Hhyp. pose proof (claim_eff_sum _ _ _ _ _ Heff) as (S1 & S2 & S3 & S4).
  assert (Hframe : forall d, In d M -> a_name d <> 0 -> a_src d <> Z.of_nat s -> a_name d <> cn ->
            exists e, T' (Z.to_nat (a_src d)) = Some e /\ dev_ok b d e).
  { intros d Hin Hn0 Hsrc Hncn. destruct (Hd d Hin Hn0) as (e & He & Hok). pose proof (Hrng d Hin) as Hr.
    destruct (S1 (Z.to_nat (a_src d)) ltac:(lia)) as [H|[(H & e2 & He2 & Hn2)|(H & _)]].
    - exists e. rewrite H. auto.
    - exfalso. rewrite He in He2. injection He2 as <-. destruct Hok as (Hname & _). congruence.
    - congruence. }
  unfold s_claim.
  assert (Hnew : (forall d, holder M (Z.of_nat s) = Some d -> a_name d <> cn) ->
     InvT b T' (fresh cn (Z.of_nat s) :: filter (fun x => negb (a_src x =? Z.of_nat s) && negb (a_name x =? cn)) M)).
  { intros Hnh. split; [apply S3; exact U|]. split; [|split; [apply S4; exact Hp|]].
    - split.
      + cbn [map fresh a_src]. constructor; [|apply nodup_map_filter; exact Hnd].
        intros Hin. apply in_map_iff in Hin. destruct Hin as (y & Hy & Hin). apply filter_In in Hin. destruct Hin as (_ & Hf).
        apply andb_true_iff in Hf. destruct Hf as (Hf & _). apply negb_true_iff, Z.eqb_neq in Hf. congruence.
      + intros d [<-|Hin]; [cbn; lia|]. apply filter_In in Hin. apply Hrng. tauto.
    - intros d [<-|Hin] Hn0.
      + cbn [fresh a_name a_src] in *. rewrite Nat2Z.id.
        destruct S2 as [(Hsame & e & Es & Hne & Hc0)|(e' & Es' & Hne' & Hpil & _)].
        * exists e. rewrite Hsame. split; [exact Es|]. split; [exact Hne|]. split; [discriminate|]. split; [discriminate|]. split; [|discriminate].
          intros Hb. exfalso. exact (Hhyp Hb Hc0 Hnh e Es Hne).
        * exists e'. split; [exact Es'|]. split; [exact Hne'|]. split; [discriminate|]. split; [discriminate|]. split; [|discriminate].
          intros _. split; [intros _; exact Hpil|discriminate].
      + apply filter_In in Hin. destruct Hin as (Hin & Hf). apply andb_true_iff in Hf. destruct Hf as (Hf1 & Hf2).
        apply negb_true_iff, Z.eqb_neq in Hf1. apply negb_true_iff, Z.eqb_neq in Hf2. apply Hframe; auto. }
  destruct (holder M (Z.of_nat s)) as [d0|] eqn:Eh; [|apply Hnew; discriminate].
  destruct (Z.eqb_spec (a_name d0) cn) as [Hrep|Hrep]; [|apply Hnew; intros d E; injection E as <-; exact Hrep].
  (* a repeated claim: the mirror does not change *)
  destruct (holder_in _ _ _ Eh) as (Hin0 & Hsrc0).
  split; [apply S3; exact U|]. split; [split; assumption|]. split; [apply S4; exact Hp|].
  intros d Hin Hn0. destruct (Z.eq_dec (a_src d) (Z.of_nat s)) as [Hsd|Hsd].
  - assert (d = d0) by (eapply nodup_src; eauto; congruence). subst d0.
    destruct (Hd d Hin Hn0) as (e & He & Hok). rewrite Hsd, Nat2Z.id in He |- *. destruct Hok as (Hname & Hrest).
    exists e. rewrite (claim_eff_same _ _ _ _ _ _ Heff He ltac:(congruence) ltac:(congruence)). split; [exact He|]. split; assumption.
  - destruct (Z.eq_dec (a_name d) cn) as [Hnc|Hnc]; [|apply Hframe; auto].
    (* another device of the mirror with the NAME of the holder: impossible, the list has one entry per NAME *)
    exfalso. destruct (Hd d Hin Hn0) as (e & He & Hok). destruct (Hd d0 Hin0 ltac:(congruence)) as (e0 & He0 & Hok0).
    destruct Hok as (Hname & _). destruct Hok0 as (Hname0 & _). pose proof (Hrng d Hin). pose proof (Hrng d0 Hin0).
    assert (Z.to_nat (a_src d) = Z.to_nat (a_src d0)) by (eapply U; eauto; congruence). lia.
Qed.

Lemma InvT_ext b (T T':tview) M : (forall j, T' j = T j) -> InvT b T M -> InvT b T' M.
Proof.
  intros H (U & Mw & Hp & Hd). split; [eapply uniq_ext; eauto|]. split; [exact Mw|]. split.
  - intros j e Hj. rewrite H in Hj. exact (Hp j e Hj).
  - intros d Hin Hn. destruct (Hd d Hin Hn) as (e & He & Hok). exists e. rewrite H. auto.
Qed.

Lemma at_src_in a f M d' : In d' (at_src a f M) -> exists d, In d M /\ d' = (if a_src d =? a then f d else d).
Proof. unfold at_src. intros H. apply in_map_iff in H. destruct H as (d & Hd & Hin). exists d. auto. Qed.
Lemma at_src_wf a f M : (forall d, a_src (f d) = a_src d) -> Mwf M -> Mwf (at_src a f M).
Proof.
  intros Hf (Hnd & Hr). assert (Hmap : map a_src (at_src a f M) = map a_src M).
  { unfold at_src. rewrite map_map. apply map_ext. intros d. destruct (a_src d =? a); [apply Hf|reflexivity]. }
  split; [rewrite Hmap; exact Hnd|]. intros d' Hin. destruct (at_src_in _ _ _ _ Hin) as (d & Hd & ->).
  destruct (a_src d =? a); [rewrite Hf|]; apply Hr; exact Hd.
Qed.

(* one slot changes, the entry keeps its NAME; the mirror changes (at most) for the devices of that source *)
Lemma inv_one b (T T':tview) M s e e2 f : InvT b T M -> (s < 254)%nat -> T s = Some e -> (forall j, T' j = T_set T s (Some e2) j) ->
  e_name e2 = e_name e -> nrm (e_pi e2) -> (forall d, a_name (f d) = a_name d /\ a_src (f d) = a_src d) ->
  (forall d, In d M -> a_name d <> 0 -> a_src d = Z.of_nat s -> dev_ok b d e -> dev_ok b (f d) e2) ->
  InvT b T' (at_src (Z.of_nat s) f M).
Proof.
  intros (U & Mw & Hp & Hd) Hs He HT' Hn Hnrm Hf Hdev. split; [|split; [|split]].
  - eapply uniq_ext; [exact HT'|]. apply uniq_set; [exact U|]. intros Hnz j e' Hj Hje Heq. apply Hj. eapply U; eauto; congruence.
  - apply at_src_wf; [intros d; apply Hf|exact Mw].
  - intros j x Hj. rewrite HT' in Hj. unfold T_set in Hj. destruct (Nat.eqb_spec j s); [injection Hj as <-; exact Hnrm|exact (Hp j x Hj)].
  - intros d' Hin Hn0. destruct (at_src_in _ _ _ _ Hin) as (d & Hdin & ->). destruct Mw as (_ & Hr). pose proof (Hr d Hdin).
    destruct (Z.eqb_spec (a_src d) (Z.of_nat s)) as [Hsd|Hsd].
    + destruct (Hf d) as (Hfn & Hfs). rewrite Hfn in Hn0. destruct (Hd d Hdin Hn0) as (x & Hx & Hok).
      rewrite Hsd, Nat2Z.id in Hx. rewrite He in Hx. injection Hx as <-.
      exists e2. rewrite Hfs, Hsd, Nat2Z.id, HT', T_set_eq. split; [reflexivity|]. apply Hdev; auto.
    + destruct (Hd d Hdin Hn0) as (x & Hx & Hok). exists x. rewrite HT', T_set_neq by lia. auto.
Qed.
Lemma at_src_id a M : at_src a (fun d => d) M = M.
Proof. unfold at_src. rewrite <- (map_id M) at 2. apply map_ext. intros d. destruct (a_src d =? a); reflexivity. Qed.

(* only request bookkeeping changes, anywhere *)
Lemma dev_ok_eqv b d e e1 : eqv e e1 -> dev_ok b d e -> dev_ok b d e1.
Proof. intros ->. intros H. exact H. Qed.
Lemma inv_eqv b (T T':tview) M : InvT b T M ->
  (forall j, match T j with Some e => exists e1, T' j = Some e1 /\ eqv e e1 | None => T' j = None end) -> InvT b T' M.
Proof.
  intros (U & Mw & Hp & Hd) H. split; [|split; [exact Mw|split]].
  - intros i j ei ej Hi Hj Hn Hnz. pose proof (H i) as Hi'. pose proof (H j) as Hj'.
    destruct (T i) as [xi|] eqn:Ei; [|congruence]. destruct (T j) as [xj|] eqn:Ej; [|congruence].
    destruct Hi' as (yi & Eyi & Vi). destruct Hj' as (yj & Eyj & Vj). rewrite Hi in Eyi. rewrite Hj in Eyj. injection Eyi as <-. injection Eyj as <-.
    assert (e_name ei = e_name xi) by (rewrite Vi; reflexivity). assert (e_name ej = e_name xj) by (rewrite Vj; reflexivity).
    eapply U; eauto; congruence.
  - intros j x Hj. pose proof (H j) as Hj'. destruct (T j) as [y|] eqn:Ej; [|congruence]. destruct Hj' as (z & Ez & V). rewrite Hj in Ez. injection Ez as <-.
    rewrite V. exact (Hp j y Ej).
  - intros d Hin Hn0. destruct (Hd d Hin Hn0) as (e & He & Hok). pose proof (H (Z.to_nat (a_src d))) as H'. rewrite He in H'.
    destruct H' as (e1 & E1 & V). exists e1. split; [exact E1|]. eapply dev_ok_eqv; eauto.
Qed.
Lemma inv_req_only b st st' M : InvT b (slot st) M -> req_only st st' -> InvT b (slot st') M.
Proof. intros I (_ & _ & _ & H). eapply inv_eqv; eauto. Qed.

(* a placeholder appears in an empty slot *)
Lemma inv_add b (T T':tview) M s ph : InvT b T M -> T s = None -> e_name ph = 0 -> nrm (e_pi ph) -> (forall j, T' j = T_set T s (Some ph) j) -> InvT b T' M.
Proof.
  intros (U & Mw & Hp & Hd) Hs Hn Hnrm HT'. split; [|split; [exact Mw|split]].
  - eapply uniq_ext; [exact HT'|]. apply uniq_set; [exact U|]. intros Hnz. congruence.
  - intros j x Hj. rewrite HT' in Hj. unfold T_set in Hj. destruct (Nat.eqb_spec j s); [injection Hj as <-; exact Hnrm|exact (Hp j x Hj)].
  - intros d Hin Hn0. destruct (Hd d Hin Hn0) as (e & He & Hok). exists e. rewrite HT'. unfold T_set.
    destruct (Nat.eqb_spec (Z.to_nat (a_src d)) s) as [Heq|_]; [rewrite Heq in He; congruence|auto].
Qed.

(* ---------- the specification reads the messages as the model does ---------- *)
Lemma s_name_eq m : s_name (pl m) = claim_name m.
Proof.
  unfold claim_name, s_name, get_num, two64. change (0 + Z.of_nat 8) with 8. set (d := pl m).
  destruct (Nat.leb_spec 8 (length d)) as [H|H]; destruct (Z.leb_spec 8 (Z.of_nat (length d))) as [H'|H']; try lia; [|reflexivity].
  cbn [fst Z.to_nat skipn]. do 8 (destruct d as [|? d]; [cbn [length] in H; lia|]). unfold byte. cbn [nth firstn le_num]. ring.
Qed.
Lemma s_prod_eq m : s_prod (pl m) = parse_pi m.
Proof.
  unfold s_prod, parse_pi, PI_LEN, dlen. set (d := pl m).
  destruct (Nat.leb_spec 134 (length d)) as [H|H]; destruct (Z.ltb_spec (Z.of_nat (length d)) 134) as [H'|H']; try lia; [|reflexivity].
  f_equal. unfold fixstr, sub. rewrite !cut_text.
  assert (H0 : fst (get_num d 2 0 65535) = byte d 0 + 256 * byte d 1).
  { unfold get_num. change (0 + Z.of_nat 2) with 2. destruct (Z.leb_spec 2 (Z.of_nat (length d))); [|lia]. cbn [fst Z.to_nat skipn].
    do 2 (destruct d as [|? d]; [cbn [length] in H; lia|]). unfold byte. cbn [nth firstn le_num]. ring. }
  assert (H2 : fst (get_num d 2 2 65535) = byte d 2 + 256 * byte d 3).
  { unfold get_num. change (2 + Z.of_nat 2) with 4. destruct (Z.leb_spec 4 (Z.of_nat (length d))); [|lia]. cbn [fst]. change (Z.to_nat 2) with 2%nat.
    do 4 (destruct d as [|? d]; [cbn [length] in H; lia|]). unfold byte. cbn [skipn nth firstn le_num]. ring. }
  rewrite H0, H2. unfold znth, byte. rewrite (nth_indep d 255 0) by lia. rewrite (nth_indep d 255 0) by lia. reflexivity.
Qed.
Lemma s_reported_eq p : s_reported p = pi_norm p.
Proof. reflexivity. Qed.
Lemma list_eqb_eq : forall a b, list_eqb a b = true -> a = b.
Proof.
  induction a as [|x a IH]; intros [|y b] H; cbn [list_eqb] in H; try discriminate; [reflexivity|].
  apply andb_true_iff in H. destruct H as (H1 & H2). apply Z.eqb_eq in H1. subst. f_equal. apply IH. exact H2.
Qed.
Lemma pi_same_eq a b : pi_same a b = true -> a = b.
Proof.
  unfold pi_same. intros H. repeat (apply andb_true_iff in H; destruct H as (H & ?)).
  destruct a as [a1 a2 a3 a4 a5 a6 a7 a8], b as [b1 b2 b3 b4 b5 b6 b7 b8]. cbn [p_ver p_code p_mid p_sw p_mver p_ser p_cert p_load] in *.
  repeat match goal with H : (_ =? _) = true |- _ => apply Z.eqb_eq in H | H : list_eqb _ _ = true |- _ => apply list_eqb_eq in H end. subst. reflexivity.
Qed.
Lemma pi_norm_nrm p : nrm p -> pi_norm p = p.
Proof.
  intros (H1 & H2 & H3). unfold pi_norm. destruct p as [a1 a2 a3 a4 a5 a6 a7 a8]. cbn [p_ver p_code p_mid p_sw p_mver p_ser p_cert p_load] in *.
  destruct (Z.eqb_spec a1 65535); [lia|]. destruct (Z.eqb_spec a7 255); [lia|]. destruct (Z.eqb_spec a8 255); [lia|]. reflexivity.
Qed.

(* the mirror changes for the devices of source a, the content view does not *)
Lemma inv_remap b (T:tview) M a f : InvT b T M -> (forall d, a_name (f d) = a_name d /\ a_src (f d) = a_src d) ->
  (forall d e, In d M -> a_name d <> 0 -> a_src d = a -> T (Z.to_nat a) = Some e -> dev_ok b d e -> dev_ok b (f d) e) ->
  InvT b T (at_src a f M).
Proof.
  intros (U & Mw & Hp & Hd) Hf Hdev. split; [exact U|]. split; [apply at_src_wf; [intros d; apply Hf|exact Mw]|]. split; [exact Hp|].
  intros d' Hin Hn0. destruct (at_src_in _ _ _ _ Hin) as (d & Hdin & ->).
  destruct (Z.eqb_spec (a_src d) a) as [Hsd|Hsd].
  - destruct (Hf d) as (Hfn & Hfs). rewrite Hfn in Hn0. destruct (Hd d Hdin Hn0) as (x & Hx & Hok).
    exists x. rewrite Hfs. split; [exact Hx|]. apply Hdev; auto. rewrite <- Hsd. exact Hx.
  - apply Hd; auto.
Qed.

Lemma set_pi_keep p d : a_name (set_pi p d) = a_name d /\ a_src (set_pi p d) = a_src d.
Proof. unfold set_pi. destruct (a_pi d); auto. Qed.
Lemma set_ci_keep c d : a_name (set_ci c d) = a_name d /\ a_src (set_ci c d) = a_src d.
Proof. auto. Qed.
Lemma set_list_keep k l d : a_name (set_list k l d) = a_name d /\ a_src (set_list k l d) = a_src d.
Proof. unfold set_list. destruct (k =? 0); auto. Qed.

Lemma dev_ok_set_pi_some b d e p p0 : a_pi d = Some p0 -> dev_ok b d e -> dev_ok b (set_pi p d) e.
Proof. intros Ea H. unfold set_pi. rewrite Ea. exact H. Qed.

Definition step_hyp (st:state) (M:mirror) (m:bmsg) : Prop :=
  b_pgn m = 60928 -> 0 <= b_src m < 254 -> s_name (pl m) <> 0 ->
  (forall d, holder M (b_src m) = Some d -> a_name d <> s_name (pl m)) ->
  forall e, entry_at st (b_src m) = Ok (Some e) -> e_name e <> s_name (pl m).

Lemma inv_step b st st' M m now : WF st -> InvT b (slot st) M -> msg_eff st st' m now -> (b = true -> step_hyp st M m) ->
  InvT b (slot st') (s_step M m).
Proof.
  intros W I Heff Hhyp. unfold s_step. destruct Heff as [(Hout & ->)|(s & Hsrc & Hs & st1 & W1 & Hadd & Hrest)].
  { destruct (Z.leb_spec 0 (b_src m)); destruct (Z.ltb_spec (b_src m) 254); cbn [andb negb]; try exact I. lia. }
  destruct (Z.leb_spec 0 (b_src m)); [|lia]. destruct (Z.ltb_spec (b_src m) 254); [|lia]. cbn [andb negb].
  assert (I1 : InvT b (slot st1) M).
  { destruct Hadd as [->|(Hnone & _ & _ & _ & Hsl)]; [exact I|]. eapply inv_add; [exact I|exact Hnone| | |exact Hsl]; [reflexivity|apply nrm_clear]. }
  rewrite Hsrc.
  destruct Hrest as [(-> & Hnc & Hwhy)|(st2 & W2 & Hmain & Hreq)].
  - (* nothing more happens *)
    destruct (Z.eqb_spec (b_pgn m) 60928) as [Hc|_]; [exfalso; apply Hnc; exact Hc|].
    destruct Hwhy as [(-> & Hnone)|Hni].
    + assert (Hrm : forall f, (forall d, a_name (f d) = a_name d /\ a_src (f d) = a_src d) -> InvT b (slot st) (at_src (Z.of_nat s) f M)).
      { intros f Hf. apply inv_remap; [exact I|exact Hf|]. intros d e _ _ _ He. rewrite Nat2Z.id in He. congruence. }
      destruct (b_pgn m =? 126996); [destruct (s_prod (pl m)); [apply Hrm; apply set_pi_keep|exact I]|].
      destruct (b_pgn m =? 126998); [apply Hrm; apply set_ci_keep|].
      destruct (b_pgn m =? 126464); [destruct (s_list (pl m)) as [[k l]|]; [apply Hrm; apply set_list_keep|exact I]|exact I].
    + unfold is_info_pgn, PGN_prod, PGN_conf, PGN_list in Hni. apply orb_false_iff in Hni. destruct Hni as (Hni & H3). apply orb_false_iff in Hni. destruct Hni as (H1 & H2).
      rewrite H1, H2, H3. exact I1.
  - eapply inv_req_only; [|exact Hreq]. unfold main_eff, PGN_claim, PGN_prod, PGN_conf, PGN_list in Hmain.
    destruct (Z.eqb_spec (b_pgn m) 60928) as [Hc|Hc].
    + (* claim: no placeholder was made *)
      destruct Hmain as (Hce & _ & _).
      assert (Hst1 : st1 = st) by (destruct Hadd as [->|(_ & Hnc & _)]; [reflexivity|exfalso; apply Hnc; exact Hc]). subst st1.
      rewrite s_name_eq. apply (inv_claim b (slot st) (slot st2) M s (claim_name m) now I Hce Hs).
      intros Hb Hcn Hhold e He. rewrite <- s_name_eq in *. rewrite <- Hsrc in Hhold.
      apply (Hhyp Hb Hc ltac:(lia) Hcn Hhold e). rewrite entry_at_slot by (auto; lia). rewrite Hsrc, Nat2Z.id. f_equal. exact He.
    + destruct (Z.eqb_spec (b_pgn m) 126996) as [Hp|Hp].
      * (* product information *)
        rewrite s_prod_eq. destruct Hmain as (_ & [(-> & Hwhy)|(e & raw & P & He & Hpil & Hraw & HP & Hsl)]).
        -- destruct (parse_pi m) as [raw|] eqn:Eraw; [|exact I1]. apply inv_remap; [exact I1|apply set_pi_keep|].
           intros d e _ _ _ He Hok. rewrite Nat2Z.id in He. destruct Hwhy as [Hn|[(e' & He' & Hpil)|Hn]]; [congruence| |discriminate].
           rewrite He in He'. injection He' as <-. destruct (a_pi d) as [p0|] eqn:Ea; [eapply dev_ok_set_pi_some; eauto|].
           destruct Hok as (H1 & H2 & H3 & H4 & H7). unfold set_pi. rewrite Ea.
           split; [exact H1|]. split; [exact H2|]. split; [exact H3|]. split; [|exact H7]. intros Hb. destruct (H4 Hb) as (H5 & _). rewrite (H5 Ea) in Hpil. discriminate.
        -- rewrite Hraw. destruct I1 as (U1 & Mw1 & Hp1 & Hd1).
           apply (inv_one b (slot st1) (slot st2) M s e _ (set_pi raw) (conj U1 (conj Mw1 (conj Hp1 Hd1))) Hs He Hsl); [reflexivity| |apply set_pi_keep|].
           ++ cbn [with_pi e_pi]. destruct HP as [(_ & -> & _)|(-> & _)]; [exact (Hp1 s e He)|apply nrm_norm].
           ++ intros d _ _ _ Hok. destruct (a_pi d) as [p0|] eqn:Ea.
              ** destruct Hok as (H1 & H2 & H3 & H4 & H7). unfold set_pi. rewrite Ea.
                 split; [exact H1|]. split; [exact H2|]. split; [exact H3|]. split; [|exact H7]. intros Hb. destruct (H4 Hb) as (_ & H6). destruct (H6 _ Ea) as (_ & Hx). congruence.
              ** destruct Hok as (H1 & H2 & H3 & H4 & H7). unfold set_pi. rewrite Ea.
                 split; [exact H1|]. split; [exact H2|]. split; [exact H3|]. split; [|exact H7]. intros Hb. cbn [a_pi with_pi e_pil e_pi]. split; [discriminate|].
                 intros p Ep. injection Ep as <-. split; [|reflexivity]. rewrite s_reported_eq.
                 destruct HP as [(Hsame & -> & _)|(-> & _)]; [|reflexivity]. apply pi_same_eq in Hsame. subst raw. symmetry. apply pi_norm_nrm. exact (Hp1 s e He).
      * destruct (Z.eqb_spec (b_pgn m) 126998) as [Hf|Hf].
        -- (* configuration information *)
           destruct Hmain as (_ & [(-> & Hwhy)|(e & e2 & He & Hco & _ & Hsl & Hval)]).
           ++ apply inv_remap; [exact I1|apply set_ci_keep|]. intros d e _ _ _ He (H1 & H2 & H3 & H4 & H7). rewrite Nat2Z.id in He.
              destruct Hwhy as [Hn|Hn]; [congruence|]. split; [exact H1|]. split; [exact H2|]. split; [exact H3|]. split; [exact H4|].
              cbn [set_ci a_ci]. rewrite Hn. discriminate.
           ++ destruct I1 as (U1 & Mw1 & Hp1 & Hd1).
              apply (inv_one b (slot st1) (slot st2) M s e e2 _ (conj U1 (conj Mw1 (conj Hp1 Hd1))) Hs He Hsl); [rewrite Hco; reflexivity| |apply set_ci_keep|].
              ** rewrite Hco. cbn [with_conf e_pi]. exact (Hp1 s e He).
              ** intros d _ _ _ (H1 & H2 & H3 & H4 & _). split; [rewrite Hco; exact H1|]. split; [rewrite Hco; exact H2|]. split; [rewrite Hco; exact H3|].
                 split; [rewrite Hco; exact H4|]. cbn [set_ci a_ci]. exact Hval.
        -- destruct (Z.eqb_spec (b_pgn m) 126464) as [Hg|Hg].
           ++ (* PGN lists *)
              destruct Hmain as (_ & [(-> & Hnone)|(e & e2 & He & _ & Hlo & Hsl & Hmatch)]).
              ** destruct (s_list (pl m)) as [[k l]|]; [|exact I1]. apply inv_remap; [exact I1|apply set_list_keep|].
                 intros d e _ _ _ He. rewrite Nat2Z.id in He. congruence.
              ** destruct I1 as (U1 & Mw1 & Hp1 & Hd1). pose proof (conj U1 (conj Mw1 (conj Hp1 Hd1))) as I1.
                 destruct (s_list (pl m)) as [[k l]|].
                 --- apply (inv_one b (slot st1) (slot st2) M s e e2 _ I1 Hs He Hsl); [rewrite Hlo; reflexivity| |apply set_list_keep|].
                     +++ rewrite Hlo. cbn [with_lists e_pi]. exact (Hp1 s e He).
                     +++ intros d _ _ _ (H1 & H2 & H3 & H4 & H7). unfold set_list. destruct (k =? 0); destruct Hmatch as (Hm1 & Hm2).
                         *** split; [rewrite Hlo; exact H1|]. cbn [a_tx a_rx a_pi a_ci]. split; [intros l0 E; injection E as <-; exact Hm1|]. split; [rewrite Hm2; exact H3|].
                             split; [rewrite Hlo; exact H4|rewrite Hlo; exact H7].
                         *** split; [rewrite Hlo; exact H1|]. cbn [a_tx a_rx a_pi a_ci]. split; [rewrite Hm2; exact H2|]. split; [intros l0 E; injection E as <-; exact Hm1|].
                             split; [rewrite Hlo; exact H4|rewrite Hlo; exact H7].
                 --- subst e2. rewrite <- (at_src_id (Z.of_nat s) M).
                     apply (inv_one b (slot st1) (slot st2) M s e e _ I1 Hs He Hsl); [reflexivity|exact (Hp1 s e He)|auto|auto].
           ++ eapply inv_req_only; [exact I1|exact Hmain].
Qed.

(* ---------- reachable states ---------- *)
Lemma slot_init j : slot init_state j = None.
Proof.
  unfold slot, sref, init_state. cbn [sources]. destruct (nth_error (repeat None 254) j) as [o|] eqn:E; [|reflexivity].
  apply nth_error_In in E. apply repeat_spec in E. subst. reflexivity.
Qed.
Lemma inv_init b : InvT b (slot init_state) [].
Proof.
  split; [intros i j ei ej Hi; rewrite slot_init in Hi; discriminate|]. split; [split; [constructor|intros d []]|].
  split; [intros j e Hj; rewrite slot_init in Hj; discriminate|intros d []].
Qed.

Lemma reach b : forall h st M st', WF st -> InvT b (slot st) M -> (b = true -> no_return h st M) -> run h st = Ok st' ->
  WF st' /\ InvT b (slot st') (s_run h M).
Proof.
  induction h as [|[[now ok] m] h IH]; intros st M st' W I Hnr E; cbn [run s_run] in *.
  - injection E as <-. auto.
  - destruct (handle_msg_ok now ok m st W) as (st1 & rq & E1 & W1 & Heff). rewrite E1 in E. cbn [bind fst] in E.
    apply (IH st1 (s_step M m) st' W1); [|intros Hb; specialize (Hnr Hb); cbn [no_return] in Hnr; rewrite E1 in Hnr; tauto|exact E].
    apply (inv_step b st st1 M m now W I Heff). intros Hb. specialize (Hnr Hb). cbn [no_return] in Hnr. exact (proj1 Hnr).
Qed.
Lemma reach0 h st : run h init_state = Ok st -> WF st /\ InvT false (slot st) (s_run h []).
Proof. intros E. apply (reach false h init_state [] st wf_init (inv_init false)); [discriminate|exact E]. Qed.

Theorem one_entry_per_name : one_entry_per_name_stmt.
Proof.
  intros h st E i j ei ej Hi Hj Hn Hnz. destruct (reach0 h st E) as (W & U & _).
  destruct (entry_at_some _ _ _ W Hi) as (Hir & Hsi). destruct (entry_at_some _ _ _ W Hj) as (Hjr & Hsj).
  assert (Z.to_nat i = Z.to_nat j) by (eapply U; eauto). lia.
Qed.

Lemma dev_lookup b st M d : WF st -> InvT b (slot st) M -> In d M -> a_name d <> 0 ->
  0 <= a_src d < 254 /\ by_name st (a_name d) = Ok (Some (a_src d)) /\
  exists e, entry_at st (a_src d) = Ok (Some e) /\ e_src e = a_src d /\ dev_ok b d e.
Proof.
  intros W (U & (_ & Hr) & _ & Hd) Hin Hn0. pose proof (Hr d Hin) as Hrd. destruct (Hd d Hin Hn0) as (e & He & Hok).
  destruct (slot_inv _ _ _ He) as (oid & Hsr & Hhp). destruct (wf_slot _ _ _ W Hsr) as (e0 & He0 & _ & Hsrc & _).
  rewrite Hhp in He0. injection He0 as <-. rewrite Z2Nat.id in Hsrc by lia.
  split; [exact Hrd|]. split.
  - unfold by_name. destruct (find_by_name_spec st (a_name d) W) as [(k & oid2 & e2 & E & Hk & He2 & Hsl2 & Hn2)|[E Hno]]; rewrite E; cbn [bind].
    + rewrite (deref_ok _ _ _ He2). cbn [bind]. destruct Hok as (Hname & _).
      assert (k = Z.to_nat (a_src d)) by (eapply U; eauto; congruence). subst k. rewrite He in Hsl2. injection Hsl2 as <-. rewrite Hsrc. reflexivity.
    + exfalso. destruct Hok as (Hname & _). exact (Hno _ _ He Hname).
  - exists e. rewrite entry_at_slot by (auto; lia). rewrite He. auto.
Qed.

Theorem lookup_agrees : lookup_agrees_stmt.
Proof.
  intros h st E d Hin Hn0. destruct (reach0 h st E) as (W & I). destruct (dev_lookup false st _ d W I Hin Hn0) as (_ & Hbn & e & He & Hsrc & Hname & _).
  split; [exact Hbn|]. exists e. auto.
Qed.

Theorem info_lists : info_lists_stmt.
Proof.
  intros h st E d Hin Hn0. destruct (reach0 h st E) as (W & I). destruct (dev_lookup false st _ d W I Hin Hn0) as (_ & _ & e & He & _ & _ & Htx & Hrx & _).
  exists e. auto.
Qed.

Theorem info_prod_partial : info_prod_partial_stmt.
Proof.
  intros h st E Hnr d Hin Hn0. destruct (reach true h init_state [] st wf_init (inv_init true) (fun _ => Hnr) E) as (W & I).
  destruct (dev_lookup true st _ d W I Hin Hn0) as (_ & _ & e & He & _ & _ & _ & _ & Hpi & _).
  exists e. split; [exact He|]. intros p Hp. destruct (Hpi eq_refl) as (_ & H). exact (proj1 (H p Hp)).
Qed.

Theorem info_conf : info_conf_stmt.
Proof.
  intros h st E d Hin Hn0. destruct (reach0 h st E) as (W & I). destruct (dev_lookup false st _ d W I Hin Hn0) as (_ & _ & e & He & _ & _ & _ & _ & _ & Hci).
  exists e. split; [exact He|]. exact Hci.
Qed.

(* ---------- the list-updated indication ---------- *)
Definition pubv (o:option entry) := match o with Some e => if e_name e =? 0 then None else Some (pub e) | None => None end.
Lemma obs_slot st s : WF st -> obs st s = if (0 <=? s) && (s <? 254) then pubv (slot st (Z.to_nat s)) else None.
Proof.
  intros W. unfold obs. destruct (Z.leb_spec 0 s); destruct (Z.ltb_spec s 254); cbn [andb].
  - rewrite entry_at_slot by (auto; lia). reflexivity.
  - rewrite entry_at_high by lia. reflexivity.
  - destruct (entry_at st s) as [[e|]| |] eqn:E; try reflexivity. destruct (entry_at_some _ _ _ W E). lia.
  - rewrite entry_at_high by lia. reflexivity.
Qed.
Lemma pubv_eqv e e1 : eqv e e1 -> pubv (Some e1) = pubv (Some e).
Proof. intros ->. reflexivity. Qed.
Lemma pubv_req_only st st' : req_only st st' -> forall j, pubv (slot st' j) = pubv (slot st j).
Proof.
  intros (_ & _ & _ & H) j. specialize (H j). destruct (slot st j) as [e|]; [|rewrite H; reflexivity].
  destruct H as (e1 & -> & V). apply pubv_eqv. exact V.
Qed.

Lemma flag_eff st st' m now : WF st -> WF st' -> msg_eff st st' m now -> updated st' = true \/ forall s, obs st' s = obs st s.
Proof.
  intros W W' [(_ & ->)|(s & Hsrc & Hs & st1 & W1 & Hadd & Hrest)]; [right; reflexivity|].
  assert (H1 : updated st1 = updated st /\ forall j, pubv (slot st1 j) = pubv (slot st j)).
  { destruct Hadd as [->|(Hnone & _ & Hu & _ & Hsl)]; [auto|]. split; [exact Hu|]. intros j. rewrite Hsl. unfold T_set.
    destruct (Nat.eqb_spec j s) as [->|_]; [rewrite Hnone; reflexivity|reflexivity]. }
  destruct H1 as (Hu1 & Hp1).
  assert (Hfin : forall st2, WF st2 -> (updated st2 = true \/ (forall j, pubv (slot st2 j) = pubv (slot st1 j))) -> req_only st2 st' ->
            updated st' = true \/ forall s, obs st' s = obs st s).
  { intros st2 W2 [Hu|Hp] R; [left; destruct R as (_ & _ & -> & _); exact Hu|]. right. intros x. rewrite !obs_slot by assumption.
    destruct ((0 <=? x) && (x <? 254)); [|reflexivity]. rewrite (pubv_req_only _ _ R), Hp, Hp1. reflexivity. }
  destruct Hrest as [(-> & _)|(st2 & W2 & Hmain & Hreq)].
  - right. intros x. rewrite !obs_slot by assumption. destruct ((0 <=? x) && (x <? 254)); [|reflexivity]. apply Hp1.
  - apply (Hfin st2 W2); [|exact Hreq]. unfold main_eff in Hmain.
    destruct (b_pgn m =? PGN_claim); [destruct Hmain as (_ & [Hu| ->] & _); [left; exact Hu|right; reflexivity]|].
    destruct (b_pgn m =? PGN_prod).
    { destruct Hmain as (_ & [(-> & _)|(e & raw & P & He & _ & _ & [(_ & -> & _)|(_ & Hu)] & Hsl)]); [right; reflexivity| |left; exact Hu].
      right. intros j. rewrite Hsl. unfold T_set. destruct (Nat.eqb_spec j s) as [->|_]; [rewrite He; reflexivity|reflexivity]. }
    destruct (b_pgn m =? PGN_conf); [destruct Hmain as (_ & [(-> & _)|(e & e2 & _ & _ & Hu & _)]); [right; reflexivity|left; exact Hu]|].
    destruct (b_pgn m =? PGN_list); [destruct Hmain as (_ & [(-> & _)|(e & e2 & _ & Hu & _)]); [right; reflexivity|left; exact Hu]|].
    right. apply pubv_req_only. exact Hmain.
Qed.

Theorem updated_flag : updated_flag_stmt.
Proof.
  intros h st E now ok m st' rq Em (s & Hs). destruct (reach0 h st E) as (W & _).
  destruct (handle_msg_ok now ok m st W) as (st1 & rq1 & E1 & W1 & Heff). rewrite Em in E1. injection E1 as <- <-.
  destruct (flag_eff st st' m now W W1 Heff) as [Hu|Hsame]; [exact Hu|]. exfalso. apply Hs. apply Hsame.
Qed.

(* ---------- the full-strength product information statement is refuted (known finding "parked-device") ---------- *)
(* NAME 0x1234 claims 10 and sends product information A; NAME 0xC0FFEE0000000001 takes address 10 over, the list parks 0x1234 in the free
   slot 0 as if it had address 0; 0x1234 claims address 0: taken for a repetition; product information B from address 0 is ignored. *)
Definition wit_piA : list Z := [52;8;9;3;77;111;100;101;108;32;65;255;255;255;255;255;255;255;255;255;255;255;255;255;255;255;255;255;255;255;255;255;255;255;255;255;83;87;32;49;46;48;255;255;255;255;255;255;255;255;255;255;255;255;255;255;255;255;255;255;255;255;255;255;255;255;255;255;86;49;255;255;255;255;255;255;255;255;255;255;255;255;255;255;255;255;255;255;255;255;255;255;255;255;255;255;255;255;255;255;83;69;82;45;48;48;48;49;255;255;255;255;255;255;255;255;255;255;255;255;255;255;255;255;255;255;255;255;255;255;255;255;1;2].
Definition wit_piB : list Z := [53;8;10;3;77;111;100;101;108;32;66;255;255;255;255;255;255;255;255;255;255;255;255;255;255;255;255;255;255;255;255;255;255;255;255;255;83;87;32;50;46;48;255;255;255;255;255;255;255;255;255;255;255;255;255;255;255;255;255;255;255;255;255;255;255;255;255;255;86;50;255;255;255;255;255;255;255;255;255;255;255;255;255;255;255;255;255;255;255;255;255;255;255;255;255;255;255;255;255;255;83;69;82;45;48;48;48;50;255;255;255;255;255;255;255;255;255;255;255;255;255;255;255;255;255;255;255;255;255;255;255;255;2;3].
Definition wit_hist : list event :=
  [ (1000, true, {| b_pgn := 60928; b_src := 10; b_data := [52;18;0;0;0;0;0;0] |});
    (1005, true, {| b_pgn := 126996; b_src := 10; b_data := wit_piA |});
    (1010, true, {| b_pgn := 60928; b_src := 10; b_data := [1;0;0;0;0;238;255;192] |});
    (1015, true, {| b_pgn := 60928; b_src := 0; b_data := [52;18;0;0;0;0;0;0] |});
    (1020, true, {| b_pgn := 126996; b_src := 0; b_data := wit_piB |}) ].

Theorem info_prod_refuted : ~ info_prod_stmt.
Proof.
  intros H. destruct (run wit_hist init_state) as [st| |] eqn:E; [|vm_compute in E; discriminate|vm_compute in E; discriminate].
  specialize (H wit_hist st E).
  assert (Hin : exists d, In d (s_run wit_hist []) /\ a_name d = 4660 /\ a_src d = 0 /\ a_pi d = s_prod wit_piB).
  { eexists. split; [vm_compute; left; reflexivity|]. vm_compute. auto. }
  destruct Hin as (d & Hin & Hn & Hs & Hpi). destruct (H d Hin ltac:(rewrite Hn; discriminate)) as (e & He & Hp).
  rewrite Hs in He. vm_compute in E. injection E as <-. vm_compute in He. injection He as <-.
  vm_compute in Hpi. specialize (Hp _ Hpi). vm_compute in Hp. discriminate.
Qed.

(* the restricted statement does apply to histories with takeovers: the same history with the displaced device returning to address 5 *)
Definition nv_hist : list event :=
  [ (1000, true, {| b_pgn := 60928; b_src := 10; b_data := [52;18;0;0;0;0;0;0] |});
    (1005, true, {| b_pgn := 126996; b_src := 10; b_data := wit_piA |});
    (1010, true, {| b_pgn := 60928; b_src := 10; b_data := [1;0;0;0;0;238;255;192] |});
    (1015, true, {| b_pgn := 60928; b_src := 5; b_data := [52;18;0;0;0;0;0;0] |});
    (1020, true, {| b_pgn := 126996; b_src := 5; b_data := wit_piB |});
    (1030, true, {| b_pgn := 126464; b_src := 5; b_data := [0; 0; 238; 1; 20; 240; 1] |});
    (1040, true, {| b_pgn := 126998; b_src := 5; b_data := [9; 1; 68; 101; 115; 99; 32; 111; 110; 2; 1; 3; 1; 77] |}) ].
Lemma nv_no_return : no_return nv_hist init_state [].
Proof.
  unfold nv_hist. cbn [no_return].
  repeat match goal with
  | |- _ /\ _ => split
  | |- match handle_msg ?a ?b ?c ?d with _ => _ end => let r := eval vm_compute in (handle_msg a b c d) in change (handle_msg a b c d) with r; cbv iota beta
  end; try exact I; try (intros Hp; vm_compute in Hp; discriminate).
  all: intros _ _ _ Hh e He; vm_compute in He; try discriminate; injection He as <-; vm_compute; try discriminate.
Qed.

Print Assumptions heap_safe.
Print Assumptions one_entry_per_name.
Print Assumptions lookup_agrees.
Print Assumptions info_lists.
Print Assumptions info_conf.
Print Assumptions info_prod_partial.
Print Assumptions info_prod_refuted.
Print Assumptions updated_flag.

(* ====================================================================================================================== *)
(* Part 4 (C13 for the device list, finding D-20): the request pacing depends on elapsed time only.
   A simulation between two runs of the model whose clocks differ by a constant c modulo 2^32: the states agree in everything but the
   stored times, which differ by c (a request time only where its request counter is not 0). *)
(* ---------- times modulo 2^32 ---------- *)
Definition cong (c a a':Z) : Prop := (a' - a - c) mod two32 = 0.
Lemma cong_k c a a' : cong c a a' -> exists k, a' = a + c + k * two32.
Proof. unfold cong, two32. intros H. exists ((a' - a - c) / 4294967296). pose proof (Z_div_mod_eq_full (a' - a - c) 4294967296). lia. Qed.
Lemma has_elapsed_cong c s s' el n n' : cong c s s' -> cong c n n' -> has_elapsed s' el n' = has_elapsed s el n.
Proof.
  intros Hs Hn. destruct (cong_k _ _ _ Hs) as (k1 & ->). destruct (cong_k _ _ _ Hn) as (k2 & ->). unfold has_elapsed. f_equal.
  replace (n + c + k2 * two32 - (s + c + k1 * two32 + el)) with (n - (s + el) + (k2 - k1) * two32) by ring. apply Z_mod_plus_full.
Qed.
Lemma cong_shift c now : cong c now ((now + c) mod two32).
Proof.
  unfold cong, two32. pose proof (Z_div_mod_eq_full (now + c) 4294967296).
  replace ((now + c) mod 4294967296 - now - c) with ((- ((now + c) / 4294967296)) * 4294967296) by lia. apply Z_mod_mult.
Qed.

(* ---------- entries that differ in their times only ---------- *)
Definition retime (e:entry) (ct lm pr cr gr:Z) : entry :=
  {| e_name := e_name e; e_src := e_src e; e_ctime := ct; e_pil := e_pil e; e_pi := e_pi e; e_cil := e_cil e; e_confi := e_confi e;
     e_man := e_man e; e_d1 := e_d1 e; e_d2 := e_d2 e; e_tx := e_tx e; e_rx := e_rx e; e_nname := e_nname e; e_pireq := pr;
     e_npi := e_npi e; e_cireq := cr; e_nci := e_nci e; e_pgreq := gr; e_npg := e_npg e; e_lmt := lm |}.
Definition Re (c:Z) (e e':entry) : Prop :=
  exists ct lm pr cr gr, e' = retime e ct lm pr cr gr /\ cong c (e_ctime e) ct /\ cong c (e_lmt e) lm /\
    (e_npi e = 0 \/ cong c (e_pireq e) pr) /\ (e_nci e = 0 \/ cong c (e_cireq e) cr) /\ (e_npg e = 0 \/ cong c (e_pgreq e) gr).
Ltac re_destruct H := destruct H as (?ct & ?lm & ?pr & ?cr & ?gr & -> & ?Hct & ?Hlm & ?Hpr & ?Hcr & ?Hgr).
Ltac re_intro := eexists _, _, _, _, _; split; [reflexivity|cbn [retime e_ctime e_lmt e_pireq e_cireq e_pgreq e_npi e_nci e_npg with_src with_name with_pi with_conf with_lists with_req new_entry]].

Lemma Re_with_src c e e' s : Re c e e' -> Re c (with_src e s) (with_src e' s).
Proof. intros H. re_destruct H. re_intro. auto. Qed.
Lemma Re_with_name c e e' n : Re c e e' -> Re c (with_name e n) (with_name e' n).
Proof. intros H. re_destruct H. re_intro. auto. Qed.
Lemma Re_with_conf c e e' l b m d1 d2 : Re c e e' -> Re c (with_conf e l b m d1 d2) (with_conf e' l b m d1 d2).
Proof. intros H. re_destruct H. re_intro. auto. Qed.
Lemma Re_with_lists c e e' a b : Re c e e' -> Re c (with_lists e a b) (with_lists e' a b).
Proof. intros H. re_destruct H. re_intro. auto. Qed.
Lemma Re_with_pi c e e' l p rq rq' n : Re c e e' -> (n = 0 \/ cong c rq rq') -> Re c (with_pi e l p rq n) (with_pi e' l p rq' n).
Proof. intros H Hq. re_destruct H. re_intro. auto. Qed.
Lemma Re_with_req c e e' nn cr0 cr0' nc gr0 gr0' ng lm0 lm0' : Re c e e' -> (nc = 0 \/ cong c cr0 cr0') -> (ng = 0 \/ cong c gr0 gr0') -> cong c lm0 lm0' ->
  Re c (with_req e nn cr0 nc gr0 ng lm0) (with_req e' nn cr0' nc gr0' ng lm0').
Proof. intros H H1 H2 H3. re_destruct H. re_intro. auto. Qed.
Lemma Re_new c n now now' : cong c now now' -> Re c (new_entry n now) (new_entry n now').
Proof. intros H. exists now', now', 0, 0, 0. split; [reflexivity|]. cbn [new_entry e_ctime e_lmt e_npi e_nci e_npg e_pireq e_cireq e_pgreq]. repeat split; auto. Qed.
Lemma Re_clear c e e' : Re c e e' -> Re c (clear_pi_loaded e) (clear_pi_loaded e').
Proof. intros H. unfold clear_pi_loaded. pose proof H as H0. re_destruct H0. cbn [retime e_pi]. apply Re_with_pi; [exact H|auto]. Qed.

(* ---------- results ---------- *)
Definition Rres {A} (R:A -> A -> Prop) (r r':res A) : Prop :=
  match r, r' with Ok a, Ok a' => R a a' | OOB, OOB => True | Fuel, Fuel => True | _, _ => False end.
Lemma bind_rel {A B} (RA:A -> A -> Prop) (RB:B -> B -> Prop) r r' f f' :
  Rres RA r r' -> (forall a a', RA a a' -> Rres RB (f a) (f' a')) -> Rres RB (bind r f) (bind r' f').
Proof. intros H Hf. destruct r, r'; cbn in *; try contradiction; auto. Qed.
Lemma Rres_eq {A} (r r':res A) : Rres eq r r' -> r' = r.
Proof. destruct r, r'; cbn; try contradiction; congruence. Qed.
Lemma Rres_refl {A} (r:res A) : Rres eq r r.
Proof. destruct r; cbn; auto. Qed.

(* ---------- states ---------- *)
Definition Ro (c:Z) (o o':option entry) : Prop :=
  match o, o' with None, None => True | Some e, Some e' => Re c e e' | _, _ => False end.
Definition Rs (c:Z) (st st':state) : Prop :=
  sources st' = sources st /\ maxdev st' = maxdev st /\ updated st' = updated st /\ pending st' = pending st /\ Forall2 (Ro c) (heap st) (heap st').
Definition Rp (c:Z) (p p':state * list req) : Prop := Rs c (fst p) (fst p') /\ snd p' = snd p.

Lemma Forall2_nth {A} (R:A -> A -> Prop) l l' n : Forall2 R l l' ->
  match nth_error l n, nth_error l' n with Some a, Some b => R a b | None, None => True | _, _ => False end.
Proof. intros H. revert n. induction H; intros [|n]; cbn; auto. apply IHForall2. Qed.
Lemma Forall2_set_nth {A} (R:A -> A -> Prop) l l' n v v' : Forall2 R l l' -> R v v' -> Forall2 R (set_nth l n v) (set_nth l' n v').
Proof. intros H Hv. revert n. induction H; intros [|n]; cbn [set_nth]; constructor; auto. Qed.

Lemma Forall2_len {A} (R:A -> A -> Prop) l l' : Forall2 R l l' -> length l' = length l.
Proof. intros H. induction H; cbn; auto. Qed.
Lemma Rs_init c : Rs c init_state init_state.
Proof. repeat split; constructor. Qed.
Lemma Rs_flags c st st' u p : Rs c st st' -> Rs c (with_flags st u p) (with_flags st' u p).
Proof. intros (H1 & H2 & H3 & H4 & H5). repeat split; assumption. Qed.
Lemma Rs_flags2 c st st' u u' p p' : Rs c st st' -> u' = u -> p' = p -> Rs c (with_flags st u p) (with_flags st' u' p').
Proof. intros H -> ->. apply Rs_flags. exact H. Qed.
Lemma Rs_maxdev c st st' mx : Rs c st st' -> Rs c (with_hs st (heap st) (sources st) mx) (with_hs st' (heap st') (sources st') mx).
Proof. intros (H1 & H2 & H3 & H4 & H5). repeat split; assumption. Qed.

Lemma src_get_rel c st st' i : Rs c st st' -> src_get st' i = src_get st i.
Proof. intros (H1 & _). unfold src_get. rewrite H1. reflexivity. Qed.
Lemma deref_rel c st st' oid : Rs c st st' -> Rres (Re c) (deref st oid) (deref st' oid).
Proof.
  intros (_ & _ & _ & _ & H). unfold deref. pose proof (Forall2_nth _ _ _ oid H) as Hn.
  destruct (nth_error (heap st) oid) as [[e|]|], (nth_error (heap st') oid) as [[e'|]|]; cbn in *; try contradiction; auto.
Qed.
Lemma update_rel c st st' oid e e' : Rs c st st' -> Re c e e' -> Rres (Rs c) (update st oid e) (update st' oid e').
Proof.
  intros (H1 & H2 & H3 & H4 & H) He. unfold update. pose proof (Forall2_nth _ _ _ oid H) as Hn.
  destruct (nth_error (heap st) oid) as [[x|]|], (nth_error (heap st') oid) as [[x'|]|]; cbn in *; try contradiction; auto.
  repeat split; try assumption. apply Forall2_set_nth; [exact H|exact He].
Qed.
Lemma free_rel c st st' oid : Rs c st st' -> Rres (Rs c) (free st oid) (free st' oid).
Proof.
  intros (H1 & H2 & H3 & H4 & H). unfold free. pose proof (Forall2_nth _ _ _ oid H) as Hn.
  destruct (nth_error (heap st) oid) as [[x|]|], (nth_error (heap st') oid) as [[x'|]|]; cbn in *; try contradiction; auto.
  repeat split; try assumption. apply Forall2_set_nth; [exact H|exact I].
Qed.
Lemma src_set_rel c st st' i v : Rs c st st' -> Rres (Rs c) (src_set st i v) (src_set st' i v).
Proof.
  intros (H1 & H2 & H3 & H4 & H). unfold src_set. destruct (src_ok i); cbn; [|exact I]. repeat split; cbn; try assumption. rewrite H1. reflexivity.
Qed.
Lemma alloc_rel c st st' e e' : Rs c st st' -> Re c e e' -> Rs c (fst (alloc st e)) (fst (alloc st' e')) /\ snd (alloc st' e') = snd (alloc st e).
Proof.
  intros (H1 & H2 & H3 & H4 & H) He. split; [|cbn; eapply Forall2_len; eauto].
  repeat split; cbn; try assumption. apply Forall2_app; [exact H|]. constructor; [exact He|constructor].
Qed.

Lemma save_device_rel c st st' oid s : Rs c st st' -> Rres (Rs c) (save_device st oid s) (save_device st' oid s).
Proof.
  intros H. unfold save_device. destruct (s >=? MaxBus); [exact H|].
  apply (bind_rel (Re c)); [apply deref_rel; exact H|]. intros e e' He.
  apply (bind_rel (Rs c)); [apply update_rel; [exact H|apply Re_with_src; exact He]|]. intros st1 st1' H1.
  apply (bind_rel (Rs c)); [apply src_set_rel; exact H1|]. intros st2 st2' H2. cbn.
  pose proof H2 as (_ & Hm & _). rewrite Hm. destruct (s >=? maxdev st2); [apply Rs_maxdev; exact H2|exact H2].
Qed.

Lemma Re_name c e e' : Re c e e' -> e_name e' = e_name e /\ e_src e' = e_src e.
Proof. intros H. re_destruct H. auto. Qed.

Lemma fbn_rel c st st' name : Rs c st st' -> forall fuel i, Rres eq (fbn st name fuel i) (fbn st' name fuel i).
Proof.
  intros H. induction fuel as [|fuel IH]; intros i; cbn [fbn]; [exact I|]. pose proof H as (_ & Hm & _). rewrite Hm.
  destruct (i >=? maxdev st); [reflexivity|]. rewrite (src_get_rel _ _ _ i H). destruct (src_get st i) as [[oid|]| |]; cbn [bind]; try exact I; [|apply IH].
  apply (bind_rel (Re c)); [apply deref_rel; exact H|]. intros e e' He. destruct (Re_name _ _ _ He) as (-> & _).
  destruct (e_name e =? name); [reflexivity|apply IH].
Qed.
Lemma find_by_name_rel c st st' name : Rs c st st' -> find_by_name st' name = find_by_name st name.
Proof. intros H. apply Rres_eq. unfold find_by_name. exact (fbn_rel c st st' name H 300%nat 0). Qed.

(* ---------- the handlers ---------- *)
Lemma claim_finish_rel c st st' oid rq : Rs c st st' -> Rres (Rp c) (claim_finish st oid rq) (claim_finish st' oid rq).
Proof.
  intros H. unfold claim_finish. apply (bind_rel (Re c)); [apply deref_rel; exact H|]. intros e e' He.
  apply (bind_rel (Rs c)); [apply update_rel; [exact H|apply Re_clear; exact He]|]. intros st1 st1' H1. split; [apply Rs_flags; exact H1|reflexivity].
Qed.

Lemma claim_place_rel c now now' st st' s cn rq : Rs c st st' -> cong c now now' ->
  Rres (Rp c) (claim_place now st s cn rq) (claim_place now' st' s cn rq).
Proof.
  intros H Hn. unfold claim_place. rewrite (find_by_name_rel _ _ _ cn H). destruct (find_by_name st cn) as [[oid|]| |]; cbn [bind]; try exact I.
  - apply (bind_rel (Re c)); [apply deref_rel; exact H|]. intros e e' He. destruct (Re_name _ _ _ He) as (_ & ->).
    apply (bind_rel (Rs c)); [apply src_set_rel; exact H|]. intros st1 st1' H1.
    apply (bind_rel (Rs c)); [apply save_device_rel; exact H1|]. intros st2 st2' H2. apply claim_finish_rel. exact H2.
  - destruct (alloc_rel c st st' (new_entry cn now) (new_entry cn now') H (Re_new _ _ _ _ Hn)) as (Ha & Ho).
    destruct (alloc st (new_entry cn now)) as [st1 oid]. destruct (alloc st' (new_entry cn now')) as [st1' oid']. cbn [fst snd] in Ha, Ho. subst oid'.
    apply (bind_rel (Rs c)); [apply save_device_rel; exact Ha|]. intros st2 st2' H2. apply claim_finish_rel. exact H2.
Qed.

Lemma Rs_sources c st st' : Rs c st st' -> sources st' = sources st.
Proof. intros (H & _). exact H. Qed.
Lemma Rs_pending c st st' : Rs c st st' -> pending st' = pending st /\ updated st' = updated st.
Proof. intros (_ & _ & H1 & H2 & _). auto. Qed.

Lemma handle_claim_rel c now now' ok m st st' : Rs c st st' -> cong c now now' ->
  Rres (Rp c) (handle_claim now ok m st) (handle_claim now' ok m st').
Proof.
  intros H Hn. unfold handle_claim. rewrite (src_get_rel _ _ _ (b_src m) H).
  destruct (src_get st (b_src m)) as [[oid|]| |]; cbn [bind]; try exact I; [|apply claim_place_rel; assumption].
  apply (bind_rel (Re c)); [apply deref_rel; exact H|]. intros e e' He. destruct (Re_name _ _ _ He) as (Hname & _). rewrite Hname.
  assert (Hset : Rres (Rp c)
     (st1 <- update st oid (with_name e (claim_name m)) ;; claim_finish (with_flags st1 true (pending st1)) oid [])
     (st1 <- update st' oid (with_name e' (claim_name m)) ;; claim_finish (with_flags st1 true (pending st1)) oid [])).
  { apply (bind_rel (Rs c)); [apply update_rel; [exact H|apply Re_with_name; exact He]|]. intros st1 st1' H1. apply claim_finish_rel.
    apply Rs_flags2; [exact H1|reflexivity|apply (Rs_pending _ _ _ H1)]. }
  destruct (e_name e =? 0).
  - rewrite (find_by_name_rel _ _ _ _ H). destruct (find_by_name st (claim_name m)) as [[oid2|]| |]; cbn [bind]; try exact I; [|exact Hset].
    destruct (Nat.eqb oid2 oid); [exact Hset|].
    apply (bind_rel (Rs c)); [apply free_rel; exact H|]. intros st1 st1' H1.
    apply (bind_rel (Re c)); [apply deref_rel; exact H1|]. intros e2 e2' He2. destruct (Re_name _ _ _ He2) as (_ & ->).
    apply (bind_rel (Rs c)); [apply src_set_rel; exact H1|]. intros st2 st2' H2.
    apply (bind_rel (Rs c)); [apply save_device_rel; exact H2|]. intros st3 st3' H3. apply claim_finish_rel. exact H3.
  - destruct (negb (e_name e =? claim_name m)); [|split; [exact H|reflexivity]].
    rewrite (Rs_sources _ _ _ H).
    apply (bind_rel (Rp c)).
    + destruct (first_none (sources st) 0 <? MaxBus).
      * apply (bind_rel (Rs c)); [apply save_device_rel; exact H|]. intros st1 st1' H1. split; [exact H1|reflexivity].
      * apply (bind_rel (Rs c)); [apply free_rel; exact H|]. intros st1 st1' H1. split; [exact H1|reflexivity].
    + intros [st1 rq] [st1' rq'] (H1 & Hrq). cbn [fst snd] in H1, Hrq. subst rq'.
      apply (bind_rel (Rs c)); [apply src_set_rel; exact H1|]. intros st2 st2' H2. apply claim_place_rel; assumption.
Qed.

Lemma handle_prod_rel c m st st' : Rs c st st' -> Rres (Rs c) (handle_prod m st) (handle_prod m st').
Proof.
  intros H. unfold handle_prod. rewrite (src_get_rel _ _ _ (b_src m) H).
  destruct (src_get st (b_src m)) as [[oid|]| |]; cbn [bind]; try exact I; [|exact H].
  apply (bind_rel (Re c)); [apply deref_rel; exact H|]. intros e e' He. pose proof He as He0. re_destruct He0. cbn [retime e_pil e_pi e_pireq e_npi].
  destruct (e_pil e); [exact H|]. destruct (parse_pi m) as [raw|]; [|exact H].
  destruct (pi_same raw (e_pi e)).
  - apply update_rel; [exact H|]. apply (Re_with_pi c e _ true (e_pi e) (e_pireq e) pr (e_npi e) He). exact Hpr.
  - apply (bind_rel (Rs c)); [apply update_rel; [exact H|apply (Re_with_pi c e _ true (pi_norm raw) (e_pireq e) pr (e_npi e) He); exact Hpr]|].
    intros st1 st1' H1. apply Rs_flags2; [exact H1|reflexivity|apply (Rs_pending _ _ _ H1)].
Qed.

Lemma init_conf_rel c e e' a b d : Re c e e' -> Rres (Re c) (init_conf e a b d) (init_conf e' a b d).
Proof.
  intros He. pose proof He as He0. re_destruct He0. unfold init_conf. cbn [retime e_confi].
  set (buf := match match e_confi e with Some b0 => if Z.of_nat (length b0) <? (a + b + d) mod 65536 then None else Some b0 | None => None end with
              | Some b0 => Some b0 | None => if (a + b + d) mod 65536 >? 0 then Some (repeat 0 (Z.to_nat ((a + b + d) mod 65536))) else None end).
  match goal with |- Rres _ (bind ?X _) (bind ?X _) => destruct X as [r1| |]; cbn [bind]; try exact I end.
  match goal with |- Rres _ (bind ?X _) (bind ?X _) => destruct X as [r2| |]; cbn [bind]; try exact I end.
  match goal with |- Rres _ (bind ?X _) (bind ?X _) => destruct X as [r3| |]; cbn [bind]; try exact I end.
  apply Re_with_conf. exact He.
Qed.

Lemma handle_conf_rel c m st st' : Rs c st st' -> Rres (Rs c) (handle_conf m st) (handle_conf m st').
Proof.
  intros H. unfold handle_conf. rewrite (src_get_rel _ _ _ (b_src m) H).
  destruct (src_get st (b_src m)) as [[oid|]| |]; cbn [bind]; try exact I; [|exact H].
  apply (bind_rel (Re c)); [apply deref_rel; exact H|]. intros e e' He.
  destruct (measure_conf (tmsg m)) as [[[[m0 a0] b0]|]| |]; cbn [bind]; try exact I; [|exact H].
  apply (bind_rel (Re c)); [apply init_conf_rel; exact He|]. intros e1 e1' He1.
  assert (Hfin : forall e2 e2', Re c e2 e2' ->
     Rres (Rs c) (st1 <- update st oid e2 ;; Ok (with_flags st1 true (pending st1))) (st1 <- update st' oid e2' ;; Ok (with_flags st1 true (pending st1)))).
  { intros e2 e2' He2. apply (bind_rel (Rs c)); [apply update_rel; assumption|]. intros st1 st1' H1.
    apply Rs_flags2; [exact H1|reflexivity|apply (Rs_pending _ _ _ H1)]. }
  apply (bind_rel (Re c)); [|intros e2 e2' He2; apply Hfin; exact He2].
  pose proof He1 as He10. re_destruct He10. cbn [retime e_confi e_man e_d1 e_d2].
  match goal with |- Rres _ (if ?b then _ else _) (if ?b then _ else _) => destruct b; [|exact He1] end.
  match goal with |- Rres _ (bind ?X _) (bind ?X _) => destruct X as [[[ok1 i1] c1]| |]; cbn [bind]; try exact I end.
  destruct (negb ok1); [apply Re_with_conf; exact He1|].
  match goal with |- Rres _ (bind ?X _) (bind ?X _) => destruct X as [[[ok2 i2] c2]| |]; cbn [bind]; try exact I end.
  destruct (negb ok2); [apply Re_with_conf; exact He1|].
  match goal with |- Rres _ (bind ?X _) (bind ?X _) => destruct X as [[[ok3 i3] c3]| |]; cbn [bind]; try exact I end.
  apply Re_with_conf. exact He1.
Qed.

Lemma handle_list_rel c m st st' : Rs c st st' -> Rres (Rs c) (handle_list m st) (handle_list m st').
Proof.
  intros H. unfold handle_list. rewrite (src_get_rel _ _ _ (b_src m) H).
  destruct (src_get st (b_src m)) as [[oid|]| |]; cbn [bind]; try exact I; [|exact H].
  apply (bind_rel (Re c)); [apply deref_rel; exact H|]. intros e e' He.
  destruct (if 0 <? dlen m then (znth (pl m) 0 0, 1) else (255, 0)) as [kind idx].
  apply (bind_rel (Re c)).
  - pose proof He as He0. re_destruct He0. cbn [retime e_tx e_rx].
    destruct (kind =? 0).
    + match goal with |- Rres _ (bind ?X _) (bind ?X _) => destruct X as [l| |]; cbn [bind]; try exact I end. apply Re_with_lists. exact He.
    + destruct (kind =? 1); [|exact He].
      match goal with |- Rres _ (bind ?X _) (bind ?X _) => destruct X as [l| |]; cbn [bind]; try exact I end. apply Re_with_lists. exact He.
  - intros e1 e1' He1. apply (bind_rel (Rs c)); [apply update_rel; assumption|]. intros st1 st1' H1.
    apply Rs_flags2; [exact H1|reflexivity|apply (Rs_pending _ _ _ H1)].
Qed.

(* the readiness tests and the marks of the request loops *)
Lemma ready_pi_rel c now now' e e' : cong c now now' -> Re c e e' -> ready_pi now' e' = ready_pi now e /\ should_pi e' = should_pi e /\ Re c (mark_pi now e) (mark_pi now' e').
Proof.
  intros Hn He. pose proof He as He0. re_destruct He0. unfold ready_pi, should_pi, mark_pi. cbn [retime e_pil e_npi e_pireq e_ctime e_pi].
  split; [|split; [reflexivity|]].
  - rewrite (has_elapsed_cong c (e_ctime e) ct 1000 now now' Hct Hn). destruct Hpr as [H0|Hp].
    + rewrite H0. reflexivity.
    + rewrite (has_elapsed_cong c (e_pireq e) pr 1000 now now' Hp Hn). reflexivity.
  - apply (Re_with_pi c e _ (e_pil e) (e_pi e) now now' (e_npi e + 1) He). right. exact Hn.
Qed.
Lemma ready_ci_rel c now now' e e' : cong c now now' -> Re c e e' -> ready_ci now' e' = ready_ci now e /\ should_ci e' = should_ci e /\ Re c (mark_ci now e) (mark_ci now' e').
Proof.
  intros Hn He. pose proof He as He0. re_destruct He0. unfold ready_ci, should_ci, mark_ci. cbn [retime e_cil e_nci e_cireq e_ctime e_nname e_pgreq e_npg e_lmt].
  split; [|split; [reflexivity|]].
  - rewrite (has_elapsed_cong c (e_ctime e) ct 1000 now now' Hct Hn). destruct Hcr as [H0|Hp].
    + rewrite H0. reflexivity.
    + rewrite (has_elapsed_cong c (e_cireq e) cr 1000 now now' Hp Hn). reflexivity.
  - apply (Re_with_req c e _ (e_nname e) now now' (e_nci e + 1) (e_pgreq e) gr (e_npg e) (e_lmt e) lm He); auto.
Qed.
Lemma ready_pg_rel c now now' e e' : cong c now now' -> Re c e e' -> ready_pg now' e' = ready_pg now e /\ should_pg e' = should_pg e /\ Re c (mark_pg now e) (mark_pg now' e').
Proof.
  intros Hn He. pose proof He as He0. re_destruct He0. unfold ready_pg, should_pg, mark_pg. cbn [retime e_tx e_rx e_npg e_pgreq e_ctime e_nname e_cireq e_nci e_lmt].
  split; [|split; [reflexivity|]].
  - rewrite (has_elapsed_cong c (e_ctime e) ct 1000 now now' Hct Hn). destruct Hgr as [H0|Hp].
    + rewrite H0. reflexivity.
    + rewrite (has_elapsed_cong c (e_pgreq e) gr 1000 now now' Hp Hn). reflexivity.
  - apply (Re_with_req c e _ (e_nname e) (e_cireq e) cr (e_nci e) now now' (e_npg e + 1) (e_lmt e) lm He); auto.
Qed.

Definition R4 (c:Z) (x x':state * list req * bool * bool) : Prop :=
  match x, x' with (st, rq, ret, p), (st', rq', ret', p') => Rs c st st' /\ rq' = rq /\ ret' = ret /\ p' = p end.
Lemma scan_req_rel c ready ready' should should' mark mark' pgn ok :
  (forall e e', Re c e e' -> ready' e' = ready e /\ should' e' = should e /\ Re c (mark e) (mark' e')) ->
  forall fuel st st' i pend, Rs c st st' ->
    Rres (R4 c) (scan_req ready should mark pgn ok st fuel i pend) (scan_req ready' should' mark' pgn ok st' fuel i pend).
Proof.
  intros Hr. induction fuel as [|fuel IH]; intros st st' i pend H; cbn [scan_req]; [exact I|]. pose proof H as (_ & Hm & _). rewrite Hm.
  destruct (i >=? maxdev st); [cbn; auto|]. rewrite (src_get_rel _ _ _ i H). destruct (src_get st i) as [[oid|]| |]; cbn [bind]; try exact I; [|apply IH; exact H].
  apply (bind_rel (Re c)); [apply deref_rel; exact H|]. intros e e' He. destruct (Hr e e' He) as (-> & -> & Hmk). destruct (Re_name _ _ _ He) as (_ & Hs).
  destruct (ready e); [|apply IH; exact H]. destruct ok; [|apply IH; exact H].
  apply (bind_rel (Rs c)); [apply update_rel; assumption|]. intros st1 st1' H1. cbn. rewrite Hs. auto.
Qed.

Lemma handle_other_rel c now now' ok m st st' : Rs c st st' -> cong c now now' -> Rres (Rp c) (handle_other now ok m st) (handle_other now' ok m st').
Proof.
  intros H Hn. unfold handle_other. destruct (Rs_pending _ _ _ H) as (-> & _). destruct (negb (pending st)); [split; [exact H|reflexivity]|].
  rewrite (src_get_rel _ _ _ (b_src m) H). destruct (src_get st (b_src m)) as [[oid|]| |]; cbn [bind]; try exact I.
  apply (bind_rel (Re c)); [apply deref_rel; exact H|]. intros e e' He.
  apply (bind_rel (fun x x' : state * list req * bool => Rs c (fst (fst x)) (fst (fst x')) /\ snd (fst x') = snd (fst x) /\ snd x' = snd x)).
  { pose proof He as He0. re_destruct He0. cbn [retime e_name e_nname e_cireq e_nci e_pgreq e_npg e_lmt].
    destruct ((e_name e =? 0) && (e_nname e <? 20) && ok); [|cbn; auto].
    apply (bind_rel (Rs c)); [|intros st1 st1' H1; cbn; auto]. apply update_rel; [exact H|].
    apply (Re_with_req c e _ ((e_nname e + 1) mod 256) (e_cireq e) cr (e_nci e) (e_pgreq e) gr (e_npg e) (e_lmt e) lm He); auto. }
  intros [[st1 rq0] p0] [[st1' rq0'] p0'] (H1 & Hq & Hp). cbn [fst snd] in H1, Hq, Hp. subst rq0' p0'.
  apply (bind_rel (R4 c)); [apply scan_req_rel; [intros x x' Hx; apply ready_pi_rel; assumption|exact H1]|].
  intros [[[st2 rq1] ret1] p1] [[[st2' rq1'] ret1'] p1'] (H2 & -> & -> & ->).
  destruct (ret1 || p1); [split; [apply Rs_flags2; [exact H2|apply (Rs_pending _ _ _ H2)|reflexivity]|reflexivity]|].
  apply (bind_rel (R4 c)); [apply scan_req_rel; [intros x x' Hx; apply ready_ci_rel; assumption|exact H2]|].
  intros [[[st3 rq2] ret2] p2] [[[st3' rq2'] ret2'] p2'] (H3 & -> & -> & ->).
  destruct (ret2 || p2); [split; [apply Rs_flags2; [exact H3|apply (Rs_pending _ _ _ H3)|reflexivity]|reflexivity]|].
  apply (bind_rel (R4 c)); [apply scan_req_rel; [intros x x' Hx; apply ready_pg_rel; assumption|exact H3]|].
  intros [[[st4 rq3] ret3] p3] [[[st4' rq3'] ret3'] p3'] (H4 & -> & -> & ->).
  split; [apply Rs_flags2; [exact H4|apply (Rs_pending _ _ _ H4)|reflexivity]|reflexivity].
Qed.

Lemma add_device_rel c now now' ok s st st' : Rs c st st' -> cong c now now' -> Rres (Rp c) (add_device now ok s st) (add_device now' ok s st').
Proof.
  intros H Hn. unfold add_device. destruct ok; [|split; [exact H|reflexivity]].
  destruct (alloc_rel c st st' (new_entry 0 now) (new_entry 0 now') H (Re_new _ _ _ _ Hn)) as (Ha & Ho).
  destruct (alloc st (new_entry 0 now)) as [st1 oid]. destruct (alloc st' (new_entry 0 now')) as [st1' oid']. cbn [fst snd] in Ha, Ho. subst oid'.
  apply (bind_rel (Rs c)); [apply save_device_rel; exact Ha|]. intros st2 st2' H2.
  split; [apply Rs_flags2; [exact H2|apply (Rs_pending _ _ _ H2)|reflexivity]|reflexivity].
Qed.

Lemma touch_rel c now now' s st st' : Rs c st st' -> cong c now now' -> Rres (Rs c) (touch now s st) (touch now' s st').
Proof.
  intros H Hn. unfold touch. rewrite (src_get_rel _ _ _ s H). destruct (src_get st s) as [[oid|]| |]; cbn [bind]; try exact I; [|exact H].
  apply (bind_rel (Re c)); [apply deref_rel; exact H|]. intros e e' He. pose proof He as He0. re_destruct He0.
  cbn [retime e_name e_nname e_lmt e_cireq e_nci e_pgreq e_npg]. rewrite (has_elapsed_cong c (e_lmt e) lm 60000 now now' Hlm Hn).
  set (again := (e_name e =? 0) && (e_nname e >? 0) && has_elapsed (e_lmt e) 60000 now).
  apply (bind_rel (Rs c)).
  - apply update_rel; [exact H|]. apply (Re_with_req c e _ (if again then 0 else e_nname e) (e_cireq e) cr (e_nci e) (e_pgreq e) gr (e_npg e) now now' He); auto.
  - intros st1 st1' H1. destruct again; [apply Rs_flags2; [exact H1|apply (Rs_pending _ _ _ H1)|reflexivity]|exact H1].
Qed.

Lemma handle_msg_rel c now now' ok m st st' : Rs c st st' -> cong c now now' -> Rres (Rp c) (handle_msg now ok m st) (handle_msg now' ok m st').
Proof.
  intros H Hn. unfold handle_msg. destruct (negb ((0 <=? b_src m) && (b_src m <? MaxBus))); [split; [exact H|reflexivity]|].
  rewrite (src_get_rel _ _ _ (b_src m) H). destruct (src_get st (b_src m)) as [o| |]; cbn [bind]; try exact I.
  apply (bind_rel (fun x x' : state * list req * bool => Rs c (fst (fst x)) (fst (fst x')) /\ snd (fst x') = snd (fst x) /\ snd x' = snd x)).
  { destruct o; [cbn; auto|]. destruct (b_pgn m =? PGN_claim); [cbn; auto|].
    apply (bind_rel (Rp c)); [apply add_device_rel; assumption|]. intros r r' (Hr1 & Hr2). cbn. auto. }
  intros [[st1 rq0] stop] [[st1' rq0'] stop'] (H1 & Hq & Hs). cbn [fst snd] in H1, Hq, Hs. subst rq0' stop'.
  destruct stop; [split; [exact H1|reflexivity]|].
  apply (bind_rel (Rp c)).
  - destruct (b_pgn m =? PGN_claim); [apply handle_claim_rel; assumption|].
    destruct (b_pgn m =? PGN_prod); [apply (bind_rel (Rs c)); [apply handle_prod_rel; exact H1|intros a a' Ha; split; [exact Ha|reflexivity]]|].
    destruct (b_pgn m =? PGN_conf); [apply (bind_rel (Rs c)); [apply handle_conf_rel; exact H1|intros a a' Ha; split; [exact Ha|reflexivity]]|].
    destruct (b_pgn m =? PGN_list); [apply (bind_rel (Rs c)); [apply handle_list_rel; exact H1|intros a a' Ha; split; [exact Ha|reflexivity]]|].
    apply handle_other_rel; assumption.
  - intros [st2 rq1] [st2' rq1'] (H2 & Hq). cbn [fst snd] in H2, Hq. subst rq1'.
    apply (bind_rel (Rs c)); [apply touch_rel; assumption|]. intros st3 st3' H3. split; [exact H3|reflexivity].
Qed.

Lemma run_log_rel c : forall h st st', Rs c st st' -> Rres eq (run_log h st) (run_log (shift c h) st').
Proof.
  induction h as [|[[now ok] m] h IH]; intros st st' H; cbn [run_log shift map]; [reflexivity|].
  apply (bind_rel (Rp c)); [apply handle_msg_rel; [exact H|apply cong_shift]|]. intros x x' (Hx & Hq).
  apply (bind_rel eq); [apply IH; exact Hx|]. intros l l' ->. cbn. rewrite Hq. reflexivity.
Qed.

Theorem pacing_shift : pacing_shift_stmt.
Proof. intros h c. apply Rres_eq. apply (run_log_rel c). apply Rs_init. Qed.
Print Assumptions pacing_shift.

(* the D-20 witness as a history: claim of 0x1234 from source 10 at 5000, then a message of source 10 at 6500 and every 1001 ms *)
Definition d20_hist : list event :=
  (5000, true, {| b_pgn := 60928; b_src := 10; b_data := [52; 18; 0; 0; 0; 0; 0; 0] |}) ::
  map (fun t => (t, true, {| b_pgn := 127250; b_src := 10; b_data := [0] |})) [6500; 7501; 8502; 9503; 10504].
