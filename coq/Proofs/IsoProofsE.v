(* C08, part E: a broadcast request for a mandatory PGN is answered by every device, in device order.
   [same_data]: what RespondISORequest never changes (on top of [nsim]): the configuration, the number of extended device records and
   the application's receive lists - so the hypotheses of the per-device statement hold again for the next device. *)
From Coq Require Import ZArith List Bool Lia.
From N2kV Require Import Base.ListAux Model.CanId Model.Sched Model.PgnClass Model.NodeDefs Model.NodeRxDefs Gen.GenTables Gen.GenConsts
  Spec.SendSpec Spec.IsoSpec Proofs.SendProofs Proofs.QueueProofs Proofs.IsoProofsA Proofs.IsoProofsB Proofs.IsoProofsC.
Import ListNotations.
Local Open Scope Z_scope.

Definition same_data (r0 r:rnode) : Prop :=
  nsim (rn r0) (rn r) /\ r_cfg r = r_cfg r0 /\ length (rx_dev r) = length (rx_dev r0) /\ forall j, x_rx (get_devx r j) = x_rx (get_devx r0 j).

Lemma sd_refl r : same_data r r.
Proof. split; [apply nsim_refl|]. auto. Qed.

Lemma sd_trans a b c : same_data a b -> same_data b c -> same_data a c.
Proof.
  intros (A1 & A2 & A3 & A4) (B1 & B2 & B3 & B4). split; [apply (nsim_trans _ _ _ A1 B1)|]. split; [congruence|]. split; [congruence|].
  intros j. rewrite B4. apply A4.
Qed.

Lemma sd_chk_dev r i : same_data r (chk_dev r i).
Proof. unfold chk_dev. destruct (_ && _); [apply sd_refl|]. split; [apply nsim_refl|]. cbn. auto. Qed.

Lemma sd_with_rn r n' : nsim (rn r) n' -> same_data r (with_rn r n').
Proof. intros S. split; [exact S|]. cbn. auto. Qed.

Lemma sd_rsend r m i : m_tp m = false -> same_data r (fst (fst (rsend r m i))).
Proof.
  intros Htp. unfold rsend. pose proof (send_msg_nsim (rn r) m i Htp) as S.
  destruct (send_msg (rn r) m i) as [[n' ev] ok]. cbn [fst] in *. apply sd_with_rn, S.
Qed.

Lemma get_devx_with_devx r i x j :
  get_devx (with_devx r i x) j = if (Z.to_nat j =? Z.to_nat i)%nat && (Z.to_nat i <? length (rx_dev r))%nat then x else get_devx r j.
Proof. unfold get_devx, with_devx, znth, zset. cbn [rx_dev]. apply nth_set_nth. Qed.

Lemma sd_set_pending r i a b c : same_data r (set_pending r i a b c).
Proof.
  unfold set_pending. apply (sd_trans _ _ _ (sd_chk_dev r i)). set (r1 := chk_dev r i).
  split; [apply nsim_refl|]. split; [reflexivity|]. split.
  - unfold with_devx, zset. cbn [rx_dev]. apply QueueProofs.set_nth_length.
  - intros j. rewrite get_devx_with_devx.
    destruct (Nat.eqb_spec (Z.to_nat j) (Z.to_nat i)) as [E|E]; cbn [andb]; [|reflexivity].
    destruct (Z.to_nat i <? length (rx_dev r1))%nat; [|reflexivity]. cbn [x_rx]. unfold get_devx, znth. rewrite E. reflexivity.
Qed.

Lemma respond_frame r requester a p i : same_data r (fst (respond_iso_request r requester a p i)).
Proof.
  unfold respond_iso_request. pose proof (sd_chk_dev r i) as S0. set (r0 := chk_dev r i) in *.
  pose proof (nsim_claim (rn r0) i) as S1. destruct (claim_started (rn r0) i) as [n1 st]. cbn [fst] in S1.
  pose proof (sd_trans _ _ _ S0 (sd_with_rn r0 n1 S1)) as SR. set (r1 := with_rn r0 n1) in *.
  destruct st; [exact SR|].
  destruct (p =? 60928).
  { unfold rsend_claim, send_iso_address_claim.
    destruct ((_ <? 0) || _); [cbn [fst]; apply (sd_trans _ _ _ SR), sd_with_rn, nsim_refl|].
    match goal with |- context [send_msg (rn r1) ?m ?k] => pose proof (send_msg_nsim (rn r1) m k eq_refl) as S2; destruct (send_msg (rn r1) m k) as [[n2 ev] ok] end.
    cbn [fst] in *. apply (sd_trans _ _ _ SR), sd_with_rn, S2. }
  destruct (p =? 126464).
  { match goal with |- context [rsend r1 ?m i] => pose proof (sd_rsend r1 m i eq_refl) as S2; destruct (rsend r1 m i) as [[r2 ev1] ok1] end.
    cbn [fst] in S2.
    match goal with |- context [rsend r2 ?m i] => pose proof (sd_rsend r2 m i eq_refl) as S3; destruct (rsend r2 m i) as [[r3 ev2] ok2] end.
    cbn [fst] in *. apply (sd_trans _ _ _ SR), (sd_trans _ _ _ S2), S3. }
  destruct (p =? 126996).
  { unfold send_product_info. pose proof (sd_chk_dev r1 i) as S2. set (r2 := chk_dev r1 i) in *.
    match goal with |- context [rsend r2 ?m i] => pose proof (sd_rsend r2 m i eq_refl) as S3; destruct (rsend r2 m i) as [[r3 ev] ok] end.
    cbn [fst] in *. apply (sd_trans _ _ _ SR), (sd_trans _ _ _ S2), (sd_trans _ _ _ S3), sd_set_pending. }
  destruct (p =? 126998).
  { destruct (c_confinfo (r_cfg r1)) as [|c0 cl].
    { destruct a; [|exact SR].
      match goal with |- context [rsend r1 ?m i] => pose proof (sd_rsend r1 m i eq_refl) as S2; destruct (rsend r1 m i) as [[r2 ev] ok] end.
      cbn [fst] in *. apply (sd_trans _ _ _ SR), S2. }
    unfold send_config_info. pose proof (sd_chk_dev r1 i) as S2. set (r2 := chk_dev r1 i) in *.
    match goal with |- context [rsend r2 ?m i] => pose proof (sd_rsend r2 m i eq_refl) as S3; destruct (rsend r2 m i) as [[r3 ev] ok] end.
    cbn [fst] in *. apply (sd_trans _ _ _ SR), (sd_trans _ _ _ S2), (sd_trans _ _ _ S3), sd_set_pending. }
  destruct (match c_iso_handler (r_cfg r1) with Some acc => _ | None => Some false end) as [[|]|]; try exact SR.
  destruct a; [|exact SR].
  match goal with |- context [rsend r1 ?m i] => pose proof (sd_rsend r1 m i eq_refl) as S2; destruct (rsend r1 m i) as [[r2 ev] ok] end.
  cbn [fst] in *. apply (sd_trans _ _ _ SR), S2.
Qed.

Lemma answer_frames_same r0 r requester p i ans : same_data r0 r -> answer_frames r requester p i ans -> answer_frames r0 requester p i ans.
Proof.
  intros (S & C & _ & X) H. unfold answer_frames, ref_tx_list, ref_rx_list in *.
  rewrite (ns_src _ _ S), (ns_name _ _ S), (ns_tx _ _ S), X, C in H. exact H.
Qed.

Lemma broadcast_answers_all r0 requester p :
  0 <= requester < 256 -> mandatory_pgn p = true -> protocol_pgns_single (n_pgn (rn r0)) -> info_fits (r_cfg r0) ->
  config_info_present (r_cfg r0) p ->
  forall l r, same_data r0 r -> rnode_wf r -> (forall i, In i l -> on_bus (rn r) i) -> driver_accepts (rn r) ->
    let '(r', ev) := broadcast_answers l r requester p in
    exists anss, ev = (match l with [] => [] | _ => pending_flush (rn r) end) ++ concat anss /\ (l <> [] -> quiet_after (rn r')) /\
                 Forall2 (fun i ans => answer_frames r0 requester p i ans) l anss.
Proof.
  intros Hreq Hman Hprot Hfits Hconf. induction l as [|i rest IH]; intros r SD Hw Hbus Hdrv; cbn [broadcast_answers].
  - exists []. split; [reflexivity|]. split; [intros H; contradiction|constructor].
  - assert (Hprot': protocol_pgns_single (n_pgn (rn r))) by (destruct SD as (S & _); rewrite (ns_pgn _ _ S); exact Hprot).
    assert (Hfits': info_fits (r_cfg r)) by (destruct SD as (_ & C & _); unfold info_fits; rewrite C; exact Hfits).
    assert (Hconf': config_info_present (r_cfg r) p) by (destruct SD as (_ & C & _); unfold config_info_present; rewrite C; exact Hconf).
    pose proof (respond_mandatory r requester false p i Hreq Hman (Hbus i (or_introl eq_refl)) Hdrv Hprot' Hfits' Hw Hconf') as PA.
    pose proof (respond_frame r requester false p i) as SF.
    destruct (respond_iso_request r requester false p i) as [r1 e1]. cbn [fst] in SF. unfold positive_answer in PA.
    destruct PA as (ans & Eev & Q & AF & _).
    destruct (quiet_pending _ Q) as (Hp1 & Hdrv1).
    assert (Hw1: rnode_wf r1).
    { unfold rnode_wf in *. destruct SF as (S & _ & L & _). rewrite L, Hw. pose proof (ns_count _ _ S) as C. unfold dev_count in C. lia. }
    assert (Hbus1: forall j, In j rest -> on_bus (rn r1) j).
    { intros j Hj. destruct SF as (S & _). apply (on_bus_nsim _ _ _ S). apply Hbus. right. exact Hj. }
    specialize (IH r1 (sd_trans _ _ _ SD SF) Hw1 Hbus1 Hdrv1).
    destruct (broadcast_answers rest r1 requester p) as [r2 e2] eqn:EB. destruct IH as (anss & E2 & Q2 & F2).
    exists (ans :: anss). split; [|split].
    + cbn [concat]. rewrite Eev, E2, Hp1. destruct rest; rewrite <- app_assoc; reflexivity.
    + intros _. destruct rest as [|j rest'].
      * cbn [broadcast_answers] in EB. injection EB as <- <-. exact Q.
      * apply Q2. discriminate.
    + constructor; [|exact F2]. apply (answer_frames_same _ _ _ _ _ _ SD AF).
Qed.

Theorem iso_broadcast_all_devices : iso_broadcast_all_devices_stmt.
Proof.
  unfold iso_broadcast_all_devices_stmt. intros r requester p Hreq Hman Hn Hbus Hdrv Hprot Hfits Hw Hconf.
  assert (Hin: forall i, In i (device_indices (rn r)) -> on_bus (rn r) i).
  { intros i Hi. apply Hbus. unfold device_indices in Hi. apply in_map_iff in Hi. destruct Hi as (k & <- & Hk). apply in_seq in Hk. unfold dev_count. lia. }
  pose proof (broadcast_answers_all r requester p Hreq Hman Hprot Hfits Hconf (device_indices (rn r)) r (sd_refl r) Hw Hin Hdrv) as H.
  destruct (broadcast_answers (device_indices (rn r)) r requester p) as [r' ev]. destruct H as (anss & E & Q & F).
  assert (Hne: device_indices (rn r) <> []).
  { unfold device_indices, dev_count in *. destruct (n_devs (rn r)); [cbn in Hn; lia|discriminate]. }
  exists anss. split; [|split; [apply Q, Hne|exact F]].
  rewrite E. destruct (device_indices (rn r)); [contradiction|reflexivity].
Qed.
Print Assumptions iso_broadcast_all_devices.
