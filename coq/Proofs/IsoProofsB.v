(* C08, part B: the answers.  Reference layouts = builders of the model; one SendMsg from a device on the bus with an accepting driver
   ([rsend_answer]); the positive answers ([respond_mandatory]); statement 1 (addressed), 3 (claim pending), 6 (reference). *)
From Coq Require Import ZArith List Bool Lia.
From N2kV Require Import Base.ListAux Model.CanId Model.Sched Model.PgnClass Model.NodeDefs Model.NodeRxDefs Gen.GenTables Gen.GenConsts
  Spec.SendSpec Spec.IsoSpec Proofs.SendProofs Proofs.QueueProofs Proofs.IsoProofsA.
Import ListNotations.
Local Open Scope Z_scope.

(* ================= reference layouts = the model's builders ================= *)
Lemma le_bytes_ref : forall k v, le_bytes k v = ref_le k v.
Proof.
  unfold le_bytes. intros k.
  assert (G: forall s v, map (fun i => (v / 256 ^ Z.of_nat i) mod 256) (seq s k) = ref_le k (v / 256 ^ Z.of_nat s)).
  { induction k as [|k IH]; intros s v; cbn [seq map ref_le]; [reflexivity|]. f_equal.
    rewrite IH. f_equal. rewrite Nat2Z.inj_succ, Z.pow_succ_r by lia. rewrite Z.div_div by lia. f_equal. lia. }
  intros v. rewrite G. cbn [Z.of_nat]. rewrite Z.pow_0_r, Z.div_1_r. reflexivity.
Qed.

Lemma flat_map_le3 l : flat_map (le_bytes 3) l = concat (map (ref_le 3) l).
Proof. rewrite flat_map_concat_map. f_equal. apply map_ext. intros a. apply le_bytes_ref. Qed.

Lemma concat_le3_length l : length (concat (map (ref_le 3) l)) = (3 * length l)%nat.
Proof. induction l as [|a l IH]; cbn [map concat]; [reflexivity|]. rewrite app_length, IH. cbn [ref_le length]. lia. Qed.

Lemma ref_fixed_text_length n s : length (ref_fixed_text n s) = n.
Proof.
  unfold ref_fixed_text. rewrite app_length, repeat_length, firstn_length. lia.
Qed.

Theorem iso_answers_match_reference : iso_answers_match_reference_stmt.
Proof.
  unfold iso_answers_match_reference_stmt. split; [|split; [|split; [|split; [|split; [|split]]]]].
  - intros p. unfold ref_nak, ref_ack. rewrite le_bytes_ref. reflexivity.
  - intros d dst. unfold claim_msg, ref_claim. cbn [m_data m_pgn m_pri]. rewrite le_bytes_ref. auto.
  - intros r i dst. unfold pgn_list_msg, ref_pgn_list, ref_tx_list, ref_rx_list. cbn [m_data]. rewrite !flat_map_le3. split; reflexivity.
  - intros r i dst w l1 l2. cbv zeta. unfold pgn_list_msg. cbn [m_pgn m_pri m_dst m_data]. repeat split.
    cbn [length]. rewrite flat_map_le3, concat_le3_length.
    pose proof (firstn_le_length (Z.to_nat c_MAX_PGNS_IN_LIST) (l1 ++ l2)) as H. change (Z.to_nat c_MAX_PGNS_IN_LIST) with 74%nat in *.
    pose proof (firstn_length (74%nat) (l1 ++ l2)). lia.
  - reflexivity.
  - intros. unfold ref_product_info. rewrite !app_length, !ref_fixed_text_length. reflexivity.
  - intros. unfold ref_config_info, ref_var_string. rewrite !app_length. cbn [length]. lia.
Qed.
Print Assumptions iso_answers_match_reference.

(* ================= identifiers ================= *)
Lemma land255_mod p : Z.land p 255 = p mod 256.
Proof. apply land255. Qed.

Lemma id_is_gate prio pgn src dst : id_args_ok prio pgn src dst -> (pdu1 pgn = true -> pgn mod 256 = 0) ->
  id_is (to_can_id prio pgn src (if negb (Z.land pgn 255 =? 0) then 255 else dst)) prio pgn src dst.
Proof.
  intros H Hlow. unfold id_is. destruct (pdu1 pgn) eqn:E.
  - rewrite land255_mod, (Hlow eq_refl). cbn [Z.eqb negb].
    destruct (can_id_fields prio pgn src dst H) as [A _]. specialize (A E (Hlow eq_refl)). cbv zeta in A. tauto.
  - assert (H': id_args_ok prio pgn src (if negb (Z.land pgn 255 =? 0) then 255 else dst)).
    { unfold id_args_ok in *. destruct (negb _); lia. }
    destruct (can_id_fields prio pgn src _ H') as [_ B]. specialize (B E). cbv zeta in B. tauto.
Qed.

Lemma id_is_nonzero id prio pgn src dst : id_is id prio pgn src dst -> 0 < prio -> id <> 0.
Proof. intros (_ & H & _) Hp ->. unfold id_prio in H. cbn in H. lia. Qed.

(* ================= rnode level ================= *)
Lemma chk_dev_ok r i : 0 <= i < dev_count (rn r) -> chk_dev r i = r.
Proof.
  intros H. unfold chk_dev. destruct (Z.leb_spec 0 i); [|lia]. destruct (Z.ltb_spec i (dev_count (rn r))); [reflexivity|lia].
Qed.

Lemma on_bus_nsim n n' i : nsim n n' -> on_bus n i -> on_bus n' i.
Proof.
  intros S (A & B & C & D & E). unfold on_bus.
  rewrite (ns_open _ _ S), (ns_mode _ _ S), (ns_count _ _ S), (ns_src _ _ S), (ns_claim _ _ S). auto.
Qed.

Lemma quiet_pending n : quiet_after n -> pending_flush n = [] /\ driver_accepts n.
Proof.
  intros (A & B & C). split; [|split; assumption]. unfold pending_flush. rewrite (contents_empty _ B C). reflexivity.
Qed.

Theorem iso_addressed_empty_queue : iso_addressed_empty_queue_stmt.
Proof. intros n B C. unfold pending_flush. rewrite (contents_empty _ B C). reflexivity. Qed.
Print Assumptions iso_addressed_empty_queue.

Lemma firstn_len_all {A} (l:list A) : firstn (Z.to_nat (Z.of_nat (length l))) l = l.
Proof. rewrite Nat2Z.id. apply firstn_all. Qed.

(* one SendMsg from a device that is on the bus, accepting driver: the queue is flushed, then the message goes out as one frame
   (at most 8 bytes, PGN not fast-packet) or as a fast packet *)
Lemma rsend_answer r m i :
  on_bus (rn r) i -> driver_accepts (rn r) -> m_tp m = false -> 0 < m_pri m < 8 -> 0 < m_pgn m < 2^17 -> 0 <= m_dst m < 256 ->
  (pdu1 (m_pgn m) = true -> m_pgn m mod 256 = 0) -> (length (m_data m) <= 223)%nat ->
  let src := d_src (get_dev (rn r) i) in
  exists r' ans, rsend r m i = (r', pending_flush (rn r) ++ ans, true) /\ r' = with_rn r (rn r') /\ nsim (rn r) (rn r') /\ quiet_after (rn r') /\
    (if (m_len m <=? 8) && negb (if m_pri m >=? 128 then false else is_fast_packet_pgn (n_pgn (rn r)) (m_pgn m))
     then single_frame ans (m_pri m) (m_pgn m) src (m_dst m) (m_data m)
     else fast_packet ans (m_pri m) (m_pgn m) src (m_dst m) (m_data m)).
Proof.
  intros (Ho & Hm & Hi & Hs & Hc) (Hd & Hwf) Htp Hpri Hpgn Hdst Hlow Hlen src.
  assert (Hargs: id_args_ok (m_pri m) (m_pgn m) src (m_dst m)) by (unfold id_args_ok, src; lia).
  pose proof (id_is_gate _ _ _ _ Hargs Hlow) as Hid. fold (gate_id (rn r) m i) in Hid.
  assert (Hnz: gate_id (rn r) m i <> 0) by (apply (id_is_nonzero _ _ _ _ _ Hid); lia).
  destruct (send_accepting (rn r) m i Ho Hi ltac:(lia) ltac:(lia) ltac:(left; lia) Hnz Hc Htp Hd Hwf) as (n' & E & S & Q).
  unfold rsend. rewrite E. exists (with_rn r n'). eexists. split; [reflexivity|]. split; [reflexivity|]. split; [exact S|]. split; [exact Q|].
  unfold expected_frames.
  assert (Hfp: is_fast_packet (fst (claim_started (rn r) i)) (gated (rn r) m i) = (if m_pri m >=? 128 then false else is_fast_packet_pgn (n_pgn (rn r)) (m_pgn m))).
  { unfold is_fast_packet, gated. cbn [m_pri m_pgn]. rewrite (ns_pgn _ _ (nsim_claim (rn r) i)). reflexivity. }
  rewrite Hfp. change (m_len (gated (rn r) m i)) with (m_len m). change (m_data (gated (rn r) m i)) with (m_data m).
  destruct ((m_len m <=? 8) && negb _).
  - cbn [map fst snd]. exists (gate_id (rn r) m i). split; [|exact Hid].
    unfold m_len. rewrite firstn_len_all. reflexivity.
  - exists (gate_id (rn r) m i). eexists. rewrite map_map. cbn [fst snd]. split; [|split; [exact Hid|]].
    + apply map_ext_in. intros f Hf.
      destruct (fp_frames_gen (Z.shiftl (snd (get_sequence_counter (fst (claim_started (rn r) i)) i (m_pgn (gated (rn r) m i)))) 5) (m_data m) (shl5_mod32 _) Hlen) as (F8 & _).
      rewrite Forall_forall in F8. specialize (F8 f Hf). change (Z.to_nat 8) with 8%nat. rewrite <- F8, firstn_all. reflexivity.
    + apply fp_frames_gen; [apply shl5_mod32|exact Hlen].
Qed.

(* ================= the four mandatory answers ================= *)
Lemma mandatory_cases p : mandatory_pgn p = true -> p = 60928 \/ p = 126464 \/ p = 126996 \/ p = 126998.
Proof.
  unfold mandatory_pgn. intros H. apply orb_true_iff in H. destruct H as [H|H]; [|right; right; right; apply Z.eqb_eq, H].
  apply orb_true_iff in H. destruct H as [H|H]; [|right; right; left; apply Z.eqb_eq, H].
  apply orb_true_iff in H. destruct H as [H|H]; [left|right; left]; apply Z.eqb_eq, H.
Qed.

Lemma fp_always c p : mandatory_pgn p = true -> p <> 60928 -> is_fast_packet_pgn c p = true.
Proof.
  intros H Hn. destruct (mandatory_cases p H) as [->|[->|[->| ->]]]; [contradiction| | |]; reflexivity.
Qed.

Lemma get_devx_with_rn r n i : get_devx (with_rn r n) i = get_devx r i.
Proof. reflexivity. Qed.

Lemma get_devx_set r i x : 0 <= i < Z.of_nat (length (rx_dev r)) -> get_devx (with_devx r i x) i = x.
Proof. intros H. unfold get_devx, with_devx. cbn [rx_dev]. apply QueueProofs.znth_zset_eq. exact H. Qed.

(* common prefix of RespondISORequest: the device index check and the address-claim test *)
Lemma respond_prefix r i : 0 <= i < dev_count (rn r) -> snd (claim_started (rn r) i) = false ->
  let n1 := fst (claim_started (rn r) i) in
  chk_dev r i = r /\ claim_started (rn r) i = (n1, false) /\ nsim (rn r) n1 /\ n_q n1 = n_q (rn r) /\ n_drv n1 = n_drv (rn r).
Proof.
  intros Hi Hc n1. split; [apply chk_dev_ok, Hi|]. split; [|split; [apply nsim_claim|apply claim_started_q]].
  subst n1. destruct (claim_started (rn r) i) as [a b]. cbn [fst snd] in *. subst b. reflexivity.
Qed.

Lemma respond_mandatory r requester a p i :
  0 <= requester < 256 -> mandatory_pgn p = true ->
  on_bus (rn r) i -> driver_accepts (rn r) -> protocol_pgns_single (n_pgn (rn r)) -> info_fits (r_cfg r) -> rnode_wf r ->
  config_info_present (r_cfg r) p ->
  positive_answer r requester p i (respond_iso_request r requester a p i).
Proof.
  intros Hreq Hman Hbus Hdrv (_ & Hsingle) (Hfit1 & Hfit2) Hrwf Hconf.
  pose proof Hbus as (Ho & Hm & Hi & Hs & Hc).
  destruct (respond_prefix r i Hi Hc) as (P1 & P2 & S1 & Q1 & Q2). cbv zeta in *.
  set (n1 := fst (claim_started (rn r) i)) in *.
  set (r1 := with_rn r n1).
  assert (Hbus1: on_bus (rn r1) i) by (apply (on_bus_nsim _ _ _ S1), Hbus).
  assert (Hdrv1: driver_accepts (rn r1)) by (destruct Hdrv as [A B]; split; cbn [r1 with_rn rn]; [rewrite Q2|rewrite Q1]; assumption).
  assert (Hpend: pending_flush n1 = pending_flush (rn r)) by (unfold pending_flush; rewrite Q1; reflexivity).
  assert (Hsrc1: d_src (get_dev n1 i) = d_src (get_dev (rn r) i)) by apply (ns_src _ _ S1).
  unfold positive_answer, respond_iso_request. rewrite P1, P2. fold r1.
  destruct (mandatory_cases p Hman) as [->|[->|[->| ->]]].
  - (* 60928 *)
    cbn [Z.eqb Pos.eqb]. unfold rsend_claim, send_iso_address_claim.
    replace ((255 =? 255) && (i =? -1)) with false by (destruct (Z.eqb_spec i (-1)); [lia|reflexivity]).
    destruct (Z.ltb_spec i 0); [lia|]. destruct (Z.geb_spec i (dev_count (rn r1))); [destruct Hbus1 as (_ & _ & X & _); lia|]. cbn [orb].
    destruct (rsend_answer r1 (claim_msg (get_dev (rn r1) i) 255) i Hbus1 Hdrv1 eq_refl) as (r' & ans & E & Er & S & Q & Hans);
      try (cbn [claim_msg m_pri m_pgn m_dst m_data]; unfold c_N2kPGNIsoAddressClaim;
           first [lia | reflexivity | (unfold le_bytes; rewrite map_length, seq_length; lia)]).
    unfold rsend in E. destruct (send_msg (rn r1) (claim_msg (get_dev (rn r1) i) 255) i) as [[n' ev] ok]. injection E as E1 E2 E3. subst r' ev ok.
    exists ans. split; [change (rn r1) with n1; rewrite Hpend; reflexivity|]. split; [exact Q|]. split; [|split; discriminate].
    unfold answer_frames. split; [|split; [discriminate|split; discriminate]].
    intros _. cbn [claim_msg m_pri m_pgn m_dst m_data m_len] in Hans. unfold c_N2kPGNIsoAddressClaim in Hans.
    replace (Z.of_nat (length (le_bytes 8 (d_name (get_dev (rn r1) i)))) <=? 8) with true in Hans
      by (unfold le_bytes; rewrite map_length, seq_length; reflexivity).
    replace (6 >=? 128) with false in Hans by reflexivity. cbn [r1 with_rn rn] in Hans. rewrite (ns_pgn _ _ S1), Hsingle in Hans.
    cbn [andb negb] in Hans. rewrite le_bytes_ref, Hsrc1, (ns_name _ _ S1) in Hans. exact Hans.
  - (* 126464 *)
    cbn [Z.eqb Pos.eqb].
    set (m1 := pgn_list_msg r1 i requester 0 def_transmit_messages (d_tx (get_dev (rn r1) i))).
    destruct iso_answers_match_reference as (_ & _ & RL & RM & _).
    destruct (RM r1 i requester 0 def_transmit_messages (d_tx (get_dev (rn r1) i))) as (M1 & M2 & M3 & M4). fold m1 in M1, M2, M3, M4.
    destruct (rsend_answer r1 m1 i Hbus1 Hdrv1 eq_refl) as (r2 & ans1 & E1 & Er1 & S2 & Q2' & Hans1);
      try (rewrite ?M1, ?M2, ?M3; first [exact M4 | lia | reflexivity]).
    rewrite E1.
    assert (Hbus2: on_bus (rn r2) i) by (apply (on_bus_nsim _ _ _ S2), Hbus1).
    destruct (quiet_pending _ Q2') as (Hp2 & Hdrv2).
    set (m2 := pgn_list_msg r2 i requester 1 def_receive_messages (x_rx (get_devx r2 i))).
    destruct (RM r2 i requester 1 def_receive_messages (x_rx (get_devx r2 i))) as (N1 & N2 & N3 & N4). fold m2 in N1, N2, N3, N4.
    destruct (rsend_answer r2 m2 i Hbus2 Hdrv2 eq_refl) as (r3 & ans2 & E2 & Er2 & S3 & Q3 & Hans2);
      try (rewrite ?N1, ?N2, ?N3; first [exact N4 | lia | reflexivity]).
    rewrite E2. rewrite Hp2. cbn [app].
    exists (ans1 ++ ans2). split; [change (rn r1) with n1; rewrite Hpend, app_assoc; reflexivity|]. split; [exact Q3|].
    split; [|split; discriminate]. unfold answer_frames.
    split; [discriminate|]. split; [|split; discriminate].
    intros _. exists ans1, ans2. split; [reflexivity|].
    rewrite M1, M2, M3 in Hans1. rewrite N1, N2, N3 in Hans2.
    replace (6 >=? 128) with false in Hans1, Hans2 by reflexivity.
    rewrite (fp_always _ 126464 eq_refl ltac:(lia)), andb_false_r in Hans1.
    rewrite (fp_always _ 126464 eq_refl ltac:(lia)), andb_false_r in Hans2.
    destruct (RL r1 i requester) as [RL1 _]. fold m1 in RL1. rewrite RL1 in Hans1.
    destruct (RL r2 i requester) as [_ RL2]. fold m2 in RL2. rewrite RL2 in Hans2.
    assert (T1: ref_tx_list r1 i = ref_tx_list r i) by (unfold ref_tx_list; cbn [r1 with_rn rn]; rewrite (ns_tx _ _ S1); reflexivity).
    assert (T2: ref_rx_list r2 i = ref_rx_list r i) by (unfold ref_rx_list; rewrite Er1; reflexivity).
    rewrite T1 in Hans1. rewrite T2 in Hans2.
    assert (Hsrc2: d_src (get_dev (rn r2) i) = d_src (get_dev (rn r) i)) by (rewrite (ns_src _ _ S2); exact Hsrc1).
    cbn [r1 with_rn rn] in Hans1. rewrite Hsrc1 in Hans1. rewrite Hsrc2 in Hans2. split; assumption.
  - (* 126996 *)
    cbn [Z.eqb Pos.eqb]. unfold send_product_info.
    rewrite (chk_dev_ok r1 i) by (destruct Hbus1 as (_ & _ & X & _); exact X).
    set (m := {| m_pri := 6; m_pgn := 126996; m_src := dev_src r1 i; m_dst := 255; m_data := c_prodinfo (r_cfg r1); m_tp := false |}).
    destruct (rsend_answer r1 m i Hbus1 Hdrv1 eq_refl) as (r2 & ans & E & Er & S2 & Q & Hans);
      try (cbn [m m_pri m_pgn m_dst m_data]; first [exact Hfit1 | lia | reflexivity | discriminate]).
    rewrite E.
    assert (Hi2: 0 <= i < dev_count (rn r2)) by (rewrite (ns_count _ _ S2); destruct Hbus1 as (_ & _ & X & _); exact X).
    unfold set_pending. rewrite (chk_dev_ok r2 i Hi2).
    assert (Hix: 0 <= i < Z.of_nat (length (rx_dev r2))).
    { rewrite Er. cbn [with_rn rx_dev r1]. rewrite Hrwf. exact Hi. }
    exists ans. split; [change (rn r1) with n1; rewrite Hpend; reflexivity|]. split; [exact Q|].
    split; [|split; [|discriminate]].
    + unfold answer_frames. split; [discriminate|]. split; [discriminate|]. split; [|discriminate]. intros _.
      cbn [m m_pri m_pgn m_dst m_data] in Hans. replace (6 >=? 128) with false in Hans by reflexivity.
      rewrite (fp_always _ 126996 eq_refl ltac:(lia)), andb_false_r in Hans.
      cbn [r1 with_rn rn r_cfg] in Hans. rewrite Hsrc1 in Hans. exact Hans.
    + intros _. rewrite get_devx_set by exact Hix. cbn [x_pend_prod].
      change (w64 (with_devx r2 i _)) with (w64 r2). apply sched_disabled_not_enabled.
  - (* 126998 *)
    cbn [Z.eqb Pos.eqb].
    assert (Hne: c_confinfo (r_cfg r1) <> []) by (cbn [r1 with_rn r_cfg]; apply Hconf; reflexivity).
    destruct (c_confinfo (r_cfg r1)) as [|c0 cl] eqn:EC; [exfalso; apply Hne; reflexivity|]. clear Hne.
    unfold send_config_info.
    rewrite (chk_dev_ok r1 i) by (destruct Hbus1 as (_ & _ & X & _); exact X).
    set (m := {| m_pri := 6; m_pgn := 126998; m_src := dev_src r1 i; m_dst := 255; m_data := c_confinfo (r_cfg r1); m_tp := false |}).
    destruct (rsend_answer r1 m i Hbus1 Hdrv1 eq_refl) as (r2 & ans & E & Er & S2 & Q & Hans);
      try (cbn [m m_pri m_pgn m_dst m_data]; first [exact Hfit2 | lia | reflexivity | discriminate]).
    rewrite E.
    assert (Hi2: 0 <= i < dev_count (rn r2)) by (rewrite (ns_count _ _ S2); destruct Hbus1 as (_ & _ & X & _); exact X).
    unfold set_pending. rewrite (chk_dev_ok r2 i Hi2).
    assert (Hix: 0 <= i < Z.of_nat (length (rx_dev r2))).
    { rewrite Er. cbn [with_rn rx_dev r1]. rewrite Hrwf. exact Hi. }
    exists ans. split; [change (rn r1) with n1; rewrite Hpend; reflexivity|]. split; [exact Q|].
    split; [|split; [discriminate|]].
    + unfold answer_frames. split; [discriminate|]. split; [discriminate|]. split; [discriminate|]. intros _.
      cbn [m m_pri m_pgn m_dst m_data] in Hans. replace (6 >=? 128) with false in Hans by reflexivity.
      rewrite (fp_always _ 126998 eq_refl ltac:(lia)), andb_false_r in Hans.
      cbn [r1 with_rn rn r_cfg] in Hans. rewrite Hsrc1 in Hans. exact Hans.
    + intros _. rewrite get_devx_set by exact Hix. cbn [x_pend_conf].
      change (w64 (with_devx r2 i _)) with (w64 r2). apply sched_disabled_not_enabled.
Qed.
