(* C12 - proofs of the statements of Spec/HbSpec.v, part 1: grid, schedule, interval field, sequence, clipping.
   (statement 6, which needs the frame lemmas over the whole poll, is in Proofs/HbProofsSilent.v) *)
From Coq Require Import ZArith List Bool Lia.
From N2kV Require Import Base.ListAux Model.CanId Model.Sched Model.PgnClass Model.NodeDefs Model.NodeRxDefs Gen.GenTables Gen.GenConsts
  Spec.HbSpec Proofs.SendProofs.
Import ListNotations.
Local Open Scope Z_scope.

(* ================= 1. the grid ================= *)
Lemma u64_small x : 0 <= x < M64 -> u64 x = x.
Proof. intros. unfold u64. apply Z.mod_small. assumption. Qed.

Lemma TB_val : TB = 4611686018427387904.  Proof. reflexivity. Qed.
Lemma M64_val : M64 = 18446744073709551616.  Proof. reflexivity. Qed.

Lemma grid_core now base period :
  0 < period -> base <= now ->
  let q := (now - base) / period + 1 in
  now < base + q * period /\ base + q * period <= now + period /\ 0 < q /\
  (forall k, now < base + k * period -> q <= k).
Proof.
  intros Hp Hb q.
  pose proof (Z.div_mod (now - base) period ltac:(lia)) as E.
  pose proof (Z.mod_pos_bound (now - base) period Hp) as B.
  assert (0 <= (now - base) / period) by (apply Z.div_pos; lia).
  subst q. set (d := (now - base) / period) in *.
  split; [nia|]. split; [nia|]. split; [lia|].
  intros k Hk. assert (d * period < k * period) by nia. assert (d < k) by nia. lia.
Qed.

Theorem hb_grid : hb_grid_stmt.
Proof.
  unfold hb_grid_stmt. intros now sync off period nx Hn Hs Ho. cbv zeta.
  rewrite TB_val in *.
  split; [unfold ss_update_next; cbn [ss_period ss_offset]; destruct (period =? 0); reflexivity|].
  split.
  - intros Hp. unfold ss_update_next. cbn [ss_period ss_offset].
    destruct (Z.eqb_spec period 0) as [->|_]; [lia|]. cbn [ss_period ss_next].
    rewrite (u64_small (off + sync)) by (rewrite M64_val; lia).
    destruct (Z.gtb_spec (off + sync) now) as [Hb|Hb].
    + split; [reflexivity|]. split; [lia|]. split; [exists 0; lia|].
      split; [intros g [k [Hk ->]] _; nia|]. split; [lia|]. split; [rewrite Z.sub_diag; apply Z.mod_0_l; lia|].
      split; [lia|]. split; [reflexivity|lia].
    + destruct (grid_core now (off + sync) period ltac:(lia) Hb) as (G1 & G2 & G3 & G4).
      set (q := (now - (off + sync)) / period + 1) in *.
      assert (Hq: 0 <= q * period < 9223372036854775808) by nia.
      rewrite (u64_small (q * period)) by (rewrite M64_val; lia).
      rewrite (u64_small (sync + off + q * period)) by (rewrite M64_val; lia).
      split; [reflexivity|]. split; [lia|]. split; [exists q; lia|].
      split; [intros g [k [Hk ->]] Hg; specialize (G4 k ltac:(lia)); nia|].
      split; [lia|].
      split; [replace (sync + off + q * period - (off + sync)) with (q * period) by lia; apply Z.mod_mul; lia|].
      split; [nia|]. split; [lia|lia].
  - intros ->. unfold ss_update_next. cbn. repeat split. intros t Ht. unfold ss_is_time. cbn. apply Z.ltb_ge. exact Ht.
Qed.
Print Assumptions hb_grid.

(* ================= 3. the interval field ================= *)
Theorem hb_interval_field : hb_interval_field_stmt.
Proof.
  unfold hb_interval_field_stmt. intros src p sq. cbv zeta.
  unfold heartbeat_msg, c_MaxHeartbeatInterval. cbn [m_pri m_pgn m_dst m_src m_tp m_data].
  repeat (split; [reflexivity|]).
  split; [|split].
  - intros Hp. unfold hb_expected, hb_payload, hb_field. f_equal.
    destruct (Z.gtb_spec p 655320) as [H|H]; [reflexivity|].
    unfold le_bytes. cbn [seq map Z.of_nat app]. change (256 ^ 0) with 1. change (256 ^ Z.pos (Pos.of_succ_nat 0)) with 256.
    assert (0 <= p / 10 < 65536) by (split; [apply Z.div_pos; lia|apply Z.div_lt_upper_bound; lia]).
    rewrite (Z.mod_small (p / 10) 65536) by assumption. rewrite Z.div_1_r.
    rewrite (Z.mod_small (p / 10 / 256) 256) by (split; [apply Z.div_pos; lia|apply Z.div_lt_upper_bound; lia]).
    reflexivity.
  - intros Hp. destruct (Z.gtb_spec p 655320) as [H|H]; [lia|].
    assert (B: 0 <= p / 10 < 65536) by (split; [apply Z.div_pos; lia|apply Z.div_lt_upper_bound; lia]).
    exists ((p / 10) mod 256), ((p / 10) / 256).
    unfold le_bytes. cbn [seq map Z.of_nat app]. change (256 ^ 0) with 1. change (256 ^ Z.pos (Pos.of_succ_nat 0)) with 256.
    rewrite (Z.mod_small (p / 10) 65536) by assumption. rewrite Z.div_1_r.
    rewrite (Z.mod_small (p / 10 / 256) 256) by (split; [apply Z.div_pos; lia|apply Z.div_lt_upper_bound; lia]).
    split; [reflexivity|]. split; [apply Z.mod_pos_bound; lia|].
    split; [split; [apply Z.div_pos; lia|apply Z.div_lt_upper_bound; lia]|].
    pose proof (Z.div_mod (p / 10) 256 ltac:(lia)). lia.
  - intros Hp. destruct (Z.gtb_spec p 655320) as [H|H]; [reflexivity|lia].
Qed.
Print Assumptions hb_interval_field.

(* ================= small facts about the record helpers ================= *)
Lemma get_devx_with_devx r i x : 0 <= i < Z.of_nat (length (rx_dev r)) -> get_devx (with_devx r i x) i = x.
Proof. intros H. unfold get_devx, with_devx. cbn [rx_dev]. apply znth_zset_eq. exact H. Qed.

Lemma nth_set_nth_neq {A} (l:list A) : forall i j v d, i <> j -> nth j (set_nth l i v) d = nth j l d.
Proof.
  induction l as [|a l IH]; intros [|i] [|j] v d H; cbn; try reflexivity; try congruence.
  apply IH. congruence.
Qed.
Lemma get_devx_with_devx_neq r i j x : 0 <= i -> 0 <= j -> i <> j -> get_devx (with_devx r i x) j = get_devx r j.
Proof.
  intros Hi Hj H. unfold get_devx, with_devx, znth, zset. cbn [rx_dev]. apply nth_set_nth_neq. lia.
Qed.
Lemma with_devx_length r i x : length (rx_dev (with_devx r i x)) = length (rx_dev r).
Proof. unfold with_devx. cbn [rx_dev]. apply zset_length. Qed.

Lemma rsend_rx_dev r m i : rx_dev (fst (fst (rsend r m i))) = rx_dev r.
Proof. unfold rsend. destruct (send_msg (rn r) m i) as [[n' ev] ok]. reflexivity. Qed.
Lemma rsend_get_devx r m i j : get_devx (fst (fst (rsend r m i))) j = get_devx r j.
Proof. unfold get_devx. rewrite rsend_rx_dev. reflexivity. Qed.

Lemma millis64_rx_dev r : rx_dev (fst (millis64 r)) = rx_dev r.
Proof. unfold millis64. destruct (w64 r); reflexivity. Qed.
Lemma millis64_rn r : rn (fst (millis64 r)) = rn r.
Proof. unfold millis64. destruct (w64 r); reflexivity. Qed.
Lemma millis64_sync r : r_sync (fst (millis64 r)) = r_sync r.
Proof. unfold millis64. destruct (w64 r); reflexivity. Qed.
(* reading the clock twice without a clock change gives the same value *)
Lemma millis64_idem r : millis64 (fst (millis64 r)) = (fst (millis64 r), snd (millis64 r)).
Proof.
  unfold millis64. destruct (w64 r) eqn:W; cbn [fst snd]; [rewrite W; reflexivity|].
  unfold w64, now32, now in *. cbn [rn with_clk r_clk fst snd]. rewrite W.
  assert (G: forall x, (x >? x) = false) by (intros; rewrite Z.gtb_ltb; apply Z.ltb_irrefl).
  rewrite G. unfold with_clk. cbn. reflexivity.
Qed.

Lemma chk_dev_rx_dev r i : rx_dev (chk_dev r i) = rx_dev r.
Proof. unfold chk_dev. destruct (_ && _); reflexivity. Qed.
Lemma chk_dev_rn r i : rn (chk_dev r i) = rn r.
Proof. unfold chk_dev. destruct (_ && _); reflexivity. Qed.
Lemma chk_dev_sync r i : r_sync (chk_dev r i) = r_sync r.
Proof. unfold chk_dev. destruct (_ && _); reflexivity. Qed.
Lemma chk_dev_get_devx r i j : get_devx (chk_dev r i) j = get_devx r j.
Proof. unfold get_devx. rewrite chk_dev_rx_dev. reflexivity. Qed.

Lemma next_seq_mod v : 0 <= v <= 252 -> (if v + 1 >? 252 then 0 else v + 1) = (v + 1) mod 253.
Proof.
  intros H. destruct (Z.gtb_spec (v + 1) 252).
  - assert (v = 252) by lia. subst. reflexivity.
  - symmetry. apply Z.mod_small. lia.
Qed.

(* ================= 2. one call of the loop body ================= *)
Lemma hb_pre_rx_dev r i : rx_dev (hb_pre r i) = rx_dev r.
Proof. unfold hb_pre. rewrite millis64_rx_dev. cbn [with_rn rx_dev]. apply chk_dev_rx_dev. Qed.
Lemma hb_pre_sync r i : r_sync (hb_pre r i) = r_sync r.
Proof. unfold hb_pre. rewrite millis64_sync. cbn [with_rn r_sync]. apply chk_dev_sync. Qed.

(* the function written with the Spec's vocabulary *)
Lemma send_heartbeat_dev_unfold r i :
  send_heartbeat_dev r i =
  if snd (claim_started (rn r) i) then (with_rn (chk_dev r i) (fst (claim_started (rn r) i)), [])
  else
    let x := get_devx r i in
    if ss_next (x_hb x) <? hb_now r i then
      let hb' := ss_update_next (hb_now r i) (r_sync r) (x_hb x) in
      let r1 := with_devx (hb_pre r i) i (devx_with_hb x hb' (x_hb_seq x)) in
      let '(r2, ev, _) := rsend r1 (heartbeat_msg (dev_src r1 i) (ss_period hb') (x_hb_seq x)) i in
      let x2 := get_devx r2 i in
      (with_devx r2 i (devx_with_hb x2 (x_hb x2) (if x_hb_seq x2 + 1 >? 252 then 0 else x_hb_seq x2 + 1)), ev)
    else (hb_pre r i, []).
Proof.
  unfold send_heartbeat_dev, hb_now, hb_pre. rewrite chk_dev_rn.
  destruct (claim_started (rn r) i) as [n1 started]. cbn [fst snd].
  destruct started; [reflexivity|].
  set (r0 := with_rn (chk_dev r i) n1).
  pose proof (millis64_idem r0) as Hid.
  assert (Hx: get_devx (fst (millis64 r0)) i = get_devx r i).
  { unfold get_devx. rewrite millis64_rx_dev. unfold r0. cbn [with_rn rx_dev]. rewrite chk_dev_rx_dev. reflexivity. }
  assert (Hs: r_sync (fst (millis64 r0)) = r_sync r).
  { rewrite millis64_sync. unfold r0. cbn [with_rn r_sync]. apply chk_dev_sync. }
  destruct (millis64 r0) as [ra t1] eqn:E1. cbn [fst snd] in *.
  rewrite Hx. unfold ss_is_time.
  destruct (ss_next (x_hb (get_devx r i)) <? t1); [|reflexivity].
  rewrite Hid. cbv zeta. rewrite Hs. reflexivity.
Qed.

Theorem hb_schedule : hb_schedule_stmt.
Proof.
  unfold hb_schedule_stmt. intros r i Hi. cbv zeta. split.
  - intros Hdue. rewrite send_heartbeat_dev_unfold. unfold hb_due in Hdue.
    destruct (snd (claim_started (rn r) i)) eqn:Hc; cbn [negb andb] in Hdue.
    + cbn [fst]. split; [reflexivity|]. cbn [with_rn rx_dev]. apply chk_dev_rx_dev.
    + cbv zeta. rewrite Hdue. cbn [fst]. split; [reflexivity|apply hb_pre_rx_dev].
  - intros Hdue Hp Ho Hs Ht Hq. unfold hb_due in Hdue.
    destruct (snd (claim_started (rn r) i)) eqn:Hc; cbn [negb andb] in Hdue; [discriminate|].
    pose proof (hb_grid (hb_now r i) (r_sync r) (ss_offset (x_hb (get_devx r i))) (ss_period (x_hb (get_devx r i)))
                        (ss_next (x_hb (get_devx r i))) Ht Hs Ho) as G. cbv zeta in G.
    destruct G as (G0 & G1 & _). specialize (G1 Hp). destruct G1 as (Gp & Glt & Ggrid & Gleast & _).
    assert (Hsame: {| ss_next := ss_next (x_hb (get_devx r i)); ss_offset := ss_offset (x_hb (get_devx r i)); ss_period := ss_period (x_hb (get_devx r i)) |}
                   = x_hb (get_devx r i)) by (destruct (x_hb (get_devx r i)); reflexivity).
    rewrite Hsame in *.
    set (hb' := ss_update_next (hb_now r i) (r_sync r) (x_hb (get_devx r i))) in *.
    exists (ss_next hb'). split; [exact Glt|]. split; [exact Ggrid|]. split; [exact Gleast|].
    assert (Hhb: hb_at (x_hb (get_devx r i)) (ss_next hb') = hb').
    { unfold hb_at. rewrite <- G0, <- Gp. destruct hb'; reflexivity. }
    rewrite Hhb.
    rewrite send_heartbeat_dev_unfold. rewrite Hc. cbv zeta. rewrite Hdue. fold hb'.
    set (r1 := with_devx (hb_pre r i) i (devx_with_hb (get_devx r i) hb' (x_hb_seq (get_devx r i)))).
    assert (Hmsg: heartbeat_msg (dev_src r1 i) (ss_period hb') (x_hb_seq (get_devx r i))
                  = hb_expected (d_src (get_dev (rn r1) i)) (ss_period (x_hb (get_devx r i))) (x_hb_seq (get_devx r i))).
    { rewrite Gp. unfold dev_src.
      pose proof (hb_interval_field (d_src (get_dev (rn r1) i)) (ss_period (x_hb (get_devx r i))) (x_hb_seq (get_devx r i))) as F.
      cbv zeta in F. destruct F as (_ & _ & _ & _ & _ & F & _). apply F. lia. }
    rewrite Hmsg.
    pose proof (rsend_get_devx r1 (hb_expected (d_src (get_dev (rn r1) i)) (ss_period (x_hb (get_devx r i))) (x_hb_seq (get_devx r i))) i i) as Hg.
    destruct (rsend r1 _ i) as [[r2 ev] ok]. cbn [fst] in Hg.
    assert (Hg1: get_devx r1 i = devx_with_hb (get_devx r i) hb' (x_hb_seq (get_devx r i))).
    { unfold r1. apply get_devx_with_devx. rewrite hb_pre_rx_dev. exact Hi. }
    rewrite Hg, Hg1.
    cbn [devx_with_hb x_hb x_hb_seq]. rewrite next_seq_mod by exact Hq.
    unfold devx_with_hb. cbn. reflexivity.
Qed.
Print Assumptions hb_schedule.

(* ================= 4. the sequence counter ================= *)
Lemma send_heartbeat_dev_seq r i : 0 <= i < Z.of_nat (length (rx_dev r)) -> 0 <= x_hb_seq (get_devx r i) <= 252 ->
  length (rx_dev (fst (send_heartbeat_dev r i))) = length (rx_dev r) /\
  x_hb_seq (get_devx (fst (send_heartbeat_dev r i)) i) = (if hb_due r i then (x_hb_seq (get_devx r i) + 1) mod 253 else x_hb_seq (get_devx r i)).
Proof.
  intros Hi Hq. rewrite send_heartbeat_dev_unfold. unfold hb_due.
  destruct (snd (claim_started (rn r) i)); cbn [negb andb fst].
  - cbn [with_rn rx_dev]. unfold get_devx. cbn [with_rn rx_dev]. rewrite chk_dev_rx_dev. split; reflexivity.
  - cbv zeta. destruct (ss_next (x_hb (get_devx r i)) <? hb_now r i).
    + set (hb' := ss_update_next _ _ _).
      set (r1 := with_devx (hb_pre r i) i (devx_with_hb (get_devx r i) hb' (x_hb_seq (get_devx r i)))).
      set (m := heartbeat_msg _ _ _).
      pose proof (rsend_get_devx r1 m i i) as Hg. pose proof (rsend_rx_dev r1 m i) as Hl.
      destruct (rsend r1 m i) as [[r2 ev] ok]. cbn [fst] in *.
      assert (Hlen: length (rx_dev r2) = length (rx_dev r)).
      { rewrite Hl. unfold r1. rewrite with_devx_length. rewrite hb_pre_rx_dev. reflexivity. }
      split; [rewrite with_devx_length; exact Hlen|].
      rewrite get_devx_with_devx by (rewrite Hlen; exact Hi).
      cbn [devx_with_hb x_hb_seq]. rewrite Hg. unfold r1. rewrite get_devx_with_devx by (rewrite hb_pre_rx_dev; exact Hi).
      cbn [devx_with_hb x_hb_seq]. apply next_seq_mod. exact Hq.
    + cbn [fst]. rewrite hb_pre_rx_dev. split; [reflexivity|]. unfold get_devx. rewrite hb_pre_rx_dev. reflexivity.
Qed.

Lemma mod253_step v k : ((v + Z.of_nat k) mod 253 + 1) mod 253 = (v + Z.of_nat (S k)) mod 253.
Proof. rewrite Nat2Z.inj_succ. rewrite Zplus_mod_idemp_l. f_equal. lia. Qed.

Theorem hb_sequence : hb_sequence_stmt.
Proof.
  unfold hb_sequence_stmt. intros i between. induction between as [|f rest IH]; intros r HF Hi; cbv zeta; intros Hv.
  - cbn [hb_calls length map seq]. rewrite Z.add_0_r. rewrite Z.mod_small by lia. repeat split; try lia. constructor.
  - cbn [hb_calls]. inversion HF as [|? ? Hf HF']; subst.
    destruct (Hf r) as [Hfl Hfs].
    assert (Hi1: 0 <= i < Z.of_nat (length (rx_dev (f r)))) by (rewrite Hfl; exact Hi).
    assert (Hv1: 0 <= x_hb_seq (get_devx (f r) i) <= 252) by (rewrite Hfs; exact Hv).
    destruct (send_heartbeat_dev_seq (f r) i Hi1 Hv1) as [Sl Ss].
    set (ra := fst (send_heartbeat_dev (f r) i)) in *.
    assert (Hia: 0 <= i < Z.of_nat (length (rx_dev ra))) by (rewrite Sl; exact Hi1).
    set (v0 := x_hb_seq (get_devx r i)) in *.
    destruct (hb_due (f r) i) eqn:Hdue.
    + assert (Hva: 0 <= x_hb_seq (get_devx ra i) <= 252).
      { rewrite Ss. pose proof (Z.mod_pos_bound (x_hb_seq (get_devx (f r) i) + 1) 253 ltac:(lia)). lia. }
      specialize (IH ra HF' Hia). cbv zeta in IH. specialize (IH Hva).
      destruct (hb_calls i rest ra) as [r' l]. destruct IH as (I1 & I2 & I3 & I4).
      rewrite Ss, Hfs in I1, I2. fold v0 in I1, I2.
      cbn [app length]. split; [|split; [|split]].
      * cbn [seq map]. rewrite Z.add_0_r, Z.mod_small by lia. rewrite Hfs. f_equal.
        rewrite I1 at 1. rewrite <- seq_shift, map_map. apply map_ext. intros k.
        rewrite Zplus_mod_idemp_l. f_equal. lia.
      * rewrite I2. rewrite Zplus_mod_idemp_l. f_equal. lia.
      * exact I3.
      * constructor; [rewrite Hfs; exact Hv|exact I4].
    + assert (Hva: 0 <= x_hb_seq (get_devx ra i) <= 252) by (rewrite Ss; exact Hv1).
      specialize (IH ra HF' Hia). cbv zeta in IH. specialize (IH Hva).
      destruct (hb_calls i rest ra) as [r' l]. rewrite Ss, Hfs in IH. fold v0 in IH. cbn [app]. exact IH.
Qed.
Print Assumptions hb_sequence.

(* ================= 5. SetHeartbeatIntervalAndOffset ================= *)
Lemma millis64_snd_ext r r' : rn r = rn r' -> r_clk r = r_clk r' -> snd (millis64 r) = snd (millis64 r').
Proof. intros H1 H2. unfold millis64, w64, now32, now. rewrite H1, H2. destruct (n_w64 (rn r')); reflexivity. Qed.

(* the treatment of one device *)
Definition hb_set_one (r:rnode) (i iv off:Z) : rnode :=
  let x := get_devx r i in
  let interval1 := if iv =? 4294967295 then ss_period (x_hb x) else if iv =? 4294967294 then c_DefaultHeartbeatInterval else iv in
  let offset1 := if off =? 4294967295 then ss_offset (x_hb x) else off in
  if interval1 =? 0 then
    with_devx r i {| x_pend_claim := x_pend_claim x; x_pend_prod := x_pend_prod x; x_pend_conf := x_pend_conf x;
                     x_hb := {| ss_next := ss_disabled; ss_offset := ss_offset (x_hb x); ss_period := ss_period (x_hb x) |};
                     x_hb_seq := x_hb_seq x; x_rx := x_rx x |}
  else
    let interval2 := Z.max 1000 (Z.min interval1 c_MaxHeartbeatInterval) in
    let changed := negb (ss_period (x_hb x) =? interval2) || negb (ss_offset (x_hb x) =? offset1) in
    if changed || (ss_next (x_hb x) =? ss_disabled) then
      let '(rc, t) := millis64 r in
      let rc' := with_devx rc i {| x_pend_claim := x_pend_claim x; x_pend_prod := x_pend_prod x; x_pend_conf := x_pend_conf x;
                                    x_hb := ss_update_next t (r_sync rc) {| ss_next := ss_next (x_hb x); ss_offset := offset1; ss_period := interval2 |};
                                    x_hb_seq := x_hb_seq x; x_rx := x_rx x |} in
      if changed then with_devinfo_changed rc' else rc'
    else r.
Lemma set_heartbeat_all_S k r i iv off : set_heartbeat_all (S k) r i iv off = set_heartbeat_all k (hb_set_one r i iv off) (i + 1) iv off.
Proof.
  cbn [set_heartbeat_all]. unfold hb_set_one. cbv zeta.
  destruct (_ =? 0); [reflexivity|]. destruct (_ || _ || _); [|reflexivity]. destruct (millis64 r). reflexivity.
Qed.

Lemma resolve_model iv cur :
  let interval1 := if iv =? 4294967295 then cur else if iv =? 4294967294 then c_DefaultHeartbeatInterval else iv in
  hb_resolve_period iv cur = if interval1 =? 0 then None else Some (Z.max 1000 (Z.min interval1 c_MaxHeartbeatInterval)).
Proof.
  cbv zeta. unfold hb_resolve_period, c_DefaultHeartbeatInterval, c_MaxHeartbeatInterval.
  destruct (_ =? 0); [reflexivity|]. f_equal. lia.
Qed.

Record one_ok (r r1:rnode) (i iv off:Z) : Prop := {
  o_rn : rn r1 = rn r; o_len : length (rx_dev r1) = length (rx_dev r); o_sync : r_sync r1 = r_sync r; o_slots : r_slots r1 = r_slots r;
  o_q : r_q r1 = r_q r; o_t : snd (millis64 r1) = snd (millis64 r);
  o_other : forall j, 0 <= j -> j <> i -> get_devx r1 j = get_devx r j;
  o_flag : r_devinfo_changed r1 = r_devinfo_changed r || hb_changed iv off (get_devx r i);
  o_this : i < Z.of_nat (length (rx_dev r)) ->
     let x := get_devx r i in let x' := get_devx r1 i in
     x_hb_seq x' = x_hb_seq x /\ x_pend_claim x' = x_pend_claim x /\ x_pend_prod x' = x_pend_prod x /\ x_pend_conf x' = x_pend_conf x /\ x_rx x' = x_rx x /\
     match hb_resolve_period iv (ss_period (x_hb x)) with
     | None => x_hb x' = hb_at (x_hb x) ss_disabled
     | Some p => 1000 <= p <= 655320 /\
       if hb_changed iv off x || (ss_next (x_hb x) =? ss_disabled)
       then x_hb x' = ss_update_next (snd (millis64 r)) (r_sync r) {| ss_next := ss_next (x_hb x); ss_offset := hb_resolve_offset off (ss_offset (x_hb x)); ss_period := p |}
       else x_hb x' = x_hb x
     end }.

Lemma hb_set_one_ok r i iv off : 0 <= i -> one_ok r (hb_set_one r i iv off) i iv off.
Proof.
  intros Hi.
  pose proof (resolve_model iv (ss_period (x_hb (get_devx r i)))) as RM. cbv zeta in RM.
  assert (HC: hb_changed iv off (get_devx r i) =
              match hb_resolve_period iv (ss_period (x_hb (get_devx r i))) with
              | None => false
              | Some p => negb (ss_period (x_hb (get_devx r i)) =? p) || negb (ss_offset (x_hb (get_devx r i)) =? hb_resolve_offset off (ss_offset (x_hb (get_devx r i))))
              end) by reflexivity.
  unfold hb_set_one. cbv zeta.
  fold (hb_resolve_offset off (ss_offset (x_hb (get_devx r i)))).
  set (interval1 := if iv =? 4294967295 then ss_period (x_hb (get_devx r i)) else if iv =? 4294967294 then c_DefaultHeartbeatInterval else iv) in *.
  destruct (interval1 =? 0).
  - rewrite RM in HC.
    constructor; [reflexivity|apply with_devx_length|reflexivity|reflexivity|reflexivity|apply millis64_snd_ext; reflexivity| | |].
    + intros j Hj Hne. apply get_devx_with_devx_neq; lia.
    + rewrite HC, orb_false_r. reflexivity.
    + intros Hr. cbv zeta. rewrite get_devx_with_devx by lia. rewrite RM. cbn. repeat split.
  - set (p := Z.max 1000 (Z.min interval1 c_MaxHeartbeatInterval)) in *.
    assert (Hpr: 1000 <= p <= 655320) by (unfold p, c_MaxHeartbeatInterval; lia).
    rewrite RM in HC. rewrite <- HC.
    destruct (hb_changed iv off (get_devx r i) || (ss_next (x_hb (get_devx r i)) =? ss_disabled)) eqn:Hch.
    + pose proof (millis64_rn r) as M1. pose proof (millis64_rx_dev r) as M2. pose proof (millis64_sync r) as M3.
      pose proof (millis64_idem r) as M4.
      assert (M5: r_slots (fst (millis64 r)) = r_slots r) by (unfold millis64; destruct (w64 r); reflexivity).
      assert (M6: r_q (fst (millis64 r)) = r_q r) by (unfold millis64; destruct (w64 r); reflexivity).
      assert (M7: r_devinfo_changed (fst (millis64 r)) = r_devinfo_changed r) by (unfold millis64; destruct (w64 r); reflexivity).
      destruct (millis64 r) as [rc t] eqn:EM. cbn [fst snd] in *.
      match goal with |- one_ok r (if _ then with_devinfo_changed (with_devx rc i ?X) else _) _ _ _ => set (xa := X); set (rc' := with_devx rc i xa) end.
      assert (G: (i < Z.of_nat (length (rx_dev r)) -> get_devx rc' i = xa) /\ forall j, 0 <= j -> j <> i -> get_devx rc' j = get_devx r j).
      { split; [intros; unfold rc', get_devx at 1; cbn [with_devx rx_dev]; apply znth_zset_eq; rewrite M2; lia
               |intros j Hj Hne; unfold rc', get_devx; cbn [with_devx rx_dev]; unfold znth, zset; rewrite nth_set_nth_neq by lia; rewrite M2; reflexivity]. }
      assert (X: forall ra, rn ra = rn rc' -> rx_dev ra = rx_dev rc' -> r_sync ra = r_sync rc' -> r_slots ra = r_slots rc' -> r_q ra = r_q rc' -> r_clk ra = r_clk rc' ->
                 r_devinfo_changed ra = r_devinfo_changed r || hb_changed iv off (get_devx r i) -> one_ok r ra i iv off).
      { intros ra A1 A2 A3 A4 A5 A6 A7.
        assert (Gd: forall j, get_devx ra j = get_devx rc' j) by (intros; unfold get_devx; rewrite A2; reflexivity).
        constructor; rewrite ?EM; cbn [snd].
        - rewrite A1. exact M1.
        - rewrite A2. unfold rc'. cbn [with_devx rx_dev]. rewrite zset_length, M2. reflexivity.
        - rewrite A3. exact M3.
        - rewrite A4. exact M5.
        - rewrite A5. exact M6.
        - transitivity (snd (millis64 rc)); [apply millis64_snd_ext; [rewrite A1; reflexivity|rewrite A6; reflexivity]|]. rewrite M4. reflexivity.
        - intros j Hj Hne. rewrite Gd. apply G; assumption.
        - exact A7.
        - intros Hr. cbv zeta. rewrite RM, Hch, Gd. destruct G as [G1 _]. rewrite (G1 Hr).
          repeat (split; [reflexivity|]). split; [exact Hpr|]. unfold xa. cbn [x_hb]. rewrite M3. reflexivity. }
      destruct (hb_changed iv off (get_devx r i)) eqn:Hc1.
      * apply X; try reflexivity. cbn [with_devinfo_changed r_devinfo_changed]. rewrite orb_true_r. reflexivity.
      * apply X; try reflexivity. unfold rc'. cbn [with_devx r_devinfo_changed]. rewrite M7, orb_false_r. reflexivity.
    + apply orb_false_iff in Hch. destruct Hch as [Hc1 Hc2].
      constructor; [reflexivity|reflexivity|reflexivity|reflexivity|reflexivity|reflexivity|intros; reflexivity| |].
      * rewrite Hc1, orb_false_r. reflexivity.
      * intros Hr. cbv zeta. rewrite RM, Hc1, Hc2. repeat (split; [reflexivity|]). split; [exact Hpr|reflexivity].
Qed.

Theorem hb_clip : hb_clip_stmt.
Proof.
  unfold hb_clip_stmt. induction k as [|k IH]; intros r i iv off Hi; cbv zeta.
  - cbn [set_heartbeat_all seq map existsb]. rewrite orb_false_r. repeat (split; [reflexivity|]).
    split; [|reflexivity]. intros j Hj. cbv zeta. split; [reflexivity|]. cbn. lia.
  - rewrite set_heartbeat_all_S.
    destruct (hb_set_one_ok r i iv off Hi) as [O1 O2 O3 O4 O5 O6 O7 O8 O9].
    set (r1 := hb_set_one r i iv off) in *.
    specialize (IH r1 (i + 1) iv off ltac:(lia)). cbv zeta in IH.
    destruct IH as (I1 & I2 & I3 & I4 & I5 & I5b & I6 & I7).
    split; [congruence|]. split; [congruence|]. split; [congruence|]. split; [congruence|]. split; [congruence|]. split; [congruence|].
    split.
    + intros j Hj. cbv zeta. specialize (I6 j ltac:(rewrite O2; exact Hj)). cbv zeta in I6. destruct I6 as [I6a I6b].
      split.
      * intros Hout. rewrite I6a by lia. apply O7; lia.
      * intros Hin. destruct (Z.eq_dec j i) as [->|Hne].
        -- rewrite I6a by lia. apply O9. lia.
        -- rewrite O6, O3, (O7 j ltac:(lia) Hne) in I6b. apply I6b. lia.
    + rewrite I7, O8. rewrite <- orb_assoc. f_equal.
      cbn [seq map existsb]. rewrite Z.add_0_r. f_equal.
      rewrite <- seq_shift, map_map.
      assert (E: forall l, existsb (fun j => hb_changed iv off (get_devx r1 j)) (map (fun n => i + 1 + Z.of_nat n) l)
                       = existsb (fun j => hb_changed iv off (get_devx r j)) (map (fun x => i + Z.of_nat (S x)) l)).
      { induction l as [|a l IHl]; [reflexivity|]. cbn [map existsb]. rewrite IHl. f_equal.
        rewrite O7 by lia. f_equal. f_equal. lia. }
      apply E.
Qed.
Print Assumptions hb_clip.

(* 5b. re-enabling restarts the schedule *)
Theorem hb_reenable : hb_reenable_stmt.
Proof.
  unfold hb_reenable_stmt. intros r i iv off Hi Hs Ht Hoff Hco Hres. cbv zeta.
  destruct (hb_clip 1%nat r i iv off ltac:(lia)) as (_ & _ & _ & _ & _ & _ & C & _). cbv zeta in C.
  destruct (C i Hi) as [_ C2]. specialize (C2 ltac:(lia)). destruct C2 as (_ & _ & _ & _ & _ & C3).
  set (x := get_devx r i) in *. set (x' := get_devx (set_heartbeat_all 1 r i iv off) i) in *.
  destruct (hb_resolve_period iv (ss_period (x_hb x))) as [p|] eqn:ER; [|congruence].
  destruct C3 as [Hp C3].
  assert (Ho': 0 <= hb_resolve_offset off (ss_offset (x_hb x)) < TB).
  { unfold hb_resolve_offset. rewrite TB_val. change (2^32) with 4294967296 in *. destruct (off =? 4294967295); lia. }
  pose proof (hb_grid (snd (millis64 r)) (r_sync r) (hb_resolve_offset off (ss_offset (x_hb x))) p (ss_next (x_hb x)) Ht Hs Ho') as G.
  cbv zeta in G. destruct G as (G0 & G1 & _). specialize (G1 ltac:(rewrite TB_val; lia)).
  destruct G1 as (Gp & Glt & Ggrid & Gleast & _ & _ & _ & _ & Gub).
  assert (Dis: ss_disabled = 18446744073709551615) by reflexivity.
  split.
  - intros Hen. destruct (hb_changed iv off x || (ss_next (x_hb x) =? ss_disabled)).
    + rewrite C3. intros E. rewrite E, Dis, TB_val in Gub. lia.
    + rewrite C3. exact Hen.
  - intros Hd. rewrite Hd, Z.eqb_refl, orb_true_r in C3. rewrite Hd in *.
    rewrite C3. rewrite Gp, G0. split; [intros E; rewrite E, Dis, TB_val in Gub; lia|]. split; [exact Glt|]. split; [exact Ggrid|].
    split; [exact Gleast|]. split; reflexivity.
Qed.
Print Assumptions hb_reenable.
