(* C10 - ISO transport protocol: consistency of the reference, concrete nodes for the Examples, library to library by evaluation for every length. *)
From Coq Require Import ZArith List Bool Lia.
From N2kV Require Import Base.ListAux Model.CanId Model.Sched Model.PgnClass Model.NodeDefs Model.NodeRxDefs Gen.GenTables Gen.GenConsts
  Spec.SendSpec Spec.TpSpec Proofs.SendProofs Proofs.TpProofsA.
Import ListNotations.
Local Open Scope Z_scope.

(* ================= the reference chunking and the reference reassembler ================= *)
Lemma chunks_concat p : forall n, concat (map (chunk7 p) (seq 1 n)) = map (fun j => nth j p 255) (seq 0 (7 * n)).
Proof.
  induction n as [|n IH]; [reflexivity|].
  rewrite seq_S, map_app, concat_app, IH. cbn [map concat]. rewrite app_nil_r.
  replace (7 * S n)%nat with (7 * n + 7)%nat by lia. rewrite seq_app, map_app. f_equal.
  unfold chunk7. cbn [Nat.add]. replace (S n - 1)%nat with n by lia.
  rewrite <- (map_map (fun j => (7 * n + j)%nat) (fun j => nth j p 255)). f_equal.
  cbn [Nat.add]. generalize (7 * n)%nat. intros a. cbn [seq map]. repeat (f_equal; try lia).
Qed.
Lemma map_nth_all {A} (d:A) : forall l, map (fun j => nth j l d) (seq 0 (length l)) = l.
Proof.
  induction l as [|x l IH]; [reflexivity|]. cbn [length seq map nth]. f_equal. rewrite <- seq_shift, map_map. exact IH.
Qed.
Lemma firstn_seq' : forall n a m, firstn n (seq a m) = seq a (Nat.min n m).
Proof. induction n as [|n IH]; intros a [|m]; cbn [firstn seq Nat.min]; try reflexivity. rewrite IH. reflexivity. Qed.
Theorem chunk_reassemble : chunk_reassemble_stmt.
Proof.
  unfold chunk_reassemble_stmt, ref_reassemble. intros p. rewrite map_map.
  replace (map (fun x => tl (dt_frame p x)) (seq 1 (Z.to_nat (npackets (Z.of_nat (length p)))))) with (map (chunk7 p) (seq 1 (Z.to_nat (npackets (Z.of_nat (length p)))))) by reflexivity.
  rewrite chunks_concat, Nat2Z.id, firstn_map, firstn_seq'.
  assert (L: (length p <= 7 * Z.to_nat (npackets (Z.of_nat (length p))))%nat) by (unfold npackets; Z.div_mod_to_equations; lia).
  rewrite Nat.min_l by exact L. apply map_nth_all.
Qed.
Print Assumptions chunk_reassemble.

(* ================= concrete nodes ================= *)
Definition cfg0 : rcfg := {| c_only_known := false; c_iso_handler := None; c_prodinfo := []; c_confinfo := []; c_hb_on := false;
                             c_inst1 := []; c_inst2 := []; c_manuf := []; c_inst_changed := false |}.
(* one device at address [src], opened and claimed, all timers off, [nsl] free slots, accepting driver, clock [t] *)
Definition node0 (w:bool) (src t nsl:Z) : rnode :=
  {| rn := opened_node w 1 t 40 no_lists [mk_dev w src 12345 []]; rx_dev := [cold_devx w []]; r_slots := repeat slot0 (Z.to_nat nsl); r_q := []; r_cfg := cfg0;
     r_open_sched := 0; r_sync := 0; r_devinfo_changed := false; r_oob := false; r_clk := (0,0) |}.
Definition pay (n:nat) : list Z := map (fun i => (Z.of_nat i * 7 + 3) mod 256) (seq 0 n).
Definition tpm (pgn dst:Z) (p:list Z) : msg := {| m_pri := 6; m_pgn := pgn; m_src := 0; m_dst := dst; m_data := p; m_tp := true |}.

Local Ltac conc := vm_compute; repeat apply conj;
  lazymatch goal with
  | |- _ = _ => reflexivity
  | |- _ \/ _ => first [left; reflexivity | right; reflexivity]
  | |- _ -> False => let X := fresh in intro X; discriminate X
  | |- forall j, _ => intros; exfalso; lia
  end.

Lemma node0_ready w src t nsl : 0 <= src <= 251 -> tp_ready (rn (node0 w src t nsl)) 0.
Proof.
  intros H. unfold tp_ready, node0, dev_count, get_dev, znth. cbn [rn]. unfold opened_node. cbn [n_open n_mode n_drv n_q n_w64 n_pgn n_devs length nth Z.to_nat mk_dev d_src d_claim_timer sring_new q_rd q_wr Z.of_nat Pos.of_succ_nat].
  repeat split; try reflexivity; try lia.
  all: try (left; reflexivity).
  all: destruct w; reflexivity.
Qed.
Lemma node0_addressed w src t nsl : 0 <= src <= 251 -> addressed (node0 w src t nsl) src 0.
Proof.
  intros H. unfold addressed, node0, dev_count, get_dev, znth. cbn [rn]. unfold opened_node. cbn [n_devs length nth Z.to_nat mk_dev d_src Z.of_nat Pos.of_succ_nat]. repeat split; try lia.
Qed.

Lemma pay_bytes n : bytes_ok (pay n).
Proof. unfold bytes_ok, pay. apply Forall_forall. intros b Hb. apply in_map_iff in Hb. destruct Hb as (j & <- & _). apply Z.mod_pos_bound. reflexivity. Qed.

(* ================= library to library: every length, one byte pattern (the general statement is not yet proved) ================= *)
Fixpoint list_eqb (a b:list Z) : bool := match a, b with [] , [] => true | x :: a', y :: b' => (x =? y) && list_eqb a' b' | _, _ => false end.
Lemma list_eqb_eq : forall a b, list_eqb a b = true -> a = b.
Proof. induction a as [|x a IH]; intros [|y b] H; cbn in H; try discriminate; [reflexivity|]. apply andb_prop in H. destruct H as [H1 H2]. apply Z.eqb_eq in H1. rewrite H1, (IH b H2). reflexivity. Qed.
Definition l2l_run (wa wb:bool) (pgn:Z) (p:list Z) :=
  let a := node0 wa 22 5000 5 in let b := node0 wb 50 777 5 in
  let '(na, ev, ok) := send_msg (rn a) (tpm pgn 50 p) 0 in
  let '(a', b', dl, drained) := link gf_none 200 (with_rn a na) b [] (flat_map as_frame ev) [] in
  (ok, drained, dl, d_tp_msg (get_dev (rn a') 0)).
Definition l2l_ok (wa wb:bool) (pgn:Z) (n:nat) : bool :=
  let '(ok, drained, dl, pend) := l2l_run wa wb pgn (pay n) in
  ok && drained && match pend with None => true | Some _ => false end &&
  match dl with
  | [x] => (m_pri x =? 7) && (m_pgn x =? pgn) && (m_src x =? 22) && (m_dst x =? 50) && m_tp x && list_eqb (m_data x) (pay n)
  | _ => false
  end.
Theorem tp_lib_to_lib_partial : forall n, (9 <= n <= 223)%nat ->
  let '(ok, drained, dl, pend) := l2l_run true false 130816 (pay n) in
  ok = true /\ drained = true /\ pend = None /\
  dl = [{| m_pri := 7; m_pgn := 130816; m_src := 22; m_dst := 50; m_data := pay n; m_tp := true |}].
Proof.
  assert (A: forallb (l2l_ok true false 130816) (seq 9 215) = true) by (vm_compute; reflexivity).
  intros n Hn. rewrite forallb_forall in A. specialize (A n ltac:(apply in_seq; lia)).
  unfold l2l_ok in A. destruct (l2l_run true false 130816 (pay n)) as [[[ok drained] dl] pend].
  destruct ok; [|discriminate]. destruct drained; [|discriminate]. destruct pend; [discriminate|]. cbn [andb] in A.
  destruct dl as [|x [|y dl]]; try discriminate.
  repeat (apply andb_prop in A; destruct A as [A ?]).
  repeat split. destruct x as [pri pgn src dst dat tp]. cbn [m_pri m_pgn m_src m_dst m_tp m_data] in *.
  apply Z.eqb_eq in A. repeat match goal with H: (_ =? _) = true |- _ => apply Z.eqb_eq in H end.
  match goal with H: list_eqb _ _ = true |- _ => apply list_eqb_eq in H end. subst. reflexivity.
Qed.
Print Assumptions tp_lib_to_lib_partial.
