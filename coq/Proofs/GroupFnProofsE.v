(* C09 proofs, part E: executing an action - what is handed to SendMsg, what a command leaves in the node, the heartbeat: statements
   gf_exec_sends, (d), (e) *)
From Coq Require Import ZArith List Bool Lia.
From N2kV Require Import Base.ListAux Model.CanId Model.Sched Model.PgnClass Model.NodeDefs Model.NodeRxDefs Model.GroupFnDefs Spec.GroupFnSpec Gen.GenTables Gen.GenConsts
  Proofs.GroupFnProofsA Proofs.GroupFnProofsB Proofs.GroupFnProofsC Proofs.GroupFnProofsD.
Import ListNotations.
Local Open Scope Z_scope.

(* ---------- what SendMsg leaves alone ---------- *)
Definition ids (n:node) := (map d_src (n_devs n), map d_name (n_devs n), map d_tx (n_devs n), n_mode n, n_open n, n_now n, n_w64 n).

Lemma map_set_nth {A B} (f:A -> B) l k v d : f v = f (nth k l d) -> map f (set_nth l k v) = map f l.
Proof.
  revert k. induction l as [|x r IH]; intros k H; [reflexivity|]. destruct k as [|k]; cbn [set_nth map nth] in *; [rewrite H; reflexivity|].
  f_equal. apply IH, H.
Qed.
Lemma upd_dev_ids n i d' : d_src d' = d_src (get_dev n i) -> d_name d' = d_name (get_dev n i) -> d_tx d' = d_tx (get_dev n i) -> ids (upd_dev n i d') = ids n.
Proof.
  intros H1 H2 H3. unfold ids, upd_dev, get_dev, znth, zset in *. cbn [n_devs n_mode n_open n_now n_w64].
  rewrite (map_set_nth d_src _ _ _ ddev H1), (map_set_nth d_name _ _ _ ddev H2), (map_set_nth d_tx _ _ _ ddev H3). reflexivity.
Qed.
Lemma claim_started_ids n i : ids (fst (claim_started n i)) = ids n.
Proof.
  unfold claim_started. destruct (sched_is_enabled _ _); [|reflexivity]. destruct (sched_is_time _ _ _); [|reflexivity].
  cbn [fst]. apply upd_dev_ids; reflexivity.
Qed.
Lemma gsc_ids n i p : ids (fst (get_sequence_counter n i p)) = ids n.
Proof.
  unfold get_sequence_counter. destruct (match seq_scan _ p with Some r => r | None => _ end) as [c sc]. cbn [fst]. apply upd_dev_ids; reflexivity.
Qed.
Lemma send_gate_ids n m idev : ids (fst (send_gate n m idev)) = ids n.
Proof.
  unfold send_gate.
  repeat match goal with |- context [if ?c then _ else _] => destruct c; [reflexivity|] | |- context [if ?c then _ else _] => destruct c end;
  try reflexivity;
  match goal with |- context [claim_started ?a ?b] => pose proof (claim_started_ids a b) as H; destruct (claim_started a b) as [n1 cl]; cbn [fst] in H end;
  repeat match goal with |- context [if ?c then _ else _] => destruct c end; cbn [fst]; exact H.
Qed.
Lemma send_msg0_ids n m idev : ids (fst (fst (send_msg0 n m idev))) = ids n.
Proof.
  unfold send_msg0. pose proof (send_gate_ids n m idev) as G. destruct (send_gate n m idev) as [n1 [[[m' i] id]|]]; cbn [fst] in G; [|exact G].
  destruct ((m_len m' <=? 8) && negb (is_fast_packet n1 m')).
  - destruct (send_frame _ _ _ _ _ _) as [[[q d] ev] ok]. cbn [fst]. exact G.
  - pose proof (gsc_ids n1 i (m_pgn m')) as S. destruct (get_sequence_counter n1 i (m_pgn m')) as [n2 sc]. cbn [fst] in S.
    destruct (send_all _ _ _ _) as [[[q d] ev] ok]. cbn [fst]. unfold ids in *. cbn [upd_q n_devs n_mode n_open n_now n_w64]. rewrite <- G. exact S.
Qed.
Lemma end_send_tp_ids n i : ids (end_send_tp n i) = ids n.
Proof. unfold end_send_tp. apply upd_dev_ids; reflexivity. Qed.
Lemma start_send_tp_ids n m i : ids (fst (fst (start_send_tp n m i))) = ids n.
Proof.
  unfold start_send_tp. destruct (negb _); [reflexivity|]. destruct (d_tp_msg (get_dev n i)); [reflexivity|].
  set (n1 := upd_dev n i _). assert (H1: ids n1 = ids n) by (apply upd_dev_ids; reflexivity).
  destruct (negb (is_active_node n1)); [cbn [fst]; rewrite end_send_tp_ids; exact H1|].
  pose proof (send_msg0_ids n1 (tpcm_start (if m_dst m =? 255 then c_TP_CM_BAM else c_TP_CM_RTS) (d_src (get_dev n i)) (m_dst m) m) i) as S.
  destruct (send_msg0 n1 _ i) as [[n2 ev] ok]. cbn [fst] in S. destruct ok; cbn [fst]; [|rewrite end_send_tp_ids]; rewrite S; exact H1.
Qed.
Lemma send_msg_ids n m idev : ids (fst (fst (send_msg n m idev))) = ids n.
Proof.
  unfold send_msg. pose proof (send_gate_ids n m idev) as G. destruct (send_gate n m idev) as [n1 [[[m' i] id]|]]; cbn [fst] in G; [|exact G].
  destruct (negb _ && m_tp m'); [rewrite start_send_tp_ids; exact G|apply send_msg0_ids].
Qed.

Lemma ids_dev n n' i : ids n' = ids n ->
  d_src (get_dev n' i) = d_src (get_dev n i) /\ d_name (get_dev n' i) = d_name (get_dev n i) /\ d_tx (get_dev n' i) = d_tx (get_dev n i) /\
  dev_count n' = dev_count n /\ is_ready_to_send n' = is_ready_to_send n /\ n_now n' = n_now n /\ n_w64 n' = n_w64 n.
Proof.
  unfold ids. intros H. injection H as H1 H2 H3 H4 H5 H6 H7. unfold get_dev, znth, dev_count, is_ready_to_send.
  rewrite <- !(map_nth d_src), <- !(map_nth d_name), <- !(map_nth d_tx), H1, H2, H3, H4, H5, H6, H7.
  repeat split. rewrite <- (map_length d_src (n_devs n')), H1, map_length. reflexivity.
Qed.

(* rsend *)
Lemma rsend_frame r m i : let r1 := fst (fst (rsend r m i)) in
  ids (rn r1) = ids (rn r) /\ rx_dev r1 = rx_dev r /\ r_cfg r1 = r_cfg r /\ r_devinfo_changed r1 = r_devinfo_changed r /\ r_sync r1 = r_sync r /\
  r_clk r1 = r_clk r /\ r_oob r1 = r_oob r.
Proof.
  unfold rsend. pose proof (send_msg_ids (rn r) m i) as S. destruct (send_msg (rn r) m i) as [[n' ev] ok]. cbn [fst] in *. repeat split. exact S.
Qed.
Lemma rsend_events_oob r m i : snd (fst (rsend (set_oob r) m i)) = snd (fst (rsend r m i)).
Proof. unfold rsend. cbn [rn set_oob]. destruct (send_msg (rn r) m i) as [[n' ev] ok]. reflexivity. Qed.
Lemma chk_dev_in r i : 0 <= i < dev_count (rn r) -> chk_dev r i = r.
Proof.
  intros H. unfold chk_dev. replace (0 <=? i) with true by (symmetry; apply Z.leb_le; lia). replace (i <? dev_count (rn r)) with true by (symmetry; apply Z.ltb_lt; lia). reflexivity.
Qed.
Lemma send_ack_frame r i dst ack : let r1 := fst (send_ack r i dst ack) in
  ids (rn r1) = ids (rn r) /\ rx_dev r1 = rx_dev r /\ r_cfg r1 = r_cfg r /\ r_devinfo_changed r1 = r_devinfo_changed r /\ r_sync r1 = r_sync r /\ r_clk r1 = r_clk r.
Proof.
  unfold send_ack. set (r0 := if dlen ack >? c_MaxDataLen then set_oob r else r).
  assert (H0: rn r0 = rn r /\ rx_dev r0 = rx_dev r /\ r_cfg r0 = r_cfg r /\ r_devinfo_changed r0 = r_devinfo_changed r /\ r_sync r0 = r_sync r /\ r_clk r0 = r_clk r)
    by (unfold r0; destruct (_ >? _); repeat split).
  destruct H0 as (A1 & A2 & A3 & A4 & A5 & A6). pose proof (rsend_frame r0 (gf_msg dst ack) i) as R. cbv zeta in R.
  destruct (rsend r0 (gf_msg dst ack) i) as [[r1 ev] ok]. cbn [fst] in *. destruct R as (B1 & B2 & B3 & B4 & B5 & B6 & _).
  rewrite B1, B2, B3, B4, B5, B6, A1. repeat split; assumption.
Qed.
Lemma send_ack_events r i dst ack : snd (send_ack r i dst ack) = snd (fst (rsend r (gf_msg dst ack) i)).
Proof.
  unfold send_ack. destruct (dlen ack >? c_MaxDataLen).
  - pose proof (rsend_events_oob r (gf_msg dst ack) i) as E. destruct (rsend (set_oob r) _ i) as [[r1 ev] ok]. exact E.
  - destruct (rsend r _ i) as [[r1 ev] ok]. reflexivity.
Qed.
Lemma send_seq_one r i m : snd (send_seq r i [m]) = snd (fst (rsend r m i)).
Proof. cbn [send_seq]. destruct (rsend r m i) as [[r1 e1] ok]. cbn [snd fst]. apply app_nil_r. Qed.

Lemma nth_set_nth {A} (l:list A) k v d : (k < length l)%nat -> nth k (set_nth l k v) d = v.
Proof. revert k. induction l as [|x r IH]; intros k H; [cbn in H; lia|]. destruct k; [reflexivity|]. cbn [set_nth nth]. apply IH. cbn [length] in H. lia. Qed.
Lemma get_devx_with r i x : (Z.to_nat i < length (rx_dev r))%nat -> get_devx (with_devx r i x) i = x.
Proof. intros H. unfold get_devx, with_devx, znth, zset. cbn [rx_dev]. apply nth_set_nth, H. Qed.

Lemma set_heartbeat_all_rn k : forall r i iv off, rn (set_heartbeat_all k r i iv off) = rn r.
Proof.
  induction k as [|k IH]; intros r i iv off; [reflexivity|]. cbn [set_heartbeat_all]. cbv zeta.
  destruct (_ =? 0); [rewrite IH; reflexivity|]. rewrite IH.
  destruct (negb _ || negb _); cbn [orb]; [|destruct (ss_next _ =? ss_disabled); [|reflexivity]]; unfold millis64; destruct (w64 r); reflexivity.
Qed.

(* ---------- the messages handed to SendMsg ---------- *)
Theorem gf_exec_sends : gf_exec_sends_stmt.
Proof.
  unfold gf_exec_sends_stmt. intros r i a Hi Hact. split.
  - destruct a as [|dst ack| |dst tp sel|dst tp|dst tp|iv off|dst ack lo up si|dst ack s1 s2 chg]; cbn [gf_exec action_pre action_msgs].
    + reflexivity.
    + rewrite send_ack_events, send_seq_one. reflexivity.
    + reflexivity.
    + unfold send_tx_list, send_rx_list. rewrite (chk_dev_in r i Hi).
      destruct ((sel =? 0) || (sel =? 255)); destruct ((sel =? 1) || (sel =? 255)); cbn [app send_seq].
      * pose proof (rsend_frame r (pgn_list_msg_tp r i dst 0 def_transmit_messages (d_tx (get_dev (rn r) i)) tp) i) as R. cbv zeta in R.
        destruct (rsend r (pgn_list_msg_tp r i dst 0 def_transmit_messages (d_tx (get_dev (rn r) i)) tp) i) as [[r1 ev1] ok1]. cbn [fst] in R.
        destruct R as (I1 & X1 & _). destruct (ids_dev _ _ i I1) as (S1 & _ & _ & C1 & _).
        rewrite (chk_dev_in r1 i) by (rewrite C1; exact Hi).
        assert (EM: pgn_list_msg_tp r1 i dst 1 def_receive_messages (x_rx (get_devx r1 i)) tp = pgn_list_msg_tp r i dst 1 def_receive_messages (x_rx (get_devx r i)) tp).
        { unfold pgn_list_msg_tp, pgn_list_msg, dev_src, get_devx. rewrite S1, X1. reflexivity. }
        rewrite EM. destruct (rsend r1 _ i) as [[r2 ev2] ok2]. cbn [snd]. rewrite app_nil_r. reflexivity.
      * destruct (rsend r _ i) as [[r1 ev1] ok1]. cbn [snd]. rewrite !app_nil_r. reflexivity.
      * rewrite (chk_dev_in r i Hi). destruct (rsend r _ i) as [[r1 ev1] ok1]. cbn [snd app]. rewrite app_nil_r. reflexivity.
      * reflexivity.
    + unfold send_product_info_to. rewrite (chk_dev_in r i Hi). rewrite send_seq_one. destruct (rsend r _ i) as [[r1 ev] ok]. reflexivity.
    + unfold send_config_info_to. rewrite (chk_dev_in r i Hi). rewrite send_seq_one. destruct (rsend r _ i) as [[r1 ev] ok]. reflexivity.
    + set (r1 := if (iv =? 4294967295) && (off =? 65535) then r else set_heartbeat_all 1 r i iv off).
      assert (E: rn r1 = rn r) by (unfold r1; destruct (_ && _); [reflexivity|apply set_heartbeat_all_rn]).
      unfold send_heartbeat_forced. rewrite E, (Hact iv off eq_refl). cbn [negb]. rewrite (chk_dev_in r1 i) by (rewrite E; exact Hi). rewrite send_seq_one. destruct (rsend r1 _ i) as [[r2 ev] ok]. reflexivity.
    + rewrite send_seq_one, <- send_ack_events. destruct (send_ack r i dst ack) as [r1 ev]. reflexivity.
    + destruct chg; rewrite send_ack_events, send_seq_one; reflexivity.
  - intros -> Hx. cbn [gf_exec fst]. unfold pend_claim.
    replace (i <? 0) with false by (symmetry; apply Z.ltb_ge; lia). replace (i >=? dev_count (rn r)) with false by (symmetry; rewrite Z.geb_leb; apply Z.leb_gt; lia).
    cbn [orb]. unfold set_pending. rewrite (chk_dev_in r i Hi). rewrite get_devx_with by exact Hx. reflexivity.
Qed.
