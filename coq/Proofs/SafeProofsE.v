(* C07, part E: the fuelled loops of the model never stop because of their fuel.
   - SendFrames: any fuel above q_max gives the result of the model's flush.
   - GetNextAddress: the do-while loop tries pairwise different addresses, and goes on only while the address just tried is held by another
     device of the node; with nd <= 251 devices it therefore ends within nd + 1 rounds (pigeonhole), and the result is the same for every fuel > nd. *)
From Coq Require Import ZArith List Bool Lia.
From N2kV Require Import Base.ListAux Model.CanId Model.Sched Model.PgnClass Model.NodeDefs Model.NodeRxDefs Gen.GenTables Gen.GenConsts
  Spec.SendSpec Spec.SafeSpec Proofs.QueueProofs Proofs.SafeProofsA Proofs.SafeProofsB Proofs.SafeProofsC Proofs.SafeProofsD.
Import ListNotations.
Local Open Scope Z_scope.

(* ================= SendFrames ================= *)
Lemma send_frames_fuel : forall f1 f2 q d, ring_wf q -> (Z.to_nat (ring_count q) < f1)%nat -> (Z.to_nat (ring_count q) < f2)%nat ->
  send_frames f1 q d = send_frames f2 q d.
Proof.
  induction f1; intros f2 q d Hq H1 H2; [lia|]. destruct f2; [lia|]. simpl.
  destruct (q_max q =? 0); auto. destruct (q_rd q =? q_wr q) eqn:E; auto.
  apply Z.eqb_neq in E. destruct (dequeue q Hq E) as (Hq' & Hc & Hp & _). unfold adv in *.
  destruct (can_send d) as [ok d1]. destruct ok; auto.
  rewrite (IHf1 f2 _ d1 Hq'); auto; lia.
Qed.

Theorem flush_fuel q d fuel : ring_ok q -> (Z.to_nat (q_max q) < fuel)%nat -> send_frames fuel q d = flush q d.
Proof.
  intros Hq Hf. unfold flush. destruct (Z_lt_dec (q_max q) 2) as [Hs|Hs].
  - (* no buffer, or a one-frame ring that is always empty *)
    destruct Hq as (H0 & Hl & Hc). destruct fuel; [lia|]. simpl.
    destruct (q_max q =? 0) eqn:E0; auto. apply Z.eqb_neq in E0. destruct Hc as [Hz|[Hr Hw]]; [lia|].
    assert (E : q_rd q = q_wr q) by lia. rewrite E, Z.eqb_refl. reflexivity.
  - pose proof (ring_ok_wf q Hq ltac:(lia)) as Hw. pose proof (count_range q Hw). apply send_frames_fuel; auto; lia.
Qed.

(* ================= GetNextAddress ================= *)
Lemma in_length_pos {X} (x:X) l : In x l -> (1 <= length l)%nat.
Proof. destruct l; simpl; [tauto | lia]. Qed.

Section NextAddress.
Variable nd : nat.
Variable i : Z.
Hypothesis Hi : 0 <= i < Z.of_nat nd.
Variable A : list Z.              (* the addresses held by the devices of the node when the search starts *)

Definition devs_len (r:rnode) : Prop := length (n_devs (rn r)) = nd.
(* every device but number i holds an address of A *)
Definition others_in (r:rnode) : Prop := forall j, (j < nd)%nat -> Z.of_nat j <> i -> In (d_src (nth j (n_devs (rn r)) ddev)) A.

Lemma chk_dev_len r : devs_len r -> chk_dev r i = r.
Proof.
  intros H. unfold chk_dev, dev_count. rewrite H.
  destruct (0 <=? i) eqn:E1; destruct (i <? Z.of_nat nd) eqn:E2; simpl; auto; lia.
Qed.

Lemma set_src_facts r s b : devs_len r ->
  devs_len (set_src r i s b) /\ d_src (get_dev (rn (set_src r i s b)) i) = s /\
  (forall j, (j < nd)%nat -> Z.of_nat j <> i -> nth j (n_devs (rn (set_src r i s b))) ddev = nth j (n_devs (rn r)) ddev).
Proof.
  intros H. unfold set_src. cbv zeta. rewrite (chk_dev_len r H). unfold devs_len, get_dev. simpl. rewrite zset_len. split; auto. split.
  - rewrite znth_zset_same; [reflexivity | rewrite H; lia].
  - intros j Hj Hne. unfold zset. apply nth_set_nth_other. lia.
Qed.
Lemma set_src_others r s b : devs_len r -> others_in r -> others_in (set_src r i s b).
Proof. intros H Ho j Hj Hne. destruct (set_src_facts r s b H) as (_ & _ & E). rewrite (E j Hj Hne). auto. Qed.

Lemma sas_gen src : forall devs start,
  existsb (fun p => negb (fst p =? i) && (d_src (snd p) =? src)) (combine (map Z.of_nat (seq start (length devs))) devs) = true ->
  exists j, (j < length devs)%nat /\ Z.of_nat (start + j) <> i /\ d_src (nth j devs ddev) = src.
Proof.
  induction devs; intros start H; simpl in H; [discriminate|].
  apply orb_prop in H. destruct H as [H|H].
  - apply andb_prop in H. destruct H as [H1 H2]. exists O. simpl. split; [lia|]. split; [|lia].
    apply negb_true_iff in H1. apply Z.eqb_neq in H1. rewrite Nat.add_0_r. auto.
  - destruct (IHdevs (S start) H) as (j & Hj & Hne & Hs). exists (S j). simpl. split; [lia|]. split; auto.
    replace (start + S j)%nat with (S start + j)%nat by lia. auto.
Qed.
Lemma sas_spec r : devs_len r -> same_as_sibling r i = true ->
  exists j, (j < nd)%nat /\ Z.of_nat j <> i /\ d_src (nth j (n_devs (rn r)) ddev) = d_src (get_dev (rn r) i).
Proof.
  intros H E. unfold same_as_sibling, dev_src in E. destruct (sas_gen _ _ _ E) as (j & Hj & Hne & Hs).
  exists j. rewrite <- H. auto.
Qed.
Lemma sas_in r : devs_len r -> others_in r -> same_as_sibling r i = true -> In (d_src (get_dev (rn r) i)) A.
Proof. intros H Ho E. destruct (sas_spec r H E) as (j & Hj & Hne & Hs). rewrite <- Hs. apply Ho; auto. Qed.

(* the run of addresses tried so far: a0, a0+1, ... modulo 252 *)
Definition run_addr (a0:Z) (j:nat) : Z := (a0 + Z.of_nat j) mod 252.

Lemma nodup_snoc {X} (l:list X) a : NoDup l -> ~ In a l -> NoDup (l ++ [a]).
Proof.
  induction l; intros Hn Hni; simpl; [constructor; auto; constructor|].
  inversion Hn; subst. constructor.
  - intros Hin. apply in_app_or in Hin. destruct Hin as [Hin|[Hin|[]]]; [auto | subst; apply Hni; left; auto].
  - apply IHl; auto. intros Hin. apply Hni. right; auto.
Qed.
Lemma run_nodup a0 : forall k, (k <= 252)%nat -> NoDup (map (run_addr a0) (seq 0 k)).
Proof.
  induction k; intros Hk; [constructor|].
  rewrite seq_S, map_app. simpl. apply nodup_snoc; [apply IHk; lia|].
  intros Hin. apply in_map_iff in Hin. destruct Hin as (j & Ej & Hj). apply in_seq in Hj. unfold run_addr in Ej.
  assert (Hd : (a0 + Z.of_nat k) - (a0 + Z.of_nat j) = 252 * ((a0 + Z.of_nat k) / 252 - (a0 + Z.of_nat j) / 252)).
  { rewrite (Z.div_mod (a0 + Z.of_nat k) 252) at 1 by lia. rewrite (Z.div_mod (a0 + Z.of_nat j) 252) at 1 by lia. rewrite Ej. ring. }
  lia.
Qed.
Lemma pigeon a0 k : (k <= 252)%nat -> (forall j, (j < k)%nat -> In (run_addr a0 j) A) -> (k <= length A)%nat.
Proof.
  intros Hk Hin. rewrite <- (seq_length k 0), <- (map_length (run_addr a0)).
  apply NoDup_incl_length; [apply run_nodup; auto|].
  intros x Hx. apply in_map_iff in Hx. destruct Hx as (j & <- & Hj). apply in_seq in Hj. apply Hin. lia.
Qed.

(* the loop after k >= 1 addresses have been tried, all of them held by other devices *)
Definition Invk (r:rnode) (k:nat) (a0:Z) : Prop :=
  devs_len r /\ others_in r /\ (1 <= k)%nat /\ d_src (get_dev (rn r) i) = run_addr a0 (k - 1) /\
  (forall j, (j < k)%nat -> In (run_addr a0 j) A).

Hypothesis HA : (length A <= 251)%nat.

Lemma Invk_bound r k a0 : (k <= 252)%nat -> Invk r k a0 -> (k <= length A)%nat.
Proof. intros Hk (_ & _ & _ & _ & Hin). eapply pigeon; eauto. Qed.

Lemma next_address_level restart : forall f1 f2 r k a0, (k <= 252)%nat -> Invk r k a0 -> (length A - k < f1)%nat -> (length A - k < f2)%nat ->
  next_address f1 r i restart = next_address f2 r i restart.
Proof.
  induction f1; intros f2 r k a0 Hk HI H1 H2.
  { pose proof (Invk_bound r k a0 Hk HI). lia. }
  destruct f2; [pose proof (Invk_bound r k a0 Hk HI); lia|].
  pose proof (Invk_bound r k a0 Hk HI) as Hb. destruct HI as (Hl & Ho & Hk1 & Hs & Hin).
  cbn [next_address].
  assert (Hr : 0 <= d_src (get_dev (rn r) i) < 252) by (rewrite Hs; unfold run_addr; apply Z.mod_pos_bound; lia).
  destruct (d_src (get_dev (rn r) i) =? c_N2kNullCanBusAddress) eqn:E254; [unfold c_N2kNullCanBusAddress in E254; lia|].
  destruct (negb (d_src (get_dev (rn r) i) =? d_claim_end (get_dev (rn r) i))); [|reflexivity].
  set (s1 := if d_src (get_dev (rn r) i) + 1 >? c_N2kMaxCanBusAddress then 0 else d_src (get_dev (rn r) i) + 1).
  assert (Es1 : s1 = run_addr a0 k).
  { unfold s1, c_N2kMaxCanBusAddress. rewrite Hs. unfold run_addr.
    replace (a0 + Z.of_nat k) with ((a0 + Z.of_nat (k - 1)) + 1) by lia.
    set (x := a0 + Z.of_nat (k - 1)).
    rewrite <- (Zplus_mod_idemp_l x 1 252).
    pose proof (Z.mod_pos_bound x 252 ltac:(lia)) as Hm.
    rewrite (mod_inc 252 (x mod 252) Hm).
    destruct (x mod 252 + 1 >? 251) eqn:E1; destruct (x mod 252 + 1 <? 252) eqn:E2; lia. }
  destruct (set_src_facts r s1 false Hl) as (Hl1 & Hs1 & _). pose proof (set_src_others r s1 false Hl Ho) as Ho1.
  destruct (same_as_sibling (set_src r i s1 false) i) eqn:Esas; [|reflexivity].
  pose proof (sas_in _ Hl1 Ho1 Esas) as Hin1. rewrite Hs1, Es1 in Hin1.
  assert (HI' : Invk (set_src r i s1 false) (S k) a0).
  { split; auto. split; auto. split; [lia|]. split; [rewrite Hs1, Es1; f_equal; lia|].
    intros j Hj. destruct (Nat.eq_dec j k); [subst; auto | apply Hin; lia]. }
  pose proof (Invk_bound _ (S k) a0 ltac:(lia) HI') as Hb'.
  apply (IHf1 f2 _ (S k) a0); auto; lia.
Qed.

(* the first round: from any 8-bit address *)
Lemma next_address_top restart f1 f2 r : devs_len r -> others_in r -> 0 <= d_src (get_dev (rn r) i) <= 255 ->
  (length A < f1)%nat -> (length A < f2)%nat -> next_address f1 r i restart = next_address f2 r i restart.
Proof.
  intros Hl Ho Hr H1 H2. destruct f1; [lia|]. destruct f2; [lia|]. cbn [next_address].
  destruct (d_src (get_dev (rn r) i) =? c_N2kNullCanBusAddress) eqn:E254.
  - destruct restart; [|reflexivity].
    destruct (set_src_facts r 14 true Hl) as (Hl1 & Hs1 & _). pose proof (set_src_others r 14 true Hl Ho) as Ho1.
    destruct (same_as_sibling (set_src r i 14 true) i) eqn:Esas; [|reflexivity].
    pose proof (sas_in _ Hl1 Ho1 Esas) as Hin1. rewrite Hs1 in Hin1. pose proof (in_length_pos _ _ Hin1) as Hpos.
    apply (next_address_level true f1 f2 _ 1%nat 14); try lia.
    split; auto. split; auto. split; [lia|]. split; [rewrite Hs1; reflexivity|].
    intros j Hj. assert (j = O) by lia. subst. exact Hin1.
  - destruct (negb (d_src (get_dev (rn r) i) =? d_claim_end (get_dev (rn r) i))); [|reflexivity].
    set (s1 := if d_src (get_dev (rn r) i) + 1 >? c_N2kMaxCanBusAddress then 0 else d_src (get_dev (rn r) i) + 1).
    assert (Hs1r : 0 <= s1 < 252) by (unfold s1, c_N2kMaxCanBusAddress; destruct (_ >? 251) eqn:E; lia).
    destruct (set_src_facts r s1 false Hl) as (Hl1 & Hs1 & _). pose proof (set_src_others r s1 false Hl Ho) as Ho1.
    destruct (same_as_sibling (set_src r i s1 false) i) eqn:Esas; [|reflexivity].
    pose proof (sas_in _ Hl1 Ho1 Esas) as Hin1. rewrite Hs1 in Hin1. pose proof (in_length_pos _ _ Hin1) as Hpos.
    assert (Es : run_addr s1 0 = s1) by (unfold run_addr; simpl; rewrite Z.add_0_r; apply Z.mod_small; lia).
    apply (next_address_level restart f1 f2 _ 1%nat s1); try lia.
    split; auto. split; auto. split; [lia|]. split; [rewrite Hs1; simpl; auto|].
    intros j Hj. assert (j = O) by lia. subst. rewrite Es. exact Hin1.
Qed.
End NextAddress.

Theorem next_address_fuel nd ns mx r i restart f1 f2 : WF nd ns mx r -> (nd <= 251)%nat -> 0 <= i < Z.of_nat nd -> (nd < f1)%nat -> (nd < f2)%nat ->
  next_address f1 r i restart = next_address f2 r i restart.
Proof.
  intros (Hl & Hd & _) Hn Hi H1 H2.
  apply (next_address_top nd i Hi (map d_src (n_devs (rn r)))); try (rewrite map_length, Hl; lia).
  - exact Hl.
  - intros j Hj _. apply in_map. apply nth_In. rewrite Hl. auto.
  - unfold get_dev. apply (znth_Forall dev_ok); auto. apply ddev_ok.
Qed.

Theorem poll_bounded : poll_bounded_stmt.
Proof.
  split; [|split].
  - exact poll_takes_at_most_20.
  - intros q d fuel Hq Hf. apply flush_fuel; auto.
  - intros nd ns mx r i restart f1 f2. apply next_address_fuel.
Qed.
