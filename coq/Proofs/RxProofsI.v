(* C02, part I: run-level completeness.  Over whole histories (frames, polls, ticks, sends) on a node that stays open, with no more keys
   than slots, every run that arrives completely and in order is delivered once its last frame has been consumed - without any clause
   about the 100 ms slot reuse, because under the key bound no search ever evicts. *)
From Coq Require Import ZArith List Bool Lia Permutation.
From N2kV Require Import Base.ListAux Model.CanId Model.Sched Model.PgnClass Model.NodeDefs Model.NodeRxDefs Gen.GenTables Gen.GenConsts
  Spec.SendSpec Spec.RxSpec Proofs.SendProofs Proofs.RxProofsA Proofs.RxProofsB Proofs.RxProofsC Proofs.RxProofsD Proofs.RxProofsE Proofs.RxProofsG
  Proofs.RxProofsH.
Import ListNotations.
Local Open Scope Z_scope.

(* ---------------- under the key bound no search evicts ---------------- *)
Lemma has_elapsed_refl t : has_elapsed t c_Max_N2kMsgBuf_Time t = false.
Proof. unfold has_elapsed, u32, c_Max_N2kMsgBuf_Time. rewrite Zminus_mod_idemp_r. replace (t - (t + 100)) with (-100) by lia. reflexivity. Qed.

Lemma pigeon keys sl x : cap keys sl -> Z.of_nat (length keys) <= Z.of_nat (length sl) -> In x keys ->
  (forall k, (k < length sl)%nat -> s_free (nth k sl slot0) = false) -> (forall k, (k < length sl)%nat -> tag (nth k sl slot0) <> Some x) -> False.
Proof.
  intros [W [D I]] Hlen Hin Hbusy Hno. set (T := map img sl).
  assert (Tk : forall k, (k < length sl)%nat -> tag (nth k sl slot0) = Some (nth k T (0, 0, 0))).
  { intros k Hk. unfold T. rewrite (nth_map_lt _ sl k slot0 (0, 0, 0) Hk). unfold tag. rewrite (Hbusy k Hk). reflexivity. }
  assert (ND : NoDup T).
  { apply (NoDup_nth T (0, 0, 0)). unfold T at 1 2. rewrite map_length. intros i j Hi Hj E.
    destruct (Nat.eq_dec i j) as [|N]; auto. exfalso. apply (D i j (nth i T (0, 0, 0)) N Hi Hj (Tk i Hi)). rewrite E. apply Tk. exact Hj. }
  assert (NK : ~ In x T).
  { intros Hi. destruct (In_nth _ _ (0, 0, 0) Hi) as (k & Hk & E). unfold T in Hk. rewrite map_length in Hk. apply (Hno k Hk). rewrite (Tk k Hk), E. reflexivity. }
  assert (Inc : incl (x :: T) keys).
  { intros y [<-|Hy]; auto. destruct (In_nth _ _ (0, 0, 0) Hy) as (k & Hk & E). unfold T in Hk. rewrite map_length in Hk. apply (I k y Hk). rewrite (Tk k Hk), E. reflexivity. }
  pose proof (NoDup_incl_length (NoDup_cons _ NK ND) Inc) as Hl. cbn [length] in Hl. unfold T in Hl. rewrite map_length in Hl. lia.
Qed.

Lemma ffs_no_evict keys r p s d tp l z x : cap keys (r_slots r) -> Z.of_nat (length keys) <= nslots r -> In x keys ->
  (forall k, (k < length (r_slots r))%nat -> ffk_match (nth k (r_slots r) slot0) p s d tp = false -> tag (nth k (r_slots r) slot0) <> Some x) ->
  find_free_slot r p s d tp = (l, z) -> l = r_slots r.
Proof.
  intros C Hlen Hin Hno FF. destruct (find_free_slot_char _ _ _ _ _ _ _ FF) as (_ & _ & [(-> & _)|(_ & _ & M & _)]); [reflexivity|].
  exfalso. apply (pigeon keys (r_slots r) x C Hlen Hin).
  - intros k Hk. specialize (M k Hk). unfold ff_match in M. apply orb_false_iff in M. tauto.
  - intros k Hk. apply Hno; auto. apply ff_match_ffk. apply M. exact Hk.
Qed.

Lemma rts_hno keys r src dst tpgn : cap keys (r_slots r) ->
  forall k, (k < length (rts_table r src dst tpgn))%nat -> ffk_match (nth k (rts_table r src dst tpgn) slot0) tpgn src dst true = false ->
    tag (nth k (rts_table r src dst tpgn) slot0) <> Some (c_TP_CM, src, dst).
Proof.
  intros C k Hk. unfold rts_table in *. rewrite map_length in Hk. rewrite (nth_map_lt _ (r_slots r) k slot0 slot0 Hk).
  set (s := nth k (r_slots r) slot0). assert (Ws : slot_wf s) by (destruct C as [W _]; rewrite Forall_forall in W; apply W; apply nth_In; exact Hk).
  destruct (negb (s_free s) && s_tp s && (s_src s =? src) && (s_dst s =? dst) && negb (s_pgn s =? tpgn)) eqn:Cn; [discriminate|].
  intros Hk0 Tg. unfold tag, img in Tg. destruct (s_free s) eqn:F; [discriminate|]. destruct (s_tp s) eqn:T.
  - injection Tg; intros E3 E2. unfold ffk_match in Hk0. rewrite F, T, E2, E3, !Z.eqb_refl in *. destruct (s_pgn s =? tpgn); discriminate.
  - injection Tg; intros E3 E2 E1. destruct Ws as [_ Ws]. apply (Ws F T). exact E1.
Qed.

Lemma cap_no_evict keys r g : cap keys (r_slots r) -> Z.of_nat (length keys) <= nslots r -> In (key_of g) keys -> no_evict r g.
Proof.
  intros C Hlen Hin. split.
  - intros Hp l z FF. eapply (ffs_no_evict keys r _ _ _ false l z (key_of g) C Hlen Hin); [|exact FF].
    intros k Hk. apply tag_busy_key_no; auto. destruct C as [W _]. rewrite Forall_forall in W. apply W. apply nth_In. exact Hk.
  - intros Hp l z FF. unfold key_of in Hin. rewrite Hp in Hin.
    assert (C0 : cap keys (r_slots (with_slots r (rts_table r (fsrc g) (fdst g) (le3 (r_buf g) 5))))).
    { cbn [r_slots with_slots]. unfold rts_table. eapply cap_wk; [exact C | apply wk_map_free | apply wf_map_free; apply C]. }
    assert (Hl0 : Z.of_nat (length keys) <= nslots (with_slots r (rts_table r (fsrc g) (fdst g) (le3 (r_buf g) 5))))
      by (unfold nslots in *; cbn [r_slots with_slots]; unfold rts_table; rewrite map_length; exact Hlen).
    eapply (ffs_no_evict keys _ _ _ _ true l z _ C0 Hl0 Hin); [|exact FF].
    cbn [r_slots with_slots]. apply (rts_hno keys). exact C.
Qed.

(* ---------------- other traffic leaves the run alone, whatever the clock says ---------------- *)
Lemma holds_run_protected_gen now r f0 cs i t : holds_run r f0 cs i t -> has_elapsed t c_Max_N2kMsgBuf_Time now = false ->
  protected (fpgn f0) (fsrc f0) (fdst f0) now (get_slot r i).
Proof.
  intros (Hi & Hf & A & B & C & D & E & _ & _ & _ & _ & T & _) He. cbv zeta in *. repeat split; auto.
  - unfold key_match. rewrite C, D, E, B, !Z.eqb_refl. reflexivity. - rewrite T. exact He.
Qed.
Lemma holds_run_transfer_gen now r r' f0 cs i t : fpgn f0 <> 0 -> holds_run r f0 cs i t -> has_elapsed t c_Max_N2kMsgBuf_Time now = false ->
  tstep (fpgn f0) (fsrc f0) (fdst f0) now (r_slots r) (r_slots r') -> holds_run r' f0 cs i t.
Proof.
  intros Hnz H He TS. pose proof (holds_run_protected_gen now _ _ _ _ _ H He) as P. destruct H as (Hi & Hf & Rest).
  pose proof (find_cont_spec (fpgn f0) (fsrc f0) (fdst f0) (r_slots r) 0) as FC. cbv zeta in FC. rewrite Hf, Z.sub_0_r, Z.add_0_l in FC. destruct FC as (_ & _ & Fb).
  unfold nslots in Hi.
  destruct (tstep_keeps (fpgn f0) (fsrc f0) (fdst f0) now (r_slots r) (r_slots r') (Z.to_nat i) TS ltac:(lia) P Fb) as [E Fc].
  assert (Eg : get_slot r' i = get_slot r i) by exact E.
  split; [unfold nslots; rewrite (proj1 TS); exact Hi|]. split; [rewrite Fc; lia|]. cbv zeta in *. rewrite Eg. exact Rest.
Qed.
Lemma rx_iter_keep gf r f0 cs i t g : gf_ok gf -> holds_run r f0 cs i t -> rx_fast (n_pgn (rn r)) (fpgn f0) = true ->
  ~ touches_key f0 g -> no_evict r g -> holds_run (fst (rx_iter gf r g)) f0 cs i t.
Proof.
  intros Hgf H Hfast Ht NE. pose proof (fast_pgn_nz _ _ Hfast) as Hnz. unfold rx_iter.
  destruct (rx_frame r g) as [[r1 ev1] idx] eqn:RF.
  destruct (rx_frame_tstep_gen t f0 r g r1 ev1 idx Hnz Ht (or_intror NE) RF) as (TS & Nw & Ns & Ix).
  destruct (idx <? nslots r1) eqn:Hlt.
  - destruct (Ix eq_refl) as [I0 NP]. know (handle_system gf (chk_slot r1 idx) (get_slot (chk_slot r1 idx) idx)).
    destruct (handle_system gf (chk_slot r1 idx) (get_slot (chk_slot r1 idx) idx)) as [r2 ev2]. destruct K as [(S2 & Q2 & N2 & C2 & W2) Hd2].
    cbn [fst snd] in *. autorewrite with rxs in *. eapply (holds_run_transfer_gen t); eauto; [apply has_elapsed_refl|]. autorewrite with rxs.
    eapply tstep_trans; [exact TS|]. rewrite S2. apply tstep_zset.
    assert (Hg2 : get_slot r2 idx = get_slot r1 idx) by (unfold get_slot; rewrite S2; reflexivity). rewrite Hg2.
    apply okstep_free; auto.
  - cbn [fst]. eapply (holds_run_transfer_gen t); eauto. apply has_elapsed_refl.
Qed.

(* ---------------- the progress of one run through a history ---------------- *)
Lemma holds_run_slots r r' f0 cs i t : r_slots r' = r_slots r -> holds_run r f0 cs i t -> holds_run r' f0 cs i t.
Proof. intros E H. unfold holds_run, nslots, get_slot in *. rewrite E. exact H. Qed.
Lemma interleaved_nil f0 run : interleaved f0 run [] -> run = [].
Proof. intros H. exact H. Qed.

Lemma rop_eq_poll (o:rop) : o = RPoll \/ o <> RPoll.
Proof. destruct o; [right; discriminate | left; reflexivity | right; discriminate | right; discriminate]. Qed.

Section Run.
Variable gf : rnode -> slot -> rnode * list event.
Variable keys : list (Z * Z * Z).
Variable r0 : rnode.
Variables (pre : list rxframe) (f0 : rxframe) (mid rest cs : list rxframe).
Hypothesis Hgf : gf_ok gf.
Hypothesis Hlen : Z.of_nat (length keys) <= nslots r0.
Hypothesis FF0 : fast_first r0 f0.
Hypothesis Hint : interleaved f0 cs mid.
Hypothesis Hseq : seq_ok (fbyte f0 0) cs f0.
Hypothesis Hc : run_complete f0 cs = true.
Hypothesis Hmin : forall cs', (length cs' < length cs)%nat -> cs' = firstn (length cs') cs -> run_complete f0 cs' = false.
Hypothesis Hkeys : forall f, In f (pre ++ f0 :: mid ++ rest) -> In (key_of f) keys.

Definition base (r:rnode) : Prop :=
  cap keys (r_slots r) /\ n_pgn (rn r) = n_pgn (rn r0) /\ c_only_known (r_cfg r) = c_only_known (r_cfg r0) /\ nslots r = nslots r0.
Inductive phase (p:list rxframe) (r:rnode) (ds:list msg) : Prop :=
| ph_before x : pre = p ++ x -> phase p r ds
| ph_in m1 m2 done todo i t : p = pre ++ f0 :: m1 -> mid = m1 ++ m2 -> cs = done ++ todo -> todo <> [] ->
    interleaved f0 todo m2 -> seq_ok (fbyte f0 0 + Z.of_nat (length done)) todo f0 -> holds_run r f0 done i t -> phase p r ds
| ph_done : In (run_msg f0 cs) ds -> phase p r ds.
Definition RI (p:list rxframe) (r:rnode) (ds:list msg) : Prop := base r /\ phase p r ds.

Lemma RI_core p r r' ds : r_slots r' = r_slots r -> n_pgn (rn r') = n_pgn (rn r) -> c_only_known (r_cfg r') = c_only_known (r_cfg r) ->
  RI p r ds -> RI p r' ds.
Proof.
  intros S N C [(B1 & B2 & B3 & B4) P]. split.
  - unfold base, nslots in *. rewrite S, N, C. auto.
  - destruct P as [x E|m1 m2 dn td i t E1 E2 E3 E4 E5 E6 H|D]; [eapply ph_before; eauto | eapply ph_in; eauto; eapply holds_run_slots; eauto | apply ph_done; auto].
Qed.
Lemma base_fast_first r : base r -> fast_first r f0.
Proof. intros (_ & N & C & _). eapply fast_first_same; [exact N|exact C|exact FF0]. Qed.
Lemma f0_not_tp : fpgn f0 <> c_TP_CM.
Proof. destruct FF0 as (Htp & _). unfold is_tp_frame in Htp. apply orb_false_iff in Htp. destruct Htp as [A _]. apply Z.eqb_neq in A. exact A. Qed.

Lemma rx_iter_RI p r g U ds : RI p r ds -> p ++ g :: U = pre ++ f0 :: mid ++ rest ->
  RI (p ++ [g]) (fst (rx_iter gf r g)) (ds ++ fp_dlv (snd (rx_iter gf r g))).
Proof.
  intros [B P] Eq. pose proof B as (C & N & O & Ns).
  assert (Hg : In (key_of g) keys) by (apply Hkeys; rewrite <- Eq, in_app_iff; right; left; reflexivity).
  destruct (rx_iter_frame gf r g Hgf) as (Fq & Fp & Fc & _). pose proof (rx_iter_nslots gf r g Hgf) as Fn.
  pose proof (cap_rx_iter keys gf r g Hgf C Hg) as C1.
  assert (B1 : base (fst (rx_iter gf r g))) by (unfold base; repeat split; try apply C1; congruence).
  split; [exact B1|].
  pose proof (base_fast_first r B) as FF. assert (FF1 : fast_first (fst (rx_iter gf r g)) f0) by (apply base_fast_first; exact B1).
  destruct P as [x E|m1 m2 dn td i t E1 E2 E3 E4 E5 E6 H|D].
  - (* before the run *)
    rewrite E, <- app_assoc in Eq. apply app_inv_head in Eq. destruct x as [|y x]; cbn [app] in Eq.
    + injection Eq as -> ->.
      assert (Hslot : snd (find_free_slot r (fpgn f0) (fsrc f0) (fdst f0) false) < nslots r).
      { apply (cap_place keys r _ _ _ C); [lia | | apply f0_not_tp]. apply (Hkeys f0). rewrite in_app_iff. right. left. reflexivity. }
      assert (Hfc : free_clear r) by (destruct C as [W _]; unfold free_clear; eapply Forall_impl; [|exact W]; intros s [A _]; exact A).
      pose proof (rx_complete_first gf r f0 Hgf FF Hfc Hslot) as A. destruct (rx_iter gf r f0) as [r1 ev]. cbn [fst snd] in *.
      destruct (run_complete f0 []) eqn:C0.
      * assert (cs = []).
        { destruct cs as [|c cs']; auto. exfalso. assert (X : run_complete f0 [] = false) by (apply (run_complete_prefix_false f0 [] (c :: cs')); [exact Hmin|congruence]). congruence. }
        apply ph_done. rewrite A, in_app_iff. right. left. congruence.
      * destruct A as [_ (i & A2)]. apply (ph_in _ _ _ [] mid [] cs i (now32 r)).
        -- rewrite E, app_nil_r. reflexivity.
        -- reflexivity.
        -- reflexivity.
        -- intros ->. congruence.
        -- exact Hint.
        -- cbn [length]. rewrite Z.add_0_r. exact Hseq.
        -- exact A2.
    + injection Eq as <- Eq. eapply (ph_before _ _ _ x). rewrite E, <- app_assoc. reflexivity.
  - (* inside the run *)
    rewrite E1, E2 in Eq. rewrite <- !app_assoc in Eq. apply app_inv_head in Eq. cbn [app] in Eq. injection Eq as Eq. apply app_inv_head in Eq.
    destruct m2 as [|g' m2]; [apply interleaved_nil in E5; congruence|]. cbn [app] in Eq. injection Eq as <- Eq.
    cbn [interleaved] in E5. destruct E5 as [(td' & -> & Hint')|(Hnt & Hint')].
    + cbn [seq_ok] in E6. destruct E6 as (Sk & Stp & Sb & Snf & Sseq).
      pose proof (rx_complete_cont gf r f0 dn i t g Hgf FF H Sk Stp ltac:(lia) Snf) as A.
      destruct (rx_iter gf r g) as [r1 ev]. cbn [fst snd] in *.
      destruct (run_complete f0 (dn ++ [g])) eqn:Cg.
      * assert (td' = []).
        { destruct td' as [|c td']; auto. exfalso.
          assert (X : run_complete f0 (dn ++ [g]) = false).
          { apply (run_complete_prefix_false f0 (dn ++ [g]) (c :: td')); [|congruence]. rewrite <- app_assoc. cbn [app]. rewrite <- E3. exact Hmin. }
          congruence. }
        subst td'. apply ph_done. rewrite A, in_app_iff. right. left. rewrite E3. reflexivity.
      * destruct A as [_ A2]. apply (ph_in _ _ _ (m1 ++ [g]) m2 (dn ++ [g]) td' i t).
        -- rewrite E1, <- app_assoc. reflexivity.
        -- rewrite E2, <- app_assoc. reflexivity.
        -- rewrite E3, <- app_assoc. reflexivity.
        -- intros ->. rewrite E3 in Hc. congruence.
        -- exact Hint'.
        -- rewrite app_length. cbn [length]. replace (fbyte f0 0 + Z.of_nat (length dn + 1)) with (fbyte f0 0 + Z.of_nat (length dn) + 1) by lia. exact Sseq.
        -- exact A2.
    + pose proof (rx_iter_keep gf r f0 dn i t g Hgf H (proj1 (proj2 FF)) Hnt (cap_no_evict keys r g C ltac:(lia) Hg)) as A.
      apply (ph_in _ _ _ (m1 ++ [g]) m2 dn td i t); auto.
      * rewrite E1, <- app_assoc. reflexivity.
      * rewrite E2, <- app_assoc. reflexivity.
  - apply ph_done. rewrite in_app_iff. left. exact D.
Qed.

Lemma rx_loop_RI : forall k r p ds U, RI p r ds -> p ++ r_q r ++ U = pre ++ f0 :: mid ++ rest ->
  RI (p ++ firstn k (r_q r)) (fst (rx_loop gf k r)) (ds ++ fp_dlv (snd (rx_loop gf k r))) /\ r_q (fst (rx_loop gf k r)) = skipn k (r_q r).
Proof.
  induction k as [|k IH]; intros r p ds U I Eq.
  - cbn [rx_loop fst snd firstn skipn]. rewrite !app_nil_r. auto.
  - rewrite rx_loop_iter. destruct (r_q r) as [|g q] eqn:Q.
    + cbn [fst snd firstn skipn]. rewrite !app_nil_r. auto.
    + set (ra := with_rxq r q). assert (Ia : RI p ra ds) by (eapply RI_core; [| | |exact I]; reflexivity).
      cbn [app] in Eq. pose proof (rx_iter_RI p ra g (q ++ U) ds Ia Eq) as I1.
      destruct (rx_iter_frame gf ra g Hgf) as (Fq & _). destruct (rx_iter gf ra g) as [r1 ev] eqn:RI1. cbn [fst snd r_q with_rxq] in *.
      assert (Eq1 : (p ++ [g]) ++ r_q r1 ++ U = pre ++ f0 :: mid ++ rest) by (rewrite Fq, <- app_assoc; exact Eq).
      destruct (IH r1 (p ++ [g]) (ds ++ fp_dlv ev) U I1 Eq1) as [I2 Q2]. destruct (rx_loop gf k r1) as [r2 ev2]. cbn [fst snd firstn skipn] in *.
      rewrite Fq in *. rewrite fp_dlv_app, app_assoc. rewrite <- app_assoc in I2. cbn [app] in I2. auto.
Qed.

(* ParseMessages on an open node, the other operations *)
Lemma poll_core r : n_open (rn r) = 3 ->
  exists ra, r_slots ra = r_slots r /\ r_q ra = r_q r /\ n_pgn (rn ra) = n_pgn (rn r) /\ c_only_known (r_cfg ra) = c_only_known (r_cfg r) /\
    let x := rx_loop gf (Z.to_nat c_MaxReadFramesOnParse) ra in
    r_slots (fst (poll gf r)) = r_slots (fst x) /\ r_q (fst (poll gf r)) = r_q (fst x) /\ n_pgn (rn (fst (poll gf r))) = n_pgn (rn (fst x)) /\
    c_only_known (r_cfg (fst (poll gf r))) = c_only_known (r_cfg (fst x)) /\ fp_dlv (snd (poll gf r)) = fp_dlv (snd x).
Proof.
  intros Hop. assert (E3 : (n_open (rn r) =? 3) = true) by (rewrite Hop; reflexivity).
  unfold poll. rewrite E3. cbv beta iota. rewrite E3. cbn [andb negb].
  know (rflush r). destruct (rflush r) as [r2 ev1]. destruct K as [K1 E1]. cbn [fst snd] in *.
  know (send_pending_info (length (n_devs (rn r2))) r2 0). destruct (send_pending_info (length (n_devs (rn r2))) r2 0) as [r3 ev2].
  destruct K as [K2 E2]. cbn [fst snd] in *.
  pose proof (same_rx_trans _ _ _ K1 K2) as (S & Q & N & C & W).
  exists r3. do 4 (split; [auto|]). cbv zeta.
  destruct (rx_loop gf (Z.to_nat c_MaxReadFramesOnParse) r3) as [r4 ev3]. cbn [fst snd].
  assert (H5 : exists r5 ev4, (if is_active_node (rn r4) then send_heartbeat (length (n_devs (rn r4))) r4 0 else (r4, [])) = (r5, ev4) /\ same_rx r4 r5 /\ dlv_of ev4 = []).
  { destruct (is_active_node (rn r4)).
    - know (send_heartbeat (length (n_devs (rn r4))) r4 0). destruct (send_heartbeat (length (n_devs (rn r4))) r4 0) as [r5 ev4]. destruct K as [K5 E5]. exists r5, ev4. auto.
    - exists r4, []. repeat split; auto. }
  destruct H5 as (r5 & ev4 & -> & (S5 & Q5 & N5 & C5 & _) & E5). cbn [fst snd]. do 4 (split; [auto|]).
  rewrite !fp_dlv_app, (fp_dlv_nil _ E1), (fp_dlv_nil _ E2), (fp_dlv_nil _ E5), app_nil_r. reflexivity.
Qed.
Lemma rstep_core r o : o <> RPoll -> n_open (rn r) = 3 ->
  r_slots (fst (rstep gf r o)) = r_slots r /\ n_pgn (rn (fst (rstep gf r o))) = n_pgn (rn r) /\
  c_only_known (r_cfg (fst (rstep gf r o))) = c_only_known (r_cfg r) /\ r_q (fst (rstep gf r o)) = r_q r ++ frames_of [o] /\ fp_dlv (snd (rstep gf r o)) = [].
Proof.
  intros Ho Hop. destruct (rx_table_kept gf r o Hgf Ho) as (S & N & C & D). do 3 (split; [auto|]). split; [|exact D].
  assert (E3 : (n_open (rn r) =? 3) = true) by (rewrite Hop; reflexivity).
  destruct o as [o'| |f|iv off idev]; [| congruence | |]; cbn [rstep frames_of flat_map app]; rewrite ?app_nil_r.
  - destruct o' as [dt|pat|i m| |i]; try (destruct (step (rn r) _) as [n' ev]; reflexivity).
    rewrite E3. destruct (step (rn r) (OSend i m)) as [n' ev]. reflexivity.
  - reflexivity.
  - destruct ((iv =? 4294967295) && (off =? 65535)); [reflexivity|]. destruct (idev <? 0).
    + know (set_heartbeat_all (length (n_devs (rn r))) r 0 iv off). destruct K as (_ & Q & _). exact Q.
    + destruct (idev <? dev_count (rn r)); [|reflexivity]. know (set_heartbeat_all 1 r idev iv off). destruct K as (_ & Q & _). exact Q.
Qed.

Lemma rrun_RI : forall ops r p ds, RI p r ds -> p ++ r_q r ++ frames_of ops = pre ++ f0 :: mid ++ rest -> stays_open gf r ops ->
  exists p', RI p' (fst (rrun gf r ops)) (ds ++ fp_dlv (concat (snd (rrun gf r ops)))) /\ p' ++ r_q (fst (rrun gf r ops)) = pre ++ f0 :: mid ++ rest.
Proof.
  induction ops as [|o ops IH]; intros r p ds I Eq Hopen.
  - exists p. cbn [rrun fst snd concat frames_of flat_map] in *. rewrite !app_nil_r in *. auto.
  - pose proof (Hopen 0%nat) as Hop. cbn [firstn rrun fst] in Hop.
    assert (Hopen1 : stays_open gf (fst (rstep gf r o)) ops).
    { intros k. specialize (Hopen (S k)). cbn [firstn rrun] in Hopen. destruct (rstep gf r o) as [r1 ev]. cbn [fst]. destruct (rrun gf r1 (firstn k ops)) as [r2 evs]. exact Hopen. }
    rewrite frames_of_cons in Eq. cbn [rrun].
    destruct (rop_eq_poll o) as [->|Ho].
    + (* a poll *)
      cbn [rstep]. destruct (poll_core r Hop) as (ra & S & Q & N & C & X). cbv zeta in X. destruct X as (S1 & Q1 & N1 & C1 & D1).
      assert (Ia : RI p ra ds) by (eapply RI_core; [exact S|exact N|exact C|exact I]).
      assert (Eqa : p ++ r_q ra ++ frames_of ops = pre ++ f0 :: mid ++ rest) by (rewrite Q; cbn [frames_of flat_map app] in Eq; exact Eq).
      destruct (rx_loop_RI (Z.to_nat c_MaxReadFramesOnParse) ra p ds (frames_of ops) Ia Eqa) as [I2 Q2].
      set (pp := p ++ firstn (Z.to_nat c_MaxReadFramesOnParse) (r_q ra)) in *.
      assert (I3 : RI pp (fst (poll gf r)) (ds ++ fp_dlv (snd (poll gf r)))) by (rewrite D1; eapply RI_core; [exact S1|exact N1|exact C1|exact I2]).
      assert (Eq3 : pp ++ r_q (fst (poll gf r)) ++ frames_of ops = pre ++ f0 :: mid ++ rest).
      { rewrite Q1, Q2. unfold pp. rewrite <- app_assoc, (app_assoc (firstn _ _)), firstn_skipn. exact Eqa. }
      cbn [rstep] in Hopen1. destruct (poll gf r) as [r1 ev]. cbn [fst snd] in *.
      destruct (IH r1 pp _ I3 Eq3 Hopen1) as (p' & I4 & Eq4). destruct (rrun gf r1 ops) as [r2 evs]. cbn [fst snd concat] in *.
      exists p'. rewrite fp_dlv_app, app_assoc. auto.
    + destruct (rstep_core r o Ho Hop) as (S & N & C & Q & D).
      assert (I1 : RI p (fst (rstep gf r o)) (ds ++ fp_dlv (snd (rstep gf r o)))) by (rewrite D, app_nil_r; eapply RI_core; eauto).
      assert (Eq1 : p ++ r_q (fst (rstep gf r o)) ++ frames_of ops = pre ++ f0 :: mid ++ rest) by (rewrite Q, <- app_assoc; exact Eq).
      destruct (rstep gf r o) as [r1 ev]. cbn [fst snd] in *.
      destruct (IH r1 p _ I1 Eq1 Hopen1) as (p' & I4 & Eq4). destruct (rrun gf r1 ops) as [r2 evs]. cbn [fst snd concat] in *.
      exists p'. rewrite fp_dlv_app, app_assoc. auto.
Qed.
End Run.

Theorem rx_complete_run : rx_complete_run_stmt.
Proof.
  intros gf r0 ops pre f0 mid rest cs keys Hgf [Q0 Idle] Hopen Hlen Hkeys Hfs FF Hint Hseq Hc Hmin Hq.
  rewrite Hfs in Hkeys.
  assert (I0 : RI keys r0 pre f0 mid cs [] r0 []).
  { split.
    - split; [|auto]. apply rx_idle_cap. split; [reflexivity|exact Idle].
    - apply (ph_before _ _ _ _ _ _ _ pre). reflexivity. }
  assert (Eq0 : [] ++ r_q r0 ++ frames_of ops = pre ++ f0 :: mid ++ rest) by (rewrite Q0; exact Hfs).
  destruct (rrun_RI gf keys r0 pre f0 mid rest cs Hgf Hlen FF Hint Hseq Hc Hmin Hkeys ops r0 [] [] I0 Eq0 Hopen) as (p' & [_ P] & Eq).
  cbn [app] in P.
  assert (Hlp : (length pre + 1 + length mid <= length p')%nat).
  { apply (f_equal (@length rxframe)) in Eq. rewrite !app_length in Eq. cbn [length] in Eq. rewrite app_length in Eq. lia. }
  destruct P as [x E|m1 m2 dn td i t E1 E2 E3 E4 E5 E6 H|D]; [| |exact D]; exfalso.
  - apply (f_equal (@length rxframe)) in E. rewrite app_length in E. lia.
  - destruct m2 as [|g m2]; [apply interleaved_nil in E5; congruence|].
    rewrite E1, E2 in Hlp. rewrite !app_length in Hlp. cbn [length] in Hlp. lia.
Qed.
