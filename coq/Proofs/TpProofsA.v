(* C10 - ISO transport protocol: base lemmas (identifiers, byte layouts, chunking, the "ready device sends one frame" lemma,
   device-state bookkeeping) and the sender-side theorems. *)
From Coq Require Import ZArith List Bool Lia.
From N2kV Require Import Base.ListAux Model.CanId Model.Sched Model.PgnClass Model.NodeDefs Model.NodeRxDefs Gen.GenTables Gen.GenConsts
  Spec.SendSpec Spec.TpSpec Proofs.SendProofs.
Import ListNotations.
Local Open Scope Z_scope.

Local Ltac dm := Z.div_mod_to_equations; lia.

(* ================= identifiers ================= *)
Lemma tp_cm_id_ok src dst : 0 <= src < 256 -> 0 <= dst < 256 -> to_can_id 6 60416 src dst = tp_cm_id src dst.
Proof.
  intros Hs Hd. rewrite to_can_id_arith by (unfold id_args_ok; change (2^17) with 131072; lia).
  change ((60416 / 256) mod 256 <? 240) with true. change (negb (60416 mod 256 =? 0)) with false. cbv iota. unfold tp_cm_id. lia.
Qed.
Lemma tp_dt_id_ok src dst : 0 <= src < 256 -> 0 <= dst < 256 -> to_can_id 6 60160 src dst = tp_dt_id src dst.
Proof.
  intros Hs Hd. rewrite to_can_id_arith by (unfold id_args_ok; change (2^17) with 131072; lia).
  change ((60160 / 256) mod 256 <? 240) with true. change (negb (60160 mod 256 =? 0)) with false. cbv iota. unfold tp_dt_id. lia.
Qed.

(* ================= bytes ================= *)
Lemma le_bytes2 v : le_bytes 2 v = [b0 v; b1 v].
Proof. unfold le_bytes, b0, b1. cbn [seq map Z.of_nat Z.pow Pos.of_succ_nat Pos.succ]. rewrite Z.div_1_r. reflexivity. Qed.
Lemma le_bytes3 v : le_bytes 3 v = [b0 v; b1 v; b2 v].
Proof. unfold le_bytes, b0, b1, b2. cbn [seq map Z.of_nat Pos.of_succ_nat Pos.succ]. rewrite Z.div_1_r. reflexivity. Qed.
Lemma le3_bytes a b c d e pgn : 0 <= pgn < 2^24 -> le3 [a; b; c; d; e; b0 pgn; b1 pgn; b2 pgn] 5 = pgn.
Proof. intros H. change (2^24) with 16777216 in H. unfold le3, byte, b0, b1, b2. cbn [nth Nat.add]. dm. Qed.
Lemma size_bytes size : 0 <= size < 65536 -> b0 size + 256 * b1 size = size.
Proof. intros H. unfold b0, b1. dm. Qed.
Lemma tp_packets_npackets len : 0 <= len -> tp_packets len = npackets len.
Proof.
  intros H. unfold tp_packets, npackets. destruct (Z.eqb_spec (len mod 7) 0); cbn [negb]; dm.
Qed.
Lemma npackets_bounds len : 9 <= len <= 223 -> 2 <= npackets len <= 32 /\ 7 * (npackets len - 1) < len <= 7 * npackets len.
Proof. intros H. unfold npackets. dm. Qed.
Lemma u8_small x : 0 <= x < 256 -> u8 x = x.
Proof. intros H. unfold u8. apply Z.mod_small. exact H. Qed.

(* ================= chunking ================= *)
Lemma pad_nth {A} (d:A) : forall n (l:list A), firstn n l ++ repeat d (n - length (firstn n l)) = map (fun j => nth j l d) (seq 0 n).
Proof.
  induction n as [|n IH]; intros l; [reflexivity|].
  cbn [seq map]. rewrite <- seq_shift, map_map.
  destruct l as [|x l].
  - cbn [firstn length app Nat.sub repeat nth]. f_equal.
    specialize (IH []). rewrite firstn_nil in IH. cbn [length app] in IH. rewrite Nat.sub_0_r in IH. rewrite IH.
    apply map_ext. intros [|a]; reflexivity.
  - cbn [firstn length app Nat.sub nth]. f_equal. apply IH.
Qed.
Lemma nth_skipn {A} (d:A) : forall a (l:list A) j, nth j (skipn a l) d = nth (a + j) l d.
Proof. induction a as [|a IH]; intros [|x l] j; cbn [skipn nth Nat.add]; try reflexivity; [destruct j; reflexivity|apply IH]. Qed.
Lemma chunk_model p sq : 0 <= sq -> pad_ff 7 (firstn 7 (skipn (Z.to_nat (sq * 7)) p)) = chunk7 p (S (Z.to_nat sq)).
Proof.
  intros H. unfold pad_ff, chunk7. rewrite pad_nth. apply map_ext. intros j. rewrite nth_skipn. f_equal.
  rewrite Z2Nat.inj_mul by lia. change (Z.to_nat 7) with 7%nat. lia.
Qed.
Lemma chunk7_length p k : length (chunk7 p k) = 7%nat.
Proof. unfold chunk7. rewrite map_length, seq_length. reflexivity. Qed.

(* ================= record bookkeeping ================= *)
Lemma upd_q_id n : n_drv n = [] -> upd_q n (n_q n) [] = n.
Proof. destruct n. cbn. intros ->. reflexivity. Qed.
Lemma with_rn_id r : with_rn r (rn r) = r.  Proof. destruct r; reflexivity. Qed.
Lemma with_slots_id r : with_slots r (r_slots r) = r.  Proof. destruct r; reflexivity. Qed.

Lemma nth_set_nth' {A} (l:list A) : forall a k v d,
  nth k (set_nth l a v) d = if (k =? a)%nat && (a <? length l)%nat then v else nth k l d.
Proof.
  induction l as [|x l IH]; intros a k v d.
  - cbn [set_nth length]. destruct a; rewrite andb_false_r; reflexivity.
  - destruct a as [|a]; destruct k as [|k]; cbn [set_nth nth length]; try reflexivity. rewrite IH. reflexivity.
Qed.
Lemma get_upd_same n i d : 0 <= i < dev_count n -> get_dev (upd_dev n i d) i = d.
Proof.
  intros H. unfold get_dev, upd_dev, znth, zset, dev_count in *. cbn [n_devs]. rewrite nth_set_nth', Nat.eqb_refl.
  destruct (Nat.ltb_spec (Z.to_nat i) (length (n_devs n))); [reflexivity|lia].
Qed.
Lemma get_upd_src n i d j : d_src d = d_src (get_dev n i) -> d_src (get_dev (upd_dev n i d) j) = d_src (get_dev n j).
Proof.
  intros H. unfold get_dev, upd_dev, znth, zset in *. cbn [n_devs]. rewrite nth_set_nth'.
  destruct (Nat.eqb_spec (Z.to_nat j) (Z.to_nat i)) as [E|E]; cbn [andb]; [|reflexivity].
  destruct (Z.to_nat i <? length (n_devs n))%nat; [|reflexivity]. rewrite H, E. reflexivity.
Qed.
Lemma upd_count n i d : dev_count (upd_dev n i d) = dev_count n.
Proof. unfold dev_count, upd_dev, zset. cbn [n_devs]. rewrite set_nth_length. reflexivity. Qed.
Lemma set_nth_twice {A} (l:list A) : forall i v w, set_nth (set_nth l i v) i w = set_nth l i w.
Proof. induction l as [|x l IH]; intros [|i] v w; cbn [set_nth]; try reflexivity. rewrite IH. reflexivity. Qed.
Lemma upd_dev_twice n i d d' : upd_dev (upd_dev n i d) i d' = upd_dev n i d'.
Proof. unfold upd_dev, zset. cbn [n_devs n_w64 n_mode n_open n_now n_pgn n_q n_drv n_addr_changed]. rewrite set_nth_twice. reflexivity. Qed.

(* ntp_state *)
Lemma ntp_get n i tp t s p : 0 <= i < dev_count n -> get_dev (ntp_state n i tp t s p) i = set_tp (get_dev n i) (n_w64 n) tp t s p.
Proof. intros H. unfold ntp_state. apply get_upd_same. exact H. Qed.
Lemma ntp_twice n i tp t s p tp' t' s' p' : 0 <= i < dev_count n ->
  ntp_state (ntp_state n i tp t s p) i tp' t' s' p' = ntp_state n i tp' t' s' p'.
Proof.
  intros H. unfold ntp_state at 1. rewrite ntp_get by exact H. unfold ntp_state. rewrite upd_dev_twice. reflexivity.
Qed.
Lemma ntp_src n i tp t s p j : d_src (get_dev (ntp_state n i tp t s p) j) = d_src (get_dev n j).
Proof. unfold ntp_state. apply get_upd_src. reflexivity. Qed.
Lemma ntp_count n i tp t s p : dev_count (ntp_state n i tp t s p) = dev_count n.
Proof. apply upd_count. Qed.
Lemma ntp_ready n i tp t s p : tp_ready n i -> tp_ready (ntp_state n i tp t s p) i.
Proof.
  intros (Ho & Hm & Hi & Hd & Hq & Hs & Hc & Hf1 & Hf2). unfold tp_ready. rewrite ntp_count, ntp_src, ntp_get by exact Hi.
  unfold ntp_state. cbn [upd_dev n_open n_mode n_drv n_q n_w64 n_pgn set_tp d_claim_timer]. repeat split; assumption || lia.
Qed.

(* ================= the address-claim test on a ready device, the gate ================= *)
Lemma claim_ready n i : sched_is_enabled (n_w64 n) (d_claim_timer (get_dev n i)) = false -> claim_started n i = (n, false).
Proof. intros H. unfold claim_started. rewrite H. reflexivity. Qed.

Lemma gate_node n m i : tp_ready n i -> fst (send_gate n m i) = n.
Proof.
  intros (Ho & Hm & Hi & Hd & Hq & Hs & Hc & Hf1 & Hf2). unfold send_gate.
  destruct (negb (n_open n =? 3)); [reflexivity|]. destruct (i >=? dev_count n); [reflexivity|].
  destruct (Z.geb_spec i 0); [|lia].
  destruct ((d_src (get_dev n i) >? c_N2kMaxCanBusAddress) && negb (m_pgn m =? c_N2kPGNIsoAddressClaim)); [reflexivity|].
  destruct (to_can_id _ _ _ _ =? 0); [reflexivity|]. destruct (n_mode n =? 0); [reflexivity|]. destruct (m_pgn m =? 0); [reflexivity|].
  rewrite (claim_ready n i Hc). destruct (false && _); reflexivity.
Qed.

(* the gate lets a message through when its identifier can be built *)
Lemma gate_through n m i : tp_ready n i -> m_pgn m <> 0 ->
  let dst := if negb (Z.land (m_pgn m) 255 =? 0) then 255 else m_dst m in
  to_can_id (m_pri m) (m_pgn m) (d_src (get_dev n i)) dst <> 0 ->
  send_gate n m i = (n, Some ({| m_pri := m_pri m; m_pgn := m_pgn m; m_src := d_src (get_dev n i); m_dst := dst; m_data := m_data m; m_tp := m_tp m |}, i,
                               to_can_id (m_pri m) (m_pgn m) (d_src (get_dev n i)) dst)).
Proof.
  intros (Ho & Hm & Hi & Hd & Hq & Hs & Hc & Hf1 & Hf2) Hp dst Hid. unfold send_gate. fold dst.
  rewrite Ho. cbn [Z.eqb Pos.eqb negb].
  destruct (Z.geb_spec i (dev_count n)); [lia|]. destruct (Z.geb_spec i 0); [|lia].
  destruct (Z.gtb_spec (d_src (get_dev n i)) c_N2kMaxCanBusAddress); [unfold c_N2kMaxCanBusAddress in *; lia|]. cbn [andb].
  destruct (Z.eqb_spec (to_can_id (m_pri m) (m_pgn m) (d_src (get_dev n i)) dst) 0); [contradiction|].
  destruct (Z.eqb_spec (n_mode n) 0); [lia|]. destruct (Z.eqb_spec (m_pgn m) 0); [contradiction|].
  rewrite (claim_ready n i Hc). cbn [andb]. reflexivity.
Qed.

(* a ready device hands one 8-byte transport frame to the driver and nothing else changes *)
Lemma send_single n m i : tp_ready n i -> m_pri m = 6 -> m_pgn m = 60416 \/ m_pgn m = 60160 -> m_tp m = false ->
  length (m_data m) = 8%nat -> 0 <= m_dst m < 256 ->
  send_msg0 n m i = (n, [EvTx (to_can_id 6 (m_pgn m) (d_src (get_dev n i)) (m_dst m)) 8 (m_data m) true], true) /\
  send_msg n m i = (n, [EvTx (to_can_id 6 (m_pgn m) (d_src (get_dev n i)) (m_dst m)) 8 (m_data m) true], true).
Proof.
  intros R Hp Hg Ht Hl Hdst. pose proof R as (Ho & Hm & Hi & Hd & Hq & Hs & Hc & Hf1 & Hf2).
  assert (L: (if negb (Z.land (m_pgn m) 255 =? 0) then 255 else m_dst m) = m_dst m) by (destruct Hg as [-> | ->]; reflexivity).
  assert (Hid: to_can_id (m_pri m) (m_pgn m) (d_src (get_dev n i)) (m_dst m) <> 0).
  { rewrite Hp. destruct Hg as [-> | ->]; [rewrite tp_cm_id_ok by lia; unfold tp_cm_id|rewrite tp_dt_id_ok by lia; unfold tp_dt_id]; lia. }
  pose proof (gate_through n m i R) as G. cbv zeta in G. rewrite L in G.
  specialize (G ltac:(destruct Hg as [-> | ->]; discriminate) Hid). rewrite Hp in G.
  assert (S0: send_msg0 n m i = (n, [EvTx (to_can_id 6 (m_pgn m) (d_src (get_dev n i)) (m_dst m)) 8 (m_data m) true], true)).
  { unfold send_msg0. rewrite G. unfold m_len. cbn [m_data m_pri m_pgn]. rewrite Hl. change (Z.of_nat 8 <=? 8) with true.
    unfold is_fast_packet. cbn [m_pri m_pgn]. change (6 >=? 128) with false.
    assert (F: is_fast_packet_pgn (n_pgn n) (m_pgn m) = false) by (destruct Hg as [-> | ->]; assumption). rewrite F. cbn [negb andb].
    rewrite Hd, send_frame_empty by exact Hq. cbv beta iota. change (Z.to_nat (Z.of_nat 8)) with 8%nat.
    rewrite <- Hl at 2. rewrite firstn_all. rewrite upd_q_id by exact Hd. reflexivity. }
  split; [exact S0|]. unfold send_msg. rewrite G. cbn [m_tp]. rewrite Ht, andb_false_r. exact S0.
Qed.

(* ================= FindSourceDeviceIndex ================= *)
Lemma find_src_spec : forall devs a i0 k,
  (k < length devs)%nat -> d_src (nth k devs ddev) = a -> (forall j, (j < k)%nat -> d_src (nth j devs ddev) <> a) ->
  find_src devs a i0 = i0 + Z.of_nat k.
Proof.
  induction devs as [|d devs IH]; intros a i0 k Hk Ha Hb; [cbn in Hk; lia|].
  cbn [find_src]. destruct k as [|k].
  - cbn [nth] in Ha. rewrite Ha, Z.eqb_refl. lia.
  - destruct (Z.eqb_spec (d_src d) a) as [E|E]; [exfalso; apply (Hb 0%nat); [lia|exact E]|].
    rewrite (IH a (i0 + 1) k); [lia|cbn in Hk; lia|exact Ha|]. intros j Hj. apply (Hb (S j)). lia.
Qed.
Lemma addressed_find r a i : addressed r a i -> find_source_device r a = i.
Proof.
  intros (Hi & Ha & Hr & Hb). unfold find_source_device. destruct (Z.leb_spec a 253); [|lia].
  unfold get_dev, znth, dev_count in *. rewrite (find_src_spec _ a 0 (Z.to_nat i)); [lia|lia|exact Ha|].
  intros j Hj. specialize (Hb (Z.of_nat j)). rewrite Nat2Z.id in Hb. apply Hb. lia.
Qed.

(* tp_state *)
Lemma tp_state_twice r i tp t s p tp' t' s' p' : 0 <= i < dev_count (rn r) ->
  tp_state (tp_state r i tp t s p) i tp' t' s' p' = tp_state r i tp' t' s' p'.
Proof. intros H. unfold tp_state. cbn [with_rn rn rx_dev r_slots r_q r_cfg r_open_sched r_sync r_devinfo_changed r_oob r_clk]. rewrite ntp_twice by exact H. reflexivity. Qed.
Lemma chk_dev_ok r i : 0 <= i < dev_count (rn r) -> chk_dev r i = r.
Proof. intros H. unfold chk_dev. destruct (Z.leb_spec 0 i); [|lia]. destruct (Z.ltb_spec i (dev_count (rn r))); [reflexivity|lia]. Qed.
Lemma chk_slot_ok r i : 0 <= i < nslots r -> chk_slot r i = r.
Proof. intros H. unfold chk_slot. destruct (Z.leb_spec 0 i); [|lia]. destruct (Z.ltb_spec i (nslots r)); [reflexivity|lia]. Qed.
Lemma set_dev_tp_state r i tp t s : 0 <= i < dev_count (rn r) -> set_dev_tp r i tp t s = tp_state r i tp t s (d_has_pending (get_dev (rn r) i)).
Proof. intros H. unfold set_dev_tp. rewrite chk_dev_ok by exact H. reflexivity. Qed.
Lemma end_send_state r i : 0 <= i < dev_count (rn r) -> end_send_tp_r r i = ended r i.
Proof. intros H. unfold end_send_tp_r. rewrite chk_dev_ok by exact H. reflexivity. Qed.
Lemma addressed_tp_state r a i j tp t s p : addressed r a i -> addressed (tp_state r j tp t s p) a i.
Proof.
  intros (Hi & Ha & Hr & Hb). unfold addressed, tp_state. cbn [with_rn rn]. rewrite ntp_count, ntp_src. repeat split; try assumption; try lia.
  intros k Hk. rewrite ntp_src. apply Hb. exact Hk.
Qed.
Lemma rsend_single r m i : tp_ready (rn r) i -> m_pri m = 6 -> m_pgn m = 60416 \/ m_pgn m = 60160 -> m_tp m = false ->
  length (m_data m) = 8%nat -> 0 <= m_dst m < 256 ->
  rsend r m i = (r, [EvTx (to_can_id 6 (m_pgn m) (d_src (get_dev (rn r) i)) (m_dst m)) 8 (m_data m) true], true).
Proof.
  intros R Hp Hg Ht Hl Hd. unfold rsend. destruct (send_single (rn r) m i R Hp Hg Ht Hl Hd) as [_ E]. rewrite E, with_rn_id. reflexivity.
Qed.
