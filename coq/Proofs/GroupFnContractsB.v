(* Two more contracts for the library's group function handlers [gf_lib] (Model/GroupFnDefs.v), both without any hypothesis on the node:
   1. gf_lib is "static" (Proofs/HbProofsFrame.v, rstatic): scheduler build, mode, open state, clock, PGN configuration, SyncOffset and the
      sizes of the device / slot tables stay.  Hence the contract of C12 (Spec/HbSpec.v, gf_keeps_mode).
   2. the contract of C04 (Spec/GateSpec.v, gf_ok): whatever the handlers do is a run of the abstract send machine without forwarding -
      every frame goes through SendMsg for a device index >= 0, everything else leaves addresses, claim timers, queue and driver alone. *)
From Coq Require Import ZArith List Bool Lia.
From N2kV Require Import Base.ListAux Model.CanId Model.Sched Model.PgnClass Model.NodeDefs Model.NodeRxDefs Gen.GenTables Gen.GenConsts
  Spec.SendSpec Spec.GateSpec Spec.HbSpec Proofs.SendProofs Proofs.HbProofsFrame Proofs.GateProofsA Proofs.GateProofsB.
From N2kV Require Import Model.GroupFnDefs.
Import ListNotations.
Local Open Scope Z_scope.

(* ================= 1. static ================= *)
Lemma set_conf_strings_st r s1 s2 : rstatic r (set_conf_strings r s1 s2).
Proof. unfold rstatic, nstatic. cbn [set_conf_strings rn rx_dev r_slots r_sync]. repeat split. Qed.
Lemma set_oob_st r : rstatic r (set_oob r).
Proof. unfold rstatic, nstatic. cbn [set_oob rn rx_dev r_slots r_sync]. repeat split. Qed.
Lemma with_dic_st r : rstatic r (with_devinfo_changed r).
Proof. unfold rstatic, nstatic. cbn [with_devinfo_changed rn rx_dev r_slots r_sync]. repeat split. Qed.
Lemma pend_claim_st r i : rstatic r (pend_claim r i).
Proof. unfold pend_claim. destruct (_ || _); [apply rstatic_refl|apply set_pending_st]. Qed.
Lemma send_step_st r m i : rstatic r (fst (let '(r1, ev, _) := rsend r m i in (r1, ev))).
Proof. pose proof (rsend_st r m i) as S. destruct (rsend r m i) as [[r1 ev] ok]. exact S. Qed.
Lemma send_ack_st r i dst d : rstatic r (fst (send_ack r i dst d)).
Proof.
  unfold send_ack. cbv zeta. eapply rstatic_trans; [|apply send_step_st]. destruct (_ >? _); [apply set_oob_st|apply rstatic_refl].
Qed.
Lemma send_tx_list_st r i dst tp : rstatic r (fst (send_tx_list r i dst tp)).
Proof. unfold send_tx_list. cbv zeta. eapply rstatic_trans; [apply (chk_dev_st r i)|apply send_step_st]. Qed.
Lemma send_rx_list_st r i dst tp : rstatic r (fst (send_rx_list r i dst tp)).
Proof. unfold send_rx_list. cbv zeta. eapply rstatic_trans; [apply (chk_dev_st r i)|apply send_step_st]. Qed.
Lemma send_heartbeat_forced_st r i : rstatic r (fst (send_heartbeat_forced r i)).
Proof. unfold send_heartbeat_forced. destruct (negb _); [apply rstatic_refl|]. cbv zeta. eapply rstatic_trans; [apply (chk_dev_st r i)|apply send_step_st]. Qed.
Lemma send_product_info_to_st r i dst tp : rstatic r (fst (send_product_info_to r i dst tp)).
Proof.
  unfold send_product_info_to. cbv zeta. pose proof (chk_dev_st r i) as S0. set (rc := chk_dev r i) in *.
  match goal with |- context [rsend rc ?m i] => pose proof (rsend_st rc m i) as S; destruct (rsend rc m i) as [[r1 ev] ok] end.
  cbn [fst snd] in *. eapply rstatic_trans; [exact S0|]. eapply rstatic_trans; [exact S|apply set_pending_st].
Qed.
Lemma send_config_info_to_st r i dst tp : rstatic r (fst (send_config_info_to r i dst tp)).
Proof.
  unfold send_config_info_to. cbv zeta. pose proof (chk_dev_st r i) as S0. set (rc := chk_dev r i) in *.
  match goal with |- context [rsend rc ?m i] => pose proof (rsend_st rc m i) as S; destruct (rsend rc m i) as [[r1 ev] ok] end.
  cbn [fst snd] in *. eapply rstatic_trans; [exact S0|]. eapply rstatic_trans; [exact S|apply set_pending_st].
Qed.
Lemma set_instances_st r i lo up si : rstatic r (set_instances r i lo up si).
Proof.
  unfold set_instances. cbv zeta. pose proof (chk_dev_st r i) as S0. set (rc := chk_dev r i) in *.
  match goal with |- context [if ?c then rc else ?x] => set (r1 := if c then rc else x) end.
  assert (S1: rstatic r r1).
  { unfold r1. destruct (_ =? _); [exact S0|]. eapply rstatic_trans; [exact S0|]. eapply rstatic_trans; [apply set_name_st|apply with_dic_st]. }
  match goal with |- context [if ?c then with_devinfo_changed ?x else r1] => set (r2 := if c then with_devinfo_changed x else r1) end.
  assert (S2: rstatic r r2).
  { unfold r2. destruct (negb _ && negb _); [|exact S1]. eapply rstatic_trans; [exact S1|]. eapply rstatic_trans; [apply set_name_st|apply with_dic_st]. }
  destruct (is_ready_to_send (rn r2)); [|exact S2]. eapply rstatic_trans; [exact S2|apply pend_claim_st].
Qed.

Lemma gf_exec_st r i a : rstatic r (fst (gf_exec r i a)).
Proof.
  destruct a as [|dst ack| |dst tp sel|dst tp|dst tp|iv off|dst ack lo up si|dst ack s1 s2 chg]; cbn [gf_exec].
  - apply rstatic_refl.
  - apply send_ack_st.
  - apply pend_claim_st.
  - match goal with |- context [if ?c then send_tx_list r i dst tp else (r, [])] =>
      assert (S1: rstatic r (fst (if c then send_tx_list r i dst tp else (r, [])))) by (destruct c; [apply send_tx_list_st|apply rstatic_refl]);
      destruct (if c then send_tx_list r i dst tp else (r, [])) as [r1 ev1] end.
    cbn [fst] in S1.
    match goal with |- context [if ?c then send_rx_list r1 i dst tp else (r1, [])] =>
      assert (S2: rstatic r1 (fst (if c then send_rx_list r1 i dst tp else (r1, [])))) by (destruct c; [apply send_rx_list_st|apply rstatic_refl]);
      destruct (if c then send_rx_list r1 i dst tp else (r1, [])) as [r2 ev2] end.
    cbn [fst] in *. eapply rstatic_trans; eassumption.
  - apply send_product_info_to_st.
  - apply send_config_info_to_st.
  - eapply rstatic_trans; [|apply send_heartbeat_forced_st]. destruct (_ && _); [apply rstatic_refl|apply set_heartbeat_all_st].
  - pose proof (send_ack_st r i dst ack) as S. destruct (send_ack r i dst ack) as [r1 ev]. cbn [fst] in *.
    eapply rstatic_trans; [exact S|apply set_instances_st].
  - eapply rstatic_trans; [|apply send_ack_st]. destruct chg; [apply set_conf_strings_st|apply rstatic_refl].
Qed.
Lemma respond_gf_st r g i : rstatic r (fst (respond_gf r g i)).
Proof. unfold respond_gf. cbv zeta. eapply rstatic_trans; [apply (chk_dev_st r i)|apply gf_exec_st]. Qed.
Lemma respond_gf_all_st g : forall k r i, rstatic r (fst (respond_gf_all k r g i)).
Proof.
  induction k as [|k IH]; intros r i; cbn [respond_gf_all]; [apply rstatic_refl|].
  pose proof (respond_gf_st r g i) as S1. destruct (respond_gf r g i) as [r1 ev1].
  pose proof (IH r1 (i + 1)) as S2. destruct (respond_gf_all k r1 g (i + 1)) as [r2 ev2]. cbn [fst] in *. eapply rstatic_trans; eassumption.
Qed.
Theorem gf_lib_static r s : rstatic r (fst (gf_lib r s)).
Proof.
  unfold gf_lib. cbv zeta. destruct (negb _ && _); [apply rstatic_refl|].
  destruct (s_dst s =? 255); [apply respond_gf_all_st|apply respond_gf_st].
Qed.

(* the contract of C12 *)
Theorem gf_lib_keeps_mode : gf_keeps_mode gf_lib.
Proof. unfold gf_keeps_mode. intros r s. destruct (gf_lib_static r s) as [(_ & M & _) _]. exact M. Qed.

(* ================= 2. a run of the send machine ================= *)
Lemma rn_set_conf_strings r s1 s2 : rn (set_conf_strings r s1 s2) = rn r.  Proof. reflexivity. Qed.
Lemma rn_pend_claim r i : rn (pend_claim r i) = rn r.
Proof. unfold pend_claim. destruct (_ || _); [reflexivity|apply rn_set_pending]. Qed.

Lemma send_step_nr n Y m i r2 ev : (let '(r1, ev, _) := rsend Y m i in (r1, ev)) = (r2, ev) -> 0 <= i -> NR n [] (rn Y) -> NR n ev (rn r2).
Proof.
  intros H Hi A. destruct (rsend Y m i) as [[r1 ev1] ok] eqn:E. injection H as <- <-. eapply rsend_nr; [exact E|exact Hi|exact A].
Qed.
Lemma send_ack_nr n Y i dst d r2 ev : send_ack Y i dst d = (r2, ev) -> 0 <= i -> NR n [] (rn Y) -> NR n ev (rn r2).
Proof.
  unfold send_ack. cbv zeta. intros H Hi A. eapply send_step_nr; [exact H|exact Hi|]. destruct (_ >? _); nr.
Qed.
Lemma send_tx_list_nr n Y i dst tp r2 ev : send_tx_list Y i dst tp = (r2, ev) -> 0 <= i -> NR n [] (rn Y) -> NR n ev (rn r2).
Proof. unfold send_tx_list. cbv zeta. intros H Hi A. eapply send_step_nr; [exact H|exact Hi|nr]. Qed.
Lemma send_rx_list_nr n Y i dst tp r2 ev : send_rx_list Y i dst tp = (r2, ev) -> 0 <= i -> NR n [] (rn Y) -> NR n ev (rn r2).
Proof. unfold send_rx_list. cbv zeta. intros H Hi A. eapply send_step_nr; [exact H|exact Hi|nr]. Qed.
Lemma send_heartbeat_forced_nr n Y i r2 ev : send_heartbeat_forced Y i = (r2, ev) -> 0 <= i -> NR n [] (rn Y) -> NR n ev (rn r2).
Proof.
  unfold send_heartbeat_forced. destruct (negb _); [intros H Hi A; injection H as <- <-; exact A|].
  cbv zeta. intros H Hi A. eapply send_step_nr; [exact H|exact Hi|nr].
Qed.
Lemma send_product_info_to_nr n Y i dst tp r2 ev : send_product_info_to Y i dst tp = (r2, ev) -> 0 <= i -> NR n [] (rn Y) -> NR n ev (rn r2).
Proof.
  unfold send_product_info_to. intros H Hi A. cbv zeta in H. destruct (rsend _ _ i) as [[r1 ev1] ok] eqn:E. injection H as <- <-.
  rewrite rn_set_pending. eapply rsend_nr; [exact E|exact Hi|nr].
Qed.
Lemma send_config_info_to_nr n Y i dst tp r2 ev : send_config_info_to Y i dst tp = (r2, ev) -> 0 <= i -> NR n [] (rn Y) -> NR n ev (rn r2).
Proof.
  unfold send_config_info_to. intros H Hi A. cbv zeta in H. destruct (rsend _ _ i) as [[r1 ev1] ok] eqn:E. injection H as <- <-.
  rewrite rn_set_pending. eapply rsend_nr; [exact E|exact Hi|nr].
Qed.
(* SetDeviceInformationInstances rewrites the NAME (address and claim timer stay) and schedules a claim *)
Lemma set_instances_nr n ev Y i lo up si : NR n ev (rn Y) -> NR n ev (rn (set_instances Y i lo up si)).
Proof.
  intros A. unfold set_instances. cbv zeta. set (rc := chk_dev Y i).
  assert (A0: NR n ev (rn rc)) by (unfold rc; rewrite rn_chk_dev; exact A).
  match goal with |- context [if ?c then rc else ?x] => set (r1 := if c then rc else x) end.
  assert (A1: NR n ev (rn r1)).
  { unfold r1. destruct (_ =? _); [exact A0|]. cbn [rn with_devinfo_changed]. eapply NR_quiet_r; [apply qc_set_name|exact A0]. }
  match goal with |- context [if ?c then with_devinfo_changed ?x else r1] => set (r2 := if c then with_devinfo_changed x else r1) end.
  assert (A2: NR n ev (rn r2)).
  { unfold r2. destruct (negb _ && negb _); [|exact A1]. cbn [rn with_devinfo_changed]. eapply NR_quiet_r; [apply qc_set_name|exact A1]. }
  destruct (is_ready_to_send (rn r2)); [rewrite rn_pend_claim|]; exact A2.
Qed.

Lemma gf_exec_nr r i a r2 ev : gf_exec r i a = (r2, ev) -> 0 <= i -> NR (rn r) ev (rn r2).
Proof.
  intros H Hi. destruct a as [|dst ack| |dst tp sel|dst tp|dst tp|iv off|dst ack lo up si|dst ack s1 s2 chg]; cbn [gf_exec] in H.
  - injection H as <- <-. apply NR_refl.
  - eapply send_ack_nr; [exact H|exact Hi|apply NR_refl].
  - injection H as <- <-. rewrite rn_pend_claim. apply NR_refl.
  - destruct (if (sel =? 0) || (sel =? 255) then send_tx_list r i dst tp else (r, [])) as [r1 ev1] eqn:E1.
    destruct (if (sel =? 1) || (sel =? 255) then send_rx_list r1 i dst tp else (r1, [])) as [r2' ev2] eqn:E2.
    injection H as <- <-. eapply NR_trans.
    + destruct ((sel =? 0) || (sel =? 255)); [eapply send_tx_list_nr; [exact E1|exact Hi|apply NR_refl]|injection E1 as <- <-; apply NR_refl].
    + destruct ((sel =? 1) || (sel =? 255)); [eapply send_rx_list_nr; [exact E2|exact Hi|apply NR_refl]|injection E2 as <- <-; apply NR_refl].
  - eapply send_product_info_to_nr; [exact H|exact Hi|apply NR_refl].
  - eapply send_config_info_to_nr; [exact H|exact Hi|apply NR_refl].
  - eapply send_heartbeat_forced_nr; [exact H|exact Hi|]. destruct (_ && _); [apply NR_refl|rewrite rn_set_heartbeat_all; apply NR_refl].
  - destruct (send_ack r i dst ack) as [r1 ev1] eqn:E. injection H as <- <-. apply set_instances_nr.
    eapply send_ack_nr; [exact E|exact Hi|apply NR_refl].
  - eapply send_ack_nr; [exact H|exact Hi|]. destruct chg; [rewrite rn_set_conf_strings|]; apply NR_refl.
Qed.
Lemma respond_gf_nr r g i r2 ev : respond_gf r g i = (r2, ev) -> 0 <= i -> NR (rn r) ev (rn r2).
Proof.
  unfold respond_gf. cbv zeta. intros H Hi. rewrite <- (rn_chk_dev r i). eapply gf_exec_nr; [exact H|exact Hi].
Qed.
Lemma respond_gf_all_nr g : forall k r i r2 ev, respond_gf_all k r g i = (r2, ev) -> 0 <= i -> NR (rn r) ev (rn r2).
Proof.
  induction k as [|k IH]; intros r i r2 ev H Hi; cbn [respond_gf_all] in H.
  - injection H as <- <-. apply NR_refl.
  - destruct (respond_gf r g i) as [r1 ev1] eqn:E1. destruct (respond_gf_all k r1 g (i + 1)) as [r2' ev2] eqn:E2.
    injection H as <- <-. eapply NR_trans; [eapply respond_gf_nr; eassumption|eapply IH; [exact E2|lia]].
Qed.

(* the contract of C04 *)
Theorem gf_lib_gate_ok : GateSpec.gf_ok gf_lib.
Proof.
  unfold GateSpec.gf_ok. intros r s r' ev H. change (NR (rn r) ev (rn r')).
  unfold gf_lib in H. cbv zeta in H.
  destruct (negb (s_dst s =? 255) && (find_source_device r (s_dst s) =? -1)) eqn:E0; [injection H as <- <-; apply NR_refl|].
  destruct (s_dst s =? 255) eqn:E1.
  - eapply respond_gf_all_nr; [exact H|lia].
  - cbn [negb andb] in E0. apply Z.eqb_neq in E0. eapply respond_gf_nr; [exact H|].
    destruct (find_source_device_ge r (s_dst s)); [contradiction|assumption].
Qed.

Print Assumptions gf_lib_static.
Print Assumptions gf_lib_keeps_mode.
Print Assumptions gf_lib_gate_ok.
