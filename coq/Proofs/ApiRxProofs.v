(* C02 lifted to the public application calls (Model/ApiDefs.v), part 1: what one call does to reception, and the safety theorems over
   extended histories.  Statements in Spec/ApiRxSpec.v. *)
From Coq Require Import ZArith List Bool Lia Permutation.
From N2kV Require Import Base.ListAux Model.CanId Model.Sched Model.PgnClass Model.NodeDefs Model.NodeRxDefs Model.GroupFnDefs Model.SetModeDefs
  Model.ApiDefs Gen.GenTables Gen.GenConsts
  Spec.SendSpec Spec.RxSpec Spec.ApiRxSpec Proofs.SendProofs Proofs.RxProofsA Proofs.RxProofsB Proofs.RxProofsC Proofs.RxProofsD
  Proofs.GroupFnContractsA.
From N2kV Require Proofs.HbProofsFrame.
Import ListNotations.
Local Open Scope Z_scope.

(* with_devx_k unifies (by unfolding) with set_pending and would shadow set_pending_k; with_devx is transparent to the projections *)
#[local] Remove Hints with_devx_k : rxk.
#[local] Hint Resolve set_conf_strings_k set_oob_k pend_claim_k send_ack_k send_tx_list_k send_rx_list_k
  send_config_info_to_k set_instances_k : rxk.
Ltac abs_rn ::=
  repeat match goal with
  | |- context [set_src ?r ?i ?a ?b] => abs_one (set_src r i a b)
  | |- context [set_name ?r ?i ?a] => abs_one (set_name r i a)
  | |- context [set_pending ?r ?i ?a ?b ?c] => abs_one (set_pending r i a b c)
  | |- context [set_instances ?r ?i ?a ?b ?c] => abs_one (set_instances r i a b c)
  end.

(* ---------------- the relation: everything reception looks at is kept, except that the driver queue may have been emptied ---------------- *)
Definition wrx (r r':rnode) : Prop :=
  r_slots r' = r_slots r /\ n_pgn (rn r') = n_pgn (rn r) /\ c_only_known (r_cfg r') = c_only_known (r_cfg r) /\ n_now (rn r') = n_now (rn r) /\
  (r_q r' = r_q r \/ r_q r' = []).
Definition wq2 (r:rnode) (x:rnode * list event) : Prop := wrx r (fst x) /\ dlv_of (snd x) = [].

Ltac finw :=
  unfold wq2, wrx in *; abs_rn; unf_rx; tail_know; unfold wq2, wrx in *; finr;
  try (repeat match goal with H : _ \/ _ |- _ => destruct H end; solve [left; congruence | right; congruence]).

Lemma open_first_k r : KNOW (open_first r) (wq2 r (open_first r)).
Proof.
  constructor. unfold open_first. destruct (n_open (rn r) =? 3); [finw|].
  pose proof (open_step_k r) as K. cbv zeta in K. destruct (open_step r) as [[r1 ev] b]. cbn [fst snd] in *.
  destruct K as (S & Q & N & C & W & E). unfold wq2, wrx. cbn [fst snd]. tauto.
Qed.
#[local] Hint Resolve open_first_k : rxk.

Lemma send_heartbeat_api_dev_k force r i : KNOW (send_heartbeat_api_dev force r i) (wq2 r (send_heartbeat_api_dev force r i)).
Proof. constructor. unfold send_heartbeat_api_dev. crack; finw. Qed.
#[local] Hint Resolve send_heartbeat_api_dev_k : rxk.
Lemma send_heartbeat_api_k force k r i : KNOW (send_heartbeat_api force k r i) (wq2 r (send_heartbeat_api force k r i)).
Proof.
  constructor. revert r i. induction k as [|k IH]; intros r i; cbn [send_heartbeat_api]; [finw|].
  assert (IH' : forall r i, KNOW (send_heartbeat_api force k r i) (wq2 r (send_heartbeat_api force k r i))) by (intros; constructor; apply IH).
  crack; finw.
Qed.
#[local] Hint Resolve send_heartbeat_api_k : rxk.

Lemma set_mode_srcs_k k r src i : KNOW (set_mode_srcs k r src i) (same_rx r (set_mode_srcs k r src i)).
Proof.
  constructor. revert r i. induction k as [|k IH]; intros r i; cbn [set_mode_srcs]; [apply same_rx_refl|].
  eapply same_rx_trans; [|apply IH]. destruct (set_src_k r i (set_mode_src src i) true) as [K]. exact K.
Qed.
Lemma set_mode_api_k r mode src : KNOW (set_mode_api r mode src) (same_rx r (set_mode_api r mode src)).
Proof.
  constructor. unfold set_mode_api. cbv zeta. destruct (set_mode_srcs_k (length (n_devs (rn r))) r src 0) as [(S & Q & N & C & W)].
  unfold same_rx. cbn [with_rn r_slots r_q rn r_cfg n_pgn n_now]. auto.
Qed.
Lemma set_device_information_k r i u f c m ind : KNOW (set_device_information r i u f c m ind) (same_rx r (set_device_information r i u f c m ind)).
Proof.
  constructor. unfold set_device_information. cbv zeta. destruct (negb (valid_dev r i)); [apply same_rx_refl|].
  match goal with |- same_rx r (set_name r i ?nm) => destruct (set_name_k r i nm) as [K]; exact K end.
Qed.
(* ExtendTransmitMessages / ExtendReceiveMessages / SetProductInformation: reception reads none of d_tx, x_rx, c_prodinfo *)
Lemma set_tx_list_k r i l : KNOW (set_tx_list r i l) (same_rx r (set_tx_list r i l)).
Proof. constructor. unfold set_tx_list. destruct (negb (valid_dev r i)); repeat split. Qed.
Lemma set_rx_list_k r i l : KNOW (set_rx_list r i l) (same_rx r (set_rx_list r i l)).
Proof. constructor. unfold set_rx_list. destruct (negb (valid_dev r i)); repeat split. Qed.
Lemma set_prodinfo_k r serial code model sw ver load version cert :
  KNOW (with_cfg r (ProdInfoDefs.set_product_information (r_cfg r) serial code model sw ver load version cert))
       (same_rx r (with_cfg r (ProdInfoDefs.set_product_information (r_cfg r) serial code model sw ver load version cert))).
Proof. constructor. repeat split. Qed.
(* SetHandleOnlyKnownMessages: everything but the switch *)
Lemma set_only_known_w r b :
  r_slots (set_only_known r b) = r_slots r /\ r_q (set_only_known r b) = r_q r /\ rn (set_only_known r b) = rn r.
Proof. repeat split. Qed.
#[local] Hint Resolve set_mode_api_k set_device_information_k set_tx_list_k set_rx_list_k set_prodinfo_k : rxk.
Ltac abs_rn ::=
  repeat match goal with
  | |- context [set_src ?r ?i ?a ?b] => abs_one (set_src r i a b)
  | |- context [set_name ?r ?i ?a] => abs_one (set_name r i a)
  | |- context [set_pending ?r ?i ?a ?b ?c] => abs_one (set_pending r i a b c)
  | |- context [set_instances ?r ?i ?a ?b ?c] => abs_one (set_instances r i a b c)
  | |- context [set_mode_api ?r ?a ?b] => abs_one (set_mode_api r a b)
  | |- context [set_device_information ?r ?i ?a ?b ?c ?d ?e] => abs_one (set_device_information r i a b c d e)
  | |- context [set_tx_list ?r ?i ?l] => abs_one (set_tx_list r i l)
  | |- context [set_rx_list ?r ?i ?l] => abs_one (set_rx_list r i l)
  | |- context [with_cfg ?r ?c] => abs_one (with_cfg r c)
  end.

Lemma api_step_w r a : api_keeps_filter a = true -> wq2 r (api_step r a).
Proof.
  intros Hk. destruct a; try discriminate; cbn [api_step]; unfold osend; cbv beta.
  all: crack; finw.
Qed.
Lemma keeps_filter_split a : api_keeps_lists a = true -> api_keeps_filter a = true \/ exists b, a = ASetOnlyKnown b.
Proof. intros H. destruct a; try discriminate H; try (left; reflexivity). right. eexists. reflexivity. Qed.

(* ---------------- on an open node nothing goes through Open(): the driver queue is kept ---------------- *)
Lemma open_first_open r : n_open (rn r) = 3 -> open_first r = (r, []).
Proof. intros H. unfold open_first. rewrite H. reflexivity. Qed.
Lemma osend_open r f : n_open (rn r) = 3 -> osend r f = f r.
Proof. intros H. unfold osend. rewrite (open_first_open r H). destruct (f r) as [r2 ev]. reflexivity. Qed.

Definition oq2 (r:rnode) (x:rnode * list event) : Prop := n_open (rn (fst x)) = 3 /\ rq2 r x.

Lemma send_heartbeat_api_dev_open force r i : n_open (rn r) = 3 -> oq2 r (send_heartbeat_api_dev force r i).
Proof.
  intros Hop. unfold send_heartbeat_api_dev, oq2. pose proof (HbProofsFrame.chk_dev_st r i) as S0. crack.
  all: repeat match goal with
       | H : claim_started _ _ = _ |- _ => apply HbProofsFrame.claim_started_st' in H
       | H : millis64 _ = _ |- _ => apply HbProofsFrame.millis64_st' in H
       | H : rsend _ _ _ = _ |- _ => apply HbProofsFrame.rsend_st' in H
       end.
  all: try match goal with
       | H : open_first ?x = _ |- _ =>
         let O := fresh "O" in
         assert (O : n_open (rn x) = 3) by (unfold HbProofsFrame.rstatic, HbProofsFrame.nstatic in *; prj; intuition congruence);
         rewrite (open_first_open x O) in H; injection H as <- <-
       end.
  all: split; [unfold HbProofsFrame.rstatic, HbProofsFrame.nstatic in *; prj; intuition congruence|].
  all: clear S0; repeat match goal with H : HbProofsFrame.rstatic _ _ |- _ => clear H | H : HbProofsFrame.nstatic _ _ |- _ => clear H end; finw.
Qed.
Lemma send_heartbeat_api_open force k : forall r i, n_open (rn r) = 3 -> oq2 r (send_heartbeat_api force k r i).
Proof.
  induction k as [|k IH]; intros r i Hop; cbn [send_heartbeat_api]; [split; [exact Hop|finr]|].
  destruct (send_heartbeat_api_dev_open force r i Hop) as [O1 K1]. destruct (send_heartbeat_api_dev force r i) as [r1 ev1]. cbn [fst snd] in *.
  destruct (IH r1 (i+1) O1) as [O2 K2]. destruct (send_heartbeat_api force k r1 (i+1)) as [r2 ev2]. cbn [fst snd] in *.
  split; [exact O2|]. finr.
Qed.

Lemma api_step_open r a : api_keeps_filter a = true -> n_open (rn r) = 3 -> rq2 r (api_step r a).
Proof.
  intros Hk Hop. destruct a; try discriminate; cbn [api_step]; rewrite ?(osend_open r _ Hop).
  6:{ destruct (negb (is_active_node (rn r)) || negb (n_open (rn r) =? 3)); [finr|]. apply send_heartbeat_api_open. exact Hop. }
  all: crack; finr.
Qed.

Theorem api_table_kept : api_table_kept_stmt.
Proof.
  intros r a Hk. destruct (keeps_filter_split a Hk) as [Hf|(b & ->)].
  - destruct (api_step_w r a Hf) as [(S & N & C & W & Q) E]. do 2 (split; [assumption|]). split; [intros _; exact C|]. do 2 (split; [assumption|]).
    intros Hop. destruct (api_step_open r a Hf Hop) as [(_ & Q' & _) _]. exact Q'.
  - cbn [api_step fst snd]. destruct (set_only_known_w r b) as (S & Q & N). rewrite S, Q, N.
    split; [reflexivity|]. split; [reflexivity|]. split; [intros C; discriminate C|]. split; [reflexivity|]. split; [left; reflexivity|]. reflexivity.
Qed.

(* ---------------- the invariant of RxProofsC over extended histories ---------------- *)
Lemma xframes_of_base o : xframes_of [XBase o] = frames_of [o].
Proof. destruct o; reflexivity. Qed.
Lemma xframes_of_cons o ops : xframes_of (o :: ops) = xframes_of [o] ++ xframes_of ops.
Proof. unfold xframes_of. cbn [flat_map]. rewrite app_nil_r. reflexivity. Qed.

Lemma xstep_inv c fs gf r o D ds : gf_ok gf -> xop_keeps_lists o = true -> Inv c fs r D ds ->
  exists D', Inv c (fs ++ xframes_of [o]) (fst (xstep gf r o)) (D ++ D') (ds ++ fp_dlv (snd (xstep gf r o))).
Proof.
  intros Hgf Hk I. destruct o as [o|a]; cbn [xstep].
  - rewrite xframes_of_base. apply rstep_inv; assumption.
  - cbn [xop_keeps_lists] in Hk. exists []. cbn [xframes_of flat_map]. destruct (keeps_filter_split a Hk) as [Hf|(b & ->)].
    + destruct (api_step_w r a Hf) as [(S & N & C & W & Q) E].
      rewrite (fp_dlv_nil _ E), !app_nil_r.
      destruct Q as [Q|Q]; [eapply Inv_same | eapply Inv_clear]; eauto.
    + (* SetHandleOnlyKnownMessages: the invariant does not mention the switch *)
      cbn [api_step fst snd fp_dlv]. rewrite !app_nil_r. destruct (set_only_known_w r b) as (S & Q & N).
      eapply Inv_same; [exact I|exact S|exact Q|rewrite N; reflexivity].
Qed.

Lemma xrun_inv c gf : gf_ok gf -> forall ops fs r D ds, keeps_lists ops -> Inv c fs r D ds ->
  exists D', Inv c (fs ++ xframes_of ops) (fst (xrun gf r ops)) (D ++ D') (ds ++ fp_dlv (concat (snd (xrun gf r ops)))).
Proof.
  intros Hgf. induction ops as [|o ops IH]; intros fs r D ds Hk I.
  - exists []. cbn. rewrite !app_nil_r. exact I.
  - unfold keeps_lists in Hk. cbn [forallb] in Hk. apply andb_true_iff in Hk. destruct Hk as [Hk1 Hk2].
    cbn [xrun]. destruct (xstep_inv c fs gf r o D ds Hgf Hk1 I) as (D1 & I1). destruct (xstep gf r o) as [r1 ev]. cbn [fst snd] in I1.
    destruct (IH _ _ _ _ Hk2 I1) as (D2 & I2). destruct (xrun gf r1 ops) as [r2 evs]. cbn [fst snd concat] in *.
    exists (D1 ++ D2). rewrite xframes_of_cons, fp_dlv_app, !app_assoc. exact I2.
Qed.

Theorem api_rx_no_corruption : api_rx_no_corruption_stmt.
Proof.
  intros gf r0 ops Hgf Cl Hk. cbv zeta.
  destruct (xrun_inv (n_pgn (rn r0)) gf Hgf ops [] r0 [] [] Hk (rx_clean_inv r0 Cl)) as (D' & p & g & A & B & T & G & J).
  cbn [app] in *. exists D'. split.
  - rewrite A. apply Forall2_justified_ext. exact J.
  - destruct G as [_ N]. apply NoDup_app_iff in N. tauto.
Qed.

Theorem api_delivered_at_most_223 : api_delivered_at_most_223_stmt.
Proof.
  intros gf r0 ops Hgf Cl Hk. destruct (api_rx_no_corruption gf r0 ops Hgf Cl Hk) as (idxs & J & _). cbv zeta in J.
  induction J; constructor; auto. eapply justified_len; eauto.
Qed.
