From Coq Require Import ZArith List String Bool.
From N2kV Require Import Spec.RefEnums.
Import ListNotations.
Local Open Scope Z_scope.

Theorem enum_codes_sound gen ref : enum_codes_ok gen ref = true -> enum_codes_stmt gen ref.
Proof.
  unfold enum_codes_ok, enum_codes_stmt. intros H t tab Hin.
  rewrite forallb_forall in H. specialize (H _ Hin). cbn [fst snd] in H.
  destruct (assoc t gen) as [g|]; [|discriminate].
  exists g. split; [reflexivity|]. intros e v He.
  rewrite forallb_forall in H. specialize (H _ He). cbn [fst snd] in H.
  destruct (assoc e g) as [v'|]; [|discriminate].
  apply Z.eqb_eq in H. subst. reflexivity.
Qed.
