(* C03, from claims to frames: the receive loop of ParseMessages hands a pending PGN 60928 frame to HandleISOAddressClaim. *)
From Coq Require Import ZArith List Lia Bool Arith.
From N2kV Require Import Base.ListAux Model.CanId Model.Sched Model.PgnClass Model.NodeDefs Model.NodeRxDefs Model.NetDefs Gen.GenTables Gen.GenConsts
  Spec.SendSpec Spec.ClaimSpec Proofs.QueueProofs Proofs.SendProofs Proofs.ClaimProofsB Proofs.ClaimProofsC.
Import ListNotations.
Local Open Scope Z_scope.

(* ---------- HandleISOAddressClaim leaves the receive queue and the slots alone ---------- *)
Definition rxsame (r r':rnode) : Prop := r_q r' = r_q r /\ r_slots r' = r_slots r.
Lemma rxsame_refl r : rxsame r r.  Proof. split; reflexivity. Qed.
Lemma rxsame_trans a b c : rxsame a b -> rxsame b c -> rxsame a c.
Proof. intros [A1 A2] [B1 B2]. split; congruence. Qed.
Lemma rxsame_with_rn r n : rxsame r (with_rn r n).  Proof. split; reflexivity. Qed.
Lemma rxsame_chk_dev r i : rxsame r (chk_dev r i).
Proof. unfold chk_dev. destruct (_ && _); split; reflexivity. Qed.
Lemma rxsame_set_src r i s u : rxsame r (set_src r i s u).
Proof. unfold set_src. eapply rxsame_trans; [apply rxsame_chk_dev|apply rxsame_with_rn]. Qed.
Lemma rxsame_flag r : rxsame r (set_addr_changed r).
Proof. unfold set_addr_changed. apply rxsame_with_rn. Qed.
Lemma rxsame_next_address : forall fuel r i b, rxsame r (next_address fuel r i b).
Proof.
  induction fuel as [|k IH]; intros r i b; cbn [next_address]; [apply rxsame_refl|].
  destruct (_ =? c_N2kNullCanBusAddress).
  - destruct b; [|apply rxsame_refl]. destruct (same_as_sibling _ i).
    + eapply rxsame_trans; [apply rxsame_set_src|apply IH].
    + eapply rxsame_trans; [apply rxsame_set_src|apply rxsame_flag].
  - destruct (negb _).
    + destruct (same_as_sibling _ i).
      * eapply rxsame_trans; [apply rxsame_set_src|apply IH].
      * eapply rxsame_trans; [apply rxsame_set_src|apply rxsame_flag].
    + eapply rxsame_trans; [apply rxsame_set_src|apply rxsame_flag].
Qed.
Lemma rxsame_rstart r i : rxsame r (fst (rstart_claim r i)).
Proof. unfold rstart_claim. destruct (start_address_claim _ i) as [n' ev]. cbn [fst]. eapply rxsame_trans; [apply rxsame_chk_dev|apply rxsame_with_rn]. Qed.
Lemma rxsame_rsend_claim r d i : rxsame r (fst (rsend_claim r d i)).
Proof. unfold rsend_claim. destruct (send_iso_address_claim _ d i) as [n' ev]. apply rxsame_with_rn. Qed.
Lemma rxsame_set_name r i nm : rxsame r (set_name r i nm).
Proof. unfold set_name. eapply rxsame_trans; [apply rxsame_chk_dev|apply rxsame_with_rn]. Qed.
Lemma rxsame_devinfo r : rxsame r (with_devinfo_changed r).
Proof. split; reflexivity. Qed.
Lemma rxsame_handle_claim r x d : rxsame r (fst (handle_claim r x d)).
Proof.
  unfold handle_claim. cbv zeta. destruct (_ || _); [apply rxsame_refl|].
  set (i := find_source_device r x). pose proof (rxsame_chk_dev r i) as C.
  destruct (_ <? _); [eapply rxsame_trans; [exact C|apply rxsame_rsend_claim]|].
  destruct (claim_started _ i) as [n1 started].
  destruct (_ =? _); cbn [andb].
  - destruct started.
    + eapply rxsame_trans; [exact C|]. eapply rxsame_trans; [apply (rxsame_with_rn _ n1)|].
      eapply rxsame_trans; [apply rxsame_set_name|]. eapply rxsame_trans; [apply rxsame_devinfo|apply rxsame_rstart].
    + eapply rxsame_trans; [exact C|]. eapply rxsame_trans; [apply (rxsame_with_rn _ n1)|]. eapply rxsame_trans; [apply rxsame_next_address|apply rxsame_rstart].
  - eapply rxsame_trans; [exact C|]. eapply rxsame_trans; [apply rxsame_next_address|apply rxsame_rstart].
Qed.

(* ---------- the receive path for a claim frame ---------- *)
Lemma handle_tp_other r pgn src dst len buf : pgn <> c_TP_CM -> pgn <> c_TP_DT -> handle_tp r pgn src dst len buf = (false, r, [], nslots r).
Proof.
  intros A B. unfold handle_tp. cbv zeta. destruct (Z.eqb_spec pgn c_TP_CM); [contradiction|]. destruct (Z.eqb_spec pgn c_TP_DT); [contradiction|]. reflexivity.
Qed.
Lemma ff_key_free slots : Forall (fun s => s_free s = true) slots -> forall pgn src dst tp i, ff_key slots pgn src dst tp i = i + Z.of_nat (length slots).
Proof.
  induction 1 as [|s rest Hs _ IH]; intros pgn src dst tp i; cbn [ff_key length]; [lia|].
  rewrite Hs. cbn [negb andb]. rewrite IH. lia.
Qed.
Lemma find_free_slot_free r pgn src dst : slots_free r -> find_free_slot r pgn src dst false = (r_slots r, 0).
Proof.
  intros [Ne Fr]. unfold find_free_slot. cbv zeta. rewrite (ff_key_free _ Fr). unfold nslots. cbn [Z.add].
  rewrite Z.ltb_irrefl. destruct (r_slots r) as [|s0 rest] eqn:E; [congruence|].
  inversion Fr as [|? ? F0 _]; subst. cbn [ff_scan]. rewrite F0. cbn [orb].
  assert (X: (0 =? Z.of_nat (length (s0 :: rest))) = false) by (apply Z.eqb_neq; cbn [length]; lia). rewrite X. reflexivity.
Qed.
Lemma name_bytes_firstn n : firstn 8 (name_bytes n) = name_bytes n.
Proof. apply firstn_all2. rewrite name_bytes_length. lia. Qed.
Lemma copy_buf_claim n : copy_buf [] 0 8 (name_bytes n) = name_bytes n.
Proof.
  unfold copy_buf. cbn [app length skipn Z.to_nat Z.sub]. change (Z.to_nat (8 - 0)) with 8%nat. rewrite name_bytes_firstn.
  apply firstn_all2. rewrite name_bytes_length. change c_MaxDataLen with 223. lia.
Qed.

Lemma chk_slot_valid r i : 0 <= i < nslots r -> chk_slot r i = r.
Proof. intros [A B]. unfold chk_slot. apply Z.leb_le in A. apply Z.ltb_lt in B. now rewrite A, B. Qed.
Lemma set_slot_valid r i s : 0 <= i < nslots r -> set_slot r i s = with_slots r (zset (r_slots r) i s).
Proof. intros Hi. unfold set_slot. rewrite chk_slot_valid by exact Hi. reflexivity. Qed.
Lemma set_slot_rn r i s : rn (set_slot r i s) = rn r /\ r_q (set_slot r i s) = r_q r.
Proof. unfold set_slot, chk_slot. destruct (_ && _); split; reflexivity. Qed.
Lemma Forall_set_nth {A} (P:A -> Prop) l : forall i v, Forall P l -> P v -> Forall P (set_nth l i v).
Proof. induction l as [|a r IH]; intros i v F Pv; [destruct i; constructor|]. inversion F; subst. destruct i; cbn [set_nth]; constructor; auto. Qed.
Lemma rx_loop_empty gf k r : r_q r = [] -> rx_loop gf k r = (r, []).
Proof. intros E. destruct k; cbn [rx_loop]; [reflexivity|]. rewrite E. reflexivity. Qed.

(* the slot a claim frame is put into, before and after it is marked complete *)
Definition claim_slot (r0:rnode) (x n:Z) (ready:bool) : slot :=
  {| s_free := false; s_ready := ready; s_known := true; s_system := true; s_pri := Z.land 6 7; s_pgn := 60928; s_src := x; s_dst := 255; s_tp := false;
     s_len := 8; s_data := name_bytes n; s_last := 0; s_time := now32 r0; s_tpmax := s_tpmax (get_slot r0 0); s_tpreq := s_tpreq (get_slot r0 0) |}.
Lemma rx_frame_claim r0 x n : check_known (n_pgn (rn r0)) 60928 = (true, true, false) -> slots_free r0 -> 0 <= x < 256 ->
  rx_frame r0 (claim_frame {| cx := x; cn := n |}) = (with_slots r0 (zset (r_slots r0) 0 (claim_slot r0 x n true)), [], 0).
Proof.
  intros Hck Hsl Hx. unfold rx_frame. cbv zeta. unfold claim_frame. cbn [r_id r_len r_buf cx cn].
  rewrite (id_decode 6 60928 x 255 ltac:(unfold id_args_ok; lia) ltac:(intros _; reflexivity)). change (pdu1 60928) with true. cbv iota.
  rewrite handle_tp_other by (change c_TP_CM with 60416; change c_TP_DT with 60160; lia).
  rewrite Hck. cbn [orb negb andb].
  rewrite (find_free_slot_free r0 60928 x 255 Hsl).
  assert (Hn: 0 <= 0 < nslots r0).
  { destruct Hsl as [Ne _]. unfold nslots. destruct (r_slots r0); [congruence|cbn [length]; lia]. }
  assert (Hlt: (0 <? nslots r0) = true) by (apply Z.ltb_lt; lia). rewrite Hlt.
  rewrite copy_buf_claim.
  set (r1 := with_slots r0 (r_slots r0)).
  assert (Hn1: 0 <= 0 < nslots r1) by exact Hn.
  rewrite (set_slot_valid r1 0 _ Hn1).
  unfold mark_ready.
  set (ra := with_slots r1 _).
  assert (Hna: 0 <= 0 < nslots ra) by (unfold ra, nslots; cbn [r_slots with_slots]; rewrite QueueProofs.zset_length; exact Hn).
  rewrite (chk_slot_valid ra 0 Hna).
  assert (Hg: get_slot ra 0 = claim_slot r0 x n (s_ready (get_slot r1 0))).
  { unfold get_slot, ra. cbn [r_slots with_slots]. rewrite QueueProofs.znth_zset_eq by exact Hn. reflexivity. }
  rewrite Hg. cbn [claim_slot s_data s_len s_free s_known s_system s_pri s_pgn s_src s_dst s_tp s_last s_time s_tpmax s_tpreq].
  rewrite name_bytes_length. change (Z.of_nat 8 >=? 8) with true. cbv iota.
  rewrite (set_slot_valid ra 0 _ Hna). unfold ra. cbn [r_slots with_slots]. rewrite zset_twice. reflexivity.
Qed.

Theorem claim_frame_dispatch : claim_frame_dispatch_stmt.
Proof.
  unfold claim_frame_dispatch_stmt. intros gf r x n fuel Hop Hact Hck Hsl Hx Hq.
  cbn [rx_loop]. rewrite Hq. set (r0 := with_rxq r []).
  assert (Hsl0: slots_free r0) by exact Hsl.
  rewrite (rx_frame_claim r0 x n Hck Hsl0 Hx).
  set (b := claim_slot r0 x n true). set (rb := with_slots r0 (zset (r_slots r0) 0 b)).
  assert (Hn: 0 <= 0 < nslots r0).
  { destruct Hsl0 as [Ne _]. unfold nslots. destruct (r_slots r0); [congruence|cbn [length]; lia]. }
  assert (Hnb: 0 <= 0 < nslots rb) by (unfold rb, nslots; cbn [r_slots with_slots]; rewrite QueueProofs.zset_length; exact Hn).
  assert (Hlt: (0 <? nslots rb) = true) by (apply Z.ltb_lt; lia). rewrite Hlt.
  rewrite (chk_slot_valid rb 0 Hnb).
  assert (Hg: get_slot rb 0 = b) by (unfold get_slot, rb; cbn [r_slots with_slots]; apply QueueProofs.znth_zset_eq; exact Hn).
  rewrite Hg.
  assert (Hs: handle_system gf rb b = handle_claim rb x (name_bytes n)).
  { unfold handle_system. change (n_mode (rn rb)) with (n_mode (rn r)). destruct (active_mode (rn r) Hact) as [M|M]; rewrite M; cbn [Z.eqb Pos.eqb orb negb andb b claim_slot s_system s_pgn s_src s_len s_data];
      change (Z.to_nat 8) with 8%nat; rewrite name_bytes_firstn; reflexivity. }
  rewrite Hs. pose proof (rxsame_handle_claim rb x (name_bytes n)) as [Rq Rs].
  destruct (handle_claim rb x (name_bytes n)) as [r3 ev2] eqn:Eh. cbn [fst snd] in *.
  set (r3' := set_slot r3 0 (free_slot (get_slot r3 0))).
  destruct (set_slot_rn r3 0 (free_slot (get_slot r3 0))) as [Srn Sq]. fold r3' in Srn, Sq.
  assert (Eq': r_q r3' = []) by (rewrite Sq, Rq; reflexivity).
  rewrite (rx_loop_empty gf fuel r3' Eq'). cbn [fst snd app].
  exists rb, (slot_msg b). split; [reflexivity|]. cbv zeta. rewrite Eh. cbn [fst snd].
  split; [exact Srn|split; [rewrite ?app_nil_r; reflexivity|split; [|split; [exact Eq'|]]]].
  - rewrite ?app_nil_r. unfold ev_claims. rewrite flat_map_app. cbn [flat_map claim_of_event app]. apply app_nil_r.
  - assert (Hn3: 0 <= 0 < nslots r3) by (unfold nslots; rewrite Rs; exact Hnb).
    unfold r3'. rewrite (set_slot_valid r3 0 _ Hn3). unfold slots_free. cbn [r_slots with_slots]. rewrite Rs. unfold rb. cbn [r_slots with_slots].
    rewrite zset_twice. destruct Hsl0 as [Ne Fr]. split.
    + intros E. apply (f_equal (@length slot)) in E. rewrite QueueProofs.zset_length in E. destruct (r_slots r0); [congruence|discriminate].
    + unfold zset. apply Forall_set_nth; [exact Fr|reflexivity].
Qed.
Print Assumptions claim_frame_dispatch.

(* non-vacuity: an opened two-device node with a pending claim frame meets the premises *)
Definition ex_rx : rnode :=
  with_rxq (with_open (cold_node true 1 5000 80 5 no_lists [mk_dev true 30 26 []; mk_dev true 31 27 []] [[]; []] d04_cfg) 3 0)
           [claim_frame {| cx := 30; cn := 5 |}].
Lemma dispatch_nonvacuous : n_open (rn ex_rx) = 3 /\ is_active_node (rn ex_rx) = true /\ check_known (n_pgn (rn ex_rx)) 60928 = (true, true, false) /\
  slots_free ex_rx /\ r_q ex_rx = [claim_frame {| cx := 30; cn := 5 |}].
Proof.
  split; [reflexivity|split; [reflexivity|split; [vm_compute; reflexivity|split; [|reflexivity]]]].
  split; [discriminate|]. repeat constructor.
Qed.
