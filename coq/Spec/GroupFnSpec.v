(* C09 - independent reference for the NMEA group function PGN 126208 and the statements about Model/GroupFnDefs.v.

   Reference layouts (from the published definition of PGN 126208; field numbers of the target PGNs from their published field lists):
     function code (byte 0): 0 Request, 1 Command, 2 Acknowledge, 3 Read Fields, 4 Read Fields Reply, 5 Write Fields, 6 Write Fields Reply
     Request      [0; PGN (3 bytes, little endian); transmission interval u32 (ms); transmission interval offset u16 (10 ms); number of pairs;
                   (field number, field value)...]
     Command      [1; PGN; priority setting (low nibble) | reserved (high nibble); number of pairs; (field number, field value)...]
     Acknowledge  [2; PGN; PGN error code (low nibble) | transmission interval / priority error code (high nibble); number of parameters;
                   4-bit parameter error codes, two per byte, low nibble first, an unused high nibble is 0xF]
     Read/Write   [3|5; PGN; (manufacturer code 11 bits | reserved 2 bits | industry group 3 bits, only for proprietary PGNs); unique id;
                   number of selection pairs; number of parameters; selection pairs; parameters]
   Discrepancies between this reference and the code are listed at the end of the file. *)
From Coq Require Import ZArith List Bool.
From N2kV Require Import Base.ListAux Model.Sched Model.NodeDefs Model.NodeRxDefs Model.GroupFnDefs Gen.GenTables Gen.GenConsts.
Import ListNotations.
Local Open Scope Z_scope.

(* ================= bytes ================= *)
Definition byte_ok (b:Z) : Prop := 0 <= b < 256.
Definition payload_ok (d:list Z) : Prop := Forall byte_ok d /\ (length d <= 223)%nat.
Definition len (d:list Z) : Z := Z.of_nat (length d).
Definition le_val (l:list Z) : Z := fold_right (fun b acc => b + 256 * acc) 0 l.
Definition slice (d:list Z) (k n:Z) : list Z := firstn (Z.to_nat n) (skipn (Z.to_nat k) d).
Definition byte_at (d:list Z) (k:Z) : option Z := if (0 <=? k) && (k <? len d) then Some (znth d k 0) else None.
Definition bytes_at (d:list Z) (k n:Z) : option (list Z) := if (0 <=? k) && (0 <=? n) && (k + n <=? len d) then Some (slice d k n) else None.
Fixpoint list_beq (a b:list Z) : bool :=
  match a, b with [], [] => true | x :: a', y :: b' => (x =? y) && list_beq a' b' | _, _ => false end.

(* ================= header ================= *)
Definition ref_proprietary (pgn:Z) : bool :=
  (pgn =? 61184) || ((65280 <=? pgn) && (pgn <=? 65535)) || (pgn =? 126720) || ((130816 <=? pgn) && (pgn <=? 131071)).
(* position of the byte that counts the parameter pairs *)
Definition count_pos (fc pgn:Z) : Z := if fc =? 0 then 10 else if fc =? 1 then 5 else if ref_proprietary pgn then 8 else 6.
Definition ref_fc (d:list Z) : option Z := byte_at d 0.
Definition ref_pgn (d:list Z) : option Z := option_map le_val (bytes_at d 1 3).
(* (function code, PGN, number of pairs) of a message whose header is complete *)
Definition ref_header (d:list Z) : option (Z * Z * Z) :=
  match ref_fc d, ref_pgn d with
  | Some fc, Some pgn => match byte_at d (count_pos fc pgn) with Some n => Some (fc, pgn, n) | None => None end
  | _, _ => None
  end.

(* ================= Acknowledge ================= *)
Fixpoint pack (codes:list Z) : list Z :=
  match codes with
  | [] => []
  | [c] => [c + 240]
  | c1 :: c2 :: r => (c1 + 16 * c2) :: pack r
  end.
Fixpoint unpack (n:nat) (l:list Z) : option (list Z) :=
  match n with
  | O => match l with [] => Some [] | _ => None end
  | S O => match l with [b] => if b / 16 =? 15 then Some [b mod 16] else None | _ => None end
  | S (S k) => match l with b :: r => option_map (fun t => b mod 16 :: b / 16 :: t) (unpack k r) | [] => None end
  end.
Record ref_ack := { ak_pgn : Z; ak_pgnec : Z; ak_tpec : Z; ak_n : Z; ak_codes : list Z }.
Definition parse_ack (d:list Z) : option ref_ack :=
  match d with
  | f :: p0 :: p1 :: p2 :: ec :: n :: rest =>
    if f =? 2 then
      match unpack (Z.to_nat n) rest with
      | Some cs => Some {| ak_pgn := p0 + 256 * p1 + 65536 * p2; ak_pgnec := ec mod 16; ak_tpec := ec / 16; ak_n := n; ak_codes := cs |}
      | None => None
      end
    else None
  | _ => None
  end.

(* error codes (names of the published tables) *)
Definition pgnec_ok := 0.  Definition pgnec_not_supported := 1.  Definition pgnec_not_available := 2.  Definition pgnec_rw_not_supported := 6.
Definition tpec_ok := 0.   Definition tpec_not_supported := 1.
Definition pec_ok := 0.    Definition pec_invalid_field := 1.    Definition pec_unable := 2.    Definition pec_out_of_range := 3.
Definition pec_not_supported := 5.

(* ================= what the library documents as acceptable transmission interval / offset ================= *)
(* no change (0xFFFFFFFF), restore default (0xFFFFFFFE), turn off (0) or within [imin, imax] when the PGN has limits;
   offset: no change (0xFFFF), 0, or up to omax when the PGN has limits *)
Definition ref_interval_ok (lim:option (Z * Z * Z)) (interval offset:Z) : bool :=
  ((interval =? 4294967295) || (interval =? 4294967294) || (interval =? 0)
   || match lim with Some (imin, imax, _) => (imin <=? interval) && (interval <=? imax) | None => false end)
  && ((offset =? 65535) || (offset =? 0) || match lim with Some (_, _, omax) => offset <=? omax | None => false end).
Definition heartbeat_limits : option (Z * Z * Z) := Some (1000, 60000, 6000).

(* ================= selection fields of the PGNs with a dedicated handler ================= *)
(* NAME (ISO 11783-5): bits 0-20 identity number, 21-31 manufacturer code, 32-34 ECU (device) instance lower, 35-39 function (device) instance
   upper, 40-47 function, 48 reserved, 49-55 device class, 56-59 device class (system) instance, 60-62 industry group, 63 self-configurable *)
Definition name_bits (nm lo width:Z) : Z := (nm / 2^lo) mod 2^width.
(* text of a fixed or variable string field: the bytes before the first 0x00 / 0xFF *)
Fixpoint ref_text (l:list Z) : list Z :=
  match l with [] => [] | b :: r => if (b =? 0) || (b =? 255) then [] else b :: ref_text r end.

Inductive fkind : Type :=
| KNum (size width cur:Z)          (* little-endian number of [size] bytes, compared in its low [width] bits with [cur] *)
| KAny                             (* one byte, reserved: selects nothing *)
| KSel                             (* PGN 126464 field 1: 0 = transmit list, 1 = receive list *)
| KFix (cur:list Z)                (* 32-byte text *)
| KVar (cur:list Z).               (* variable length text [length+2; 1; text] *)

Definition req_table (e:gf_env) (pgn f:Z) : option fkind :=
  let nm := e_name e in let p := e_prod e in
  if pgn =? 60928 then
    (if f =? 1 then Some (KNum 3 21 (name_bits nm 0 21)) else if f =? 2 then Some (KNum 2 11 (name_bits nm 21 11))
     else if f =? 3 then Some (KNum 1 3 (name_bits nm 32 3)) else if f =? 4 then Some (KNum 1 5 (name_bits nm 35 5))
     else if f =? 5 then Some (KNum 1 8 (name_bits nm 40 8)) else if f =? 6 then Some KAny
     else if f =? 7 then Some (KNum 1 7 (name_bits nm 49 7)) else if f =? 8 then Some (KNum 1 4 (name_bits nm 56 4))
     else if f =? 9 then Some (KNum 1 3 (name_bits nm 60 3)) else if f =? 10 then Some KAny else None)
  else if pgn =? 126464 then (if f =? 1 then Some KSel else None)
  else if pgn =? 126996 then
    (if f =? 1 then Some (KNum 2 16 (le_val (slice p 0 2))) else if f =? 2 then Some (KNum 2 16 (le_val (slice p 2 2)))
     else if f =? 3 then Some (KFix (ref_text (slice p 4 32))) else if f =? 4 then Some (KFix (ref_text (slice p 36 32)))
     else if f =? 5 then Some (KFix (ref_text (slice p 68 32))) else if f =? 6 then Some (KFix (ref_text (slice p 100 32)))
     else if f =? 7 then Some (KNum 1 8 (le_val (slice p 132 1))) else if f =? 8 then Some (KNum 1 8 (le_val (slice p 133 1))) else None)
  else if pgn =? 126998 then
    (if f =? 1 then Some (KVar (e_s1 e)) else if f =? 2 then Some (KVar (e_s2 e)) else if f =? 3 then Some (KVar (e_s3 e)) else None)
  else None.
Definition has_table (pgn:Z) : bool := (pgn =? 60928) || (pgn =? 126464) || (pgn =? 126996) || (pgn =? 126998).

(* bytes the value of a field occupies at position k; None = the reference does not say (cut off, malformed or UCS-2 string) *)
Definition value_size (k:fkind) (d:list Z) (pos:Z) : option Z :=
  match k with
  | KNum s _ _ => Some s
  | KAny | KSel => Some 1
  | KFix _ => Some 32
  | KVar _ =>
    match byte_at d pos, byte_at d (pos + 1) with
    | Some l, Some ty => if (ty =? 1) && ((l =? 2) || ((3 <=? l) && (l <? 255) && (pos + l <=? len d))) then Some l else None
    | _, _ => None
    end
  end.
(* does the value select this device *)
Definition pair_match (k:fkind) (v:list Z) : bool :=
  match k with
  | KNum _ width cur => le_val v mod 2^width =? cur
  | KAny => true
  | KSel => (le_val v =? 0) || (le_val v =? 1)
  | KFix cur => list_beq (ref_text v) cur
  | KVar cur => list_beq (ref_text (firstn 70 (skipn 2 v))) cur
  end.
Definition pair_code (k:fkind) (v:list Z) : Z := if pair_match k v then pec_ok else pec_out_of_range.

(* the parameter error codes of n selection pairs starting at pos: a known field gets "acknowledge" or "out of range" (= does not match),
   the first unknown field number gets "invalid field" and every later pair "temporarily unable to comply" (its position is unknown) *)
Fixpoint ref_codes (tab:Z -> option fkind) (d:list Z) (pos:Z) (n:nat) : option (list Z) :=
  match n with
  | O => Some []
  | S n' =>
    match byte_at d pos with
    | None => None
    | Some f =>
      match tab f with
      | None => Some (pec_invalid_field :: repeat pec_unable n')
      | Some k =>
        match value_size k d (pos + 1) with
        | None => None
        | Some sz =>
          match bytes_at d (pos + 1) sz with
          | None => None
          | Some v => option_map (cons (pair_code k v)) (ref_codes tab d (pos + 1 + sz) n')
          end
        end
      end
    end
  end.
Definition all_ok (cs:list Z) : bool := forallb (fun c => c =? 0) cs.

(* ================= the reference answer ================= *)
Inductive ref_reply : Type :=
| RNothing                                   (* no answer, nothing changes *)
| RPgn (pgn:Z)                               (* the requested PGN is sent (for 126993: the heartbeat with the new interval) *)
| RAck (pgnec tpec:Z) (codes:list Z).        (* one Acknowledge to the requester echoing PGN and pair count *)

Definition ref_is_tx (e:gf_env) (pgn:Z) : bool :=
  existsb (Z.eqb pgn) [59392; 59904; 60160; 60416; 60928; 126208; 126464; 126993; 126996; 126998] || existsb (Z.eqb pgn) (e_tx e).
Definition ref_prio_ok (prio:Z) : bool := (prio =? 8) || (prio =? 9) || (prio =? 15).     (* do not change / restore default / ... *)

(* None: the reference does not decide (incomplete header, cut off or malformed pair) *)
Definition ref_answer (e:gf_env) (g:gmsg) : option ref_reply :=
  let d := g_d g in
  let bc := g_dst g =? 255 in
  match ref_fc d with
  | None => Some RNothing
  | Some fc =>
    if (fc =? 2) || (fc =? 4) || (fc =? 6) || (6 <? fc) then Some RNothing
    else if bc && negb (fc =? 0) then Some RNothing
    else
    match ref_header d with
    | None => None
    | Some (_, pgn, n) =>
      if fc =? 0 then
        match bytes_at d 4 4, bytes_at d 8 2 with
        | Some iv, Some ov =>
          let interval := le_val iv in let offset := le_val ov in
          if pgn =? 126993 then
            let ok := ref_interval_ok heartbeat_limits interval offset && negb (interval =? 0) in
            if negb (n =? 0) then Some (if bc then RNothing else RAck pgnec_ok (if ok then tpec_ok else tpec_not_supported) (repeat pec_not_supported (Z.to_nat n)))
            else if (interval =? 4294967295) && (offset =? 65535) then Some (if bc then RNothing else RAck pgnec_not_available tpec_ok [])
            else if ok then Some (RPgn pgn)
            else Some (if bc then RNothing else RAck pgnec_ok tpec_not_supported [])
          else if has_table pgn then
            let ok := ref_interval_ok None interval offset in
            match ref_codes (req_table e pgn) d 11 (Z.to_nat n) with
            | None => None
            | Some cs =>
              if all_ok cs && ok then Some (RPgn pgn)
              else Some (if bc then RNothing else RAck pgnec_ok (if ok then tpec_ok else tpec_not_supported) cs)
            end
          else
            let ok := ref_interval_ok None interval offset in
            Some (if bc then RNothing else
                  if negb (ref_is_tx e pgn) then RAck pgnec_not_supported tpec_ok (repeat pec_ok (Z.to_nat n))
                  else if ok then RAck pgnec_not_available tpec_ok (repeat pec_ok (Z.to_nat n))
                  else RAck pgnec_ok tpec_not_supported (repeat pec_ok (Z.to_nat n)))
        | _, _ => None
        end
      else if fc =? 1 then
        match byte_at d 4 with
        | None => None
        | Some b =>
          let prio := b mod 16 in
          if (pgn =? 60928) || (pgn =? 126998) then None        (* commands with effect: gf_commands_take_effect_stmt *)
          else if pgn =? 126993 then Some (RAck pgnec_not_supported (if ref_prio_ok prio then tpec_ok else tpec_not_supported) (repeat pec_ok (Z.to_nat n)))
          else Some (RAck (if ref_is_tx e pgn then pgnec_ok else pgnec_not_supported) (if ref_prio_ok prio then tpec_ok else tpec_not_supported)
                          (repeat pec_ok (Z.to_nat n)))
        end
      else (* 3, 5 *)
        Some (RAck (if ref_is_tx e pgn then pgnec_rw_not_supported else pgnec_not_supported) tpec_ok (repeat pec_ok (Z.to_nat n)))
    end
  end.

(* ================= reading an action ================= *)
Definition answers_requested (pgn:Z) (a:gf_action) : Prop :=
  match a with
  | GaClaim => pgn = 60928
  | GaLists dst _ _ => pgn = 126464
  | GaProd _ _ => pgn = 126996
  | GaConf _ _ => pgn = 126998
  | GaHeartbeat _ _ => pgn = 126993
  | _ => False
  end.
(* the acknowledge an action sends and its destination *)
Definition ack_of (a:gf_action) : option (Z * list Z) :=
  match a with
  | GaAck dst ack | GaCmdInst dst ack _ _ _ | GaCmdDesc dst ack _ _ _ => Some (dst, ack)
  | _ => None
  end.
Definition acks_with (a:gf_action) (requester pgn n:Z) (P:ref_ack -> Prop) : Prop :=
  exists ack r, ack_of a = Some (requester, ack) /\ parse_ack ack = Some r /\ ak_pgn r = pgn /\ ak_n r = n /\ (length ack <= 223)%nat /\ P r.

(* the messages an action hands to SendMsg (through rsend, device i), in order, given the node in which they are built *)
Definition action_msgs (r:rnode) (i:Z) (a:gf_action) : list msg :=
  match a with
  | GaNone | GaClaim => []
  | GaAck dst ack | GaCmdInst dst ack _ _ _ | GaCmdDesc dst ack _ _ _ => [gf_msg dst ack]
  | GaLists dst tp sel =>
    (if (sel =? 0) || (sel =? 255) then [pgn_list_msg_tp r i dst 0 def_transmit_messages (d_tx (get_dev (rn r) i)) tp] else [])
    ++ (if (sel =? 1) || (sel =? 255) then [pgn_list_msg_tp r i dst 1 def_receive_messages (x_rx (get_devx r i)) tp] else [])
  | GaProd dst tp => [{| m_pri := 6; m_pgn := 126996; m_src := dev_src r i; m_dst := dst; m_data := c_prodinfo (r_cfg r); m_tp := tp |}]
  | GaConf dst tp => [config_info_msg r i dst tp]      (* PGN 126998; the "not available" ISO acknowledgement when nothing is configured *)
  | GaHeartbeat _ _ => [heartbeat_msg (dev_src r i) (ss_period (x_hb (get_devx r i))) 255]
  end.

(* ================= (a) one answer ================= *)
(* For every payload of up to 223 bytes and every device state:
   1. Acknowledge, Read Fields Reply, Write Fields Reply, function codes above 6 and the empty message: nothing happens.
   2. broadcast Command / Read Fields / Write Fields: nothing happens.
   3. a broadcast Request is never acknowledged: nothing, or the requested PGN.
   4. an addressed Request / Command / Read Fields / Write Fields with a complete header: the requested PGN (Request only), or exactly one
      Acknowledge for the requester which echoes the PGN and the number of pairs and fits a message.
   5. an addressed one with an INCOMPLETE header (cut before the pair count) is still answered by exactly one Acknowledge to the requester
      (or, for a Request, the requested PGN): missing header bytes read as 0xFF (PGN 0xFFFFFF, 255 pairs, interval "no change"). *)
Definition gf_one_answer_stmt : Prop :=
  forall e g, payload_ok (g_d g) -> byte_ok (g_src g) ->
    let a := gf_decide e g in
    let d := g_d g in
    (match ref_fc d with None => a = GaNone | Some fc => (fc = 2 \/ fc = 4 \/ fc = 6 \/ 6 < fc) -> a = GaNone end) /\
    (g_dst g = 255 -> forall fc, ref_fc d = Some fc -> fc <> 0 -> a = GaNone) /\
    (g_dst g = 255 -> ref_fc d = Some 0 -> a = GaNone \/ exists pgn, answers_requested pgn a) /\
    (g_dst g <> 255 -> forall fc pgn n, ref_header d = Some (fc, pgn, n) -> (fc = 0 \/ fc = 1 \/ fc = 3 \/ fc = 5) ->
       (fc = 0 /\ answers_requested pgn a) \/ acks_with a (g_src g) pgn n (fun _ => True)) /\
    (g_dst g <> 255 -> forall fc, ref_fc d = Some fc -> (fc = 0 \/ fc = 1 \/ fc = 3 \/ fc = 5) -> ref_header d = None ->
       (fc = 0 /\ exists pgn, answers_requested pgn a) \/ exists ack r, ack_of a = Some (g_src g, ack) /\ parse_ack ack = Some r).

(* the link to SendMsg: executing an action hands exactly the messages of [action_msgs] to rsend for device i, in order (so: one message
   for an Acknowledge, product / configuration information and the heartbeat, one per selected list for PGN 126464, and for PGN 60928
   none now - the address claim is scheduled 2 ms ahead and sent by SendPendingInformation) *)
Fixpoint send_seq (r:rnode) (i:Z) (ms:list msg) : rnode * list event :=
  match ms with
  | [] => (r, [])
  | m :: t => let '(r1, e1, _) := rsend r m i in let '(r2, e2) := send_seq r1 i t in (r2, e1 ++ e2)
  end.
(* the state in which the messages are built: heartbeat period and descriptions are set first *)
Definition action_pre (r:rnode) (i:Z) (a:gf_action) : rnode :=
  match a with
  | GaHeartbeat interval off => if (interval =? 4294967295) && (off =? 65535) then r else set_heartbeat_all 1 r i interval off
  | GaCmdDesc _ _ s1 s2 true => set_conf_strings r s1 s2
  | _ => r
  end.
(* (the on-demand heartbeat is sent only by an active bus device: SendHeartbeat(iDev) after the repair c50f5df; in the handlers the case is
   reached on active nodes only, since handle_system ignores PGN 126208 in the other modes) *)
Definition gf_exec_sends_stmt : Prop :=
  forall r i a, 0 <= i < dev_count (rn r) ->
    (forall iv off, a = GaHeartbeat iv off -> is_active_node (rn r) = true) ->
    snd (gf_exec r i a) = snd (send_seq (action_pre r i a) i (action_msgs (action_pre r i a) i a)) /\
    (a = GaClaim -> (Z.to_nat i < length (rx_dev r))%nat -> x_pend_claim (get_devx (fst (gf_exec r i a)) i) = sched_from_now (w64 r) (now r) 2).

(* ================= (b) error codes, (c) all fields must match ================= *)
(* (b) whenever the reference decides, the model does exactly that: nothing / the requested PGN / one Acknowledge whose PGN error code,
       transmission-or-priority error code and parameter nibbles are the reference's *)
Definition agrees (a:gf_action) (g:gmsg) (pgn n:Z) (rr:ref_reply) : Prop :=
  match rr with
  | RNothing => a = GaNone
  | RPgn p => answers_requested p a
  | RAck pe te cs => acks_with a (g_src g) pgn n (fun r => ak_pgnec r = pe /\ ak_tpec r = te /\ ak_codes r = cs)
  end.
Definition gf_ack_codes_stmt : Prop :=
  forall e g rr, payload_ok (g_d g) -> byte_ok (g_src g) -> ref_answer e g = Some rr ->
    match ref_header (g_d g) with
    | Some (_, pgn, n) => agrees (gf_decide e g) g pgn n rr
    | None => rr = RNothing /\ gf_decide e g = GaNone
    end.

(* (c) for PGN 60928, 126464, 126996, 126998: when every pair can be located (known field numbers, complete values) the requested PGN is sent
       iff EVERY pair matches the device's current value of that field and the interval/offset is acceptable; otherwise an addressed request is
       acknowledged with, per pair, 0 = matches / 3 = does not match; a broadcast one is ignored *)
Definition gf_match_all_fields_stmt : Prop :=
  forall e g pgn n iv ov cs, payload_ok (g_d g) -> byte_ok (g_src g) ->
    ref_header (g_d g) = Some (0, pgn, n) -> has_table pgn = true ->
    bytes_at (g_d g) 4 4 = Some iv -> bytes_at (g_d g) 8 2 = Some ov ->
    ref_codes (req_table e pgn) (g_d g) 11 (Z.to_nat n) = Some cs ->
    let ok := ref_interval_ok None (le_val iv) (le_val ov) in
    let a := gf_decide e g in
    (answers_requested pgn a <-> (all_ok cs = true /\ ok = true)) /\
    (all_ok cs && ok = false -> g_dst g <> 255 ->
       acks_with a (g_src g) pgn n (fun r => ak_pgnec r = 0 /\ ak_tpec r = (if ok then 0 else 1) /\ ak_codes r = cs)) /\
    (all_ok cs && ok = false -> g_dst g = 255 -> a = GaNone).
(* per field: the code of pair k is 0 iff its value matches (by construction of ref_codes; stated for the record) *)
Definition ref_codes_per_field_stmt : Prop :=
  forall tab d pos n cs, ref_codes tab d pos n = Some cs ->
    length cs = n /\
    forall k c, nth_error cs k = Some c -> c = pec_ok \/ c = pec_out_of_range \/ c = pec_invalid_field \/ c = pec_unable.

(* ================= (d) commands take effect ================= *)
(* reference: the NAME after a command that sets device instance lower / upper / system instance (255 = not commanded) *)
Definition set_bits (nm lo width v:Z) : Z := nm - name_bits nm lo width * 2^lo + (v mod 2^width) * 2^lo.
Definition ref_name_after (nm lower upper sys:Z) : Z :=
  let n1 := if lower =? 255 then nm else set_bits nm 32 3 lower in
  let n2 := if upper =? 255 then n1 else set_bits n1 35 5 upper in
  if sys =? 255 then n2 else set_bits n2 56 4 sys.
(* the values a well-formed Command 60928 commands: the last occurrence of fields 3, 4, 8 *)
Fixpoint ref_cmd_60928 (d:list Z) (pos:Z) (n:nat) (lo up si:Z) (codes:list Z) : option (Z * Z * Z * list Z) :=
  match n with
  | O => Some (lo, up, si, codes)
  | S n' =>
    match byte_at d pos, byte_at d (pos + 1) with
    | Some f, Some v =>
      if f =? 3 then ref_cmd_60928 d (pos + 2) n' (v mod 8) up si (codes ++ [pec_ok])
      else if f =? 4 then ref_cmd_60928 d (pos + 2) n' lo (v mod 32) si (codes ++ [pec_ok])
      else if f =? 8 then ref_cmd_60928 d (pos + 2) n' lo up (v mod 16) (codes ++ [pec_ok])
      else None
    | _, _ => None
    end
  end.
(* the texts a well-formed Command 126998 commands (type 1 strings): the last occurrence of fields 1, 2 *)
Fixpoint ref_cmd_126998 (d:list Z) (pos:Z) (n:nat) (s1 s2:list Z) (chg:bool) (codes:list Z) : option (list Z * list Z * bool * list Z) :=
  match n with
  | O => Some (s1, s2, chg, codes)
  | S n' =>
    match byte_at d pos with
    | Some f =>
      if (f =? 1) || (f =? 2) then
        match value_size (KVar []) d (pos + 1) with
        | Some l =>
          let t := ref_text (firstn 70 (slice d (pos + 3) (l - 2))) in
          if f =? 1 then ref_cmd_126998 d (pos + 1 + l) n' t s2 true (codes ++ [pec_ok])
          else ref_cmd_126998 d (pos + 1 + l) n' s1 t true (codes ++ [pec_ok])
        | None => None
        end
      else None
    | None => None
    end
  end.

Definition gf_commands_take_effect_stmt : Prop :=
  (* decision: an addressed, well-formed Command is acknowledged (priority code: 8 only for 60928; 8, 9, 15 for 126998) and carries the commanded values *)
  (forall e g n b lo up si cs, payload_ok (g_d g) -> g_dst g <> 255 ->
     ref_header (g_d g) = Some (1, 60928, n) -> byte_at (g_d g) 4 = Some b ->
     ref_cmd_60928 (g_d g) 6 (Z.to_nat n) 255 255 255 [] = Some (lo, up, si, cs) ->
     exists ack r, gf_decide e g = GaCmdInst (g_src g) ack lo up si /\ parse_ack ack = Some r /\ ak_pgn r = 60928 /\ ak_n r = n /\
                   ak_pgnec r = 0 /\ ak_tpec r = (if b mod 16 =? 8 then 0 else 1) /\ ak_codes r = cs) /\
  (forall e g n b s1 s2 chg cs, payload_ok (g_d g) -> g_dst g <> 255 ->
     ref_header (g_d g) = Some (1, 126998, n) -> byte_at (g_d g) 4 = Some b ->
     ref_cmd_126998 (g_d g) 6 (Z.to_nat n) (e_s1 e) (e_s2 e) false [] = Some (s1, s2, chg, cs) ->
     exists ack r, gf_decide e g = GaCmdDesc (g_src g) ack s1 s2 chg /\ parse_ack ack = Some r /\ ak_pgn r = 126998 /\ ak_n r = n /\
                   ak_pgnec r = 0 /\ ak_tpec r = (if ref_prio_ok (b mod 16) then 0 else 1) /\ ak_codes r = cs) /\
  (* execution: the values are stored, the changed indication is raised ... *)
  (forall r i dst ack lo up si, 0 <= i < dev_count (rn r) -> 0 <= d_name (get_dev (rn r) i) < 2^64 ->
     let r' := fst (gf_exec r i (GaCmdInst dst ack lo up si)) in
     let nm := d_name (get_dev (rn r) i) in
     d_name (get_dev (rn r') i) = ref_name_after nm lo up si /\
     (ref_name_after nm lo up si <> nm -> r_devinfo_changed r' = true) /\
     (is_ready_to_send (rn r) = true -> (Z.to_nat i < length (rx_dev r))%nat -> x_pend_claim (get_devx r' i) = sched_from_now (w64 r) (now r) 2)) /\
  (forall r i dst ack s1 s2, 0 <= i < dev_count (rn r) ->
     let r' := fst (gf_exec r i (GaCmdDesc dst ack s1 s2 true)) in
     c_inst1 (r_cfg r') = s1 /\ c_inst2 (r_cfg r') = s2 /\ c_manuf (r_cfg r') = c_manuf (r_cfg r) /\ c_inst_changed (r_cfg r') = true /\
     c_confinfo (r_cfg r') = conf_payload s1 s2 (c_manuf (r_cfg r))) /\
  (* ... and read back through the ISO request path: the next address claim carries the NAME, the next configuration information the payload *)
  (forall r q addressed i, 0 <= i < dev_count (rn r) -> claim_started (rn r) i = (rn r, false) ->
     respond_iso_request r q addressed 60928 i =
       (let '(n', ev, _) := send_msg (rn r) (claim_msg (get_dev (rn r) i) 255) i in (with_rn r n', ev)) /\
     m_data (claim_msg (get_dev (rn r) i) 255) = le_bytes 8 (d_name (get_dev (rn r) i))) /\
  (forall r q addressed i, 0 <= i < dev_count (rn r) -> claim_started (rn r) i = (rn r, false) -> c_confinfo (r_cfg r) <> [] ->
     respond_iso_request r q addressed 126998 i = send_config_info r i /\
     (forall r1 ev ok, rsend r {| m_pri := 6; m_pgn := 126998; m_src := dev_src r i; m_dst := 255; m_data := c_confinfo (r_cfg r); m_tp := false |} i = (r1, ev, ok) ->
        snd (send_config_info r i) = ev)).
(* an ASCII description is readable in the payload as [length+2; 1; text] (in particular the payload is not empty, the side condition above) *)
Definition conf_payload_ascii_stmt : Prop :=
  forall s1 s2 s3, Forall (fun b => 0 < b < 128) (s1 ++ s2 ++ s3) -> (length s1 <= 70)%nat -> (length s2 <= 70)%nat -> (length s3 <= 70)%nat ->
     conf_payload s1 s2 s3 = [len s1 + 2; 1] ++ s1 ++ [len s2 + 2; 1] ++ s2 ++ [len s3 + 2; 1] ++ s3.

(* ================= (e) heartbeat interval and offset ================= *)
(* A Request for PGN 126993 without pairs and a complete header changes the heartbeat iff the interval is 1000..60000 ms, "restore default"
   (0xFFFFFFFE) or "no change" (0xFFFFFFFF, with an offset that is not "no change") and the offset is "no change" (0xFFFF), 0 or at most
   6000 (x 10 ms); interval 0 (switch off) is refused; then the scheduler's period is the requested interval in ms (default 60000), its
   offset the requested offset x 10 ms (unchanged for 0 / 0xFFFF), and the heartbeat sent immediately states period / 10 *)
Definition hb_accepts (interval offset:Z) : bool :=
  (((1000 <=? interval) && (interval <=? 60000)) || (interval =? 4294967294) || ((interval =? 4294967295) && negb (offset =? 65535)))
  && ((offset =? 65535) || (offset =? 0) || (offset <=? 6000)).
Definition gf_heartbeat_limits_stmt : Prop :=
  (forall e g iv ov, payload_ok (g_d g) -> ref_header (g_d g) = Some (0, 126993, 0) ->
     bytes_at (g_d g) 4 4 = Some iv -> bytes_at (g_d g) 8 2 = Some ov ->
     let interval := le_val iv in let offset := le_val ov in
     (hb_accepts interval offset = true ->
        gf_decide e g = GaHeartbeat interval (if (offset =? 65535) || (offset =? 0) then 4294967295 else offset * 10)) /\
     (hb_accepts interval offset = false -> forall iv' off', gf_decide e g <> GaHeartbeat iv' off') /\
     (interval = 0 -> g_dst g <> 255 -> acks_with (gf_decide e g) (g_src g) 126993 0 (fun r => ak_tpec r = 1))) /\
  (forall r i interval off, 0 <= i < dev_count (rn r) -> (Z.to_nat i < length (rx_dev r))%nat ->
     (1000 <= interval <= 60000 \/ interval = 4294967294) -> (off = 4294967295 \/ 0 < off <= 60000) ->
     let r' := action_pre r i (GaHeartbeat interval off) in
     let period := if interval =? 4294967294 then 60000 else interval in
     ss_period (x_hb (get_devx r' i)) = period /\
     ss_offset (x_hb (get_devx r' i)) = (if off =? 4294967295 then ss_offset (x_hb (get_devx r i)) else off) /\
     action_msgs r' i (GaHeartbeat interval off) = [heartbeat_msg (dev_src r' i) period 255] /\
     firstn 2 (m_data (heartbeat_msg (dev_src r' i) period 255)) = le_bytes 2 (period / 10)).

(* ================= discrepancies between the reference / the standard and the code (not repaired; see the known findings) =================
   - Command for a transmit PGN without command support (default handler): Acknowledge with every code 0 although nothing is executed.
   - Command 60928 / 126998 whose priority setting is refused (transmission/priority code 1) is executed nevertheless.
   - Command parameter with a cut off / malformed value: 126998 stores the empty text (or the part that arrived), 60928 reads the missing
     byte as 0xFF; parameter code 0 in both cases.  The reference leaves these undefined ([ref_cmd_*] = None).
   - Request with interval 0 ("switch off") for PGNs without interval support is accepted as "no change" and answered by the PGN.
   - the Read/Write Fields header of the code skips "unique id, number of selection pairs, number of parameters" and echoes the number of
     PARAMETERS (not selection pairs) in the Acknowledge; read and write are refused for every PGN.
   - Request for PGN 126993 with pairs: every parameter gets code 5 (request not supported) whatever the field. *)
