(* C03 - address claiming converges to unique addresses and the lower NAME wins.
   Part 1 (generic): an abstract network of nodes (library instances with several devices, foreign ISO 11783-5 nodes) exchanging claims
   over a bus WITHOUT loop-back; hypotheses R1..R5 on the nodes' reactions; the invariant [pairwise_cover] and its consequences.
   Part 2 (library): the statements tying R1..R5, the address-changed indication, the exhausted search and the transmitted source address
   to the frozen node model (Model/NodeDefs.v, Model/NodeRxDefs.v), the refutation of R5 for commanded addresses (D-04), and the
   instantiation of the generic theorems with the library's reactions.
   Proofs: Proofs/ClaimProofsA.v (generic), ClaimProofsB.v (lib_R1..R5, exhausted search, transmitted source, D-04 witness), ClaimProofsC.v (address-changed
   indication), ClaimProofsD.v (commanded addresses that avoid siblings, Open()/Restart()), ClaimProofsE.v (instantiation);
   ClaimProofsF.v (convergence, generic), ClaimProofsG.v (convergence, library), ClaimProofsH.v (a claim frame reaches HandleISOAddressClaim),
   ClaimProofsI.v (nothing else writes an address), ClaimProofsJ.v (queues of claim frames, ParseMessages, one step of the model network);
   closing theorems: Props/Properties_C03.v. *)
From Coq Require Import ZArith List Bool.
From N2kV Require Import Base.ListAux Model.CanId Model.Sched Model.PgnClass Model.NodeDefs Model.NodeRxDefs Model.NetDefs Gen.GenTables Gen.GenConsts Spec.SendSpec.
Import ListNotations.
Local Open Scope Z_scope.

(* ======================================================================================================================= *)
(* Part 1: the generic network                                                                                             *)
(* ======================================================================================================================= *)
Record claim := { cx : Z; cn : Z }.            (* claim(address, NAME): PGN 60928 sent from address cx with NAME cn *)
Definition operational (x:Z) : Prop := 0 <= x <= 251.      (* 254 = no address (null / cannot claim / not started) *)

(* why a node acts without having received a claim *)
Inductive cause : Type :=
| CStart                      (* power-up / Open(): the node claims its preferred addresses *)
| CCommand (nm y:Z)           (* an ISO commanded-address message for NAME nm with new address y reaches the node *)
| CRestart                    (* the application restarts address claiming *)
| CTick.                      (* time passes (claim windows end, pending answers are sent): never changes an address *)

Section Net.
(* nodes are numbered 0 .. nodes-1; node i owns the devices (i,0) .. (i, ndev i - 1) and ONE inbox: a frame a node sends reaches every
   other node, never the node itself, so devices of one node never hear each other (a library instance with several devices is one
   node; a foreign ISO 11783-5 node is a node with one device) *)
Variable nstate : Type.                               (* state of one node *)
Variable nodes : nat.                                 (* number of nodes on the bus: 0 .. nodes-1 *)
Variable ndev : nat -> nat.
Variable addr : nstate -> nat -> Z.                   (* address of device k of a node in this state *)
Variable name : nat -> nat -> Z.                      (* NAME of device (i,k) *)
Variable good : nat -> nstate -> Prop.                (* well-formedness of node i's state (preserved by everything the node does) *)
Variable react : nat -> nstate -> claim -> nstate * list claim.     (* node i handles one received claim *)
Variable spont : nat -> nstate -> cause -> nstate * list claim.     (* node i acts on its own *)
Variable allowed : nat -> nstate -> cause -> Prop.                  (* side condition on such actions (e.g. which commands are considered) *)

Definition valid_dev (i k:nat) : Prop := (i < nodes)%nat /\ (k < ndev i)%nat.
Definition own_name (i:nat) (n:Z) : Prop := exists k, valid_dev i k /\ n = name i k.
Definition names_distinct : Prop := forall i k j l, valid_dev i k -> valid_dev j l -> name i k = name j l -> i = j /\ k = l.
(* devices of one node hold pairwise different addresses (unless they have none) *)
Definition sib_distinct (i:nat) (s:nstate) : Prop :=
  forall k l, valid_dev i k -> valid_dev i l -> k <> l -> operational (addr s k) -> addr s k <> addr s l.

(* the hypotheses on a node's behaviour; c is a claim carrying the NAME of a device of ANOTHER node (NAMEs being distinct, not one of
   the node's own) *)
Definition pre (i:nat) (s:nstate) (c:claim) : Prop :=
  (i < nodes)%nat /\ good i s /\ sib_distinct i s /\ (exists j, j <> i /\ own_name j (cn c)).
(* R1: holding x and receiving claim(x, n) with n below the own NAME: leaves x *)
Definition R1 : Prop := forall i s c k, pre i s c -> valid_dev i k -> addr s k = cx c -> operational (cx c) -> cn c < name i k ->
  addr (fst (react i s c)) k <> cx c.
(* R2: every change of a device's address to y <> none emits claim(y, own NAME) *)
Definition R2 : Prop := forall i s c k, pre i s c -> valid_dev i k ->
  addr (fst (react i s c)) k <> addr s k -> operational (addr (fst (react i s c)) k) ->
  In {| cx := addr (fst (react i s c)) k; cn := name i k |} (snd (react i s c)).
(* R3: holding x and receiving claim(x, n) with n above the own NAME: keeps x and answers claim(x, own NAME) *)
Definition R3 : Prop := forall i s c k, pre i s c -> valid_dev i k -> addr s k = cx c -> operational (cx c) -> name i k < cn c ->
  addr (fst (react i s c)) k = addr s k /\ In {| cx := addr s k; cn := name i k |} (snd (react i s c)).
(* R4: claims for other addresses (and from the null address) are inert *)
Definition R4 : Prop := forall i s c k, pre i s c -> valid_dev i k -> (addr s k <> cx c \/ ~ operational (cx c)) ->
  addr (fst (react i s c)) k = addr s k.
(* R5: an address change never lands on an address held by a sibling; well-formedness is kept *)
Definition R5 : Prop := forall i s c, pre i s c -> good i (fst (react i s c)) /\ sib_distinct i (fst (react i s c)).
Definition react_own : Prop := forall i s c f, pre i s c -> In f (snd (react i s c)) -> own_name i (cn f).
(* the same for the node's own actions: start, commanded address, restart, time *)
Definition S2 : Prop := forall i s a k, (i < nodes)%nat -> good i s -> sib_distinct i s -> allowed i s a -> valid_dev i k ->
  addr (fst (spont i s a)) k <> addr s k -> operational (addr (fst (spont i s a)) k) ->
  In {| cx := addr (fst (spont i s a)) k; cn := name i k |} (snd (spont i s a)).
Definition S5 : Prop := forall i s a, (i < nodes)%nat -> good i s -> sib_distinct i s -> allowed i s a -> good i (fst (spont i s a)) /\ sib_distinct i (fst (spont i s a)).
Definition spont_own : Prop := forall i s a f, (i < nodes)%nat -> good i s -> sib_distinct i s -> allowed i s a -> In f (snd (spont i s a)) -> own_name i (cn f).
Definition node_hyps : Prop := names_distinct /\ R1 /\ R2 /\ R3 /\ R4 /\ R5 /\ react_own /\ S2 /\ S5 /\ spont_own.

(* global state: every node's state and its inbox; the inbox is used as a multiset - ANY pending claim may be delivered next,
   which covers every delivery order *)
Record world := { st : nat -> nstate; inbox : nat -> list claim }.
Definition upd {A} (f:nat -> A) (p:nat) (v:A) : nat -> A := fun q => if Nat.eqb q p then v else f q.
(* what node p sends is appended to the inbox of every OTHER node on the bus *)
Definition bcast (ib:nat -> list claim) (p:nat) (out:list claim) : nat -> list claim :=
  fun q => if Nat.eqb q p || negb (Nat.ltb q nodes) then ib q else ib q ++ out.

Inductive step : world -> world -> Prop :=
| Deliver i c l1 l2 w : (i < nodes)%nat -> inbox w i = l1 ++ c :: l2 ->
    step w {| st := upd (st w) i (fst (react i (st w i) c)); inbox := bcast (upd (inbox w) i (l1 ++ l2)) i (snd (react i (st w i) c)) |}
| Act i a w : (i < nodes)%nat -> allowed i (st w i) a ->
    step w {| st := upd (st w) i (fst (spont i (st w i) a)); inbox := bcast (inbox w) i (snd (spont i (st w i) a)) |}.
Inductive steps : world -> world -> Prop :=
| steps_refl w : steps w w
| steps_step w1 w2 w3 : steps w1 w2 -> step w2 w3 -> steps w1 w3.

(* the invariant: two devices of different nodes that hold the same address x have an unresolved claim between them; devices of one
   node never share an address; every pending claim carries the NAME of a device of another node *)
Definition pairwise_cover (w:world) : Prop :=
  (forall i, good i (st w i) /\ sib_distinct i (st w i)) /\
  (forall i c, In c (inbox w i) -> exists j, j <> i /\ own_name j (cn c)) /\
  (forall i j k l, i <> j -> valid_dev i k -> valid_dev j l -> addr (st w i) k = addr (st w j) l -> operational (addr (st w i) k) ->
     In {| cx := addr (st w i) k; cn := name i k |} (inbox w j) \/ In {| cx := addr (st w i) k; cn := name j l |} (inbox w i)).
(* initial worlds: nobody has started (no device has an address), nothing is pending *)
Definition initial (w:world) : Prop :=
  (forall i, good i (st w i)) /\ (forall i k, valid_dev i k -> ~ operational (addr (st w i) k)) /\ (forall i, inbox w i = []).
Definition quiescent (w:world) : Prop := forall i, inbox w i = [].
End Net.

(* --- the generic theorems (for every number of nodes and devices, every schedule) --- *)
(* 1. every step preserves the invariant *)
Definition pairwise_cover_preserved_stmt : Prop :=
  forall nstate nodes ndev addr name good react spont allowed,
    node_hyps nstate nodes ndev addr name good react spont allowed ->
    forall w w', pairwise_cover nstate nodes ndev addr name good w -> step nstate nodes react spont allowed w w' -> pairwise_cover nstate nodes ndev addr name good w'.
(* 2. it holds initially, hence in every reachable world *)
Definition pairwise_cover_reachable_stmt : Prop :=
  forall nstate nodes ndev addr name good react spont allowed,
    node_hyps nstate nodes ndev addr name good react spont allowed ->
    forall w0 w, initial nstate nodes ndev addr good w0 -> steps nstate nodes react spont allowed w0 w -> pairwise_cover nstate nodes ndev addr name good w.
(* 3. when nothing is pending any more, all devices that have an address have pairwise different ones - across all nodes *)
Definition quiescent_unique_stmt : Prop :=
  forall nstate nodes ndev addr name good react spont allowed,
    node_hyps nstate nodes ndev addr name good react spont allowed ->
    forall w0 w, initial nstate nodes ndev addr good w0 -> steps nstate nodes react spont allowed w0 w -> quiescent nstate w ->
    forall i k j l, valid_dev nodes ndev i k -> valid_dev nodes ndev j l -> (i, k) <> (j, l) -> operational (addr (st nstate w i) k) ->
      addr (st nstate w i) k <> addr (st nstate w j) l.
(* 4. a device only ever leaves an address because of a claim for exactly that address carrying a numerically lower NAME *)
Definition lower_name_wins_stmt : Prop :=
  forall nstate nodes ndev addr name good react spont allowed,
    node_hyps nstate nodes ndev addr name good react spont allowed ->
    forall w i c l1 l2 k, pairwise_cover nstate nodes ndev addr name good w -> inbox nstate w i = l1 ++ c :: l2 -> valid_dev nodes ndev i k ->
      addr (fst (react i (st nstate w i) c)) k <> addr (st nstate w i) k ->
      cx c = addr (st nstate w i) k /\ operational (cx c) /\ cn c < name i k.

(* 5. convergence ("ends up"): once the nodes stop acting on their own (no further start / command / restart), EVERY schedule of
      deliveries is finite, i.e. the network reaches a world where nothing is pending (and then statement 3 applies) - provided that
      (a) finitely many nodes take part, (b) a node answers a claim with at most one claim and only when the claim was for an address
      one of its devices holds, (c) every device has a measure that strictly decreases whenever its address changes (the library: the
      number of addresses left before AddressClaimEndSource, then the null address).  The intended proof is an induction on the
      rank of the NAMEs: the device with the highest NAME never defends, so it emits at most one claim per move; a device defends
      at most once per claim emitted by a higher NAME; hence the total number of claims ever emitted is bounded.
      Proved (Proofs/ClaimProofsF.v) with the lexicographic measure (sum of the devices' measures, pending claims weighted by
      nodes ^ rank of their NAME); instantiated for library and reference nodes in Part 4 (Proofs/ClaimProofsG.v).  The exhaustive
      exploration of the MODEL network for 2..4 participants (tools/p_C03.py, `EXPL` lines) remains as an independent search. *)
Definition deliveries nstate nodes react (w w':world nstate) : Prop :=
  exists i c l1 l2, (i < nodes)%nat /\ inbox nstate w i = l1 ++ c :: l2 /\
    w' = {| st := upd (st nstate w) i (fst (react i (st nstate w i) c)); inbox := bcast nodes (upd (inbox nstate w) i (l1 ++ l2)) i (snd (react i (st nstate w i) c)) |}.
Definition converges_stmt : Prop :=
  forall nstate nodes ndev addr name good react spont allowed (left:nstate -> nat -> nat),
    node_hyps nstate nodes ndev addr name good react spont allowed ->
    (forall i s c, pre nstate nodes ndev addr name good i s c ->
       (length (snd (react i s c)) <= 1)%nat /\
       (snd (react i s c) <> [] -> exists k, valid_dev nodes ndev i k /\ addr s k = cx c /\ operational (cx c)) /\
       (forall k, valid_dev nodes ndev i k -> (addr (fst (react i s c)) k = addr s k /\ left (fst (react i s c)) k = left s k) \/
                                        (left (fst (react i s c)) k < left s k)%nat)) ->
    forall w0 w, initial nstate nodes ndev addr good w0 -> steps nstate nodes react spont allowed w0 w ->
      Acc (fun w2 w1 => deliveries nstate nodes react w1 w2) w.

(* ======================================================================================================================= *)
(* Part 2: the library (frozen model)                                                                                      *)
(* ======================================================================================================================= *)
(* little-endian value of a byte string / the 8 bytes of a NAME: written here independently of the model's le_bytes / of_le8 *)
Fixpoint le_val (l:list Z) : Z := match l with [] => 0 | b :: r => b + 256 * le_val r end.
Fixpoint le_of (k:nat) (v:Z) : list Z := match k with O => [] | S k' => v mod 256 :: le_of k' (v / 256) end.
Definition name_bytes (n:Z) : list Z := le_of 8 n.

(* the claims among the frames a node hands to its driver (accepted ones): identifier fields as in Spec/SendSpec.v;
   PGN 60928 = data page 0, PDU format 238 (destination in the PS field), 8 data bytes = the NAME *)
Definition claim_of_event (e:event) : list claim :=
  match e with
  | EvTx id len data true => if (id_pf id =? 238) && (id_dp id =? 0) && (len =? 8) then [{| cx := id_sa id; cn := le_val (firstn 8 data) |}] else []
  | _ => []
  end.
Definition ev_claims (evs:list event) : list claim := flat_map claim_of_event evs.
(* the frame of a claim: priority 6, PGN 60928, to everybody *)
Definition claim_event (x n:Z) : event := EvTx (to_can_id 6 60928 x 255) 8 (name_bytes n) true.

Definition lib_ndev (r:rnode) : nat := length (n_devs (rn r)).
Definition lib_dev (r:rnode) (k:nat) : dev := get_dev (rn r) (Z.of_nat k).
Definition lib_src (r:rnode) (k:nat) : Z := d_src (lib_dev r k).          (* N2kSource = what GetN2kSource(k) reports *)
Definition lib_name (r:rnode) (k:nat) : Z := d_name (lib_dev r k).
Definition lib_flag (r:rnode) : bool := n_addr_changed (rn r).            (* the address-changed indication *)
Definition lib_open (r:rnode) : Prop := n_open (rn r) = 3.

(* a device's address data make sense: an address 0..251 with a search end 0..251, or the null address; a 64-bit NAME *)
Definition dev_ok (d:dev) : Prop := ((0 <= d_src d <= 251 /\ 0 <= d_claim_end d <= 251) \/ d_src d = 254) /\ 0 <= d_name d < 2^64.
(* devices of one node never share an address 0..251 *)
Definition lib_sib_distinct (r:rnode) : Prop :=
  forall k l, (k < lib_ndev r)%nat -> (l < lib_ndev r)%nat -> k <> l -> operational (lib_src r k) -> lib_src r k <> lib_src r l.
(* an active node (NodeOnly / ListenAndNode) whose driver accepts and whose send queue is empty, claims not declared as fast packets *)
Definition lib_good (r:rnode) : Prop :=
  is_active_node (rn r) = true /\ n_drv (rn r) = [] /\ ring_wf (n_q (rn r)) /\ q_rd (n_q (rn r)) = q_wr (n_q (rn r)) /\
  is_fast_packet_pgn (n_pgn (rn r)) 60928 = false /\ Forall dev_ok (n_devs (rn r)) /\ lib_sib_distinct r.
Definition sibling_holds (r:rnode) (k:nat) (y:Z) : Prop := exists l, (l < lib_ndev r)%nat /\ l <> k /\ lib_src r l = y.

(* what a claim(x, NAME n) does to an open node: HandleISOAddressClaim on source x and the 8 payload bytes *)
Definition on_claim (r:rnode) (x n:Z) : rnode * list event := handle_claim r x (name_bytes n).
Definition claim_args (r:rnode) (x n:Z) (k:nat) : Prop := lib_good r /\ lib_open r /\ (k < lib_ndev r)%nat /\ 0 <= n < 2^64.
(* the claim carries a NAME that is not one of the node's own (the property's premise: NAMEs on the bus are pairwise distinct) *)
Definition foreign_name (r:rnode) (n:Z) : Prop := forall l, (l < lib_ndev r)%nat -> lib_name r l <> n.

(* lib_R1: the device holding x leaves x when the claimant's NAME is lower *)
Definition lib_R1_stmt : Prop := forall r x n k, claim_args r x n k -> lib_src r k = x -> operational x -> n < lib_name r k ->
  lib_src (fst (on_claim r x n)) k <> x.
(* lib_R2: whenever a device's address changes to y <= 251, claim(y, its NAME) is handed to the driver and accepted, i.e. it is on the wire
   (PGN 60928 passes SendMsg's gate even while the claim window of the device is open) *)
Definition lib_R2_stmt : Prop := forall r x n k, claim_args r x n k -> foreign_name r n ->
  lib_src (fst (on_claim r x n)) k <> lib_src r k -> operational (lib_src (fst (on_claim r x n)) k) ->
  In {| cx := lib_src (fst (on_claim r x n)) k; cn := lib_name r k |} (ev_claims (snd (on_claim r x n))).
(* lib_R3: the device holding x keeps it against a higher NAME and answers with exactly one frame: its own claim for x *)
Definition lib_R3_stmt : Prop := forall r x n k, claim_args r x n k -> lib_src r k = x -> operational x -> lib_name r k < n ->
  lib_src (fst (on_claim r x n)) k = x /\ snd (on_claim r x n) = [claim_event x (lib_name r k)] /\
  In {| cx := x; cn := lib_name r k |} (ev_claims (snd (on_claim r x n))).
(* lib_R4: claims for other addresses, from the null address or from addresses above 251 do not move a device *)
Definition lib_R4_stmt : Prop := forall r x n k, claim_args r x n k -> foreign_name r n -> (lib_src r k <> x \/ ~ operational x) ->
  lib_src (fst (on_claim r x n)) k = lib_src r k.
(* lib_R5 (arbitration): after a claim carrying a foreign NAME the node is still well formed - in particular a device that had to move
   did not land on a sibling's address (GetNextAddress skips them) -, still open, with the same devices and NAMEs; everything it
   sent are claims in its own NAMEs *)
Definition lib_R5_arbitration_stmt : Prop := forall r x n, lib_good r -> lib_open r -> 0 <= n < 2^64 -> foreign_name r n ->
  let r' := fst (on_claim r x n) in
  lib_good r' /\ lib_open r' /\ lib_ndev r' = lib_ndev r /\ (forall k, lib_name r' k = lib_name r k) /\
  (forall f, In f (ev_claims (snd (on_claim r x n))) -> exists k, (k < lib_ndev r)%nat /\ cn f = lib_name r k).

(* the search of GetNextAddress from address a with search end e: the first address after a (cyclically, up to e) that no sibling
   holds; the null address when there is none.  It never runs out of fuel (300 iterations suffice for 252 addresses), never comes back
   to a, and strictly shortens the remaining distance to e: repeated losses visit every address at most once and end at 254. *)
Definition dist_to_end (a e:Z) : Z := (e - a) mod 252.
Definition null_when_exhausted_stmt : Prop :=
  forall r k, (k < lib_ndev r)%nat -> 0 <= lib_src r k <= 251 -> 0 <= d_claim_end (lib_dev r k) <= 251 ->
    let a := lib_src r k in let e := d_claim_end (lib_dev r k) in
    let r' := next_address 300 r (Z.of_nat k) false in let a' := lib_src r' k in
    (forall l, l <> k -> lib_src r' l = lib_src r l) /\ lib_ndev r' = lib_ndev r /\ d_claim_end (lib_dev r' k) = e /\ a' <> a /\
    ((a' = 254 /\ forall j, 1 <= j <= dist_to_end a e -> sibling_holds r k ((a + j) mod 252)) \/
     (exists j, 1 <= j <= dist_to_end a e /\ a' = (a + j) mod 252 /\ ~ sibling_holds r k a' /\
                (forall j', 1 <= j' < j -> sibling_holds r k ((a + j') mod 252)) /\ dist_to_end a' e = dist_to_end a e - j)).
(* consequence for a run of losses of one device while the siblings stay where they are: after more losses than the distance to the
   search end the device is at the null address.  (The run is a relation, not a function: conversion on terms containing
   [next_address 300 ..] is exponential in the fuel.) *)
Inductive after_losses (i:Z) : nat -> rnode -> rnode -> Prop :=
| al_0 r : after_losses i O r r
| al_S n r r' : after_losses i n (next_address 300 r i false) r' -> after_losses i (S n) r r'.
Definition exhausted_run_stmt : Prop :=
  forall r k n r', (k < lib_ndev r)%nat -> 0 <= lib_src r k <= 251 -> 0 <= d_claim_end (lib_dev r k) <= 251 ->
    after_losses (Z.of_nat k) n r r' -> (Z.of_nat n > dist_to_end (lib_src r k) (d_claim_end (lib_dev r k))) -> lib_src r' k = 254.

(* every way a device's own address changes raises the address-changed indication: a claim (lost arbitration, exhausted search),
   a commanded address, Open()/Restart() (restart of a device at the null address) *)
Definition changes_flagged (r r':rnode) : Prop := (exists k, lib_src r' k <> lib_src r k) -> lib_flag r' = true.
(* the address data of every device make sense (an address 0..251 with a search end 0..251, or the null address) *)
Definition addr_data_ok (r:rnode) : Prop :=
  forall k, (k < lib_ndev r)%nat -> (0 <= lib_src r k <= 251 /\ 0 <= d_claim_end (lib_dev r k) <= 251) \/ lib_src r k = 254.
Definition address_changed_flag_stmt : Prop :=
  (forall r x data, addr_data_ok r -> changes_flagged r (fst (handle_claim r x data))) /\
  (forall r s, changes_flagged r (fst (handle_commanded r s))) /\
  (forall r, addr_data_ok r -> changes_flagged r (fst (start_claim_all (length (n_devs (rn r))) r 0))).

(* the source address in the identifier of everything SendMsg builds for device i is the address the library reports for device i *)
Definition tx_source_is_reported_stmt : Prop :=
  (* at the gate, in every state *)
  (forall n m idev n1 m' i id, 0 <= idev -> send_gate n m idev = (n1, Some (m', i, id)) ->
     m_src m' = d_src (get_dev n idev) /\ id = to_can_id (m_pri m) (m_pgn m) (d_src (get_dev n idev)) (m_dst m')) /\
  (* on the wire, with an accepting driver and nothing queued *)
  (forall n m idev, 0 <= idev < dev_count n -> n_drv n = [] -> ring_wf (n_q n) -> q_rd (n_q n) = q_wr (n_q n) -> (length (m_data m) <= 223)%nat ->
     0 <= m_pri m < 8 -> 0 <= m_pgn m < 2^17 -> 0 <= m_dst m < 256 -> 0 <= d_src (get_dev n idev) < 256 -> m_tp m = false ->
     forall id len data ok, In (EvTx id len data ok) (snd (fst (send_msg n m idev))) -> id_sa id = d_src (get_dev n idev)).

(* D-04: R5 does NOT hold for commanded addresses - HandleCommandedAddress stores the new address without looking at the siblings.
   Witness on the model network: one library node with devices (30, NAME 1a) and (31, NAME 1b); commanded address for NAME 1b, new
   address 30, sent by BAM from tool address 249; afterwards both devices report 30. *)
Definition d04_cfg : rcfg := {| c_only_known := false; c_iso_handler := None; c_prodinfo := []; c_confinfo := []; c_hb_on := true;
                                c_inst1 := []; c_inst2 := []; c_manuf := []; c_inst_changed := false |}.
Definition d04_net : net :=
  mk_net [PLib (cold_node true 1 5000 80 5 no_lists [mk_dev true 30 26 []; mk_dev true 31 27 []] [[]; []] d04_cfg)].
Definition d04_ops : list nop := [NStart 0; NTick 1; NTick 250; NTick 251; NCmd 27 30 249; NStep 0 0; NStep 0 0; NStep 0 0].
Definition commanded_collision_refuted_stmt : Prop :=
  let nt := fst (net_run gf_none d04_net d04_ops) in
  map part_addrs (nt_parts nt) = [[30; 30]] /\
  (* before the command the node was well formed and open, with the devices at 30 and 31 *)
  (exists r, map p_kind (nt_parts (fst (net_run gf_none d04_net (firstn 4 d04_ops)))) = [PLib r] /\ lib_good r /\ lib_open r /\ lib_src r 0 = 30 /\ lib_src r 1 = 31).
(* the commanded address that is considered in the instantiation below: not held by a sibling of the device it names *)
Definition command_avoids_siblings (r:rnode) (nm y:Z) : Prop :=
  forall k l, (k < lib_ndev r)%nat -> (l < lib_ndev r)%nat -> lib_name r k = nm -> l <> k -> lib_src r l <> y.
Definition lib_R5_commanded_partial_stmt : Prop :=
  forall r nm y, lib_good r -> lib_open r -> 0 <= y <= 251 -> (forall k l, (k < lib_ndev r)%nat -> (l < lib_ndev r)%nat -> lib_name r k = lib_name r l -> k = l) ->
    command_avoids_siblings r nm y ->
    let r' := fst (commanded_all (lib_ndev r) r nm y 0) in
    lib_good r' /\ lib_open r' /\ lib_ndev r' = lib_ndev r /\ (forall k, lib_name r' k = lib_name r k) /\
    (forall k, (k < lib_ndev r)%nat -> lib_src r' k <> lib_src r k -> lib_name r k = nm /\ lib_src r' k = y /\
                 In {| cx := y; cn := nm |} (ev_claims (snd (commanded_all (lib_ndev r) r nm y 0)))).

(* ======================================================================================================================= *)
(* Part 3: the generic theorems instantiated with the library's reactions                                                  *)
(* ======================================================================================================================= *)
(* A network whose nodes are library nodes (state: the frozen model's [rnode]; reaction to a claim: HandleISOAddressClaim; own actions:
   Open() = StartAddressClaim() over all devices, Restart(), HandleCommandedAddress, expiry of the claim timers) and foreign reference
   nodes (Model/NetDefs.v, [fnode]), exchanging claims.  This is the claim-level view of Model/NetDefs.v: what is NOT proved is that
   ParseMessages (poll / rx_frame / handle_system, ISO-TP reassembly of the commanded address) dispatches a received claim frame to
   HandleISOAddressClaim and nothing else touches N2kSource - that link is covered by the correspondence runs of tools/p_C03.py. *)
(* the reference node at the level of claims (Model/NetDefs.v fn_react at the level of frames) *)
Definition ref_next (f:fnode) : Z :=
  if fn_addr f =? fn_end f then 254 else if fn_addr f + 1 >? 251 then 0 else fn_addr f + 1.
Definition ref_react (f:fnode) (c:claim) : fnode * list claim :=
  if (cx c =? fn_addr f) && (fn_addr f <=? 251) then
    if fn_name f <? cn c then (f, [{| cx := fn_addr f; cn := fn_name f |}])
    else if cn c <? fn_name f then (fn_with_addr f (ref_next f) (fn_end f), [{| cx := ref_next f; cn := fn_name f |}])
    else (f, [])
  else (f, []).
Definition ref_start (f:fnode) : fnode * list claim :=
  (fn_with_addr f (fn_pref f) (claim_end_of (fn_pref f)), [{| cx := fn_pref f; cn := fn_name f |}]).
Definition claim_frame (c:claim) : rxframe := {| r_id := to_can_id 6 60928 (cx c) 255; r_len := 8; r_buf := name_bytes (cn c) |}.
(* the claim-level reference node is the frame-level one of the model network *)
Definition ref_react_frames_stmt : Prop :=
  forall f c, 0 <= cx c < 256 -> 0 <= cn c < 2^64 -> 0 <= fn_addr f < 256 -> 0 <= fn_end f < 256 ->
    fn_react f (claim_frame c) = (fst (ref_react f c), map claim_frame (snd (ref_react f c))) /\
    fn_start f = (fst (ref_start f), map claim_frame (snd (ref_start f))).

Definition c_addr (s:pkind) (k:nat) : Z :=
  match s with
  | PLib r => if n_open (rn r) =? 3 then lib_src r k else 254          (* a library node that has not opened yet holds nothing *)
  | PRef f => match k with O => fn_addr f | _ => 254 end
  end.
Definition c_react (i:nat) (s:pkind) (c:claim) : pkind * list claim :=
  match s with
  | PLib r => if n_open (rn r) =? 3 then (PLib (fst (on_claim r (cx c) (cn c))), ev_claims (snd (on_claim r (cx c) (cn c)))) else (s, [])
  | PRef f => (PRef (fst (ref_react f c)), snd (ref_react f c))
  end.
Definition lib_start (r:rnode) : rnode * list event := start_claim_all (lib_ndev r) (with_open r 3 (r_open_sched r)) 0.
Definition c_spont (i:nat) (s:pkind) (a:cause) : pkind * list claim :=
  match s, a with
  | PLib r, CStart => if n_open (rn r) =? 3 then (s, []) else (PLib (fst (lib_start r)), ev_claims (snd (lib_start r)))
  | PLib r, CRestart => if n_open (rn r) =? 3 then (PLib (fst (start_claim_all (lib_ndev r) r 0)), ev_claims (snd (start_claim_all (lib_ndev r) r 0))) else (s, [])
  | PLib r, CCommand nm y =>
      if n_open (rn r) =? 3 then (PLib (fst (commanded_all (lib_ndev r) r nm y 0)), ev_claims (snd (commanded_all (lib_ndev r) r nm y 0))) else (s, [])
  | PLib r, CTick => (PLib (claim_started_all (lib_ndev r) r 0), [])
  | PRef f, CStart => if fn_addr f =? 254 then (PRef (fst (ref_start f)), snd (ref_start f)) else (s, [])
  | PRef f, _ => (s, [])
  end.
(* D-04: only commanded addresses that do not name an address held by a sibling are considered *)
Definition c_allowed (i:nat) (s:pkind) (a:cause) : Prop :=
  match s, a with
  | PLib r, CCommand nm y => 0 <= y <= 251 /\ command_avoids_siblings r nm y
  | _, _ => True
  end.
Section LibNet.
Variable nodes : nat.
Variable ndev0 : nat -> nat.                 (* devices per node (a reference node has one) *)
Variable name0 : nat -> nat -> Z.            (* the NAMEs *)
Definition c_good (i:nat) (s:pkind) : Prop :=
  match s with
  | PLib r => lib_good r /\ lib_ndev r = ndev0 i /\ (forall k, (k < ndev0 i)%nat -> lib_name r k = name0 i k)
  | PRef f => ndev0 i = 1%nat /\ fn_name f = name0 i 0%nat /\ (0 <= fn_addr f <= 251 \/ fn_addr f = 254) /\ 0 <= fn_end f <= 251 /\ 0 <= fn_pref f <= 251
  end.
Definition config_ok : Prop :=
  names_distinct nodes ndev0 name0 /\ (forall i k, valid_dev nodes ndev0 i k -> 0 <= name0 i k < 2^64).
End LibNet.
(* the library's and the reference node's reactions satisfy R1..R5 (commanded addresses: those that avoid the siblings) *)
Definition library_node_hyps_stmt : Prop :=
  forall nodes ndev0 name0, config_ok nodes ndev0 name0 ->
    node_hyps pkind nodes ndev0 c_addr name0 (c_good ndev0 name0) c_react c_spont c_allowed.
(* hence: in every world reachable from a start in which no library node has opened and no reference node has claimed, whatever the
   start-up order, the preferred addresses, the order in which pending claims are handled, restarts and (sibling-avoiding) commanded
   addresses - once nothing is pending, all devices that hold an address hold different ones; and a device only ever yields to a lower NAME *)
Definition library_quiescent_unique_partial_stmt : Prop :=
  forall nodes ndev0 name0, config_ok nodes ndev0 name0 ->
    forall w0 w, initial pkind nodes ndev0 c_addr (c_good ndev0 name0) w0 -> steps pkind nodes c_react c_spont c_allowed w0 w ->
      pairwise_cover pkind nodes ndev0 c_addr name0 (c_good ndev0 name0) w /\
      (quiescent pkind w -> forall i k j l, valid_dev nodes ndev0 i k -> valid_dev nodes ndev0 j l -> (i, k) <> (j, l) ->
         operational (c_addr (st pkind w i) k) -> c_addr (st pkind w i) k <> c_addr (st pkind w j) l) /\
      (forall i c l1 l2 k, inbox pkind w i = l1 ++ c :: l2 -> valid_dev nodes ndev0 i k ->
         c_addr (fst (c_react i (st pkind w i) c)) k <> c_addr (st pkind w i) k -> cx c = c_addr (st pkind w i) k /\ operational (cx c) /\ cn c < name0 i k).

(* ======================================================================================================================= *)
(* Part 4: convergence of networks of library and reference nodes                                                          *)
(* ======================================================================================================================= *)
(* the measure of statement 5 for the library: the number of addresses a device can still try before it gives up.  The search end
   (AddressClaimEndSource) is recomputed when an expired claim timer is noticed (IsAddressClaimStarted), which can happen once, inside
   the send of a defence (time does not pass during deliveries; a move re-arms the timer 250 ms ahead): a device whose timer is enabled
   and expired is given a value above every search length *)
Definition lib_expirable (r:rnode) (k:nat) : bool :=
  sched_is_enabled (n_w64 (rn r)) (d_claim_timer (lib_dev r k)) && sched_is_time (n_w64 (rn r)) (n_now (rn r)) (d_claim_timer (lib_dev r k)).
Definition lib_left (r:rnode) (k:nat) : nat :=
  if lib_src r k =? 254 then 0%nat else if lib_expirable r k then 600%nat else S (Z.to_nat (dist_to_end (lib_src r k) (d_claim_end (lib_dev r k)))).
Definition c_left (s:pkind) (k:nat) : nat :=
  match s with
  | PLib r => lib_left r k
  | PRef f => match k with O => if fn_addr f =? 254 then 0%nat else S (Z.to_nat (dist_to_end (fn_addr f) (fn_end f))) | _ => 0%nat end
  end.
(* the millisecond clock of a library node is far from the end of its 64-bit range (a timer armed 250 ms ahead is not yet expired) *)
Definition clock_ok (s:pkind) : Prop := match s with PLib r => 0 <= n_now (rn r) < 2^63 | PRef _ => True end.
Definition c_good2 (ndev0:nat -> nat) (name0:nat -> nat -> Z) (i:nat) (s:pkind) : Prop := c_good ndev0 name0 i s /\ clock_ok s.
(* the library's and the reference node's reactions satisfy the additional hypotheses of statement 5 *)
Definition library_converge_hyps_stmt : Prop :=
  forall nodes ndev0 name0, config_ok nodes ndev0 name0 ->
    node_hyps pkind nodes ndev0 c_addr name0 (c_good2 ndev0 name0) c_react c_spont c_allowed /\
    forall i s c, pre pkind nodes ndev0 c_addr name0 (c_good2 ndev0 name0) i s c ->
      (length (snd (c_react i s c)) <= 1)%nat /\
      (snd (c_react i s c) <> [] -> exists k, valid_dev nodes ndev0 i k /\ c_addr s k = cx c /\ operational (cx c)) /\
      (forall k, valid_dev nodes ndev0 i k -> (c_addr (fst (c_react i s c)) k = c_addr s k /\ c_left (fst (c_react i s c)) k = c_left s k) \/
                                             (c_left (fst (c_react i s c)) k < c_left s k)%nat).
(* hence: from every world reachable by any start-up order, restarts, sibling-avoiding commanded addresses and deliveries, every
   schedule of deliveries is finite ... *)
Definition library_converges_stmt : Prop :=
  forall nodes ndev0 name0, config_ok nodes ndev0 name0 ->
    forall w0 w, initial pkind nodes ndev0 c_addr (c_good2 ndev0 name0) w0 -> steps pkind nodes c_react c_spont c_allowed w0 w ->
      Acc (fun w2 w1 => deliveries pkind nodes c_react w1 w2) w.
(* ... and where it ends (no delivery is possible any more) all devices that hold an address hold different ones *)
Definition library_ends_unique_stmt : Prop :=
  forall nodes ndev0 name0, config_ok nodes ndev0 name0 ->
    forall w0 w, initial pkind nodes ndev0 c_addr (c_good2 ndev0 name0) w0 -> steps pkind nodes c_react c_spont c_allowed w0 w ->
      (forall w', ~ deliveries pkind nodes c_react w w') ->
      forall i k j l, valid_dev nodes ndev0 i k -> valid_dev nodes ndev0 j l -> (i, k) <> (j, l) ->
        operational (c_addr (st pkind w i) k) -> c_addr (st pkind w i) k <> c_addr (st pkind w j) l.

(* ======================================================================================================================= *)
(* Part 5: from claims to frames - a received PGN 60928 frame reaches HandleISOAddressClaim                                  *)
(* ======================================================================================================================= *)
(* An open node in mode NodeOnly / ListenAndNode, PGN 60928 classified as the library's tables do (known, system, single frame), whose
   reassembly slots are all free (the state every completely handled message leaves them in) reads the pending claim frame
   (identifier: priority 6, PGN 60928, source x; 8 data bytes = NAME n): the receive loop of ParseMessages hands exactly (x, the 8 bytes)
   to HandleISOAddressClaim - applied to a node state r1 that differs from r only in the receive queue and slot 0 -, delivers the
   message to the application, frees the slot again and stops (nothing else is pending).  Because lib_good, lib_src, lib_name, ... only
   look at [rn], the theorems about [on_claim] apply to r1 as they do to r.
   NOT covered: a claim frame that finds no reassembly slot (all slots busy with unfinished multi-frame messages younger than the
   time-out) is dropped by SetN2kCANBufMsg before HandleISOAddressClaim sees it. *)
Definition slots_free (r:rnode) : Prop := r_slots r <> [] /\ Forall (fun s => s_free s = true) (r_slots r).
Definition claim_frame_dispatch_stmt : Prop :=
  forall gf r x n fuel,
    n_open (rn r) = 3 -> is_active_node (rn r) = true -> check_known (n_pgn (rn r)) 60928 = (true, true, false) -> slots_free r ->
    0 <= x < 256 -> r_q r = [claim_frame {| cx := x; cn := n |}] ->
    exists r1 m, rn r1 = rn r /\
      let h := handle_claim r1 x (name_bytes n) in
      let res := rx_loop gf (S fuel) r in
      rn (fst res) = rn (fst h) /\ snd res = snd h ++ [EvDeliver m] /\ ev_claims (snd res) = ev_claims (snd h) /\
      r_q (fst res) = [] /\ slots_free (fst res).

(* ======================================================================================================================= *)
(* Part 6: nothing else writes an address or opens a claim window                                                           *)
(* ======================================================================================================================= *)
(* What every function on the ParseMessages / application-send path may do to the address data of a device, apart from
   HandleISOAddressClaim, HandleCommandedAddress and StartAddressClaim: nothing - except that IsAddressClaimStarted (called by SendMsg,
   the heartbeat and the ISO-request handler) notices an enabled, expired claim timer, switches it off and recomputes
   AddressClaimEndSource from the (unchanged) address.  N2kSource, the NAME, the address-changed indication, the clock, the open state
   and the mode are untouched; no claim timer is armed. *)
Definition dev_kept (w:bool) (now:Z) (d d':dev) : Prop :=
  d_src d' = d_src d /\ d_name d' = d_name d /\
  ((d_claim_end d' = d_claim_end d /\ d_claim_timer d' = d_claim_timer d) \/
   (sched_is_enabled w (d_claim_timer d) = true /\ sched_is_time w now (d_claim_timer d) = true /\
    d_claim_timer d' = sched_disabled w /\ d_claim_end d' = claim_end_of (d_src d))).
Definition addr_kept (n n':node) : Prop :=
  n_w64 n' = n_w64 n /\ n_now n' = n_now n /\ n_open n' = n_open n /\ n_mode n' = n_mode n /\ n_pgn n' = n_pgn n /\
  n_addr_changed n' = n_addr_changed n /\ length (n_devs n') = length (n_devs n) /\
  forall a:nat, dev_kept (n_w64 n) (n_now n) (nth a (n_devs n) ddev) (nth a (n_devs n') ddev).
(* the contract for the reaction to a complete PGN 126208 message (group functions) *)
Definition gf_keeps_addr (gf:rnode -> slot -> rnode * list event) : Prop := forall r s, addr_kept (rn r) (rn (fst (gf r s))).
(* the ways the address data of a node change between two of its states: steps that keep them (above), HandleISOAddressClaim,
   HandleCommandedAddress *)
Inductive addr_path : rnode -> rnode -> Prop :=
| ap_refl r : addr_path r r
| ap_keep r r' r'' : addr_kept (rn r) (rn r') -> addr_path r' r'' -> addr_path r r''
| ap_claim r x d r'' : addr_path (fst (handle_claim r x d)) r'' -> addr_path r r''
| ap_cmd r s r'' : addr_path (fst (handle_commanded r s)) r'' -> addr_path r r''.
(* 1. ParseMessages on an open node, whatever is pending (claims, ISO requests, ISO-TP sessions in both roles, fast packets, group
      functions under the contract, anything else), whatever is due (queued frames, pending information, heartbeat): address data
      only change inside HandleISOAddressClaim and HandleCommandedAddress.  The other operations of the node model on an open node -
      application SendMsg, SendFrames, driver answers, frames arriving in the driver, heartbeat settings - keep them.  (The clock tick
      changes the clock; StartAddressClaim(i) is one of the node's own claim actions; on a node that is not open ParseMessages /
      SendMsg run Open(), i.e. StartAddressClaim() over all devices.) *)
Definition d_src_frame_stmt : Prop :=
  forall gf, gf_keeps_addr gf ->
    (forall r, n_open (rn r) = 3 -> addr_path r (fst (poll gf r))) /\
    (forall r o, n_open (rn r) = 3 ->
       match o with
       | RBase (OTick _) | RBase (OStartClaim _) | RPoll => True
       | _ => addr_kept (rn r) (rn (fst (rstep gf r o)))
       end).
Definition gf_none_keeps_addr_stmt : Prop := gf_keeps_addr gf_none.

(* ======================================================================================================================= *)
(* Part 7: ParseMessages on a queue of claim frames                                                                         *)
(* ======================================================================================================================= *)
(* HandleISOAddressClaim run over a list of claims; in between the receive path only rewrites the receive queue and one slot, so each
   call sees a node state whose [rn] is the previous result's (lib_good, lib_src, lib_name, c_react ... only look at [rn]).  The last
   component collects the claims put on the bus. *)
Inductive claim_run : node -> list claim -> node -> list claim -> Prop :=
| cr_nil n : claim_run n [] n []
| cr_cons n c cs r1 n' out : rn r1 = n -> claim_run (rn (fst (on_claim r1 (cx c) (cn c)))) cs n' out ->
    claim_run n (c :: cs) n' (ev_claims (snd (on_claim r1 (cx c) (cn c))) ++ out).
Definition rx_ready (r:rnode) : Prop :=
  n_open (rn r) = 3 /\ is_active_node (rn r) = true /\ check_known (n_pgn (rn r)) 60928 = (true, true, false) /\ slots_free r.
(* The free-slot premise (slots_free: here even "all slots free", which claim-only traffic re-establishes after every frame) is
   essential: a claim frame that finds every reassembly slot busy with an unfinished multi-frame message younger than the time-out is
   dropped before HandleISOAddressClaim sees it.  The property's premise - a bus that delivers every claim to every other node - is then
   broken by overload of the receiver, the same situation as the capacity clause of C02. *)
(* 1. the receive loop: every pending claim frame (at most as many as the loop reads) is handed to HandleISOAddressClaim, in order *)
Definition rx_loop_claims_stmt : Prop :=
  forall gf r cs fuel, rx_ready r -> Forall (fun c => 0 <= cx c < 256) cs -> r_q r = map claim_frame cs -> (length cs <= fuel)%nat ->
    let res := rx_loop gf fuel r in
    claim_run (rn r) cs (rn (fst res)) (ev_claims (snd res)) /\ r_q (fst res) = [] /\ rx_ready (fst res).
(* 2. ParseMessages (open node, at most 20 pending claim frames): first whatever is queued / pending is sent (address data kept), then
      the claims are handled as above, then the heartbeat (address data kept); the claims among the frames of the middle part are
      exactly those of the HandleISOAddressClaim calls *)
Definition poll_claims_stmt : Prop :=
  forall gf r cs, rx_ready r -> Forall (fun c => 0 <= cx c < 256) cs -> r_q r = map claim_frame cs -> (length cs <= 20)%nat ->
    exists na nb out evA evC evB,
      addr_kept (rn r) na /\ claim_run na cs nb out /\ addr_kept nb (rn (fst (poll gf r))) /\
      snd (poll gf r) = evA ++ evC ++ evB /\ ev_claims evC = out /\ r_q (fst (poll gf r)) = [] /\ slots_free (fst (poll gf r)).
(* 3. (partial) one step of the model network (Model/NetDefs.v): a started library node processes a pending claim frame.  Its new
      state is reached from the old one by address-keeping steps around ONE reaction c_react of the claim-level network
      (Part 3) to that claim; the frames it puts on the bus are those of its ParseMessages call.  What is missing for a full simulation
      of the claim-level network by the model network: the address-keeping steps have to be absorbed into the claim-level states
      (c_react would have to be shown to respect addr_kept), claims re-announced by pending-information / ISO-request answers have to
      become actions of the claim-level network, and commanded addresses (ISO-TP reassembly) have to be mapped to CCommand. *)
Definition net_step_claim_partial_stmt : Prop :=
  forall gf nt i k p r c,
    get_part nt i = Some p -> p_on p = true -> p_kind p = PLib r -> nth_error (p_inbox p) (Z.to_nat k) = Some (claim_frame c) -> 0 <= k ->
    rx_ready r -> r_q r = [] -> 0 <= cx c < 256 ->
    exists p' r' r1 evA evC evB,
      get_part (fst (net_step gf nt (NStep i k))) i = Some p' /\ p_kind p' = PLib r' /\ p_on p' = true /\
      addr_kept (rn r) (rn r1) /\ n_open (rn r1) = 3 /\
      addr_kept (rn (match fst (c_react (Z.to_nat i) (PLib r1) c) with PLib x => x | PRef _ => r1 end)) (rn r') /\
      snd (net_step gf nt (NStep i k)) = map (NTx i) (frames_of (evA ++ evC ++ evB)) /\
      ev_claims evC = snd (c_react (Z.to_nat i) (PLib r1) c).

(* 4. (partial: nothing queued, no pending information) the arbitration rules R1 / R3 at the level of ParseMessages and frames: a
      well-formed open node whose device k holds x finds the frame of claim(x, n) in its driver.  If n is below the device's NAME the
      device has left x when ParseMessages returns; if n is above, the device still holds x and its own claim for x is among the frames
      handed to the driver (accepted). *)
Definition poll_arbitration_partial_stmt : Prop :=
  forall gf r c k, lib_good r -> rx_ready r -> (forall i, 0 <= i < dev_count (rn r) -> has_pending r i = false) -> r_q r = [claim_frame c] ->
    (k < lib_ndev r)%nat -> 0 <= cn c < 2^64 -> lib_src r k = cx c -> operational (cx c) ->
    (cn c < lib_name r k -> lib_src (fst (poll gf r)) k <> cx c) /\
    (lib_name r k < cn c -> lib_src (fst (poll gf r)) k = cx c /\ In (claim_event (cx c) (lib_name r k)) (snd (poll gf r))).
