(* C05 (PGN 127501, universal binary status): the bank status is a set of 28 two-bit items; setting item i to a status s (0..3) makes item
   i read back as s, leaves every other item and the eight reserved bits as they were, and keeps the value a uint64; an index outside
   1..28 changes nothing and reads as "unavailable" (3); a freshly reset bank reads "unavailable" everywhere. *)
From Coq Require Import ZArith Bool.
From N2kV Require Import Model.BinStatusDefs.
Local Open Scope Z_scope.

Definition bs_set_get_stmt : Prop :=
  forall b s i, 0 <= b < 2^64 -> 0 <= s <= 3 -> 1 <= i <= 28 ->
    bs_get (bs_set b s i) i = s /\
    (forall j, 1 <= j <= 28 -> j <> i -> bs_get (bs_set b s i) j = bs_get b j) /\
    0 <= bs_set b s i < 2^64 /\
    bs_set b s i / 2^56 = b / 2^56.
Definition bs_index_stmt : Prop :=
  forall b s i, 0 <= i < 256 -> (i = 0 \/ 28 < i) -> bs_set b s i = b /\ bs_get b i = 3.
Definition bs_reset_stmt : Prop := forall i, 1 <= i <= 28 -> bs_get bs_reset i = 3.
