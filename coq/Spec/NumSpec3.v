(* C06 - the free functions SetBufNByte[U]Double and the setters with a caller-chosen "undefined" value (Model/NumDefs.v, last part).
   Statements:
   1. the 8-byte free function stores N2kDoubleNA as the reserved 'not available' code, for every precision;
   2. a setter called with v == UndefVal (IEEE comparison) stores the reserved code of its field, whatever the precision - and reading that
      field back with the same value as default returns it;
   3. with UndefVal = N2kDoubleNA the setter is the one the other C06 theorems speak about ([add_double]), so they carry over;
   4. a value that is not the caller's UndefVal is never stored as the reserved code of a 1..4 byte field: the reserved code stays reserved. *)
From Coq Require Import ZArith List Bool.
From N2kV Require Import Model.SoftFloat Model.NumDefs.
Import ListNotations.
Local Open Scope Z_scope.

Definition na_bytes (n:nat) (s:bool) : list Z := le_bytes n (nac n s mod 256^(Z.of_nat n)).

Definition set_buf8_na_stmt : Prop := forall pbits, set_buf_double 8 true na_double_bits pbits = na_bytes 8 true.
Definition add_undef_stmt : Prop :=
  forall n s vbits pbits ubits, ieee_eq vbits ubits = true -> add_double_u n s vbits pbits ubits = na_bytes n s.
Definition add_undef_roundtrip_stmt : Prop :=
  forall n s vbits pbits ubits, (n = 1 \/ n = 2 \/ n = 3 \/ n = 4 \/ n = 8)%nat -> (n = 8%nat -> s = true) -> ieee_eq vbits ubits = true ->
    get_double n s pbits ubits 0 (Z.of_nat n) (add_double_u n s vbits pbits ubits) = (ubits, Z.of_nat n).
Definition add_default_stmt : Prop :=
  forall n s vbits pbits, add_double_u n s vbits pbits na_double_bits = add_double n s vbits pbits.
Definition reserved_stays_reserved_stmt : Prop :=
  forall n s vbits pbits ubits, (n = 1 \/ n = 2 \/ n = 3 \/ n = 4)%nat -> ieee_eq vbits ubits = false ->
    add_double_u n s vbits pbits ubits <> na_bytes n s.
