(* Specification and theorem statements for the forwarding path of C17: messages written in Actisense format "by the library's
   message forwarding" (tNMEA2000::ForwardMessage from ParseMessages and from SendMsg) are recovered by the reader.
   The statements are Definitions of type Prop; Proofs/ForwardProofs.v proves them, Props/Properties_C17.v re-exports them.

   When a message is forwarded - written down from the documentation of the setters and of the modes (NMEA2000.h), not from
   the code:
     EnableForward(v)                 master switch (default on)
     N2km_SendOnly                    "Messages will not be forwarded to the stream"
     N2km_ListenOnly                  everything that is received is forwarded (nothing can be sent)
     N2km_NodeOnly                    no forwarding of bus traffic; the only thing that reaches the stream is what carries one of
                                      this node's own source addresses, and only if own messages are to be forwarded
     N2km_ListenAndNode               received messages and own messages are forwarded, each under its flag
     N2km_ListenAndSend               as a listener that can send; the node does not act on system messages in this mode and
                                      treats them like any other received message
     SetForwardSystemMessages(v)      system messages (address claim, requests, ...) are forwarded "according to its own bit"
     SetForwardOnlyKnownMessages(v)   unknown (non-system) received messages are not forwarded; "does not effect for own messages"
     SetForwardOwnMessages(v)         "messages your device sends to bus will be forwarded" *)
From Coq Require Import ZArith List Bool.
From N2kV Require Import Base.Res Model.ActisenseDefs Model.ForwardDefs Spec.ActisenseSpec.
Import ListNotations.
Local Open Scope Z_scope.

(* the flag that governs a received message of the given class *)
Definition class_flag (sys_f known_f system known:bool) : bool :=
  if system then sys_f else known || negb known_f.

(* the truth table: (forward enabled, own-messages flag, system-messages flag, only-known flag, mode,
                     own source, system message, known message, received / own sent) *)
Definition decision_table (en own_f sys_f known_f:bool) (mode:Z) (own_src system known received:bool) : bool :=
  match mode with
  | 0 (* ListenOnly *)    => en && received && class_flag sys_f known_f system known
  | 1 (* NodeOnly *)      => en && own_f && own_src && (if received then class_flag sys_f known_f system known else true)
  | 2 (* ListenAndNode *) => en && (if received then class_flag sys_f known_f system known else own_f)
  | 3 (* SendOnly *)      => false
  | 4 (* ListenAndSend *) => en && (if received then known || negb known_f else own_f)
  | _ => false
  end.

Definition is_mode (mode:Z) : Prop := In mode [0; 1; 2; 3; 4].

Definition mk_cfg (en own_f sys_f known_f:bool) (mode:Z) : fwdcfg :=
  {| fw_enable := en; fw_system := sys_f; fw_known := known_f; fw_own := own_f; fw_mode := mode |}.

(* F1. the decisions coded in ForwardMessage / HandleReceivedSystemMessage / ParseMessages / SendMsg are this table *)
Definition forward_decision_table_stmt : Prop :=
  forall en own_f sys_f known_f mode own_src system known received, is_mode mode ->
    forward_decision (mk_cfg en own_f sys_f known_f mode) own_src known system received =
    decision_table en own_f sys_f known_f mode own_src system known received.

(* F2. a forwarded well-formed message is written as exactly its frame, and the reader - in any state it can be in between
       frames (idle, or anything else that is not waiting for the second half of an escape pair) - reports exactly that message,
       once, and is idle afterwards; a message that is not forwarded leaves the stream untouched *)
Definition forward_roundtrip_stmt : Prop :=
  forall now s c is_own known system received m,
    (forward_decision c is_own known system received = true ->
       reachable now s -> mid_escape s = false -> wf_msg m ->
       exists s', forwarded_bytes c is_own known system received m = Ok (frame m) /\
                  run now s (frame m) = Ok (s', [m]) /\ idle s' /\ reachable now s') /\
    (forward_decision c is_own known system received = false ->
       forwarded_bytes c is_own known system received m = Ok []).

(* F3. the whole forward stream: for any sequence of forwarding opportunities (received and own messages in any order), a reader
       attached to the stream reports exactly the forwarded messages, in order, nothing else *)
Definition item_forwarded (c:fwdcfg) (i:fitem) : bool :=
  forward_decision c (i_own i) (i_known i) (i_system i) (i_received i).
Definition forwarded_msgs (c:fwdcfg) (l:list fitem) : list msg := map i_msg (filter (item_forwarded c) l).

Definition forward_stream_stmt : Prop :=
  forall now s c l,
    reachable now s -> mid_escape s = false ->
    Forall (fun i => item_forwarded c i = true -> wf_msg (i_msg i)) l ->
    exists out s', stream_bytes c l = Ok out /\ run now s out = Ok (s', forwarded_msgs c l) /\
                   mid_escape s' = false /\ reachable now s'.

(* non-vacuity material: a received fast-packet message (reception time 0x10021003) and the default configuration *)
Definition nv_fwd_msg : msg :=
  {| pri := 2; pgn := 129029; dst := 255; src := 16; tim := 268570627; data := [16; 2; 16; 3; 147; 0; 255; 16; 16] |}.
