(* C15 - published NMEA 2000 codes of the enumerators an application names when it fills the enumerated fields of the listed PGNs
   (my transcription of the public field definitions, DESIGN.md Appendix A; hand-maintained: this file is the single source, the
   Python side of the check reads it).  The packing code of a setter writes whatever value a name has, so a renumbered enumeration is
   invisible to every byte-level statement; enum_codes_ok compares the names with the values clang reads from src/N2kTypes.h
   (Gen/GenEnums.v, regenerated on every run). *)
From Coq Require Import ZArith List String Bool.
Import ListNotations.
Local Open Scope Z_scope.
Local Open Scope string_scope.

Definition ref_enum_codes : list (string * list (string * Z)) := [
  ("tN2kWindReference", [("N2kWind_True_North", 0); ("N2kWind_Magnetic", 1); ("N2kWind_Apparent", 2); ("N2kWind_Apprent", 2); ("N2kWind_True_boat", 3); ("N2kWind_True_water", 4); ("N2kWind_Error", 6); ("N2kWind_Unavailable", 7)]);
  ("tN2kHeadingReference", [("N2khr_true", 0); ("N2khr_magnetic", 1); ("N2khr_error", 2); ("N2khr_Unavailable", 3)]);
  ("tN2kTimeSource", [("N2ktimes_GPS", 0); ("N2ktimes_GLONASS", 1); ("N2ktimes_RadioStation", 2); ("N2ktimes_LocalCesiumClock", 3); ("N2ktimes_LocalRubidiumClock", 4); ("N2ktimes_LocalCrystalClock", 5)]);
  ("tN2kTempSource", [("N2kts_SeaTemperature", 0); ("N2kts_OutsideTemperature", 1); ("N2kts_InsideTemperature", 2); ("N2kts_EngineRoomTemperature", 3); ("N2kts_MainCabinTemperature", 4); ("N2kts_LiveWellTemperature", 5); ("N2kts_BaitWellTemperature", 6); ("N2kts_RefridgerationTemperature", 7); ("N2kts_HeatingSystemTemperature", 8); ("N2kts_DewPointTemperature", 9); ("N2kts_ApparentWindChillTemperature", 10); ("N2kts_TheoreticalWindChillTemperature", 11); ("N2kts_HeatIndexTemperature", 12); ("N2kts_FreezerTemperature", 13); ("N2kts_ExhaustGasTemperature", 14); ("N2kts_ShaftSealTemperature", 15)]);
  ("tN2kFluidType", [("N2kft_Fuel", 0); ("N2kft_Water", 1); ("N2kft_GrayWater", 2); ("N2kft_LiveWell", 3); ("N2kft_Oil", 4); ("N2kft_BlackWater", 5); ("N2kft_FuelGasoline", 6); ("N2kft_Error", 14); ("N2kft_Unavailable", 15)]);
  ("tN2kGNSStype", [("N2kGNSSt_GPS", 0); ("N2kGNSSt_GLONASS", 1); ("N2kGNSSt_GPSGLONASS", 2); ("N2kGNSSt_GPSSBASWAAS", 3); ("N2kGNSSt_GPSSBASWAASGLONASS", 4); ("N2kGNSSt_Chayka", 5); ("N2kGNSSt_integrated", 6); ("N2kGNSSt_surveyed", 7); ("N2kGNSSt_Galileo", 8)]);
  ("tN2kGNSSmethod", [("N2kGNSSm_noGNSS", 0); ("N2kGNSSm_GNSSfix", 1); ("N2kGNSSm_DGNSS", 2); ("N2kGNSSm_PreciseGNSS", 3); ("N2kGNSSm_RTKFixed", 4); ("N2kGNSSm_RTKFloat", 5); ("N2kGNSSm_Error", 14); ("N2kGNSSm_Unavailable", 15)]);
  ("tN2kGNSSDOPmode", [("N2kGNSSdm_1D", 0); ("N2kGNSSdm_2D", 1); ("N2kGNSSdm_3D", 2); ("N2kGNSSdm_Auto", 3); ("N2kGNSSdm_Reserved", 4); ("N2kGNSSdm_Reserved2", 5); ("N2kGNSSdm_Error", 6); ("N2kGNSSdm_Unavailable", 7)]);
  ("tN2kXTEMode", [("N2kxtem_Autonomous", 0); ("N2kxtem_Differential", 1); ("N2kxtem_Estimated", 2); ("N2kxtem_Simulator", 3); ("N2kxtem_Manual", 4)]);
  ("tN2kSpeedWaterReferenceType", [("N2kSWRT_Paddle_wheel", 0); ("N2kSWRT_Pitot_tube", 1); ("N2kSWRT_Doppler_log", 2); ("N2kSWRT_Ultra_Sound", 3); ("N2kSWRT_Electro_magnetic", 4); ("N2kSWRT_Error", 254); ("N2kSWRT_Unavailable", 255)]);
  ("tN2kRudderDirectionOrder", [("N2kRDO_NoDirectionOrder", 0); ("N2kRDO_MoveToStarboard", 1); ("N2kRDO_MoveToPort", 2); ("N2kRDO_Unavailable", 7)]);
  ("tN2kHumiditySource", [("N2khs_InsideHumidity", 0); ("N2khs_OutsideHumidity", 1); ("N2khs_Undef", 255)]);
  ("tN2kPressureSource", [("N2kps_Atmospheric", 0); ("N2kps_Water", 1); ("N2kps_Steam", 2); ("N2kps_CompressedAir", 3); ("N2kps_Hydraulic", 4); ("N2kps_Filter", 5); ("N2kps_AltimeterSetting", 6); ("N2kps_Oil", 7); ("N2kps_Fuel", 8); ("N2kps_Reserved", 253); ("N2kps_Error", 254); ("N2kps_Unavailable", 255)]);
  ("tN2kDistanceCalculationType", [("N2kdct_GreatCircle", 0); ("N2kdct_RhumbLine", 1)])
].

Fixpoint assoc {A} (k:string) (l:list (string * A)) : option A :=
  match l with [] => None | (k1, v) :: r => if String.eqb k k1 then Some v else assoc k r end.
(* every published (enumeration, enumerator, code) is an enumerator of that enumeration with that value in the source *)
Definition enum_codes_ok (gen ref:list (string * list (string * Z))) : bool :=
  forallb (fun tr => match assoc (fst tr) gen with
                     | Some g => forallb (fun ev => match assoc (fst ev) g with Some v => Z.eqb v (snd ev) | None => false end) (snd tr)
                     | None => false end) ref.

(* what the boolean check means *)
Definition enum_codes_stmt (gen ref:list (string * list (string * Z))) : Prop :=
  forall t tab, In (t, tab) ref -> exists g, assoc t gen = Some g /\ forall e v, In (e, v) tab -> assoc e g = Some v.
(* names used by the non-vacuity example of Props/Properties_C15.v (which does not open string_scope) *)
Definition name_wind_reference : string := "tN2kWindReference".
Definition name_wind_true_boat : string := "N2kWind_True_boat".
