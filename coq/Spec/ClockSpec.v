(* C13 - timed behaviour is independent of the clock origin, including 32-bit wrap.
   Statements about the timer primitives of Model/Sched.v (both scheduler builds), the slot ageing of FindFreeCANMsgIndex, the
   synchronised scheduler, the 32-bit build's N2kMillis64 roll counter, and - for the 64-bit build - the whole node model:
   shifting every time-valued part of the state by c commutes with every operation.
   NOT here: the device-list request pacing of tN2kDeviceList (candidate D-20) belongs to the C18 development (Model/DevListDefs.v);
   its clock-origin dependence is examined there and reported under C13 by the lead. *)
From Coq Require Import ZArith List Bool.
From N2kV Require Import Base.ListAux Model.CanId Model.Sched Model.PgnClass Model.NodeDefs Model.NodeRxDefs Gen.GenTables Gen.GenConsts.
Import ListNotations.
Local Open Scope Z_scope.

Definition SENT32 : Z := M32 - 1.       (* N2kSchedulerDisabled of the 32-bit build *)
Definition SENT64 : Z := M64 - 1.       (* N2kSchedulerDisabled / N2kScheduler64Disabled *)

(* ================= 1. the primitives are shift invariant ================= *)
Definition prim_shift_stmt : Prop :=
  (* N2kIsTimeBefore, N2kHasElapsed: for every shift, every argument *)
  (forall t1 t2 c, is_time_before (u32 (t1 + c)) (u32 (t2 + c)) = is_time_before t1 t2) /\
  (forall s el now c, has_elapsed (u32 (s + c)) el (u32 (now + c)) = has_elapsed s el now) /\
  (* tN2kScheduler, 32-bit build: a stored (enabled) value s and the clock shifted by c modulo 2^32 - exact unless the shifted value is
     the "disabled" sentinel *)
  (forall now s c, 0 <= s < M32 -> s <> SENT32 -> u32 (s + c) <> SENT32 ->
     sched_is_enabled false (u32 (s + c)) = true /\ sched_is_time false (now + c) (u32 (s + c)) = sched_is_time false now s) /\
  (forall now c, sched_is_time false (now + c) SENT32 = false /\ sched_is_enabled false SENT32 = false) /\
  (* FromNow, 32-bit build: the armed value is the shifted one unless one of the two lands on the sentinel, in which case it is the
     value one millisecond later (the "within one millisecond" of the property) *)
  (forall now add c,
     let s := sched_from_now false now add in let s' := sched_from_now false (now + c) add in
     sched_is_enabled false s = true /\ 0 <= s < M32 /\
     (s = u32 (now + add) \/ (u32 (now + add) = SENT32 /\ s = u32 (now + add + 1))) /\
     (u32 (now + add) <> SENT32 -> u32 (now + c + add) <> SENT32 -> s' = u32 (s + c))) /\
  (* tN2kScheduler, 64-bit build: exact for every shift that keeps clock and timer inside the 64 bits *)
  (forall now s c, s <> SENT64 -> sched_is_time true (now + c) (s + c) = sched_is_time true now s) /\
  (forall now c, now + c <= SENT64 -> now <= SENT64 -> sched_is_time true (now + c) SENT64 = sched_is_time true now SENT64) /\
  (forall now add c, 0 <= now + add -> now + add + c < M64 -> 0 <= c ->
     sched_from_now true (now + c) add = sched_from_now true now add + c).

(* ================= 2. a timer fires on time, wherever the clock stands ================= *)
(* armed at clock value t0 with delay d, read after the true elapsed time e *)
Definition timer_fires_stmt : Prop :=
  (* 64-bit build: fires iff e > d *)
  (forall t0 d e, 0 <= t0 + d < M64 -> sched_is_time true (t0 + e) (sched_from_now true t0 d) = (d <? e)) /\
  (* 32-bit build, EVERY t0 (in particular those for which the 32-bit clock wraps inside [t0, t0+e], and those that arm the sentinel):
     fires if e >= d + 1, does not fire if e < d; at e = d it fires unless the armed value was the sentinel *)
  (forall t0 d e, 0 <= d < 2^31 -> 0 <= e < 2^31 - 1 ->
     let s := sched_from_now false t0 d in
     (d + 1 <= e -> sched_is_time false (t0 + e) s = true) /\
     (e < d -> sched_is_time false (t0 + e) s = false) /\
     (e = d -> sched_is_time false (t0 + e) s = negb (u32 (t0 + d) =? SENT32))) /\
  (* N2kHasElapsed (slot timeouts, device list): start s (32-bit clock value), el to elapse, read after e: true iff e >= el *)
  (forall s el e, 0 <= el -> 0 <= e -> e - el < IMAX -> el - e <= M32 - IMAX -> has_elapsed (u32 s) el (u32 (s + e)) = (el <=? e)).

(* ================= 3. slot ageing (FindFreeCANMsgIndex) ================= *)
(* the time stamp of a busy reassembly slot moves with the clock; a free slot's stamp is never read *)
Definition shift_slot (c:Z) (s:slot) : slot :=
  if s_free s then s else
  {| s_free := s_free s; s_ready := s_ready s; s_known := s_known s; s_system := s_system s; s_pri := s_pri s; s_pgn := s_pgn s; s_src := s_src s;
     s_dst := s_dst s; s_tp := s_tp s; s_len := s_len s; s_data := s_data s; s_last := s_last s; s_time := u32 (s_time s + c);
     s_tpmax := s_tpmax s; s_tpreq := s_tpreq s |}.
Definition slot_age_shift_stmt : Prop :=
  forall r r' c pgn src dst tp,
    r_slots r' = map (shift_slot c) (r_slots r) -> now r' = now r + c ->
    find_free_slot r' pgn src dst tp = (map (shift_slot c) (fst (find_free_slot r pgn src dst tp)), snd (find_free_slot r pgn src dst tp)).

(* ================= 4. the synchronised scheduler ================= *)
Definition sh64 (c t:Z) : Z := if t =? SENT64 then t else t + c.
Definition shift_ss (c:Z) (s:ssched) : ssched := {| ss_next := sh64 c (ss_next s); ss_offset := ss_offset s; ss_period := ss_period s |}.
Definition SB : Z := 2^62.
Definition ss_shift_stmt : Prop :=
  forall now sync s c, 0 <= c -> 0 <= now -> now + c < SB -> 0 <= sync -> sync + c < SB -> 0 <= ss_offset s < SB -> 0 <= ss_period s < SB ->
    ss_update_next (now + c) (sync + c) (shift_ss c s) = shift_ss c (ss_update_next now sync s) /\
    ss_is_time (now + c) (shift_ss c s) = ss_is_time now s.

(* ================= 5. N2kMillis64 of the 32-bit build ================= *)
(* the 64-bit clock is reconstructed from the 32-bit millis() with a roll counter that is only updated when the function is called:
   as long as it is called at least once in every window of 2^32 - 1 ms (and the roll counter itself does not overflow), the value
   advances exactly with the true time *)
Fixpoint clock_reads (r:rnode) (ts:list Z) : list Z :=
  match ts with
  | [] => []
  | t :: rest => let '(r1, v) := millis64 (with_rn r (set_now (rn r) t)) in v :: clock_reads r1 rest
  end.
Fixpoint gaps_ok (t:Z) (ts:list Z) : Prop :=
  match ts with [] => True | t' :: rest => 0 <= t' - t < M32 /\ gaps_ok t' rest end.
Definition millis64_stmt : Prop :=
  forall r t0 ts, w64 r = false -> gaps_ok t0 ts ->
    0 <= fst (r_clk r) -> fst (r_clk r) + 1 + Z.of_nat (length ts) < M32 ->
    let vs := clock_reads r (t0 :: ts) in
    map (fun v => v - hd 0 vs) vs = map (fun t => t - t0) (t0 :: ts).
(* the hypothesis is needed: a gap of exactly 2^32 ms between two calls is not noticed *)
Definition millis64_gap_stmt : Prop :=
  forall r t0, w64 r = false ->
    let vs := clock_reads r [t0; t0 + M32] in nth 1 vs 0 - nth 0 vs 0 = 0.

(* ================= 6. the node, 64-bit build ================= *)
Definition shift_dev (c:Z) (d:dev) : dev :=
  {| d_src := d_src d; d_name := d_name d; d_claim_end := d_claim_end d; d_claim_timer := sh64 c (d_claim_timer d); d_tx := d_tx d;
     d_cells := d_cells d; d_tp_msg := d_tp_msg d; d_next_dt_time := sh64 c (d_next_dt_time d); d_next_dt_seq := d_next_dt_seq d;
     d_has_pending := d_has_pending d |}.
Definition shift_devx (c:Z) (x:devx) : devx :=
  {| x_pend_claim := sh64 c (x_pend_claim x); x_pend_prod := sh64 c (x_pend_prod x); x_pend_conf := sh64 c (x_pend_conf x);
     x_hb := shift_ss c (x_hb x); x_hb_seq := x_hb_seq x; x_rx := x_rx x |}.
Definition shift_node (c:Z) (n:node) : node :=
  {| n_w64 := n_w64 n; n_mode := n_mode n; n_open := n_open n; n_now := n_now n + c; n_pgn := n_pgn n; n_devs := map (shift_dev c) (n_devs n);
     n_q := n_q n; n_drv := n_drv n; n_addr_changed := n_addr_changed n |}.
(* the same node with its clock origin moved by c: clock, SyncOffset, every enabled scheduler (claim timers, NextDTSendTime, the three
   pending-information schedulers, heartbeat NextTime, OpenScheduler) and the slot time stamps (32-bit) move by c; disabled
   sentinels stay *)
Definition shift_rnode (c:Z) (r:rnode) : rnode :=
  {| rn := shift_node c (rn r); rx_dev := map (shift_devx c) (rx_dev r); r_slots := map (shift_slot c) (r_slots r); r_q := r_q r; r_cfg := r_cfg r;
     r_open_sched := sh64 c (r_open_sched r); r_sync := r_sync r + c; r_devinfo_changed := r_devinfo_changed r; r_oob := r_oob r; r_clk := r_clk r |}.

(* the no-overflow bound: 64-bit build; clock and SyncOffset, also when moved by c, lie in (0, 2^61), every enabled scheduler value, also
   when moved by c, in [0, 2^62); the device table is not empty; addresses are bytes, received data are bytes *)
Definition NB : Z := 2^61.
Definition tbc (c t:Z) : Prop := t = SENT64 \/ (0 <= t /\ t + c < SB).
Definition byte_list (l:list Z) : Prop := Forall (fun b => 0 <= b < 256) l.
Definition dev_ok (c:Z) (d:dev) : Prop := tbc c (d_claim_timer d) /\ tbc c (d_next_dt_time d) /\ 0 <= d_src d < 256.
Definition devx_ok (c:Z) (x:devx) : Prop :=
  tbc c (x_pend_claim x) /\ tbc c (x_pend_prod x) /\ tbc c (x_pend_conf x) /\ tbc c (ss_next (x_hb x)) /\
  0 <= ss_offset (x_hb x) < 2^32 /\ 0 <= ss_period (x_hb x) < 2^32.
Record time_ok (c:Z) (r:rnode) : Prop := {
  to_w64 : n_w64 (rn r) = true;
  to_now : 0 < n_now (rn r) /\ n_now (rn r) + c < NB;
  to_devs : Forall (dev_ok c) (n_devs (rn r));
  to_devx : Forall (devx_ok c) (rx_dev r);
  to_len : length (rx_dev r) = length (n_devs (rn r)) /\ (0 < length (n_devs (rn r)))%nat;
  to_open : tbc c (r_open_sched r);
  to_sync : 0 <= r_sync r /\ r_sync r + c < NB;
  to_slots : Forall (fun s => byte_list (s_data s)) (r_slots r);
  to_rxq : Forall (fun f => byte_list (r_buf f)) (r_q r)
}.
(* operations: the clock only moves forward and stays below the bound; received frames carry bytes; the heartbeat offset is a uint32 *)
Definition op_ok (c:Z) (r:rnode) (o:rop) : Prop :=
  match o with
  | RBase (OTick dt) => 0 <= dt /\ n_now (rn r) + dt + c < NB
  | RRx f => byte_list (r_buf f)
  | RSetHeartbeat iv off idev => 0 <= off < 2^32
  | _ => True
  end.
Definition lift_res (c:Z) (res:rnode * list event) : rnode * list event := (shift_rnode c (fst res), snd res).
(* the group function reaction commutes with the shift and keeps the bound *)
Definition gf_shift_ok (c:Z) (gf:rnode -> slot -> rnode * list event) : Prop :=
  forall r s, time_ok c r -> byte_list (s_data s) ->
    gf (shift_rnode c r) (shift_slot c s) = lift_res c (gf r s) /\ time_ok c (fst (gf r s)) /\
    n_now (rn (fst (gf r s))) = n_now (rn r) /\ length (r_slots (fst (gf r s))) = length (r_slots r).

(* every operation: same frames, same deliveries, same results, and the resulting state is the shifted one *)
Definition node_shift_stmt : Prop :=
  forall c gf r o, 0 <= c -> gf_shift_ok c gf -> time_ok c r -> op_ok c r o ->
    rstep gf (shift_rnode c r) o = lift_res c (rstep gf r o) /\ time_ok c (fst (rstep gf r o)).
Fixpoint ops_ok (c:Z) (gf:rnode -> slot -> rnode * list event) (r:rnode) (ops:list rop) : Prop :=
  match ops with [] => True | o :: rest => op_ok c r o /\ ops_ok c gf (fst (rstep gf r o)) rest end.
Definition node_shift_run_stmt : Prop :=
  forall c gf ops r, 0 <= c -> gf_shift_ok c gf -> time_ok c r -> ops_ok c gf r ops ->
    rrun gf (shift_rnode c r) ops = (shift_rnode c (fst (rrun gf r ops)), snd (rrun gf r ops)).

(* Relation to two runs of the real library at different origins: a freshly constructed node (cold_node) at origin t0 + c is the
   shifted cold node at t0 except for SyncOffset, which is 0 (not c) until Open() sets it.  SyncOffset is only read by
   UpdateNextTime, i.e. when the heartbeat is configured before Open(); since the repair of the finding `origin-hb-before-open`
   Open() recomputes every enabled heartbeat scheduler after SetSyncOffset (resync_heartbeats; Spec/HbSpec.v hb_open_resync_stmt:
   whatever was stored before, after Open() every heartbeat stands at the new SyncOffset + 10 s), so the stale value cannot reach
   a frame; tools/p_C13.py keeps the former witness in its scenarios.

   32-bit build - documented partial, no theorem: the node-level statement holds only "within one millisecond" (statement 1: FromNow
   stores 0 instead of the sentinel 0xFFFFFFFF, i.e. arms the timer one millisecond later; statement 2 bounds the effect), so a theorem
   needs the hypothesis that no operation happens at a clock value now with (now + d) mod 2^32 = 0xFFFFFFFF for one of the delays d
   the library arms (0, 50, 100, 200, 250, 187 + 8 s, 187 + 10 s for addresses s), at either origin.  It also needs two shift amounts:
   c for the millisecond clock (32-bit schedulers and slot stamps move by c mod 2^32) and c64 = c (mod 2^32) for the 64-bit clock that
   N2kMillis64 reconstructs from its roll counter (SyncOffset and the heartbeat NextTime move by c64; statement 5 shows that the
   reconstruction advances with the true time as long as it is called once per 2^32 - 1 ms; a fresh process starts its roll counter
   at 0 at every origin).  The proof would repeat Proofs/ClockProofsNode1..3 with the 32-bit leaf lemmas of statement 1.  The 32-bit build
   is covered by the metamorphic runs of tools/p_C13.py, which classify the runs that arm a timer at the sentinel and check the
   one-millisecond bound on directed cases. *)
