(* Independent specifications and fixed theorem statements for the send path (C01 framing, C11 queue, the send-side gate of C04). *)
From Coq Require Import ZArith List Bool.
From N2kV Require Import Base.ListAux Model.CanId Model.Sched Model.PgnClass Model.NodeDefs Gen.GenTables Gen.GenConsts Spec.PgnClassRef.
Import ListNotations.
Local Open Scope Z_scope.

(* ================= 29-bit identifier, described arithmetically (J1939 / NMEA 2000) ================= *)
Definition id_prio (id:Z) : Z := (id / 2^26) mod 8.
Definition id_dp (id:Z) : Z := (id / 2^24) mod 4.          (* EDP+DP; a PGN below 2^17 leaves EDP 0 *)
Definition id_pf (id:Z) : Z := (id / 2^16) mod 256.
Definition id_ps (id:Z) : Z := (id / 2^8) mod 256.
Definition id_sa (id:Z) : Z := id mod 256.
Definition pdu1 (pgn:Z) : bool := (pgn / 256) mod 256 <? 240.

Definition id_args_ok (prio pgn src dst:Z) : Prop := 0 <= prio < 8 /\ 0 <= pgn < 2^17 /\ 0 <= src < 256 /\ 0 <= dst < 256.

(* 1. the identifier encodes priority, PGN, source and (PDU1) destination; nothing above bit 28 *)
Definition can_id_fields_stmt : Prop :=
  forall prio pgn src dst, id_args_ok prio pgn src dst ->
    let id := to_can_id prio pgn src dst in
    (pdu1 pgn = true -> pgn mod 256 = 0 ->
       0 <= id < 2^29 /\ id_prio id = prio /\ id_sa id = src /\ id_ps id = dst /\ id_dp id * 65536 + id_pf id * 256 = pgn) /\
    (pdu1 pgn = false ->
       0 <= id < 2^29 /\ id_prio id = prio /\ id_sa id = src /\ id_dp id * 65536 + id_pf id * 256 + id_ps id = pgn).

(* 2. refusal: the identifier is 0 exactly for an addressable PGN with a non-zero low byte (or when every field is 0) *)
Definition can_id_refusal_stmt : Prop :=
  forall prio pgn src dst, id_args_ok prio pgn src dst ->
    (to_can_id prio pgn src dst = 0 <->
       (pdu1 pgn = true /\ pgn mod 256 <> 0) \/ (prio = 0 /\ pgn = 0 /\ src = 0 /\ dst = 0)).

(* 3. decoding an identifier the library produced gives back the fields (C02, first item) *)
Definition id_decode_stmt : Prop :=
  forall prio pgn src dst, id_args_ok prio pgn src dst -> (pdu1 pgn = true -> pgn mod 256 = 0) ->
    can_id_to_n2k (to_can_id prio pgn src dst) = (prio, pgn, src, if pdu1 pgn then dst else 255).

(* ================= fast packet framing against a reference decoder ================= *)
Definition ref_decode (frames:list (list Z)) : option (list Z) :=
  match frames with
  | (_ :: len :: d0) :: rest => Some (firstn (Z.to_nat len) (d0 ++ concat (map (@tl Z) rest)))
  | _ => None
  end.
Definition frame_counter (f:list Z) : Z := (hd 0 f) mod 32.
Definition frame_seqid (f:list Z) : Z := (hd 0 f) / 32.

(* 4. for every payload of up to 223 bytes and every 3-bit sequence id: the reference decoder recovers the payload; the frame count is
      1 for up to 6 bytes and 2 + (len-7)/7 beyond; every frame has 8 bytes; frame k carries counter k and the sequence id;
      byte 1 of the first frame is the length; all bytes after the payload are 0xFF *)
Definition fp_frames_stmt : Prop :=
  forall sid payload, 0 <= sid < 8 -> (length payload <= 223)%nat -> Forall (fun b => 0 <= b < 256) payload ->
    let fs := fp_frames (Z.shiftl sid 5) payload in
    let len := Z.of_nat (length payload) in
    ref_decode fs = Some payload /\
    Z.of_nat (length fs) = (if len <=? 6 then 1 else 2 + (len - 7) / 7) /\
    Forall (fun f => length f = 8%nat) fs /\
    (forall k f, nth_error fs k = Some f -> frame_counter f = Z.of_nat k /\ frame_seqid f = sid) /\
    nth 1 (hd [] fs) 0 = len /\
    (exists pad, hd [] fs ++ concat (map (@tl Z) (tl fs)) = hd 0 (hd [] fs) :: len :: payload ++ pad /\ Forall (fun b => b = 255) pad).

(* ================= sequence counters ================= *)
(* the PGNs a device declares for fast-packet transmission: library defaults + the application's list *)
Definition declared_fp (n:node) (i:Z) : list Z :=
  filter (is_fast_packet_pgn (n_pgn n)) def_transmit_messages ++ filter (is_fast_packet_pgn (n_pgn n)) (d_tx (get_dev n i)).
Fixpoint seq_run (n:node) (i:Z) (ps:list Z) : list Z :=
  match ps with [] => [] | p :: r => let '(n1, sc) := get_sequence_counter n i p in sc :: seq_run n1 i r end.
Fixpoint occurrences (p:Z) (l:list Z) : Z := match l with [] => 0 | x :: r => (if x =? p then 1 else 0) + occurrences p r end.

(* 5. as long as the PGNs sent through the fast-packet path are among the declared ones, successive messages of one PGN carry
      consecutive sequence ids 0,1,..,7,0,.. whatever other declared PGNs are sent in between *)
Definition seq_consecutive_stmt : Prop :=
  forall n i ps, 0 <= i < dev_count n -> d_cells (get_dev n i) = None ->
    Forall (fun p => In p (declared_fp n i) /\ 0 < p < 2^24) ps ->
    forall k p, nth_error ps k = Some p ->
      nth_error (seq_run n i ps) k = Some (occurrences p (firstn k ps) mod 8).

(* 6. the unrestricted statement is false: PGNs that are not declared take cells away and push a declared PGN onto the shared counter *)
Definition seq_unrestricted_refuted_stmt : Prop :=
  exists n i ps k p, 0 <= i < dev_count n /\ d_cells (get_dev n i) = None /\ In p (declared_fp n i) /\ nth_error ps k = Some p /\
    nth_error (seq_run n i ps) k <> Some (occurrences p (firstn k ps) mod 8).

(* ================= classification ================= *)
(* 7. with the default configuration the library's classification agrees with the reference on every PGN the reference knows, and on
      the proprietary ranges for all PGNs *)
Definition classification_stmt : Prop :=
  (forall p, In p ref_fast -> is_fast_packet_pgn no_lists p = true) /\
  (forall p, In p ref_single -> is_fast_packet_pgn no_lists p = false) /\
  (forall p, ref_prop_fast p = true -> is_fast_packet_pgn no_lists p = true) /\
  (forall p, ref_prop_single p = true -> is_fast_packet_pgn no_lists p = false).
(* 8. application lists: list 0 replaces the default fast-packet list, list 1 extends; system, mandatory and proprietary stay *)
Definition classification_ext_stmt : Prop :=
  forall c p, p <> 0 ->
    is_fast_packet_pgn c p =
      (is_fast_packet_system p || is_mandatory_fast_packet p || is_proprietary_fast_packet p
       || (match fp0 c with None => is_default_fast_packet p | Some l => existsb (Z.eqb p) l end)
       || (match fp1 c with None => false | Some l => existsb (Z.eqb p) l end)).

(* ================= the send queue refines a FIFO (C11) ================= *)
(* abstract machine: the list of frames the library owes the driver *)
Definition fifo_flush_step (f:frame) (ok:bool) : event := EvTx (f_id f) (f_len f) (f_data f) ok.
Fixpoint fifo_flush (pending:list frame) (d:drv) : list frame * drv * list event * bool :=
  match pending with
  | [] => ([], d, [], true)
  | f :: rest =>
    let '(ok, d') := can_send d in
    if ok then let '(p2, d2, evs, r) := fifo_flush rest d' in (p2, d2, fifo_flush_step f true :: evs, r)
    else (pending, d', [fifo_flush_step f false], false)
  end.
Definition fifo_send (cap:Z) (pending:list frame) (d:drv) (id len:Z) (data:list Z) (wait:bool) : list frame * drv * list event * bool :=
  let '(p1, d1, ev1, flushed) := fifo_flush pending d in
  let '(sent, d2, ev2) := if flushed then let '(ok, d2) := can_send d1 in (ok, d2, [EvTx id len (firstn (Z.to_nat len) data) ok]) else (false, d1, []) in
  if sent then (p1, d2, ev1 ++ ev2, true)
  else if Z.of_nat (length p1) <? cap then
    (p1 ++ [{| f_id := id; f_len := Z.min len 8; f_data := firstn (Z.to_nat (Z.min len 8)) data; f_wait := wait |}], d2, ev1 ++ ev2, true)
  else (p1, d2, ev1 ++ ev2, false).

(* the frames currently held by the ring, oldest first *)
Fixpoint ring_view (k:nat) (q:sring) (i:Z) : list frame :=
  match k with O => [] | S k' => let t := (i + 1) mod q_max q in znth (q_buf q) t dframe :: ring_view k' q t end.
Definition ring_count (q:sring) : Z := (q_wr q - q_rd q) mod q_max q.
Definition ring_contents (q:sring) : list frame := ring_view (Z.to_nat (ring_count q)) q (q_rd q).
Definition ring_wf (q:sring) : Prop :=
  2 <= q_max q /\ 0 <= q_rd q < q_max q /\ 0 <= q_wr q < q_max q /\ length (q_buf q) = Z.to_nat (q_max q).

(* 9. one SendFrames / SendFrame on the ring = one step of the FIFO machine of capacity max-1, for every driver answer stream:
      same frames handed to the driver in the same order with the same answers, same result, and the ring afterwards holds exactly
      the FIFO's pending list (so nothing is lost, duplicated or overtaken; a refused send leaves the queue unchanged) *)
Definition queue_refines_fifo_stmt : Prop :=
  forall q d, ring_wf q ->
    (let '(q', d', ev, ok) := flush q d in
     let '(p', d'', ev', ok') := fifo_flush (ring_contents q) d in
     ring_wf q' /\ ring_contents q' = p' /\ d' = d'' /\ ev = ev' /\ ok = ok') /\
    (forall id len data wait,
     let '(q', d', ev, ok) := send_frame q d id len data wait in
     let '(p', d'', ev', ok') := fifo_send (q_max q - 1) (ring_contents q) d id len data wait in
     ring_wf q' /\ ring_contents q' = p' /\ d' = d'' /\ ev = ev' /\ ok = ok').
(* 10. a freshly created ring is well formed and empty *)
Definition queue_init_stmt : Prop := forall mx, 2 <= mx -> ring_wf (sring_new mx) /\ ring_contents (sring_new mx) = [].

(* ================= the send-side gate (C01 refusals, C04 for application sends) ================= *)
Definition quiet (r:node * list event * bool) (n:node) : Prop :=
  let '(n', ev, ok) := r in ok = false /\ ev = [] /\ n_q n' = n_q n /\ n_drv n' = n_drv n.
(* 11. an application send is refused - returns false, hands nothing to the driver, queues nothing - when the node is not open,
       is listen-only, the PGN is 0 or an addressable PGN with a non-zero low byte, the source address is above 251 (unless it is an
       address claim), or the sending device's address claim is pending (unless it is an address claim) *)
Definition gate_refuses_stmt : Prop :=
  forall n m idev, 0 <= m_pri m < 256 -> 0 <= m_pgn m < 2^17 -> 0 <= m_src m < 256 -> 0 <= m_dst m < 256 ->
    idev < dev_count n -> Forall (fun d => 0 <= d_src d < 256) (n_devs n) ->
    let src := if idev >=? 0 then d_src (get_dev n idev) else m_src m in
    let i := if idev >=? 0 then idev else 0 in
    ( n_open n <> 3 \/ n_mode n = 0 \/ m_pgn m = 0 \/ (pdu1 (m_pgn m) = true /\ m_pgn m mod 256 <> 0)
      \/ (251 < src /\ m_pgn m <> 60928) \/ (snd (claim_started n i) = true /\ m_pgn m <> 60928) ) ->
    quiet (send_msg n m idev) n.

(* 12. end to end: with an accepting driver and an empty queue, a message that passes the gate and is not flagged for ISO-TP reaches the
       driver as exactly one frame with DLC = payload length (single-frame PGN, up to 8 bytes) or as the fast-packet frames of its
       payload under the next sequence id of its PGN, all with the identifier of statement 1, in order, and SendMsg returns true *)
Definition expected_frames (n1:node) (m':msg) (i:Z) : list (Z * list Z) :=
  if (m_len m' <=? 8) && negb (is_fast_packet n1 m') then [(m_len m', m_data m')]
  else map (fun f => (8, f)) (fp_frames (Z.shiftl (snd (get_sequence_counter n1 i (m_pgn m'))) 5) (m_data m')).
Definition send_ok_stmt : Prop :=
  forall n m idev n1 m' i id,
    n_drv n = [] -> ring_wf (n_q n) -> q_rd (n_q n) = q_wr (n_q n) -> (length (m_data m) <= 223)%nat ->
    send_gate n m idev = (n1, Some (m', i, id)) ->
    ((m_len m' <=? 8) && negb (is_fast_packet n1 m') = true \/ m_tp m' = false) ->
    let '(n2, ev, ok) := send_msg n m idev in
    ok = true /\ ev = map (fun lf => EvTx id (fst lf) (firstn (Z.to_nat (fst lf)) (snd lf)) true) (expected_frames n1 m' i) /\
    id = to_can_id (m_pri m) (m_pgn m) (m_src m') (m_dst m') /\ q_rd (n_q n2) = q_wr (n_q n2).
