(* C07 - no bus traffic makes the library touch memory unsafely, hang or over-deliver.  Statements for the node core
   (receive path, fast-packet and ISO-TP reassembly, both ISO-TP roles, address claiming, commanded address, ISO requests, pending
   information, heartbeat, Open and ParseMessages) over the shared node model Model/NodeDefs.v + Model/NodeRxDefs.v.

   Scope: the optional device list (tN2kDeviceList) is covered by the development of property C18, the group-function handlers
   (PGN 126208, N2kGroupFunction*.cpp) by the development of property C09.  Here the reaction to a complete PGN 126208 message is the
   parameter [gf] of the model; the theorems hold for EVERY gf that satisfies the explicit contract [gf_ok] below (and [gf_keeps_rxq]
   for the bound on ParseMessages), which is what C09 has to establish for the real handlers; [gf_none] satisfies it trivially.

   What "safe" means in the model: every use of Devices[i] / N2kCANMsgBuf[i] of the C++ passes through chk_dev / chk_slot, which set
   the sticky flag r_oob when the index is outside the array.  r_oob = false at the end of a history therefore says that no such access
   was out of bounds anywhere in the history.  Payload buffers (tN2kMsg::Data[223]) are lists in the model; the bound that keeps the C++
   inside the array is length (s_data s) <= 223 for every reassembly slot, and length <= 223 for every delivered message.
   "Does not hang": the loops of the C++ are for-loops over the device/slot arrays, the frame loop of ParseMessages (bounded by
   MaxReadFramesOnParse, statement 2a) and two loops whose termination is not syntactic, SendFrames and the do-while of GetNextAddress,
   which the model runs with fuel: statements 2b and 2c say that the fuel is never what stops them.
   Not expressible in this model and therefore left to the sanitizer build of the correspondence (tools/p_C07.py: AddressSanitizer,
   UndefinedBehaviorSanitizer, arrays fenced by inaccessible pages): use of freed memory (the library frees nothing), undefined arithmetic
   (e.g. LastFrame % TPRequireCTS is guarded by TPRequireCTS > 0 in the C++; Z.modulo is total here), reads inside tN2kMsg::Data. *)
From Coq Require Import ZArith List Bool.
From N2kV Require Import Base.ListAux Model.CanId Model.Sched Model.PgnClass Model.NodeDefs Model.NodeRxDefs Gen.GenTables Gen.GenConsts Spec.SendSpec.
Import ListNotations.
Local Open Scope Z_scope.

(* ================= the invariant ================= *)
Definition byte_ok (b:Z) : Prop := 0 <= b <= 255.
(* a device holds an 8-bit source address (uint8_t N2kSource) *)
Definition dev_ok (d:dev) : Prop := 0 <= d_src d <= 255.
(* the send ring: indices inside the buffer.  For q_max >= 2 this is ring_wf of Spec/SendSpec.v (ring_ok_wf in the proofs); the library also
   accepts buffer sizes 0 (no buffer allocated) and 1 (a ring that is always full), for which ring_wf is not defined *)
Definition ring_ok (q:sring) : Prop :=
  0 <= q_max q /\ length (q_buf q) = Z.to_nat (q_max q) /\ (q_max q = 0 \/ (0 <= q_rd q < q_max q /\ 0 <= q_wr q < q_max q)).
(* a reassembly slot: never more than 223 payload bytes copied (tN2kMsg::Data), bytes are bytes, DataLen fits the 8-bit fields it is read from,
   and a slot marked ready holds at least DataLen bytes *)
Definition slot_ok (s:slot) : Prop :=
  (length (s_data s) <= 223)%nat /\ Forall byte_ok (s_data s) /\ 0 <= s_len s <= 255 /\
  (s_ready s = true -> s_len s <= Z.of_nat (length (s_data s))).
(* a frame as the CAN driver delivers it *)
Definition frame_ok (f:rxframe) : Prop :=
  length (r_buf f) = 8%nat /\ Forall byte_ok (r_buf f) /\ 0 <= r_len f <= 8 /\ 0 <= r_id f < 2^29.

(* nd, ns, mx: the sizes of Devices[], N2kCANMsgBuf[], CANSendFrameBuf[] - fixed once the node is configured *)
Definition WF (nd ns:nat) (mx:Z) (r:rnode) : Prop :=
  length (n_devs (rn r)) = nd /\ Forall dev_ok (n_devs (rn r)) /\ q_max (n_q (rn r)) = mx /\ ring_ok (n_q (rn r)) /\ length (rx_dev r) = nd /\
  length (r_slots r) = ns /\ Forall slot_ok (r_slots r) /\ Forall frame_ok (r_q r).
(* between two library calls no slot is marked ready: a completed message is handled and its slot freed within the same ParseMessages step *)
Definition quiet (r:rnode) : Prop := Forall (fun s => s_ready s = false) (r_slots r).

(* ================= events ================= *)
Definition ev_ok (e:event) : Prop := match e with EvDeliver m => (length (m_data m) <= 223)%nat | _ => True end.

(* ================= the contract of the group-function reaction ================= *)
(* Called with the node in a well-formed state without an out-of-bounds access so far and with a slot of the node holding a PGN 126208 message,
   gf must: keep the state well formed (same device, slot and send-buffer counts), not index Devices[]/N2kCANMsgBuf[] out of bounds, not mark
   further reassembly slots ready, and deliver nothing longer than 223 bytes to the application.
   (The real handlers only read the message and call SendMsg; C09 proves the contract for them.) *)
Definition gf_ok (gf:rnode -> slot -> rnode * list event) : Prop :=
  forall nd ns mx r s, WF nd ns mx r -> r_oob r = false -> In s (r_slots r) -> s_pgn s = 126208 ->
    WF nd ns mx (fst (gf r s)) /\ r_oob (fst (gf r s)) = false /\
    (forall j, 0 <= j -> s_ready (get_slot (fst (gf r s)) j) = true -> s_ready (get_slot r j) = true) /\
    Forall ev_ok (snd (gf r s)).
(* for the bound on ParseMessages: gf does not read frames from the driver itself *)
Definition gf_keeps_rxq (gf:rnode -> slot -> rnode * list event) : Prop := forall r s, r_q (fst (gf r s)) = r_q r.
Definition gf_none_ok_stmt : Prop := gf_ok gf_none /\ gf_keeps_rxq gf_none.

(* ================= operations the environment may perform ================= *)
Definition msg_ok (m:msg) : Prop :=
  (length (m_data m) <= 223)%nat /\ Forall byte_ok (m_data m) /\ 0 <= m_pri m <= 255 /\ 0 <= m_src m <= 255 /\ 0 <= m_dst m <= 255 /\ 0 <= m_pgn m < 2^32.
Definition op_ok (o:rop) : Prop :=
  match o with
  | RRx f => frame_ok f                              (* any identifier below 2^29, DLC 0..8, 8 buffer bytes *)
  | RBase (OTick dt) => 0 <= dt                      (* the clock does not run backwards; arbitrary jumps forward *)
  | RBase (OSend idev m) => msg_ok m                 (* tN2kMsg: DataLen <= MaxDataLen, unsigned char fields; any device index *)
  | _ => True                                        (* driver answers, SendFrames, StartAddressClaim(any index), ParseMessages, heartbeat settings *)
  end.

(* ================= 1. safety of whole histories ================= *)
(* Hypotheses on the configuration and where they come from:
   - devs <> []            SetDeviceCount accepts 1..9 devices, the constructor starts with 1 (not needed by the proof: the model never indexes
                           Devices[] with a constant; kept because it delimits the configurations the C++ can be in)
   - length rxls = length devs   one receive-PGN list per device (same array in the C++)
   - Forall dev_ok devs    N2kSource is a uint8_t
   - 1 <= nsl <= 255       SetN2kCANMsgBufSize takes a uint8_t, 0 is replaced by 5 in InitCANFrameBuffers (only 0 <= nsl is used)
   - 0 <= qmax <= 65535    SetN2kCANSendFrameBufSize takes a uint16_t; 0 = no send buffer (only 0 <= qmax is used)
   Any mode, any clock origin, any PGN configuration, any per-device lists, any driver behaviour (the driver's answers are operations). *)
Definition node_safe_stmt : Prop :=
  forall gf, gf_ok gf ->
  forall w mode t0 qmax nsl pc devs rxls cfg ops,
    devs <> [] -> length rxls = length devs -> Forall dev_ok devs -> 1 <= nsl <= 255 -> 0 <= qmax <= 65535 ->
    Forall op_ok ops ->
    let r' := fst (rrun gf (cold_node w mode t0 qmax nsl pc devs rxls cfg) ops) in
    let evs := snd (rrun gf (cold_node w mode t0 qmax nsl pc devs rxls cfg) ops) in
    r_oob r' = false /\
    Forall (Forall ev_ok) evs /\
    WF (length devs) (Z.to_nat nsl) qmax r' /\ quiet r'.

(* ================= 2. bounded work ================= *)
(* (a) one ParseMessages of an open node takes at most c_MaxReadFramesOnParse = 20 frames from the driver, from the front, and leaves the rest
       in order;
   (b) SendFrames: the fuel the model gives the flush loop (q_max + 1) is never the reason it stops - any larger fuel gives the same result;
   (c) GetNextAddress: with at most 251 devices (the library allows 9) the do-while loop ends within (number of devices + 1) rounds because it
       visits pairwise different addresses, each of which must be held by another device of the node for the loop to go on; the model's
       fuel 300 (any fuel above the device count) is therefore never exhausted: the result is the same for all such fuels. *)
Definition poll_bounded_stmt : Prop :=
  (forall gf, gf_ok gf -> gf_keeps_rxq gf ->
   forall nd ns mx r, WF nd ns mx r -> r_oob r = false -> quiet r -> n_open (rn r) = 3 ->
     exists k, (k <= Z.to_nat c_MaxReadFramesOnParse)%nat /\ (k <= 20)%nat /\ r_q (fst (poll gf r)) = skipn k (r_q r)) /\
  (forall q d fuel, ring_ok q -> (Z.to_nat (q_max q) < fuel)%nat -> send_frames fuel q d = flush q d) /\
  (forall nd ns mx r i restart f1 f2, WF nd ns mx r -> (nd <= 251)%nat -> 0 <= i < Z.of_nat nd -> (nd < f1)%nat -> (nd < f2)%nat ->
     next_address f1 r i restart = next_address f2 r i restart).

(* ================= 3. slot and state invariants in every reachable state ================= *)
(* every state reached from a cold node by any history of admissible operations satisfies WF (slot payloads <= 223 bytes, ready slots hold
   their DataLen, DataLen in 0..255, addresses 0..255, ring indices inside the ring, array lengths constant) and, for rings of 2 or more
   frames, ring_wf of Spec/SendSpec.v (the premise of the FIFO refinement C11) *)
Definition reachable (gf:rnode -> slot -> rnode * list event) (r0 r:rnode) : Prop :=
  exists ops, Forall op_ok ops /\ r = fst (rrun gf r0 ops).
Definition slot_invariants_stmt : Prop :=
  forall gf, gf_ok gf ->
  forall w mode t0 qmax nsl pc devs rxls cfg r,
    devs <> [] -> length rxls = length devs -> Forall dev_ok devs -> 1 <= nsl <= 255 -> 0 <= qmax <= 65535 ->
    reachable gf (cold_node w mode t0 qmax nsl pc devs rxls cfg) r ->
    (forall s, In s (r_slots r) ->
       (length (s_data s) <= 223)%nat /\ 0 <= s_len s <= 255 /\ (s_ready s = true -> s_len s <= Z.of_nat (length (s_data s)))) /\
    nslots r = nsl /\ dev_count (rn r) = Z.of_nat (length devs) /\ length (rx_dev r) = length devs /\
    (forall d, In d (n_devs (rn r)) -> 0 <= d_src d <= 255) /\
    ring_ok (n_q (rn r)) /\ (2 <= qmax -> ring_wf (n_q (rn r))) /\ q_max (n_q (rn r)) = qmax.
