(* C08 (content of the configuration information answer): what SetConfigurationInformation makes of the application's strings.
   The payload of PGN 126998 that the node reports is the reference layout of the three strings, each cut to the 70 characters a field
   of the library holds (Max_N2kConfigurationInfoField_len - 1). ASCII strings (bytes 1..127); other text is C16's subject. *)
From Coq Require Import ZArith List Bool.
From N2kV Require Import Base.ListAux Model.NodeDefs Model.NodeRxDefs Model.GroupFnDefs Model.ConfInfoDefs Spec.IsoSpec.
Import ListNotations.
Local Open Scope Z_scope.

Definition set_conf_info_content_stmt : Prop :=
  forall c manuf inst1 inst2, Forall (fun b => 0 < b < 128) (inst1 ++ inst2 ++ manuf) ->
    let c' := set_configuration_information c manuf inst1 inst2 in
    c_confinfo c' = ref_config_info (firstn 70 inst1) (firstn 70 inst2) (firstn 70 manuf) /\
    c_inst1 c' = firstn 70 inst1 /\ c_inst2 c' = firstn 70 inst2 /\ c_manuf c' = firstn 70 manuf /\
    c_confinfo c' <> [] /\ (length (c_confinfo c') <= 216)%nat /\
    c_only_known c' = c_only_known c /\ c_iso_handler c' = c_iso_handler c /\ c_prodinfo c' = c_prodinfo c /\ c_hb_on c' = c_hb_on c.
