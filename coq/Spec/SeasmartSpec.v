(* Independent specification and the fixed theorem statements for C19 (Seasmart).
   The statements are Definitions of type Prop; Proofs/SeasmartProofs.v proves them, Props/Properties_C19.v re-exports them. *)
From Coq Require Import ZArith List Bool.
From N2kV Require Import Base.Res Model.SeasmartDefs.
Import ListNotations.
Local Open Scope Z_scope.

(* a C string: no NUL inside *)
Definition cstring (s:list Z) : Prop := Forall (fun b => b <> 0) s.

(* a message the property quantifies over *)
Definition wf_msg (m:smsg) : Prop :=
  0 <= pgn m < 2^24 /\ 0 <= ts m < 2^32 /\ 0 <= src m < 256 /\
  Forall (fun b => 0 <= b < 256) (data m) /\ (length (data m) <= 223)%nat.

(* hexadecimal digit strings and their values, written independently of the model's index-based readers *)
Definition xdigits (l:list Z) : Prop := Forall (fun c => is_xdigit c = true) l.
Fixpoint hexvalue (l:list Z) (acc:Z) : Z := match l with [] => acc | c::r => hexvalue r (acc*16 + hexval c) end.
Fixpoint bytes_of (l:list Z) : list Z := match l with a::b::r => (hexval a * 16 + hexval b) :: bytes_of r | _ => [] end.

(* 1. importing an arbitrary NUL-terminated string never reads beyond its terminator (and the model's loops have enough fuel) *)
Definition import_safe_stmt : Prop :=
  forall s, cstring s -> import s <> OOB /\ import s <> Fuel.

(* 2. export writes exactly 29+2n characters + NUL when the buffer holds at least 30+2n bytes, nothing at all otherwise *)
Definition export_size_stmt : Prop :=
  forall m size,
    let n := Z.of_nat (length (data m)) in
    Z.of_nat (length (sentence m)) = 29 + 2*n /\
    export m size = if size <? 30 + 2*n then Ok (None, 0) else Ok (Some (sentence m ++ [0]), 29 + 2*n).

(* 3. import is the inverse of export on every well-formed message *)
Definition import_export_stmt : Prop :=
  forall m, wf_msg m -> cstring (sentence m) /\ import (sentence m) = Ok (Some m).

(* 4. when import succeeds the string really is a $PCDIN sentence with those hexadecimal fields, a matching checksum and
      at most 223 data bytes *)
Definition import_sound_stmt : Prop :=
  forall s m, cstring s -> import s = Ok (Some m) ->
    exists dp dt ds dd dc rest,
      s = pcdin ++ dp ++ [44] ++ dt ++ [44] ++ ds ++ [44] ++ dd ++ [42] ++ dc ++ rest /\
      xdigits dp /\ length dp = 6%nat /\ xdigits dt /\ length dt = 8%nat /\ xdigits ds /\ length ds = 2%nat /\
      xdigits dd /\ length dd = (2 * length (data m))%nat /\ (length (data m) <= 223)%nat /\
      xdigits dc /\ length dc = 2%nat /\
      pgn m = hexvalue dp 0 /\ ts m = hexvalue dt 0 /\ src m = hexvalue ds 0 /\ data m = bytes_of dd /\
      hexvalue dc 0 = xor_all (tl (pcdin ++ dp ++ [44] ++ dt ++ [44] ++ ds ++ [44] ++ dd)) mod 256.

(* non-vacuity: a concrete sentence with data, escape-like bytes and a lower-case variant *)
Definition nv_msg : smsg := {| pgn := 127257; ts := 4294967295; src := 15; data := [42; 175; 0; 209; 6; 116; 20; 255] |}.
