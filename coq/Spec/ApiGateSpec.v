(* C04 - Nothing is transmitted when the node is not entitled to transmit - lifted to the public application calls of
   Model/ApiDefs.v ([api_step], and the extended step [xstep] / run [xrun]).

   The notions are those of Spec/GateSpec.v (imported, not copied): the send-entitlement machine [Run] with its moves
   [quiet_change] / [R_note] / [R_flush] / [R_frame], [entitled], [clock_ok], [gf_ok], [no_tx], [queue_empty], [open_completes].
   Statements below are about ONE public call from an ARBITRARY state (statement 4: about every run from a cold node).

   The one excluded call: SetMode(mode, source) made at run time ([ASetMode], [is_set_mode]).  By design it overwrites the mode and
   every device's address (source + i) and announces nothing: no address claim is sent and no claim window is opened.  That is
   exactly what the machine forbids to a silent move ([quiet_change] keeps the mode, and a device that takes a new address must be
   left with a pending claim), so the call cannot refine the machine: statement 1 excludes it - and ONLY it - through
   [is_set_mode]; [api_set_mode_not_a_run_stmt] states that the exclusion is necessary, on an open NodeOnly node and with the mode
   left as it is.  The call itself never reaches the driver (it returns no event and leaves queue and driver alone), so
   statements 2 (first three conjuncts), 3 and 4 include it.

   Which calls reach Open(): a sending call reaches SendMsg, which calls Open() when the node is not open ([osend] = [open_first]
   followed by the sender; [send_heartbeat_api_dev] calls [open_first] itself).  SendIsoAddressClaim with a positive delay only arms
   the delayed claim and does not send; the setters and Restart() never call Open() ([api_calls_open]).

   ExtendTransmitMessages / ExtendReceiveMessages / SetHandleOnlyKnownMessages / SetProductInformation at run time ([ASetTxList],
   [ASetRxList], [ASetOnlyKnown], [ASetProductInformation]) are included in every statement: they are silent changes (no event; mode,
   addresses, claim timers, open state, clock, queue and driver are left alone; only d_tx / x_rx / r_cfg change) and never call Open(). *)
From Coq Require Import ZArith List Bool.
From N2kV Require Import Base.ListAux Model.CanId Model.Sched Model.PgnClass Model.NodeDefs Model.NodeRxDefs Model.ApiDefs Gen.GenTables Gen.GenConsts
  Spec.SendSpec Spec.GateSpec.
Import ListNotations.
Local Open Scope Z_scope.

Definition is_set_mode (a:api) : bool := match a with ASetMode _ _ => true | _ => false end.

(* the classification of the extended operations, extending [is_env] / [is_fwd] of GateSpec: no public call is an environment
   operation, none of them forwards (they all send for a device index >= 0) *)
Definition x_is_env (o:xop) : bool := match o with XBase o' => is_env o' | XApi _ => false end.
Definition x_is_fwd (o:xop) : bool := match o with XBase o' => is_fwd o' | XApi _ => false end.
Definition x_is_set_mode (o:xop) : bool := match o with XBase _ => false | XApi a => is_set_mode a end.

(* ================= 1. produced frames are entitled =================
   Every public call except SetMode is a run of the machine without forwarding: every frame it hands to SendFrame is entitled in the
   state in which it is handed over (the node is open and not listen-only, the source is the current address of one of its devices,
   and unless the frame is an ISO address claim that device's claim is not pending and the address is usable); everything else it
   does is a silent change that closes no claim window and takes no address without opening one.  In particular
   SetDeviceInformationInstances / SetDeviceInformation (NAME changes), the delayed SendIsoAddressClaim (arms the delayed claim), the
   PGN list setters (node-wide and per device), SetHandleOnlyKnownMessages and SetProductInformation are silent; Restart() is
   StartAddressClaim for every device. *)
Definition api_produced_frames_entitled_stmt : Prop :=
  forall r a r' ev, api_step r a = (r', ev) -> is_set_mode a = false -> clock_ok (rn r) ->
    exists p, Run false (rn r) ev p (rn r').

(* the same for the extended step (C04 statement 3 over [xop]) *)
Definition xstep_produced_frames_entitled_stmt : Prop :=
  forall gf, gf_ok gf -> forall r o r' ev, xstep gf r o = (r', ev) -> x_is_env o = false -> x_is_set_mode o = false -> clock_ok (rn r) ->
    exists p, Run (x_is_fwd o) (rn r) ev p (rn r').

(* The exclusion is necessary.  A run of the machine from an open NodeOnly / ListenAndNode node with a well-formed queue never
   leaves a device with a new address and without a pending claim ([run_start_stmt] and the definition of [quiet_change]); SetMode
   does: there are an open NodeOnly node r (clock_ok, queue empty), a device j and a source such that after
   SetMode(the same mode, source) device j holds another address and its claim is not pending - and the call is not a run. *)
Definition api_set_mode_not_a_run_stmt : Prop :=
  exists (r:rnode) (src j:Z),
    clock_ok (rn r) /\ n_open (rn r) = 3 /\ n_mode (rn r) = 1 /\ queue_empty (n_q (rn r)) /\ 0 <= j < dev_count (rn r) /\
    let '(r', ev) := api_step r (ASetMode 1 src) in
    ev = [] /\ n_mode (rn r') = 1 /\ d_src (get_dev (rn r') j) <> d_src (get_dev (rn r) j) /\ claim_pending (rn r') j = false /\
    ~ (exists p, Run false (rn r) ev p (rn r')).

(* ================= 2. listen-only =================
   On a listen-only node (send queue empty, as from construction) no public call reaches the driver: no EvTx, queue and driver's answer
   stream untouched - SetMode included -, and unless the call is SetMode the node stays listen-only. *)
Definition api_listen_only_silent_stmt : Prop :=
  forall r a r' ev, api_step r a = (r', ev) -> n_mode (rn r) = 0 -> queue_empty (n_q (rn r)) ->
    no_tx ev /\ n_q (rn r') = n_q (rn r) /\ n_drv (rn r') = n_drv (rn r) /\ (is_set_mode a = false -> n_mode (rn r') = 0).

(* along a run: a listen-only node with an empty queue stays silent for every list of extended operations without SetMode *)
Definition xrun_listen_only_silent_stmt : Prop :=
  forall gf ops r, n_mode (rn r) = 0 -> queue_empty (n_q (rn r)) -> Forall (fun o => x_is_set_mode o = false) ops ->
    Forall no_tx (snd (xrun gf r ops)) /\ n_mode (rn (fst (xrun gf r ops))) = 0.

(* ================= 3. not open =================
   A public call on a node that is not open and whose Open() - reached through SendMsg by the sending calls - does not complete in
   this call returns no event at all (so no EvTx and no OnOpen), leaves send queue and driver untouched and the node not open.  SetMode
   included.  Stronger than C04 statement 2(b) in that the queue need not be empty (no public call flushes it on a node that is not open).
   [open_completes r] speaks about the first Open() of the call; SendHeartbeat(force) calls SendMsg once per device, hence Open()
   several times at the same clock value: a later one cannot complete (the settle timer armed by an earlier one needs 200 ms) - on
   the 64-bit scheduler as long as now + 200 does not wrap, which is what [clock_ok] provides (that call acts only on NodeOnly /
   ListenAndNode nodes).  Without [clock_ok] the statement is false for exactly that call, in the last 200 ms before the 64-bit clock
   wraps ([api_not_open_noclock_refuted_stmt]; a model-level boundary of the same kind as the one in GateSpec.clock_ok, not a defect). *)
Definition api_calls_open (a:api) : bool :=
  match a with
  | ASendClaim _ _ delay => negb (0 <? delay)
  | ASendProd _ | ASendConf _ | ASendTxList _ _ _ | ASendRxList _ _ _ | ASendHeartbeatAll _ | ASendHeartbeatDev _ => true
  | ASetInstances _ _ _ _ | ASetDeviceInformation _ _ _ _ _ _ | ARestart | ASetMode _ _ | ASetPgnList _ _
  | ASetTxList _ _ | ASetRxList _ _ | ASetOnlyKnown _ | ASetProductInformation _ _ _ _ _ _ _ _ => false
  end.
Definition api_not_open_silent_stmt : Prop :=
  forall r a r' ev, api_step r a = (r', ev) ->
    n_open (rn r) <> 3 -> (api_calls_open a = true -> open_completes r = false) -> clock_ok (rn r) ->
    ev = [] /\ n_q (rn r') = n_q (rn r) /\ n_drv (rn r') = n_drv (rn r) /\ n_open (rn r') <> 3.
(* (api_not_open_noclock_refuted_stmt, the boundary example for SendHeartbeat(force) without [clock_ok], was removed with the repair in /repo:
   SendHeartbeat(bool) returns at once on a node that is not open; [clock_ok] stays as a hypothesis that is no longer needed for that call) *)

(* the extended step on a node that is not open (C04 statement 2(b) over [xop]; the queue hypothesis is that of the base statement) *)
Definition x_calls_open (o:xop) : bool := match o with XBase o' => calls_open o' | XApi a => api_calls_open a end.
Definition xstep_not_open_silent_stmt : Prop :=
  forall gf r o r' ev, xstep gf r o = (r', ev) ->
    n_open (rn r) <> 3 -> queue_empty (n_q (rn r)) -> (x_calls_open o = true -> open_completes r = false) -> clock_ok (rn r) ->
    no_tx ev /\ n_q (rn r') = n_q (rn r) /\ n_open (rn r') <> 3 /\ (forall b, In (EvResult b) ev -> b = false).

(* ================= 4. the settle delay =================
   From a cold node constructed at time t0, no list of extended operations - public calls of every kind mixed with the base
   operations - whose clock stays below t0 + 200 (ticks are non negative) makes the node call the driver. *)
Definition xticks_nonneg (ops:list xop) : Prop :=
  Forall (fun o => match o with XBase (RBase (OTick dt)) => 0 <= dt | _ => True end) ops.
Fixpoint xclock_after (t:Z) (ops:list xop) : Z :=
  match ops with [] => t | XBase (RBase (OTick dt)) :: r => xclock_after (t + dt) r | _ :: r => xclock_after t r end.
Definition api_settle_delay_stmt : Prop :=
  forall gf (w:bool) mode t0 qmax nsl pc devs rxls cfg ops,
    0 <= t0 -> t0 + 400 < (if w then 2^64 else 2^32) -> xticks_nonneg ops -> xclock_after t0 ops < t0 + 200 ->
    Forall no_tx (snd (xrun gf (cold_node w mode t0 qmax nsl pc devs rxls cfg) ops)).
