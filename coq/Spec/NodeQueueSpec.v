(* C11 at node level: in EVERY history of node operations the node drives the CAN driver exactly like a FIFO would.

   Proofs/QueueProofs.v shows that the send ring in isolation (operation lists of SendFrames / SendFrame calls, [qop], [q_run]) is a
   FIFO ([run_refines], [no_loss_no_dup]).  This file states that the WHOLE node - receives, polls, application sends, timers, ISO-TP,
   address claim, ISO requests, group functions, heartbeat, the public calls of Model/ApiDefs.v - touches the ring and the driver ONLY
   through such calls: every step [xstep gf r o] is a run [q_run] of queue operations from the ring and driver-answer stream of r to
   those of r', and the driver calls logged by the step (its [EvTx] events, in order) are exactly the driver calls of that run.
   Nothing reaches the driver around the queue, nothing is written into the ring except by SendFrame, the driver's answer stream is
   consumed only by the CANSendFrame calls of SendFrames / SendFrame.

   No well-formedness premise is needed for the trace statements: they hold from ANY node state, for ANY operation, for every group
   function reaction [gf] that itself satisfies the statement ([gf_qtrace]; the library's handlers [gf_lib] and [gf_none] do).
   Only the corollaries that pass through [run_refines] (the list FIFO) need the ring to be well formed ([ring_wf], SendSpec) at the
   start of the history; it is then well formed at the end.

   One operation is the ENVIRONMENT's, not the node's: [OAccept p] re-scripts the answers the driver will give (the harness' `A`).
   It leaves the ring alone and replaces the answer stream.  The step statement therefore excludes exactly this operation
   ([is_accept]) and describes it separately ([node_step_accept_stmt]); the run statements interleave the queue operations with the
   environment's re-scripting ([eop], [e_run], [el_run]) and say that the scripts are those of the history, in order
   ([scripts_of] = [accepts_of]).  Histories without [OAccept] are plain [q_run]s ([node_run_qtrace_noaccept_stmt]).

   Every SendFrame call the node makes has a length argument <= 8 ([op_len_ok] of QueueProofs; the premise of [no_loss_no_dup]), so
   this is part of the trace relation. *)
From Coq Require Import ZArith List Bool.
From N2kV Require Import Base.ListAux Model.CanId Model.Sched Model.PgnClass Model.NodeDefs Model.NodeRxDefs Model.GroupFnDefs Model.ApiDefs
  Gen.GenTables Gen.GenConsts Spec.SendSpec Proofs.QueueProofs.
Import ListNotations.
Local Open Scope Z_scope.

(* ================= the driver calls among the events ================= *)
Definition is_txev (e:event) : bool := match e with EvTx _ _ _ _ => true | _ => false end.
Definition tx_events (ev:list event) : list event := filter is_txev ev.

(* ================= a run of queue operations ================= *)
(* from ring q and answer stream d, some list of SendFrames / SendFrame calls (each SendFrame with a length <= 8) leads to q', d' and
   makes exactly the driver calls tx, in this order *)
Definition qtrace (q:sring) (d:drv) (q':sring) (d':drv) (tx:list event) : Prop :=
  exists qops outs, q_run q d qops = (q', d', outs) /\ tx = concat (map fst outs) /\ Forall op_len_ok qops.

(* the same with the environment's re-scripting of the driver in between *)
Inductive eop : Type :=
| EQ (o:qop)                   (* the node: SendFrames / SendFrame *)
| EScript (p:list bool).       (* the environment: the driver's next answers *)
Definition e_step (q:sring) (d:drv) (o:eop) : sring * drv * list event * bool :=
  match o with EQ o' => q_step q d o' | EScript p => (q, p, [], true) end.
Definition el_step (cap:Z) (p:list frame) (d:drv) (o:eop) : list frame * drv * list event * bool :=
  match o with EQ o' => l_step cap p d o' | EScript s => (p, s, [], true) end.
Fixpoint e_run (q:sring) (d:drv) (ops:list eop) : sring * drv * list (list event * bool) :=
  match ops with
  | [] => (q, d, [])
  | o :: r => let '(q1, d1, ev, ok) := e_step q d o in
              let '(q2, d2, outs) := e_run q1 d1 r in (q2, d2, (ev, ok) :: outs)
  end.
Fixpoint el_run (cap:Z) (p:list frame) (d:drv) (ops:list eop) : list frame * drv * list (list event * bool) :=
  match ops with
  | [] => (p, d, [])
  | o :: r => let '(p1, d1, ev, ok) := el_step cap p d o in
              let '(p2, d2, outs) := el_run cap p1 d1 r in (p2, d2, (ev, ok) :: outs)
  end.
Definition eop_len_ok (o:eop) : Prop := match o with EQ o' => op_len_ok o' | EScript _ => True end.
Definition scripts_of (eops:list eop) : list (list bool) := flat_map (fun o => match o with EScript p => [p] | EQ _ => [] end) eops.
Definition etrace (q:sring) (d:drv) (q':sring) (d':drv) (scripts:list (list bool)) (tx:list event) : Prop :=
  exists eops outs, e_run q d eops = (q', d', outs) /\ tx = concat (map fst outs) /\ Forall eop_len_ok eops /\ scripts_of eops = scripts.

(* the frames whose SendFrame returned true, as the driver should see them (sent_ok of QueueProofs, skipping the environment) *)
Fixpoint e_sent_ok (ops:list eop) (outs:list (list event * bool)) : list event :=
  match ops, outs with
  | EQ (QSend id len data _) :: r, (_, true) :: r' => EvTx id len (firstn (Z.to_nat len) data) true :: e_sent_ok r r'
  | _ :: r, _ :: r' => e_sent_ok r r'
  | _, _ => []
  end.

(* ================= the node ================= *)
Definition is_accept (o:xop) : bool := match o with XBase (RBase (OAccept _)) => true | _ => false end.
Definition accepts_of (ops:list xop) : list (list bool) :=
  flat_map (fun o => match o with XBase (RBase (OAccept p)) => [p] | _ => [] end) ops.

(* hypothesis on the group function reaction: whatever HandleGroupFunction does, seen from the driver it is a run of queue operations *)
Definition gf_qtrace (gf : rnode -> slot -> rnode * list event) : Prop :=
  forall r s r' ev, gf r s = (r', ev) ->
    qtrace (n_q (rn r)) (n_drv (rn r)) (n_q (rn r')) (n_drv (rn r')) (tx_events ev).
(* the instances the drivers use satisfy it *)
Definition gf_instances_qtrace_stmt : Prop := gf_qtrace gf_none /\ gf_qtrace gf_lib.

(* 1. one step of the node, any operation but the environment's re-scripting, from any state *)
Definition node_step_qtrace_stmt : Prop :=
  forall gf, gf_qtrace gf ->
  forall r o r' ev, is_accept o = false -> xstep gf r o = (r', ev) ->
    qtrace (n_q (rn r)) (n_drv (rn r)) (n_q (rn r')) (n_drv (rn r')) (tx_events ev).
(* 1b. the excluded operation: the ring is left alone, the answer stream is replaced, no event *)
Definition node_step_accept_stmt : Prop :=
  forall gf r p r' ev, xstep gf r (XBase (RBase (OAccept p))) = (r', ev) ->
    n_q (rn r') = n_q (rn r) /\ n_drv (rn r') = p /\ ev = [].
(* 1c. it cannot simply be included: re-scripting is not something a run of queue operations can do *)
Definition node_step_accept_refuted_stmt : Prop :=
  exists r p r' ev, xstep gf_none r (XBase (RBase (OAccept p))) = (r', ev) /\
    ~ qtrace (n_q (rn r)) (n_drv (rn r)) (n_q (rn r')) (n_drv (rn r')) (tx_events ev).

(* 2. whole histories: the driver calls of the history, in order, are those of one run of queue operations interleaved with the
      history's re-scriptings *)
Definition node_run_qtrace_stmt : Prop :=
  forall gf, gf_qtrace gf ->
  forall r ops r' evs, xrun gf r ops = (r', evs) ->
    etrace (n_q (rn r)) (n_drv (rn r)) (n_q (rn r')) (n_drv (rn r')) (accepts_of ops) (tx_events (concat evs)).
Definition node_run_qtrace_noaccept_stmt : Prop :=
  forall gf, gf_qtrace gf ->
  forall r ops r' evs, Forall (fun o => is_accept o = false) ops -> xrun gf r ops = (r', evs) ->
    qtrace (n_q (rn r)) (n_drv (rn r)) (n_q (rn r')) (n_drv (rn r')) (tx_events (concat evs)).

(* 3. through the refinement of QueueProofs: from a well-formed ring, the driver calls of the whole history are those of the LIST FIFO
      of capacity q_max - 1 started with the frames the ring holds, under the same operations and the same driver answers; the ring
      ends well formed, of the same size, holding exactly the FIFO's pending list.  So frames leave in the order produced, each once,
      none lost, whatever the accept/refuse pattern and whatever the node does in between. *)
Definition node_run_fifo_stmt : Prop :=
  forall gf, gf_qtrace gf ->
  forall r ops r' evs, ring_wf (n_q (rn r)) -> xrun gf r ops = (r', evs) ->
    ring_wf (n_q (rn r')) /\ q_max (n_q (rn r')) = q_max (n_q (rn r)) /\
    exists eops outs,
      el_run (q_max (n_q (rn r)) - 1) (ring_contents (n_q (rn r))) (n_drv (rn r)) eops = (ring_contents (n_q (rn r')), n_drv (rn r'), outs) /\
      tx_events (concat evs) = concat (map fst outs) /\ Forall eop_len_ok eops /\ scripts_of eops = accepts_of ops.

(* 4. no loss, no duplication, no overtaking, for the node: the driver calls of the history that were accepted, followed by what the
      ring still holds, are the frames the ring held at the start followed by the frames of the SendFrame calls that returned true,
      in order *)
Definition node_no_loss_no_dup_stmt : Prop :=
  forall gf, gf_qtrace gf ->
  forall r ops r' evs, ring_wf (n_q (rn r)) -> xrun gf r ops = (r', evs) ->
    exists eops outs,
      e_run (n_q (rn r)) (n_drv (rn r)) eops = (n_q (rn r'), n_drv (rn r'), outs) /\
      tx_events (concat evs) = concat (map fst outs) /\ scripts_of eops = accepts_of ops /\
      filter is_acc (tx_events (concat evs)) ++ map ev_of_frame (ring_contents (n_q (rn r'))) =
      map ev_of_frame (ring_contents (n_q (rn r))) ++ e_sent_ok eops outs.

(* 5. head-of-line retry, a consequence on the event sequence alone (no existential): from a well-formed ring, in the driver calls
      of a whole history a refused call is followed - whatever the node does in between - by a call for the SAME frame (identifier,
      length, data): nothing overtakes a refused frame. *)
Definition same_frame (e1 e2:event) : Prop :=
  match e1, e2 with EvTx id1 l1 d1 _, EvTx id2 l2 d2 _ => id1 = id2 /\ l1 = l2 /\ d1 = d2 | _, _ => False end.
Fixpoint retry_ok (tx:list event) : Prop :=
  match tx with
  | EvTx id len data false :: ((e2 :: _) as rest) => same_frame (EvTx id len data false) e2 /\ retry_ok rest
  | _ :: rest => retry_ok rest
  | [] => True
  end.
Definition node_retry_stmt : Prop :=
  forall gf, gf_qtrace gf ->
  forall r ops r' evs, ring_wf (n_q (rn r)) -> xrun gf r ops = (r', evs) ->
    retry_ok (tx_events (concat evs)).
