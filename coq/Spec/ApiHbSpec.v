(* C12 for the public heartbeat calls of the application (Model/ApiDefs.v):
     SendHeartbeat(bool force)  = api_step r (ASendHeartbeatAll force), device loop send_heartbeat_api force k r i,
                                  loop body send_heartbeat_api_dev force r i
     SendHeartbeat(int iDev)    = api_step r (ASendHeartbeatDev iDev)
   The statements use the notions of Spec/HbSpec.v (grid, hb_expected, hb_pre / hb_now, devx_with_hb) and speak about EVERY state of the
   node model, in both scheduler builds.  What they say:
     1. a node that is not an active bus device (ListenOnly, SendOnly, ListenAndSend) sends no heartbeat through either call;
     2. a device whose address claim is pending sends none, forced or not;
     3. on an open node the unforced call IS the heartbeat step of ParseMessages (send_heartbeat_dev / send_heartbeat), so the schedule
        and sequence theorems of HbSpec (hb_schedule_stmt, hb_sequence_stmt) are theorems about it;
     4. on an open node the forced call of a device outside its claim window hands exactly one message to SendMsg: the heartbeat of this
        device with its configured period and sequence byte 0xff; the sequence counter is not touched; the schedule is recomputed from
        the 64-bit clock (UpdateNextTime) - least grid point strictly after now -, period and offset are kept; no other device changes;
     5. SendHeartbeat(iDev) on an open active node hands exactly one message to SendMsg: the heartbeat with the device's period and
        sequence byte 0xff, and changes no device's schedule or sequence counter (it does not look at the claim state or the schedule);
     6. the forced calls and SendHeartbeat(iDev) never write a sequence counter - in ANY state, open or not, for any index -: they are
        among the "anything may happen between two calls" functions of hb_sequence_stmt (keeps_seq), and they keep an open node open;
    6b. the run-time configuration setters ExtendTransmitMessages / ExtendReceiveMessages / SetHandleOnlyKnownMessages /
        SetProductInformation send nothing, change no device's heartbeat schedule or sequence counter and keep an open node open - in
        every state, for every index: they, too, may be interleaved freely in 7;
     7. hence the sequence bytes of the heartbeats sent by SendHeartbeat(false) / ParseMessages count 0, 1, ..., 252, 0, ... whatever
        forced heartbeats, SendHeartbeat(iDev) calls and other counter-preserving activity is interleaved (hb_sequence_stmt for the API).
   Nothing is excluded.  Statements 1, 2, 6 hold in every state; 3 - 5 and 7 describe the open node (n_open = 3; on a node that is not
   open yet SendMsg goes through Open() first - ApiDefs.open_first -, which is the subject of hb_open_resync_stmt).  The other hypotheses are the ones that make a term meaningful: the device index lies in the device table
   (0 <= i < length (rx_dev r)) where a statement reads back the device's state, and "nothing wraps" (HbSpec.TB) for the grid corollary. *)
From Coq Require Import ZArith List Bool.
From N2kV Require Import Base.ListAux Model.CanId Model.Sched Model.PgnClass Model.NodeDefs Model.NodeRxDefs Model.ApiDefs Gen.GenTables Gen.GenConsts
  Spec.HbSpec.
Import ListNotations.
Local Open Scope Z_scope.

(* the state after IsAddressClaimStarted(i) (which may retire an expired claim timer); HbSpec.hb_pre is this state after the 32-bit
   build's N2kMillis64 has recorded the clock value, HbSpec.hb_now the 64-bit clock value read there *)
Definition hb_claimed (r:rnode) (i:Z) : rnode := with_rn (chk_dev r i) (fst (claim_started (rn r) i)).

(* ---------- 1. nodes that are not active bus devices ---------- *)
Definition api_hb_inactive_silent_stmt : Prop :=
  (forall n, n_mode n = 0 \/ n_mode n = 3 \/ n_mode n = 4 -> is_active_node n = false) /\
  (forall r, is_active_node (rn r) = false ->
     (forall f, api_step r (ASendHeartbeatAll f) = (r, [])) /\
     (forall i, api_step r (ASendHeartbeatDev i) = (r, []))).

(* ---------- 2. a device whose address claim is pending ---------- *)
(* nothing is sent and nothing changes (chk_dev: the model's record of Devices[i] having been indexed) - the API counterpart of the second
   clause of hb_inactive_silent_stmt, for both values of force and whether the node is open or not *)
Definition api_hb_claiming_silent_stmt : Prop :=
  forall force r i, snd (claim_started (rn r) i) = true -> send_heartbeat_api_dev force r i = (chk_dev r i, []).

(* ---------- 3. SendHeartbeat(false) is the heartbeat step of ParseMessages ---------- *)
Definition api_hb_unforced_is_poll_stmt : Prop :=
  (forall r i, n_open (rn r) = 3 -> send_heartbeat_api_dev false r i = send_heartbeat_dev r i) /\
  (forall k r i, n_open (rn r) = 3 -> send_heartbeat_api false k r i = send_heartbeat k r i) /\
  (* the call itself = the last step of NodeRxDefs.poll *)
  (forall r, n_open (rn r) = 3 ->
     api_step r (ASendHeartbeatAll false) = if is_active_node (rn r) then send_heartbeat (length (n_devs (rn r))) r 0 else (r, [])).

(* ---------- 4. SendHeartbeat(true), one device ---------- *)
Definition api_hb_forced_stmt : Prop :=
  forall r i, n_open (rn r) = 3 -> 0 <= i < Z.of_nat (length (rx_dev r)) -> snd (claim_started (rn r) i) = false ->
    let x := get_devx r i in
    let h := x_hb x in
    let t := hb_now r i in
    let h' := ss_update_next t (r_sync r) h in
    (* UpdateNextTime of a scheduler with period 0 returns before it reads the clock: the 32-bit build's roll-over bookkeeping is
       not advanced then (in the 64-bit build hb_pre r i = hb_claimed r i) *)
    let r0 := if ss_period h =? 0 then hb_claimed r i else hb_pre r i in
    let r1 := with_devx r0 i (devx_with_hb x h' (x_hb_seq x)) in
    let m := heartbeat_msg (dev_src r i) (ss_period h) 255 in
    let '(r2, ev, _) := rsend r1 m i in
    (* (a) exactly this message goes through SendMsg; the events of the call are SendMsg's *)
    send_heartbeat_api_dev true r i = (r2, ev) /\
    (0 <= ss_period h -> m = hb_expected (dev_src r i) (ss_period h) 255) /\
    (* (b) (c) the device afterwards: new schedule, everything else - the sequence counter in particular - as before *)
    get_devx r2 i = devx_with_hb x h' (x_hb_seq x) /\
    x_hb_seq (get_devx r2 i) = x_hb_seq x /\
    x_hb (get_devx r2 i) = h' /\
    (* (d) *)
    ss_period h' = ss_period h /\ ss_offset h' = ss_offset h /\
    (* the other devices *)
    (forall j, 0 <= j -> j <> i -> get_devx r2 j = get_devx r j) /\ length (rx_dev r2) = length (rx_dev r) /\
    n_open (rn r2) = 3.

(* (c) spelled out with the grid of HbSpec: whatever the old next time was - also when the heartbeat had been switched off with
   interval 0 (ss_next = ss_disabled, period and offset kept), which a forced heartbeat therefore switches on again *)
Definition api_hb_forced_grid_stmt : Prop :=
  forall r i, n_open (rn r) = 3 -> 0 <= i < Z.of_nat (length (rx_dev r)) -> snd (claim_started (rn r) i) = false ->
    let h := x_hb (get_devx r i) in
    let t := hb_now r i in
    let h2 := x_hb (get_devx (fst (send_heartbeat_api_dev true r i)) i) in
    0 <= ss_offset h < TB -> 0 <= r_sync r < TB -> 0 <= t < TB ->
    (0 < ss_period h < TB ->
       ss_period h2 = ss_period h /\ ss_offset h2 = ss_offset h /\
       t < ss_next h2 /\ on_grid (r_sync r) (ss_offset h) (ss_period h) (ss_next h2) /\
       (forall g, on_grid (r_sync r) (ss_offset h) (ss_period h) g -> t < g -> ss_next h2 <= g) /\
       (ss_offset h + r_sync r <= t -> ss_next h2 <= t + ss_period h) /\
       ss_next h2 <> ss_disabled) /\
    (ss_period h = 0 -> ss_next h2 = ss_disabled /\ ss_period h2 = 0).

(* the payload of the forced heartbeat for the periods SetHeartbeatIntervalAndOffset can store: interval in units of 10 ms, 0xff *)
Definition api_hb_forced_payload_stmt : Prop :=
  forall src p, 1000 <= p <= 655320 ->
    exists lo hi, m_data (heartbeat_msg src p 255) = [lo; hi; 255; 255; 255; 255; 255; 255] /\ 0 <= lo < 256 /\ 0 <= hi < 256 /\ lo + 256 * hi = p / 10.

(* ---------- 5. SendHeartbeat(iDev) ---------- *)
Definition api_hb_dev_stmt : Prop :=
  forall r i, n_open (rn r) = 3 -> is_active_node (rn r) = true -> valid_dev r i = true ->
    let p := ss_period (x_hb (get_devx r i)) in
    let m := heartbeat_msg (dev_src r i) p 255 in
    let '(r2, ev, _) := rsend r m i in
    api_step r (ASendHeartbeatDev i) = (r2, ev) /\
    (0 <= p -> m = hb_expected (dev_src r i) p 255) /\
    rx_dev r2 = rx_dev r /\
    (forall j, x_hb (get_devx r2 j) = x_hb (get_devx r j) /\ x_hb_seq (get_devx r2 j) = x_hb_seq (get_devx r j)) /\
    n_open (rn r2) = 3.

(* ---------- 6. the sequence of the scheduled heartbeats is not disturbed ---------- *)
(* every state, open or not (a call on a node that is not open goes through Open(), which rewrites the schedules but not the counters),
   every index (an index outside the table writes nothing) *)
Definition keeps_open (f:rnode -> rnode) : Prop := forall r, n_open (rn r) = 3 -> n_open (rn (f r)) = 3.
Definition api_hb_keeps_seq_stmt : Prop :=
  forall i,
    keeps_seq i (fun r => fst (api_step r (ASendHeartbeatAll true))) /\
    (forall j, keeps_seq i (fun r => fst (api_step r (ASendHeartbeatDev j)))) /\
    (forall j, keeps_seq i (fun r => fst (send_heartbeat_api_dev true r j))) /\
    (* and the open state is kept, so that statements 3 - 5 apply again after these calls *)
    keeps_open (fun r => fst (api_step r (ASendHeartbeatAll true))) /\
    (forall j, keeps_open (fun r => fst (api_step r (ASendHeartbeatDev j)))) /\
    (forall j, keeps_open (fun r => fst (send_heartbeat_api_dev true r j))).

(* ---------- 6b. the run-time configuration setters do not touch the heartbeat ---------- *)
Definition is_cfg_setter (a:api) : bool :=
  match a with ASetTxList _ _ | ASetRxList _ _ | ASetOnlyKnown _ | ASetProductInformation _ _ _ _ _ _ _ _ => true | _ => false end.
Definition api_hb_setters_keep_stmt : Prop :=
  forall a, is_cfg_setter a = true ->
    (forall r, snd (api_step r a) = []) /\
    (forall r j, x_hb (get_devx (fst (api_step r a)) j) = x_hb (get_devx r j)) /\
    (forall i, keeps_seq i (fun r => fst (api_step r a))) /\
    keeps_open (fun r => fst (api_step r a)).

(* ---------- 7. the sequence counter over any pattern of calls ---------- *)
(* HbSpec.hb_calls with the public unforced call in the place of the loop body of ParseMessages: before each call anything may happen
   that keeps the node open and does not write this device's counter (statement 6: in particular forced heartbeats) *)
Fixpoint api_hb_calls (i:Z) (between:list (rnode -> rnode)) (r:rnode) : rnode * list Z :=
  match between with
  | [] => (r, [])
  | f :: rest =>
    let r1 := f r in
    let carried := if hb_due r1 i then [x_hb_seq (get_devx r1 i)] else [] in
    let '(r2, l) := api_hb_calls i rest (fst (send_heartbeat_api_dev false r1 i)) in (r2, carried ++ l)
  end.
Definition api_hb_sequence_stmt : Prop :=
  forall i between r,
    Forall (keeps_seq i) between -> Forall keeps_open between -> n_open (rn r) = 3 -> 0 <= i < Z.of_nat (length (rx_dev r)) ->
    let v0 := x_hb_seq (get_devx r i) in
    0 <= v0 <= 252 ->
    let '(r', carried) := api_hb_calls i between r in
    carried = map (fun k => (v0 + Z.of_nat k) mod 253) (seq 0 (length carried)) /\
    x_hb_seq (get_devx r' i) = (v0 + Z.of_nat (length carried)) mod 253 /\
    0 <= x_hb_seq (get_devx r' i) <= 252 /\ Forall (fun v => 0 <= v <= 252) carried.
