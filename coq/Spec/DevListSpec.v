(* Independent specification and the fixed theorem statements for C18 (the device list mirrors the address claims seen on the bus)
   and for the device-list half of C07 (no history makes the list use freed memory or leave its objects).
   The statements are Definitions of type Prop; Proofs/DevListProofs.v proves them, Props/Properties_C18.v re-exports them.

   The abstract mirror is a list of abstract devices, one per NAME whose latest claim has not been displaced, computed from the
   message history alone (no clock, no request traffic):
     - claim (n, a) with n already the holder of a: nothing changes (a repeated claim);
     - any other claim (n, a): n becomes the holder of a with nothing known about it yet; the previous holder of a and the previous
       record of n disappear ("latest claim, displacing the previous holder of that source");
     - product information from a: recorded if it is the first one since the claim that made the holder the holder;
     - configuration information and PGN lists from a: the latest ones are recorded.
   A history is a list of events (clock value, SendMsg() succeeds, message); the mirror ignores the first two components. *)
From Coq Require Import ZArith List Bool.
From N2kV Require Import Base.Res Base.ListAux Model.TextDefs Model.DevListDefs.
Import ListNotations ResNotations.
Local Open Scope Z_scope.

(* ---------- reading the messages, stated on the payload bytes ---------- *)
Definition byte (d:list Z) (i:nat) : Z := nth i d 0.
(* NAME of an address claim: 8 bytes little endian; "not available" when the payload is shorter *)
Definition s_name (d:list Z) : Z :=
  if (8 <=? length d)%nat then
    byte d 0 + 256 * (byte d 1 + 256 * (byte d 2 + 256 * (byte d 3 + 256 * (byte d 4 + 256 * (byte d 5 + 256 * (byte d 6 + 256 * byte d 7))))))
  else 18446744073709551615.
(* text of a fixed field: up to the first 0x00 / 0xFF *)
Fixpoint s_text (l:list Z) : list Z :=
  match l with [] => [] | b :: r => if (b =? 0) || (b =? 255) then [] else b :: s_text r end.
Definition sub (d:list Z) (off n:nat) : list Z := firstn n (skipn off d).
(* product information: 134 bytes = version, code, four 32 byte strings, certification level, load equivalency *)
Definition s_prod (d:list Z) : option prodinfo :=
  if (134 <=? length d)%nat then
    Some {| p_ver := byte d 0 + 256 * byte d 1; p_code := byte d 2 + 256 * byte d 3;
            p_mid := s_text (sub d 4 32); p_sw := s_text (sub d 36 32); p_mver := s_text (sub d 68 32); p_ser := s_text (sub d 100 32);
            p_cert := byte d 132; p_load := byte d 133 |}
  else None.
(* as reported: "not available" numbers are replaced by the defaults of the library *)
Definition s_reported (p:prodinfo) : prodinfo :=
  {| p_ver := if p_ver p =? 65535 then 2101 else p_ver p; p_code := p_code p; p_mid := p_mid p; p_sw := p_sw p; p_mver := p_mver p;
     p_ser := p_ser p; p_cert := if p_cert p =? 255 then 0 else p_cert p; p_load := if p_load p =? 255 then 1 else p_load p |}.
(* PGN list: kind byte (0 transmit, 1 receive), then 3 byte PGNs; what a zero terminated array can report: up to the first PGN 0 *)
Fixpoint s_pgns (d:list Z) (n:nat) {struct n} : list Z :=
  match n with
  | O => []
  | S k => match d with
           | a :: b :: c :: r => let p := a + 256 * b + 65536 * c in if p =? 0 then [] else p :: s_pgns r k
           | _ => []
           end
  end.
Definition s_list (d:list Z) : option (Z * list Z) :=
  match d with
  | k :: r => if (k =? 0) || (k =? 1) then Some (k, s_pgns r (length r / 3)) else None
  | [] => None
  end.
(* configuration information made of three ASCII (type 1) variable strings lying completely inside the payload, in the order
   description 1, description 2, manufacturer information; result (manufacturer, description 1, description 2), each the text up to
   the first 0x00 / 0xFF.  (UCS-2 strings are outside this statement; the correspondence covers them.) *)
Definition s_var (d:list Z) : option (list Z * list Z) :=       (* one string: (text, rest of the payload) *)
  match d with
  | l :: t :: r => if (3 <=? l) && (l <? 255) && (t =? 1) && (l - 2 <=? Z.of_nat (length r))
                   then Some (s_text (firstn (Z.to_nat (l - 2)) r), skipn (Z.to_nat (l - 2)) r)
                   else if (l =? 2) && ((t =? 0) || (t =? 1)) then Some ([], r) else None
  | _ => None
  end.
Definition s_conf (d:list Z) : option (list Z * list Z * list Z) :=
  match s_var d with
  | Some (d1, r1) => match s_var r1 with
                     | Some (d2, r2) => match s_var r2 with Some (man, _) => Some (man, d1, d2) | None => None end
                     | None => None
                     end
  | None => None
  end.

(* ---------- the abstract mirror ---------- *)
Record adev := { a_name : Z; a_src : Z; a_pi : option prodinfo; a_ci : option (list Z * list Z * list Z);
                 a_tx : option (list Z); a_rx : option (list Z) }.
Definition mirror := list adev.
Definition fresh (n a:Z) : adev := {| a_name := n; a_src := a; a_pi := None; a_ci := None; a_tx := None; a_rx := None |}.
Definition holder (M:mirror) (a:Z) : option adev := find (fun d => a_src d =? a) M.
Definition s_claim (M:mirror) (n a:Z) : mirror :=
  match holder M a with
  | Some d => if a_name d =? n then M
              else fresh n a :: filter (fun x => negb (a_src x =? a) && negb (a_name x =? n)) M
  | None => fresh n a :: filter (fun x => negb (a_src x =? a) && negb (a_name x =? n)) M
  end.
Definition at_src (a:Z) (f:adev -> adev) (M:mirror) : mirror := map (fun d => if a_src d =? a then f d else d) M.
Definition set_pi (p:prodinfo) (d:adev) : adev :=
  match a_pi d with
  | Some _ => d
  | None => {| a_name := a_name d; a_src := a_src d; a_pi := Some p; a_ci := a_ci d; a_tx := a_tx d; a_rx := a_rx d |}
  end.
Definition set_ci (c:option (list Z * list Z * list Z)) (d:adev) : adev :=
  {| a_name := a_name d; a_src := a_src d; a_pi := a_pi d; a_ci := c; a_tx := a_tx d; a_rx := a_rx d |}.
Definition set_list (k:Z) (l:list Z) (d:adev) : adev :=
  if k =? 0 then {| a_name := a_name d; a_src := a_src d; a_pi := a_pi d; a_ci := a_ci d; a_tx := Some l; a_rx := a_rx d |}
  else {| a_name := a_name d; a_src := a_src d; a_pi := a_pi d; a_ci := a_ci d; a_tx := a_tx d; a_rx := Some l |}.

Definition s_step (M:mirror) (m:bmsg) : mirror :=
  let a := b_src m in
  let d := pl m in
  if negb ((0 <=? a) && (a <? 254)) then M
  else if b_pgn m =? 60928 then s_claim M (s_name d) a
  else if b_pgn m =? 126996 then match s_prod d with Some p => at_src a (set_pi p) M | None => M end
  else if b_pgn m =? 126998 then at_src a (set_ci (s_conf d)) M     (* a malformed one: nothing is required any more (None) *)
  else if b_pgn m =? 126464 then match s_list d with Some (k, l) => at_src a (set_list k l) M | None => M end
  else M.
Fixpoint s_run (h:list event) (M:mirror) : mirror :=
  match h with [] => M | (_, _, m) :: r => s_run r (s_step M m) end.

(* ---------- what the application sees ---------- *)
(* FindDeviceBySource(s) as the entry it points to *)
Definition entry_at (st:state) (s:Z) : res (option entry) :=
  o <- find_by_source st s ;;
  match o with None => Ok None | Some oid => e <- deref st oid ;; Ok (Some e) end.

(* ---------- the statements ---------- *)
(* C07 half: no history makes the model return OOB (use of a freed entry, double delete, Sources[] index outside 0..253, write outside
   ConfI / the PGN arrays, null pointer) or run out of fuel; and the look-ups are safe in every reachable state *)
Definition heap_safe_stmt : Prop :=
  forall h, exists st, run h init_state = Ok st /\
    (forall s, 0 <= s -> exists r, entry_at st s = Ok r) /\ (forall n, exists r, by_name st n = Ok r).

(* at most one entry per non-zero NAME *)
Definition one_entry_per_name_stmt : Prop :=
  forall h st, run h init_state = Ok st ->
  forall i j ei ej, entry_at st i = Ok (Some ei) -> entry_at st j = Ok (Some ej) ->
    e_name ei = e_name ej -> e_name ei <> 0 -> i = j.

(* for every undisplaced NAME: by NAME -> the address of its latest claim, by that address -> the NAME *)
Definition lookup_agrees_stmt : Prop :=
  forall h st, run h init_state = Ok st ->
  forall d, In d (s_run h []) -> a_name d <> 0 ->
    by_name st (a_name d) = Ok (Some (a_src d)) /\
    exists e, entry_at st (a_src d) = Ok (Some e) /\ e_name e = a_name d /\ e_src e = a_src d.

(* the latest PGN lists received from the source of an undisplaced device are reported (zero terminated arrays) *)
Definition info_lists_stmt : Prop :=
  forall h st, run h init_state = Ok st ->
  forall d, In d (s_run h []) -> a_name d <> 0 ->
    exists e, entry_at st (a_src d) = Ok (Some e) /\
      (forall l, a_tx d = Some l -> pgn_list (e_tx e) = Ok (Some l)) /\
      (forall l, a_rx d = Some l -> pgn_list (e_rx e) = Ok (Some l)).

(* the first product information after the claim is reported - full strength *)
Definition info_prod_stmt : Prop :=
  forall h st, run h init_state = Ok st ->
  forall d, In d (s_run h []) -> a_name d <> 0 ->
    exists e, entry_at st (a_src d) = Ok (Some e) /\ forall p, a_pi d = Some p -> e_pi e = s_reported p.
(* refuted by the known finding "parked-device": see info_prod_refuted in Proofs/DevListProofs.v *)
(* restricted: no claim that the mirror regards as new finds its NAME already shown by the list at that address
   (that is: no displaced device returns to the slot the list kept it in) *)
Fixpoint no_return (h:list event) (st:state) (M:mirror) : Prop :=
  match h with
  | [] => True
  | (now, ok, m) :: r =>
    (b_pgn m = 60928 -> 0 <= b_src m < 254 -> s_name (pl m) <> 0 ->
       (forall d, holder M (b_src m) = Some d -> a_name d <> s_name (pl m)) ->
       forall e, entry_at st (b_src m) = Ok (Some e) -> e_name e <> s_name (pl m)) /\
    match handle_msg now ok m st with
    | Ok (st', _) => no_return r st' (s_step M m)
    | _ => True
    end
  end.
Definition info_prod_partial_stmt : Prop :=
  forall h st, run h init_state = Ok st -> no_return h init_state [] ->
  forall d, In d (s_run h []) -> a_name d <> 0 ->
    exists e, entry_at st (a_src d) = Ok (Some e) /\ forall p, a_pi d = Some p -> e_pi e = s_reported p.

(* the latest configuration information (ASCII strings) is reported; an empty string may be reported as a null pointer *)
Definition opt_text (o:option (list Z)) : list Z := match o with Some t => t | None => [] end.
Definition info_conf_stmt : Prop :=
  forall h st, run h init_state = Ok st ->
  forall d, In d (s_run h []) -> a_name d <> 0 ->
    exists e, entry_at st (a_src d) = Ok (Some e) /\
      forall man d1 d2, a_ci d = Some (man, d1, d2) ->
        exists rm r1 r2, conf_str e (e_man e) = Ok rm /\ conf_str e (e_d1 e) = Ok r1 /\ conf_str e (e_d2 e) = Ok r2 /\
                         opt_text rm = man /\ opt_text r1 = d1 /\ opt_text r2 = d2.

(* the list-updated indication is raised whenever what the list holds for a non-zero NAME changes *)
Definition pub (e:entry) := (e_name e, e_src e, e_pi e, (e_confi e, e_man e, e_d1 e, e_d2 e), (e_tx e, e_rx e)).
Definition obs (st:state) (s:Z) :=
  match entry_at st s with Ok (Some e) => if e_name e =? 0 then None else Some (pub e) | _ => None end.
Definition updated_flag_stmt : Prop :=
  forall h st, run h init_state = Ok st ->
  forall now ok m st' rq, handle_msg now ok m st = Ok (st', rq) ->
    (exists s, obs st' s <> obs st s) -> updated st' = true.

(* C13 for the device list: the ISO requests depend on elapsed time only.  Moving the clock origin of a history by c (32-bit clock,
   so modulo 2^32: any origin, any number of wraps during the history) yields exactly the same requests (destination, requested PGN)
   for every message, i.e. at the same times relative to the origin. *)
Definition shift (c:Z) (h:list event) : list event :=
  map (fun ev => match ev with (now, ok, m) => ((now + c) mod 4294967296, ok, m) end) h.
Definition pacing_shift_stmt : Prop :=
  forall h c, run_log (shift c h) init_state = run_log h init_state.
