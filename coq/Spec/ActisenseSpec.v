(* Independent specification and the fixed theorem statements for C17 (Actisense format).
   The statements are Definitions of type Prop; Proofs/ActisenseProofs.v proves them, Props/Properties_C17.v re-exports them.

   The format, written down without reference to the code:
     frame      = ESC STX  escaped(content)  ESC ETX          every content byte equal to ESC is doubled
     content    = body ++ [checksum]                           checksum makes the byte sum of the content 0 mod 256
     data body  = 0x93, n+11, priority, PGN (3 bytes LE), destination, source, time (4 bytes LE), n, n data bytes
     request body = 0x94, n+6, priority, PGN (3 bytes LE), destination, n, n data bytes   (source and time are supplied by the reader) *)
From Coq Require Import ZArith List Bool.
From N2kV Require Import Base.Res Model.ActisenseDefs.
Import ListNotations.
Local Open Scope Z_scope.

Definition byte (b:Z) : Prop := 0 <= b < 256.
Definition bytes (l:list Z) : Prop := Forall byte l.

(* a message the property quantifies over (tN2kMsg::IsValid excludes PGN 0 and empty payloads) *)
Definition wf_msg (m:msg) : Prop :=
  1 <= pgn m < 2^24 /\ 0 <= pri m <= 7 /\ byte (dst m) /\ byte (src m) /\ 0 <= tim m < 2^32 /\
  bytes (data m) /\ (1 <= length (data m) <= 223)%nat.

Fixpoint le (n:nat) (v:Z) : list Z := match n with O => [] | S k => v mod 256 :: le k (v / 256) end.
Fixpoint esc (l:list Z) : list Z :=
  match l with [] => [] | b :: r => if b =? ESC then ESC :: ESC :: esc r else b :: esc r end.
Definition sum (l:list Z) : Z := fold_right Z.add 0 l.
Definition cksum (b:list Z) : Z := (- sum b) mod 256.

Definition data_body (m:msg) : list Z :=
  let n := Z.of_nat (length (data m)) in
  [147; n + 11; pri m] ++ le 3 (pgn m) ++ [dst m; src m] ++ le 4 (tim m) ++ [n] ++ data m.
Definition req_body (m:msg) : list Z :=
  let n := Z.of_nat (length (data m)) in
  [148; n + 6; pri m] ++ le 3 (pgn m) ++ [dst m; n] ++ data m.

(* a frame with content c *)
Definition framed (c:list Z) : list Z := [ESC; STX] ++ esc c ++ [ESC; ETX].
Definition frame (m:msg) : list Z := framed (data_body m ++ [cksum (data_body m)]).

(* the unescaped content c of a frame is consistent and carries message m (d = the reader's default source, now = its clock) *)
Definition consistent (now d:Z) (c:list Z) (m:msg) : Prop :=
  bytes c /\ sum c mod 256 = 0 /\ (length (data m) <= 223)%nat /\
  0 <= pgn m < 2^24 /\ 0 <= tim m < 2^32 /\
  exists ck, (c = data_body m ++ [ck]) \/ (c = req_body m ++ [ck] /\ src m = d /\ tim m = now mod 2^32).

(* ---------- reader states ---------- *)
(* MsgBuf holds 300 bytes, whatever they are *)
Definition mem_ok (s:rst) : Prop := length (buf s ++ stale s) = 300%nat /\ bytes (buf s ++ stale s).
Definition good_mem (mem:list Z) : Prop := length mem = 300%nat /\ bytes mem.
(* a state the reader can be in: constructed with arbitrary array contents, then fed an arbitrary byte stream *)
Definition reachable (now:Z) (s:rst) : Prop :=
  exists mem d l ms, good_mem mem /\ bytes l /\ run now (init mem d) l = Ok (s, ms).
Definition idle (s:rst) : Prop := coming s = false /\ sot s = false /\ escd s = false /\ buf s = [].
(* inside a frame with an ESC pending: the next byte is the second half of an escape pair, so an ESC there cannot begin a start sequence *)
Definition mid_escape (s:rst) : bool := coming s && escd s.
(* equal in everything except the array contents beyond the write position *)
Definition same_visible (s t:rst) : Prop :=
  coming s = coming t /\ sot s = sot t /\ escd s = escd t /\ buf s = buf t /\ bsum s = bsum t /\ dsrc s = dsrc t.

(* 0. the encoder writes exactly the frame of the message; the 478 byte buffer is never exceeded, whatever the field values *)
Definition encode_frame_stmt : Prop :=
  forall m, pgn m <> 0 -> (1 <= length (data m) <= 223)%nat ->
    encode m = Ok (frame m) /\ Z.of_nat (length (frame m)) <= ENCBUF.

(* 1. what the encoder writes for a well-formed message is decoded to exactly that message, one message per frame, by a fresh
      reader and by a reader that has seen any byte stream before (unless that stream ended inside a frame on an unpaired ESC) *)
Definition decode_encode_stmt : Prop :=
  forall now mem d p s ms m,
    good_mem mem -> bytes p -> run now (init mem d) p = Ok (s, ms) -> mid_escape s = false -> wf_msg m ->
    exists out s', encode m = Ok out /\ run now (init mem d) (p ++ out) = Ok (s', ms ++ [m]) /\ idle s'.

(* 2. no byte stream makes the reader access MsgBuf or Data outside their bounds, from a fresh reader and from every reachable state *)
Definition reader_safe_stmt : Prop :=
  (forall now mem d l, good_mem mem -> bytes l -> exists s ms, run now (init mem d) l = Ok (s, ms)) /\
  (forall now s l, reachable now s -> bytes l -> exists s' ms, run now s l = Ok (s', ms) /\ reachable now s').

(* 3. a message is reported only at the end sequence of a frame whose buffered content is consistent (type, length byte,
      embedded data length, checksum all agree with the number of bytes received) and the message is what that content says *)
Definition reports_only_consistent_stmt : Prop :=
  forall now s x s' m, reachable now s -> byte x -> step now s x = Ok (s', Some m) ->
    x = ETX /\ coming s = true /\ escd s = true /\ idle s' /\ consistent now (dsrc s) (buf s) m.

(* 3b. the buffered content is the unescaped content of the frame: after a start sequence, the escaped form of any content
       (first byte neither ESC nor STX, at most 300 bytes) puts exactly that content into the buffer; at the end sequence the frame is
       reported if and only if it is consistent *)
Definition frame_content_stmt : Prop :=
  forall now s c, reachable now s -> mid_escape s = false -> bytes c -> (1 <= length c <= 300)%nat ->
    hd 0 c <> ESC -> hd 0 c <> STX ->
    (exists s1, run now s ([ESC; STX] ++ esc c) = Ok (s1, []) /\ buf s1 = c /\ coming s1 = true /\ escd s1 = false) /\
    (exists s2 ms, run now s (framed c) = Ok (s2, ms) /\ idle s2 /\
       (forall m, consistent now (dsrc s) c m -> ms = [m]) /\
       ((forall m, ~ consistent now (dsrc s) c m) -> ms = [])).

(* 4. resynchronisation: a start sequence brings every reachable state (not waiting for the second half of an escape pair) to the
      state a fresh reader is in after a start sequence, except for the contents of MsgBuf beyond the write position; and those
      contents never influence what the reader reports or any other part of its state *)
Definition resync_stmt : Prop :=
  (forall now s, reachable now s -> mid_escape s = false ->
     exists s1, run now s [ESC; STX] = Ok (s1, []) /\
       coming s1 = false /\ sot s1 = true /\ escd s1 = false /\ buf s1 = [] /\ bsum s1 = 0 /\ dsrc s1 = dsrc s) /\
  (forall now s t l, same_visible s t -> reachable now s -> reachable now t -> bytes l ->
     exists s' t' ms, run now s l = Ok (s', ms) /\ run now t l = Ok (t', ms) /\ same_visible s' t').

(* 5. ReadOut=false reports the same messages and reaches the same state; the bytes it leaves to the caller are never ESC and
      never bytes received while a frame is being read *)
Definition readout_stmt : Prop :=
  forall now s l, match run_ro now s l, run now s l with
                  | Ok (s1, ms1, sk), Ok (s2, ms2) => s1 = s2 /\ ms1 = ms2 /\ Forall (fun b => b <> ESC) sk
                  | OOB, OOB => True
                  | Fuel, Fuel => True
                  | _, _ => False
                  end.

(* non-vacuity material: a message with escape bytes in header and payload whose checksum is the escape byte *)
Definition nv_msg : msg := {| pri := 6; pgn := 1052688; dst := 16; src := 2; tim := 269484547; data := [16; 3; 16; 16; 2; 147; 0; 13] |}.
