(* Fixed theorem statements for C06 (scaled numeric fields).  Proved in Proofs/NumProofs.v, re-exported by Props/Properties_C06.v *)
From Coq Require Import ZArith List Bool.
From N2kV Require Import Model.SoftFloat Model.NumDefs.
Import ListNotations.
Local Open Scope Z_scope.

Definition width_ok (n:nat) : Prop := (n = 1 \/ n = 2 \/ n = 3 \/ n = 4 \/ n = 8)%nat.
Definition pow8 (n:nat) : Z := 256 ^ Z.of_nat n.

(* exact value of a finite float as a pair (numerator, denominator): value = num / den *)
Definition fin_num (neg:bool) (m e:Z) : Z := signed_m neg m * (if 0 <=? e then 2^e else 1).
Definition fin_den (e:Z) : Z := if 0 <=? e then 1 else 2^(-e).

(* 1. every code of the field's code space (lowest value .. NA) survives memcpy-out / memcpy-in, signed and unsigned, at any
      position of the payload - in particular negative 3-byte values are sign extended *)
Definition bytes_roundtrip_stmt : Prop :=
  forall n s c pre post, (0 < n)%nat -> lo n s <= c <= nac n s ->
    get_code n s (Z.of_nat (length pre)) (pre ++ le_bytes n (c mod pow8 n) ++ post) = c.

(* 2. range test of the 1..4 byte setters: the stored code is the rounded quotient when that lies in [lowest, OR), and exactly the
      out-of-range code otherwise or for NaN / infinity; it is never the NA code and never outside the code space *)
Definition set_code_stmt : Prop :=
  forall n s r, (0 < n)%nat ->
    let c := set_code n s r in
    lo n s <= c <= orc n s /\ c <> nac n s /\
    (forall z, r = RInt z -> lo n s <= z < orc n s -> c = z) /\
    (forall z, r = RInt z -> ~ (lo n s <= z < orc n s) -> c = orc n s) /\
    (r = RNaN -> c = orc n s) /\ (forall b, r = RInf b -> c = orc n s).

(* 3. the 8-byte setter truncates: in range -> the integer part of the quotient (off by less than one step),
      otherwise / NaN / infinity -> the out-of-range code; never NA *)
Definition is_b64 (q:fval) : Prop := forall neg m e, q = FFin neg m e -> 0 <= m <= 2^53.   (* every binary64 value has a mantissa of at most 53 bits *)
Definition set_code8_stmt : Prop :=
  forall q, is_b64 q ->
    let c := set_code8 q in
    lo 8 true <= c <= orc 8 true /\ c <> nac 8 true /\
    (q = FNaN -> c = orc 8 true) /\ (forall b, q = FInf b -> c = orc 8 true) /\
    (forall neg m e, q = FFin neg m e ->
       let num := fin_num neg m e in let den := fin_den e in
       ((- 2^63) * den <= num < 2^63 * den -> Z.abs (c * den - num) < den /\ (0 <= num -> c * den <= num) /\ (num <= 0 -> num <= c * den)) /\
       (~ ((- 2^63) * den <= num < 2^63 * den) -> c = orc 8 true)).

(* 4. "not available" is stored as the NA code and nothing else is *)
Definition add_double_na_stmt : Prop :=
  forall n s pbits, width_ok n -> (n = 8%nat -> s = true) ->      (* 8-byte scaled fields exist only signed (Add8ByteDouble) *)
    add_double n s na_double_bits pbits = le_bytes n (nac n s mod pow8 n) /\
    (forall vbits, vbits <> na_double_bits ->
       exists c, lo n s <= c <= orc n s /\ add_double n s vbits pbits = le_bytes n (c mod pow8 n)).

(* 5. reading never goes beyond the payload length: a field that does not fit returns the default and leaves the index unchanged;
      one that fits advances the index by its width, maps the NA code to the default, and depends only on bytes below DataLen *)
Definition get_double_stmt : Prop :=
  forall n s pbits defbits idx datalen data,
    (fits n idx datalen = false -> get_double n s pbits defbits idx datalen data = (defbits, idx)) /\
    (fits n idx datalen = true ->
       snd (get_double n s pbits defbits idx datalen data) = idx + Z.of_nat n /\
       (get_code n s idx data = nac n s -> fst (get_double n s pbits defbits idx datalen data) = defbits) /\
       (forall data', firstn (Z.to_nat datalen) data' = firstn (Z.to_nat datalen) data ->
          get_double n s pbits defbits idx datalen data' = get_double n s pbits defbits idx datalen data)).

(* 6. NA round trip through set and get, any precision, any default *)
Definition na_roundtrip_stmt : Prop :=
  forall n s pbits pbits' defbits post, width_ok n -> (n = 8%nat -> s = true) ->
    get_double n s pbits' defbits 0 (Z.of_nat n) (add_double n s na_double_bits pbits ++ post) = (defbits, Z.of_nat n).

(* 7. pure arithmetic: rounding the exact quotient a/b half away from zero lands within half a step *)
Definition rnd (a b:Z) : Z := if 0 <=? a then (2*a + b) / (2*b) else - ((2*(-a) + b) / (2*b)).
Definition rnd_nearest_stmt : Prop := forall a b, 0 < b -> 2 * Z.abs (rnd a b * b - a) <= b.

(* 8. the library's round() agrees with exact half-away-from-zero rounding whenever the double is a multiple of 1/2 below 2^52
      (there x + 0.5 is exact); for other doubles the IEEE addition may round, which SoftFloat models but this theorem does not cover *)
Definition own_round_exact_stmt : Prop :=
  forall neg m e, 0 <= m -> (-1) <= e -> m * 2^(e+1) < 2^53 ->
    own_round (FFin neg m e) = RInt (rnd (signed_m neg m * 2^(e+1)) 2).

(* 9. float fields: any non-NaN float other than the NA value reads back bit-identically; NA reads back as the default *)
Definition float_roundtrip_stmt : Prop :=
  forall vbits defbits post, 0 <= vbits < 2^32 ->
    (vbits <> na_float_bits -> is_nan (decode b32 vbits) = false ->
       get_float defbits 0 4 (add_float vbits ++ post) = (vbits, 4)) /\
    get_float defbits 0 4 (add_float na_float_bits ++ post) = (defbits, 4) /\
    (is_nan (decode b32 vbits) = true -> get_float defbits 0 4 (add_float vbits ++ post) = (defbits, 4)).

(* 10. integer fields round trip and obey the same bounds rule *)
Definition int_roundtrip_stmt : Prop :=
  forall n (s:bool) v def post, (0 < n)%nat -> (if s then - (pow8 n / 2) <= v < pow8 n / 2 else 0 <= v < pow8 n) ->
    get_int n s def 0 (Z.of_nat n) (add_int n v ++ post) = (v, Z.of_nat n) /\
    (forall idx datalen data, fits n idx datalen = false -> get_int n s def idx datalen data = (def, idx)).
