(* C10 - ISO transport protocol (ISO 11783-3 / SAE J1939-21 as the property summarises it): independent reference definitions
   and the fixed theorem statements about the node model (Model/NodeDefs.v, Model/NodeRxDefs.v).
   Reference side: packet count, chunking, TP.CM / TP.DT layouts, identifiers, a responder and a reassembler as list machines.
   The statements quantify over ALL payloads of 9..223 bytes (arbitrary bytes), all PGNs the gate accepts, all grants 0..255. *)
From Coq Require Import ZArith List Bool Lia.
From N2kV Require Import Base.ListAux Model.CanId Model.Sched Model.PgnClass Model.NodeDefs Model.NodeRxDefs Gen.GenTables Gen.GenConsts.
Import ListNotations.
Local Open Scope Z_scope.

(* ================= reference definitions ================= *)
Definition npackets (size:Z) : Z := (size + 6) / 7.                       (* ceil(size/7) *)
(* packet k (numbered from 1) carries bytes 7(k-1) .. 7k-1 of the payload; positions beyond its end are 0xFF *)
Definition chunk7 (p:list Z) (k:nat) : list Z := map (fun j => nth (7 * (k - 1) + j) p 255) (seq 0 7).
Definition dt_frame (p:list Z) (k:nat) : list Z := Z.of_nat k :: chunk7 p k.
Definition b0 (v:Z) : Z := v mod 256.
Definition b1 (v:Z) : Z := (v / 256) mod 256.
Definition b2 (v:Z) : Z := (v / 65536) mod 256.
Definition cm_rts (size maxp pgn:Z) : list Z := [16; b0 size; b1 size; npackets size; maxp; b0 pgn; b1 pgn; b2 pgn].
Definition cm_bam (size pgn:Z) : list Z := [32; b0 size; b1 size; npackets size; 255; b0 pgn; b1 pgn; b2 pgn].
Definition cm_cts (granted next pgn:Z) : list Z := [17; granted; next; 255; 255; b0 pgn; b1 pgn; b2 pgn].
Definition cm_ack (size packets pgn:Z) : list Z := [19; b0 size; b1 size; packets; 255; b0 pgn; b1 pgn; b2 pgn].
Definition cm_abort (reason pgn:Z) : list Z := [255; reason; 255; 255; 255; b0 pgn; b1 pgn; b2 pgn].
(* 29-bit identifiers of TP.CM (PGN 60416) and TP.DT (PGN 60160) at priority 6: 0x18EC<dst><src>, 0x18EB<dst><src> *)
Definition tp_cm_id (src dst:Z) : Z := 418119680 + dst * 256 + src.
Definition tp_dt_id (src dst:Z) : Z := 418054144 + dst * 256 + src.
Definition cm_event (src dst:Z) (data:list Z) : event := EvTx (tp_cm_id src dst) 8 data true.
Definition dt_event (src dst:Z) (p:list Z) (k:nat) : event := EvTx (tp_dt_id src dst) 8 (dt_frame p k) true.
(* packets a+1 .. a+c *)
Definition dt_events (src dst:Z) (p:list Z) (a c:nat) : list event := map (dt_event src dst p) (seq (S a) c).

(* the reference responder: it grants [gs] one after the other, each time asking for the packet after those it has received, and
   receives what an originator serving every grant in full sends *)
Fixpoint peer_cts (gs:list Z) (npk received pgn:Z) : list (list Z) :=
  match gs with
  | [] => []
  | g :: rest => cm_cts g (received + 1) pgn :: peer_cts rest npk (received + Z.min g (npk - received)) pgn
  end.
(* the reference reassembler: data bytes of the packets in order, cut at the announced size *)
Definition ref_reassemble (size:Z) (frames:list (list Z)) : list Z := firstn (Z.to_nat size) (concat (map (@tl Z) frames)).
Definition bytes_ok (p:list Z) : Prop := Forall (fun b => 0 <= b < 256) p.

(* 0. the reference is consistent: reassembling the reference packets 1..n gives the payload back *)
Definition chunk_reassemble_stmt : Prop :=
  forall p, ref_reassemble (Z.of_nat (length p)) (map (dt_frame p) (seq 1 (Z.to_nat (npackets (Z.of_nat (length p)))))) = p.

(* ================= the sending device ================= *)
(* a device that can put a frame on the bus right now: node open and active, device index valid, address claimed (no claim pending),
   accepting driver, empty send queue; the application has not declared the two transport PGNs as fast packets *)
Definition tp_ready (n:node) (i:Z) : Prop :=
  n_open n = 3 /\ (n_mode n = 1 \/ n_mode n = 2) /\ 0 <= i < dev_count n /\ n_drv n = [] /\ q_rd (n_q n) = q_wr (n_q n) /\
  0 <= d_src (get_dev n i) <= 251 /\ sched_is_enabled (n_w64 n) (d_claim_timer (get_dev n i)) = false /\
  is_fast_packet_pgn (n_pgn n) 60416 = false /\ is_fast_packet_pgn (n_pgn n) 60160 = false.
(* a message that goes by transport protocol *)
Definition tp_msg (m:msg) : Prop :=
  m_tp m = true /\ 9 <= m_len m <= 223 /\ 0 < m_pgn m < 2^17 /\ 0 <= m_pri m < 8 /\ 0 <= m_dst m < 256.
(* device state: pending message, timer, next sequence, pending flag; everything else of the node as in [n] *)
Definition ntp_state (n:node) (i:Z) (tp:option msg) (timer sq:Z) (pend:bool) : node :=
  upd_dev n i (set_tp (get_dev n i) (n_w64 n) tp timer sq pend).
Definition tp_state (r:rnode) (i:Z) (tp:option msg) (timer sq:Z) (pend:bool) : rnode := with_rn r (ntp_state (rn r) i tp timer sq pend).
Definition stored (n:node) (i:Z) (m:msg) (dst:Z) : msg :=
  {| m_pri := m_pri m; m_pgn := m_pgn m; m_src := d_src (get_dev n i); m_dst := dst; m_data := m_data m; m_tp := true |}.

(* 1. RTS: a transport message for a specific destination on a ready device without a pending transfer: SendMsg returns true, exactly
      one frame reaches the driver - TP.CM RTS from the device's address to the destination announcing size, ceil(size/7) packets, no
      limit per CTS, the PGN -; the message is stored with sequence 0 and a 50 ms timer; until it ends, every further transport
      message on this device is refused: false, nothing sent, nothing changed *)
Definition tp_rts_announce_stmt : Prop :=
  forall n m i, tp_ready n i -> d_tp_msg (get_dev n i) = None -> tp_msg m -> m_pgn m mod 256 = 0 -> m_dst m <> 255 ->
    let n' := ntp_state n i (Some (stored n i m (m_dst m))) (sched_from_now (n_w64 n) (n_now n) 50) 0 true in
    send_msg n m i = (n', [cm_event (d_src (get_dev n i)) (m_dst m) (cm_rts (m_len m) 255 (m_pgn m))], true) /\
    tp_ready n' i /\
    (forall m2, m_tp m2 = true -> 9 <= m_len m2 -> send_msg n' m2 i = (n', [], false)).

(* the pending transfer of device i as the statements below see it *)
Definition tp_pending (r:rnode) (i:Z) (pm:msg) (sq:Z) : Prop :=
  tp_ready (rn r) i /\ d_tp_msg (get_dev (rn r) i) = Some pm /\ d_next_dt_seq (get_dev (rn r) i) = sq /\
  m_src pm = d_src (get_dev (rn r) i) /\ 9 <= m_len pm <= 223 /\ 0 <= m_dst pm < 256 /\ 0 <= sq <= npackets (m_len pm).
(* "the frame is addressed to device i": i is the first device holding the address (FindSourceDeviceIndex) *)
Definition addressed (r:rnode) (a i:Z) : Prop :=
  0 <= i < dev_count (rn r) /\ d_src (get_dev (rn r) i) = a /\ 0 <= a <= 253 /\ forall j, 0 <= j < i -> d_src (get_dev (rn r) j) <> a.
Definition rearmed (r:rnode) (i:Z) (pm:msg) (sq:Z) (ms:Z) : rnode :=
  tp_state r i (Some pm) (sched_from_now (w64 r) (now r) ms) sq (d_has_pending (get_dev (rn r) i)).
Definition ended (r:rnode) (i:Z) : rnode := tp_state r i None (sched_disabled (w64 r)) (d_next_dt_seq (get_dev (rn r) i)) false.

(* 2. CTS: for a CTS from the destination of the pending message (other senders: statement 2g), addressed to the device, with the PGN of the pending message and
      next = NextDTSequence + 1, granting g in 1..255: exactly min(g, remaining) TP.DT frames, numbered consecutively from [next], each
      the reference chunk of the payload, go to the destination; the sequence advances, the 100 ms timer is re-armed.
      g = 0: nothing is sent, the timer is re-armed.  Wrong next packet (g >= 1) or wrong PGN: nothing is sent, the session ends. *)
Definition tp_cts_serves_stmt : Prop :=
  forall r i pm sq from dst g nxt pgn, tp_pending r i pm sq -> m_dst pm <> 255 -> addressed r dst i -> from = m_dst pm ->
    0 <= g < 256 -> 0 <= nxt < 256 -> 0 <= pgn < 2^24 -> 0 <= m_pgn pm < 2^24 ->
    let res := handle_tp r 60416 from dst 8 (cm_cts g nxt pgn) in
    (pgn = m_pgn pm -> 1 <= g -> nxt = sq + 1 ->
       let k := Z.min g (npackets (m_len pm) - sq) in
       res = (true, rearmed r i pm (sq + k) 100, dt_events (m_src pm) (m_dst pm) (m_data pm) (Z.to_nat sq) (Z.to_nat k), nslots r)) /\
    (pgn = m_pgn pm -> g = 0 -> res = (true, rearmed r i pm sq 100, [], nslots r)) /\
    (pgn <> m_pgn pm \/ (1 <= g /\ nxt <> sq + 1) -> res = (true, ended r i, [], nslots r)).

(* feeding a list of TP.CM payloads, all from [from] to [dst], to the node *)
Fixpoint feed_cm (r:rnode) (from dst:Z) (frames:list (list Z)) : rnode * list event :=
  match frames with
  | [] => (r, [])
  | f :: rest => let '(_, r1, ev1, _) := handle_tp r 60416 from dst 8 f in let '(r2, ev2) := feed_cm r1 from dst rest in (r2, ev1 ++ ev2)
  end.
(* 3. run level: against the reference responder with ANY list of grants (each 0..255) that sum up to at least the packet count, the
      data packets sent are exactly the reference packets 1..n of the payload, in order, each once; the transfer is still pending
      (it ends on the acknowledgement) *)
Definition tp_all_packets_once_stmt : Prop :=
  forall gs r i pm from dst, tp_pending r i pm 0 -> m_dst pm <> 255 -> addressed r dst i -> from = m_dst pm -> 0 <= m_pgn pm < 2^24 ->
    Forall (fun g => 0 <= g < 256) gs -> npackets (m_len pm) <= fold_right Z.add 0 gs ->
    let '(r', ev) := feed_cm r from dst (peer_cts gs (npackets (m_len pm)) 0 (m_pgn pm)) in
    ev = dt_events (m_src pm) (m_dst pm) (m_data pm) 0 (Z.to_nat (npackets (m_len pm))) /\
    map (fun e => match e with EvTx _ _ d _ => d | _ => [] end) ev = map (dt_frame (m_data pm)) (seq 1 (Z.to_nat (npackets (m_len pm)))) /\
    tp_pending r' i pm (npackets (m_len pm)).

(* 2g. control frames from a third station: a CTS, EndOfMsgAck or Abort (whatever its other bytes) addressed to the device by a station that
       is not the destination of the pending transfer sends nothing and changes nothing: only the packets the destination clears are sent,
       and only the destination can end the session.  (False of the library before fix b807027; the former witness is an Example in Props.) *)
Definition tp_foreign_ctrl_ignored_stmt : Prop :=
  forall r i pm sq from dst ctrl x1 x2 x3 x4 x5 x6 x7, tp_pending r i pm sq -> m_dst pm <> 255 -> addressed r dst i -> from <> m_dst pm ->
    ctrl = 17 \/ ctrl = 19 \/ ctrl = 255 ->
    handle_tp r 60416 from dst 8 [ctrl; x1; x2; x3; x4; x5; x6; x7] = (true, r, [], nslots r).

(* 4. the session ends - pending message cleared, timer disabled - on EndOfMsgAck or Abort from the destination addressed to the device and, for an addressed
      transfer, at the first SendPendingTPMessage whose timer has expired (no CTS within the timeout); while the timer has not expired
      nothing happens.  The device is then ready for statement 1 again: a later transfer starts. *)
Definition tp_ack_abort_timeout_stmt : Prop :=
  forall r i pm sq, tp_pending r i pm sq -> m_dst pm <> 255 ->
    (forall from dst ctrl b1' b2' b3' b4' pgn, addressed r dst i -> from = m_dst pm -> ctrl = 19 \/ ctrl = 255 ->
       handle_tp r 60416 from dst 8 [ctrl; b1'; b2'; b3'; b4'; b0 pgn; b1 pgn; b2 pgn] = (true, ended r i, [], nslots r)) /\
    (sched_is_time (w64 r) (now r) (d_next_dt_time (get_dev (rn r) i)) = true -> send_pending_tp r i = (ended r i, [])) /\
    (sched_is_time (w64 r) (now r) (d_next_dt_time (get_dev (rn r) i)) = false -> send_pending_tp r i = (r, [])) /\
    tp_ready (rn (ended r i)) i /\ d_tp_msg (get_dev (rn (ended r i)) i) = None.

(* when a timer armed at [t0] for [ms] milliseconds has expired, in both scheduler builds *)
Definition tp_timer_stmt : Prop :=
  forall t0 ms nw, 0 <= t0 -> 0 <= ms <= 1000 -> t0 <= nw ->
    (t0 + ms < M64 - 1 -> nw < M64 -> sched_is_time true nw (sched_from_now true t0 ms) = (t0 + ms <? nw)) /\
    (nw - t0 < 2^31 - 1001 ->
       sched_is_time false nw (sched_from_now false t0 ms) = (if (t0 + ms) mod M32 =? M32 - 1 then t0 + ms + 1 <=? nw else t0 + ms <=? nw)).

(* 5. BAM: a transport message for the global address (or with a PDU2 PGN, whose destination is global) is announced by BAM; then every
      SendPendingTPMessage whose timer has expired sends exactly one data packet - the next reference chunk, to 255 - and re-arms 50 ms;
      a call whose timer has not expired sends nothing; after the last packet the session is ended.  With statement tp_timer: consecutive
      packets are more than 50 ms apart in the 64-bit build and at least 50 ms apart in the 32-bit build. *)
Definition tp_bam_stmt : Prop :=
  (forall n m i, tp_ready n i -> d_tp_msg (get_dev n i) = None -> tp_msg m ->
     (m_dst m = 255 /\ m_pgn m mod 256 = 0) \/ (m_pgn m mod 256 <> 0 /\ 240 <= (m_pgn m / 256) mod 256) ->
     let n' := ntp_state n i (Some (stored n i m 255)) (sched_from_now (n_w64 n) (n_now n) 50) 0 true in
     send_msg n m i = (n', [cm_event (d_src (get_dev n i)) 255 (cm_bam (m_len m) (m_pgn m))], true) /\ tp_ready n' i) /\
  (forall r i pm sq, tp_pending r i pm sq -> m_dst pm = 255 -> sq < npackets (m_len pm) ->
     (sched_is_time (w64 r) (now r) (d_next_dt_time (get_dev (rn r) i)) = false -> send_pending_tp r i = (r, [])) /\
     (sched_is_time (w64 r) (now r) (d_next_dt_time (get_dev (rn r) i)) = true ->
        send_pending_tp r i =
          ((if sq + 1 <? npackets (m_len pm)
            then tp_state r i (Some pm) (sched_from_now (w64 r) (now r) 50) (sq + 1) (d_has_pending (get_dev (rn r) i))
            else tp_state r i None (sched_disabled (w64 r)) (sq + 1) false),
           [dt_event (m_src pm) 255 (m_data pm) (S (Z.to_nat sq))]))).

(* ================= the receiving side ================= *)
Fixpoint first_idx (f:slot -> bool) (l:list slot) : Z := match l with [] => 0 | s :: rest => if f s then 0 else 1 + first_idx f rest end.
(* one connection per pair of stations: an announcement from [src] to [dst] for [pgn] first releases every transport session that is still
   open between them for another PGN (its originator gave up) *)
Definition stale (pgn src dst:Z) (s:slot) : bool := negb (s_free s) && s_tp s && (s_src s =? src) && (s_dst s =? dst) && negb (s_pgn s =? pgn).
Definition release (pgn src dst:Z) (slots:list slot) : list slot := map (fun s => if stale pgn src dst s then free_slot s else s) slots.
(* the slot an announcement uses: the busy slot that already holds the session (pgn, src, dst), else the first free slot; = length when none *)
Definition holds (pgn src dst:Z) (s:slot) : bool := negb (s_free s) && (s_pgn s =? pgn) && (s_src s =? src) && (s_dst s =? dst) && Bool.eqb (s_tp s) true.
Definition slot_for (pgn src dst:Z) (slots:list slot) : Z :=
  let k := first_idx (holds pgn src dst) slots in if k <? Z.of_nat (length slots) then k else first_idx (fun s => s_free s) slots.
Definition grant_of (packets:Z) : Z := Z.max 1 (Z.min packets 5).
Definition session_slot (old:slot) (known sys:bool) (pgn src dst size t tpmax tpreq:Z) : slot :=
  {| s_free := false; s_ready := s_ready old; s_known := known; s_system := sys; s_pri := 7; s_pgn := pgn; s_src := src; s_dst := dst; s_tp := true;
     s_len := size; s_data := []; s_last := 0; s_time := t; s_tpmax := tpmax; s_tpreq := tpreq |}.
Definition flagged_slot (old:slot) (known sys:bool) : slot :=
  {| s_free := s_free old; s_ready := s_ready old; s_known := known; s_system := sys; s_pri := s_pri old; s_pgn := s_pgn old; s_src := s_src old;
     s_dst := s_dst old; s_tp := s_tp old; s_len := s_len old; s_data := s_data old; s_last := s_last old; s_time := s_time old;
     s_tpmax := s_tpmax old; s_tpreq := s_tpreq old |}.

(* 6. RTS addressed to device i (ready to send) from [src], announcing [size] bytes, a packet count byte [packets] and a limit byte [maxp],
      PGN [pgn].  Sessions still open between the two stations for other PGNs are released; then, with a slot for the session at [idx]:
      - size <= 223 and the PGN is known or all messages are handled: one CTS from the device to [src] granting max 1 (min packets 5)
        packets from packet 1, the slot becomes the session (priority 7, PGN, source, destination, TP, announced size, no data, LastFrame 0);
      - otherwise (too long / unknown with only-known): one Abort (reason 1), the slot stays what it was (only its known/system flags change);
      and with no slot and none that has timed out: one Abort (reason 1) *)
Definition tp_rts_answered_stmt : Prop :=
  forall r i src dst size packets maxp pgn, tp_ready (rn r) i -> addressed r dst i -> 0 <= src < 256 ->
    0 <= size < 65536 -> 0 <= packets < 256 -> 0 <= maxp < 256 -> 0 <= pgn < 2^24 ->
    let buf := [16; b0 size; b1 size; packets; maxp; b0 pgn; b1 pgn; b2 pgn] in
    let slots := release pgn src dst (r_slots r) in
    let idx := slot_for pgn src dst slots in
    let '(known, sys, _) := check_known (n_pgn (rn r)) pgn in
    (idx < nslots r ->
       let old := znth slots idx slot0 in
       if (size <=? 223) && (known || negb (c_only_known (r_cfg r)))
       then handle_tp r 60416 src dst 8 buf =
              (true, with_slots r (zset slots idx (session_slot old known sys pgn src dst size (now32 r) packets (grant_of packets))),
               [cm_event dst src (cm_cts (grant_of packets) 1 pgn)], nslots r)
       else handle_tp r 60416 src dst 8 buf =
              (true, with_slots r (zset slots idx (flagged_slot old known sys)), [cm_event dst src (cm_abort 1 pgn)], nslots r)) /\
    (idx = nslots r -> Forall (fun s => has_elapsed (s_time s) 100 (now32 r) = false) slots ->
       handle_tp r 60416 src dst 8 buf = (true, with_slots r slots, [cm_event dst src (cm_abort 1 pgn)], nslots r)).

(* an open receive session in slot [idx]: k packets received so far, [data] = their 7k data bytes *)
Definition rx_session (r:rnode) (idx src dst pgn size:Z) (k:Z) (data:list Z) (tpmax tpreq:Z) : Prop :=
  0 <= idx < nslots r /\ first_idx (fun s => negb (s_free s) && s_tp s && (s_dst s =? dst) && (s_src s =? src)) (r_slots r) = idx /\
  let s := znth (r_slots r) idx slot0 in
  s_free s = false /\ s_ready s = false /\ s_tp s = true /\ s_pri s = 7 /\ s_pgn s = pgn /\ s_src s = src /\ s_dst s = dst /\ s_len s = size /\
  s_data s = data /\ s_last s = k /\ s_tpmax s = tpmax /\ s_tpreq s = tpreq /\
  9 <= size <= 223 /\ 0 <= k < npackets size /\ Z.of_nat (length data) = 7 * k /\ 0 <= tpreq < 256 /\ 0 <= tpmax < 256.
(* who answers: an RTS session to device i of a ready node, or nobody (BAM: destination 255, TPRequireCTS 0) *)
Definition rx_answer (r:rnode) (dst tpreq:Z) (i:Z) : Prop :=
  (1 <= tpreq /\ tp_ready (rn r) i /\ addressed r dst i) \/ (dst = 255 /\ tpreq = 0 /\ i = -1).
Definition received_slot (s:slot) (data:list Z) (k t:Z) (ready:bool) : slot :=
  {| s_free := false; s_ready := ready; s_known := s_known s; s_system := s_system s; s_pri := s_pri s; s_pgn := s_pgn s; s_src := s_src s; s_dst := s_dst s;
     s_tp := true; s_len := s_len s; s_data := data; s_last := k; s_time := t; s_tpmax := s_tpmax s; s_tpreq := s_tpreq s |}.

(* 7a. one data packet in sequence (k+1 after k) on an open session: its 7 bytes are appended (only what fits into 223);
       - not the last: a CTS (grant from TPMaxPackets, next = k+2) after every TPRequireCTS-th packet of an RTS session, else nothing;
       - the last: EndOfMsgAck (size, packets) for an RTS session, and the slot is ready: handle_tp returns its index *)
Definition tp_dt_step_stmt : Prop :=
  forall r idx src dst pgn size k data tpmax tpreq i chunk, rx_session r idx src dst pgn size k data tpmax tpreq -> rx_answer r dst tpreq i ->
    0 <= src < 256 -> 0 <= pgn < 2^24 -> length chunk = 7%nat ->
    let s := znth (r_slots r) idx slot0 in
    let data' := data ++ firstn (223 - length data)%nat chunk in
    let res := handle_tp r 60160 src dst 8 ((k + 1) :: chunk) in
    (k + 1 < npackets size ->
       res = (true, with_slots r (zset (r_slots r) idx (received_slot s data' (k + 1) (now32 r) false)),
              (if (1 <=? tpreq) && ((k + 1) mod tpreq =? 0) then [cm_event dst src (cm_cts (grant_of tpmax) (k + 2) pgn)] else []), nslots r) /\
       data' = data ++ chunk) /\
    (k + 1 = npackets size ->
       res = (true, with_slots r (zset (r_slots r) idx (received_slot s data' (k + 1) (now32 r) true)),
              (if 1 <=? tpreq then [cm_event dst src (cm_ack size (k + 1) pgn)] else []), idx) /\
       firstn (Z.to_nat size) data' = firstn (Z.to_nat size) (data ++ chunk)).

(* 7b. run level.  [others] are arbitrary things that happen between the packets (other traffic, polls, time): the frame condition is
       that each of them keeps the session's slot, the slot search result and the answering device as they are. *)
Definition keeps_session (f:rnode -> rnode) : Prop :=
  forall r idx src dst pgn size k data tpmax tpreq i, rx_session r idx src dst pgn size k data tpmax tpreq -> rx_answer r dst tpreq i ->
    rx_session (f r) idx src dst pgn size k data tpmax tpreq /\ rx_answer (f r) dst tpreq i.
Fixpoint feed_dt (r:rnode) (src dst:Z) (k:Z) (steps:list ((rnode -> rnode) * list Z)) : rnode * list (list event) * Z :=
  match steps with
  | [] => (r, [], -1)
  | (f, chunk) :: rest =>
    let '(_, r1, ev1, ix) := handle_tp (f r) 60160 src dst 8 (k :: chunk) in
    match rest with [] => (r1, [ev1], ix) | _ => let '(r2, evs, ix2) := feed_dt r1 src dst (k + 1) rest in (r2, ev1 :: evs, ix2) end
  end.
Definition expected_answers (dst src pgn size tpmax tpreq:Z) (n:nat) : list (list event) :=
  map (fun j => let k := Z.of_nat j in
                if k <? npackets size then (if (1 <=? tpreq) && (k mod tpreq =? 0) then [cm_event dst src (cm_cts (grant_of tpmax) (k + 1) pgn)] else [])
                else (if 1 <=? tpreq then [cm_event dst src (cm_ack size k pgn)] else [])) (seq 1 n).
(* after an accepted RTS/BAM for [size] bytes, packets 1..ceil(size/7) in order, with anything session-preserving in between: the answers are
   a CTS after every TPRequireCTS-th packet and the EndOfMsgAck after the last (RTS session; none for BAM); the last packet makes the slot
   ready and its message is (priority 7, embedded PGN, source, destination, TP flag, payload = first [size] bytes of the data) *)
Definition tp_receive_delivers_stmt : Prop :=
  forall steps r idx src dst pgn size tpmax tpreq i, rx_session r idx src dst pgn size 0 [] tpmax tpreq -> rx_answer r dst tpreq i ->
    0 <= src < 256 -> 0 <= pgn < 2^24 -> Z.of_nat (length steps) = npackets size ->
    Forall (fun st => keeps_session (fst st) /\ length (snd st) = 7%nat) steps ->
    let '(r', evs, ix) := feed_dt r src dst 1 steps in
    evs = expected_answers dst src pgn size tpmax tpreq (length steps) /\ ix = idx /\
    slot_msg (znth (r_slots r') idx slot0) =
      {| m_pri := 7; m_pgn := pgn; m_src := src; m_dst := dst; m_data := firstn (Z.to_nat size) (concat (map snd steps)); m_tp := true |} /\
    s_ready (znth (r_slots r') idx slot0) = true.

(* 7c. delivery, exactly once: when ParseMessages reads the last packet of a session whose PGN is not a system PGN, the events are the
       acknowledgement followed by ONE delivery of the message, the slot is free afterwards, and - the session being the only one between
       these two stations - every further TP.DT from that source to that destination changes nothing and delivers nothing *)
Definition only_session (r:rnode) (idx src dst:Z) : Prop :=
  forall j, 0 <= j < nslots r -> j <> idx -> let s := znth (r_slots r) j slot0 in negb (s_free s) && s_tp s && (s_dst s =? dst) && (s_src s =? src) = false.
Definition tp_delivery_once_stmt : Prop :=
  forall (gf:rnode -> slot -> rnode * list event) r idx src dst pgn size k data tpmax tpreq i chunk pri fuel,
    rx_session r idx src dst pgn size k data tpmax tpreq -> rx_answer r dst tpreq i -> only_session r idx src dst ->
    0 <= src < 256 -> 0 <= dst < 256 -> 0 <= pgn < 2^24 -> 0 <= pri < 8 -> length chunk = 7%nat -> k + 1 = npackets size ->
    s_system (znth (r_slots r) idx slot0) = false ->
    r_q r = [{| r_id := to_can_id pri 60160 src dst; r_len := 8; r_buf := (k + 1) :: chunk |}] ->
    let '(r', ev) := rx_loop gf (S fuel) r in
    ev = (if 1 <=? tpreq then [cm_event dst src (cm_ack size (k + 1) pgn)] else []) ++
         [EvDeliver {| m_pri := 7; m_pgn := pgn; m_src := src; m_dst := dst; m_data := firstn (Z.to_nat size) (data ++ chunk); m_tp := true |}] /\
    s_free (znth (r_slots r') idx slot0) = true /\ r_q r' = [] /\
    (forall b, handle_tp r' 60160 src dst 8 b = (true, r', [], nslots r')).

(* 8. a packet that is not LastFrame+1 (lost, repeated, out of order): the slot is freed, an RTS session is aborted (reason 3), nothing is
      ready; and - the session being the only one between the two stations - every later TP.DT from that source to that destination is
      ignored: nothing of that session is ever delivered, complete or corrupted *)
Definition tp_gap_no_delivery_stmt : Prop :=
  forall r idx src dst pgn size k data tpmax tpreq i sq chunk, rx_session r idx src dst pgn size k data tpmax tpreq -> rx_answer r dst tpreq i ->
    only_session r idx src dst -> 0 <= src < 256 -> 0 <= pgn < 2^24 -> sq <> k + 1 ->
    let r' := with_slots r (zset (r_slots r) idx (free_slot (znth (r_slots r) idx slot0))) in
    handle_tp r 60160 src dst 8 (sq :: chunk) = (true, r', (if 1 <=? tpreq then [cm_event dst src (cm_abort 3 pgn)] else []), nslots r) /\
    (forall b, handle_tp r' 60160 src dst 8 b = (true, r', [], nslots r')).

(* 8s. a session its originator gave up - at any point: before the first packet, in the middle, before the last packet - does not stand in
       the way of a later transfer between the same stations with another PGN: the new RTS is answered with a CTS from packet 1, the old
       session is released, and the new session is the only one between the two stations, set up exactly as statements 7a-7c and 8 expect.
       (False of the library before fix 7b28730: the data packets went to the old session; the former witness is an Example in Props.) *)
Definition free_not_ready (r:rnode) : Prop := Forall (fun s => s_free s = true -> s_ready s = false) (r_slots r).     (* as FreeMessage leaves them *)
Definition tp_new_session_replaces_stmt : Prop :=
  forall r i idxA src dst pgnA sizeA k data tpmaxA tpreqA pgnB sizeB maxp,
    rx_session r idxA src dst pgnA sizeA k data tpmaxA tpreqA -> only_session r idxA src dst -> free_not_ready r ->
    tp_ready (rn r) i -> addressed r dst i -> 0 <= src < 256 -> pgnB <> pgnA -> 0 <= pgnB < 2^24 -> 9 <= sizeB <= 223 -> 0 <= maxp < 256 ->
    fst (fst (check_known (n_pgn (rn r)) pgnB)) = true \/ c_only_known (r_cfg r) = false ->
    let g := grant_of (npackets sizeB) in
    exists r' idxB,
      handle_tp r 60416 src dst 8 (cm_rts sizeB maxp pgnB) = (true, r', [cm_event dst src (cm_cts g 1 pgnB)], nslots r) /\
      rx_session r' idxB src dst pgnB sizeB 0 [] (npackets sizeB) g /\ rx_answer r' dst g i /\ only_session r' idxB src dst /\
      free_not_ready r' /\ nslots r' = nslots r /\
      s_system (znth (r_slots r') idxB slot0) = snd (fst (check_known (n_pgn (rn r)) pgnB)).
(* ... and so the later transfer is received completely and its message carries its own PGN and its own payload *)
Definition tp_later_transfer_stmt : Prop :=
  forall steps r i idxA src dst pgnA sizeA k data tpmaxA tpreqA pgnB sizeB maxp,
    rx_session r idxA src dst pgnA sizeA k data tpmaxA tpreqA -> only_session r idxA src dst -> free_not_ready r ->
    tp_ready (rn r) i -> addressed r dst i -> 0 <= src < 256 -> pgnB <> pgnA -> 0 <= pgnB < 2^24 -> 9 <= sizeB <= 223 -> 0 <= maxp < 256 ->
    fst (fst (check_known (n_pgn (rn r)) pgnB)) = true \/ c_only_known (r_cfg r) = false ->
    Z.of_nat (length steps) = npackets sizeB -> Forall (fun st => keeps_session (fst st) /\ length (snd st) = 7%nat) steps ->
    let g := grant_of (npackets sizeB) in
    let '(_, r1, ev1, _) := handle_tp r 60416 src dst 8 (cm_rts sizeB maxp pgnB) in
    let '(r2, evs, ix) := feed_dt r1 src dst 1 steps in
    ev1 = [cm_event dst src (cm_cts g 1 pgnB)] /\ evs = expected_answers dst src pgnB sizeB (npackets sizeB) g (length steps) /\
    slot_msg (znth (r_slots r2) ix slot0) =
      {| m_pri := 7; m_pgn := pgnB; m_src := src; m_dst := dst; m_data := firstn (Z.to_nat sizeB) (concat (map snd steps)); m_tp := true |} /\
    s_ready (znth (r_slots r2) ix slot0) = true.

(* ================= library to library ================= *)
(* two nodes joined by a loss-free FIFO link: every frame one node hands to its driver is read by the other, in order.  One step takes
   the oldest frame in flight to its receiver, runs the receiver's frame handling and delivery for it, and puts the receiver's answers in flight. *)
Definition as_frame (e:event) : list rxframe := match e with EvTx id len d true => [{| r_id := id; r_len := len; r_buf := d |}] | _ => [] end.
Definition deliveries (ev:list event) : list msg := flat_map (fun e => match e with EvDeliver m => [m] | _ => [] end) ev.
Definition rx_one (gf:rnode -> slot -> rnode * list event) (r:rnode) (f:rxframe) : rnode * list event := rx_loop gf 1 (with_rxq r [f]).
Fixpoint link (gf:rnode -> slot -> rnode * list event) (fuel:nat) (a b:rnode) (to_a to_b:list rxframe) (dl:list msg) : rnode * rnode * list msg * bool :=
  match fuel with
  | O => (a, b, dl, false)
  | S k =>
    match to_b with
    | f :: rest => let '(b', ev) := rx_one gf b f in link gf k a b' (to_a ++ flat_map as_frame ev) rest (dl ++ deliveries ev)
    | [] =>
      match to_a with
      | f :: rest => let '(a', ev) := rx_one gf a f in link gf k a' b rest (flat_map as_frame ev) dl
      | [] => (a, b, dl, true)
      end
    end
  end.
(* 9. (a check by evaluation for every length with one byte pattern is tp_lib_to_lib_partial in Proofs/TpProofsD.v.)
      For every payload of 9..223 bytes: device ia of node A sends it to device ib of node B (both ready, B's slots free - and, as FreeMessage leaves them, not marked ready - and no other
      session from A's address); after the link has drained, B has delivered exactly one message - PGN, A's address, B's address, the
      payload - and A's transfer has ended *)
Definition tp_lib_to_lib_stmt : Prop :=
  forall gf a b ia ib m, tp_ready (rn a) ia -> d_tp_msg (get_dev (rn a) ia) = None -> tp_msg m -> m_pgn m mod 256 = 0 -> bytes_ok (m_data m) ->
    tp_ready (rn b) ib -> addressed b (m_dst m) ib -> addressed a (d_src (get_dev (rn a) ia)) ia -> m_dst m <> 255 ->
    Forall (fun s => s_free s = true /\ s_ready s = false) (r_slots b) -> 1 <= nslots b ->
    c_only_known (r_cfg b) = false -> snd (fst (check_known (n_pgn (rn b)) (m_pgn m))) = false ->
    let '(na, ev, ok) := send_msg (rn a) m ia in
    let '(a', b', dl, drained) := link gf 200 (with_rn a na) b [] (flat_map as_frame ev) [] in
    ok = true /\ drained = true /\
    dl = [{| m_pri := 7; m_pgn := m_pgn m; m_src := d_src (get_dev (rn a) ia); m_dst := m_dst m; m_data := m_data m; m_tp := true |}] /\
    d_tp_msg (get_dev (rn a') ia) = None.
