(* Independent specification and fixed theorem statements for C14 (each received message reaches every matching handler
   exactly once).

   Scope.  The statements below are about tNMEA2000::RunMessageHandlers and the handler list maintained by
   AttachMsgHandler / DetachMsgHandler / tMsgHandler's constructor and destructor (Model/HandlerDefs.v).
   The second sentence of the property (messages the library consumes itself - requests, claims, group functions,
   transport-protocol payloads - are still passed on, transport-protocol control and data frames are not) is a statement
   about tNMEA2000::ParseMessages / SetN2kCANBufMsg, i.e. about WHEN RunMessageHandlers is called; that is covered by the
   node-level model (Model/NodeRxDefs.v: rx_loop emits EvDeliver for every ready slot; TP.CM / TP.DT frames never produce
   a ready slot except a completed TP payload) and is not restated here.

   The abstract machine knows nothing about lists or their order: a finite map from handler objects to (PGN, bus it is
   attached to), and one callback flag per bus. *)
From Coq Require Import ZArith List Bool Arith Sorting.Sorted.
From N2kV Require Import Model.HandlerDefs.
Import ListNotations.
Local Open Scope Z_scope.

(* ---------- abstract machine ---------- *)
Record aobj := { apgn : Z; abus : option bus }.
(* [amap a i = None]: no live object i.  Only identities that were created are ever mapped, so the support is finite. *)
Record astate := { amap : nat -> option aobj; acb : bus -> bool }.
Definition ainit : astate := {| amap := fun _ => None; acb := fun _ => false |}.
Definition aupd (f:nat -> option aobj) (i:nat) (v:option aobj) : nat -> option aobj := fun j => if Nat.eqb j i then v else f j.

Definition astep (a:astate) (o:hop) : astate :=
  match o with
  | HCreate i p ob => match amap a i with
                      | Some _ => a
                      | None => {| amap := aupd (amap a) i (Some {| apgn := p; abus := ob |}); acb := acb a |}
                      end
  | HAttach i b => match amap a i with
                   | Some x => {| amap := aupd (amap a) i (Some {| apgn := apgn x; abus := Some b |}); acb := acb a |}
                   | None => a
                   end
  | HDetach i => match amap a i with
                 | Some x => {| amap := aupd (amap a) i (Some {| apgn := apgn x; abus := None |}); acb := acb a |}
                 | None => a
                 end
  | HDestroy i => {| amap := aupd (amap a) i None; acb := acb a |}
  | HRun _ _ => a
  | HSetCb b on => {| amap := amap a; acb := fun b' => if bus_eqb b' b then on else acb a b' |}
  end.

(* how often a message with PGN m arriving on bus b must be passed to each callee *)
Definition attached (x:aobj) (b:bus) : bool := match abus x with Some b' => bus_eqb b' b | None => false end.
Definition pgn_matches (p m:Z) : bool := (p =? 0) || (p =? m).
Definition expected (a:astate) (b:bus) (m:Z) (c:call) : nat :=
  match c with
  | CB => if acb a b then 1%nat else 0%nat
  | CH i => match amap a i with
            | Some x => if attached x b && pgn_matches (apgn x) m then 1%nat else 0%nat
            | None => 0%nat
            end
  end.
Definition aout (a:astate) (o:hop) : call -> nat :=
  match o with HRun b m => expected a b m | _ => fun _ => 0%nat end.
Fixpoint arun (a:astate) (ops:list hop) : astate * list (call -> nat) :=
  match ops with
  | [] => (a, [])
  | o::rest => let '(a2, xs) := arun (astep a o) rest in (a2, aout a o :: xs)
  end.

(* multiset of calls made = required multiplicities *)
Definition call_eqb (x y:call) : bool :=
  match x, y with CB, CB => true | CH i, CH j => Nat.eqb i j | _, _ => false end.
Fixpoint count (c:call) (l:list call) : nat :=
  match l with [] => 0%nat | x::r => ((if call_eqb c x then 1 else 0) + count c r)%nat end.
Definition agree (out:list call) (e:call -> nat) : Prop := forall c, count c out = e c.

(* PGNs are unsigned in the C++ (handler PGN and message PGN are unsigned long) *)
Definition op_ok (o:hop) : Prop :=
  match o with HCreate _ p _ => 0 <= p | HRun _ m => 0 <= m | _ => True end.
Definition ops_ok (ops:list hop) : Prop := Forall op_ok ops.

(* ---------- (1) the list invariant ---------- *)
Definition sorted (l:list handler) : Prop := StronglySorted (fun x y => hpgn x <= hpgn y) l.
Definition hinv (st:hstate) : Prop :=
  forall b,
    sorted (hls st b) /\                                              (* non-decreasing PGN *)
    NoDup (map hid (hls st b)) /\                                     (* no handler twice *)
    (forall x, In x (hls st b) -> oalive (htab st (hid x)) = true /\ hpgn x = opgn (htab st (hid x))) /\   (* only live objects *)
    (forall i, In i (map hid (hls st b)) <-> obus (htab st i) = Some b).   (* in b's list iff its pNMEA2000 is b *)
(* holds after EVERY operation history (no range condition needed) *)
Definition sorted_inv_stmt : Prop :=
  forall ops, hinv (fst (hrun hinit ops)).

(* ---------- (2) exact dispatch after any history ---------- *)
(* for every history followed by RunMessageHandlers on bus b with a message of PGN m: the callback is called exactly once iff
   set, every handler attached to b with PGN 0 or PGN m exactly once, nothing else at all *)
Definition dispatch_exact_stmt : Prop :=
  forall ops b m, ops_ok ops -> 0 <= m ->
    agree (snd (hstep (fst (hrun hinit ops)) (HRun b m))) (expected (fst (arun ainit ops)) b m).

(* ---------- (3) refinement of whole runs ---------- *)
Definition refines_stmt : Prop :=
  forall ops, ops_ok ops -> Forall2 agree (snd (hrun hinit ops)) (snd (arun ainit ops)).

(* ---------- call order ---------- *)
(* The order among handlers of equal PGN depends on the list mechanics (a new handler goes in front of its equals, except
   that the list head keeps its place) and is not part of the property; what is fixed: callback first, then all-PGN
   handlers, then the PGN-specific ones, and it is the list order restricted to the wanted handlers. *)
Definition want (m:Z) (x:handler) : bool := pgn_matches (hpgn x) m.
Definition dispatch_list_order_stmt : Prop :=
  forall ops b m, ops_ok ops -> 0 <= m ->
    let st := fst (hrun hinit ops) in
    snd (hstep st (HRun b m)) = (if hcb st b then [CB] else []) ++ map CH (map hid (filter (want m) (hls st b))).
Definition has_pgn (a:astate) (p:Z) (i:nat) : Prop := exists x, amap a i = Some x /\ apgn x = p.
Definition dispatch_order_stmt : Prop :=
  forall ops b m, ops_ok ops -> 0 <= m ->
    let a := fst (arun ainit ops) in
    exists zs ps,
      snd (hstep (fst (hrun hinit ops)) (HRun b m)) = (if acb a b then [CB] else []) ++ map CH zs ++ map CH ps /\
      Forall (has_pgn a 0) zs /\ Forall (has_pgn a m) ps.

(* ---------- (4) destroyed handlers, re-attaching ---------- *)
(* a destroyed handler object is never called again (until a new object is created in its place) *)
Definition destroyed_never_called_stmt : Prop :=
  forall ops1 i ops2 b m, ops_ok (ops1 ++ HDestroy i :: ops2) -> 0 <= m ->
    (forall p ob, ~ In (HCreate i p ob) ops2) ->
    ~ In (CH i) (snd (hstep (fst (hrun hinit (ops1 ++ HDestroy i :: ops2))) (HRun b m))).
(* same for a detached one until it is attached again *)
Definition detached_never_called_stmt : Prop :=
  forall ops1 i ops2 b m, ops_ok (ops1 ++ HDetach i :: ops2) -> 0 <= m ->
    (forall p ob, ~ In (HCreate i p ob) ops2) -> (forall b', ~ In (HAttach i b') ops2) ->
    ~ In (CH i) (snd (hstep (fst (hrun hinit (ops1 ++ HDetach i :: ops2))) (HRun b m))).
(* attaching to a bus removes the handler from the other one; on the new bus it is called exactly once when the PGN matches *)
Definition other (b:bus) : bus := match b with B1 => B2 | B2 => B1 end.
Definition reattach_moves_stmt : Prop :=
  forall ops i b m, ops_ok ops -> 0 <= m ->
    let st := fst (hrun hinit (ops ++ [HAttach i b])) in
    ~ In (CH i) (snd (hstep st (HRun (other b) m))) /\
    (forall x, amap (fst (arun ainit ops)) i = Some x -> pgn_matches (apgn x) m = true ->
               count (CH i) (snd (hstep st (HRun b m))) = 1%nat).
