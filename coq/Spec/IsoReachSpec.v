(* C08 tied to C07: the statements of Spec/IsoSpec.v are one-step statements about an ARBITRARY node state r with the structural premise
   [rnode_wf r] (every device has its extended state: length (rx_dev r) = length (n_devs (rn r))) besides their local premises (on_bus,
   driver_accepts, ...).  Here: that structural premise holds at every point of every history, so the C08 statements apply in every state the
   node can be in - not only in hand-picked ones.

   "Every history" is taken from the C07 development (Spec/SafeSpec.v, Spec/ApiSafeSpec.v), nothing is copied from it:
   - the start state r satisfies the C07 invariant: WF nd ns mx r (array lengths nd / ns / mx, addresses, ring, slots, frames), no
     out-of-bounds access so far (r_oob r = false), no slot left marked ready (quiet r).  A cold node (cold_node ...) with one receive list
     per device satisfies it (statement 1b below, with exactly the configuration hypotheses of api_node_safe_stmt);
   - the history is any list of extended operations (Model/ApiDefs.v: all node operations rop and all public application calls api) whose
     arguments are in the range of their C types (xop_ok), with the device bound of the C07 run theorem (devs_bound: at most 251 devices,
     or no SetMode in the history);
   - the reaction gf to group functions is any function that satisfies the C07 contract gf_ok (gf_none and gf_lib do).
   The conclusion is stated for the end of the history and for the state after every prefix (firstn k ops, any k). *)
From Coq Require Import ZArith List Bool.
From N2kV Require Import Base.ListAux Model.CanId Model.Sched Model.PgnClass Model.NodeDefs Model.NodeRxDefs Model.GroupFnDefs Model.ApiDefs
  Gen.GenTables Gen.GenConsts Spec.SendSpec Spec.SafeSpec Spec.ApiSafeSpec Spec.IsoSpec.
Import ListNotations.
Local Open Scope Z_scope.

(* the premises shared by all statements: gf keeps the C07 contract, the start state satisfies the C07 invariant, the history is admissible *)
Definition c07_history (gf:rnode -> slot -> rnode * list event) (nd ns:nat) (mx:Z) (r:rnode) (ops:list xop) : Prop :=
  gf_ok gf /\ WF nd ns mx r /\ r_oob r = false /\ quiet r /\ Forall xop_ok ops /\ devs_bound nd ops.

(* ================= 1. rnode_wf in every reachable state ================= *)
Definition iso_reachable_wf_stmt : Prop :=
  forall gf nd ns mx r ops, c07_history gf nd ns mx r ops ->
    rnode_wf (fst (xrun gf r ops)) /\
    (forall k, rnode_wf (fst (xrun gf r (firstn k ops)))).

(* 1b. from a cold node: the configuration hypotheses of api_node_safe_stmt *)
Definition iso_reachable_wf_cold_stmt : Prop :=
  forall gf, gf_ok gf ->
  forall w mode t0 qmax nsl pc devs rxls cfg ops,
    devs <> [] -> length rxls = length devs -> Forall dev_ok devs -> 1 <= nsl <= 255 -> 0 <= qmax <= 65535 ->
    devs_bound (length devs) ops -> Forall xop_ok ops ->
    forall k, rnode_wf (fst (xrun gf (cold_node w mode t0 qmax nsl pc devs rxls cfg) (firstn k ops))).

(* ================= 2. addressed requests are answered in every reachable state ================= *)
(* iso_addressed_answered_stmt (Spec/IsoSpec.v) at the state r reached by any admissible history from any state r0 satisfying the C07
   invariant: its local premises remain (they describe the situation in which an answer is due: device on the bus, accepting driver, ...),
   its structural premise rnode_wf is gone.  The three conclusions of iso_addressed_answered_stmt, word for word: *)
Definition addressed_answer (r:rnode) (requester p i:Z) : Prop :=
    let d := get_dev (rn r) i in
    let res := respond_iso_request r requester true p i in
    (mandatory_pgn p = true -> config_info_present (r_cfg r) p -> positive_answer r requester p i res) /\
    (mandatory_pgn p = false -> handler_accepts (r_cfg r) p = true ->
       snd res = [EvNote (1000000 + p)] /\ rn (fst res) = fst (claim_started (rn r) i)) /\
    (mandatory_pgn p = false -> handler_accepts (r_cfg r) p = false ->
       exists ans, snd res = pending_flush (rn r) ++ ans /\ quiet_after (rn (fst res)) /\
                   single_frame ans 6 59392 (d_src d) requester (ref_nak p)).
(* the wording is the one of iso_addressed_answered_stmt: that statement is literally this one *)
Definition addressed_answer_is_c08_stmt : Prop :=
  iso_addressed_answered_stmt <->
  (forall r requester p i, 0 <= p < 2^24 -> 0 <= requester < 256 ->
     on_bus (rn r) i -> driver_accepts (rn r) -> protocol_pgns_single (n_pgn (rn r)) -> info_fits (r_cfg r) -> rnode_wf r ->
     addressed_answer r requester p i).

Definition iso_addressed_answered_reachable_stmt : Prop :=
  forall gf nd ns mx r0 ops, c07_history gf nd ns mx r0 ops ->
  let r := fst (xrun gf r0 ops) in
  forall requester p i, 0 <= p < 2^24 -> 0 <= requester < 256 ->
    on_bus (rn r) i -> driver_accepts (rn r) -> protocol_pgns_single (n_pgn (rn r)) -> info_fits (r_cfg r) ->
    addressed_answer r requester p i.
(* and after every prefix of the history *)
Definition iso_addressed_answered_reachable_prefix_stmt : Prop :=
  forall gf nd ns mx r0 ops, c07_history gf nd ns mx r0 ops ->
  forall k, let r := fst (xrun gf r0 (firstn k ops)) in
  forall requester p i, 0 <= p < 2^24 -> 0 <= requester < 256 ->
    on_bus (rn r) i -> driver_accepts (rn r) -> protocol_pgns_single (n_pgn (rn r)) -> info_fits (r_cfg r) ->
    addressed_answer r requester p i.
