(* C02 - received frames are reassembled into exactly the messages that were sent.
   Independent specification (what it means for a delivery to be justified by the arrival stream) and the fixed theorem statements.
   TP deliveries (m_tp = true) belong to C10 and are excluded explicitly. *)
From Coq Require Import ZArith List Bool.
From N2kV Require Import Base.ListAux Model.CanId Model.Sched Model.PgnClass Model.NodeDefs Model.NodeRxDefs Gen.GenTables Gen.GenConsts
  Spec.SendSpec.
Import ListNotations.
Local Open Scope Z_scope.

(* ================= 1. identifier decoding (proved in Proofs/SendProofs.v as id_decode) ================= *)
Definition id_decode_c02_stmt : Prop := id_decode_stmt.

(* ================= what a frame says ================= *)
Definition fpri (f:rxframe) : Z := let '(p, _, _, _) := can_id_to_n2k (r_id f) in p.
Definition fpgn (f:rxframe) : Z := let '(_, g, _, _) := can_id_to_n2k (r_id f) in g.
Definition fsrc (f:rxframe) : Z := let '(_, _, s, _) := can_id_to_n2k (r_id f) in s.
Definition fdst (f:rxframe) : Z := let '(_, _, _, d) := can_id_to_n2k (r_id f) in d.
Definition fbyte (f:rxframe) (k:nat) : Z := nth k (r_buf f) 0.
(* the valid data bytes of a frame from position [start] on: the DLC bounds them, not the buffer *)
Definition chunk (start:nat) (f:rxframe) : list Z := firstn (Z.to_nat (r_len f) - start) (skipn start (r_buf f)).
Definition MAXLEN : nat := 223.

(* the class the receiver assigns to a PGN (third component of CheckKnownMessage; C08 relates it to the NMEA 2000 tables) *)
Definition rx_fast (c:pgncfg) (pgn:Z) : bool := snd (check_known c pgn).
Definition rx_known (c:pgncfg) (pgn:Z) : bool := fst (fst (check_known c pgn)).

Fixpoint increasing (l:list nat) : Prop :=
  match l with
  | a :: ((b :: _) as r) => (a < b)%nat /\ increasing r
  | _ => True
  end.

(* continuation frames: frame number k of the run has the PGN, source and destination of the first frame, sequence byte = first byte + k,
   and is not itself a first frame *)
Fixpoint conts (fs:list rxframe) (pgn src dst b0:Z) (k:Z) (idx:list nat) : Prop :=
  match idx with
  | [] => True
  | i :: r => (exists f, nth_error fs i = Some f /\ fpgn f = pgn /\ fsrc f = src /\ fdst f = dst /\ fbyte f 0 = b0 + k /\ Z.land (fbyte f 0) 31 <> 0)
              /\ conts fs pgn src dst b0 (k+1) r
  end.
Fixpoint cdata (fs:list rxframe) (idx:list nat) : list Z :=
  match idx with
  | [] => []
  | i :: r => match nth_error fs i with Some f => chunk 1 f | None => [] end ++ cdata fs r
  end.

(* a fast-packet delivery m is justified by the frames at positions idx = i0 < i1 < ... < in of the arrival stream fs *)
Definition fast_just (fs:list rxframe) (m:msg) (idx:list nat) : Prop :=
  exists i0 rest f0,
    idx = i0 :: rest /\ nth_error fs i0 = Some f0 /\ increasing idx /\
    fpgn f0 = m_pgn m /\ fsrc f0 = m_src m /\ fdst f0 = m_dst m /\ fpri f0 = m_pri m /\
    Z.land (fbyte f0 0) 31 = 0 /\
    conts fs (m_pgn m) (m_src m) (m_dst m) (fbyte f0 0) 1 rest /\
    let ln := fbyte f0 1 in
    let all := firstn MAXLEN (chunk 2 f0 ++ cdata fs rest) in
    ln <= Z.of_nat (length all) /\                               (* the frames carry at least the announced length (hence ln <= 223) *)
    m_data m = firstn (Z.to_nat ln) all /\
    (* handed over at the first moment of completion: without its last frame the run is shorter than announced *)
    (rest <> [] -> Z.of_nat (length (firstn MAXLEN (chunk 2 f0 ++ cdata fs (removelast rest)))) < ln).

Definition single_just (fs:list rxframe) (m:msg) (idx:list nat) : Prop :=
  exists i0 f0,
    idx = [i0] /\ nth_error fs i0 = Some f0 /\
    fpgn f0 = m_pgn m /\ fsrc f0 = m_src m /\ fdst f0 = m_dst m /\ fpri f0 = m_pri m /\
    m_data m = chunk 0 f0 /\ (0 <= r_len f0 -> m_len m = r_len f0) /\ (length (chunk 0 f0) <= MAXLEN)%nat.

Definition justified (c:pgncfg) (fs:list rxframe) (m:msg) (idx:list nat) : Prop :=
  if rx_fast c (m_pgn m) then fast_just fs m idx else single_just fs m idx.

(* ================= the observable history ================= *)
Definition frames_of (ops:list rop) : list rxframe := flat_map (fun o => match o with RRx f => [f] | _ => [] end) ops.
Definition dlv_of (evs:list event) : list msg := flat_map (fun e => match e with EvDeliver m => [m] | _ => [] end) evs.
(* deliveries that did not come through ISO-TP *)
Definition fp_dlv (evs:list event) : list msg := filter (fun m => negb (m_tp m)) (dlv_of evs).

(* what is assumed of the group-function reaction (the parameter of the node model): it leaves the reassembly table, the driver queue, the
   PGN configuration, the known-message switch and the clock alone and hands nothing to the application itself *)
Definition gf_ok (gf:rnode -> slot -> rnode * list event) : Prop :=
  forall r s, r_slots (fst (gf r s)) = r_slots r /\ r_q (fst (gf r s)) = r_q r /\ n_pgn (rn (fst (gf r s))) = n_pgn (rn r) /\
              c_only_known (r_cfg (fst (gf r s))) = c_only_known (r_cfg r) /\ n_now (rn (fst (gf r s))) = n_now (rn r) /\
              dlv_of (snd (gf r s)) = [].
(* start state: nothing queued, no fast-packet reassembly in progress (every slot is clear or belongs to ISO-TP) *)
Definition rx_clean (r:rnode) : Prop := r_q r = [] /\ Forall (fun s => s_pgn s = 0 \/ s_tp s = true) (r_slots r).

(* ================= 2. safety for EVERY stream ================= *)
(* For every history of operations (frames arriving, polls, clock ticks, application sends, flushes, claims, heartbeat settings) on a node
   with any number of slots, any clock value, either scheduler build: each non-TP delivery is justified by the frames received so far (apply
   the statement to the prefix of the history that ends with the delivery), and no frame justifies two deliveries. *)
Definition rx_no_corruption_stmt : Prop :=
  forall gf r0 ops, gf_ok gf -> rx_clean r0 ->
    let ds := fp_dlv (concat (snd (rrun gf r0 ops))) in
    exists idxs, Forall2 (justified (n_pgn (rn r0)) (frames_of ops)) ds idxs /\ NoDup (concat idxs).
(* the states the harness starts from are clean *)
Definition cold_node_clean_stmt : Prop :=
  forall w mode t0 qmax nsl pc devs rxls cfg, rx_clean (cold_node w mode t0 qmax nsl pc devs rxls cfg).

(* ================= 3. the small statements (on one frame) ================= *)
(* a fast packet announcing more than 223 bytes never becomes ready.  On one frame: no slot ever holds more than 223 bytes, and whenever
   SetN2kCANBufMsg reports a ready slot for a non-TP frame, its announced length is covered by the bytes copied, hence at most 223 *)
Definition data_bounded (r:rnode) : Prop := Forall (fun s => (length (s_data s) <= MAXLEN)%nat) (r_slots r).
Definition is_tp_frame (f:rxframe) : bool := (fpgn f =? c_TP_CM) || (fpgn f =? c_TP_DT).
Definition overlong_never_delivered_stmt : Prop :=
  forall r f r1 ev idx, is_tp_frame f = false -> data_bounded r -> rx_frame r f = (r1, ev, idx) ->
    data_bounded r1 /\
    (idx < nslots r1 -> s_len (get_slot r1 idx) <= Z.of_nat (length (s_data (get_slot r1 idx))) /\ s_len (get_slot r1 idx) <= 223).
(* on histories: no non-TP delivery is longer than 223 bytes, and a first frame announcing more than 223 bytes justifies no delivery *)
Definition delivered_at_most_223_stmt : Prop :=
  forall gf r0 ops, gf_ok gf -> rx_clean r0 ->
    Forall (fun m => m_len m <= 223) (fp_dlv (concat (snd (rrun gf r0 ops)))).
Definition overlong_first_frame_stmt : Prop :=
  forall fs m idx i0 f0, fast_just fs m idx -> hd_error idx = Some i0 -> nth_error fs i0 = Some f0 -> fbyte f0 1 <= 223.

(* a frame of a non-fast-packet, non-TP PGN that passes the known-message filter and finds a slot is handed to the application in the same
   ParseMessages iteration with length = DLC and the DLC valid bytes (rx_iter = one iteration, tied to rx_loop by rx_loop_iter_stmt below) *)
Definition rx_iter (gf:rnode -> slot -> rnode * list event) (r0:rnode) (f:rxframe) : rnode * list event :=
  let '(r1, ev1, idx) := rx_frame r0 f in
  if idx <? nslots r1 then
    let r1 := chk_slot r1 idx in
    let s := get_slot r1 idx in
    let '(r2, ev2) := handle_system gf r1 s in
    (set_slot r2 idx (free_slot (get_slot r2 idx)), ev1 ++ ev2 ++ [EvDeliver (slot_msg s)])
  else (r1, ev1).
Definition single_frame_stmt : Prop :=
  forall gf r f, gf_ok gf ->
    0 <= r_len f <= 8 -> length (r_buf f) = 8%nat ->
    is_tp_frame f = false -> rx_fast (n_pgn (rn r)) (fpgn f) = false ->
    (rx_known (n_pgn (rn r)) (fpgn f) || negb (c_only_known (r_cfg r))) = true ->
    snd (find_free_slot r (fpgn f) (fsrc f) (fdst f) false) < nslots r ->
    dlv_of (snd (rx_iter gf r f)) =
      [ {| m_pri := fpri f; m_pgn := fpgn f; m_src := fsrc f; m_dst := fdst f; m_data := firstn (Z.to_nat (r_len f)) (r_buf f); m_tp := false |} ].

(* the key under which a first frame is stored *)
Definition key_match (s:slot) (pgn src dst:Z) : bool := (s_pgn s =? pgn) && (s_src s =? src) && (s_dst s =? dst) && negb (s_tp s).

(* a new first frame of a key (PGN, source, destination, not TP) that has an unfinished slot ALWAYS lands in that slot (the first one, should
   there be several) and re-initialises it: whatever the unfinished message had collected is gone, the slot holds exactly the new frame's
   data; no other slot changes *)
Definition busy_key (s:slot) (pgn src dst:Z) : bool := negb (s_free s) && key_match s pgn src dst.
Definition supersede_stmt : Prop :=
  forall r f r1 ev idx (i:nat),
    rx_frame r f = (r1, ev, idx) ->
    is_tp_frame f = false -> rx_fast (n_pgn (rn r)) (fpgn f) = true -> Z.land (fbyte f 0) 31 = 0 ->
    (rx_known (n_pgn (rn r)) (fpgn f) || negb (c_only_known (r_cfg r))) = true ->
    (i < length (r_slots r))%nat -> busy_key (nth i (r_slots r) slot0) (fpgn f) (fsrc f) (fdst f) = true ->
    (forall k, (k < i)%nat -> busy_key (nth k (r_slots r) slot0) (fpgn f) (fsrc f) (fdst f) = false) ->
    let s := nth i (r_slots r1) slot0 in
    s_data s = firstn MAXLEN (chunk 2 f) /\ s_len s = fbyte f 1 /\ s_last s = fbyte f 0 /\ s_pri s = fpri f /\
    key_match s (fpgn f) (fsrc f) (fdst f) = true /\ s_free s = false /\
    (forall j, j <> i -> nth j (r_slots r1) slot0 = nth j (r_slots r) slot0).

(* a continuation frame whose sequence byte is not LastFrame+1 frees the slot it belongs to: the slot is clear afterwards (PGN 0, no
   length), nothing is reported ready, and no other slot changes; by rx_no_corruption nothing of that message can be delivered unless a
   new first frame arrives *)
Definition out_of_sequence_discards_stmt : Prop :=
  forall r f r1 ev idx i,
    rx_frame r f = (r1, ev, idx) ->
    is_tp_frame f = false -> rx_fast (n_pgn (rn r)) (fpgn f) = true -> Z.land (fbyte f 0) 31 <> 0 ->
    (rx_known (n_pgn (rn r)) (fpgn f) || negb (c_only_known (r_cfg r))) = true ->
    i = find_cont (r_slots r) (fpgn f) (fsrc f) (fdst f) 0 -> i < nslots r ->
    s_last (get_slot r i) + 1 <> fbyte f 0 ->
    idx = nslots r /\ ev = [] /\ s_free (get_slot r1 i) = true /\ s_pgn (get_slot r1 i) = 0 /\ s_len (get_slot r1 i) = 0 /\
    (forall j, 0 <= j -> j <> i -> get_slot r1 j = get_slot r j) /\
    find_cont (r_slots r1) (fpgn f) (fsrc f) (fdst f) 0 <> i.

(* ================= 4. completeness ================= *)
Definition rx_loop_iter_stmt : Prop :=
  forall gf k r, rx_loop gf (S k) r =
    match r_q r with
    | [] => (r, [])
    | f :: rest => let '(r1, ev) := rx_iter gf (with_rxq r rest) f in let '(r2, ev2) := rx_loop gf k r1 in (r2, ev ++ ev2)
    end.

(* the frames of one fast-packet message as they arrive: same identifier, sequence bytes b0, b0+1, ... *)
Definition same_key (f g:rxframe) : Prop := fpgn g = fpgn f /\ fsrc g = fsrc f /\ fdst g = fdst f.
(* a frame that belongs to the reassembly of key (non-TP frame with the PGN, source and destination of f0) *)
Definition touches_key (f0 g:rxframe) : Prop := is_tp_frame g = false /\ same_key f0 g.

(* state description used by the completeness statements: slot i is the slot the continuation search finds for f0's key and it holds the
   run f0, c1 .. ck collected so far *)
Definition holds_run (r:rnode) (f0:rxframe) (cs:list rxframe) (i:Z) (t:Z) : Prop :=
  0 <= i < nslots r /\ find_cont (r_slots r) (fpgn f0) (fsrc f0) (fdst f0) 0 = i /\
  let s := get_slot r i in
  s_free s = false /\ s_tp s = false /\ s_pgn s = fpgn f0 /\ s_src s = fsrc f0 /\ s_dst s = fdst f0 /\ s_pri s = fpri f0 /\
  s_len s = fbyte f0 1 /\ s_last s = fbyte f0 0 + Z.of_nat (length cs) /\
  s_data s = firstn MAXLEN (chunk 2 f0 ++ flat_map (chunk 1) cs) /\ s_time s = t /\
  Z.of_nat (length (s_data s)) < s_len s.
Definition run_msg (f0:rxframe) (cs:list rxframe) : msg :=
  {| m_pri := fpri f0; m_pgn := fpgn f0; m_src := fsrc f0; m_dst := fdst f0;
     m_data := firstn (Z.to_nat (fbyte f0 1)) (firstn MAXLEN (chunk 2 f0 ++ flat_map (chunk 1) cs)); m_tp := false |}.
Definition run_complete (f0:rxframe) (cs:list rxframe) : bool :=
  fbyte f0 1 <=? Z.of_nat (length (firstn MAXLEN (chunk 2 f0 ++ flat_map (chunk 1) cs))).
Definition fast_first (r:rnode) (f0:rxframe) : Prop :=
  is_tp_frame f0 = false /\ rx_fast (n_pgn (rn r)) (fpgn f0) = true /\ Z.land (fbyte f0 0) 31 = 0 /\
  (rx_known (n_pgn (rn r)) (fpgn f0) || negb (c_only_known (r_cfg r))) = true.

(* (a) first frame: if the slot search finds a place (a free slot, a slot of the same key, or - table full - the oldest slot is 100 ms old),
       the message is delivered at once when the first frame carries it all, otherwise the slot holds the run *)
(* a free slot is a cleared slot (true of every reachable table: see rx_complete) *)
Definition free_clear (r:rnode) : Prop := Forall (fun s => s_free s = true -> s_pgn s = 0) (r_slots r).
Definition rx_complete_first_stmt : Prop :=
  forall gf r f0, gf_ok gf -> fast_first r f0 -> free_clear r ->
    snd (find_free_slot r (fpgn f0) (fsrc f0) (fdst f0) false) < nslots r ->
    let '(r1, ev) := rx_iter gf r f0 in
    if run_complete f0 [] then fp_dlv ev = [run_msg f0 []]
    else fp_dlv ev = [] /\ exists i, holds_run r1 f0 [] i (now32 r).
(* (b) in-sequence continuation frame: appended; delivered exactly when the announced length is reached *)
Definition rx_complete_cont_stmt : Prop :=
  forall gf r f0 cs i t c, gf_ok gf -> fast_first r f0 -> holds_run r f0 cs i t ->
    same_key f0 c -> is_tp_frame c = false -> fbyte c 0 = fbyte f0 0 + Z.of_nat (length cs) + 1 -> Z.land (fbyte c 0) 31 <> 0 ->
    let '(r1, ev) := rx_iter gf r c in
    if run_complete f0 (cs ++ [c]) then fp_dlv ev = [run_msg f0 (cs ++ [c])]
    else fp_dlv ev = [] /\ holds_run r1 f0 (cs ++ [c]) i t.
(* (c) any other frame - another sender, PGN or destination, ISO-TP traffic, unknown PGNs - leaves the run alone, provided the run's slot
       is not yet 100 ms old when a frame needs a place (slot-reuse timing) *)
Definition rx_complete_other_stmt : Prop :=
  forall gf r f0 cs i t g, gf_ok gf -> holds_run r f0 cs i t -> rx_fast (n_pgn (rn r)) (fpgn f0) = true ->
    ~ touches_key f0 g -> has_elapsed t c_Max_N2kMsgBuf_Time (now32 r) = false ->
    holds_run (fst (rx_iter gf r g)) f0 cs i t.
(* (d) everything else the node does between frames keeps the table: every operation other than ParseMessages (frame into the driver queue,
       tick, application send, flush, claim, heartbeat setting) leaves the slots alone, and ParseMessages on an open node is the loop
       rx_loop over at most 20 frames, preceded and followed by steps that leave slots, queue, configuration and clock alone.  With
       (a)-(c) this gives completeness across polls: the run survives as long as its slot is younger than 100 ms whenever other traffic
       needs a place. *)
Definition rx_table_kept_stmt : Prop :=
  forall gf r o, gf_ok gf -> o <> RPoll ->
    r_slots (fst (rstep gf r o)) = r_slots r /\ n_pgn (rn (fst (rstep gf r o))) = n_pgn (rn r) /\
    c_only_known (r_cfg (fst (rstep gf r o))) = c_only_known (r_cfg r) /\ fp_dlv (snd (rstep gf r o)) = [].
Definition poll_is_loop_stmt : Prop :=
  forall gf r, gf_ok gf -> n_open (rn r) = 3 ->
    exists ra, r_slots ra = r_slots r /\ r_q ra = r_q r /\ n_pgn (rn ra) = n_pgn (rn r) /\ c_only_known (r_cfg ra) = c_only_known (r_cfg r) /\
      n_now (rn ra) = n_now (rn r) /\
      r_slots (fst (poll gf r)) = r_slots (fst (rx_loop gf (Z.to_nat c_MaxReadFramesOnParse) ra)) /\
      r_q (fst (poll gf r)) = r_q (fst (rx_loop gf (Z.to_nat c_MaxReadFramesOnParse) ra)) /\
      fp_dlv (snd (poll gf r)) = fp_dlv (snd (rx_loop gf (Z.to_nat c_MaxReadFramesOnParse) ra)).

(* one ParseMessages loop over a queue in which the frames of a complete run are interleaved with other traffic: delivered.
   Hypotheses = sender discipline (no other frame of this PGN/source/destination in between) + a place at the first frame. *)
Fixpoint interleaved (f0:rxframe) (run:list rxframe) (q:list rxframe) : Prop :=
  match q with
  | [] => run = []
  | g :: q' => (exists run', run = g :: run' /\ interleaved f0 run' q') \/ (~ touches_key f0 g /\ interleaved f0 run q')
  end.
Fixpoint seq_ok (b:Z) (cs:list rxframe) (f0:rxframe) : Prop :=
  match cs with
  | [] => True
  | c :: r => same_key f0 c /\ is_tp_frame c = false /\ fbyte c 0 = b + 1 /\ Z.land (fbyte c 0) 31 <> 0 /\ seq_ok (b+1) r f0
  end.
Definition rx_complete_poll_stmt : Prop :=
  forall gf r f0 cs q k, gf_ok gf -> fast_first r f0 -> free_clear r ->
    r_q r = f0 :: q -> interleaved f0 cs q -> seq_ok (fbyte f0 0) cs f0 -> (length q < k)%nat ->
    run_complete f0 cs = true -> (forall cs', (length cs' < length cs)%nat -> cs' = firstn (length cs') cs -> run_complete f0 cs' = false) ->
    snd (find_free_slot (with_rxq r q) (fpgn f0) (fsrc f0) (fdst f0) false) < nslots r ->
    In (run_msg f0 cs) (fp_dlv (snd (rx_loop gf k r))).

(* The full form: as long as no more (PGN, source, destination) keys are in use than there are slots, every run that arrives completely
   and in order is delivered - whatever else arrives before and in between (other senders, abandoned and restarted messages of the
   same sender, ISO-TP announcements, frames the node ignores).  Since the repair of FindFreeCANMsgIndex (a busy slot of the key is
   preferred to a free slot) every key holds at most one slot, an ISO-TP session counts under the key of its TP.CM frames, and no
   eviction is ever needed.  Stated for a table that starts idle (every slot free and clear) and a queue handled by one loop. *)
Definition key_of (f:rxframe) : Z * Z * Z := (fpgn f, fsrc f, fdst f).
Definition rx_idle (r:rnode) : Prop := r_q r = [] /\ Forall (fun s => s_free s = true /\ s_pgn s = 0) (r_slots r).
Definition rx_complete_stmt : Prop :=
  forall gf r pre f0 post cs (keys:list (Z * Z * Z)) k,
    gf_ok gf -> rx_idle (with_rxq r []) -> r_q r = pre ++ f0 :: post ->
    Z.of_nat (length keys) <= nslots r -> (forall f, In f (r_q r) -> In (key_of f) keys) ->
    fast_first r f0 -> interleaved f0 cs post -> seq_ok (fbyte f0 0) cs f0 -> run_complete f0 cs = true ->
    (forall cs', (length cs' < length cs)%nat -> cs' = firstn (length cs') cs -> run_complete f0 cs' = false) ->
    (length (r_q r) <= k)%nat ->
    In (run_msg f0 cs) (fp_dlv (snd (rx_loop gf k r))).
Definition mkf (id:Z) (buf:list Z) : rxframe := {| r_id := id; r_len := 8; r_buf := buf |}.
(* Run-level completeness: the same over whole histories.  For every history of operations (frames arriving, polls, ticks, sends, ...) on
   a node that starts idle and is open at every step (ParseMessages on a node that is not open empties the driver queue), with no more
   (PGN, source, destination) keys in the whole history than slots: the message of every run that arrives completely and in order -
   whatever is interleaved, however its frames are spread over polls (a poll takes at most 20 frames, the rest stays queued), whatever the
   clock does in between - is among the non-TP deliveries as soon as a poll has consumed its last frame.  No clause about the 100 ms slot
   reuse is needed: under the key bound no search ever evicts. *)
Definition stays_open (gf:rnode -> slot -> rnode * list event) (r0:rnode) (ops:list rop) : Prop :=
  forall k, n_open (rn (fst (rrun gf r0 (firstn k ops)))) = 3.
Definition rx_complete_run_stmt : Prop :=
  forall gf r0 ops pre f0 mid rest cs (keys:list (Z * Z * Z)),
    gf_ok gf -> rx_idle r0 -> stays_open gf r0 ops ->
    Z.of_nat (length keys) <= nslots r0 -> (forall f, In f (frames_of ops) -> In (key_of f) keys) ->
    frames_of ops = pre ++ f0 :: mid ++ rest ->
    fast_first r0 f0 -> interleaved f0 cs mid -> seq_ok (fbyte f0 0) cs f0 -> run_complete f0 cs = true ->
    (forall cs', (length cs' < length cs)%nat -> cs' = firstn (length cs') cs -> run_complete f0 cs' = false) ->
    (length (r_q (fst (rrun gf r0 ops))) <= length rest)%nat ->              (* the polls have consumed the frames up to the end of the run *)
    In (run_msg f0 cs) (fp_dlv (concat (snd (rrun gf r0 ops)))).

(* the step statements bundled: a place at the first frame (slot of the same key, free slot, or oldest slot 100 ms old), sender discipline
   for the run's own key, and the run's slot younger than 100 ms whenever other traffic needs a place; they also cover tables that are
   over capacity and runs that span several polls *)
Definition rx_complete_partial_stmt : Prop :=
  rx_complete_first_stmt /\ rx_complete_cont_stmt /\ rx_complete_other_stmt /\ rx_complete_poll_stmt.

(* ================= 5. runs are sent messages ================= *)
(* The justification above is about runs of the ARRIVAL stream.  What it adds for SENT messages: a sender emits, per PGN, messages
   number 0,1,2,.. with sequence ids (s0 + j) mod 8 (C01 seq_consecutive), each as the frames fp_frames (sid*32) payload_j (C01 fp_frames),
   all under one identifier; the bus loses frames but keeps the order.  If the frames of a justified run stem from that sender's
   transmission and FEWER THAN 8 messages were started between the run's first and last frame (otherwise the 3-bit sequence id aliases,
   which no receiver can detect), then all frames of the run belong to ONE sent message, they are its frames 0..n in order, and the
   delivered PGN, priority, source, destination and payload are the sent ones. *)
Definition msg_frames (id s0:Z) (payloads:list (list Z)) (j:nat) : list rxframe :=
  map (mkf id) (fp_frames (Z.shiftl ((s0 + Z.of_nat j) mod 8) 5) (nth j payloads [])).
Definition runs_are_sent_stmt : Prop :=
  forall prio pgn src dst s0 payloads fs m idx (js ns:list nat),
    id_args_ok prio pgn src dst -> (pdu1 pgn = true -> pgn mod 256 = 0) -> 0 <= s0 < 8 ->
    Forall (fun p => (length p <= 223)%nat /\ Forall (fun b => 0 <= b < 256) p) payloads ->
    let id := to_can_id prio pgn src dst in
    fast_just fs m idx ->
    (* frame k of the run is frame number ns[k] of sent message number js[k] *)
    length js = length idx -> length ns = length idx ->
    (forall k, (k < length idx)%nat -> (nth k js 0 < length payloads)%nat /\
        nth_error fs (nth k idx 0%nat) = nth_error (msg_frames id s0 payloads (nth k js 0%nat)) (nth k ns 0%nat)) ->
    (* the bus keeps the order of transmission *)
    (forall k, (S k < length idx)%nat -> (nth k js 0 < nth (S k) js 0)%nat \/ (nth k js 0 = nth (S k) js 0 /\ nth k ns 0 < nth (S k) ns 0)%nat) ->
    (* no aliasing: fewer than 8 messages of this PGN were started from the run's first frame to its last *)
    (nth (length idx - 1) js 0 < nth 0 js 0 + 8)%nat ->
    let j := nth 0 js 0%nat in
    (forall k, (k < length idx)%nat -> nth k js 0%nat = j /\ nth k ns 0%nat = k) /\
    m_data m = nth j payloads [] /\ m_pgn m = pgn /\ m_pri m = prio /\ m_src m = src /\ m_dst m = (if pdu1 pgn then dst else 255).
(* the part that needs no analysis of sequence ids: a run that consists of the frames of ONE sent message, in order, from its first frame
   on, delivers that message *)
Definition runs_are_sent_partial_stmt : Prop :=
  forall prio pgn src dst sid payload fs m idx,
    id_args_ok prio pgn src dst -> (pdu1 pgn = true -> pgn mod 256 = 0) -> 0 <= sid < 8 ->
    (length payload <= 223)%nat -> Forall (fun b => 0 <= b < 256) payload ->
    fast_just fs m idx ->
    (forall k, (k < length idx)%nat ->
        nth_error fs (nth k idx 0%nat) = nth_error (map (mkf (to_can_id prio pgn src dst)) (fp_frames (Z.shiftl sid 5) payload)) k) ->
    m_data m = payload /\ m_pgn m = pgn /\ m_pri m = prio /\ m_src m = src /\ m_dst m = (if pdu1 pgn then dst else 255).
