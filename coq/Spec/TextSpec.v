(* Independent specification and the fixed theorem statements for C16 (text fields of tN2kMsg).
   The statements are Definitions of type Prop; Proofs/TextProofs*.v prove them, Props/Properties_C16.v re-exports them.

   Memory safety is part of every statement through the result type: the model functions return OOB exactly where the C++ would
   write outside Data[223] / the destination, read Data beyond index 222, or read a string beyond its terminator; "= Ok ..." says
   that this does not happen (and that no fuelled loop of the model runs out of fuel). *)
From Coq Require Import ZArith List Bool.
From N2kV Require Import Base.Res Base.ListAux Model.TextDefs.
Import ListNotations.
Local Open Scope Z_scope.

(* ---------- what the property quantifies over ---------- *)
Definition cstring (s:list Z) : Prop := Forall (fun b => 1 <= b <= 255) s.            (* any NUL-terminated string *)
Definition payload (m:msg) : Prop := length (mdata m) = 223%nat /\ 0 <= mlen m <= 223.   (* any Data[223], any fill level *)
Definition bytes (l:list Z) : Prop := Forall (fun b => 0 <= b < 256) l.

(* the payload with [f] written at its end: bytes before DataLen and behind the field keep their value *)
Definition splice (d:list Z) (off:nat) (f:list Z) : list Z := firstn off d ++ f ++ skipn (off + length f) d.
Definition appended (m:msg) (f:list Z) : msg :=
  {| mdata := splice (mdata m) (Z.to_nat (mlen m)) f; mlen := mlen m + Z.of_nat (length f) |}.

(* the C string held by a destination buffer: the bytes before the first NUL *)
Fixpoint c_str (d:list Z) : list Z := match d with [] => [] | b :: r => if b =? 0 then [] else b :: c_str r end.
Definition zfirstn (n:Z) (l:list Z) : list Z := firstn (Z.to_nat n) l.

(* ---------- 1. adding never overruns the payload and never reads beyond the terminator ---------- *)
Definition add_safe_stmt : Prop :=
  forall m s, payload m -> cstring s ->
    (forall len, 0 <= len ->
       exists m', add_ais_str m s len = Ok m' /\ payload m' /\ mlen m <= mlen m') /\
    (forall maxlen support chars, 0 <= maxlen ->
       exists m', add_var_str m s maxlen support chars = Ok m' /\ payload m' /\ mlen m <= mlen m') /\
    (exists m', add_var_str2 m s = Ok m' /\ payload m' /\ mlen m <= mlen m') /\
    (forall len fillc, 0 <= len -> mlen m + len <= 223 ->
       exists m', add_str m s len fillc = Ok m' /\ payload m' /\ mlen m' = mlen m + len).

(* ---------- 2. a variable-length field is well formed ---------- *)
(* From a fill level that leaves room for the length and type byte the field is  len+2 :: type :: body  with exactly len body
   bytes, appended at DataLen, nothing else modified.  "Consistent with the bytes written": the same field comes out whatever the
   payload held before (m1, m2 arbitrary), i.e. every byte counted by the length byte was written. *)
Definition var_str_wellformed_stmt : Prop :=
  forall m1 m2 s maxlen support chars, payload m1 -> payload m2 -> mlen m1 = mlen m2 -> mlen m1 <= 221 -> cstring s -> 0 <= maxlen ->
    exists len type body,
      add_var_str m1 s maxlen support chars = Ok (appended m1 (len + 2 :: type :: body)) /\
      add_var_str m2 s maxlen support chars = Ok (appended m2 (len + 2 :: type :: body)) /\
      Z.of_nat (length body) = len /\ len + 2 <= 223 - mlen m1 /\ (type = 0 \/ type = 1) /\
      (type = 0 -> len mod 2 = 0) /\ bytes body /\
      (support = false -> type = 1).
(* No room for a field: with one free byte the code appends a length byte that counts itself (no type byte can follow), with none it
   appends nothing.  Nothing that has a length and a type byte fits, so these two outcomes are accepted as the consistent ones. *)
Definition var_str_degenerate_stmt : Prop :=
  forall m s maxlen support chars, payload m -> cstring s ->
    (mlen m = 222 -> add_var_str m s maxlen support chars = Ok (appended m [1])) /\
    (mlen m = 223 -> add_var_str m s maxlen support chars = Ok m).

(* ---------- 3. reading never overruns the destination / the payload and always terminates the destination ---------- *)
(* any payload bytes, any DataLen, any destination size including 0 (the destination is the list [dest], its length the size) *)
Definition get_safe_stmt : Prop :=
  forall m dest nul idx, payload m -> 0 <= idx ->
    let size := Z.of_nat (length dest) in
    (forall len, 0 <= len ->
       exists r i d, get_str_sized m size dest len nul idx = Ok (r, i, d) /\ length d = length dest /\ (0 < size -> In 0 d)) /\
    (exists r sz i d, get_var_str m size dest nul idx = Ok (r, sz, i, d) /\ length d = length dest /\ (0 < size -> In 0 d) /\ 0 <= i) /\
    (forall len, 0 <= len -> len + 1 <= size ->
       exists r i d, get_str_unsized m dest len idx = Ok (r, i, d) /\ length d = length dest /\ In 0 d).

(* ---------- 4. fixed-length and variable-length fields return their text ---------- *)
(* text without the padding character comes back, truncated to the field and to the buffer (size-1 characters + NUL) *)
Definition roundtrip_fixed_stmt : Prop :=
  forall m s len fillc dest, payload m -> cstring s -> 0 <= len -> mlen m + len <= 223 -> ~ In fillc s ->
    let size := Z.of_nat (length dest) in 0 < size ->
    exists m' d, add_str m s len fillc = Ok m' /\
      get_str_sized m' size dest len fillc (mlen m) = Ok (true, mlen m + len, d) /\
      c_str d = zfirstn (Z.min len (size - 1)) s.

Definition ascii (s:list Z) : Prop := Forall (fun b => 1 <= b <= 127) s.
Definition roundtrip_var_ascii_stmt : Prop :=
  forall m s maxlen support chars nul dest, payload m -> mlen m <= 221 -> ascii s -> 0 <= maxlen -> ~ In nul s ->
    let size := Z.of_nat (length dest) in 0 < size ->
    exists m' sz d, add_var_str m s maxlen support chars = Ok m' /\
      get_var_str m' size dest nul (mlen m) = Ok (true, sz, mlen m', d) /\
      c_str d = zfirstn (Z.min (Z.min (Z.min (Z.of_nat (length s)) maxlen) (221 - mlen m)) (size - 1)) s.

(* ---------- 5. AIS fields return the mapped text ---------- *)
(* ITU-R M.1371 6-bit alphabet 0x20..0x5F: lower case letters are upper-cased, everything else outside the alphabet becomes '?' *)
Definition ais_spec (b:Z) : Z :=
  if (97 <=? b) && (b <=? 122) then b - 32 else if (32 <=? b) && (b <=? 95) then b else 63.
Definition roundtrip_ais_stmt : Prop :=
  forall m s len dest, payload m -> cstring s -> 0 <= len -> ~ In 64 s ->
    let size := Z.of_nat (length dest) in
    let n := Z.min len (223 - mlen m) in          (* the field is clamped to the rest of the payload *)
    exists m', add_ais_str m s len = Ok m' /\ mlen m' = mlen m + n /\
      (0 < size -> exists d, get_str_sized m' size dest n 64 (mlen m) = Ok (true, mlen m', d) /\
                             c_str d = zfirstn (Z.min n (size - 1)) (map ais_spec s)) /\
      (size = n + 1 -> exists d, get_str_unsized m' dest n (mlen m) = Ok (true, mlen m', d) /\
                                 c_str d = zfirstn n (map ais_spec s)).

(* ---------- 6. UTF-8 text returns through a UCS-2 field ---------- *)
(* UTF-8, stated independently: code points -> bytes *)
Definition enc_cp (c:Z) : list Z :=
  if c <? 128 then [c]
  else if c <? 2048 then [192 + c / 64; 128 + c mod 64]
  else if c <? 65536 then [224 + c / 4096; 128 + (c / 64) mod 64; 128 + c mod 64]
  else [240 + c / 262144; 128 + (c / 4096) mod 64; 128 + (c / 64) mod 64; 128 + c mod 64].
Definition utf8 (cps:list Z) : list Z := flat_map enc_cp cps.
(* Unicode scalar values except NUL *)
Definition scalar (c:Z) : Prop := 1 <= c < 55296 \/ 57344 <= c < 1114112.
(* characters beyond the Basic Multilingual Plane are replaced by '?' *)
Definition bmp_repl (c:Z) : Z := if c <? 65536 then c else 63.
(* the longest prefix of code points whose UTF-8 form fits into [room] bytes (the first one that does not fit ends it) *)
Fixpoint take_fit (room:Z) (cps:list Z) : list Z :=
  match cps with
  | [] => []
  | c :: r => let n := Z.of_nat (length (enc_cp c)) in if n <=? room then c :: take_fit (room - n) r else []
  end.
(* number of characters AddVarStr(vss_SupportUnicode) keeps: plain ASCII text stays a byte string (one byte per character, maximum
   taken as given); anything else becomes UCS-2 (two bytes per character; the maximum counts bytes or characters) *)
Definition var_chars (cps:list Z) (maxlen:Z) (chars:bool) (room:Z) : Z :=
  if forallb (fun c => c <? 128) cps then Z.min (Z.min (Z.of_nat (length cps)) maxlen) room
  else Z.min room (if chars then 2 * maxlen else maxlen) / 2.
Definition roundtrip_bmp_stmt : Prop :=
  forall m cps maxlen chars nul dest, payload m -> mlen m <= 221 -> Forall scalar cps -> 0 <= maxlen ->
    ~ In nul (map bmp_repl cps) ->
    let size := Z.of_nat (length dest) in 0 < size ->
    exists m' sz d, add_var_str m (utf8 cps) maxlen true chars = Ok m' /\
      get_var_str m' size dest nul (mlen m) = Ok (true, sz, mlen m', d) /\
      c_str d = utf8 (take_fit (size - 1) (zfirstn (var_chars cps maxlen chars (221 - mlen m)) (map bmp_repl cps))).

(* non-vacuity: "Mäkelä€" *)
Definition nv_cps : list Z := [77; 228; 107; 101; 108; 228; 8364].
