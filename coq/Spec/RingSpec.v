(* Independent specification and fixed theorem statements for C20 (ring buffers).
   The specifications are list machines: a bounded FIFO, and for the priority ring the "span" from the oldest stored value to the
   newest, in which values read out of order leave a hole (None) - the ring does not compact. *)
From Coq Require Import ZArith List Bool.
From N2kV Require Import Base.ListAux Model.RingDefs.
Import ListNotations.
Local Open Scope Z_scope.

(* ---------- plain ring = FIFO of capacity size-1 ---------- *)
Definition fifo_step (cap:Z) (q:list Z) (o:rop) : list Z * rout :=
  match o with
  | RAdd v => if Z.of_nat (length q) <? cap then (q ++ [v], OBool true) else (q, OBool false)
  | RRead => match q with [] => (q, OVal None) | x::r => (r, OVal (Some x)) end
  | RPeek => (q, OVal (hd_error q))
  | RClear => ([], OUnit)
  | RCount => (q, ONum (Z.of_nat (length q)))
  | RIsEmpty => (q, OBool (match q with [] => true | _ => false end))
  end.
Fixpoint fifo_run (cap:Z) (q:list Z) (ops:list rop) : list Z * list rout :=
  match ops with
  | [] => (q, [])
  | o::rest => let '(q1, x) := fifo_step cap q o in let '(q2, xs) := fifo_run cap q1 rest in (q2, x::xs)
  end.

(* every operation sequence on a ring created with any requested size (below the uint16_t limit) answers exactly like the FIFO *)
Definition ring_refines_fifo_stmt : Prop :=
  forall s ops, s <= 65535 ->
    snd (ring_run (ring_new s) ops) = snd (fifo_run (clamp_size s - 1) [] ops).

(* ---------- priority ring ---------- *)
Definition span := list (option (Z * Z)).          (* (priority, value), oldest first; None = slot released out of order *)
Fixpoint strip (sp:span) : span := match sp with None :: r => strip r | _ => sp end.
(* remove the oldest value of priority p, leaving a hole *)
Fixpoint take_first (p:Z) (sp:span) : option (Z * span) :=
  match sp with
  | [] => None
  | Some (q, v) :: r => if q =? p then Some (v, None :: r)
                        else match take_first p r with Some (x, r') => Some (x, Some (q, v) :: r') | None => None end
  | None :: r => match take_first p r with Some (x, r') => Some (x, None :: r') | None => None end
  end.
Definition has_pri (p:Z) (sp:span) : bool := existsb (fun x => match x with Some (q, _) => q =? p | None => false end) sp.
(* numerically lowest priority that has a value, searching 0 .. maxp-1 *)
Fixpoint lowest (fuel:nat) (p:Z) (sp:span) : option Z :=
  match fuel with O => None | S k => if has_pri p sp then Some p else lowest k (p+1) sp end.
Definition eff (maxp p:Z) : Z := if p >=? maxp then maxp - 1 else p.

Definition pspec_step (size maxp:Z) (sp:span) (o:pop) : span * pout :=
  match o with
  | PAdd p v => if Z.of_nat (length sp) <? size - 1 then (sp ++ [Some (eff maxp p, v)], QBool true) else (sp, QBool false)
  | PReadPri p => match take_first (eff maxp p) sp with
                  | Some (v, sp') => (strip sp', QVal (Some v))
                  | None => (sp, QVal None)
                  end
  | PReadAny => match lowest (Z.to_nat maxp) 0 sp with
                | Some p => match take_first p sp with
                            | Some (v, sp') => (strip sp', QValPri (Some (v, p)))
                            | None => (sp, QValPri None)
                            end
                | None => (sp, QValPri None)
                end
  | PClear => ([], QUnit)
  | PCount => (sp, QNum (Z.of_nat (length sp)))
  | PIsEmpty p => (sp, QBool (if p >=? maxp then (match sp with [] => true | _ => false end) else negb (has_pri p sp)))
  end.
Fixpoint pspec_run (size maxp:Z) (sp:span) (ops:list pop) : span * list pout :=
  match ops with
  | [] => (sp, [])
  | o::rest => let '(s1, x) := pspec_step size maxp sp o in let '(s2, xs) := pspec_run size maxp s1 rest in (s2, x::xs)
  end.

Definition pop_ok (o:pop) : Prop :=
  match o with PAdd p _ => 0 <= p <= 255 | PReadPri p => 0 <= p <= 255 | PIsEmpty p => 0 <= p <= 255 | _ => True end.

(* every operation sequence on a priority ring (any requested size up to 65535, any requested priority count 0..255, priorities as
   uint8_t) answers exactly like the span machine: per-priority order, lowest-priority-first, refusal exactly at span = size-1 *)
Definition pring_refines_stmt : Prop :=
  forall s m ops, s <= 65535 -> 0 <= m <= 255 -> Forall pop_ok ops ->
    snd (pring_run (pring_new s m) ops) = snd (pspec_run (clamp_size s) (clamp_pri m) [] ops).

(* the span always starts with a stored value: so "add refused" means size-1 adds since (and including) the oldest stored value,
   and a ring holding no value has an empty span and accepts *)
Definition span_head_live_stmt : Prop :=
  forall size maxp ops, match fst (pspec_run size maxp [] ops) with None :: _ => False | _ => True end.

(* what the span machine means for the user: values of one priority come back in the order added, nothing is lost or duplicated.
   [adds p ops outs] = values successfully added with effective priority p, [reads p ...] = values returned for priority p *)
Fixpoint adds_of (maxp p:Z) (ops:list pop) (outs:list pout) : list Z :=
  match ops, outs with
  | PAdd q v :: r, QBool true :: r' => if eff maxp q =? p then v :: adds_of maxp p r r' else adds_of maxp p r r'
  | PClear :: _, _ => []          (* only sequences without clear are considered by the statement below *)
  | _ :: r, _ :: r' => adds_of maxp p r r'
  | _, _ => []
  end.
Fixpoint reads_of (maxp p:Z) (ops:list pop) (outs:list pout) : list Z :=
  match ops, outs with
  | PReadPri q :: r, QVal (Some v) :: r' => if eff maxp q =? p then v :: reads_of maxp p r r' else reads_of maxp p r r'
  | PReadAny :: r, QValPri (Some (v, q)) :: r' => if q =? p then v :: reads_of maxp p r r' else reads_of maxp p r r'
  | _ :: r, _ :: r' => reads_of maxp p r r'
  | _, _ => []
  end.
Definition no_clear (ops:list pop) : Prop := Forall (fun o => o <> PClear) ops.
Definition per_priority_fifo_stmt : Prop :=
  forall size maxp ops p, 0 < maxp -> Forall pop_ok ops -> no_clear ops ->
    let outs := snd (pspec_run size maxp [] ops) in
    exists rest, adds_of maxp p ops outs = reads_of maxp p ops outs ++ rest.
