(* C15 - reference layouts of the protocol PGNs and the commonly used data PGNs: a transcription of Appendix A of DESIGN.md (the
   public NMEA 2000 field definitions: bit offset, bit length, signedness, resolution), NOT derived from the library.  What ties a
   field to the library is only the number of the setter argument that feeds it (rf_arg, from the setter's signature).
   Fields in transmission order, little endian, bit 0 = least significant bit of byte 0.  Reserved bits are not constrained.
   The same table is read by tools/p_C15.py (one field per line:  mk <offset> <length> <kind> <argument> <first argument bit>). *)
From Coq Require Import ZArith List Bool.
From N2kV Require Import Model.SoftFloat Model.NumDefs Model.MsgIR Model.MsgExec Spec.MsgSpec.
Import ListNotations.
Local Open Scope Z_scope.

(* a published resolution as an exact rational, with the binary64 value nearest to it *)
Record res : Type := { r_num : Z; r_den : Z; r_bits : Z }.
Definition r_1e_16 : res := {| r_num := 1; r_den := 10000000000000000; r_bits := 4367597403136100796 |}.
Definition r_1e_7 : res := {| r_num := 1; r_den := 10000000; r_bits := 4502148214488346440 |}.
Definition r_3125e_11 : res := {| r_num := 1; r_den := 32000000; r_bits := 4494811194971254157 |}.
Definition r_1e_6 : res := {| r_num := 1; r_den := 1000000; r_bits := 4517329193108106637 |}.
Definition r_1e_4 : res := {| r_num := 1; r_den := 10000; r_bits := 4547007122018943789 |}.
Definition r_1e_3 : res := {| r_num := 1; r_den := 1000; r_bits := 4562254508917369340 |}.
Definition r_4e_3 : res := {| r_num := 1; r_den := 250; r_bits := 4571261708172110332 |}.
Definition r_1e_2 : res := {| r_num := 1; r_den := 100; r_bits := 4576918229304087675 |}.
Definition r_1e_1 : res := {| r_num := 1; r_den := 10; r_bits := 4591870180066957722 |}.
Definition r_25e_2 : res := {| r_num := 1; r_den := 4; r_bits := 4598175219545276416 |}.
Definition r_1 : res := {| r_num := 1; r_den := 1; r_bits := 4607182418800017408 |}.
Definition r_10 : res := {| r_num := 10; r_den := 1; r_bits := 4621819117588971520 |}.
Definition r_100 : res := {| r_num := 100; r_den := 1; r_bits := 4636737291354636288 |}.
Definition r_1000 : res := {| r_num := 1000; r_den := 1; r_bits := 4652007308841189376 |}.
Definition all_res : list res := [r_1e_16; r_1e_7; r_3125e_11; r_1e_6; r_1e_4; r_1e_3; r_4e_3; r_1e_2; r_1e_1; r_25e_2; r_1; r_10; r_100; r_1000].

(* r_bits is a positive normal double m * 2^e (2^52 <= m < 2^53) within half a unit in the last place of r_num / r_den *)
Definition nearest_double (r:res) : bool :=
  match decode b64 (r_bits r) with
  | FFin false m e => (2^52 <=? m) && (m <? 2^53) && (0 <? r_den r) &&
                      (if 0 <=? e then 2 * Z.abs (m * 2^e * r_den r - r_num r) <=? 2^e * r_den r
                       else 2 * Z.abs (m * r_den r - r_num r * 2^(-e)) <=? r_den r)
  | _ => false
  end.

Inductive refkind : Type :=
| KInt (signed:bool)                 (* uN / sN: the field holds the argument's bits (two's complement for sN) *)
| KScaled (s:option bool) (r:res)    (* scaled number: unsigned / signed / "?" (None: signedness not certain), value = code * r *)
| KText                              (* bytes of text, left aligned *)
| KSpecial (tag:Z).                  (* not expressible as a bit copy or a scaled field; compared by tools/p_C15.py only:
                                        1 = PGN list of 126464, 2 = interval of 126993 (argument in ms, field in 10 ms), 3 = constant (no argument),
                                        4 = field of the optional reference station record of 129029 *)

Record reffield : Type := { rf_off : Z; rf_len : Z; rf_kind : refkind; rf_arg : nat; rf_argbit : Z }.
Definition mk (off len:Z) (k:refkind) (a:nat) (ab:Z) : reffield := {| rf_off := off; rf_len := len; rf_kind := k; rf_arg := a; rf_argbit := ab |}.

Definition IU := KInt false.
Definition IS := KInt true.
Definition US (r:res) := KScaled (Some false) r.
Definition SS (r:res) := KScaled (Some true) r.
Definition QS (r:res) := KScaled None r.

(* PGN, name of the setter the argument numbers refer to (as a comment), fields *)
Definition ref_59392 : list reffield := [   (* SetN2kPGN59392 *)
  mk 0 8 IU 0 0;            (* control *)
  mk 8 8 IU 1 0;            (* group function *)
  mk 40 24 IU 2 0].         (* PGN *)
Definition ref_59904 : list reffield := [   (* SetN2kPGN59904 *)
  mk 0 24 IU 1 0].          (* PGN *)
Definition ref_60928 : list reffield := [   (* SetN2kPGN60928 *)
  mk 0 21 IU 0 0;           (* unique number *)
  mk 21 11 IU 1 0;          (* manufacturer *)
  mk 32 3 IU 4 0;           (* device instance lower *)
  mk 35 5 IU 4 3;           (* device instance upper *)
  mk 40 8 IU 2 0;           (* function *)
  mk 49 7 IU 3 0;           (* class *)
  mk 56 4 IU 5 0;           (* system instance *)
  mk 60 3 IU 6 0].          (* industry group *)
Definition ref_126464 : list reffield := [  (* SetN2kPGN126464 *)
  mk 0 8 IU 1 0;            (* function code *)
  mk 8 24 (KSpecial 1) 2 0].  (* PGN u24@8+24*i *)
Definition ref_126993 : list reffield := [  (* SetN2kPGN126993 *)
  mk 0 16 (KSpecial 2) 0 0;   (* interval/offset, x0.01 s *)
  mk 16 8 IU 1 0].          (* sequence counter *)
Definition ref_126996 : list reffield := [  (* SetN2kPGN126996 *)
  mk 0 16 IU 0 0;           (* NMEA 2000 version *)
  mk 16 16 IU 1 0;          (* product code *)
  mk 32 256 KText 2 0;     (* model ID *)
  mk 288 256 KText 3 0;    (* software version *)
  mk 544 256 KText 4 0;    (* model version *)
  mk 800 256 KText 5 0;    (* serial code *)
  mk 1056 8 IU 6 0;         (* certification level *)
  mk 1064 8 IU 7 0].        (* load equivalency *)
Definition ref_126992 : list reffield := [  (* SetN2kPGN126992 *)
  mk 0 8 IU 0 0;            (* SID *)
  mk 8 4 IU 3 0;            (* source *)
  mk 16 16 IU 1 0;          (* date *)
  mk 32 32 (US r_1e_4) 2 0].  (* time *)
Definition ref_127245 : list reffield := [  (* SetN2kPGN127245 *)
  mk 0 8 IU 1 0;            (* instance *)
  mk 8 3 IU 2 0;            (* direction order *)
  mk 16 16 (SS r_1e_4) 3 0;   (* angle order *)
  mk 32 16 (SS r_1e_4) 0 0].  (* position *)
Definition ref_127250 : list reffield := [  (* SetN2kPGN127250 *)
  mk 0 8 IU 0 0;            (* SID *)
  mk 8 16 (US r_1e_4) 1 0;    (* heading *)
  mk 24 16 (SS r_1e_4) 2 0;   (* deviation *)
  mk 40 16 (SS r_1e_4) 3 0;   (* variation *)
  mk 56 2 IU 4 0].          (* reference *)
Definition ref_127251 : list reffield := [  (* SetN2kPGN127251 *)
  mk 0 8 IU 0 0;            (* SID *)
  mk 8 32 (SS r_3125e_11) 1 0].  (* rate *)
Definition ref_127257 : list reffield := [  (* SetN2kPGN127257 *)
  mk 0 8 IU 0 0;            (* SID *)
  mk 8 16 (SS r_1e_4) 1 0;    (* yaw *)
  mk 24 16 (SS r_1e_4) 2 0;   (* pitch *)
  mk 40 16 (SS r_1e_4) 3 0].  (* roll *)
Definition ref_127488 : list reffield := [  (* SetN2kPGN127488 *)
  mk 0 8 IU 0 0;            (* instance *)
  mk 8 16 (US r_25e_2) 1 0;   (* speed *)
  mk 24 16 (US r_100) 2 0;    (* boost *)
  mk 40 8 IS 3 0].          (* tilt/trim *)
Definition ref_127489 : list reffield := [  (* SetN2kPGN127489_o2 *)
  mk 0 8 IU 0 0;            (* instance *)
  mk 8 16 (US r_100) 1 0;     (* oil pressure *)
  mk 24 16 (US r_1e_1) 2 0;   (* oil temp *)
  mk 40 16 (US r_1e_2) 3 0;   (* coolant temp *)
  mk 56 16 (SS r_1e_2) 4 0;   (* alternator *)
  mk 72 16 (SS r_1e_1) 5 0;   (* fuel rate *)
  mk 88 32 (US r_1) 6 0;      (* hours *)
  mk 120 16 (US r_100) 7 0;   (* coolant pressure *)
  mk 136 16 (US r_1000) 8 0;  (* fuel pressure *)
  mk 160 16 IU 11 0;        (* status 1 *)
  mk 176 16 IU 12 0;        (* status 2 *)
  mk 192 8 IS 9 0;          (* load *)
  mk 200 8 IS 10 0].        (* torque *)
Definition ref_127505 : list reffield := [  (* SetN2kPGN127505 *)
  mk 0 4 IU 0 0;            (* instance *)
  mk 4 4 IU 1 0;            (* type *)
  mk 8 16 (SS r_4e_3) 2 0;    (* level *)
  mk 24 32 (US r_1e_1) 3 0].  (* capacity *)
Definition ref_127508 : list reffield := [  (* SetN2kPGN127508 *)
  mk 0 8 IU 0 0;            (* instance *)
  mk 8 16 (QS r_1e_2) 1 0;    (* voltage *)
  mk 24 16 (SS r_1e_1) 2 0;   (* current *)
  mk 40 16 (US r_1e_2) 3 0;   (* temperature *)
  mk 56 8 IU 4 0].          (* SID *)
Definition ref_128259 : list reffield := [  (* SetN2kPGN128259 *)
  mk 0 8 IU 0 0;            (* SID *)
  mk 8 16 (US r_1e_2) 1 0;    (* water speed *)
  mk 24 16 (US r_1e_2) 2 0;   (* ground speed *)
  mk 40 8 IU 3 0].          (* reference type *)
Definition ref_128267 : list reffield := [  (* SetN2kPGN128267 *)
  mk 0 8 IU 0 0;            (* SID *)
  mk 8 32 (US r_1e_2) 1 0;    (* depth *)
  mk 40 16 (SS r_1e_3) 2 0;   (* offset *)
  mk 56 8 (US r_10) 3 0].     (* range *)
Definition ref_128275 : list reffield := [  (* SetN2kPGN128275 *)
  mk 0 16 IU 0 0;           (* date *)
  mk 16 32 (US r_1e_4) 1 0;   (* time *)
  mk 48 32 IU 2 0;          (* log *)
  mk 80 32 IU 3 0].         (* trip log *)
Definition ref_129025 : list reffield := [  (* SetN2kPGN129025 *)
  mk 0 32 (SS r_1e_7) 0 0;    (* latitude *)
  mk 32 32 (SS r_1e_7) 1 0].  (* longitude *)
Definition ref_129026 : list reffield := [  (* SetN2kPGN129026 *)
  mk 0 8 IU 0 0;            (* SID *)
  mk 8 2 IU 1 0;            (* COG reference *)
  mk 16 16 (US r_1e_4) 2 0;   (* COG *)
  mk 32 16 (US r_1e_2) 3 0].  (* SOG *)
Definition ref_129029 : list reffield := [  (* SetN2kPGN129029 *)
  mk 0 8 IU 0 0;            (* SID *)
  mk 8 16 IU 1 0;           (* date *)
  mk 24 32 (US r_1e_4) 2 0;   (* time *)
  mk 56 64 (SS r_1e_16) 3 0;  (* latitude *)
  mk 120 64 (SS r_1e_16) 4 0; (* longitude *)
  mk 184 64 (SS r_1e_6) 5 0;  (* altitude *)
  mk 248 4 IU 6 0;          (* type *)
  mk 252 4 IU 7 0;          (* method *)
  mk 256 2 (KSpecial 3) 0 0;  (* integrity *)
  mk 264 8 IU 8 0;          (* SVs *)
  mk 272 16 (SS r_1e_2) 9 0;  (* HDOP *)
  mk 288 16 (SS r_1e_2) 10 0; (* PDOP *)
  mk 304 32 (SS r_1e_2) 11 0; (* geoidal separation *)
  mk 336 8 (KSpecial 4) 12 0; (* reference stations *)
  mk 344 4 (KSpecial 4) 13 0; (* [station type *)
  mk 348 12 (KSpecial 4) 14 0;   (* station ID *)
  mk 360 16 (KSpecial 4) 15 0].  (* age, x0.01 s] *)
Definition ref_129033 : list reffield := [  (* SetN2kPGN129033 *)
  mk 0 16 IU 0 0;           (* date *)
  mk 16 32 (US r_1e_4) 1 0;   (* time *)
  mk 48 16 IS 2 0].         (* local offset *)
Definition ref_129283 : list reffield := [  (* SetN2kPGN129283 *)
  mk 0 8 IU 0 0;            (* SID *)
  mk 8 4 IU 1 0;            (* XTE mode *)
  mk 14 2 IU 2 0;           (* navigation terminated *)
  mk 16 32 (SS r_1e_2) 3 0].  (* XTE *)
Definition ref_129284 : list reffield := [  (* SetN2kPGN129284 *)
  mk 0 8 IU 0 0;            (* SID *)
  mk 8 32 (US r_1e_2) 1 0;    (* distance *)
  mk 40 2 IU 2 0;           (* bearing reference *)
  mk 42 2 IU 3 0;           (* perpendicular crossed *)
  mk 44 2 IU 4 0;           (* arrival circle *)
  mk 46 2 IU 5 0;           (* calculation type *)
  mk 48 32 (US r_1e_4) 6 0;   (* ETA time *)
  mk 80 16 IU 7 0;          (* ETA date *)
  mk 96 16 (US r_1e_4) 8 0;   (* bearing origin to destination *)
  mk 112 16 (US r_1e_4) 9 0;  (* bearing position to destination *)
  mk 128 32 IU 10 0;        (* origin waypoint *)
  mk 160 32 IU 11 0;        (* destination waypoint *)
  mk 192 32 (SS r_1e_7) 12 0; (* destination latitude *)
  mk 224 32 (SS r_1e_7) 13 0; (* destination longitude *)
  mk 256 16 (SS r_1e_2) 14 0].   (* closing velocity *)
Definition ref_129539 : list reffield := [  (* SetN2kPGN129539 *)
  mk 0 8 IU 0 0;            (* SID *)
  mk 8 3 IU 1 0;            (* desired mode *)
  mk 11 3 IU 2 0;           (* actual mode *)
  mk 16 16 (SS r_1e_2) 3 0;   (* HDOP *)
  mk 32 16 (SS r_1e_2) 4 0;   (* VDOP *)
  mk 48 16 (SS r_1e_2) 5 0].  (* TDOP *)
Definition ref_130306 : list reffield := [  (* SetN2kPGN130306 *)
  mk 0 8 IU 0 0;            (* SID *)
  mk 8 16 (US r_1e_2) 1 0;    (* wind speed *)
  mk 24 16 (US r_1e_4) 2 0;   (* wind angle *)
  mk 40 3 IU 3 0].          (* reference *)
Definition ref_130310 : list reffield := [  (* SetN2kPGN130310 *)
  mk 0 8 IU 0 0;            (* SID *)
  mk 8 16 (US r_1e_2) 1 0;    (* water temperature *)
  mk 24 16 (US r_1e_2) 2 0;   (* air temperature *)
  mk 40 16 (US r_100) 3 0].   (* pressure *)
Definition ref_130311 : list reffield := [  (* SetN2kPGN130311 *)
  mk 0 8 IU 0 0;            (* SID *)
  mk 8 6 IU 1 0;            (* temperature source *)
  mk 14 2 IU 3 0;           (* humidity source *)
  mk 16 16 (US r_1e_2) 2 0;   (* temperature *)
  mk 32 16 (SS r_4e_3) 4 0;   (* humidity *)
  mk 48 16 (US r_100) 5 0].   (* pressure *)
Definition ref_130312 : list reffield := [  (* SetN2kPGN130312 *)
  mk 0 8 IU 0 0;            (* SID *)
  mk 8 8 IU 1 0;            (* instance *)
  mk 16 8 IU 2 0;           (* source *)
  mk 24 16 (US r_1e_2) 3 0;   (* actual *)
  mk 40 16 (US r_1e_2) 4 0].  (* set *)
Definition ref_130313 : list reffield := [  (* SetN2kPGN130313 *)
  mk 0 8 IU 0 0;            (* SID *)
  mk 8 8 IU 1 0;            (* instance *)
  mk 16 8 IU 2 0;           (* source *)
  mk 24 16 (SS r_4e_3) 3 0;   (* actual *)
  mk 40 16 (SS r_4e_3) 4 0].  (* set *)
Definition ref_130314 : list reffield := [  (* SetN2kPGN130314 *)
  mk 0 8 IU 0 0;            (* SID *)
  mk 8 8 IU 1 0;            (* instance *)
  mk 16 8 IU 2 0;           (* source *)
  mk 24 32 (SS r_1e_1) 3 0].  (* pressure *)
Definition ref_130316 : list reffield := [  (* SetN2kPGN130316 *)
  mk 0 8 IU 0 0;            (* SID *)
  mk 8 8 IU 1 0;            (* instance *)
  mk 16 8 IU 2 0;           (* source *)
  mk 24 24 (US r_1e_3) 3 0;   (* temperature *)
  mk 48 16 (US r_1e_1) 4 0].  (* set temperature *)

(* ---------------------------------------------------------------- the check *)
Definition pbit (ap:list abyte) (k:Z) : option bt :=
  match nth (Z.to_nat (k / 8)) ap AOpq with ABits l => Some (nth (Z.to_nat (k mod 8)) l B0) | _ => None end.

Fixpoint is_str_window (l:list abyte) (len:Z) (a:nat) (i:nat) : bool :=
  match l with
  | [] => true
  | AStr len' a' i' :: r => (len' =? len) && Nat.eqb a' a && Nat.eqb i' i && is_str_window r len a (S i)
  | _ :: _ => false
  end.

Definition field_ok (gamma:list argty) (ap:list abyte) (f:reffield) : bool :=
  let off := rf_off f in let len := rf_len f in
  match rf_kind f with
  | KInt _ =>
    match nth_error gamma (rf_arg f) with
    | Some (TInt w sg) =>
      (0 <? w) && (0 <=? off) && (0 <=? rf_argbit f) &&
      forallb (fun j => match pbit ap (off + Z.of_nat j) with
                        | Some b => bt_eqb b (bit_at (av_arg (rf_arg f) w sg) (Z.to_nat (rf_argbit f) + j))
                        | None => false
                        end) (seq 0 (Z.to_nat len))
    | _ => false
    end
  | KScaled sg r =>
    let n := Z.to_nat (len / 8) in
    (off mod 8 =? 0) && (len mod 8 =? 0) && Nat.ltb 0 n && inside ap (off / 8) (Z.of_nat n) &&
    match window ap (off / 8) n, nth_error gamma (rf_arg f) with
    | ADbl n' s' p' (DArg a') 0 :: _, Some TDbl =>
      is_dbl_window (window ap (off / 8) n) n s' (r_bits r) (DArg (rf_arg f)) 0 &&
      match sg with Some s => Bool.eqb s s' | None => true end
    | _, _ => false
    end
  | KText =>
    let n := Z.to_nat (len / 8) in
    (off mod 8 =? 0) && (len mod 8 =? 0) && Nat.ltb 0 n && inside ap (off / 8) (Z.of_nat n) &&
    is_str_window (window ap (off / 8) n) (len / 8) (rf_arg f) 0
  | KSpecial _ => true
  end.

(* the checked fields lie in the part of the payload that the abstract run of the setter reaches *)
Definition layout_matches (s:setter) (ref:list reffield) : bool :=
  forallb (field_ok (s_args s) (fst (aset_pre (arg_env (s_args s)) (s_body s) []))) ref.
Definition layout_complete (s:setter) : bool := snd (aset_pre (arg_env (s_args s)) (s_body s) []).

(* ---------------------------------------------------------------- the statement *)
Definition payload_bit (data:list Z) (k:Z) : bool := Z.testbit (nth (Z.to_nat (k / 8)) data 0) (k mod 8).

Definition field_holds (f:reffield) (args:list argval) (data:list Z) : Prop :=
  match rf_kind f with
  | KInt _ => forall j, 0 <= j < rf_len f -> payload_bit data (rf_off f + j) = Z.testbit (arg_int args (rf_arg f)) (rf_argbit f + j)
  | KScaled sg r =>
    exists s, (sg = None \/ sg = Some s) /\
      field (Z.to_nat (rf_len f / 8)) (rf_off f / 8) data = add_double (Z.to_nat (rf_len f / 8)) s (arg_dbl args (rf_arg f)) (r_bits r)
  | KText => field (Z.to_nat (rf_len f / 8)) (rf_off f / 8) data = add_str (rf_len f / 8) (arg_txt args (rf_arg f))
  | KSpecial _ => True
  end.

(* for all arguments within their types' ranges the setter's payload carries, at every reference field, the argument's bits
   (integer, enumeration, flag fields: little endian, two's complement), the C06 quantisation of the argument with the published
   resolution and signedness (scaled fields: nearest code, "not available", out of range as proved for add_double), or the text *)
Definition layout_sound_stmt : Prop :=
  forall s ref, layout_matches s ref = true -> forall args, in_range (s_args s) args ->
  (forall msg, exec_set s args = Some msg -> Forall (fun f => field_holds f args (m_data msg)) ref) /\
  (layout_complete s = true -> exists msg, exec_set s args = Some msg).
