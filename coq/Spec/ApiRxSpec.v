(* C02 lifted to the public application calls of Model/ApiDefs.v: the run-level statements of Spec/RxSpec.v over the extended
   histories [xrun] (operations of the node interleaved with SendIsoAddressClaim, SendProductInformation, SendConfigurationInformation,
   SendTxPGNList, SendRxPGNList, SendHeartbeat, SetDeviceInformationInstances, SetDeviceInformation, Restart, SetMode, Set/Extend
   SingleFrame/FastPacket Messages, ExtendTransmitMessages, ExtendReceiveMessages, SetHandleOnlyKnownMessages, SetProductInformation).  The notions are those of Spec/RxSpec.v (justified, fp_dlv, gf_ok, rx_clean, rx_idle, fast_first,
   interleaved, seq_ok, run_complete, run_msg, key_of); only the history is extended: an API call contributes no arrived frame.

   What the calls do to reception:
   * none of them touches the reassembly table, hands anything to the application or changes the clock; only SetHandleOnlyKnownMessages
     changes the known-message switch (below);
   * ExtendTransmitMessages / ExtendReceiveMessages / SetProductInformation replace d_tx / x_rx / c_prodinfo, which reception does not read
     (the per-device lists are only reported by the PGN-list group function): they are INCLUDED in every statement below;
   * a SENDING call on a node that is not open yet goes through Open() (ApiDefs.open_first = NodeRxDefs.open_step), which in the state
     "CAN opened, waiting 200 ms" empties the driver's receive queue ("read rubbish out from CAN controller") - exactly what ParseMessages
     and SendMsg (RPoll, OSend) do on such a node.  Frames thrown away there justify nothing, so safety is unaffected; completeness is
     stated, as in RxSpec, for histories on which the node is open at every step;
   * SetMode changes the mode and the devices' addresses.  Reassembly does not look at either (the system handlers do, per complete
     message, and they deliver nothing themselves), so SetMode is INCLUDED in every statement below;
   * Set/Extend SingleFrame/FastPacket Messages (ASetPgnList) changes n_pgn, i.e. which PGNs the receiver takes for fast packets, possibly
     in the middle of a reassembly.  The safety statement classifies every delivery by ONE configuration, that of the start state
     (justified (n_pgn (rn r0))): a message reassembled as a fast packet because the application declared its PGN a fast packet half-way
     through the history is, under the start configuration, a single-frame PGN and no single frame carries it.  The statement is therefore
     false as soon as ASetPgnList may occur ([api_rx_no_corruption_all_refuted] gives the history) and ASetPgnList is EXCLUDED from the
     lifted statements by [api_keeps_lists] - exactly this call, nothing else.  (Deliveries made before the first ASetPgnList of a
     history are covered: apply the statement to that prefix.  A statement that classifies every delivery by the configuration in
     force when its first frame was stored would be the version for changing lists; it is not attempted here.)  The bound on the
     delivered length, [api_delivered_at_most_223_stmt], is a corollary of the safety statement and carries the same exclusion;
   * SetHandleOnlyKnownMessages (ASetOnlyKnown) changes c_only_known, the switch of the known-message filter every frame passes before it
     is stored.  SAFETY does not depend on it (a frame the filter drops justifies nothing; the invariant of the safety proof does not
     mention the switch), so the call is INCLUDED in [api_rx_no_corruption_stmt] and [api_delivered_at_most_223_stmt].  COMPLETENESS
     does: [fast_first r0 f0] says that the run's PGN passes the filter of the START state, and a proprietary fast-packet PGN the
     application has not listed passes it only while the switch is off - switch it on in the middle of the run and the remaining frames
     are dropped ([api_rx_complete_run_lists_refuted] gives the history).  The completeness statement therefore excludes, besides
     ASetPgnList, exactly this call ([api_keeps_switch], [keeps_filter]); [api_table_kept_stmt] states for it what is true: everything
     but the switch is kept. *)
From Coq Require Import ZArith List Bool.
From N2kV Require Import Base.ListAux Model.CanId Model.Sched Model.PgnClass Model.NodeDefs Model.NodeRxDefs Model.GroupFnDefs Model.ApiDefs
  Gen.GenTables Gen.GenConsts Spec.SendSpec Spec.RxSpec.
Import ListNotations.
Local Open Scope Z_scope.

(* the arrival stream of an extended history: the frames put into the driver's receive queue; API calls contribute none *)
Definition xframes_of (ops:list xop) : list rxframe :=
  flat_map (fun o => match o with XBase (RRx f) => [f] | _ => [] end) ops.

(* the calls that leave the application's PGN lists alone: all but Set/Extend SingleFrame/FastPacket Messages *)
Definition api_keeps_lists (a:api) : bool := match a with ASetPgnList _ _ => false | _ => true end.
Definition xop_keeps_lists (o:xop) : bool := match o with XBase _ => true | XApi a => api_keeps_lists a end.
Definition keeps_lists (ops:list xop) : Prop := forallb xop_keeps_lists ops = true.

(* the calls that leave the known-message switch alone: all but SetHandleOnlyKnownMessages *)
Definition api_keeps_switch (a:api) : bool := match a with ASetOnlyKnown _ => false | _ => true end.
(* the calls that leave the whole filter configuration (lists and switch) alone *)
Definition api_keeps_filter (a:api) : bool := api_keeps_lists a && api_keeps_switch a.
Definition xop_keeps_filter (o:xop) : bool := match o with XBase _ => true | XApi a => api_keeps_filter a end.
Definition keeps_filter (ops:list xop) : Prop := forallb xop_keeps_filter ops = true.

(* ================= safety for every extended history ================= *)
Definition api_rx_no_corruption_stmt : Prop :=
  forall gf r0 ops, gf_ok gf -> rx_clean r0 -> keeps_lists ops ->
    let ds := fp_dlv (concat (snd (xrun gf r0 ops))) in
    exists idxs, Forall2 (justified (n_pgn (rn r0)) (xframes_of ops)) ds idxs /\ NoDup (concat idxs).

(* the same statement without the exclusion is false: the start configuration does not classify what is reassembled after the
   application has changed its lists *)
Definition api_rx_no_corruption_all_stmt : Prop :=
  forall gf r0 ops, gf_ok gf -> rx_clean r0 ->
    let ds := fp_dlv (concat (snd (xrun gf r0 ops))) in
    exists idxs, Forall2 (justified (n_pgn (rn r0)) (xframes_of ops)) ds idxs /\ NoDup (concat idxs).

(* no non-TP delivery is longer than 223 bytes *)
Definition api_delivered_at_most_223_stmt : Prop :=
  forall gf r0 ops, gf_ok gf -> rx_clean r0 -> keeps_lists ops ->
    Forall (fun m => m_len m <= 223) (fp_dlv (concat (snd (xrun gf r0 ops)))).

(* ================= one call ================= *)
(* Every call except ASetPgnList leaves the reassembly table and the PGN configuration alone and hands nothing to the application; every
   such call except ASetOnlyKnown leaves the known-message switch alone; the driver's receive queue is kept or - only through Open() on a
   node that is not open - emptied; on an open node it is kept. *)
Definition api_table_kept_stmt : Prop :=
  forall r a, api_keeps_lists a = true ->
    r_slots (fst (api_step r a)) = r_slots r /\ n_pgn (rn (fst (api_step r a))) = n_pgn (rn r) /\
    (api_keeps_switch a = true -> c_only_known (r_cfg (fst (api_step r a))) = c_only_known (r_cfg r)) /\ dlv_of (snd (api_step r a)) = [] /\
    (r_q (fst (api_step r a)) = r_q r \/ r_q (fst (api_step r a)) = []) /\
    (n_open (rn r) = 3 -> r_q (fst (api_step r a)) = r_q r).

(* ================= run-level completeness ================= *)
Definition xstays_open (gf:rnode -> slot -> rnode * list event) (r0:rnode) (ops:list xop) : Prop :=
  forall k, n_open (rn (fst (xrun gf r0 (firstn k ops)))) = 3.
Definition api_rx_complete_run_stmt : Prop :=
  forall gf r0 ops pre f0 mid rest cs (keys:list (Z * Z * Z)),
    gf_ok gf -> rx_idle r0 -> xstays_open gf r0 ops -> keeps_filter ops ->
    Z.of_nat (length keys) <= nslots r0 -> (forall f, In f (xframes_of ops) -> In (key_of f) keys) ->
    xframes_of ops = pre ++ f0 :: mid ++ rest ->
    fast_first r0 f0 -> interleaved f0 cs mid -> seq_ok (fbyte f0 0) cs f0 -> run_complete f0 cs = true ->
    (forall cs', (length cs' < length cs)%nat -> cs' = firstn (length cs') cs -> run_complete f0 cs' = false) ->
    (length (r_q (fst (xrun gf r0 ops))) <= length rest)%nat ->
    In (run_msg f0 cs) (fp_dlv (concat (snd (xrun gf r0 ops)))).

(* the same statement with only ASetPgnList excluded is false: SetHandleOnlyKnownMessages(true) in the middle of a run of a proprietary
   fast-packet PGN the application has not listed makes the node drop the rest of the run *)
Definition api_rx_complete_run_lists_stmt : Prop :=
  forall gf r0 ops pre f0 mid rest cs (keys:list (Z * Z * Z)),
    gf_ok gf -> rx_idle r0 -> xstays_open gf r0 ops -> keeps_lists ops ->
    Z.of_nat (length keys) <= nslots r0 -> (forall f, In f (xframes_of ops) -> In (key_of f) keys) ->
    xframes_of ops = pre ++ f0 :: mid ++ rest ->
    fast_first r0 f0 -> interleaved f0 cs mid -> seq_ok (fbyte f0 0) cs f0 -> run_complete f0 cs = true ->
    (forall cs', (length cs' < length cs)%nat -> cs' = firstn (length cs') cs -> run_complete f0 cs' = false) ->
    (length (r_q (fst (xrun gf r0 ops))) <= length rest)%nat ->
    In (run_msg f0 cs) (fp_dlv (concat (snd (xrun gf r0 ops)))).
