(* C12 - heartbeats are sent on schedule with a correct interval field and sequence.
   Independent reference definitions (grid, payload, clipping) and the theorem statements about the shared node model
   (Model/Sched.v: tN2kSyncScheduler, Model/NodeRxDefs.v: send_heartbeat_dev = the body of SendHeartbeat's device loop,
   set_heartbeat_all = SetHeartbeatIntervalAndOffset, heartbeat_msg = SetN2kPGN126993, poll = ParseMessages).
   OUT OF SCOPE here: the group function handler for PGN 126993 (tN2kGroupFunctionHandlerForPGN126993, which accepts a narrower
   interval range) is not part of the shared model (its reaction is the Section variable gf); it is examined with the group functions. *)
From Coq Require Import ZArith List Bool.
From N2kV Require Import Base.ListAux Model.CanId Model.Sched Model.PgnClass Model.NodeDefs Model.NodeRxDefs Gen.GenTables Gen.GenConsts.
Import ListNotations.
Local Open Scope Z_scope.

(* ---------- reference definitions ---------- *)
(* the transmission grid of one scheduler: sync + offset + k * period, k = 0, 1, 2, ... *)
Definition on_grid (sync off period t:Z) : Prop := exists k, 0 <= k /\ t = sync + off + k * period.

(* the payload of PGN 126993: interval in units of 10 ms as 16-bit little endian (0xFFFE = out of range), sequence counter, 5 reserved bytes *)
Definition hb_field (period:Z) : Z := if period >? 655320 then 65534 else period / 10.
Definition hb_payload (period sq:Z) : list Z := [hb_field period mod 256; hb_field period / 256; sq; 255; 255; 255; 255; 255].
Definition hb_expected (src period sq:Z) : msg :=
  {| m_pri := 7; m_pgn := 126993; m_src := src; m_dst := 255; m_data := hb_payload period sq; m_tp := false |}.

(* what SetHeartbeatIntervalAndOffset makes of its arguments for a device whose current values are cur_* *)
Definition hb_resolve_period (iv cur:Z) : option Z :=        (* None = heartbeat disabled *)
  let v := if iv =? 4294967295 then cur else if iv =? 4294967294 then 60000 else iv in
  if v =? 0 then None else Some (Z.min 655320 (Z.max 1000 v)).
Definition hb_resolve_offset (off cur:Z) : Z := if off =? 4294967295 then cur else off.

Definition devx_with_hb (x:devx) (h:ssched) (sq:Z) : devx :=
  {| x_pend_claim := x_pend_claim x; x_pend_prod := x_pend_prod x; x_pend_conf := x_pend_conf x; x_hb := h; x_hb_seq := sq; x_rx := x_rx x |}.
Definition hb_at (h:ssched) (nx:Z) : ssched := {| ss_next := nx; ss_offset := ss_offset h; ss_period := ss_period h |}.

Definition TB : Z := 2^62.          (* "nothing wraps": all times, offsets and periods below 2^62 *)

(* ---------- 1. the grid ---------- *)
(* UpdateNextTime: with a positive period the next time is the least grid point strictly after now; it is at most one period
   ahead once the grid has started; a late call (large now) therefore delays a heartbeat but never moves the grid.  Period 0 disables. *)
Definition hb_grid_stmt : Prop :=
  forall now sync off period nx,
    0 <= now < TB -> 0 <= sync < TB -> 0 <= off < TB ->
    let s := {| ss_next := nx; ss_offset := off; ss_period := period |} in
    let s' := ss_update_next now sync s in
    ss_offset s' = off /\
    (0 < period < TB ->
       ss_period s' = period /\
       now < ss_next s' /\
       on_grid sync off period (ss_next s') /\
       (forall g, on_grid sync off period g -> now < g -> ss_next s' <= g) /\
       (off + sync <= now -> ss_next s' <= now + period) /\
       (ss_next s' - (off + sync)) mod period = 0 /\ off + sync <= ss_next s' /\
       (now < off + sync -> ss_next s' = off + sync) /\
       ss_next s' < 2 * TB) /\
    (period = 0 -> ss_next s' = ss_disabled /\ ss_period s' = 0 /\ forall t, t <= ss_disabled -> ss_is_time t s' = false).

(* ---------- 2. one device, one call of the SendHeartbeat loop body ---------- *)
(* the state after the bookkeeping that happens in any case: IsAddressClaimStarted may retire an expired claim timer, the 32-bit
   build's N2kMillis64 records the clock value it has seen *)
Definition hb_pre (r:rnode) (i:Z) : rnode := fst (millis64 (with_rn (chk_dev r i) (fst (claim_started (rn r) i)))).
Definition hb_now (r:rnode) (i:Z) : Z := snd (millis64 (with_rn (chk_dev r i) (fst (claim_started (rn r) i)))).
(* the heartbeat of device i is due: its address claim is not pending and the 64-bit clock is past the scheduled time *)
Definition hb_due (r:rnode) (i:Z) : bool :=
  negb (snd (claim_started (rn r) i)) && (ss_next (x_hb (get_devx r i)) <? hb_now r i).

Definition hb_schedule_stmt : Prop :=
  forall (r:rnode) (i:Z),
    0 <= i < Z.of_nat (length (rx_dev r)) ->
    let x := get_devx r i in
    let h := x_hb x in
    let t := hb_now r i in
    (* not due: no event, nothing changes except the bookkeeping above *)
    (hb_due r i = false ->
       send_heartbeat_dev r i = (if snd (claim_started (rn r) i) then with_rn (chk_dev r i) (fst (claim_started (rn r) i)) else hb_pre r i, []) /\
       rx_dev (fst (send_heartbeat_dev r i)) = rx_dev r) /\
    (* due: exactly one message - the heartbeat with the configured period and the current sequence value, from this device - goes
       through SendMsg; the scheduler has moved to the least grid point strictly after now before the send; afterwards the sequence
       counter is advanced *)
    (hb_due r i = true -> 0 < ss_period h < TB -> 0 <= ss_offset h < TB -> 0 <= r_sync r < TB -> 0 <= t < TB -> 0 <= x_hb_seq x <= 252 ->
       exists nx,
         t < nx /\ on_grid (r_sync r) (ss_offset h) (ss_period h) nx /\
         (forall g, on_grid (r_sync r) (ss_offset h) (ss_period h) g -> t < g -> nx <= g) /\
         let r1 := with_devx (hb_pre r i) i (devx_with_hb x (hb_at h nx) (x_hb_seq x)) in
         let '(r2, ev, _) := rsend r1 (hb_expected (d_src (get_dev (rn r1) i)) (ss_period h) (x_hb_seq x)) i in
         send_heartbeat_dev r i = (with_devx r2 i (devx_with_hb x (hb_at h nx) ((x_hb_seq x + 1) mod 253)), ev)).

(* ---------- 3. the interval field ---------- *)
Definition hb_interval_field_stmt : Prop :=
  forall src p sq,
    let m := heartbeat_msg src p sq in
    m_pri m = 7 /\ m_pgn m = 126993 /\ m_dst m = 255 /\ m_src m = src /\ m_tp m = false /\
    (0 <= p -> m = hb_expected src p sq) /\
    (1000 <= p <= 655320 ->
       exists lo hi, m_data m = [lo; hi; sq; 255; 255; 255; 255; 255] /\ 0 <= lo < 256 /\ 0 <= hi < 256 /\ lo + 256 * hi = p / 10) /\
    (655320 < p -> m_data m = [254; 255; sq; 255; 255; 255; 255; 255]).

(* ---------- 4. the sequence counter over any polling pattern ---------- *)
(* a polling pattern: before each call of the loop body for device i, anything may happen to the node (clock, traffic, other
   devices, interval changes ...) as long as it does not write this device's sequence counter; collected: the counter value at each
   call in which the heartbeat is due (= the value statement 2 shows in the message) *)
Fixpoint hb_calls (i:Z) (between:list (rnode -> rnode)) (r:rnode) : rnode * list Z :=
  match between with
  | [] => (r, [])
  | f :: rest =>
    let r1 := f r in
    let carried := if hb_due r1 i then [x_hb_seq (get_devx r1 i)] else [] in
    let '(r2, l) := hb_calls i rest (fst (send_heartbeat_dev r1 i)) in (r2, carried ++ l)
  end.
Definition keeps_seq (i:Z) (f:rnode -> rnode) : Prop :=
  forall r, length (rx_dev (f r)) = length (rx_dev r) /\ x_hb_seq (get_devx (f r) i) = x_hb_seq (get_devx r i).
Definition hb_sequence_stmt : Prop :=
  forall i between r,
    Forall (keeps_seq i) between -> 0 <= i < Z.of_nat (length (rx_dev r)) ->
    let v0 := x_hb_seq (get_devx r i) in
    0 <= v0 <= 252 ->
    let '(r', carried) := hb_calls i between r in
    carried = map (fun k => (v0 + Z.of_nat k) mod 253) (seq 0 (length carried)) /\
    x_hb_seq (get_devx r' i) = (v0 + Z.of_nat (length carried)) mod 253 /\
    0 <= x_hb_seq (get_devx r' i) <= 252 /\ Forall (fun v => 0 <= v <= 252) carried.

(* ---------- 5. SetHeartbeatIntervalAndOffset ---------- *)
(* set_heartbeat_all k r i iv off treats devices i .. i+k-1 (all devices: i = 0, k = device count; one device: k = 1) *)
Definition hb_changed (iv off:Z) (x:devx) : bool :=
  match hb_resolve_period iv (ss_period (x_hb x)) with
  | None => false
  | Some p => negb (ss_period (x_hb x) =? p) || negb (ss_offset (x_hb x) =? hb_resolve_offset off (ss_offset (x_hb x)))
  end.
Definition hb_clip_stmt : Prop :=
  forall (k:nat) (r:rnode) (i iv off:Z),
    0 <= i ->
    let r' := set_heartbeat_all k r i iv off in
    let t := snd (millis64 r) in
    rn r' = rn r /\ length (rx_dev r') = length (rx_dev r) /\ r_sync r' = r_sync r /\ r_slots r' = r_slots r /\ r_q r' = r_q r /\
    snd (millis64 r') = t /\
    (forall j, 0 <= j < Z.of_nat (length (rx_dev r)) ->
       let x := get_devx r j in
       let x' := get_devx r' j in
       (j < i \/ i + Z.of_nat k <= j -> x' = x) /\
       (i <= j < i + Z.of_nat k ->
          x_hb_seq x' = x_hb_seq x /\ x_pend_claim x' = x_pend_claim x /\ x_pend_prod x' = x_pend_prod x /\ x_pend_conf x' = x_pend_conf x /\
          x_rx x' = x_rx x /\
          match hb_resolve_period iv (ss_period (x_hb x)) with
          | None => x_hb x' = hb_at (x_hb x) ss_disabled                           (* disabled; period and offset kept *)
          | Some p =>
            1000 <= p <= 655320 /\
            (* recomputed when a value changes - and when the scheduler was disabled (interval 0 keeps period and offset) *)
            if hb_changed iv off x || (ss_next (x_hb x) =? ss_disabled)
            then x_hb x' = ss_update_next t (r_sync r) {| ss_next := ss_next (x_hb x); ss_offset := hb_resolve_offset off (ss_offset (x_hb x)); ss_period := p |}
            else x_hb x' = x_hb x
          end)) /\
    (r_devinfo_changed r' = r_devinfo_changed r ||
       existsb (fun j => hb_changed iv off (get_devx r j)) (map (fun n => i + Z.of_nat n) (seq 0 k))).

(* 5b. (repaired finding `reenable-stays-off`) a call with a non-zero interval leaves the device's heartbeat running - in particular
   after it had been switched off with interval 0 and is given the stored interval and offset again: the schedule restarts on the
   grid, at the least grid point after now *)
Definition hb_reenable_stmt : Prop :=
  forall r i iv off, 0 <= i < Z.of_nat (length (rx_dev r)) -> 0 <= r_sync r < TB -> 0 <= snd (millis64 r) < TB -> 0 <= off < 2^32 ->
    0 <= ss_offset (x_hb (get_devx r i)) < 2^32 ->
    hb_resolve_period iv (ss_period (x_hb (get_devx r i))) <> None ->
    let h := x_hb (get_devx r i) in
    let h' := x_hb (get_devx (set_heartbeat_all 1 r i iv off) i) in
    (ss_next h <> ss_disabled -> ss_next h' <> ss_disabled) /\
    (ss_next h = ss_disabled ->
       ss_next h' <> ss_disabled /\ snd (millis64 r) < ss_next h' /\ on_grid (r_sync r) (ss_offset h') (ss_period h') (ss_next h') /\
       (forall g, on_grid (r_sync r) (ss_offset h') (ss_period h') g -> snd (millis64 r) < g -> ss_next h' <= g) /\
       Some (ss_period h') = hb_resolve_period iv (ss_period h) /\ ss_offset h' = hb_resolve_offset off (ss_offset h)).
(* the former witness: a one-device node; heartbeat 60 s / 10 s; switched off; set to 60 s / 10 s again (Example in Props) *)
Definition hb_reenable_witness (cfg:rcfg) : rnode :=
  let r0 := cold_node true 1 5000 40 5 no_lists [mk_dev true 22 1 []] [[]] cfg in
  set_heartbeat_all 1 (set_heartbeat_all 1 r0 0 60000 10000) 0 0 0.

(* ---------- 6. no heartbeat from nodes that are not active bus devices ---------- *)
Section Silent.
Variable gf : rnode -> slot -> rnode * list event.
(* ParseMessages without the SendHeartbeat step *)
Definition poll_without_heartbeat (r:rnode) : rnode * list event :=
  let '(r1, ev0, opened) := if n_open (rn r) =? 3 then (r, [], true) else open_step r in
  if negb (opened && (n_open (rn r1) =? 3)) then (r1, ev0) else
  let '(r2, ev1) := rflush r1 in
  let '(r3, ev2) := send_pending_info (length (n_devs (rn r2))) r2 0 in
  let '(r4, ev3) := rx_loop gf (Z.to_nat c_MaxReadFramesOnParse) r3 in
  (r4, ev0 ++ ev1 ++ ev2 ++ ev3).
Definition gf_keeps_mode : Prop := forall r s, n_mode (rn (fst (gf r s))) = n_mode (rn r).
End Silent.

Definition hb_inactive_silent_stmt : Prop :=
  (* modes ListenOnly (0), SendOnly (3), ListenAndSend (4): the heartbeat code is not reached, whatever happens in the poll *)
  (forall gf r, gf_keeps_mode gf -> (n_mode (rn r) = 0 \/ n_mode (rn r) = 3 \/ n_mode (rn r) = 4) -> poll gf r = poll_without_heartbeat gf r) /\
  (* a device whose address claim is pending: nothing is sent and nothing changes *)
  (forall r i, snd (claim_started (rn r) i) = true -> send_heartbeat_dev r i = (chk_dev r i, [])) /\
  (* a node that is not open: SendMsg refuses everything, in particular a heartbeat *)
  (forall r m i, n_open (rn r) <> 3 -> rsend r m i = (r, [], false)) /\
  (* ... and ParseMessages does not get as far as the heartbeat before the node is open *)
  (forall gf r, n_open (rn r) <> 3 ->
     let '(r1, ev0, opened) := open_step r in n_open (rn r1) <> 3 -> poll gf r = (r1, ev0) /\ ev0 = []).

(* ---------- 7. Open() puts every heartbeat on the grid of the new SyncOffset ---------- *)
(* (repaired finding `origin-hb-before-open`) whatever SetHeartbeatIntervalAndOffset had stored before Open() - in particular the default
   values, which Open()'s own call does not regard as a change -, when Open() completes every device's heartbeat scheduler has the
   default period and offset and stands at SyncOffset + offset, where SyncOffset is the clock value at that moment: the first
   heartbeat comes 10 s after Open() *)
Definition hb_open_resync_stmt : Prop :=
  forall r r' ev, n_open (rn r) <> 3 -> open_step r = (r', ev, true) -> n_open (rn r') = 3 ->
    length (rx_dev r) = length (n_devs (rn r)) -> 0 <= r_sync r' < TB ->
    snd (millis64 r') = r_sync r' /\
    forall j, 0 <= j < Z.of_nat (length (rx_dev r')) ->
      x_hb (get_devx r' j) = {| ss_next := r_sync r' + 10000; ss_offset := 10000; ss_period := c_DefaultHeartbeatInterval |}.
