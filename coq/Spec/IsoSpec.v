(* C08 - ISO requests (PGN 59904) are always answered: data for the mandatory PGNs, a negative acknowledgement otherwise.
   Independent specification (reference layouts written from the published NMEA 2000 / ISO 11783 definitions, not from the model)
   and the theorem statements.  Proofs: Proofs/IsoProofsA.v .. IsoProofsE.v ; closing theorems: Props/Properties_C08.v.
   A node whose application cleared all three configuration strings is modelled by the empty 126998 payload (statement 2b). *)
From Coq Require Import ZArith List Bool.
From N2kV Require Import Base.ListAux Model.CanId Model.Sched Model.PgnClass Model.NodeDefs Model.NodeRxDefs Gen.GenTables Gen.GenConsts Spec.SendSpec.
Import ListNotations.
Local Open Scope Z_scope.

(* ================= reference layouts ================= *)
(* unsigned little-endian integer of k bytes *)
Fixpoint ref_le (k:nat) (v:Z) : list Z := match k with O => [] | S k' => v mod 256 :: ref_le k' (v / 256) end.

(* PGN 59392 ISO acknowledgement: control byte, group function, 3 reserved bytes, PGN (24 bit, little endian) *)
Definition ref_ack (control group_function pgn:Z) : list Z := [control; group_function; 255; 255; 255] ++ ref_le 3 pgn.
Definition ref_nak (pgn:Z) : list Z := ref_ack 1 255 pgn.
(* PGN 60928 ISO address claim: the 64-bit NAME *)
Definition ref_claim (name:Z) : list Z := ref_le 8 name.
(* PGN 126464 PGN list: function code (0 = transmit list, 1 = receive list) followed by the PGNs, 3 bytes each *)
Definition ref_pgn_list (function_code:Z) (pgns:list Z) : list Z := function_code :: concat (map (ref_le 3) pgns).
(* PGN 126996 product information: NMEA 2000 version, product code (u16 each), four fixed 32-byte text fields left aligned and padded
   with 0xFF (model id, software version code, model version, model serial code), certification level, load equivalency: 134 bytes *)
Definition ref_fixed_text (n:nat) (s:list Z) : list Z := firstn n s ++ repeat 255 (n - length s).
Definition ref_product_info (version code:Z) (model_id sw_code model_version serial:list Z) (cert load:Z) : list Z :=
  ref_le 2 version ++ ref_le 2 code ++ ref_fixed_text 32 model_id ++ ref_fixed_text 32 sw_code ++ ref_fixed_text 32 model_version
  ++ ref_fixed_text 32 serial ++ [cert; load].
(* PGN 126998 configuration information: three variable strings [length + 2; 1 = ASCII; bytes], in the order installation description 1,
   installation description 2, manufacturer information *)
Definition ref_var_string (s:list Z) : list Z := [Z.of_nat (length s) + 2; 1] ++ s.
Definition ref_config_info (inst1 inst2 manufacturer:list Z) : list Z := ref_var_string inst1 ++ ref_var_string inst2 ++ ref_var_string manufacturer.

(* the PGNs every device of the library declares in addition to the application's lists *)
Definition ref_default_tx : list Z := [59392; 59904; 60160; 60416; 60928; 126208; 126464; 126993; 126996; 126998].
Definition ref_default_rx : list Z := [59392; 59904; 60160; 60416; 60928; 65240; 126208].
Definition ref_list_cap : nat := 74.                       (* 1 + 3 * 74 = 223 bytes, the largest fast-packet payload *)
Definition ref_tx_list (r:rnode) (i:Z) : list Z := firstn ref_list_cap (ref_default_tx ++ d_tx (get_dev (rn r) i)).
Definition ref_rx_list (r:rnode) (i:Z) : list Z := firstn ref_list_cap (ref_default_rx ++ x_rx (get_devx r i)).
(* PGNs for which a broadcast request is not passed to the application's handler *)
Definition ref_ignore_broadcast : list Z := [127500; 130060; 130061; 130330; 130561; 130562; 130563; 130564; 130565; 130566].
Definition mandatory_pgn (p:Z) : bool := (p =? 60928) || (p =? 126464) || (p =? 126996) || (p =? 126998).

(* ================= what reaches the driver ================= *)
(* identifier: priority, PGN, source and (PDU1) destination, stated arithmetically (Spec/SendSpec.v) *)
Definition id_is (id prio pgn src dst:Z) : Prop :=
  0 <= id < 2^29 /\ id_prio id = prio /\ id_sa id = src /\
  (if pdu1 pgn then id_ps id = dst /\ id_dp id * 65536 + id_pf id * 256 = pgn
   else id_dp id * 65536 + id_pf id * 256 + id_ps id = pgn).
Definition frame_pgn (id:Z) : Z := snd (fst (fst (can_id_to_n2k id))).

(* frames still owed to the driver from earlier sends: an accepting driver gets them first, in order *)
Definition pending_flush (n:node) : list event := map (fun f => EvTx (f_id f) (f_len f) (f_data f) true) (ring_contents (n_q n)).

(* one single frame, accepted by the driver *)
Definition single_frame (ans:list event) (prio pgn src dst:Z) (payload:list Z) : Prop :=
  exists id, ans = [EvTx id (Z.of_nat (length payload)) payload true] /\ id_is id prio pgn src dst.
(* a fast-packet message: frames of 8 bytes under one identifier, all accepted, frame k carrying counter k and one sequence id,
   which the reference decoder turns back into the payload *)
Definition fp_message (frames:list (list Z)) (payload:list Z) : Prop :=
  Forall (fun f => length f = 8%nat) frames /\ ref_decode frames = Some payload /\
  Z.of_nat (length frames) = (if Z.of_nat (length payload) <=? 6 then 1 else 2 + (Z.of_nat (length payload) - 7) / 7) /\
  (forall k f, nth_error frames k = Some f -> frame_counter f = Z.of_nat k /\ hd 0 f / 32 = hd 0 (hd [] frames) / 32).
Definition fast_packet (ans:list event) (prio pgn src dst:Z) (payload:list Z) : Prop :=
  exists id frames, ans = map (fun f => EvTx id 8 f true) frames /\ id_is id prio pgn src dst /\ fp_message frames payload.

(* ================= hypotheses, named ================= *)
(* a device that is on the bus and entitled to send now: node open and in a mode that handles system messages (NodeOnly = 1,
   ListenAndNode = 2; a listen-only or send-only node has no device on the bus and answers nothing: see iso_system_dispatch_stmt),
   valid device index, a claimed address 0..251 (252..253 are reserved, 254 = cannot claim: the send gate refuses everything but
   the address claim, see iso_high_address_unanswered_stmt), no address claim pending *)
Definition on_bus (n:node) (i:Z) : Prop :=
  n_open n = 3 /\ (n_mode n = 1 \/ n_mode n = 2) /\ 0 <= i < dev_count n /\ 0 <= d_src (get_dev n i) <= 251 /\
  snd (claim_started n i) = false.
(* the driver accepts every frame; the send ring is well formed (it may hold frames from earlier sends) *)
Definition driver_accepts (n:node) : Prop := n_drv n = [] /\ ring_wf (n_q n).
(* the application has not declared the single-frame protocol PGNs 59392 / 60928 as fast-packet PGNs *)
Definition protocol_pgns_single (c:pgncfg) : Prop := is_fast_packet_pgn c 59392 = false /\ is_fast_packet_pgn c 60928 = false.
(* every device has its extended state (pending-information schedulers, heartbeat, receive list) *)
Definition rnode_wf (r:rnode) : Prop := length (rx_dev r) = length (n_devs (rn r)).
(* the node has configuration information to report when that is what is asked for.  "No configuration information at all" (the
   application cleared all three strings) is modelled as the empty payload: see iso_no_config_info_stmt *)
Definition config_info_present (c:rcfg) (p:Z) : Prop := p = 126998 -> c_confinfo c <> [].
Definition info_fits (c:rcfg) : Prop := (length (c_prodinfo c) <= 223)%nat /\ (length (c_confinfo c) <= 223)%nat.
Definition handler_accepts (c:rcfg) (p:Z) : bool := match c_iso_handler c with Some acc => existsb (Z.eqb p) acc | None => false end.
Definition quiet_after (n:node) : Prop := n_drv n = [] /\ ring_wf (n_q n) /\ q_rd (n_q n) = q_wr (n_q n).

(* the frames of the positive answers (the same for addressed and broadcast requests), device i of node r answering [requester] *)
Definition answer_frames (r:rnode) (requester p i:Z) (ans:list event) : Prop :=
  let d := get_dev (rn r) i in
  (p = 60928 -> single_frame ans 6 60928 (d_src d) 255 (ref_claim (d_name d))) /\
  (p = 126464 -> exists a1 a2, ans = a1 ++ a2 /\
                  fast_packet a1 6 126464 (d_src d) requester (ref_pgn_list 0 (ref_tx_list r i)) /\
                  fast_packet a2 6 126464 (d_src d) requester (ref_pgn_list 1 (ref_rx_list r i))) /\
  (p = 126996 -> fast_packet ans 6 126996 (d_src d) 255 (c_prodinfo (r_cfg r))) /\
  (p = 126998 -> fast_packet ans 6 126998 (d_src d) 255 (c_confinfo (r_cfg r))).
(* one device's positive answer: the frames still owed are flushed first, then the answer; everything is accepted, so the queue is
   empty afterwards and no retry of product / configuration information is armed *)
Definition positive_answer (r:rnode) (requester p i:Z) (res:rnode * list event) : Prop :=
  let '(r', ev) := res in
  exists ans, ev = pending_flush (rn r) ++ ans /\ quiet_after (rn r') /\ answer_frames r requester p i ans /\
  (p = 126996 -> sched_is_enabled (w64 r') (x_pend_prod (get_devx r' i)) = false) /\
  (p = 126998 -> sched_is_enabled (w64 r') (x_pend_conf (get_devx r' i)) = false).

(* ================= 1. addressed requests are answered ================= *)
(* every requested PGN value (one quantifier), every requester, every device of every node.  With an empty queue
   (q_rd = q_wr) [pending_flush] is [] (iso_addressed_empty_queue_stmt) *)
Definition iso_addressed_answered_stmt : Prop :=
  forall r requester p i, 0 <= p < 2^24 -> 0 <= requester < 256 ->
    on_bus (rn r) i -> driver_accepts (rn r) -> protocol_pgns_single (n_pgn (rn r)) -> info_fits (r_cfg r) -> rnode_wf r ->
    let d := get_dev (rn r) i in
    let res := respond_iso_request r requester true p i in
    (mandatory_pgn p = true -> config_info_present (r_cfg r) p -> positive_answer r requester p i res) /\
    (mandatory_pgn p = false -> handler_accepts (r_cfg r) p = true ->
       (* the application's handler took the request: the library itself sends nothing and does not touch the queue *)
       snd res = [EvNote (1000000 + p)] /\ rn (fst res) = fst (claim_started (rn r) i)) /\
    (mandatory_pgn p = false -> handler_accepts (r_cfg r) p = false ->
       exists ans, snd res = pending_flush (rn r) ++ ans /\ quiet_after (rn (fst res)) /\
                   single_frame ans 6 59392 (d_src d) requester (ref_nak p)).
Definition iso_addressed_empty_queue_stmt : Prop :=
  forall n, ring_wf (n_q n) -> q_rd (n_q n) = q_wr (n_q n) -> pending_flush n = [].

(* ================= 2. broadcast requests: never a negative acknowledgement, same positive answers ================= *)
(* Without any hypothesis on driver and queue contents: whatever frame with PGN 59392 is handed to the driver or sits in the queue
   afterwards was already queued before (i.e. it stems from an earlier addressed request) - the broadcast request creates none. *)
Definition iso_broadcast_never_nak_stmt : Prop :=
  forall r requester p i, 0 <= p < 2^24 -> 0 <= requester < 256 -> 0 <= i < dev_count (rn r) -> ring_wf (n_q (rn r)) ->
    Forall (fun d => 0 <= d_src d < 256) (n_devs (rn r)) ->
    let '(r', ev) := respond_iso_request r requester false p i in
    (forall id len data ok, In (EvTx id len data ok) ev -> frame_pgn id = 59392 ->
        exists f, In f (ring_contents (n_q (rn r))) /\ f_id f = id /\ f_len f = len /\ f_data f = data) /\
    (forall f, In f (ring_contents (n_q (rn r'))) -> frame_pgn (f_id f) = 59392 -> In f (ring_contents (n_q (rn r)))) /\
    ring_wf (n_q (rn r')) /\
    ((* with the hypotheses of statement 1, the mandatory PGNs draw the same positive answers *)
     mandatory_pgn p = true -> on_bus (rn r) i -> driver_accepts (rn r) -> protocol_pgns_single (n_pgn (rn r)) -> info_fits (r_cfg r) ->
     rnode_wf r -> config_info_present (r_cfg r) p -> positive_answer r requester p i (r', ev)) /\
    ((* the application's handler: asked unless the PGN is on the list of broadcast requests to ignore; the library sends nothing *)
     mandatory_pgn p = false -> snd (claim_started (rn r) i) = false ->
     ev = (if handler_accepts (r_cfg r) p && negb (existsb (Z.eqb p) ref_ignore_broadcast) then [EvNote (1000000 + p)] else []) /\
     n_q (rn r') = n_q (rn r) /\ n_drv (rn r') = n_drv (rn r)).

(* ================= 2b. no configuration information at all ================= *)
(* a request for PGN 126998 to a node that has nothing to report is treated like a request for a PGN the node cannot supply:
   addressed: exactly one negative acknowledgement to the requester naming 126998; broadcast: nothing is sent, nothing queued
   (before the repair 66b10af the negative acknowledgement went to the broadcast address in both cases) *)
Definition iso_no_config_info_stmt : Prop :=
  forall r requester i, 0 <= requester < 256 -> c_confinfo (r_cfg r) = [] ->
    (on_bus (rn r) i -> driver_accepts (rn r) -> protocol_pgns_single (n_pgn (rn r)) ->
     let res := respond_iso_request r requester true 126998 i in
     exists ans, snd res = pending_flush (rn r) ++ ans /\ quiet_after (rn (fst res)) /\
                 single_frame ans 6 59392 (d_src (get_dev (rn r) i)) requester (ref_nak 126998)) /\
    (0 <= i < dev_count (rn r) -> snd (claim_started (rn r) i) = false ->
     let res := respond_iso_request r requester false 126998 i in
     snd res = [] /\ n_q (rn (fst res)) = n_q (rn r) /\ n_drv (rn (fst res)) = n_drv (rn r) /\ rx_dev (fst res) = rx_dev r).

(* ================= 3. nothing while the address claim is pending ================= *)
Definition iso_claim_pending_silent_stmt : Prop :=
  forall r requester addressed p i, snd (claim_started (rn r) i) = true ->
    let '(r', ev) := respond_iso_request r requester addressed p i in
    ev = [] /\ rn r' = rn r /\ rx_dev r' = rx_dev r.

(* ================= 4. dispatch ================= *)
Definition requested_pgn (s:slot) : Z :=
  if (3 <=? s_len s) && (s_len s <=? 8) then nth 0 (s_data s) 0 + 256 * nth 1 (s_data s) 0 + 65536 * nth 2 (s_data s) 0 else 0.
(* i is the (first) device holding address a *)
Definition owner_of (n:node) (a i:Z) : Prop :=
  0 <= i < dev_count n /\ d_src (get_dev n i) = a /\ forall j, 0 <= j < i -> d_src (get_dev n j) <> a.
Definition not_ours (n:node) (a:Z) : Prop := 253 < a \/ forall j, 0 <= j < dev_count n -> d_src (get_dev n j) <> a.
Fixpoint broadcast_answers (devs:list Z) (r:rnode) (requester p:Z) : rnode * list event :=
  match devs with
  | [] => (r, [])
  | i :: rest => let '(r1, e1) := respond_iso_request r requester false p i in
                 let '(r2, e2) := broadcast_answers rest r1 requester p in (r2, e1 ++ e2)
  end.
Definition device_indices (n:node) : list Z := map Z.of_nat (seq 0 (length (n_devs n))).
(* a completely received request: all announced bytes are there *)
Definition complete (s:slot) : Prop := s_len s <= Z.of_nat (length (s_data s)).
Definition iso_dispatch_stmt : Prop :=
  forall r s, complete s ->
    (Forall (fun b => 0 <= b < 256) (s_data s) -> 0 <= requested_pgn s < 2^24) /\
    (s_dst s <> 255 -> not_ours (rn r) (s_dst s) -> handle_iso_request r s = (r, [])) /\
    (s_dst s = 255 -> handle_iso_request r s = broadcast_answers (device_indices (rn r)) r (s_src s) (requested_pgn s)) /\
    (forall i, s_dst s <= 253 -> owner_of (rn r) (s_dst s) i ->
       handle_iso_request r s = respond_iso_request r (s_src s) true (requested_pgn s) i).
(* a broadcast request for a mandatory PGN draws the positive answer of every device, in device order (all devices on the bus) *)
Definition iso_broadcast_all_devices_stmt : Prop :=
  forall r requester p, 0 <= requester < 256 -> mandatory_pgn p = true -> 0 < dev_count (rn r) ->
    (forall i, 0 <= i < dev_count (rn r) -> on_bus (rn r) i) -> driver_accepts (rn r) -> protocol_pgns_single (n_pgn (rn r)) ->
    info_fits (r_cfg r) -> rnode_wf r -> config_info_present (r_cfg r) p ->
    let '(r', ev) := broadcast_answers (device_indices (rn r)) r requester p in
    exists anss, ev = pending_flush (rn r) ++ concat anss /\ quiet_after (rn r') /\
      Forall2 (fun i ans => answer_frames r requester p i ans) (device_indices (rn r)) anss.
(* the mode hypothesis made explicit, for every reaction gf to group functions: PGN 59904 is always classified as a system message;
   an active node passes it to the dispatch above, a node in ListenOnly (0), SendOnly (3) or ListenAndSend (4) mode does nothing *)
Definition iso_system_dispatch_stmt : Prop :=
  forall (gf:rnode -> slot -> rnode * list event) r s, s_pgn s = 59904 ->
    (forall c, check_known c 59904 = (true, true, false)) /\
    (n_mode (rn r) = 1 \/ n_mode (rn r) = 2 -> s_system s = true -> handle_system gf r s = handle_iso_request r s) /\
    (n_mode (rn r) = 0 \/ n_mode (rn r) = 3 \/ n_mode (rn r) = 4 -> handle_system gf r s = (r, [])).

(* ================= 5. retry of product / configuration information ================= *)
Definition info_msg (r:rnode) (i pgn:Z) (payload:list Z) : msg :=
  {| m_pri := 6; m_pgn := pgn; m_src := d_src (get_dev (rn r) i); m_dst := 255; m_data := payload; m_tp := false |}.
Definition refused_frame (ev:list event) : Prop := exists id len data, In (EvTx id len data false) ev.
Definition iso_retry_stmt : Prop :=
  (* (a) the scheduler follows the result of SendMsg: success disarms, failure arms at now + 187 + 8 (resp. 10) * source ms *)
  (forall r i, 0 <= i < dev_count (rn r) -> rnode_wf r ->
     let '(r1, ev1, ok) := rsend r (info_msg r i 126996 (c_prodinfo (r_cfg r))) i in
     let '(r', ev) := send_product_info r i in
     ev = ev1 /\ rn r' = rn r1 /\
     x_pend_prod (get_devx r' i) = (if ok then sched_disabled (w64 r) else sched_from_now (w64 r) (now r) (187 + 8 * d_src (get_dev (rn r) i))) /\
     x_pend_conf (get_devx r' i) = x_pend_conf (get_devx r i) /\ x_pend_claim (get_devx r' i) = x_pend_claim (get_devx r i)) /\
  (forall r i, 0 <= i < dev_count (rn r) -> rnode_wf r ->
     let '(r1, ev1, ok) := rsend r (info_msg r i 126998 (c_confinfo (r_cfg r))) i in
     let '(r', ev) := send_config_info r i in
     ev = ev1 /\ rn r' = rn r1 /\
     x_pend_conf (get_devx r' i) = (if ok then sched_disabled (w64 r) else sched_from_now (w64 r) (now r) (187 + 10 * d_src (get_dev (rn r) i))) /\
     x_pend_prod (get_devx r' i) = x_pend_prod (get_devx r i) /\ x_pend_claim (get_devx r' i) = x_pend_claim (get_devx r i)) /\
  (* (b) when the send can fail for a device that is on the bus: only if the driver refused a frame during this very call
         (and then the queue had no room for the rest); never with an accepting driver *)
  (forall r i pgn payload, on_bus (rn r) i -> ring_wf (n_q (rn r)) -> (pgn = 126996 \/ pgn = 126998) ->
     let '(r1, ev1, ok) := rsend r (info_msg r i pgn payload) i in
     (ok = false -> refused_frame ev1) /\ (n_drv (rn r) = [] -> ok = true)) /\
  (* (c) SendPendingInformation for one device with nothing else due: re-attempts exactly when the time has come *)
  (forall r i, 0 <= i < dev_count (rn r) -> rnode_wf r -> d_tp_msg (get_dev (rn r) i) = None ->
     sched_is_time (w64 r) (now r) (x_pend_claim (get_devx r i)) = false ->
     let due_p := sched_is_time (w64 r) (now r) (x_pend_prod (get_devx r i)) in
     let due_c := sched_is_time (w64 r) (now r) (x_pend_conf (get_devx r i)) in
     send_pending_info_dev r i =
       (let '(r3, ev3) := if due_p then send_product_info r i else (r, []) in
        let '(r4, ev4) := if due_c then send_config_info r3 i else (r3, []) in (r4, ev3 ++ ev4))) /\
  (* (d) "the time has come": on the 64-bit scheduler build strictly after the armed instant *)
  (forall t0 delay t, 0 <= t0 -> 0 <= delay -> t0 + delay < 2^64 - 1 ->
     sched_is_enabled true (sched_from_now true t0 delay) = true /\
     sched_is_time true t (sched_from_now true t0 delay) = (t0 + delay <? t)) /\
  (*     on the 32-bit build from the armed instant (one ms later when the instant is the reserved value 2^32-1) for 2^31-2 ms *)
  (forall t0 delay t, 0 <= t0 -> 0 <= delay < 2^16 -> t0 <= t < t0 + 2^31 - 2 ->
     sched_is_enabled false (sched_from_now false t0 delay) = true /\
     (t < t0 + delay -> sched_is_time false t (sched_from_now false t0 delay) = false) /\
     (t0 + delay < t -> sched_is_time false t (sched_from_now false t0 delay) = true)).

(* ================= 6. the builders of the model against the reference layouts ================= *)
Definition iso_answers_match_reference_stmt : Prop :=
  (forall p, [1; 255; 255; 255; 255] ++ le_bytes 3 p = ref_nak p) /\
  (forall d dst, m_data (claim_msg d dst) = ref_claim (d_name d) /\ m_pgn (claim_msg d dst) = 60928 /\ m_pri (claim_msg d dst) = 6) /\
  (forall r i dst, m_data (pgn_list_msg r i dst 0 def_transmit_messages (d_tx (get_dev (rn r) i))) = ref_pgn_list 0 (ref_tx_list r i) /\
                   m_data (pgn_list_msg r i dst 1 def_receive_messages (x_rx (get_devx r i))) = ref_pgn_list 1 (ref_rx_list r i)) /\
  (forall r i dst w l1 l2, let m := pgn_list_msg r i dst w l1 l2 in
       m_pgn m = 126464 /\ m_pri m = 6 /\ m_dst m = dst /\ (length (m_data m) <= 223)%nat) /\
  is_ignore_broadcast_iso_request = (fun p => existsb (Z.eqb p) ref_ignore_broadcast) /\
  (* sizes of the reference layouts *)
  (forall v c a b m s ce l, length (ref_product_info v c a b m s ce l) = 134%nat) /\
  (forall a b m, length (ref_config_info a b m) = (6 + length a + length b + length m)%nat).

(* ================= 7. what "always" does not cover (refutations of the unhypothesised readings) ================= *)
(* (1) a device whose address is above 251 cannot answer: the send gate refuses (only the address claim passes) *)
Definition iso_high_address_unanswered_stmt : Prop :=
  exists r requester p i, 0 <= p < 2^24 /\ 0 <= requester < 256 /\
    n_open (rn r) = 3 /\ n_mode (rn r) = 1 /\ 0 <= i < dev_count (rn r) /\ snd (claim_started (rn r) i) = false /\ driver_accepts (rn r) /\
    q_rd (n_q (rn r)) = q_wr (n_q (rn r)) /\ 251 < d_src (get_dev (rn r) i) <= 253 /\
    mandatory_pgn p = false /\ handler_accepts (r_cfg r) p = false /\
    snd (respond_iso_request r requester true p i) = [] /\ rn (fst (respond_iso_request r requester true p i)) = rn r.
(* (2) an addressed request that arrives while the driver refuses and the queue is full is never answered: the negative
       acknowledgement is dropped and nothing is armed to repeat it (only product and configuration information are retried) *)
Definition iso_nak_dropped_when_queue_full_stmt : Prop :=
  exists r requester p i, 0 <= p < 2^24 /\ 0 <= requester < 256 /\ on_bus (rn r) i /\ ring_wf (n_q (rn r)) /\ mandatory_pgn p = false /\
    handler_accepts (r_cfg r) p = false /\
    let '(r', ev) := respond_iso_request r requester true p i in
    (forall id len data ok, In (EvTx id len data ok) ev -> ok = false) /\        (* nothing got through *)
    ring_contents (n_q (rn r')) = ring_contents (n_q (rn r)) /\                  (* nothing new queued *)
    rx_dev r' = rx_dev r /\ n_devs (rn r') = n_devs (rn r).                      (* no scheduler armed, no state that would repeat it *)
(* (2') the literal reading of "a broadcast request never produces an EvTx with PGN 59392" is false only through the queue: the flush
        that precedes the broadcast answer hands an earlier, still queued negative acknowledgement to the driver *)
Definition iso_broadcast_flushes_earlier_nak_stmt : Prop :=
  exists r requester p i, 0 <= p < 2^24 /\ on_bus (rn r) i /\ driver_accepts (rn r) /\
    exists id len data, In (EvTx id len data true) (snd (respond_iso_request r requester false p i)) /\ frame_pgn id = 59392.
