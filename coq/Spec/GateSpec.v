(* C04 - Nothing is transmitted when the node is not entitled to transmit.

   Independent notions and the fixed theorem statements.  All statements are about ONE step of the node ([rstep gf r op]) from an
   ARBITRARY state, for every group function reaction [gf] (statements 3 and 5: every [gf] that satisfies [gf_ok] below); by induction
   they hold along every history from every cold node.  The debug modes dm_ClearText / dm_Actisense divert all output to a stream, are not part of the shared node model
   and are out of scope.

   Vocabulary
   * "transmitted" = the library calls CANSendFrame = an [EvTx] event (accepted or refused: the library decided to transmit).
   * "produced"    = a frame is handed to SendFrame (it is then attempted directly or queued).  The model logs only driver calls, so
                     production is described by an abstract machine ([Run], below) that every step of the model is shown to refine.
   * claim pending = the device's AddressClaimTimer is enabled and has not expired ([claim_pending]), i.e. the 250 ms after
                     StartAddressClaim armed it.                                                                                   *)
From Coq Require Import ZArith List Bool.
From N2kV Require Import Base.ListAux Model.CanId Model.Sched Model.PgnClass Model.NodeDefs Model.NodeRxDefs Gen.GenTables Gen.GenConsts Spec.SendSpec.
Import ListNotations.
Local Open Scope Z_scope.

Definition is_tx (e:event) : bool := match e with EvTx _ _ _ _ => true | _ => false end.
Definition no_tx (ev:list event) : Prop := Forall (fun e => is_tx e = false) ev.
Definition tx_ids (ev:list event) : list Z := flat_map (fun e => match e with EvTx id _ _ _ => [id] | _ => [] end) ev.
Definition queue_ids (q:sring) : list Z := map f_id (ring_contents q).
Definition queue_empty (q:sring) : Prop := q_rd q = q_wr q.

(* the claim window of device i is open *)
Definition claim_pending (n:node) (i:Z) : bool :=
  let t := d_claim_timer (get_dev n i) in sched_is_enabled (n_w64 n) t && negb (sched_is_time (n_w64 n) (n_now n) t).

(* a node that claims its addresses: every mode but ListenOnly, SendOnly, ListenAndSend *)
Definition claims_addresses (n:node) : bool := negb (n_mode n =? 0) && negb (n_mode n =? 3) && negb (n_mode n =? 4).
(* the 64-bit scheduler computes now+250 modulo 2^64 and uses 2^64-1 as "disabled": a claim started in the last 251 ms before the
   clock wraps (after 584 million years) would not open a window.  The statements assume, for such nodes, a clock below 2^63 ms. *)
Definition clock_ok (n:node) : Prop := n_w64 n = true -> claims_addresses n = true -> 0 <= n_now n < 2^63.

(* ================= who may produce a frame =================
   In state n a frame with identifier id may be handed to SendFrame iff the node is open and not listen-only and the identifier
   encodes (priority, PGN, source, destination) such that the source is the CURRENT address of one of the node's devices i
   - or, for an application send with device index -1 only ([fwd] = true; the library's forwarding interface: the application chooses
     the source, the library checks device 0) -
   and, unless the PGN is 60928 (ISO address claim), device i's claim is not pending and the source is a usable address (<= 251; this
   excludes the null address 254). *)
Definition entitled (fwd:bool) (n:node) (id:Z) : Prop :=
  exists pri pgn src dst i,
    id = to_can_id pri pgn src dst /\ id <> 0 /\ pgn <> 0 /\ n_open n = 3 /\ n_mode n <> 0 /\
    ((0 <= i < dev_count n /\ src = d_src (get_dev n i)) \/ (fwd = true /\ i = 0)) /\
    (pgn <> 60928 -> claim_pending n i = false /\ src <= 251).

(* ================= the abstract machine =================
   Within one step of the node the clock does not advance.  The machine's moves:
   [R_quiet]  a change of state that hands nothing to the driver and leaves the send queue alone.  For every device it must either
              keep the address and not close an open claim window, or - the device takes a NEW address - leave the device with a
              pending claim whenever the node is one that claims its addresses (modes NodeOnly / ListenAndNode, open).
              So inside a step no window ever closes and no address is taken without a window being opened for it.
   [R_note]   an event that is not a driver call (delivery to the application, return value, OnOpen).
   [R_flush]  SendFrames: queued frames go to the driver, oldest first, while it accepts.
   [R_frame]  SendFrame(id,..) in a state in which id is entitled; effect as described by the FIFO machine of C11 ([send_frame]).
   [R_seq]    sequencing.
   The index [list Z] collects the identifiers produced, in order. *)
Definition quiet_change (n n':node) : Prop :=
  n_w64 n' = n_w64 n /\ n_mode n' = n_mode n /\ n_now n' = n_now n /\ n_q n' = n_q n /\ n_drv n' = n_drv n /\
  (n_open n = 3 -> n_open n' = 3) /\ dev_count n' = dev_count n /\
  forall j, (d_src (get_dev n' j) = d_src (get_dev n j) /\ (claim_pending n j = true -> claim_pending n' j = true))
         \/ (is_ready_to_send n' = true -> claim_pending n' j = true).

Inductive Run (fwd:bool) : node -> list event -> list Z -> node -> Prop :=
| R_quiet n n' : quiet_change n n' -> Run fwd n [] [] n'
| R_note n e : is_tx e = false -> Run fwd n [e] [] n
| R_flush n q d ev ok : flush (n_q n) (n_drv n) = (q, d, ev, ok) -> Run fwd n ev [] (upd_q n q d)
| R_frame n id len data wait q d ev ok :
    entitled fwd n id -> send_frame (n_q n) (n_drv n) id len data wait = (q, d, ev, ok) -> Run fwd n ev [id] (upd_q n q d)
| R_seq n1 ev1 p1 n2 ev2 p2 n3 : Run fwd n1 ev1 p1 n2 -> Run fwd n2 ev2 p2 n3 -> Run fwd n1 (ev1 ++ ev2) (p1 ++ p2) n3.

(* ================= hypothesis on the group function reaction =================
   Whatever HandleGroupFunction (the reaction to a complete PGN 126208 message) does, seen from the send side it is a run of the
   machine without forwarding: it hands frames to the driver only through SendFrame calls for identifiers that are entitled in the
   state in which they are made (which is what SendMsg guarantees, [send_msg_run]) and through SendFrames; it never closes a claim
   window and takes no address without opening one.  Needed by statements 3 and 5 only; statements 1, 2, 4 hold for EVERY gf (the
   handler is not reached in listen-only mode, before the node is open, or from SendMsg).  [gf_none] satisfies it. *)
Definition gf_ok (gf : rnode -> slot -> rnode * list event) : Prop :=
  forall r s r' ev, gf r s = (r', ev) -> clock_ok (rn r) -> exists p, Run false (rn r) ev p (rn r').

(* environment operations: the clock and the scripted driver are not the node's doing *)
Definition is_env (o:rop) : bool := match o with RBase (OTick _) | RBase (OAccept _) => true | _ => false end.
Definition is_fwd (o:rop) : bool := match o with RBase (OSend i _) => i <? 0 | _ => false end.

(* ================= 1. listen-only =================
   A listen-only node (whose send queue is empty, as it is from construction on) never calls the driver, whatever the operation; the
   queue stays empty, the driver's answer stream is not consumed, every application send returns false, the node stays listen-only. *)
Definition listen_only_silent_stmt : Prop :=
  forall gf r o r' ev, rstep gf r o = (r', ev) ->
    n_mode (rn r) = 0 -> queue_empty (n_q (rn r)) ->
    no_tx ev /\ n_mode (rn r') = 0 /\ n_q (rn r') = n_q (rn r) /\
    (match o with RBase (OAccept p) => n_drv (rn r') = p | _ => n_drv (rn r') = n_drv (rn r) end) /\
    (forall i m, o = RBase (OSend i m) -> forall b, In (EvResult b) ev -> b = false).

(* ================= 2. not open =================
   (a) Open() ([open_step]) calls the driver only in the call that completes it: the open state was WaitOpen (precisely: none of
       None, OpenCAN, Open - in every reachable state that is WaitOpen), the 200 ms settle timer armed by the call that opened the CAN
       interface has expired, and the call returns with the node open.  A call that does not complete leaves queue and driver alone.
   (b) A step of a node that is not open (send queue empty, as from construction) whose Open() - called by ParseMessages and SendMsg -
       does not complete in this step calls the driver not at all, queues nothing, returns false from SendMsg and leaves the node not open.
   (c) The settle delay: from a cold node constructed at time t0, no operation list whose clock stays below t0 + 200 (ticks are non
       negative) makes the node call the driver.  (The 64-bit scheduler compares strictly, so there the first frame comes at
       t0 + 202 at the earliest; the 32-bit scheduler fires at equality: CANOpen at t0, open at t0 + 200.) *)
Definition open_step_silent_stmt : Prop :=
  forall r r' ev b, open_step r = (r', ev, b) ->
    (ev = [] \/ (n_open (rn r) <> 0 /\ n_open (rn r) <> 1 /\ n_open (rn r) <> 3 /\ n_open (rn r') = 3 /\
                 sched_is_time (w64 r) (now r) (r_open_sched r) = true)) /\
    (n_open (rn r') <> 3 -> ev = [] /\ n_q (rn r') = n_q (rn r) /\ n_drv (rn r') = n_drv (rn r) /\ n_mode (rn r') = n_mode (rn r)).
Definition calls_open (o:rop) : bool := match o with RPoll | RBase (OSend _ _) => true | _ => false end.
Definition open_completes (r:rnode) : bool := n_open (rn (fst (fst (open_step r)))) =? 3.
Definition not_open_silent_stmt : Prop :=
  forall gf r o r' ev, rstep gf r o = (r', ev) ->
    n_open (rn r) <> 3 -> queue_empty (n_q (rn r)) -> (calls_open o = true -> open_completes r = false) ->
    no_tx ev /\ n_q (rn r') = n_q (rn r) /\ n_open (rn r') <> 3 /\ (forall b, In (EvResult b) ev -> b = false).

Definition ticks_nonneg (ops:list rop) : Prop := Forall (fun o => match o with RBase (OTick dt) => 0 <= dt | _ => True end) ops.
Fixpoint clock_after (t:Z) (ops:list rop) : Z := match ops with [] => t | RBase (OTick dt) :: r => clock_after (t + dt) r | _ :: r => clock_after t r end.
Definition settle_delay_stmt : Prop :=
  forall gf (w:bool) mode t0 qmax nsl pc devs rxls cfg ops,
    0 <= t0 -> t0 + 400 < (if w then 2^64 else 2^32) -> ticks_nonneg ops -> clock_after t0 ops < t0 + 200 ->
    Forall no_tx (snd (rrun gf (cold_node w mode t0 qmax nsl pc devs rxls cfg) ops)).

(* ================= 3. produced frames are entitled (the core) =================
   Every step of the node that is not an environment operation is a run of the machine: every frame it hands to SendFrame is entitled
   in the state in which it is handed over; everything else it does to the driver is flushing the queue.  Forwarding ([fwd]) occurs
   only in an application send with a negative device index. *)
Definition produced_frames_entitled_stmt : Prop :=
  forall gf, gf_ok gf -> forall r o r' ev, rstep gf r o = (r', ev) -> is_env o = false -> clock_ok (rn r) ->
    exists p, Run (is_fwd o) (rn r) ev p (rn r').

(* What a run guarantees in terms of the state at the START of the step (no intermediate state involved), for a node that claims its
   addresses (modes 1, 2) with a well-formed queue: every driver call concerns a frame that was already queued or one produced in this
   step, every frame queued afterwards likewise, and a produced frame that is not an ISO address claim carries the address that one of
   the devices held at the start of the step (<= 251, so not the null address), that device's claim was not pending at the start of the
   step, and the node is not listen-only.  (Stated for a step that starts on an open node; the step that opens the node sends the
   initial claims and is covered by the machine itself.)  In particular: while a device's claim is pending no frame other
   than address claims is produced from its address by that device. *)
Definition entitled_at_start (fwd:bool) (n:node) (id:Z) : Prop :=
  exists pri pgn src dst i,
    id = to_can_id pri pgn src dst /\ id <> 0 /\ n_mode n <> 0 /\
    (pgn <> 60928 ->
       claim_pending n i = false /\ src <= 251 /\
       ((0 <= i < dev_count n /\ src = d_src (get_dev n i)) \/ (fwd = true /\ i = 0))).
Definition run_start_stmt : Prop :=
  forall fwd n ev p n', Run fwd n ev p n' -> ring_wf (n_q n) -> n_open n = 3 -> n_mode n = 1 \/ n_mode n = 2 ->
    ring_wf (n_q n') /\ n_open n' = 3 /\
    (forall id, In id p -> entitled_at_start fwd n id) /\
    (forall id, In id (tx_ids ev) -> In id (queue_ids (n_q n)) \/ In id p) /\
    (forall id, In id (queue_ids (n_q n')) -> In id (queue_ids (n_q n)) \/ In id p).

(* ================= 4. application sends fail visibly =================
   SendMsg for a device whose claim is pending, or that holds an address above 251 (null address), or on a listen-only node, or on a node
   that is not open and whose Open() does not complete in this call, returns false (exactly one result event), hands nothing to the
   driver and leaves the send queue and the driver untouched - unless the message is itself an ISO address claim (PGN 60928), which the
   claim / address conditions do not stop.  (A node that is not open first runs Open(); the frames of a completing Open() are the
   initial address claims and belong to statement 2.) *)
Definition app_send_fails_visibly_stmt : Prop :=
  forall gf r idev m r' ev, rstep gf r (RBase (OSend idev m)) = (r', ev) ->
    let i := if idev >=? 0 then idev else 0 in
    let src := if idev >=? 0 then d_src (get_dev (rn r) idev) else m_src m in
    ( (n_open (rn r) = 3 /\ (n_mode (rn r) = 0 \/ (m_pgn m <> 60928 /\ (claim_pending (rn r) i = true \/ 251 < src))))
      \/ (n_open (rn r) <> 3 /\ open_completes r = false) ) ->
    ev = [EvResult false] /\ n_q (rn r') = n_q (rn r) /\ n_drv (rn r') = n_drv (rn r).

(* ================= 5. what reaches the driver during a claim window =================
   Let device i's claim be pending at the start of a step of an open node, let no device that is not claiming hold the same address, and let
   the send queue hold no frame with i's address other than address claims (e.g. the queue is empty).  Then every driver call of the step whose identifier encodes
   i's address (the one it holds at the start of the step) is an ISO address claim, and the queue still holds no other frame with that
   address afterwards.  [src_of] / [pgn_of] read an identifier the way the receiver does (CanIdToN2k); an address claim is recognised by
   its identifier being the encoding of PGN 60928 (C02 shows that the receiver's reading of such an identifier is PGN 60928). *)
Definition src_of (id:Z) : Z := let '(_, _, s, _) := can_id_to_n2k id in s.
Definition pgn_of (id:Z) : Z := let '(_, p, _, _) := can_id_to_n2k id in p.
Definition is_claim_id (id:Z) : Prop := exists pri src dst, id = to_can_id pri 60928 src dst.
Definition only_claims_from (a:Z) (ids:list Z) : Prop := forall id, In id ids -> src_of id = a -> is_claim_id id.
Definition addrs_ok (n:node) : Prop := forall j, 0 <= d_src (get_dev n j) < 256.
Definition wire_level_stmt : Prop :=
  forall gf, gf_ok gf -> forall r o r' ev i, rstep gf r o = (r', ev) -> is_env o = false -> is_fwd o = false -> clock_ok (rn r) ->
    ring_wf (n_q (rn r)) -> n_open (rn r) = 3 -> n_mode (rn r) = 1 \/ n_mode (rn r) = 2 -> addrs_ok (rn r) ->
    0 <= i < dev_count (rn r) -> claim_pending (rn r) i = true ->
    (forall j, 0 <= j < dev_count (rn r) -> claim_pending (rn r) j = false -> d_src (get_dev (rn r) j) <> d_src (get_dev (rn r) i)) ->
    only_claims_from (d_src (get_dev (rn r) i)) (queue_ids (n_q (rn r))) ->
    only_claims_from (d_src (get_dev (rn r) i)) (tx_ids ev) /\
    only_claims_from (d_src (get_dev (rn r) i)) (queue_ids (n_q (rn r'))).

(* Without the hypothesis on the queue the wire-level statement is FALSE (candidate D-05): a frame queued under driver back-pressure
   while its device was entitled is flushed by a later SendFrames - at the start of ParseMessages, or inside any SendFrame - while
   the device's claim is pending, carrying the address the device has meanwhile lost.  Witness: one device at address 30 with an
   application frame (PGN 127250) queued because the driver refused; a competing claim for 30 with a lower NAME arrives and is handled
   while the driver still refuses (the device moves to 31, its claim is queued, the window opens); 100 ms later the driver accepts and
   ParseMessages flushes the PGN 127250 frame with source 30. *)
Definition wire_level_refuted_stmt : Prop :=
  exists (r:rnode) (ops:list rop) (id:Z) (len:Z) (data:list Z),
    n_mode (rn r) = 1 /\ n_open (rn r) = 3 /\ queue_empty (n_q (rn r)) /\ dev_count (rn r) = 1 /\ d_src (get_dev (rn r) 0) = 30 /\ claim_pending (rn r) 0 = false /\
    let '(r', evs) := rrun gf_none r ops in
    claim_pending (rn r') 0 = true /\ d_src (get_dev (rn r') 0) = 31 /\
    In (EvTx id len data true) (last evs []) /\ src_of id = 30 /\ pgn_of id = 127250.
