(* C13 for the public application calls of Model/ApiDefs.v: the node-level statement of Spec/ClockSpec.v (section 6: moving the clock
   origin of the 64-bit build by c >= 0 commutes with every operation and the no-overflow bound time_ok is kept) lifted from
   rop / rstep / rrun to the extended operations xop / xstep / xrun.  The notions (shift_rnode, lift_res, time_ok, op_ok, gf_shift_ok)
   are those of Spec/ClockSpec.v; only the admissibility of an API call is new:

   * SendIsoAddressClaim(dest, iDev, delay) with delay > 0 arms the pending-claim scheduler at now + delay: the delay is not negative
     and now + delay + c stays below SB = 2^62, the bound time_ok (tbc) puts on every armed timer;
   * SetMode(mode, source) re-addresses the devices (source + i, wrapped as at initialisation): source is a byte and the device table
     has at most 256 entries, so that the stored addresses are bytes (time_ok requires d_src to be a byte: the pending-information
     delays 187 + 8 s / 187 + 10 s are computed from it);
   * nothing is asked of the other calls: device indices, destinations, NAME fields, instances, PGN lists (node-wide and per device:
     ExtendTransmitMessages / ExtendReceiveMessages), modes, the flag of SetHandleOnlyKnownMessages and the strings and numbers of
     SetProductInformation are arbitrary (out-of-range device indices are refused by the guards of the entry points, identically at
     both origins).  The last four calls do not involve time at all: they replace d_tx / x_rx / r_cfg, which the shift leaves as they
     are and time_ok does not mention.

   No call is excluded: every call of [api] is shift invariant. *)
From Coq Require Import ZArith List Bool.
From N2kV Require Import Base.ListAux Model.CanId Model.Sched Model.PgnClass Model.NodeDefs Model.NodeRxDefs Model.GroupFnDefs Model.SetModeDefs
  Model.ApiDefs Gen.GenTables Gen.GenConsts Spec.ClockSpec.
Import ListNotations.
Local Open Scope Z_scope.

Definition api_ok (c:Z) (r:rnode) (a:api) : Prop :=
  match a with
  | ASendClaim dst idev delay => 0 <= delay /\ n_now (rn r) + delay + c < SB
  | ASetMode mode src => 0 <= src < 256 /\ dev_count (rn r) <= 256
  | _ => True
  end.
Definition xop_ok (c:Z) (r:rnode) (o:xop) : Prop :=
  match o with
  | XBase o' => op_ok c r o'
  | XApi a => api_ok c r a
  end.

(* every extended operation: same frames, same deliveries, same results, and the resulting state is the shifted one *)
Definition api_node_shift_stmt : Prop :=
  forall c gf r o, 0 <= c -> gf_shift_ok c gf -> time_ok c r -> xop_ok c r o ->
    xstep gf (shift_rnode c r) o = lift_res c (xstep gf r o) /\ time_ok c (fst (xstep gf r o)).
Fixpoint xops_ok (c:Z) (gf:rnode -> slot -> rnode * list event) (r:rnode) (ops:list xop) : Prop :=
  match ops with [] => True | o :: rest => xop_ok c r o /\ xops_ok c gf (fst (xstep gf r o)) rest end.
Definition api_node_shift_run_stmt : Prop :=
  forall c gf ops r, 0 <= c -> gf_shift_ok c gf -> time_ok c r -> xops_ok c gf r ops ->
    xrun gf (shift_rnode c r) ops = (shift_rnode c (fst (xrun gf r ops)), snd (xrun gf r ops)).
