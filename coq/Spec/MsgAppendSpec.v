(* C05, repeated-record PGN 129540 (GNSS satellites in view): SetN2kPGN129540, then n x AppendN2kPGN129540, then both parsers.
   The append function is hand-modelled (Model/MsgAppendDefs.v), setter and parsers are the generated IR terms.  The computable
   checks below run the generated per-record parser symbolically (Spec/MsgSpec.v: arun with the record index fixed) on the
   symbolic payload of "header + n records"; they are evaluated for every n <= 18 and every index by vm_compute.
   Proved in Proofs/MsgAppendProofs.v. *)
From Coq Require Import ZArith List Bool.
From N2kV Require Import Model.SoftFloat Model.NumDefs Model.MsgIR Model.MsgExec Model.MsgAppendDefs Spec.NumSpec Spec.MsgSpec Gen.GenMessages.
Import ListNotations.
Local Open Scope Z_scope.

(* flat argument list of the whole construction: SID, Mode, then per record PRN, Elevation, Azimuth, SNR, RangeResiduals, UsageStatus *)
Definition rec_of (all:list argval) (k:nat) : list argval := firstn 6 (skipn (2 + 6 * k) all).
Definition hdr_of (all:list argval) : list argval := firstn 2 all.
Definition sat_rec_ty : list argty := [TInt 8 false; TDbl; TDbl; TDbl; TDbl; TInt 4 false].
Definition sat_gamma (n:nat) : list argty := [TInt 8 false; TInt 2 false] ++ concat (repeat sat_rec_ty n).

(* append records k, k+1, ..., k+n-1 *)
Fixpoint appends (m:msg) (all:list argval) (k n:nat) : list bool * msg :=
  match n with
  | O => ([], m)
  | S n' => let '(ok, m1) := append_129540 m (rec_of all k) in
            let '(oks, m2) := appends m1 all (S k) n' in (ok :: oks, m2)
  end.

(* the bytes of record k as IR writes over the flat argument list (what sat_record appends, see MsgAppendProofs.rec_w_exec) *)
Definition rec_w (k:nat) : wstmt :=
  let a := (2 + 6 * k)%nat in
  WSeq (WInt 1 (EArg a))
  (WSeq (WDouble 2 true p_1e4 (DArg (a + 1)))
  (WSeq (WDouble 2 false p_1e4 (DArg (a + 2)))
  (WSeq (WDouble 2 true p_1e2 (DArg (a + 3)))
  (WSeq (WDouble 4 true p_1e5 (DArg (a + 4)))
        (WInt 1 (EOr (EConst 240) (EArg (a + 5)))))))).
Fixpoint recs_w (k n:nat) : wstmt := match n with O => WSkip | S n' => WSeq (rec_w k) (recs_w (S k) n') end.

(* symbolic payload after n accepted appends: the two header bytes the setter wrote (whatever they are: named as the pseudo
   arguments 1000 and 1001), the count, the records *)
Definition hb0 : nat := 1000.
Definition hb1 : nat := 1001.
Definition sat_ap (n:nat) : option (list abyte) :=
  aset (arg_env (sat_gamma n)) (recs_w 0 n)
       [byte_of (av_arg hb0 8 false) 0; byte_of (av_arg hb1 8 false) 0; byte_of (av_const (Z.of_nat n)) 0].

Definition idx_arg (i:nat) : nat -> option Z := fun a => if Nat.eqb a 0 then Some (Z.of_nat i) else None.

Definition is_int_out (outs:list (nat * aslot)) (j a:nat) (w:Z) : bool :=
  match alookup j outs with Some (SInt v) => av_eqb v (av_arg a w false) | _ => false end.
Definition is_dbl_out (outs:list (nat * aslot)) (j a:nat) (nb:nat) (sg:bool) (p:Z) : bool :=
  match alookup j outs with
  | Some (SDbl nb' sg' p' def (DArg a')) => Nat.eqb nb' nb && Bool.eqb sg' sg && (p' =? p) && (def =? na_double_bits) && Nat.eqb a' a
  | _ => false
  end.

(* index i < n: the per-record parser returns true and its six outputs are record i *)
Definition sat_check_rec (n i:nat) : bool :=
  match sat_ap n with
  | Some ap =>
    match arun (idx_arg i) ap (p_body p_ParseN2kPGN129540_o2) ast0 with
    | Some x => let a := (2 + 6 * i)%nat in
                (match a_ret x with Some true => true | _ => false end) &&
                is_int_out (a_outs x) 0 a 8 && is_dbl_out (a_outs x) 1 (a + 1) 2 true p_1e4 && is_dbl_out (a_outs x) 2 (a + 2) 2 false p_1e4 &&
                is_dbl_out (a_outs x) 3 (a + 3) 2 true p_1e2 && is_dbl_out (a_outs x) 4 (a + 4) 4 true p_1e5 && is_int_out (a_outs x) 5 (a + 5) 4
    | None => false
    end
  | None => false
  end.
(* index i >= n: it returns false *)
Definition sat_check_beyond (n i:nat) : bool :=
  match sat_ap n with
  | Some ap => match arun (idx_arg i) ap (p_body p_ParseN2kPGN129540_o2) ast0 with
               | Some x => match a_ret x with Some false => true | _ => false end
               | None => false
               end
  | None => false
  end.
(* the header parser returns true and reports n *)
Definition sat_check_hdr (n:nat) : bool :=
  match sat_ap n with
  | Some ap => match arun no_pargs ap (p_body p_ParseN2kPGN129540) ast0 with
               | Some x => (match a_ret x with Some true => true | _ => false end) &&
                           (match alookup 2 (a_outs x) with Some (SInt v) => av_eqb v (av_const (Z.of_nat n)) | _ => false end)
               | None => false
               end
  | None => false
  end.

Definition sat_checks : bool :=
  forallb (fun n => sat_check_hdr n && forallb (sat_check_rec n) (seq 0 n) && forallb (sat_check_beyond n) (seq n (256 - n))) (seq 0 19) &&
  (match p_guard p_ParseN2kPGN129540_o2, p_guard p_ParseN2kPGN129540 with Some a, Some b => (a =? 129540) && (b =? 129540) | _, _ => false end).

(* ---- the statement *)
Definition sat_parse (i:nat) (m:msg) (g:list Z) : pres := exec_parse p_ParseN2kPGN129540_o2 [VI (Z.of_nat i)] (with_garbage m g).

Definition satellites_roundtrip_stmt : Prop :=
  forall n all, (n <= 18)%nat -> in_range (sat_gamma n) all ->
  exists m0, exec_set s_SetN2kPGN129540 (hdr_of all) = Some m0 /\
  let oks := fst (appends m0 all 0 n) in let m := snd (appends m0 all 0 n) in
  (* every append is accepted *)
  Forall (fun b => b = true) oks /\ length oks = n /\
  (* the header parser reports n records *)
  (forall g, let r := exec_parse p_ParseN2kPGN129540 [] (with_garbage m g) in r_ret r = true /\ out_of r 2 = Some (VI (Z.of_nat n))) /\
  (* the per-record parser returns record i: PRN and usage status exactly, the scaled fields as the decoding of the stored codes *)
  (forall i g, (i < n)%nat ->
     let r := sat_parse i m g in let a := (2 + 6 * i)%nat in
     r_ret r = true /\ r_ub r = false /\
     out_of r 0 = Some (VI (arg_int all a)) /\ out_of r 5 = Some (VI (arg_int all (a + 5))) /\
     out_of r 1 = Some (VD (scaled_rt 2 true p_1e4 na_double_bits (arg_dbl all (a + 1)))) /\
     out_of r 2 = Some (VD (scaled_rt 2 false p_1e4 na_double_bits (arg_dbl all (a + 2)))) /\
     out_of r 3 = Some (VD (scaled_rt 2 true p_1e2 na_double_bits (arg_dbl all (a + 3)))) /\
     out_of r 4 = Some (VD (scaled_rt 4 true p_1e5 na_double_bits (arg_dbl all (a + 4))))) /\
  (* an index at or beyond the count is refused *)
  (forall i g, (n <= i < 256)%nat -> r_ret (sat_parse i m g) = false) /\
  (* at the maximum, a further append is refused and leaves the message unchanged *)
  (n = 18%nat -> forall r, append_129540 m r = (false, m)).
