(* C05 / C15 - specification side of the generic theorems about the field-level IR.
   This file contains (a) the COMPUTABLE checks that the generated per-function obligations evaluate with vm_compute
   (rt_check, guard_check, and for C15 layout_matches in Spec/RefLayouts.v) and (b) the theorem statements, as Props.
   The checks work on a symbolic bit-level abstraction: every bit of an integer value is 0, 1, or bit j of integer argument a
   (possibly negated); a setter is run abstractly into a list of abstract payload bytes, a parser is run abstractly on that list.
   Proved in Proofs/MsgProofs.v. *)
From Coq Require Import ZArith List Bool Lia.
From N2kV Require Import Model.SoftFloat Model.NumDefs Model.MsgIR Model.MsgExec Spec.NumSpec.
Import ListNotations.
Local Open Scope Z_scope.

(* ---------------------------------------------------------------- symbolic bits and values *)
Inductive bt : Type := B0 | B1 | BV (a j:nat) (neg:bool).

Definition bt_eqb (x y:bt) : bool :=
  match x, y with
  | B0, B0 | B1, B1 => true
  | BV a j n, BV a' j' n' => Nat.eqb a a' && Nat.eqb j j' && Bool.eqb n n'
  | _, _ => false
  end.
Definition bnot (x:bt) : bt := match x with B0 => B1 | B1 => B0 | BV a j n => BV a j (negb n) end.
Definition band (x y:bt) : option bt :=
  match x, y with
  | B0, _ | _, B0 => Some B0
  | B1, z | z, B1 => Some z
  | BV a j n, BV a' j' n' => if Nat.eqb a a' && Nat.eqb j j' then Some (if Bool.eqb n n' then x else B0) else None
  end.
Definition bor (x y:bt) : option bt := option_map bnot (band (bnot x) (bnot y)).
Definition bxor (x y:bt) : option bt :=
  match x, y with
  | B0, z | z, B0 => Some z
  | B1, z | z, B1 => Some (bnot z)
  | BV a j n, BV a' j' n' => if Nat.eqb a a' && Nat.eqb j j' then Some (if Bool.eqb n n' then B0 else B1) else None
  end.
(* c ? x : y for a condition bit c *)
Definition bmux (c x y:bt) : option bt :=
  if bt_eqb x y then Some x else
  match c with
  | B0 => Some y
  | B1 => Some x
  | _ => match x, y with B1, B0 => Some c | B0, B1 => Some (bnot c) | _, _ => None end
  end.

(* value of a symbolic bit under an assignment of the integer arguments *)
Definition bt_val (beta:nat -> Z) (b:bt) : bool :=
  match b with B0 => false | B1 => true | BV a j n => xorb n (Z.testbit (beta a) (Z.of_nat j)) end.

(* an integer in two's complement: bits (least significant first), all further bits equal sgn *)
Record av : Type := { bits : list bt; sgn : bt }.
Definition bit_at (v:av) (i:nat) : bt := nth i (bits v) (sgn v).
Definition represents (beta:nat -> Z) (v:av) (z:Z) : Prop := forall i:nat, Z.testbit z (Z.of_nat i) = bt_val beta (bit_at v i).

Fixpoint sequence {A} (l:list (option A)) : option (list A) :=
  match l with
  | [] => Some []
  | Some x :: r => match sequence r with Some t => Some (x :: t) | None => None end
  | None :: _ => None
  end.

Definition av_map2 (f:bt -> bt -> option bt) (x y:av) : option av :=
  let n := Nat.max (length (bits x)) (length (bits y)) in
  match sequence (map (fun i => f (bit_at x i) (bit_at y i)) (seq 0 n)), f (sgn x) (sgn y) with
  | Some l, Some s => Some {| bits := l; sgn := s |}
  | _, _ => None
  end.
Definition av_not (x:av) : av := {| bits := map bnot (bits x); sgn := bnot (sgn x) |}.
Definition av_shl (x:av) (k:Z) : av := {| bits := repeat B0 (Z.to_nat k) ++ bits x; sgn := sgn x |}.
Definition av_shr (x:av) (k:Z) : av := {| bits := skipn (Z.to_nat k) (bits x); sgn := sgn x |}.
Definition av_cast (w:Z) (s:bool) (x:av) : av :=
  let n := Z.to_nat w in
  let l := map (bit_at x) (seq 0 n) in
  {| bits := l; sgn := if s then nth (n - 1) l B0 else B0 |}.
Definition av_const (z:Z) : av :=
  let n := (Z.to_nat (Z.log2 (Z.abs z)) + 2)%nat in
  {| bits := map (fun i => if Z.testbit z (Z.of_nat i) then B1 else B0) (seq 0 n); sgn := if z <? 0 then B1 else B0 |}.
Definition av_of_bit (b:bt) : av := {| bits := [b]; sgn := B0 |}.

(* x != 0 as a single symbolic bit: possible when at most one bit of x is not a known zero *)
Definition nonzero_bit (x:av) : option bt :=
  let all := sgn x :: bits x in
  if existsb (bt_eqb B1) all then Some B1 else
  match filter (fun b => negb (bt_eqb b B0)) all with
  | [] => Some B0
  | [b] => Some b
  | _ => None
  end.
Definition av_eqb (x y:av) : bool :=
  let n := Nat.max (length (bits x)) (length (bits y)) in
  forallb (fun i => bt_eqb (bit_at x i) (bit_at y i)) (seq 0 n) && bt_eqb (sgn x) (sgn y).

(* the symbolic value of integer argument a of declared type (w, s) *)
Definition av_arg (a:nat) (w:Z) (s:bool) : av :=
  let n := Z.to_nat w in
  {| bits := map (fun j => BV a j false) (seq 0 n); sgn := if s then BV a (n - 1) false else B0 |}.

(* a symbolic value all of whose bits are known: its integer (the candidate is computed from the bits and then confirmed by
   comparing its canonical form, so that soundness needs no arithmetic about the sum) *)
Definition bt_is_const (b:bt) : bool := match b with BV _ _ _ => false | _ => true end.
Definition av_to_const (v:av) : option Z :=
  if forallb bt_is_const (sgn v :: bits v) then
    let z := fold_right (fun b acc => (if bt_eqb b B1 then 1 else 0) + 2 * acc) (if bt_eqb (sgn v) B1 then -1 else 0) (bits v) in
    if av_eqb (av_const z) v then Some z else None
  else None.
Definition cst2 (f:Z -> Z -> Z) (x y:option av) : option av :=
  match x, y with
  | Some a, Some b => match av_to_const a, av_to_const b with Some p, Some q => Some (av_const (f p q)) | _, _ => None end
  | _, _ => None
  end.

(* abstraction environment: symbolic values of the arguments and of the read slots that are known *)
Record aenv : Type := { ae_arg : nat -> option av; ae_slot : nat -> option av }.

Definition obind {A B} (o:option A) (f:A -> option B) : option B := match o with Some x => f x | None => None end.

Fixpoint abs (g:aenv) (e:iexpr) : option av :=
  match e with
  | EArg a => ae_arg g a
  | ESlot k => ae_slot g k
  | EConst z => Some (av_const z)
  | EAnd a b => obind (abs g a) (fun x => obind (abs g b) (fun y => av_map2 band x y))
  | EOr a b => obind (abs g a) (fun x => obind (abs g b) (fun y => av_map2 bor x y))
  | EXor a b => obind (abs g a) (fun x => obind (abs g b) (fun y => av_map2 bxor x y))
  | EShl a k => if 0 <=? k then option_map (fun x => av_shl x k) (abs g a) else None
  | EShr a k => if 0 <=? k then option_map (fun x => av_shr x k) (abs g a) else None
  | ENot a => option_map av_not (abs g a)
  | ECast w s a => if 0 <? w then option_map (av_cast w s) (abs g a) else None
  | EBool a => obind (abs g a) (fun x => option_map av_of_bit (nonzero_bit x))
  | ELNot a => obind (abs g a) (fun x => option_map (fun b => av_of_bit (bnot b)) (nonzero_bit x))
  | ENe a b => obind (abs g a) (fun x => obind (abs g b) (fun y => obind (av_map2 bxor x y) (fun d => option_map av_of_bit (nonzero_bit d))))
  | EEq a b => obind (abs g a) (fun x => obind (abs g b) (fun y => obind (av_map2 bxor x y) (fun d => option_map (fun t => av_of_bit (bnot t)) (nonzero_bit d))))
  | EAdd a b => cst2 Z.add (abs g a) (abs g b)                 (* arithmetic and comparisons: only between known constants *)
  | ESub a b => cst2 Z.sub (abs g a) (abs g b)
  | EMul a b => cst2 Z.mul (abs g a) (abs g b)
  | ELt a b => cst2 (fun p q => b2z (p <? q)) (abs g a) (abs g b)
  | ELe a b => cst2 (fun p q => b2z (p <=? q)) (abs g a) (abs g b)
  | ECond c a b => obind (abs g c) (fun xc => obind (nonzero_bit xc) (fun cb =>
                   obind (abs g a) (fun x => obind (abs g b) (fun y => av_map2 (bmux cb) x y))))
  | _ => None
  end.

(* ---------------------------------------------------------------- abstract payload *)
Fixpoint dexpr_eqb (x y:dexpr) : bool :=
  match x, y with
  | DArg a, DArg b => Nat.eqb a b
  | DConst a, DConst b => a =? b
  | DSlot a, DSlot b => Nat.eqb a b
  | DAdd a b, DAdd c d | DSub a b, DSub c d => dexpr_eqb a c && dexpr_eqb b d
  | _, _ => false
  end.

Inductive abyte : Type :=
| ABits (l:list bt)                                 (* 8 symbolic bits, least significant first *)
| ADbl (n:nat) (s:bool) (p:Z) (d:dexpr) (i:nat)     (* byte i of AddNByte[U]Double(d, p) *)
| AStr (len:Z) (a:nat) (i:nat)                      (* byte i of AddStr(text a, len) *)
| AOpq.                                             (* a byte the check knows nothing about (AIS text) *)

Definition byte_of (v:av) (i:nat) : abyte := ABits (map (fun t => bit_at v (8 * i + t)) (seq 0 8)).

Definition arg_env (gamma:list argty) : aenv :=
  {| ae_arg := fun a => match nth_error gamma a with Some (TInt w s) => if 0 <? w then Some (av_arg a w s) else None | _ => None end;
     ae_slot := fun _ => None |}.

(* abstract run of a setter body: the symbolic payload, or None when the body leaves the supported straight-line shape *)
Fixpoint aset (g:aenv) (w:wstmt) (ap:list abyte) : option (list abyte) :=
  match w with
  | WSkip => Some ap
  | WSeq a b => obind (aset g a ap) (aset g b)
  | WInt n e => option_map (fun v => ap ++ map (byte_of v) (seq 0 n)) (abs g e)
  | WDouble n s p d => match d with
                       | DArg _ | DConst _ => Some (ap ++ map (ADbl n s p d) (seq 0 n))
                       | _ => None
                       end
  | WStr len a => if 0 <=? len then Some (ap ++ map (AStr len a) (seq 0 (Z.to_nat len))) else None
  | WAISStr len a => if (0 <=? len) && (Z.of_nat (length ap) + len <=? max_data_len) then Some (ap ++ repeat AOpq (Z.to_nat len)) else None
  | _ => None
  end.

(* expressions whose evaluation is never undefined: no double -> integer conversion *)
Fixpoint d2i_free (e:iexpr) : bool :=
  match e with
  | EArg _ | ESlot _ | EConst _ | EPgn | EDataLen | EDLt _ _ | EDLe _ _ | EDEq _ _ => true
  | EAnd a b | EOr a b | EXor a b | EAdd a b | ESub a b | EMul a b | EDiv a b | EEq a b | ENe a b | ELt a b | ELe a b => d2i_free a && d2i_free b
  | EShl a _ | EShr a _ | ENot a | ECast _ _ a | EBool a | ELNot a => d2i_free a
  | ECond c a b => d2i_free c && d2i_free a && d2i_free b
  | ED2I _ _ _ => false
  end.

(* abstract run of a setter body that keeps going as far as it can (used for the layouts, where a known prefix of the payload is
   enough): integer fields it cannot express and two-armed conditionals whose arms write the same number of bytes become opaque
   bytes; at the first statement it cannot handle (repeated records, arms of different length, variable strings) it stops.
   The boolean tells whether the whole body was processed. *)
Fixpoint aset_pre (g:aenv) (w:wstmt) (ap:list abyte) : list abyte * bool :=
  match w with
  | WSkip => (ap, true)
  | WSeq a b => let '(ap1, f1) := aset_pre g a ap in if f1 then aset_pre g b ap1 else (ap1, false)
  | WInt n e => match abs g e with
                | Some v => (ap ++ map (byte_of v) (seq 0 n), true)
                | None => if d2i_free e then (ap ++ repeat AOpq n, true) else (ap, false)
                end
  | WIf c t e =>
    if d2i_free c then
      let '(a1, f1) := aset_pre g t ap in
      let '(a2, f2) := aset_pre g e ap in
      if f1 && f2 && Nat.eqb (length a1) (length a2) then (ap ++ repeat AOpq (length a1 - length ap), true) else (ap, false)
    else (ap, false)
  | _ => match aset g w ap with Some ap' => (ap', true) | None => (ap, false) end
  end.

(* ---------------------------------------------------------------- abstract run of a parser *)
Inductive aslot : Type :=
| SInt (v:av)
| SDbl (n:nat) (s:bool) (p def:Z) (d:dexpr)         (* result of GetNByte[U]Double(p, def) on the bytes of AddNByte[U]Double(d, p) *)
| SOther.

Record ast : Type := { a_idx : Z; a_slots : list (nat * aslot); a_outs : list (nat * aslot); a_ret : option bool }.

Fixpoint alookup (k:nat) (l:list (nat * aslot)) : option aslot :=
  match l with [] => None | (j, v) :: r => if Nat.eqb j k then Some v else alookup k r end.

(* pa: the parser's own integer arguments whose value is fixed for this run (the record index of a per-record parser) *)
Definition run_env (pa:nat -> option Z) (sl:list (nat * aslot)) : aenv :=
  {| ae_arg := fun a => option_map av_const (pa a); ae_slot := fun k => match alookup k sl with Some (SInt v) => Some v | _ => None end |}.
Definition no_pargs : nat -> option Z := fun _ => None.
Definition const_of (g:aenv) (e:iexpr) : option Z := obind (abs g e) av_to_const.

Definition abind (k:nat) (v:aslot) (st:ast) : ast := {| a_idx := a_idx st; a_slots := (k, v) :: a_slots st; a_outs := a_outs st; a_ret := a_ret st |}.
Definition aset_idx (i:Z) (st:ast) : ast := {| a_idx := i; a_slots := a_slots st; a_outs := a_outs st; a_ret := a_ret st |}.
Definition aadd_out (j:nat) (v:aslot) (st:ast) : ast := {| a_idx := a_idx st; a_slots := a_slots st; a_outs := (j, v) :: a_outs st; a_ret := a_ret st |}.
Definition aset_ret (b:bool) (st:ast) : ast := {| a_idx := a_idx st; a_slots := a_slots st; a_outs := a_outs st; a_ret := Some b |}.

Definition bits_of_abyte (b:abyte) : option (list bt) := match b with ABits l => Some l | _ => None end.
Definition window (ap:list abyte) (idx:Z) (n:nat) : list abyte := firstn n (skipn (Z.to_nat idx) ap).
Definition inside (ap:list abyte) (idx:Z) (n:Z) : bool := (0 <=? idx) && (idx + n <=? Z.of_nat (length ap)).

(* does the window consist of bytes 0..n-1 of one scaled field with exactly these parameters? *)
Fixpoint is_dbl_window (l:list abyte) (n:nat) (s:bool) (p:Z) (d:dexpr) (i:nat) : bool :=
  match l with
  | [] => true
  | ADbl n' s' p' d' i' :: r => Nat.eqb n' n && Bool.eqb s' s && (p' =? p) && dexpr_eqb d' d && Nat.eqb i' i && is_dbl_window r n s p d (S i)
  | _ :: _ => false
  end.

(* size expressions of text reads may only be arguments, constants and conversions (so evaluating them is never undefined) *)
Fixpoint plain (e:iexpr) : bool :=
  match e with EArg _ | EConst _ => true | ECast _ _ a => plain a | _ => false end.

Definition is_zero_av (v:av) : bool := forallb (bt_eqb B0) (bits v) && bt_eqb (sgn v) B0.

(* a length precondition `if (N2kMsg.DataLen < k) return false;` : decided from the (static) length of the setter's payload *)
Definition len_check (ap:list abyte) (c:iexpr) : option bool :=
  match c with
  | ELt EDataLen (EConst k) => Some (k <=? Z.of_nat (length ap))
  | _ => None
  end.

Fixpoint arun (pa:nat -> option Z) (ap:list abyte) (p:pstmt) (st:ast) : option ast :=
  match a_ret st with
  | Some _ => Some st
  | None =>
    match p with
    | PSkip => Some st
    | PSeq a b => obind (arun pa ap a st) (arun pa ap b)
    | PRead k (RInt n s def) =>
      if inside ap (a_idx st) (Z.of_nat n) && Nat.ltb 0 n then
        match sequence (map bits_of_abyte (window ap (a_idx st) n)) with
        | Some ll => let l := concat ll in
                     Some (aset_idx (a_idx st + Z.of_nat n) (abind k (SInt {| bits := l; sgn := if s then last l B0 else B0 |}) st))
        | None => None
        end
      else None
    | PRead k (RDouble n s p def) =>
      if inside ap (a_idx st) (Z.of_nat n) && Nat.ltb 0 n then
        match window ap (a_idx st) n with
        | ADbl n' s' p' d 0 :: r =>
          if is_dbl_window (window ap (a_idx st) n) n s p d 0
          then Some (aset_idx (a_idx st + Z.of_nat n) (abind k (SDbl n s p def d) st)) else None
        | _ => None
        end
      else None
    | PRead k (RStr size len nul) =>
      if inside ap (a_idx st) len && (0 <=? len) && plain size
      then Some (aset_idx (a_idx st + len) (abind (S k) SOther (abind k SOther st))) else None
    | PRead _ (RVarStr _ _) => None
    | PSetIdx e => option_map (fun z => aset_idx z st) (const_of (run_env pa (a_slots st)) e)
    | PAddIdx e => option_map (fun z => aset_idx (a_idx st + z) st) (const_of (run_env pa (a_slots st)) e)
    | POutI j e => option_map (fun v => aadd_out j (SInt v) st) (abs (run_env pa (a_slots st)) e)
    | POutD j (DSlot k) => match alookup k (a_slots st) with
                           | Some (SDbl n s p def d) => Some (aadd_out j (SDbl n s p def d) st)
                           | _ => None
                           end
    | POutD j _ => Some (aadd_out j SOther st)
    | POutT j k => Some (aadd_out j SOther st)
    | PIf c t e =>
      match const_of (run_env pa (a_slots st)) c with
      | Some z => if z =? 0 then arun pa ap e st else arun pa ap t st         (* the condition is decided: follow that arm *)
      | None => match t, e with
                | PRet (EConst 0), PSkip => match len_check ap c with Some true => Some st | _ => None end
                | _, _ => None
                end
      end
    | PRet e => option_map (fun z => aset_ret (negb (z =? 0)) st) (const_of (run_env pa (a_slots st)) e)
    end
  end.

Definition ast0 : ast := {| a_idx := 0; a_slots := []; a_outs := []; a_ret := None |}.

(* ---------------------------------------------------------------- the checks *)
(* what the round trip promises for one (output j, argument a) of the correspondence list *)
Inductive rtdesc : Type :=
| RTInt                                   (* the output equals the argument *)
| RTScaled (n:nat) (s:bool) (p def:Z).    (* the output is GetNByte[U]Double(p, def) of the bytes AddNByte[U]Double(argument, p) stored *)

Definition out_desc (gamma:list argty) (outs:list (nat * aslot)) (j a:nat) : option rtdesc :=
  match alookup j outs, nth_error gamma a with
  | Some (SInt v), Some (TInt w s) => if (0 <? w) && av_eqb v (av_arg a w s) then Some RTInt else None
  | Some (SDbl n s p def (DArg a')), Some TDbl => if Nat.eqb a' a then Some (RTScaled n s p def) else None
  | _, _ => None
  end.

(* every argument bit that reaches the payload lies inside the declared width:  gamma (the ranges the theorem assumes) may be
   narrower than the C types tys, but it cannot hide bits that the setter writes *)
Definition bt_within (gamma:list argty) (b:bt) : bool :=
  match b with
  | BV a j _ => match nth_error gamma a with Some (TInt w _) => Z.of_nat j <? w | _ => false end
  | _ => true
  end.
Definition abyte_within (gamma:list argty) (b:abyte) : bool :=
  match b with ABits l => forallb (bt_within gamma) l | _ => true end.
Definition narrower (g t:argty) : bool :=
  match g, t with
  | TInt w s, TInt w' s' => if s then Bool.eqb s' true && (w =? w') else (w <=? w') && negb s'
  | TDbl, TDbl | TTxt, TTxt => true
  | _, _ => false
  end.
Fixpoint forallb2 {A B} (f:A -> B -> bool) (l:list A) (m:list B) : bool :=
  match l, m with [] , [] => true | x :: r, y :: t => f x y && forallb2 f r t | _, _ => false end.

(* rt_run: the symbolic payload of the setter under the assumed ranges, and the parser's final abstract state on it *)
Definition rt_run (s:setter) (p:parser) (gamma:list argty) : option (list abyte * ast) :=
  match p_guard p with
  | Some n => if n =? s_pgn s then
                obind (aset (arg_env gamma) (s_body s) []) (fun ap => option_map (fun st => (ap, st)) (arun no_pargs ap (p_body p) ast0))
              else None
  | None => None
  end.

Definition rt_descs (s:setter) (p:parser) (gamma:list argty) (m:list (nat * nat)) : option (list (nat * nat * rtdesc)) :=
  if forallb2 narrower gamma (s_args s) then
    match aset (arg_env (s_args s)) (s_body s) [], rt_run s p gamma with
    | Some apt, Some (ap, st) =>
      if forallb (abyte_within gamma) apt && (match a_ret st with Some true => true | _ => false end)
      then sequence (map (fun ja => option_map (fun d => (fst ja, snd ja, d)) (out_desc gamma (a_outs st) (fst ja) (snd ja))) m)
      else None
    | _, _ => None
    end
  else None.

Definition rt_check (s:setter) (p:parser) (gamma:list argty) (m:list (nat * nat)) : bool :=
  match rt_descs s p gamma m with Some _ => true | None => false end.

Definition guard_check (p:parser) (n:Z) : bool := match p_guard p with Some k => k =? n | None => false end.

(* a PGN test that comes after outputs have been preset to constants (ParseN2kPGN59904): the parser still returns false for every
   other PGN, although it has assigned those outputs *)
Fixpoint weak_guard (p:pstmt) (n:Z) : bool :=
  match p with
  | PSeq (POutI _ (EConst _)) r => weak_guard r n
  | PSeq (POutD _ (DConst _)) r => weak_guard r n
  | PSeq (PIf (ENe EPgn (EConst k)) (PRet (EConst 0)) PSkip) _ => k =? n
  | _ => false
  end.
Definition guard_check_weak (p:parser) (n:Z) : bool :=
  match p_guard p with Some k => k =? n | None => weak_guard (p_body p) n end.

(* ---------------------------------------------------------------- statements *)
Definition arg_ok (t:argty) (v:argval) : Prop :=
  match t, v with
  | TInt w s, VI z => if s then - 2^(w-1) <= z < 2^(w-1) else 0 <= z < 2^w
  | TDbl, VD _ => True
  | TTxt, VT _ => True
  | _, _ => False
  end.
(* "within the fields' documented ranges": every argument lies in the range gamma gives it *)
Definition in_range (gamma:list argty) (args:list argval) : Prop := Forall2 arg_ok gamma args.

(* set-then-get of one scaled field, at the level of the stored code (see C06: bytes_roundtrip, add_double_na, na_roundtrip,
   set_code, rnd_nearest for what this value is) *)
Definition scaled_rt (n:nat) (s:bool) (p def v:Z) : Z := fst (get_double n s p def 0 (Z.of_nat n) (add_double n s v p)).

Definition expected (d:rtdesc) (v:argval) : argval :=
  match d, v with
  | RTScaled n s p def, VD b => VD (scaled_rt n s p def b)
  | _, _ => v
  end.

(* the message a parser sees: what the setter produced, followed by arbitrary bytes beyond the payload length *)
Definition with_garbage (m:msg) (g:list Z) : msg :=
  {| m_pgn := m_pgn m; m_prio := m_prio m; m_dest := m_dest m; m_len := m_len m; m_data := m_data m ++ g |}.

Definition roundtrip_sound_stmt : Prop :=
  forall s p gamma m descs, rt_descs s p gamma m = Some descs ->
  forall sargs pargs garbage, in_range gamma sargs ->
  exists msg, exec_set s sargs = Some msg /\
    let r := exec_parse p pargs (with_garbage msg garbage) in
    r_ret r = true /\ r_ub r = false /\ r_unsup r = false /\
    forall j a d, In (j, a, d) descs ->
      exists v, nth_error sargs a = Some v /\ out_of r j = Some (expected d v).

Definition guard_sound_stmt : Prop :=
  forall p n, guard_check p n = true -> forall args msg, m_pgn msg <> n -> exec_parse p args msg = refused.

Definition guard_weak_sound_stmt : Prop :=
  forall p n, guard_check_weak p n = true -> forall args msg, m_pgn msg <> n -> r_ret (exec_parse p args msg) = false.

Definition locality_stmt : Prop :=
  forall p args m m', m_pgn m = m_pgn m' -> m_len m = m_len m' ->
    firstn (Z.to_nat (m_len m)) (m_data m) = firstn (Z.to_nat (m_len m')) (m_data m') ->
    exec_parse p args m = exec_parse p args m'.

(* what the scaled round trip value is, from the C06 theorems: "not available" stays "not available"; any other argument is
   stored as a code c of the field's code space (never the NA code) and read back as c * precision *)
Definition scaled_rt_spec_stmt : Prop :=
  forall n s p def, width_ok n -> (n = 8%nat -> s = true) ->
    scaled_rt n s p def na_double_bits = def /\
    forall v, v <> na_double_bits ->
      exists c, lo n s <= c <= orc n s /\ add_double n s v p = le_bytes n (c mod 256 ^ Z.of_nat n) /\
                scaled_rt n s p def v = encode b64 (fmul b64 (of_int b64 c) (decode b64 p)).
