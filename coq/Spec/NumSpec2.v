(* Additional fixed theorem statements for C06: the library's round() on ARBITRARY doubles below 2^52, i.e. including the
   doubles for which the IEEE addition x +/- 0.5 inside round() is inexact.  Proved in Proofs/NumProofs2.v.

   Notation used in the comments: q = (-1)^neg * m * 2^e is the double handed to round(); num = fin_num neg m e and
   den = fin_den e > 0 are integers with q = num / den exactly;  rnd num den  is the exact rounding of q to the nearest
   integer, ties away from zero (NumSpec.rnd; note rnd (2*num) (2*den) = rnd num den). *)
From Coq Require Import ZArith List Bool.
From N2kV Require Import Model.SoftFloat Model.NumDefs Spec.NumSpec.
Local Open Scope Z_scope.

(* 11. "within half a step, up to the rounding of the addition".
   For every binary64 value q with |q| < 2^52, round(q) is an integer z and

        |z - q|  <=  1/2 + 2^-53 * (|q| + 1/2)          (first bound, multiplied through by 2^54 * den)
        |z - q|  <   1                                   (second bound)

   |q| + 1/2 is the magnitude of the exact sum x +/- 0.5, and 2^-53 * (|q| + 1/2) is an upper bound of half an ulp of that
   sum: the slack is exactly the rounding error the IEEE addition can commit.  The second bound says z is always one of the
   two integers adjacent to q (or q itself); it is stated separately because the first bound alone reaches 1 at the very
   top of the range (|q| close to 2^52), where in fact the addition is exact.
   The first bound is tight up to the 2^-53*|q| term: q = 0.49999999999999994 = FFin false (2^53-1) (-54) gives z = 1,
   |z - q| = 1/2 + 2^-54. *)
Definition own_round_within_stmt : Prop :=
  forall neg m e, is_b64 (FFin neg m e) ->
    let num := fin_num neg m e in let den := fin_den e in
    Z.abs num < 2^52 * den ->
    exists z, own_round (FFin neg m e) = RInt z /\
      2^53 * Z.abs (2 * z * den - 2 * num) <= 2^53 * den + den + 2 * Z.abs num /\
      Z.abs (z * den - num) < den.

(* 12. "never more than one code off, and only away from zero".
   Under the same hypotheses round(q) is either the exact half-away-from-zero rounding of q, or that value moved ONE step
   away from zero (+1 for q >= 0, -1 for q < 0).  The second case needs the addition to have rounded up to the next integer. *)
Definition own_round_adjacent_stmt : Prop :=
  forall neg m e, is_b64 (FFin neg m e) ->
    let num := fin_num neg m e in let den := fin_den e in
    Z.abs num < 2^52 * den ->
    own_round (FFin neg m e) = RInt (rnd num den) \/
    own_round (FFin neg m e) = RInt (rnd num den + (if neg then -1 else 1)).

(* 13. what happens just above the range of 11/12: the doubles of magnitude in [2^52, 2^53) are exactly the integers
   FFin neg m 0 with 2^52 <= m < 2^53.  There x +/- 0.5 is a tie between m and m+1 and IEEE resolves it to the even one, so
   round() returns m for even m and m+1 (one too many, away from zero) for odd m.  The library never gets here with the
   1..4 byte fields (codes are below 2^32), the statement only records where the |z - q| < 1 guarantee of 11 ends. *)
Definition own_round_2p52_stmt : Prop :=
  forall neg m, 2^52 <= m < 2^53 ->
    own_round (FFin neg m 0) = RInt (signed_m neg (if Z.even m then m else m + 1)).
