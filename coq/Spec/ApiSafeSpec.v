(* C07 over the public application calls: the safety statements of Spec/SafeSpec.v (node_safe_stmt, slot_invariants_stmt) lifted from
   the operations of Model/NodeRxDefs.v (rop / rstep / rrun) to the extended operations of Model/ApiDefs.v (xop / xstep / xrun), i.e. to
   histories in which the application also calls SendIsoAddressClaim, SendProductInformation, SendConfigurationInformation,
   SendTxPGNList, SendRxPGNList, SendHeartbeat(bool), SendHeartbeat(int), SetDeviceInformationInstances, SetDeviceInformation, Restart,
   SetMode, Set/Extend SingleFrame/FastPacket Messages, ExtendTransmitMessages, ExtendReceiveMessages, SetHandleOnlyKnownMessages and
   SetProductInformation at any time.

   Everything is stated with the notions of Spec/SafeSpec.v (WF, quiet, ev_ok, gf_ok, op_ok, dev_ok, ...); new here is only the
   well-formedness of one public call, [api_ok]: every argument lies in the range of its C type.  DEVICE INDICES ARE UNCONSTRAINED
   (negative, too large): the public entry points test them (IsValidDevice; "broadcast and index -1 means device 0") and the theorem
   says that these tests are enough.

   No call is excluded.  One hypothesis on the configuration is added for histories that contain SetMode: at most 251 devices (the
   library allows 9; the same bound as statement 2c of SafeSpec).  Reason: SetMode stores source + i - 252 for device i when the
   addresses wrap; the C++ keeps that in a uint8_t, the model stores the number as it is, so with more than 257 devices the model's
   device 257 would get the "address" 256 and dev_ok (a fact of WF) would fail ([api_node_safe_unbounded_refuted_stmt], a witness with
   258 devices; r_oob stays false there too).  Histories without SetMode need no bound - hence the disjunction in the statements.
   The invariant does not depend on anything else a call changes: the mode (SetMode), the PGN lists (n_pgn, Set...Messages; d_tx,
   ExtendTransmitMessages; x_rx, ExtendReceiveMessages), the NAMEs (SetDeviceInformation, SetDeviceInformationInstances) and the
   configuration r_cfg (SetHandleOnlyKnownMessages, SetProductInformation) do not occur in WF / quiet. *)
From Coq Require Import ZArith List Bool.
From N2kV Require Import Base.ListAux Model.CanId Model.Sched Model.PgnClass Model.NodeDefs Model.NodeRxDefs Model.GroupFnDefs Model.ApiDefs
  Gen.GenTables Gen.GenConsts Spec.SendSpec Spec.SafeSpec.
Import ListNotations.
Local Open Scope Z_scope.

(* ================= one public call ================= *)
Definition u8_ok (v:Z) : Prop := 0 <= v <= 255.
Definition api_ok (a:api) : Prop :=
  match a with
  | ASendClaim dst idev delay => u8_ok dst /\ 0 <= delay                     (* unsigned char Destination, int DeviceIndex, unsigned long FromNow *)
  | ASendProd idev => True                                                   (* int DeviceIndex *)
  | ASendConf idev => True
  | ASendTxList dst idev tp => u8_ok dst                                     (* unsigned char Destination, int DeviceIndex, bool UseTP *)
  | ASendRxList dst idev tp => u8_ok dst
  | ASendHeartbeatAll force => True
  | ASendHeartbeatDev idev => True
  | ASetInstances idev lo up si => u8_ok lo /\ u8_ok up /\ u8_ok si          (* uint8_t x 3, int iDev *)
  | ASetDeviceInformation idev uniq func cls manuf ind =>                    (* unsigned long, unsigned char x 2, uint16_t, unsigned char, int iDev *)
      0 <= uniq /\ u8_ok func /\ u8_ok cls /\ 0 <= manuf <= 65535 /\ u8_ok ind
  | ARestart => True
  | ASetMode mode src => 0 <= mode <= 4 /\ u8_ok src                         (* tN2kMode, uint8_t *)
  | ASetPgnList which l => 0 <= which <= 3 /\ Forall (fun p => 0 <= p < 2^32) l   (* one of the four setters; const unsigned long * *)
  | ASetTxList idev l => Forall (fun p => 0 <= p < 2^32) l                   (* const unsigned long *, int iDev *)
  | ASetRxList idev l => Forall (fun p => 0 <= p < 2^32) l
  | ASetOnlyKnown b => True                                                  (* bool *)
  | ASetProductInformation serial code model sw ver load version cert =>     (* const char * x 4 (the characters up to the terminator), *)
      Forall byte_ok serial /\ Forall byte_ok model /\ Forall byte_ok sw /\ Forall byte_ok ver /\   (* unsigned short code / version, *)
      0 <= code <= 65535 /\ u8_ok load /\ 0 <= version <= 65535 /\ u8_ok cert     (* unsigned char load / certification level *)
  end.
Definition xop_ok (o:xop) : Prop :=
  match o with
  | XBase o' => op_ok o'
  | XApi a => api_ok a
  end.
Definition is_set_mode (o:xop) : bool := match o with XApi (ASetMode _ _) => true | _ => false end.
(* at most 251 devices, or no SetMode in the history *)
Definition devs_bound (nd:nat) (ops:list xop) : Prop := (nd <= 251)%nat \/ Forall (fun o => is_set_mode o = false) ops.

(* ================= 1. safety of whole histories with public calls ================= *)
(* hypotheses on the configuration as in node_safe_stmt (see there), plus devs_bound *)
Definition api_node_safe_stmt : Prop :=
  forall gf, gf_ok gf ->
  forall w mode t0 qmax nsl pc devs rxls cfg ops,
    devs <> [] -> length rxls = length devs -> Forall dev_ok devs -> 1 <= nsl <= 255 -> 0 <= qmax <= 65535 ->
    devs_bound (length devs) ops ->
    Forall xop_ok ops ->
    let r' := fst (xrun gf (cold_node w mode t0 qmax nsl pc devs rxls cfg) ops) in
    let evs := snd (xrun gf (cold_node w mode t0 qmax nsl pc devs rxls cfg) ops) in
    r_oob r' = false /\
    Forall (Forall ev_ok) evs /\
    WF (length devs) (Z.to_nat nsl) qmax r' /\ quiet r'.

(* the node as shipped: the library's group function handlers *)
Definition api_node_safe_lib_stmt : Prop :=
  forall w mode t0 qmax nsl pc devs rxls cfg ops,
    devs <> [] -> length rxls = length devs -> Forall dev_ok devs -> 1 <= nsl <= 255 -> 0 <= qmax <= 65535 ->
    devs_bound (length devs) ops ->
    Forall xop_ok ops ->
    let r' := fst (xrun gf_lib (cold_node w mode t0 qmax nsl pc devs rxls cfg) ops) in
    let evs := snd (xrun gf_lib (cold_node w mode t0 qmax nsl pc devs rxls cfg) ops) in
    r_oob r' = false /\
    Forall (Forall ev_ok) evs /\
    WF (length devs) (Z.to_nat nsl) qmax r' /\ quiet r'.

(* the bound on the device count cannot simply be dropped: 258 devices, SetMode(N2km_ListenOnly, 251) *)
Definition api_node_safe_unbounded_refuted_stmt : Prop :=
  exists w mode t0 qmax nsl pc devs rxls cfg ops,
    devs <> [] /\ length rxls = length devs /\ Forall dev_ok devs /\ 1 <= nsl <= 255 /\ 0 <= qmax <= 65535 /\
    Forall xop_ok ops /\
    let r' := fst (xrun gf_none (cold_node w mode t0 qmax nsl pc devs rxls cfg) ops) in
    ~ WF (length devs) (Z.to_nat nsl) qmax r' /\ r_oob r' = false.

(* ================= 3. slot and state invariants in every state reachable with public calls ================= *)
Definition xreachable (gf:rnode -> slot -> rnode * list event) (r0 r:rnode) : Prop :=
  exists ops, Forall xop_ok ops /\ devs_bound (length (n_devs (rn r0))) ops /\ r = fst (xrun gf r0 ops).
Definition api_slot_invariants_stmt : Prop :=
  forall gf, gf_ok gf ->
  forall w mode t0 qmax nsl pc devs rxls cfg r,
    devs <> [] -> length rxls = length devs -> Forall dev_ok devs -> 1 <= nsl <= 255 -> 0 <= qmax <= 65535 ->
    xreachable gf (cold_node w mode t0 qmax nsl pc devs rxls cfg) r ->
    (forall s, In s (r_slots r) ->
       (length (s_data s) <= 223)%nat /\ 0 <= s_len s <= 255 /\ (s_ready s = true -> s_len s <= Z.of_nat (length (s_data s)))) /\
    nslots r = nsl /\ dev_count (rn r) = Z.of_nat (length devs) /\ length (rx_dev r) = length devs /\
    (forall d, In d (n_devs (rn r)) -> 0 <= d_src d <= 255) /\
    ring_ok (n_q (rn r)) /\ (2 <= qmax -> ring_wf (n_q (rn r))) /\ q_max (n_q (rn r)) = qmax.
