(* C13 - timed behaviour is independent of the clock origin, including 32-bit wrap.  Statements: Spec/ClockSpec.v;
   proofs: Proofs/ClockProofs.v (primitives, slot ageing, synchronised scheduler, N2kMillis64), Proofs/ClockProofsNode*.v (node level).
   The device-list request pacing (candidate D-20) is examined in the C18 development and reported under C13 by the lead. *)
From Coq Require Import ZArith List Bool.
From N2kV Require Import Base.ListAux Model.CanId Model.Sched Model.PgnClass Model.NodeDefs Model.NodeRxDefs Gen.GenTables Gen.GenConsts
  Spec.ClockSpec Proofs.ClockProofs.
Import ListNotations.
Local Open Scope Z_scope.

Theorem C13_prim_shift : prim_shift_stmt.  Proof. exact prim_shift. Qed.
Print Assumptions C13_prim_shift.
Theorem C13_timer_fires : timer_fires_stmt.  Proof. exact timer_fires. Qed.
Print Assumptions C13_timer_fires.
Theorem C13_slot_age_shift : slot_age_shift_stmt.  Proof. exact slot_age_shift. Qed.
Print Assumptions C13_slot_age_shift.
Theorem C13_ss_shift : ss_shift_stmt.  Proof. exact ss_shift. Qed.
Print Assumptions C13_ss_shift.
Theorem C13_millis64 : millis64_stmt.  Proof. exact millis64_ok. Qed.
Print Assumptions C13_millis64.
Theorem C13_millis64_gap : millis64_gap_stmt.  Proof. exact millis64_gap. Qed.
Print Assumptions C13_millis64_gap.

(* non-vacuity: timers armed shortly before the 32-bit wrap expire on time afterwards; the sentinel bump costs exactly one millisecond;
   the roll counter reconstruction across a wrap *)
Example C13_nonvacuous_timers :
  (* 250 ms claim timer armed at 2^32 - 100: not yet at +249 (clock value 149 after the wrap), fired at +251 *)
  sched_is_time false (2^32 - 100 + 249) (sched_from_now false (2^32 - 100) 250) = false /\
  sched_is_time false (2^32 - 100 + 251) (sched_from_now false (2^32 - 100) 250) = true /\
  (* armed so that it would fire at the sentinel 0xFFFFFFFF: stored as 0, fires at +251 instead of +250 *)
  sched_from_now false (2^32 - 251) 250 = 0 /\
  sched_is_time false (2^32 - 251 + 250) (sched_from_now false (2^32 - 251) 250) = false /\
  sched_is_time false (2^32 - 251 + 251) (sched_from_now false (2^32 - 251) 250) = true /\
  (* the same timer one millisecond earlier fires at +250 *)
  sched_is_time false (2^32 - 252 + 250) (sched_from_now false (2^32 - 252) 250) = true /\
  (* 64-bit build *)
  sched_is_time true (2^32 - 100 + 250) (sched_from_now true (2^32 - 100) 250) = false /\
  sched_is_time true (2^32 - 100 + 251) (sched_from_now true (2^32 - 100) 250) = true /\
  (* slot timeout 100 ms across the wrap *)
  has_elapsed (u32 (2^32 - 40)) 100 (u32 (2^32 - 40 + 99)) = false /\ has_elapsed (u32 (2^32 - 40)) 100 (u32 (2^32 - 40 + 100)) = true.
Proof. vm_compute. repeat split. Qed.
Print Assumptions C13_nonvacuous_timers.
Example C13_nonvacuous_millis64 : forall cfg,
  let r := cold_node false 1 0 40 5 no_lists [mk_dev false 22 1 []] [[]] cfg in
  clock_reads r [2^32 - 500; 2^32 - 100; 2^32 + 300; 2^33 - 7; 2^33 + 1000] = [2^32 - 500; 2^32 - 100; 2^32 + 300; 2^33 - 7; 2^33 + 1000] /\
  (* a case that starts after the wrap (fresh statics): values relative to its first reading *)
  clock_reads r [2^32 + 5; 2^32 + 70000] = [5; 70000].
Proof. intros cfg. vm_compute. repeat split. Qed.
Print Assumptions C13_nonvacuous_millis64.
