(* C13 - timed behaviour is independent of the clock origin, including 32-bit wrap.  Statements: Spec/ClockSpec.v;
   proofs: Proofs/ClockProofs.v (primitives, slot ageing, synchronised scheduler, N2kMillis64), Proofs/ClockProofsNode*.v (node level).
   The device-list request pacing (candidate D-20) is examined in the C18 development and reported under C13 by the lead. *)
From Coq Require Import ZArith List Bool.
From N2kV Require Import Base.ListAux Model.CanId Model.Sched Model.PgnClass Model.NodeDefs Model.NodeRxDefs Gen.GenTables Gen.GenConsts
  Spec.ClockSpec Proofs.ClockProofs Proofs.ClockProofsNode3.
Import ListNotations.
Local Open Scope Z_scope.

Theorem C13_prim_shift : prim_shift_stmt.  Proof. exact prim_shift. Qed.
Print Assumptions C13_prim_shift.
Theorem C13_timer_fires : timer_fires_stmt.  Proof. exact timer_fires. Qed.
Print Assumptions C13_timer_fires.
Theorem C13_slot_age_shift : slot_age_shift_stmt.  Proof. exact slot_age_shift. Qed.
Print Assumptions C13_slot_age_shift.
Theorem C13_ss_shift : ss_shift_stmt.  Proof. exact ss_shift. Qed.
Print Assumptions C13_ss_shift.
Theorem C13_millis64 : millis64_stmt.  Proof. exact millis64_ok. Qed.
Print Assumptions C13_millis64.
Theorem C13_millis64_gap : millis64_gap_stmt.  Proof. exact millis64_gap. Qed.
Print Assumptions C13_millis64_gap.

Theorem C13_node_shift : node_shift_stmt.  Proof. exact node_shift. Qed.
Print Assumptions C13_node_shift.
Theorem C13_node_shift_run : node_shift_run_stmt.  Proof. exact node_shift_run. Qed.
Print Assumptions C13_node_shift_run.

(* non-vacuity: timers armed shortly before the 32-bit wrap expire on time afterwards; the sentinel bump costs exactly one millisecond;
   the roll counter reconstruction across a wrap *)
Example C13_nonvacuous_timers :
  (* 250 ms claim timer armed at 2^32 - 100: not yet at +249 (clock value 149 after the wrap), fired at +251 *)
  sched_is_time false (2^32 - 100 + 249) (sched_from_now false (2^32 - 100) 250) = false /\
  sched_is_time false (2^32 - 100 + 251) (sched_from_now false (2^32 - 100) 250) = true /\
  (* armed so that it would fire at the sentinel 0xFFFFFFFF: stored as 0, fires at +251 instead of +250 *)
  sched_from_now false (2^32 - 251) 250 = 0 /\
  sched_is_time false (2^32 - 251 + 250) (sched_from_now false (2^32 - 251) 250) = false /\
  sched_is_time false (2^32 - 251 + 251) (sched_from_now false (2^32 - 251) 250) = true /\
  (* the same timer one millisecond earlier fires at +250 *)
  sched_is_time false (2^32 - 252 + 250) (sched_from_now false (2^32 - 252) 250) = true /\
  (* 64-bit build *)
  sched_is_time true (2^32 - 100 + 250) (sched_from_now true (2^32 - 100) 250) = false /\
  sched_is_time true (2^32 - 100 + 251) (sched_from_now true (2^32 - 100) 250) = true /\
  (* slot timeout 100 ms across the wrap *)
  has_elapsed (u32 (2^32 - 40)) 100 (u32 (2^32 - 40 + 99)) = false /\ has_elapsed (u32 (2^32 - 40)) 100 (u32 (2^32 - 40 + 100)) = true.
Proof. vm_compute. repeat split. Qed.
Print Assumptions C13_nonvacuous_timers.
Example C13_nonvacuous_millis64 : forall cfg,
  let r := cold_node false 1 0 40 5 no_lists [mk_dev false 22 1 []] [[]] cfg in
  clock_reads r [2^32 - 500; 2^32 - 100; 2^32 + 300; 2^33 - 7; 2^33 + 1000] = [2^32 - 500; 2^32 - 100; 2^32 + 300; 2^33 - 7; 2^33 + 1000] /\
  (* a case that starts after the wrap (fresh statics): values relative to its first reading *)
  clock_reads r [2^32 + 5; 2^32 + 70000] = [5; 70000].
Proof. intros cfg. vm_compute. repeat split. Qed.
Print Assumptions C13_nonvacuous_millis64.

(* non-vacuity of the node-level theorem: the instance without group functions satisfies the hypothesis on gf; a cold node (64-bit build)
   at origin 5000 satisfies the bound for the shift c = 2^32 - 5100 (origin 100 ms before the 32-bit wrap); a script with open, claim,
   an ISO request for the product information answered into a refusing driver (queued, flushed later), heartbeat at a 1 s interval, an application send: the operations are admissible,
   and the shifted node produces the same events (here also checked by computation, independently of the theorem) *)
Lemma gf_none_shift_ok c : gf_shift_ok c gf_none.
Proof. intros r s H B. unfold gf_none, lift_res. cbn [fst snd]. split; [reflexivity|split; [exact H|split; reflexivity]]. Qed.
Print Assumptions gf_none_shift_ok.

Definition c13_ops : list rop :=
  [RPoll; RBase (OTick 1); RPoll; RBase (OTick 201); RPoll; RBase (OTick 251); RPoll;
   RRx {| r_id := 417994290; r_len := 3; r_buf := [20; 240; 1; 255; 255; 255; 255; 255] |}; RBase (OAccept [false; false; false]); RPoll;
   RBase (OTick 362); RPoll; RBase (OTick 1); RBase (OAccept []); RPoll; RBase (OTick 1); RPoll;
   RSetHeartbeat 1000 0 (-1); RBase (OTick 1500); RPoll; RBase (OTick 1000); RPoll;
   RBase (OSend 0 {| m_pri := 6; m_pgn := 127250; m_src := 0; m_dst := 255; m_data := [1;2;3;4;5;6;7;8]; m_tp := false |})].
Definition c13_cfg : rcfg :=
  {| c_only_known := false; c_iso_handler := None; c_prodinfo := [1;2;3;4;5;6;7;8;9;10]; c_confinfo := [1;2;3]; c_hb_on := true;
     c_inst1 := []; c_inst2 := []; c_manuf := []; c_inst_changed := false |}.
Example C13_nonvacuous_node :
  let cfg := c13_cfg in
  let c := 4294962196 in
  let r0 := cold_node true 1 5000 40 5 no_lists [mk_dev true 22 1 []] [[]] cfg in
  time_ok c r0 /\ ops_ok c gf_none r0 c13_ops /\
  snd (rrun gf_none (shift_rnode c r0) c13_ops) = snd (rrun gf_none r0 c13_ops) /\
  (* the cold node at the other origin differs from the shifted one only in the not yet initialised SyncOffset (see the finding
     origin-hb-before-open) and behaves the same on this script *)
  snd (rrun gf_none (cold_node true 1 (5000 + c) 40 5 no_lists [mk_dev true 22 1 []] [[]] cfg) c13_ops) = snd (rrun gf_none r0 c13_ops) /\
  length (filter (fun l => match l with [] => false | _ => true end) (snd (rrun gf_none r0 c13_ops))) = 7%nat.
Proof.
  cbv zeta. split; [|split; [|split; [|split]]].
  - constructor.
    + reflexivity.
    + vm_compute. split; reflexivity.
    + constructor; [|constructor]. unfold dev_ok. cbn. split; [left; reflexivity|split; [left; reflexivity|vm_compute; split; [discriminate|reflexivity]]].
    + constructor; [|constructor]. unfold devx_ok, cold_devx. cbn.
      repeat split; try (left; reflexivity); vm_compute; try discriminate; reflexivity.
    + split; [reflexivity|vm_compute; apply le_n].
    + right. vm_compute. split; [discriminate|reflexivity].
    + vm_compute. split; [discriminate|reflexivity].
    + cbn. apply Forall_forall. intros s Hs. repeat (destruct Hs as [<-|Hs]; [constructor|]). destruct Hs.
    + constructor.
  - vm_compute. repeat split; try discriminate; repeat constructor; try discriminate.
  - vm_compute. reflexivity.
  - vm_compute. reflexivity.
  - vm_compute. reflexivity.
Qed.
Print Assumptions C13_nonvacuous_node.

(* the library's group function handlers (Model/GroupFnDefs.v, property C09) satisfy the contract gf_shift_ok for every shift c >= 0:
   they commute with the move of the clock origin and keep the bound, so node_shift / node_shift_run hold for the node as shipped
   (gf := gf_lib) *)
From N2kV Require Model.GroupFnDefs Proofs.GroupFnContractsC.
Theorem C13_gf_lib_shift_ok : forall c, 0 <= c -> gf_shift_ok c GroupFnDefs.gf_lib.  Proof. exact GroupFnContractsC.gf_lib_shift_ok. Qed.
Print Assumptions C13_gf_lib_shift_ok.
