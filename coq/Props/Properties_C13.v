(* C13 - timed behaviour is independent of the clock origin, including 32-bit wrap.  Statements: Spec/ClockSpec.v;
   proofs: Proofs/ClockProofs.v (primitives, slot ageing, synchronised scheduler, N2kMillis64), Proofs/ClockProofsNode*.v (node level).
   The device-list request pacing (candidate D-20) is examined in the C18 development and reported under C13 by the lead. *)
From Coq Require Import ZArith List Bool.
From N2kV Require Import Base.ListAux Model.CanId Model.Sched Model.PgnClass Model.NodeDefs Model.NodeRxDefs Gen.GenTables Gen.GenConsts
  Spec.ClockSpec Proofs.ClockProofs Proofs.ClockProofsNode3.
Import ListNotations.
Local Open Scope Z_scope.

Theorem C13_prim_shift : prim_shift_stmt.  Proof. exact prim_shift. Qed.
Print Assumptions C13_prim_shift.
Theorem C13_timer_fires : timer_fires_stmt.  Proof. exact timer_fires. Qed.
Print Assumptions C13_timer_fires.
Theorem C13_slot_age_shift : slot_age_shift_stmt.  Proof. exact slot_age_shift. Qed.
Print Assumptions C13_slot_age_shift.
Theorem C13_ss_shift : ss_shift_stmt.  Proof. exact ss_shift. Qed.
Print Assumptions C13_ss_shift.
Theorem C13_millis64 : millis64_stmt.  Proof. exact millis64_ok. Qed.
Print Assumptions C13_millis64.
Theorem C13_millis64_gap : millis64_gap_stmt.  Proof. exact millis64_gap. Qed.
Print Assumptions C13_millis64_gap.

Theorem C13_node_shift : node_shift_stmt.  Proof. exact node_shift. Qed.
Print Assumptions C13_node_shift.
Theorem C13_node_shift_run : node_shift_run_stmt.  Proof. exact node_shift_run. Qed.
Print Assumptions C13_node_shift_run.

(* non-vacuity: timers armed shortly before the 32-bit wrap expire on time afterwards; the sentinel bump costs exactly one millisecond;
   the roll counter reconstruction across a wrap *)
Example C13_nonvacuous_timers :
  (* 250 ms claim timer armed at 2^32 - 100: not yet at +249 (clock value 149 after the wrap), fired at +251 *)
  sched_is_time false (2^32 - 100 + 249) (sched_from_now false (2^32 - 100) 250) = false /\
  sched_is_time false (2^32 - 100 + 251) (sched_from_now false (2^32 - 100) 250) = true /\
  (* armed so that it would fire at the sentinel 0xFFFFFFFF: stored as 0, fires at +251 instead of +250 *)
  sched_from_now false (2^32 - 251) 250 = 0 /\
  sched_is_time false (2^32 - 251 + 250) (sched_from_now false (2^32 - 251) 250) = false /\
  sched_is_time false (2^32 - 251 + 251) (sched_from_now false (2^32 - 251) 250) = true /\
  (* the same timer one millisecond earlier fires at +250 *)
  sched_is_time false (2^32 - 252 + 250) (sched_from_now false (2^32 - 252) 250) = true /\
  (* 64-bit build *)
  sched_is_time true (2^32 - 100 + 250) (sched_from_now true (2^32 - 100) 250) = false /\
  sched_is_time true (2^32 - 100 + 251) (sched_from_now true (2^32 - 100) 250) = true /\
  (* slot timeout 100 ms across the wrap *)
  has_elapsed (u32 (2^32 - 40)) 100 (u32 (2^32 - 40 + 99)) = false /\ has_elapsed (u32 (2^32 - 40)) 100 (u32 (2^32 - 40 + 100)) = true.
Proof. vm_compute. repeat split. Qed.
Print Assumptions C13_nonvacuous_timers.
Example C13_nonvacuous_millis64 : forall cfg,
  let r := cold_node false 1 0 40 5 no_lists [mk_dev false 22 1 []] [[]] cfg in
  clock_reads r [2^32 - 500; 2^32 - 100; 2^32 + 300; 2^33 - 7; 2^33 + 1000] = [2^32 - 500; 2^32 - 100; 2^32 + 300; 2^33 - 7; 2^33 + 1000] /\
  (* a case that starts after the wrap (fresh statics): values relative to its first reading *)
  clock_reads r [2^32 + 5; 2^32 + 70000] = [5; 70000].
Proof. intros cfg. vm_compute. repeat split. Qed.
Print Assumptions C13_nonvacuous_millis64.

(* non-vacuity of the node-level theorem: the instance without group functions satisfies the hypothesis on gf; a cold node (64-bit build)
   at origin 5000 satisfies the bound for the shift c = 2^32 - 5100 (origin 100 ms before the 32-bit wrap); a script with open, claim,
   an ISO request for the product information answered into a refusing driver (queued, flushed later), heartbeat at a 1 s interval, an application send: the operations are admissible,
   and the shifted node produces the same events (here also checked by computation, independently of the theorem) *)
Lemma gf_none_shift_ok c : gf_shift_ok c gf_none.
Proof. intros r s H B. unfold gf_none, lift_res. cbn [fst snd]. split; [reflexivity|split; [exact H|split; reflexivity]]. Qed.
Print Assumptions gf_none_shift_ok.

Definition c13_ops : list rop :=
  [RPoll; RBase (OTick 1); RPoll; RBase (OTick 201); RPoll; RBase (OTick 251); RPoll;
   RRx {| r_id := 417994290; r_len := 3; r_buf := [20; 240; 1; 255; 255; 255; 255; 255] |}; RBase (OAccept [false; false; false]); RPoll;
   RBase (OTick 362); RPoll; RBase (OTick 1); RBase (OAccept []); RPoll; RBase (OTick 1); RPoll;
   RSetHeartbeat 1000 0 (-1); RBase (OTick 1500); RPoll; RBase (OTick 1000); RPoll;
   RBase (OSend 0 {| m_pri := 6; m_pgn := 127250; m_src := 0; m_dst := 255; m_data := [1;2;3;4;5;6;7;8]; m_tp := false |})].
Definition c13_cfg : rcfg :=
  {| c_only_known := false; c_iso_handler := None; c_prodinfo := [1;2;3;4;5;6;7;8;9;10]; c_confinfo := [1;2;3]; c_hb_on := true;
     c_inst1 := []; c_inst2 := []; c_manuf := []; c_inst_changed := false |}.
Example C13_nonvacuous_node :
  let cfg := c13_cfg in
  let c := 4294962196 in
  let r0 := cold_node true 1 5000 40 5 no_lists [mk_dev true 22 1 []] [[]] cfg in
  time_ok c r0 /\ ops_ok c gf_none r0 c13_ops /\
  snd (rrun gf_none (shift_rnode c r0) c13_ops) = snd (rrun gf_none r0 c13_ops) /\
  (* the cold node at the other origin differs from the shifted one only in the not yet initialised SyncOffset (see the finding
     origin-hb-before-open) and behaves the same on this script *)
  snd (rrun gf_none (cold_node true 1 (5000 + c) 40 5 no_lists [mk_dev true 22 1 []] [[]] cfg) c13_ops) = snd (rrun gf_none r0 c13_ops) /\
  length (filter (fun l => match l with [] => false | _ => true end) (snd (rrun gf_none r0 c13_ops))) = 7%nat.
Proof.
  cbv zeta. split; [|split; [|split; [|split]]].
  - constructor.
    + reflexivity.
    + vm_compute. split; reflexivity.
    + constructor; [|constructor]. unfold dev_ok. cbn. split; [left; reflexivity|split; [left; reflexivity|vm_compute; split; [discriminate|reflexivity]]].
    + constructor; [|constructor]. unfold devx_ok, cold_devx. cbn.
      repeat split; try (left; reflexivity); vm_compute; try discriminate; reflexivity.
    + split; [reflexivity|vm_compute; apply le_n].
    + right. vm_compute. split; [discriminate|reflexivity].
    + vm_compute. split; [discriminate|reflexivity].
    + cbn. apply Forall_forall. intros s Hs. repeat (destruct Hs as [<-|Hs]; [constructor|]). destruct Hs.
    + constructor.
  - vm_compute. repeat split; try discriminate; repeat constructor; try discriminate.
  - vm_compute. reflexivity.
  - vm_compute. reflexivity.
  - vm_compute. reflexivity.
Qed.
Print Assumptions C13_nonvacuous_node.

(* the library's group function handlers (Model/GroupFnDefs.v, property C09) satisfy the contract gf_shift_ok for every shift c >= 0:
   they commute with the move of the clock origin and keep the bound, so node_shift / node_shift_run hold for the node as shipped
   (gf := gf_lib) *)
From N2kV Require Model.GroupFnDefs Proofs.GroupFnContractsC.
Theorem C13_gf_lib_shift_ok : forall c, 0 <= c -> gf_shift_ok c GroupFnDefs.gf_lib.  Proof. exact GroupFnContractsC.gf_lib_shift_ok. Qed.
Print Assumptions C13_gf_lib_shift_ok.

(* ---------- the public application calls (Model/ApiDefs.v): statements Spec/ApiClockSpec.v, proofs Proofs/ApiClockProofs.v ----------
   node_shift / node_shift_run lifted to the extended operations xstep / xrun under the same hypotheses; every API call is shift
   invariant (none is excluded): admissibility asks only that a positive SendIsoAddressClaim delay keeps the armed timer inside the
   bound of time_ok, and that SetMode is given a byte source on a device table of at most 256 entries; ExtendTransmitMessages /
   ExtendReceiveMessages / SetHandleOnlyKnownMessages / SetProductInformation do not involve time and are admissible with any arguments *)
From N2kV Require Import Model.ApiDefs Spec.ApiClockSpec Proofs.ApiClockProofs.
Theorem C13_api_node_shift : api_node_shift_stmt.  Proof. exact api_node_shift. Qed.
Print Assumptions C13_api_node_shift.
Theorem C13_api_node_shift_run : api_node_shift_run_stmt.  Proof. exact api_node_shift_run. Qed.
Print Assumptions C13_api_node_shift_run.

(* non-vacuity: a cold two-device node (64-bit build) at origin 5000, shift c = 2^32 - 5100; a script in which the application sets a PGN
   list and asks for the product information before Open() (the call opens the node), SendHeartbeat(iDev) completes Open() and the
   claims, then: product information, a delayed address claim (armed at now + 100, sent by the next ParseMessages), forced and unforced
   heartbeats, heartbeat of one device, new transmit / receive lists (ExtendTransmitMessages / ExtendReceiveMessages), Tx / Rx PGN lists
   (which report them), configuration information, instances (arms the 2 ms claim), NAME fields, SetMode to source 251 (second device
   wraps to 0), Restart, heartbeats after 10 s, SetHandleOnlyKnownMessages and SetProductInformation.  The operations are admissible and
   the shifted node produces the same events and ends in the shifted state (checked here by computation, independently of the theorem);
   10 of the 21 API calls produce events *)
Definition c13_xops : list xop :=
  [XApi (ASetPgnList 0 [130000]);
   XApi (ASendProd 0);
   XBase RPoll; XBase (RBase (OTick 1)); XBase RPoll; XBase (RBase (OTick 201)); XApi (ASendHeartbeatDev 1); XBase (RBase (OTick 251)); XBase RPoll;
   XApi (ASendProd 0); XApi (ASendClaim 255 (-1) 100); XBase (RBase (OTick 101)); XBase RPoll;
   XApi (ASendHeartbeatAll true); XApi (ASendHeartbeatAll false); XApi (ASendHeartbeatDev 0);
   XApi (ASetTxList 0 [130003; 130005]); XApi (ASetRxList 1 [130004]);
   XApi (ASendTxList 255 0 false); XApi (ASendRxList 255 1 false); XApi (ASendConf 1);
   XApi (ASetInstances 0 1 2 3); XBase (RBase (OTick 3)); XBase RPoll;
   XApi (ASetDeviceInformation 1 12345 130 25 2046 4);
   XApi (ASetMode 2 251); XApi ARestart; XBase (RBase (OTick 251)); XBase RPoll;
   XBase (RBase (OTick 10000)); XApi (ASendHeartbeatAll false); XApi (ASendHeartbeatAll true);
   XApi (ASetOnlyKnown true); XApi (ASetProductInformation [49] 666 [65] [66] [67] 2 65535 255)].
Example C13_api_nonvacuous_node :
  let c := 4294962196 in
  let r0 := cold_node true 1 5000 40 5 no_lists [mk_dev true 22 1 []; mk_dev true 23 2 [130001]] [[]; [130002]] c13_cfg in
  time_ok c r0 /\ xops_ok c gf_none r0 c13_xops /\
  xrun gf_none (shift_rnode c r0) c13_xops = (shift_rnode c (fst (xrun gf_none r0 c13_xops)), snd (xrun gf_none r0 c13_xops)) /\
  (* number of events per operation *)
  map (fun l => length l) (snd (xrun gf_none r0 c13_xops)) =
    [0; 0; 0; 0; 0; 0; 3; 0; 2; 2; 0; 0; 1; 2; 0; 1; 0; 0; 6; 4; 1; 0; 0; 1; 0; 0; 2; 0; 0; 0; 2; 2; 0; 0]%nat /\
  map (fun d => d_src d) (n_devs (rn (fst (xrun gf_none r0 c13_xops)))) = [251; 0] /\
  d_tx (get_dev (rn (fst (xrun gf_none r0 c13_xops))) 0) = [130003; 130005] /\ x_rx (get_devx (fst (xrun gf_none r0 c13_xops)) 1) = [130004] /\
  c_only_known (r_cfg (fst (xrun gf_none r0 c13_xops))) = true /\ length (c_prodinfo (r_cfg (fst (xrun gf_none r0 c13_xops)))) = 134%nat.
Proof.
  cbv zeta. split; [|split; [|split; [|split; [|split]]]].
  - constructor.
    + reflexivity.
    + vm_compute. split; reflexivity.
    + repeat constructor; try (left; reflexivity); vm_compute; discriminate.
    + repeat constructor; try (left; reflexivity); vm_compute; discriminate.
    + split; [reflexivity|vm_compute; repeat constructor].
    + right. vm_compute. split; [discriminate|reflexivity].
    + vm_compute. split; [discriminate|reflexivity].
    + cbn. repeat constructor.
    + constructor.
  - vm_compute. repeat split; try discriminate; repeat constructor; try discriminate.
  - vm_compute. reflexivity.
  - vm_compute. reflexivity.
  - vm_compute. reflexivity.
  - vm_compute. repeat split; reflexivity.
Qed.
Print Assumptions C13_api_nonvacuous_node.
