(* C03 - Address claiming converges to unique addresses and the lower NAME wins.  Statements: Spec/ClaimSpec.v;
   proofs: Proofs/ClaimProofsA.v .. ClaimProofsG.v. *)
From Coq Require Import ZArith List Lia.
From N2kV Require Import Model.PgnClass Model.NodeDefs Model.NodeRxDefs Model.NetDefs Spec.ClaimSpec Proofs.ClaimProofsA Proofs.ClaimProofsB Proofs.ClaimProofsC Proofs.ClaimProofsD Proofs.ClaimProofsE Proofs.ClaimProofsF Proofs.ClaimProofsG Proofs.ClaimProofsH Proofs.ClaimProofsI Proofs.ClaimProofsJ.
Import ListNotations.
Local Open Scope Z_scope.

(* generic network: any number of nodes and devices, every schedule *)
Theorem C03_pairwise_cover_preserved : pairwise_cover_preserved_stmt.  Proof. exact pairwise_cover_preserved. Qed.
Print Assumptions C03_pairwise_cover_preserved.
Theorem C03_pairwise_cover_reachable : pairwise_cover_reachable_stmt.  Proof. exact pairwise_cover_reachable. Qed.
Print Assumptions C03_pairwise_cover_reachable.
Theorem C03_quiescent_unique : quiescent_unique_stmt.  Proof. exact quiescent_unique. Qed.
Print Assumptions C03_quiescent_unique.
Theorem C03_lower_name_wins : lower_name_wins_stmt.  Proof. exact lower_name_wins. Qed.
Print Assumptions C03_lower_name_wins.
(* the library's reactions *)
Theorem C03_lib_R1 : lib_R1_stmt.  Proof. exact lib_R1. Qed.
Print Assumptions C03_lib_R1.
Theorem C03_lib_R2 : lib_R2_stmt.  Proof. exact lib_R2. Qed.
Print Assumptions C03_lib_R2.
Theorem C03_lib_R3 : lib_R3_stmt.  Proof. exact lib_R3. Qed.
Print Assumptions C03_lib_R3.
Theorem C03_lib_R4 : lib_R4_stmt.  Proof. exact lib_R4. Qed.
Print Assumptions C03_lib_R4.
Theorem C03_lib_R5_arbitration : lib_R5_arbitration_stmt.  Proof. exact lib_R5_arbitration. Qed.
Print Assumptions C03_lib_R5_arbitration.
Theorem C03_null_when_exhausted : null_when_exhausted_stmt.  Proof. exact null_when_exhausted. Qed.
Print Assumptions C03_null_when_exhausted.
Theorem C03_exhausted_run : exhausted_run_stmt.  Proof. exact exhausted_run. Qed.
Print Assumptions C03_exhausted_run.
Theorem C03_tx_source_is_reported : tx_source_is_reported_stmt.  Proof. exact tx_source_is_reported. Qed.
Print Assumptions C03_tx_source_is_reported.
Theorem C03_address_changed_flag : address_changed_flag_stmt.  Proof. exact address_changed_flag. Qed.
Print Assumptions C03_address_changed_flag.
(* D-04: R5 fails for commanded addresses (known finding commanded-address:sibling-collision) *)
Theorem C03_commanded_collision_refuted : commanded_collision_refuted_stmt.  Proof. exact commanded_collision_refuted. Qed.
Print Assumptions C03_commanded_collision_refuted.
(* ... and holds for commands that avoid the siblings *)
Theorem C03_lib_R5_commanded_partial : lib_R5_commanded_partial_stmt.  Proof. exact lib_R5_commanded_partial. Qed.
Print Assumptions C03_lib_R5_commanded_partial.

(* the generic theorems instantiated with the library's and the reference node's reactions (claim-level network) *)
Theorem C03_library_node_hyps : library_node_hyps_stmt.  Proof. exact library_node_hyps. Qed.
Print Assumptions C03_library_node_hyps.
Theorem C03_library_quiescent_unique_partial : library_quiescent_unique_partial_stmt.  Proof. exact library_quiescent_unique_partial. Qed.
Print Assumptions C03_library_quiescent_unique_partial.
Theorem C03_ref_react_frames : ref_react_frames_stmt.  Proof. exact ref_react_frames. Qed.
Print Assumptions C03_ref_react_frames.

(* convergence: every schedule of deliveries is finite (generic; then for library and reference nodes), and where it ends the addresses are unique *)
Theorem C03_converges : converges_stmt.  Proof. exact converges. Qed.
Print Assumptions C03_converges.
Theorem C03_library_converge_hyps : library_converge_hyps_stmt.  Proof. exact library_converge_hyps. Qed.
Print Assumptions C03_library_converge_hyps.
Theorem C03_library_converges : library_converges_stmt.  Proof. exact library_converges. Qed.
Print Assumptions C03_library_converges.
Theorem C03_library_ends_unique : library_ends_unique_stmt.  Proof. exact library_ends_unique. Qed.
Print Assumptions C03_library_ends_unique.

(* from claims to frames: the receive loop hands a pending PGN 60928 frame to HandleISOAddressClaim *)
Theorem C03_claim_frame_dispatch : claim_frame_dispatch_stmt.  Proof. exact claim_frame_dispatch. Qed.
Print Assumptions C03_claim_frame_dispatch.

(* nothing else on the ParseMessages / SendMsg path writes an address or arms a claim timer (group functions: under the contract) *)
Theorem C03_d_src_frame : d_src_frame_stmt.  Proof. exact d_src_frame. Qed.
Print Assumptions C03_d_src_frame.
Theorem C03_gf_none_keeps_addr : gf_none_keeps_addr_stmt.  Proof. exact gf_none_keeps_addr. Qed.
Print Assumptions C03_gf_none_keeps_addr.
(* queues of claim frames through the receive loop and ParseMessages; one step of the model network; R1/R3 at the level of frames *)
Theorem C03_rx_loop_claims : rx_loop_claims_stmt.  Proof. exact rx_loop_claims. Qed.
Print Assumptions C03_rx_loop_claims.
Theorem C03_poll_claims : poll_claims_stmt.  Proof. exact poll_claims. Qed.
Print Assumptions C03_poll_claims.
Theorem C03_net_step_claim_partial : net_step_claim_partial_stmt.  Proof. exact net_step_claim_partial. Qed.
Print Assumptions C03_net_step_claim_partial.
Theorem C03_poll_arbitration_partial : poll_arbitration_partial_stmt.  Proof. exact poll_arbitration_partial. Qed.
Print Assumptions C03_poll_arbitration_partial.

(* non-vacuity: the hypotheses of the generic theorems are satisfiable and runs to quiescence exist (two nodes contending for 30:
   the lower NAME keeps it, the other ends without address); the premises of lib_R1..R5 are met by a reachable node of the model *)
Example C03_generic_nonvacuous : node_hyps Z 2 toy_ndev toy_addr toy_name toy_good toy_react toy_spont toy_allowed /\
  exists w, initial Z 2 toy_ndev toy_addr toy_good toy_w0 /\ steps Z 2 toy_react toy_spont toy_allowed toy_w0 w /\ quiescent Z w /\
            toy_addr (st Z w 0%nat) 0%nat = 30 /\ toy_addr (st Z w 1%nat) 0%nat = 254.
Proof. split; [exact toy_ok|exact toy_run]. Qed.
Print Assumptions C03_generic_nonvacuous.
Example C03_library_nonvacuous : exists r, claim_args r 30 5 0 /\ lib_src r 0 = 30 /\ operational 30 /\ 5 < lib_name r 0 /\ lib_name r 0 < 100 /\
  foreign_name r 5 /\ foreign_name r 100 /\ lib_src r 1 = 31.
Proof. exact lib_nonvacuous. Qed.
Print Assumptions C03_library_nonvacuous.
Example C03_instance_nonvacuous : config_ok 2 ex_ndev ex_name /\ initial pkind 2 ex_ndev c_addr (c_good ex_ndev ex_name) ex_w0.
Proof. exact ex_config. Qed.
Print Assumptions C03_instance_nonvacuous.
Example C03_converge_instance_nonvacuous : initial pkind 2 ex_ndev c_addr (c_good2 ex_ndev ex_name) ex_w0.
Proof.
  destruct ex_config as [_ (A & B & C)]. split; [|split; assumption]. intros i. split; [apply A|]. destruct i; cbn [ex_w0 st clock_ok]; [change (n_now (rn ex_lib)) with 5000; lia|exact I].
Qed.
Print Assumptions C03_converge_instance_nonvacuous.
Example C03_dispatch_nonvacuous : n_open (rn ex_rx) = 3 /\ is_active_node (rn ex_rx) = true /\ check_known (n_pgn (rn ex_rx)) 60928 = (true, true, false) /\
  slots_free ex_rx /\ r_q ex_rx = [claim_frame {| cx := 30; cn := 5 |}].
Proof. exact dispatch_nonvacuous. Qed.
Print Assumptions C03_dispatch_nonvacuous.
Example C03_poll_arbitration_nonvacuous : lib_good ex_rx /\ rx_ready ex_rx /\ (forall i, 0 <= i < dev_count (rn ex_rx) -> has_pending ex_rx i = false) /\
  r_q ex_rx = [claim_frame {| cx := 30; cn := 5 |}] /\ (0 < lib_ndev ex_rx)%nat /\ lib_src ex_rx 0 = 30 /\ 5 < lib_name ex_rx 0.
Proof. exact poll_arbitration_nonvacuous. Qed.
Print Assumptions C03_poll_arbitration_nonvacuous.
