(* C10 - ISO transport protocol transfers complete intact or abort cleanly.  Statements fixed in Spec/TpSpec.v; all of them are proved.
   Two of them (control frames from a third station; a later transfer after a session its originator gave up) were false of the library
   before the fixes b807027 and 7b28730 (+ 797643b); the former counterexamples are Examples below and now show the required behaviour. *)
From Coq Require Import ZArith List Bool.
From N2kV Require Import Base.ListAux Model.CanId Model.Sched Model.PgnClass Model.NodeDefs Model.NodeRxDefs Spec.TpSpec
  Proofs.TpProofsA Proofs.TpProofsB Proofs.TpProofsC Proofs.TpProofsD Proofs.TpProofsE.
Import ListNotations.
Local Open Scope Z_scope.

Theorem C10_chunk_reassemble : chunk_reassemble_stmt.  Proof. exact chunk_reassemble. Qed.
Print Assumptions C10_chunk_reassemble.
Theorem C10_tp_rts_announce : tp_rts_announce_stmt.  Proof. exact tp_rts_announce. Qed.
Print Assumptions C10_tp_rts_announce.
Theorem C10_tp_cts_serves : tp_cts_serves_stmt.  Proof. exact tp_cts_serves. Qed.
Print Assumptions C10_tp_cts_serves.
Theorem C10_tp_all_packets_once : tp_all_packets_once_stmt.  Proof. exact tp_all_packets_once. Qed.
Print Assumptions C10_tp_all_packets_once.
Theorem C10_tp_foreign_ctrl_ignored : tp_foreign_ctrl_ignored_stmt.  Proof. exact tp_foreign_ctrl_ignored. Qed.
Print Assumptions C10_tp_foreign_ctrl_ignored.
Theorem C10_tp_ack_abort_timeout : tp_ack_abort_timeout_stmt.  Proof. exact tp_ack_abort_timeout. Qed.
Print Assumptions C10_tp_ack_abort_timeout.
Theorem C10_tp_timer : tp_timer_stmt.  Proof. exact tp_timer. Qed.
Print Assumptions C10_tp_timer.
Theorem C10_tp_bam : tp_bam_stmt.  Proof. exact tp_bam. Qed.
Print Assumptions C10_tp_bam.
Theorem C10_tp_rts_answered : tp_rts_answered_stmt.  Proof. exact tp_rts_answered. Qed.
Print Assumptions C10_tp_rts_answered.
Theorem C10_tp_dt_step : tp_dt_step_stmt.  Proof. exact tp_dt_step. Qed.
Print Assumptions C10_tp_dt_step.
Theorem C10_tp_receive_delivers : tp_receive_delivers_stmt.  Proof. exact tp_receive_delivers. Qed.
Print Assumptions C10_tp_receive_delivers.
Theorem C10_tp_delivery_once : tp_delivery_once_stmt.  Proof. exact tp_delivery_once. Qed.
Print Assumptions C10_tp_delivery_once.
Theorem C10_tp_gap_no_delivery : tp_gap_no_delivery_stmt.  Proof. exact tp_gap_no_delivery. Qed.
Print Assumptions C10_tp_gap_no_delivery.
Theorem C10_tp_new_session_replaces : tp_new_session_replaces_stmt.  Proof. exact tp_new_session_replaces. Qed.
Print Assumptions C10_tp_new_session_replaces.
Theorem C10_tp_later_transfer : tp_later_transfer_stmt.  Proof. exact tp_later_transfer. Qed.
Print Assumptions C10_tp_later_transfer.
Theorem C10_tp_lib_to_lib : tp_lib_to_lib_stmt.  Proof. exact tp_lib_to_lib. Qed.
Print Assumptions C10_tp_lib_to_lib.

(* ---------- non-vacuity ---------- *)
(* a 20-byte transfer, library as originator (64-bit scheduler build): RTS; the reference responder grants 2, pauses, grants 5; three data
   packets leave, each once, in order; the acknowledgement ends the session; a new transfer is accepted *)
Example C10_sender_20 :
  let a := node0 true 22 5000 5 in
  let '(n1, ev1, ok1) := send_msg (rn a) (tpm 130816 50 (pay 20)) 0 in
  let '(_, _, ok2) := send_msg n1 (tpm 65280 51 (pay 9)) 0 in
  let '(a2, ev2) := feed_cm (with_rn a n1) 50 22 (peer_cts [2; 0; 5] 3 0 130816) in
  let '(_, a3, ev3, _) := handle_tp a2 60416 50 22 8 (cm_ack 20 3 130816) in
  let '(_, _, ok4) := send_msg (rn a3) (tpm 65280 51 (pay 9)) 0 in
  ev1 = [cm_event 22 50 [16; 20; 0; 3; 255; 0; 255; 1]] /\ (ok1, ok2, ok4) = (true, false, true) /\
  map (fun e => match e with EvTx _ _ d _ => d | _ => [] end) ev2 =
    [1 :: firstn 7 (pay 20); 2 :: firstn 7 (skipn 7 (pay 20)); 3 :: skipn 14 (pay 20) ++ [255]] /\
  ev3 = [] /\ d_tp_msg (get_dev (rn a3) 0) = None.
Proof. vm_compute. repeat split. Qed.
Print Assumptions C10_sender_20.

(* a 20-byte transfer, library as responder (32-bit scheduler build, clock just below 2^32): CTS for 3 packets, EndOfMsgAck, ONE delivery
   with the embedded PGN; a repetition of the last packet afterwards delivers nothing *)
Example C10_receiver_20 :
  let b := node0 false 50 4294967290 5 in
  let fr id d := {| r_id := id; r_len := 8; r_buf := d |} in
  let '(b1, ev1) := rx_loop gf_none 20 (with_rxq b [fr (tp_cm_id 22 50) (cm_rts 20 255 130816)]) in
  let '(b2, ev2) := rx_loop gf_none 20 (with_rxq b1 (map (fun k => fr (tp_dt_id 22 50) (dt_frame (pay 20) k)) [1; 2; 3]%nat)) in
  let '(b3, ev3) := rx_loop gf_none 20 (with_rxq b2 [fr (tp_dt_id 22 50) (dt_frame (pay 20) 3)]) in
  ev1 = [cm_event 50 22 (cm_cts 3 1 130816)] /\
  ev2 = [cm_event 50 22 (cm_ack 20 3 130816); EvDeliver {| m_pri := 7; m_pgn := 130816; m_src := 22; m_dst := 50; m_data := pay 20; m_tp := true |}] /\
  ev3 = [] /\ Forall (fun s => s_free s = true) (r_slots b3).
Proof. vm_compute. repeat split; repeat constructor. Qed.
Print Assumptions C10_receiver_20.

(* a 223-byte transfer library to library (64-bit build to 32-bit build): 32 packets in 7 windows, delivered once, intact; and by BAM *)
Example C10_lib_to_lib_223 :
  l2l_run true false 130816 (pay 223) = (true, true, [{| m_pri := 7; m_pgn := 130816; m_src := 22; m_dst := 50; m_data := pay 223; m_tp := true |}], None).
Proof. vm_compute. reflexivity. Qed.
Print Assumptions C10_lib_to_lib_223.

(* BAM (64-bit build): announce, nothing at +50 ms, one packet at +51 ms, nothing 50 ms later, the second packet 51 ms later, then the session is over *)
Example C10_bam_spacing :
  let a := node0 true 22 5000 5 in
  let '(n1, ev1, ok1) := send_msg (rn a) (tpm 129029 99 (pay 10)) 0 in
  let at_ r t := with_rn r (set_now (rn r) t) in
  let '(a2, ev2) := send_pending_tp (at_ (with_rn a n1) 5050) 0 in
  let '(a3, ev3) := send_pending_tp (at_ a2 5051) 0 in
  let '(a4, ev4) := send_pending_tp (at_ a3 5101) 0 in
  let '(a5, ev5) := send_pending_tp (at_ a4 5102) 0 in
  ev1 = [cm_event 22 255 (cm_bam 10 129029)] /\ ok1 = true /\ ev2 = [] /\ ev3 = [dt_event 22 255 (pay 10) 1] /\ ev4 = [] /\
  ev5 = [dt_event 22 255 (pay 10) 2] /\ d_tp_msg (get_dev (rn a5) 0) = None.
Proof. vm_compute. repeat split. Qed.
Print Assumptions C10_bam_spacing.

(* the former foreign-cts witness: device 22 has announced 20 bytes to station 50; a CTS and an Abort from station 51 do nothing; the CTS of
   station 50 is served in full and its acknowledgement ends the session *)
Example C10_foreign_ctrl_witness :
  let a := node0 true 22 5000 5 in
  let '(n1, _, _) := send_msg (rn a) (tpm 130816 50 (pay 20)) 0 in
  let '(_, a2, ev2, _) := handle_tp (with_rn a n1) 60416 51 22 8 (cm_cts 2 1 130816) in
  let '(_, a3, ev3, _) := handle_tp a2 60416 51 22 8 (cm_abort 1 130816) in
  let '(_, a4, ev4, _) := handle_tp a3 60416 50 22 8 (cm_cts 5 1 130816) in
  let '(_, a5, ev5, _) := handle_tp a4 60416 50 22 8 (cm_ack 20 3 130816) in
  ev2 = [] /\ ev3 = [] /\ ev4 = dt_events 22 50 (pay 20) 0 3 /\ ev5 = [] /\ d_tp_msg (get_dev (rn a5) 0) = None.
Proof. vm_compute. repeat apply conj; reflexivity. Qed.
Print Assumptions C10_foreign_ctrl_witness.

(* the former stale-session witness through ParseMessages: station 50 announces 20 bytes of PGN 130816 to device 22 and gives up; two seconds
   later it transfers 20 bytes of PGN 130817: one delivery, PGN 130817, the payload; answers: CTS, CTS, EndOfMsgAck for PGN 130817 *)
Example C10_later_transfer_witness :
  let fr id d := {| r_id := id; r_len := 8; r_buf := d |} in
  let ops := [RRx (fr (tp_cm_id 50 22) (cm_rts 20 255 130816)); RPoll; RBase (OTick 2000); RRx (fr (tp_cm_id 50 22) (cm_rts 20 255 130817)); RPoll] ++
             map (fun k => RRx (fr (tp_dt_id 50 22) (dt_frame (pay 20) k))) [1; 2; 3]%nat ++ [RPoll; RPoll] in
  concat (snd (rrun gf_none (node0 true 22 5000 5) ops)) =
    [cm_event 22 50 (cm_cts 3 1 130816); cm_event 22 50 (cm_cts 3 1 130817); cm_event 22 50 (cm_ack 20 3 130817);
     EvDeliver {| m_pri := 7; m_pgn := 130817; m_src := 50; m_dst := 22; m_data := pay 20; m_tp := true |}].
Proof. vm_compute. reflexivity. Qed.
Print Assumptions C10_later_transfer_witness.
