(* C02 - received frames are reassembled into exactly the messages that were sent.  Statements fixed in Spec/RxSpec.v. *)
From Coq Require Import ZArith List Bool.
From N2kV Require Import Base.ListAux Model.CanId Model.Sched Model.PgnClass Model.NodeDefs Model.NodeRxDefs Spec.SendSpec Spec.RxSpec
  Proofs.SendProofs Proofs.RxProofsA Proofs.RxProofsB Proofs.RxProofsC.
Import ListNotations.
Local Open Scope Z_scope.

Theorem C02_id_decode : id_decode_c02_stmt.  Proof. exact id_decode. Qed.
Print Assumptions C02_id_decode.
Theorem C02_rx_no_corruption : rx_no_corruption_stmt.  Proof. exact rx_no_corruption. Qed.
Print Assumptions C02_rx_no_corruption.
Theorem C02_cold_node_clean : cold_node_clean_stmt.  Proof. exact cold_node_clean. Qed.
Print Assumptions C02_cold_node_clean.
Theorem C02_rx_loop_iter : rx_loop_iter_stmt.  Proof. exact rx_loop_iter. Qed.
Print Assumptions C02_rx_loop_iter.

(* non-vacuity: three senders (sources 30, 31, 32; PGNs 129029, 127489, 129540; 20 bytes = 3 frames each) interleaved over five slots, the
   last frame of sender 31 is lost: exactly the messages of 30 and 32 are handed over, and the hypotheses of rx_no_corruption hold *)
Definition ex_cfg : rcfg :=
  {| c_only_known := false; c_iso_handler := None; c_prodinfo := []; c_confinfo := []; c_hb_on := false;
     c_inst1 := []; c_inst2 := []; c_manuf := []; c_inst_changed := false |}.
Definition ex_node : rnode := with_open (cold_node true 0 5000 40 5 no_lists [mk_dev true 22 1 []] [[]] ex_cfg) 3 0.
Definition ex_ops : list rop := [RRx (mkf 234358046 [32; 20; 1; 2; 3; 4; 5; 6]); RRx (mkf 233963807 [64; 20; 101; 102; 103; 104; 105; 106]); RRx (mkf 234488864 [96; 20; 201; 202; 203; 204; 205; 206]); RRx (mkf 234358046 [33; 7; 8; 9; 10; 11; 12; 13]); RRx (mkf 233963807 [65; 107; 108; 109; 110; 111; 112; 113]); RRx (mkf 234488864 [97; 207; 208; 209; 210; 211; 212; 213]); RRx (mkf 234358046 [34; 14; 15; 16; 17; 18; 19; 20]); RRx (mkf 234488864 [98; 214; 215; 216; 217; 218; 219; 220]); RPoll].
Example C02_nonvacuous :
  rx_clean ex_node /\ gf_ok gf_none /\ nslots ex_node = 5 /\
  fp_dlv (concat (snd (rrun gf_none ex_node ex_ops))) =
    [ {| m_pri := 3; m_pgn := 129029; m_src := 30; m_dst := 255; m_data := [1; 2; 3; 4; 5; 6; 7; 8; 9; 10; 11; 12; 13; 14; 15; 16; 17; 18; 19; 20]; m_tp := false |};
      {| m_pri := 3; m_pgn := 129540; m_src := 32; m_dst := 255; m_data := [201; 202; 203; 204; 205; 206; 207; 208; 209; 210; 211; 212; 213; 214; 215; 216; 217; 218; 219; 220]; m_tp := false |} ].
Proof.
  split; [split; [reflexivity | repeat constructor] |]. split; [intros r s; repeat split |]. split; vm_compute; reflexivity.
Qed.
Print Assumptions C02_nonvacuous.
