(* C02 - received frames are reassembled into exactly the messages that were sent.  Statements fixed in Spec/RxSpec.v. *)
From Coq Require Import ZArith List Bool Lia.
From N2kV Require Import Base.ListAux Model.CanId Model.Sched Model.PgnClass Model.NodeDefs Model.NodeRxDefs Spec.SendSpec Spec.RxSpec
  Proofs.SendProofs Proofs.RxProofsA Proofs.RxProofsB Proofs.RxProofsC Proofs.RxProofsD Proofs.RxProofsE Proofs.RxProofsF Proofs.RxProofsG Proofs.RxProofsH Proofs.RxProofsI.
Import ListNotations.
Local Open Scope Z_scope.

Theorem C02_id_decode : id_decode_c02_stmt.  Proof. exact id_decode. Qed.
Print Assumptions C02_id_decode.
Theorem C02_rx_no_corruption : rx_no_corruption_stmt.  Proof. exact rx_no_corruption. Qed.
Print Assumptions C02_rx_no_corruption.
Theorem C02_cold_node_clean : cold_node_clean_stmt.  Proof. exact cold_node_clean. Qed.
Print Assumptions C02_cold_node_clean.
(* a fast packet announcing more than 223 bytes is never delivered; nothing longer than 223 bytes is *)
Theorem C02_overlong_never_delivered : overlong_never_delivered_stmt.  Proof. exact overlong_never_delivered. Qed.
Print Assumptions C02_overlong_never_delivered.
Theorem C02_delivered_at_most_223 : delivered_at_most_223_stmt.  Proof. exact delivered_at_most_223. Qed.
Print Assumptions C02_delivered_at_most_223.
Theorem C02_overlong_first_frame : overlong_first_frame_stmt.  Proof. exact overlong_first_frame. Qed.
Print Assumptions C02_overlong_first_frame.
Theorem C02_rx_loop_iter : rx_loop_iter_stmt.  Proof. exact rx_loop_iter. Qed.
Print Assumptions C02_rx_loop_iter.
Theorem C02_single_frame : single_frame_stmt.  Proof. exact single_frame. Qed.
Print Assumptions C02_single_frame.
Theorem C02_supersede : supersede_stmt.  Proof. exact supersede. Qed.
Print Assumptions C02_supersede.
Theorem C02_out_of_sequence_discards : out_of_sequence_discards_stmt.  Proof. exact out_of_sequence_discards. Qed.
Print Assumptions C02_out_of_sequence_discards.
(* completeness: first frame / in-sequence continuation / any other traffic / a whole run inside one ParseMessages loop *)
Theorem C02_rx_complete_first : rx_complete_first_stmt.  Proof. exact rx_complete_first. Qed.
Print Assumptions C02_rx_complete_first.
Theorem C02_rx_complete_cont : rx_complete_cont_stmt.  Proof. exact rx_complete_cont. Qed.
Print Assumptions C02_rx_complete_cont.
Theorem C02_rx_complete_other : rx_complete_other_stmt.  Proof. exact rx_complete_other. Qed.
Print Assumptions C02_rx_complete_other.
Theorem C02_rx_complete_poll : rx_complete_poll_stmt.  Proof. exact rx_complete_poll. Qed.
Print Assumptions C02_rx_complete_poll.
Theorem C02_rx_table_kept : rx_table_kept_stmt.  Proof. exact rx_table_kept. Qed.
Print Assumptions C02_rx_table_kept.
Theorem C02_poll_is_loop : poll_is_loop_stmt.  Proof. exact poll_is_loop. Qed.
Print Assumptions C02_poll_is_loop.
Theorem C02_rx_complete_partial : rx_complete_partial_stmt.  Proof. exact rx_complete_partial. Qed.
Print Assumptions C02_rx_complete_partial.
(* completeness by counting (PGN, source, destination) keys against slots (true since FindFreeCANMsgIndex prefers the busy slot of the key) *)
Theorem C02_rx_complete : rx_complete_stmt.  Proof. exact rx_complete. Qed.
Print Assumptions C02_rx_complete.
(* runs of the arrival stream are sent messages, provided the 3-bit sequence id cannot alias *)
Theorem C02_runs_are_sent : runs_are_sent_stmt.  Proof. exact runs_are_sent. Qed.
Print Assumptions C02_runs_are_sent.
Theorem C02_runs_are_sent_partial : runs_are_sent_partial_stmt.  Proof. exact runs_are_sent_partial. Qed.
Print Assumptions C02_runs_are_sent_partial.

(* non-vacuity: three senders (sources 30, 31, 32; PGNs 129029, 127489, 129540; 20 bytes = 3 frames each) interleaved over five slots, the
   last frame of sender 31 is lost: exactly the messages of 30 and 32 are handed over, and the hypotheses of rx_no_corruption hold *)
Definition ex_cfg : rcfg :=
  {| c_only_known := false; c_iso_handler := None; c_prodinfo := []; c_confinfo := []; c_hb_on := false;
     c_inst1 := []; c_inst2 := []; c_manuf := []; c_inst_changed := false |}.
Definition ex_node : rnode := with_open (cold_node true 0 5000 40 5 no_lists [mk_dev true 22 1 []] [[]] ex_cfg) 3 0.
Definition ex_ops : list rop := [RRx (mkf 234358046 [32; 20; 1; 2; 3; 4; 5; 6]); RRx (mkf 233963807 [64; 20; 101; 102; 103; 104; 105; 106]); RRx (mkf 234488864 [96; 20; 201; 202; 203; 204; 205; 206]); RRx (mkf 234358046 [33; 7; 8; 9; 10; 11; 12; 13]); RRx (mkf 233963807 [65; 107; 108; 109; 110; 111; 112; 113]); RRx (mkf 234488864 [97; 207; 208; 209; 210; 211; 212; 213]); RRx (mkf 234358046 [34; 14; 15; 16; 17; 18; 19; 20]); RRx (mkf 234488864 [98; 214; 215; 216; 217; 218; 219; 220]); RPoll].
Example C02_nonvacuous :
  rx_clean ex_node /\ gf_ok gf_none /\ nslots ex_node = 5 /\
  fp_dlv (concat (snd (rrun gf_none ex_node ex_ops))) =
    [ {| m_pri := 3; m_pgn := 129029; m_src := 30; m_dst := 255; m_data := [1; 2; 3; 4; 5; 6; 7; 8; 9; 10; 11; 12; 13; 14; 15; 16; 17; 18; 19; 20]; m_tp := false |};
      {| m_pri := 3; m_pgn := 129540; m_src := 32; m_dst := 255; m_data := [201; 202; 203; 204; 205; 206; 207; 208; 209; 210; 211; 212; 213; 214; 215; 216; 217; 218; 219; 220]; m_tp := false |} ].
Proof.
  split; [split; [reflexivity | repeat constructor] |]. split; [intros r s; repeat split |]. split; vm_compute; reflexivity.
Qed.
Print Assumptions C02_nonvacuous.

(* non-vacuity of the completeness theorem for one loop: sender 30's three frames interleaved with sender 31's first two *)
Definition ex_a0 := mkf 234358046 [32; 20; 1; 2; 3; 4; 5; 6].
Definition ex_a1 := mkf 234358046 [33; 7; 8; 9; 10; 11; 12; 13].
Definition ex_a2 := mkf 234358046 [34; 14; 15; 16; 17; 18; 19; 20].
Definition ex_b0 := mkf 233963807 [64; 20; 101; 102; 103; 104; 105; 106].
Definition ex_b1 := mkf 233963807 [65; 107; 108; 109; 110; 111; 112; 113].
Example C02_complete_nonvacuous :
  In (run_msg ex_a0 [ex_a1; ex_a2]) (fp_dlv (snd (rx_loop gf_none 20%nat (with_rxq ex_node [ex_a0; ex_b0; ex_a1; ex_b1; ex_a2])))) /\
  m_data (run_msg ex_a0 [ex_a1; ex_a2]) = [1; 2; 3; 4; 5; 6; 7; 8; 9; 10; 11; 12; 13; 14; 15; 16; 17; 18; 19; 20].
Proof.
  split; [|vm_compute; reflexivity].
  apply (C02_rx_complete_poll gf_none (with_rxq ex_node [ex_a0; ex_b0; ex_a1; ex_b1; ex_a2]) ex_a0 [ex_a1; ex_a2] [ex_b0; ex_a1; ex_b1; ex_a2] 20%nat).
  - intros r s; repeat split.
  - repeat split; vm_compute; reflexivity.
  - unfold free_clear. cbn. repeat (constructor; [intros _; reflexivity|]). constructor.
  - reflexivity.
  - cbn [interleaved]. right. split; [intros (_ & A & _); vm_compute in A; discriminate|]. left. eexists. split; [reflexivity|].
    cbn [interleaved]. right. split; [intros (_ & A & _); vm_compute in A; discriminate|]. left. eexists. split; [reflexivity|]. reflexivity.
  - cbn [seq_ok]. repeat split; vm_compute; congruence.
  - cbn. lia.
  - vm_compute. reflexivity.
  - intros cs' Hl E. cbn [length] in Hl. destruct cs' as [|x [|y [|z cs']]]; cbn [length] in Hl; try lia.
    + vm_compute. reflexivity.
    + cbn [length firstn] in E. injection E as ->. vm_compute. reflexivity.
  - vm_compute. reflexivity.
Qed.
Print Assumptions C02_complete_nonvacuous.

(* non-vacuity of runs_are_sent: the sender's second message (sequence id 2+1) arrives completely after the tail of its first was lost *)
Example C02_sent_nonvacuous :
  let payloads := [[9; 9; 9; 9; 9; 9; 9; 9; 9; 9]; [1; 2; 3; 4; 5; 6; 7; 8; 9; 10]] in
  let id := to_can_id 3 129029 30 255 in
  let fs := [mkf id [64; 10; 9; 9; 9; 9; 9; 9]; mkf id [96; 10; 1; 2; 3; 4; 5; 6]; mkf id [97; 7; 8; 9; 10; 255; 255; 255]] in
  let m := {| m_pri := 3; m_pgn := 129029; m_src := 30; m_dst := 255; m_data := [1; 2; 3; 4; 5; 6; 7; 8; 9; 10]; m_tp := false |} in
  fast_just fs m [1; 2]%nat /\ m_data m = nth 1 payloads [].
Proof.
  cbv zeta. split; [|reflexivity].
  exists 1%nat, [2%nat], (mkf (to_can_id 3 129029 30 255) [96; 10; 1; 2; 3; 4; 5; 6]).
  repeat split; try (vm_compute; reflexivity); try (vm_compute; lia); try (vm_compute; congruence).
  eexists. split; [reflexivity|]. repeat split; try (vm_compute; reflexivity); try (vm_compute; congruence).
Qed.
Print Assumptions C02_sent_nonvacuous.

(* the hypotheses of runs_are_sent are satisfiable: the run above is frames 0,1 of sent message number 1 (of two), sequence ids 2,3 *)
Example C02_sent_applies :
  let payloads := [[9; 9; 9; 9; 9; 9; 9; 9; 9; 9]; [1; 2; 3; 4; 5; 6; 7; 8; 9; 10]] in
  let id := to_can_id 3 129029 30 255 in
  let fs := [mkf id [64; 10; 9; 9; 9; 9; 9; 9]; mkf id [96; 10; 1; 2; 3; 4; 5; 6]; mkf id [97; 7; 8; 9; 10; 255; 255; 255]] in
  forall m, fast_just fs m [1; 2]%nat -> m_data m = [1; 2; 3; 4; 5; 6; 7; 8; 9; 10] /\ m_src m = 30.
Proof.
  cbv zeta. intros m FJ.
  match type of FJ with fast_just ?fs _ _ => pose proof (C02_runs_are_sent 3 129029 30 255 2 [[9; 9; 9; 9; 9; 9; 9; 9; 9; 9]; [1; 2; 3; 4; 5; 6; 7; 8; 9; 10]] fs m [1; 2]%nat [1; 1]%nat [0; 1]%nat) as R end.
  cbv zeta in R. destruct R as (_ & D & _ & _ & S & _); auto.
  - unfold id_args_ok. lia.
  - intros X. vm_compute in X. discriminate.
  - lia.
  - repeat constructor; cbn; lia.
  - intros k Hk. cbn [length] in Hk. destruct k as [|[|k]]; [split; [cbn; lia | vm_compute; reflexivity] .. | lia].
  - intros k Hk. cbn [length] in Hk. destruct k as [|k]; [|lia]. right. cbn. lia.
  - cbn. lia.
Qed.
Print Assumptions C02_sent_applies.

(* regression witness of the repaired finding 'complete-stale' (two senders over two slots, sender 11 loses the tail of a message and sends
   the next one after sender 10's slot was freed): all three complete messages are handed over, in particular sender 10's second one *)
Example C02_stale_slot_repaired :
  fp_dlv (snd (rx_loop gf_none 20%nat wit_node)) =
    [ {| m_pri := 3; m_pgn := 129029; m_src := 10; m_dst := 255; m_data := [0; 1; 2; 3; 4; 5; 6; 7; 8; 9]; m_tp := false |};
      {| m_pri := 3; m_pgn := 129540; m_src := 11; m_dst := 255; m_data := [40; 41; 42; 43; 44; 45; 46; 47; 48; 49]; m_tp := false |};
      {| m_pri := 3; m_pgn := 129029; m_src := 10; m_dst := 255; m_data := [60; 61; 62; 63; 64; 65; 66; 67; 68; 69]; m_tp := false |} ].
Proof. vm_compute. reflexivity. Qed.
Print Assumptions C02_stale_slot_repaired.

(* the hypotheses of rx_complete are satisfiable: the same history, two keys against two slots *)
Example C02_rx_complete_applies :
  In (run_msg (mkf wit_x [32; 10; 60; 61; 62; 63; 64; 65]) [mkf wit_x [33; 66; 67; 68; 69; 255; 255; 255]]) (fp_dlv (snd (rx_loop gf_none 20%nat wit_node))).
Proof.
  apply (C02_rx_complete gf_none wit_node
    [mkf wit_x [0; 10; 0; 1; 2; 3; 4; 5]; mkf wit_k [0; 10; 20; 21; 22; 23; 24; 25]; mkf wit_x [1; 6; 7; 8; 9; 255; 255; 255]; mkf wit_k [32; 10; 40; 41; 42; 43; 44; 45]]
    (mkf wit_x [32; 10; 60; 61; 62; 63; 64; 65])
    [mkf wit_k [33; 46; 47; 48; 49; 255; 255; 255]; mkf wit_x [33; 66; 67; 68; 69; 255; 255; 255]]
    [mkf wit_x [33; 66; 67; 68; 69; 255; 255; 255]]
    [(129029, 10, 255); (129540, 11, 255)] 20%nat).
  - intros r s; repeat split.
  - split; [reflexivity|repeat constructor].
  - reflexivity.
  - vm_compute. discriminate.
  - intros f Hin. change (r_q wit_node) with wit_q in Hin. unfold wit_q in Hin. repeat (destruct Hin as [<-|Hin]; [vm_compute; auto|]). destruct Hin.
  - repeat split; vm_compute; reflexivity.
  - cbn [interleaved]. right. split; [intros (_ & A & _); vm_compute in A; discriminate|]. left. exists []. split; reflexivity.
  - cbn [seq_ok]. repeat split; vm_compute; congruence.
  - vm_compute. reflexivity.
  - intros cs' Hl E. cbn [length] in Hl. destruct cs' as [|x cs']; cbn [length] in Hl; [|lia]. vm_compute. reflexivity.
  - change (r_q wit_node) with wit_q. cbn. lia.
Qed.
Print Assumptions C02_rx_complete_applies.

(* run-level completeness: over whole histories, frames spread over any number of polls, any clock, no 100 ms clause *)
Theorem C02_rx_complete_run : rx_complete_run_stmt.  Proof. exact rx_complete_run. Qed.
Print Assumptions C02_rx_complete_run.
(* its hypotheses are satisfiable: sender 30's three frames spread over three polls, sender 31 interleaved, 150 ms pass in between *)
Definition ex_hist : list rop :=
  [RRx ex_a0; RRx ex_b0; RPoll; RBase (OTick 150); RRx ex_a1; RRx ex_b1; RPoll; RRx ex_a2; RPoll].
Example C02_rx_complete_run_applies :
  In (run_msg ex_a0 [ex_a1; ex_a2]) (fp_dlv (concat (snd (rrun gf_none ex_node ex_hist)))).
Proof.
  apply (C02_rx_complete_run gf_none ex_node ex_hist [] ex_a0 [ex_b0; ex_a1; ex_b1; ex_a2] [] [ex_a1; ex_a2] [(129029, 30, 255); (127489, 31, 255)]).
  - intros r s; repeat split.
  - split; [reflexivity|repeat constructor].
  - intros k. do 10 (destruct k as [|k]; [vm_compute; reflexivity|]). vm_compute. reflexivity.
  - vm_compute. discriminate.
  - intros f Hin. cbn in Hin. repeat (destruct Hin as [<-|Hin]; [vm_compute; auto|]). destruct Hin.
  - reflexivity.
  - repeat split; vm_compute; reflexivity.
  - cbn [interleaved]. right. split; [intros (_ & A & _); vm_compute in A; discriminate|]. left. eexists. split; [reflexivity|].
    cbn [interleaved]. right. split; [intros (_ & A & _); vm_compute in A; discriminate|]. left. eexists. split; [reflexivity|]. reflexivity.
  - cbn [seq_ok]. repeat split; vm_compute; congruence.
  - vm_compute. reflexivity.
  - intros cs' Hl E. cbn [length] in Hl. destruct cs' as [|x [|y [|z cs']]]; cbn [length] in Hl; try lia.
    + vm_compute. reflexivity.
    + cbn [length firstn] in E. injection E as ->. vm_compute. reflexivity.
  - vm_compute. lia.
Qed.
Print Assumptions C02_rx_complete_run_applies.

(* the library's group function handlers (Model/GroupFnDefs.v, property C09) satisfy the contract gf_ok: HandleGroupFunction leaves the
   reassembly table, the driver queue, the PGN configuration, the known-message switch and the clock alone and delivers nothing itself,
   so the statements that assume gf_ok hold for the node as shipped (gf := gf_lib) *)
From N2kV Require Model.GroupFnDefs Proofs.GroupFnContractsA.
Theorem C02_gf_lib_ok : RxSpec.gf_ok GroupFnDefs.gf_lib.  Proof. exact GroupFnContractsA.gf_lib_rx_ok. Qed.
Print Assumptions C02_gf_lib_ok.

(* ---- the public application calls (Model/ApiDefs.v): the run-level statements over extended histories (Spec/ApiRxSpec.v) ----
   Every call except Set/Extend SingleFrame/FastPacket Messages (ASetPgnList, excluded by keeps_lists) leaves the reassembly table and the
   PGN configuration alone and delivers nothing; SetMode, ExtendTransmitMessages, ExtendReceiveMessages and SetProductInformation are
   included everywhere.  SetHandleOnlyKnownMessages (ASetOnlyKnown) is the one call that changes the known-message switch: safety
   (no corruption, 223 bytes) includes it, completeness excludes it (keeps_filter) and C02_api_rx_complete_run_lists_refuted shows why. *)
From N2kV Require Import Model.ApiDefs Spec.ApiRxSpec Proofs.ApiRxProofs Proofs.ApiRxProofsB.
Theorem C02_api_table_kept : api_table_kept_stmt.  Proof. exact api_table_kept. Qed.
Print Assumptions C02_api_table_kept.
Theorem C02_api_rx_no_corruption : api_rx_no_corruption_stmt.  Proof. exact api_rx_no_corruption. Qed.
Print Assumptions C02_api_rx_no_corruption.
Theorem C02_api_overlong_never : api_delivered_at_most_223_stmt.  Proof. exact api_delivered_at_most_223. Qed.
Print Assumptions C02_api_overlong_never.
Theorem C02_api_rx_complete_run : api_rx_complete_run_stmt.  Proof. exact api_rx_complete_run. Qed.
Print Assumptions C02_api_rx_complete_run.
(* the exclusion is necessary: with ASetPgnList in the history the start configuration does not classify the deliveries *)
Theorem C02_api_rx_no_corruption_all_refuted : ~ api_rx_no_corruption_all_stmt.  Proof. exact api_rx_no_corruption_all_refuted. Qed.
Print Assumptions C02_api_rx_no_corruption_all_refuted.
(* and so is the exclusion of ASetOnlyKnown from completeness: the switch turned on in the middle of a proprietary fast-packet run *)
Theorem C02_api_rx_complete_run_lists_refuted : ~ api_rx_complete_run_lists_stmt.  Proof. exact api_rx_complete_run_lists_refuted. Qed.
Print Assumptions C02_api_rx_complete_run_lists_refuted.

(* non-vacuity: a ListenAndNode node; sender 30's three frames spread over three polls, sender 31 interleaved, 150 ms pass, and between the
   frames the application calls SendProductInformation, SetMode, SendHeartbeat(force), ExtendTransmitMessages, ExtendReceiveMessages,
   SetProductInformation, Restart, SetDeviceInformationInstances and SendIsoAddressClaim: the hypotheses of the lifted theorems hold and exactly sender 30's message is handed over *)
Definition ex_api_node : rnode := with_open (cold_node true 2 5000 40 5 no_lists [mk_dev true 22 1 []] [[]] ex_cfg) 3 0.
Definition ex_xhist : list xop :=
  [XBase (RRx ex_a0); XApi (ASendProd 0); XBase (RRx ex_b0); XBase RPoll; XApi (ASetMode 2 40); XBase (RBase (OTick 150)); XBase (RRx ex_a1);
   XApi (ASendHeartbeatAll true); XApi (ASetTxList 0 [129029; 0]); XApi (ASetRxList 0 [127489; 0]);
   XApi (ASetProductInformation [49] 666 [65] [66] [67] 2 65535 255); XBase RPoll; XApi ARestart; XApi (ASetInstances 0 1 2 3); XBase (RRx ex_a2); XApi (ASendClaim 255 (-1) 0); XBase RPoll].
Example C02_api_nonvacuous :
  rx_clean ex_api_node /\ gf_ok gf_none /\ keeps_lists ex_xhist /\ keeps_filter ex_xhist /\
  fp_dlv (concat (snd (xrun gf_none ex_api_node ex_xhist))) =
    [ {| m_pri := 3; m_pgn := 129029; m_src := 30; m_dst := 255; m_data := [1; 2; 3; 4; 5; 6; 7; 8; 9; 10; 11; 12; 13; 14; 15; 16; 17; 18; 19; 20]; m_tp := false |} ] /\
  (* the calls do send: product information, forced heartbeat, two address claims *)
  length (flat_map (fun e => match e with EvTx _ _ _ _ => [e] | _ => [] end) (concat (snd (xrun gf_none ex_api_node ex_xhist)))) = 4%nat.
Proof.
  split; [split; [reflexivity | repeat constructor] |]. split; [intros r s; repeat split |]. split; [reflexivity|]. split; [reflexivity|]. split; vm_compute; reflexivity.
Qed.
Print Assumptions C02_api_nonvacuous.

(* safety covers SetHandleOnlyKnownMessages: a history that turns the switch on between the two frames of a proprietary fast-packet run
   (the history of C02_api_rx_complete_run_lists_refuted) and off again before a second, complete run of the same sender - the first run
   is lost, the second is delivered, and the safety theorem applies (keeps_lists holds, keeps_filter does not) *)
Definition ex_switch_hist : list xop :=
  switch_ops ++ [XApi (ASetOnlyKnown false); XBase (RRx (mkf switch_id [32; 9; 1; 2; 3; 4; 5; 6])); XBase (RRx (mkf switch_id [33; 7; 8; 9; 255; 255; 255; 255])); XBase RPoll].
Example C02_api_nonvacuous_switch :
  rx_clean setlist_node /\ keeps_lists ex_switch_hist /\ forallb xop_keeps_filter ex_switch_hist = false /\
  fp_dlv (concat (snd (xrun gf_none setlist_node ex_switch_hist))) =
    [ {| m_pri := 3; m_pgn := 130816; m_src := 30; m_dst := 255; m_data := [1; 2; 3; 4; 5; 6; 7; 8; 9]; m_tp := false |} ] /\
  exists idxs, Forall2 (justified (n_pgn (rn setlist_node)) (xframes_of ex_switch_hist)) (fp_dlv (concat (snd (xrun gf_none setlist_node ex_switch_hist)))) idxs /\
               NoDup (concat idxs).
Proof.
  split; [split; [reflexivity | repeat constructor] |]. split; [reflexivity|]. split; [reflexivity|]. split; [vm_compute; reflexivity|].
  apply (C02_api_rx_no_corruption gf_none setlist_node ex_switch_hist); [intros r s; repeat split|split; [reflexivity | repeat constructor]|reflexivity].
Qed.
Print Assumptions C02_api_nonvacuous_switch.

(* the hypotheses of the lifted completeness theorem are satisfiable: the same history *)
Example C02_api_rx_complete_run_applies :
  In (run_msg ex_a0 [ex_a1; ex_a2]) (fp_dlv (concat (snd (xrun gf_none ex_api_node ex_xhist)))).
Proof.
  apply (C02_api_rx_complete_run gf_none ex_api_node ex_xhist [] ex_a0 [ex_b0; ex_a1; ex_a2] [] [ex_a1; ex_a2] [(129029, 30, 255); (127489, 31, 255)]).
  - intros r s; repeat split.
  - split; [reflexivity|repeat constructor].
  - intros k. do 18 (destruct k as [|k]; [vm_compute; reflexivity|]). vm_compute. reflexivity.
  - reflexivity.
  - vm_compute. discriminate.
  - intros f Hin. cbn in Hin. repeat (destruct Hin as [<-|Hin]; [vm_compute; auto|]). destruct Hin.
  - reflexivity.
  - repeat split; vm_compute; reflexivity.
  - cbn [interleaved]. right. split; [intros (_ & A & _); vm_compute in A; discriminate|]. left. eexists. split; [reflexivity|].
    cbn [interleaved]. left. eexists. split; [reflexivity|]. reflexivity.
  - cbn [seq_ok]. repeat split; vm_compute; congruence.
  - vm_compute. reflexivity.
  - intros cs' Hl E. cbn [length] in Hl. destruct cs' as [|x [|y [|z cs']]]; cbn [length] in Hl; try lia.
    + vm_compute. reflexivity.
    + cbn [length firstn] in E. injection E as ->. vm_compute. reflexivity.
  - vm_compute. lia.
Qed.
Print Assumptions C02_api_rx_complete_run_applies.

(* the clause "or emptied" of C02_api_table_kept is real: on a node that has opened the CAN controller and waits for its 200 ms, a sending
   call reaches Open() through SendMsg, which reads the receive queue empty - the frame that had arrived is gone, nothing is sent and the
   node is not open yet (ParseMessages and SendMsg behave the same on such a node) *)
Example C02_api_send_before_open_empties_queue :
  let r := with_rxq (with_open (cold_node true 2 5000 40 5 no_lists [mk_dev true 22 1 []] [[]] ex_cfg) 2 5200) [ex_a0] in
  r_q (fst (api_step r (ASendProd 0))) = [] /\ snd (api_step r (ASendProd 0)) = [] /\ n_open (rn (fst (api_step r (ASendProd 0)))) = 2.
Proof. vm_compute. repeat split. Qed.
Print Assumptions C02_api_send_before_open_empties_queue.
