(* C16 - text fields never overrun a buffer and round-trip their content.
   Only statements (fixed in Spec/TextSpec.v) and their closing lemma; nothing else lives here. *)
From Coq Require Import ZArith List Lia.
From N2kV Require Import Base.Res Model.TextDefs Spec.TextSpec Proofs.TextProofsA Proofs.TextProofsB Proofs.TextProofsC Proofs.TextProofsD.
Import ListNotations.
Local Open Scope Z_scope.

Theorem C16_add_safe : add_safe_stmt.
Proof. exact add_safe. Qed.
Print Assumptions C16_add_safe.

Theorem C16_var_str_wellformed : var_str_wellformed_stmt.
Proof. exact var_str_wellformed. Qed.
Print Assumptions C16_var_str_wellformed.

Theorem C16_var_str_degenerate : var_str_degenerate_stmt.
Proof. exact var_str_degenerate. Qed.
Print Assumptions C16_var_str_degenerate.

Theorem C16_get_safe : get_safe_stmt.
Proof. exact get_safe. Qed.
Print Assumptions C16_get_safe.

Theorem C16_roundtrip_fixed : roundtrip_fixed_stmt.
Proof. exact roundtrip_fixed. Qed.
Print Assumptions C16_roundtrip_fixed.

Theorem C16_roundtrip_var_ascii : roundtrip_var_ascii_stmt.
Proof. exact roundtrip_var_ascii. Qed.
Print Assumptions C16_roundtrip_var_ascii.

Theorem C16_roundtrip_ais : roundtrip_ais_stmt.
Proof. exact roundtrip_ais. Qed.
Print Assumptions C16_roundtrip_ais.

Theorem C16_roundtrip_bmp : roundtrip_bmp_stmt.
Proof. exact roundtrip_bmp. Qed.
Print Assumptions C16_roundtrip_bmp.

(* non-vacuity: "M\u00e4kel\u00e4\u20ac" (well-formed, 1-, 2- and 3-byte sequences) at fill level 3 with a maximum of 6 characters cuts the
   euro sign off; reading into 8 bytes then stops in front of the second a-umlaut, which no longer fits: "M\u00e4kel" comes back,
   exactly what roundtrip_bmp_stmt predicts *)
Example C16_nonvacuous :
  let m := {| mdata := repeat 85 223; mlen := 3 |} in
  payload m /\ Forall scalar nv_cps /\ ~ In 255 (map bmp_repl nv_cps) /\
  exists m', add_var_str m (utf8 nv_cps) 6 true true = Ok m' /\ mlen m' = 17 /\
             firstn 14 (skipn 3 (mdata m')) = [14; 0; 77; 0; 228; 0; 107; 0; 101; 0; 108; 0; 228; 0] /\
             get_var_str m' 8 (repeat 165 8) 255 3 = Ok (true, 6, 17, [77; 195; 164; 107; 101; 108; 0; 165]) /\
             utf8 (take_fit 7 (zfirstn (var_chars nv_cps 6 true 218) (map bmp_repl nv_cps))) = [77; 195; 164; 107; 101; 108].
Proof.
  cbv zeta. split; [split; [reflexivity|cbn [mlen]; lia]|].
  split; [unfold nv_cps, scalar; repeat constructor; lia|].
  split; [vm_compute; intros H; repeat (destruct H as [H|H]; [discriminate H|]); exact H|].
  eexists. split; [vm_compute; reflexivity|]. vm_compute. repeat split; reflexivity.
Qed.
Print Assumptions C16_nonvacuous.
