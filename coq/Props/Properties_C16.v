(* C16 - text fields never overrun a buffer and round-trip their content.
   Only statements (fixed in Spec/TextSpec.v) and their closing lemma; nothing else lives here. *)
From Coq Require Import ZArith List.
From N2kV Require Import Base.Res Model.TextDefs Spec.TextSpec Proofs.TextProofsA Proofs.TextProofsB Proofs.TextProofsC.
Import ListNotations.
Local Open Scope Z_scope.

Theorem C16_add_safe : add_safe_stmt.
Proof. exact add_safe. Qed.
Print Assumptions C16_add_safe.

Theorem C16_var_str_wellformed : var_str_wellformed_stmt.
Proof. exact var_str_wellformed. Qed.
Print Assumptions C16_var_str_wellformed.

Theorem C16_var_str_degenerate : var_str_degenerate_stmt.
Proof. exact var_str_degenerate. Qed.
Print Assumptions C16_var_str_degenerate.

Theorem C16_get_safe : get_safe_stmt.
Proof. exact get_safe. Qed.
Print Assumptions C16_get_safe.

Theorem C16_roundtrip_fixed : roundtrip_fixed_stmt.
Proof. exact roundtrip_fixed. Qed.
Print Assumptions C16_roundtrip_fixed.

Theorem C16_roundtrip_var_ascii : roundtrip_var_ascii_stmt.
Proof. exact roundtrip_var_ascii. Qed.
Print Assumptions C16_roundtrip_var_ascii.

Theorem C16_roundtrip_ais : roundtrip_ais_stmt.
Proof. exact roundtrip_ais. Qed.
Print Assumptions C16_roundtrip_ais.
