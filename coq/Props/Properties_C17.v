(* C17 - Actisense output decodes to the same message; the reader survives any stream.
   Only statements (fixed in Spec/ActisenseSpec.v) and their closing lemma; nothing else lives here. *)
From Coq Require Import ZArith List Lia.
From N2kV Require Import Base.Res Model.ActisenseDefs Spec.ActisenseSpec Proofs.ActisenseProofs.
From N2kV Require Import Model.ForwardDefs Spec.ForwardSpec Proofs.ForwardProofs.
Import ListNotations.
Local Open Scope Z_scope.

Theorem C17_encode_frame : encode_frame_stmt.
Proof. exact encode_frame. Qed.
Print Assumptions C17_encode_frame.

Theorem C17_decode_encode : decode_encode_stmt.
Proof. exact decode_encode. Qed.
Print Assumptions C17_decode_encode.

Theorem C17_reader_safe : reader_safe_stmt.
Proof. exact reader_safe. Qed.
Print Assumptions C17_reader_safe.

Theorem C17_reports_only_consistent : reports_only_consistent_stmt.
Proof. exact reports_only_consistent. Qed.
Print Assumptions C17_reports_only_consistent.

Theorem C17_frame_content : frame_content_stmt.
Proof. exact frame_content. Qed.
Print Assumptions C17_frame_content.

Theorem C17_resync : resync_stmt.
Proof. exact resync. Qed.
Print Assumptions C17_resync.

Theorem C17_readout : readout_stmt.
Proof. exact readout. Qed.
Print Assumptions C17_readout.

(* non-vacuity: a well-formed message with escape bytes in header and payload whose checksum is the escape byte; a reader whose
   array holds 0xAA everywhere and that has seen garbage (ending in an ESC outside a frame) decodes the encoder's output to it *)
Example C17_nonvacuous :
  wf_msg nv_msg /\ cksum (data_body nv_msg) = ESC /\ encode nv_msg = Ok (frame nv_msg) /\
  match run 0 (init (repeat 170 300) 65) ([1; STX; ESC; ETX; 147; ESC] ++ frame nv_msg) with
  | Ok (_, ms) => ms = [nv_msg]
  | _ => False
  end.
Proof.
  split.
  { unfold wf_msg, nv_msg, byte, bytes. cbn [pgn pri dst src tim data length].
    repeat split; try (vm_compute; congruence); try lia; repeat constructor; vm_compute; congruence. }
  split; [vm_compute; reflexivity|]. split; vm_compute; reflexivity.
Qed.
Print Assumptions C17_nonvacuous.

(* the side condition of decode_encode / resync is necessary: an ESC pending inside a frame pairs with the ESC of the start
   sequence (that is an escaped 0x10 in this format), so the frame that follows is not seen *)
Example C17_pending_escape_swallows_start :
  match run 0 (init (repeat 0 300) 65) ([ESC; STX; 147; ESC] ++ frame nv_msg) with
  | Ok (_, ms) => ms = []
  | _ => False
  end.
Proof. vm_compute. reflexivity. Qed.
Print Assumptions C17_pending_escape_swallows_start.

(* ---------- the forwarding path (tNMEA2000::ForwardMessage from ParseMessages and from SendMsg) ---------- *)
Theorem C17_forward_decision_table : forward_decision_table_stmt.
Proof. exact forward_decision_table. Qed.
Print Assumptions C17_forward_decision_table.

Theorem C17_forward_roundtrip : forward_roundtrip_stmt.
Proof. exact forward_roundtrip. Qed.
Print Assumptions C17_forward_roundtrip.

Theorem C17_forward_stream : forward_stream_stmt.
Proof. exact forward_stream. Qed.
Print Assumptions C17_forward_stream.

(* non-vacuity: a well-formed received fast-packet message full of escape bytes.  With the constructor's configuration a listener
   and a listen-and-node device forward it, a node-only device forwards it only when it carries the node's own address, a
   send-only device never does; a reader that has seen garbage decodes the forward stream of three opportunities (the middle one
   suppressed by SetForwardOnlyKnownMessages) to the two forwarded messages; the stream of a send-only device is empty *)
Example C17_forward_nonvacuous :
  wf_msg nv_fwd_msg /\
  forward_decision (default_cfg M_ListenOnly) false true false true = true /\
  forward_decision (default_cfg M_ListenAndNode) false true false true = true /\
  forward_decision (default_cfg M_NodeOnly) false true false true = false /\
  forward_decision (default_cfg M_NodeOnly) true true false true = true /\
  forward_decision (default_cfg M_SendOnly) true true false false = false /\
  forward_decision (default_cfg M_ListenAndSend) false true true true = true /\
  forwarded_bytes (default_cfg M_ListenOnly) false true false true nv_fwd_msg = Ok (frame nv_fwd_msg) /\
  (let c := mk_cfg true true true true M_ListenAndNode in
   let l := [ {| i_own := false; i_known := true; i_system := false; i_received := true; i_msg := nv_fwd_msg |};
              {| i_own := false; i_known := false; i_system := false; i_received := true; i_msg := nv_msg |};
              {| i_own := true; i_known := false; i_system := false; i_received := false; i_msg := nv_msg |} ] in
   forwarded_msgs c l = [nv_fwd_msg; nv_msg] /\
   match stream_bytes c l with
   | Ok out => match run 0 (init (repeat 170 300) 65) ([1; STX; ESC; ETX; 147; ESC] ++ out) with
               | Ok (_, ms) => ms = [nv_fwd_msg; nv_msg]
               | _ => False
               end
   | _ => False
   end /\
   stream_bytes (default_cfg M_SendOnly) l = Ok []).
Proof.
  split.
  { unfold wf_msg, nv_fwd_msg, byte, bytes. cbn [pgn pri dst src tim data length].
    repeat split; try (vm_compute; congruence); try lia; repeat constructor; vm_compute; congruence. }
  repeat (split; [vm_compute; reflexivity|]). vm_compute. reflexivity.
Qed.
Print Assumptions C17_forward_nonvacuous.

(* the buffer sizes and the payload limit the model uses are the ones the current source defines (Gen/GenConsts.v is regenerated from
   /repo/src on every run): a changed size in the source breaks this obligation *)
From N2kV Require Gen.GenConsts.
Example C17_constants_match_source :
  MAXBUF = GenConsts.c_MAX_STREAM_MSG_BUF_LEN /\ ENCBUF = GenConsts.c_MaxActisenseMsgBuf /\ GenConsts.c_MaxDataLen = 223.
Proof. repeat split; reflexivity. Qed.
Print Assumptions C17_constants_match_source.
