(* C19 - Seasmart ($PCDIN) export and import are inverse and bounds-safe.
   Only statements (fixed in Spec/SeasmartSpec.v) and their closing lemma; nothing else lives here. *)
From N2kV Require Import Base.Res Model.SeasmartDefs Spec.SeasmartSpec Proofs.SeasmartProofs.

Theorem C19_import_safe : import_safe_stmt.
Proof. exact import_safe. Qed.
Print Assumptions C19_import_safe.

Theorem C19_export_size : export_size_stmt.
Proof. exact export_size. Qed.
Print Assumptions C19_export_size.

Theorem C19_import_export : import_export_stmt.
Proof. exact import_export. Qed.
Print Assumptions C19_import_export.

Theorem C19_import_sound : import_sound_stmt.
Proof. exact import_sound. Qed.
Print Assumptions C19_import_sound.

(* non-vacuity: a concrete well-formed message satisfies the hypotheses *)
Example C19_nonvacuous : wf_msg nv_msg /\ import (sentence nv_msg) = Ok (Some nv_msg).
Proof. split; [unfold wf_msg, nv_msg; cbn; repeat split; try (vm_compute; congruence); repeat constructor; try (vm_compute; congruence) | vm_compute; reflexivity]. Qed.
Print Assumptions C19_nonvacuous.
