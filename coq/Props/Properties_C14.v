(* C14 - each received message reaches every matching handler exactly once.  Statements fixed in Spec/HandlerSpec.v. *)
From Coq Require Import ZArith List.
From N2kV Require Import Model.HandlerDefs Spec.HandlerSpec Proofs.HandlerProofs.
Import ListNotations.
Local Open Scope Z_scope.

Theorem C14_sorted_inv : sorted_inv_stmt.  Proof. exact sorted_inv. Qed.
Print Assumptions C14_sorted_inv.
Theorem C14_dispatch_exact : dispatch_exact_stmt.  Proof. exact dispatch_exact. Qed.
Print Assumptions C14_dispatch_exact.
Theorem C14_refines : refines_stmt.  Proof. exact refines. Qed.
Print Assumptions C14_refines.
Theorem C14_dispatch_list_order : dispatch_list_order_stmt.  Proof. exact dispatch_list_order. Qed.
Print Assumptions C14_dispatch_list_order.
Theorem C14_dispatch_order : dispatch_order_stmt.  Proof. exact dispatch_order. Qed.
Print Assumptions C14_dispatch_order.
Theorem C14_destroyed_never_called : destroyed_never_called_stmt.  Proof. exact destroyed_never_called. Qed.
Print Assumptions C14_destroyed_never_called.
Theorem C14_detached_never_called : detached_never_called_stmt.  Proof. exact detached_never_called. Qed.
Print Assumptions C14_detached_never_called.
Theorem C14_reattach_moves : reattach_moves_stmt.  Proof. exact reattach_moves. Qed.
Print Assumptions C14_reattach_moves.

(* non-vacuity: a concrete history with re-attaching to the other bus, equal PGNs, an all-PGN handler, the plain callback and a
   destroyed handler *)
Example C14_nonvacuous :
  snd (hrun hinit [HCreate 0 127250 None; HCreate 1 0 (Some B1); HAttach 0 B1; HRun B1 127250; HAttach 0 B2;
                   HCreate 2 127250 (Some B2); HSetCb B2 true; HRun B1 127250; HRun B2 127250; HDestroy 0; HRun B2 127250; HRun B2 0])
  = [[]; []; []; [CH 1; CH 0]; []; []; []; [CH 1]; [CB; CH 0; CH 2]; []; [CB; CH 2]; [CB]].
Proof. vm_compute. reflexivity. Qed.
Print Assumptions C14_nonvacuous.
