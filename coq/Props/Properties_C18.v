(* C18 - the device list mirrors the address claims seen on the bus (and the device-list half of C07).
   Only statements (fixed in Spec/DevListSpec.v) and their closing lemma; nothing else lives here. *)
From Coq Require Import ZArith List.
From N2kV Require Import Base.Res Model.DevListDefs Spec.DevListSpec Proofs.DevListProofs.
Import ListNotations.
Local Open Scope Z_scope.

Theorem C18_heap_safe : heap_safe_stmt.
Proof. exact heap_safe. Qed.
Print Assumptions C18_heap_safe.
