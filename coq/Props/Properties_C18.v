(* C18 - the device list mirrors the address claims seen on the bus (and the device-list half of C07).
   Only statements (fixed in Spec/DevListSpec.v) and their closing lemma; nothing else lives here.
   The full-strength product information statement (info_prod_stmt) is refuted by the known finding "parked-device"; the restricted
   statement info_prod_partial_stmt (no displaced device returns to the slot the list kept it in) is proved instead. *)
From Coq Require Import ZArith List.
From N2kV Require Import Base.Res Model.DevListDefs Spec.DevListSpec Proofs.DevListProofs.
Import ListNotations.
Local Open Scope Z_scope.

Theorem C18_heap_safe : heap_safe_stmt.
Proof. exact heap_safe. Qed.
Print Assumptions C18_heap_safe.

Theorem C18_one_entry_per_name : one_entry_per_name_stmt.
Proof. exact one_entry_per_name. Qed.
Print Assumptions C18_one_entry_per_name.

Theorem C18_lookup_agrees : lookup_agrees_stmt.
Proof. exact lookup_agrees. Qed.
Print Assumptions C18_lookup_agrees.

Theorem C18_info_lists : info_lists_stmt.
Proof. exact info_lists. Qed.
Print Assumptions C18_info_lists.

Theorem C18_info_conf : info_conf_stmt.
Proof. exact info_conf. Qed.
Print Assumptions C18_info_conf.

Theorem C18_info_prod_partial : info_prod_partial_stmt.
Proof. exact info_prod_partial. Qed.
Print Assumptions C18_info_prod_partial.

Theorem C18_info_prod_refuted : ~ info_prod_stmt.
Proof. exact info_prod_refuted. Qed.
Print Assumptions C18_info_prod_refuted.

Theorem C18_updated_flag : updated_flag_stmt.
Proof. exact updated_flag. Qed.
Print Assumptions C18_updated_flag.

(* C13 for the device list: the requests depend on elapsed time only (finding D-20 repaired) *)
Theorem C18_pacing_shift : pacing_shift_stmt.
Proof. exact pacing_shift. Qed.
Print Assumptions C18_pacing_shift.

(* non-vacuity: a history with a takeover and the return of the displaced device satisfies the hypothesis of the restricted statement,
   its mirror holds both devices, and the list answers for them *)
Example C18_nonvacuous :
  no_return nv_hist init_state [] /\
  map (fun d => (a_name d, a_src d)) (s_run nv_hist []) = [(4660, 5); (13907095858110791681, 10)] /\
  (exists st, run nv_hist init_state = Ok st /\ by_name st 4660 = Ok (Some 5) /\ by_name st 13907095858110791681 = Ok (Some 10) /\
     exists e, entry_at st 5 = Ok (Some e) /\ e_pi e = s_reported (match s_prod wit_piB with Some p => p | None => pi_clear end) /\
               pgn_list (e_tx e) = Ok (Some [126464; 126996]) /\
               conf_str e (e_man e) = Ok (Some [77]) /\ conf_str e (e_d1 e) = Ok (Some [68; 101; 115; 99; 32; 111; 110]) /\ conf_str e (e_d2 e) = Ok None) /\
  (* the D-20 witness: claim, then traffic every 1001 ms: product information is requested from the second message on, from the origin
     0x80010000 (shift by 2^31 + 60536) as from origin 5000 *)
  run_log (shift 2147544184 d20_hist) init_state = run_log d20_hist init_state /\
  run_log d20_hist init_state = Ok [[]; [(10, 126996)]; [(10, 126996)]; [(10, 126996)]; [(10, 126996)]; [(10, 126998)]].
Proof.
  split; [exact nv_no_return|]. split; [vm_compute; reflexivity|]. split; [|split; vm_compute; reflexivity].
  destruct (run nv_hist init_state) as [st| |] eqn:E; [|vm_compute in E; discriminate|vm_compute in E; discriminate].
  exists st. split; [reflexivity|]. vm_compute in E. injection E as <-. split; [vm_compute; reflexivity|]. split; [vm_compute; reflexivity|].
  eexists. split; [vm_compute; reflexivity|]. repeat split; vm_compute; reflexivity.
Qed.
Print Assumptions C18_nonvacuous.
