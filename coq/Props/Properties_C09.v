(* C09 - Group-function (PGN 126208) requests and commands are answered and take effect.
   Only statements (fixed in Spec/GroupFnSpec.v) and their closing lemma; non-vacuity examples; witnesses of the listed known findings. *)
From Coq Require Import ZArith List Bool Lia.
From N2kV Require Import Base.ListAux Model.CanId Model.Sched Model.PgnClass Model.NodeDefs Model.NodeRxDefs Model.GroupFnDefs Spec.GroupFnSpec
  Proofs.GroupFnProofsA Proofs.GroupFnProofsB Proofs.GroupFnProofsC Proofs.GroupFnProofsD Proofs.GroupFnProofsE Proofs.GroupFnProofsF Proofs.GroupFnProofsG.
Import ListNotations.
Local Open Scope Z_scope.

Theorem C09_gf_one_answer : gf_one_answer_stmt.
Proof. exact gf_one_answer. Qed.
Print Assumptions C09_gf_one_answer.

Theorem C09_gf_exec_sends : gf_exec_sends_stmt.
Proof. exact gf_exec_sends. Qed.
Print Assumptions C09_gf_exec_sends.

Theorem C09_gf_ack_codes : gf_ack_codes_stmt.
Proof. exact gf_ack_codes. Qed.
Print Assumptions C09_gf_ack_codes.

Theorem C09_gf_match_all_fields : gf_match_all_fields_stmt.
Proof. exact gf_match_all_fields. Qed.
Print Assumptions C09_gf_match_all_fields.

Theorem C09_ref_codes_per_field : ref_codes_per_field_stmt.
Proof. exact ref_codes_per_field. Qed.
Print Assumptions C09_ref_codes_per_field.

Theorem C09_gf_commands_take_effect : gf_commands_take_effect_stmt.
Proof. exact gf_commands_take_effect. Qed.
Print Assumptions C09_gf_commands_take_effect.

Theorem C09_gf_heartbeat_limits : gf_heartbeat_limits_stmt.
Proof. exact gf_heartbeat_limits. Qed.
Print Assumptions C09_gf_heartbeat_limits.

Theorem C09_conf_payload_ascii : conf_payload_ascii_stmt.
Proof. exact conf_payload_ascii. Qed.
Print Assumptions C09_conf_payload_ascii.

(* ================= non-vacuity ================= *)
(* the device the harness configures: NAME c0328200ffc00001, default product information, "", "", manufacturer information *)
Definition pad32 (l:list Z) : list Z := l ++ repeat 255 (32 - length l).
Definition nv_prod : list Z :=
  [53; 8; 154; 2] ++ pad32 [65;114;100;117;105;110;111;32;78;50;107;45;62;80;67] ++ pad32 [49;46;48;46;48;46;48] ++ pad32 [49;46;48;46;48] ++ pad32 [48;48;48;48;48;48;48;49] ++ [0; 1].
Definition nv_env : gf_env := {| e_name := 13849274744920080385; e_tx := []; e_prod := nv_prod; e_s1 := []; e_s2 := []; e_s3 := [78; 77] |}.
Definition nv_msg (dst:Z) (d:list Z) : gmsg := {| g_src := 50; g_dst := dst; g_tp := false; g_d := d |}.

(* Request 126996 selecting by the real software code (field 4) and the product code (field 2): every pair matches, the PGN is sent (D-17 repaired);
   with a wrong product code the addressed request gets codes [0; 3], the broadcast one is ignored *)
Definition nv_req_ok : list Z := [0; 20; 240; 1; 255; 255; 255; 255; 255; 255; 2; 4] ++ pad32 [49;46;48;46;48;46;48] ++ [2; 154; 2].
Definition nv_req_bad : list Z := [0; 20; 240; 1; 255; 255; 255; 255; 255; 255; 2; 4] ++ pad32 [49;46;48;46;48;46;48] ++ [2; 155; 2].
Example C09_nonvacuous_request :
  ref_header nv_req_ok = Some (0, 126996, 2) /\
  ref_codes (req_table nv_env 126996) nv_req_ok 11 2 = Some [0; 0] /\
  ref_answer nv_env (nv_msg 22 nv_req_ok) = Some (RPgn 126996) /\ gf_decide nv_env (nv_msg 22 nv_req_ok) = GaProd 50 false /\
  ref_answer nv_env (nv_msg 22 nv_req_bad) = Some (RAck 0 0 [0; 3]) /\
  gf_decide nv_env (nv_msg 22 nv_req_bad) = GaAck 50 [2; 20; 240; 1; 0; 2; 48] /\
  gf_decide nv_env (nv_msg 255 nv_req_bad) = GaNone.
Proof. vm_compute. repeat split. Qed.
Print Assumptions C09_nonvacuous_request.

(* a node with one device at address 22, opened, claim finished, accepting driver, empty queue *)
Definition nv_cfg : rcfg :=
  {| c_only_known := false; c_iso_handler := None; c_prodinfo := nv_prod; c_confinfo := conf_payload [] [] [78; 77]; c_hb_on := false;
     c_inst1 := []; c_inst2 := []; c_manuf := [78; 77]; c_inst_changed := false |}.
Definition nv_node : rnode :=
  {| rn := opened_node true 1 5000 40 no_lists [mk_dev true 22 13849274744920080385 []];
     rx_dev := [{| x_pend_claim := sched_disabled true; x_pend_prod := sched_disabled true; x_pend_conf := sched_disabled true;
                   x_hb := {| ss_next := 70000; ss_offset := 10000; ss_period := 60000 |}; x_hb_seq := 0; x_rx := [] |}];
     r_slots := repeat slot0 5; r_q := []; r_cfg := nv_cfg; r_open_sched := 0; r_sync := 0; r_devinfo_changed := false; r_oob := false; r_clk := (0, 0) |}.
Definition nv_slot (d:list Z) : slot :=
  {| s_free := false; s_ready := true; s_known := true; s_system := true; s_pri := 3; s_pgn := 126208; s_src := 50; s_dst := 22; s_tp := false;
     s_len := Z.of_nat (length d); s_data := d; s_last := 0; s_time := 0; s_tpmax := 0; s_tpreq := 0 |}.
Definition tx_frames (ev:list event) : list (Z * list Z) := flat_map (fun e => match e with EvTx id _ d true => [(id, d)] | _ => [] end) ev.

(* Command 60928: device instance lower := 5, system instance := 9 (priority setting 8): one Acknowledge (fast packet, 2 frames) to address 50,
   the NAME carries the instances, the changed flag is raised, the claim is pending, and the ISO request path sends the new NAME *)
Definition nv_cmd : list Z := [1; 0; 238; 0; 248; 2; 3; 5; 8; 9].
Example C09_nonvacuous_command :
  ref_cmd_60928 nv_cmd 6 2 255 255 255 [] = Some (5, 255, 9, [0; 0]) /\
  let '(r1, ev) := gf_lib nv_node (nv_slot nv_cmd) in
  tx_frames ev = [(233648662, [0; 7; 2; 0; 238; 0; 0; 2]); (233648662, [1; 0; 255; 255; 255; 255; 255; 255])] /\
  d_name (get_dev (rn r1) 0) = ref_name_after 13849274744920080385 5 255 9 /\ r_devinfo_changed r1 = true /\
  x_pend_claim (get_devx r1 0) = 5002 /\
  tx_frames (snd (respond_iso_request (with_devx r1 0 (get_devx nv_node 0)) 51 true 60928 0)) = [(418316054, le_bytes 8 (ref_name_after 13849274744920080385 5 255 9))].
Proof. vm_compute. repeat split. Qed.
Print Assumptions C09_nonvacuous_command.

(* Command 126998 description 1 := "AB"; then the configuration information carries it; Request 126993 with 5000 ms / offset 1 s: heartbeat states 500 *)
Definition nv_cmd_desc : list Z := [1; 22; 240; 1; 248; 1; 1; 4; 1; 65; 66].
Definition nv_req_hb : list Z := [0; 17; 240; 1; 136; 19; 0; 0; 100; 0; 0].
Example C09_nonvacuous_description_heartbeat :
  ref_cmd_126998 nv_cmd_desc 6 1 [] [] false [] = Some ([65; 66], [], true, [0]) /\
  (let '(r1, ev) := gf_lib nv_node (nv_slot nv_cmd_desc) in
   c_inst1 (r_cfg r1) = [65; 66] /\ c_inst_changed (r_cfg r1) = true /\ c_confinfo (r_cfg r1) = [4; 1; 65; 66; 2; 1; 4; 1; 78; 77] /\
   map snd (tx_frames (snd (respond_iso_request r1 51 true 126998 0))) = [[0; 10; 4; 1; 65; 66; 2; 1]; [1; 4; 1; 78; 77; 255; 255; 255]]) /\
  hb_accepts 5000 100 = true /\ hb_accepts 0 100 = false /\ hb_accepts 60001 0 = false /\ hb_accepts 1000 6001 = false /\
  (let '(r1, ev) := gf_lib nv_node (nv_slot nv_req_hb) in
   ss_period (x_hb (get_devx r1 0)) = 5000 /\ ss_offset (x_hb (get_devx r1 0)) = 1000 /\
   map snd (tx_frames ev) = [[244; 1; 255; 255; 255; 255; 255; 255]]).
Proof. vm_compute. repeat split. Qed.
Print Assumptions C09_nonvacuous_description_heartbeat.

(* conf_payload_ascii_stmt: instances *)
Example C09_conf_payload_ascii_instances :
  conf_payload [] [] [78; 77] = [2; 1; 2; 1; 4; 1; 78; 77] /\
  conf_payload (repeat 97 70) [66] [] = [72; 1] ++ repeat 97 70 ++ [3; 1; 66; 2; 1].
Proof. vm_compute. split; reflexivity. Qed.
Print Assumptions C09_conf_payload_ascii_instances.

(* ================= witnesses of the known findings (behaviour that is NOT repaired) ================= *)
(* C09-command-unsupported-acked: Command for PGN 126996 (transmitted, not commandable): Acknowledge with every code 0 *)
Example C09_known_command_unsupported_acked :
  gf_decide nv_env (nv_msg 22 [1; 20; 240; 1; 248; 1; 1; 1]) = GaAck 50 [2; 20; 240; 1; 0; 1; 240].
Proof. vm_compute. reflexivity. Qed.
Print Assumptions C09_known_command_unsupported_acked.
(* C09-refused-command-applied: priority setting 3 is refused (code 1 in the high nibble of byte 4) but the instances are applied all the same *)
Example C09_known_refused_command_applied :
  gf_decide nv_env (nv_msg 22 [1; 0; 238; 0; 243; 1; 3; 5]) = GaCmdInst 50 [2; 0; 238; 0; 16; 1; 240] 5 255 255 /\
  gf_decide nv_env (nv_msg 22 [1; 22; 240; 1; 242; 1; 1; 4; 1; 65; 66]) = GaCmdDesc 50 [2; 22; 240; 1; 16; 1; 240] [65; 66] [] true.
Proof. vm_compute. split; reflexivity. Qed.
Print Assumptions C09_known_refused_command_applied.
(* C09-command-invalid-value-accepted: a description whose string is cut off (announced 9 bytes, 1 present) / has an impossible length clears or
   truncates the description with parameter code 0; a missing instance byte is read as 0xff *)
Example C09_known_invalid_value_accepted :
  gf_decide nv_env (nv_msg 22 [1; 22; 240; 1; 248; 1; 1; 9; 1; 65]) = GaCmdDesc 50 [2; 22; 240; 1; 0; 1; 240] [65] [] true /\
  gf_decide nv_env (nv_msg 22 [1; 22; 240; 1; 248; 1; 1; 1; 1; 65]) = GaCmdDesc 50 [2; 22; 240; 1; 0; 1; 240] [] [] true /\
  gf_decide nv_env (nv_msg 22 [1; 0; 238; 0; 248; 1; 3]) = GaCmdInst 50 [2; 0; 238; 0; 0; 1; 240] 7 255 255.
Proof. vm_compute. repeat split. Qed.
Print Assumptions C09_known_invalid_value_accepted.
