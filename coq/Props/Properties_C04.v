(* C04 - Nothing is transmitted when the node is not entitled to transmit.  Statements fixed in Spec/GateSpec.v (with the abstract
   machine [Run] and the hypothesis [gf_ok] on the group function reaction); proofs in Proofs/GateProofsA..E.v.
   Out of scope: the debug modes dm_ClearText / dm_Actisense (all output diverted to a stream; not part of the shared node model).
   Known finding (D-05): without the hypothesis on the send queue the wire-level statement is false - C04_wire_level_refuted. *)
From Coq Require Import ZArith List Bool.
From N2kV Require Import Base.ListAux Model.CanId Model.Sched Model.PgnClass Model.NodeDefs Model.NodeRxDefs Gen.GenTables Gen.GenConsts
  Spec.SendSpec Spec.GateSpec Proofs.GateProofsA Proofs.GateProofsB Proofs.GateProofsC Proofs.GateProofsD Proofs.GateProofsE Proofs.GateProofsF.
Import ListNotations.
Local Open Scope Z_scope.

Theorem C04_listen_only_silent : listen_only_silent_stmt.  Proof. exact listen_only_silent. Qed.
Print Assumptions C04_listen_only_silent.
Theorem C04_open_step_silent : open_step_silent_stmt.  Proof. exact open_step_silent. Qed.
Print Assumptions C04_open_step_silent.
Theorem C04_not_open_silent : not_open_silent_stmt.  Proof. exact not_open_silent. Qed.
Print Assumptions C04_not_open_silent.
Theorem C04_settle_delay : settle_delay_stmt.  Proof. exact settle_delay. Qed.
Print Assumptions C04_settle_delay.
Theorem C04_produced_frames_entitled : produced_frames_entitled_stmt.  Proof. exact produced_frames_entitled. Qed.
Print Assumptions C04_produced_frames_entitled.
Theorem C04_run_start : run_start_stmt.  Proof. exact run_start. Qed.
Print Assumptions C04_run_start.
Theorem C04_app_send_fails_visibly : app_send_fails_visibly_stmt.  Proof. exact app_send_fails_visibly. Qed.
Print Assumptions C04_app_send_fails_visibly.
Theorem C04_wire_level : wire_level_stmt.  Proof. exact wire_level. Qed.
Print Assumptions C04_wire_level.
Theorem C04_wire_level_refuted : wire_level_refuted_stmt.  Proof. exact wire_level_refuted. Qed.
Print Assumptions C04_wire_level_refuted.
(* the hypothesis on the group function reaction is satisfied by the instance the shared driver uses *)
Theorem C04_gf_none_ok : gf_ok gf_none.  Proof. exact gf_none_ok. Qed.
Print Assumptions C04_gf_none_ok.

(* ---------- non-vacuity ---------- *)
Definition ex_cfg : rcfg :=
  {| c_only_known := false; c_iso_handler := None; c_prodinfo := [1;2;3]; c_confinfo := [4;5;6]; c_hb_on := false;
     c_inst1 := []; c_inst2 := []; c_manuf := []; c_inst_changed := false |}.
Definition ex_node (mode:Z) : rnode :=
  {| rn := opened_node true mode 5000 40 no_lists [mk_dev true 30 d05_name []; mk_dev true 31 (d05_name + 1) []];
     rx_dev := [cold_devx true []; cold_devx true []]; r_slots := repeat slot0 5; r_q := []; r_cfg := ex_cfg;
     r_open_sched := sched_disabled true; r_sync := 0; r_devinfo_changed := false; r_oob := false; r_clk := (0, 0) |}.
Definition ex_msg (b:Z) : msg := {| m_pri := 3; m_pgn := 127250; m_src := 0; m_dst := 255; m_data := [b]; m_tp := false |}.
Definition evs_summary (evs:list (list event)) : list (list (Z + bool)) :=
  map (fun l => flat_map (fun e => match e with EvTx id _ _ _ => [inl id] | EvResult b => [inr b] | _ => [] end) l) evs.

(* a two-device node: device 1 (address 31) loses its address to a lower NAME while device 0 keeps sending.  The claim for the new
   address 32 (0x18eeff20) goes out; device 0's sends are transmitted (0xdf1121e); device 1's send fails visibly inside the window,
   and succeeds from address 32 (0xdf11220) once the 250 ms are over. *)
Example C04_nonvacuous_two_devices :
  let ops := [ RRx {| r_id := 418316063; r_len := 8; r_buf := [0;0;0;0;0;0;0;0] |}; RPoll;
               RBase (OSend 0 (ex_msg 1)); RBase (OSend 1 (ex_msg 2)); RBase (OTick 250); RBase (OSend 1 (ex_msg 3)); RBase (OSend 0 (ex_msg 4));
               RBase (OTick 1); RBase (OSend 1 (ex_msg 5)) ] in
  let '(r', evs) := rrun gf_none (ex_node 1) ops in
  evs_summary evs = [ []; [inl 418316064]; [inl 233902622; inr true]; [inr false]; []; [inr false]; [inl 233902622; inr true]; []; [inl 233902624; inr true] ]
  /\ d_src (get_dev (rn r') 1) = 32.
Proof. vm_compute. split; reflexivity. Qed.
Print Assumptions C04_nonvacuous_two_devices.

(* a listen-only node receiving an ISO request for the address claim, a request for product information, a competing claim, and asked
   to send: nothing reaches the driver, the send returns false; the same history on a NodeOnly node answers all of them *)
Example C04_nonvacuous_listen_only :
  let ops := [ RRx {| r_id := 417996338; r_len := 3; r_buf := [0;238;0;255;255;255;255;255] |};       (* 0x18ea1e32: request 60928 to 30 *)
               RRx {| r_id := 418053938; r_len := 3; r_buf := [20;240;1;255;255;255;255;255] |};      (* 0x18eaff32: request 126996 to all *)
               RRx {| r_id := 418316063; r_len := 8; r_buf := [0;0;0;0;0;0;0;0] |}; RPoll; RBase (OSend 0 (ex_msg 1)); RBase (OStartClaim 0); RBase OFlush ] in
  forallb (forallb (fun e => negb (is_tx e))) (snd (rrun gf_none (ex_node 0) ops)) = true /\
  nth 4 (evs_summary (snd (rrun gf_none (ex_node 0) ops))) [] = [inr false] /\
  forallb (fun l => negb (forallb (fun e => negb (is_tx e)) l)) (firstn 3 (skipn 3 (snd (rrun gf_none (ex_node 1) ops)))) = true.
Proof. vm_compute. repeat split. Qed.
Print Assumptions C04_nonvacuous_listen_only.

(* the library's group function handlers (Model/GroupFnDefs.v, property C09) satisfy the contract gf_ok: whatever HandleGroupFunction
   does is a run of the send machine without forwarding, so statements 3 and 5 hold for the node as shipped (gf := gf_lib) *)
From N2kV Require Model.GroupFnDefs Proofs.GroupFnContractsB.
Theorem C04_gf_lib_ok : GateSpec.gf_ok GroupFnDefs.gf_lib.  Proof. exact GroupFnContractsB.gf_lib_gate_ok. Qed.
Print Assumptions C04_gf_lib_ok.

(* ================= the public application calls (Model/ApiDefs.v) =================
   Statements in Spec/ApiGateSpec.v, proofs in Proofs/ApiGateProofs.v and Proofs/ApiGateProofsB.v.  Every public call except SetMode is a
   run of the send-entitlement machine (SetMode re-addresses the devices without a claim by design and is excluded - exactly it - from
   that statement; C04_api_set_mode_not_a_run shows the exclusion is necessary); listen-only nodes, nodes that are not open and the
   settle delay cover all calls, SetMode included.  ExtendTransmitMessages / ExtendReceiveMessages / SetHandleOnlyKnownMessages /
   SetProductInformation are silent changes and are covered by every statement.  C04_api_not_open_noclock_refuted: the clock hypothesis of the not-open statement is
   needed for SendHeartbeat(force) in the last 200 ms before the 64-bit clock wraps (model boundary, cf. GateSpec.clock_ok). *)
From N2kV Require Model.ApiDefs Spec.ApiGateSpec Proofs.ApiGateProofs Proofs.ApiGateProofsB.
Theorem C04_api_produced_frames_entitled : ApiGateSpec.api_produced_frames_entitled_stmt.  Proof. exact ApiGateProofs.api_produced_frames_entitled. Qed.
Print Assumptions C04_api_produced_frames_entitled.
Theorem C04_api_xstep_produced_frames_entitled : ApiGateSpec.xstep_produced_frames_entitled_stmt.  Proof. exact ApiGateProofs.xstep_produced_frames_entitled. Qed.
Print Assumptions C04_api_xstep_produced_frames_entitled.
Theorem C04_api_set_mode_not_a_run : ApiGateSpec.api_set_mode_not_a_run_stmt.  Proof. exact ApiGateProofs.api_set_mode_not_a_run. Qed.
Print Assumptions C04_api_set_mode_not_a_run.
Theorem C04_api_listen_only_silent : ApiGateSpec.api_listen_only_silent_stmt.  Proof. exact ApiGateProofs.api_listen_only_silent. Qed.
Print Assumptions C04_api_listen_only_silent.
Theorem C04_api_xrun_listen_only_silent : ApiGateSpec.xrun_listen_only_silent_stmt.  Proof. exact ApiGateProofs.xrun_listen_only_silent. Qed.
Print Assumptions C04_api_xrun_listen_only_silent.
Theorem C04_api_not_open_silent : ApiGateSpec.api_not_open_silent_stmt.  Proof. exact ApiGateProofsB.api_not_open_silent. Qed.
Print Assumptions C04_api_not_open_silent.
Theorem C04_api_xstep_not_open_silent : ApiGateSpec.xstep_not_open_silent_stmt.  Proof. exact ApiGateProofsB.xstep_not_open_silent. Qed.
Print Assumptions C04_api_xstep_not_open_silent.
(* C04_api_not_open_noclock_refuted is gone with the repair of SendHeartbeat(bool) in /repo: the call is silent on a node that is not open, with or without the clock hypothesis *)
Theorem C04_api_settle_delay : ApiGateSpec.api_settle_delay_stmt.  Proof. exact ApiGateProofsB.api_settle_delay. Qed.
Print Assumptions C04_api_settle_delay.

(* ---------- non-vacuity ---------- *)
Import ApiDefs.
(* the open two-device node (addresses 30, 31; no claim pending).
   SendProductInformation(0) produces the PGN 126996 frame from address 30 (0x19f0141e = to_can_id 6 126996 30 255) and
   SendHeartbeat(1) the heartbeat from 31; SetDeviceInformationInstances is silent but arms the delayed claim, which the next
   ParseMessages sends (0x18eeff1e); Restart() sends both claims and opens both windows.  Inside the windows
   SendProductInformation(0) and SendTxPGNList(.., 1) produce nothing, SendIsoAddressClaim still does; 251 ms later the senders work
   again; the setters (PGN lists node-wide and per device, device information, SetHandleOnlyKnownMessages, SetProductInformation) and
   the delayed claim are silent. *)
Definition api_ex_ops : list xop :=
  [ XApi (ASendProd 0); XApi (ASendHeartbeatDev 1); XApi (ASetInstances 0 1 2 3); XBase (RBase (OTick 3)); XBase RPoll;
    XApi ARestart; XApi (ASendProd 0); XApi (ASendClaim 255 0 0); XApi (ASendTxList 255 1 false); XBase (RBase (OTick 251)); XApi (ASendProd 0); XApi (ASendConf 1);
    XApi (ASendHeartbeatAll true); XApi (ASetPgnList 0 [130000]); XApi (ASetDeviceInformation 0 5 255 255 65535 255); XApi (ASendClaim 255 (-1) 10);
    XApi (ASetTxList 0 [130000; 0]); XApi (ASetRxList 1 [127250; 0]); XApi (ASetOnlyKnown true); XApi (ASetProductInformation [49] 666 [65] [66] [67] 2 65535 255) ].
Example C04_api_nonvacuous_open :
  to_can_id 6 126996 30 255 = 435164190 /\
  evs_summary (snd (xrun gf_none (ex_node 1) api_ex_ops))
  = [ [inl 435164190]; [inl 502272287]; []; []; [inl 418316062]; [inl 418316062; inl 418316063]; []; [inl 418316062]; []; [];
      [inl 435164190]; [inl 435164703]; [inl 502272286; inl 502272287]; []; []; []; []; []; []; [] ] /\
  (* the four run-time setters at the end did what they say *)
  (let r := fst (xrun gf_none (ex_node 1) api_ex_ops) in
   d_tx (get_dev (rn r) 0) = [130000; 0] /\ x_rx (get_devx r 1) = [127250; 0] /\ c_only_known (r_cfg r) = true /\ length (c_prodinfo (r_cfg r)) = 134%nat) /\
  (* the state in which the 7th operation, SendProductInformation(0), produces nothing: open, both claims pending *)
  (let r := fst (xrun gf_none (ex_node 1) (firstn 6 api_ex_ops)) in
   n_open (rn r) = 3 /\ claim_pending (rn r) 0 = true /\ claim_pending (rn r) 1 = true /\ snd (api_step r (ASendProd 0)) = []) /\
  (* the hypotheses of the step statement hold of the start state *)
  clock_ok (rn (ex_node 1)) /\ Forall (fun o => ApiGateSpec.x_is_set_mode o = false) api_ex_ops.
Proof.
  split; [vm_compute; reflexivity|]. split; [vm_compute; reflexivity|]. split; [vm_compute; repeat split|]. split; [vm_compute; repeat split|].
  split; [intros _ _; vm_compute; split; [discriminate|reflexivity]|]. repeat constructor.
Qed.
Print Assumptions C04_api_nonvacuous_open.

(* a cold node constructed at t0 = 1000 (NodeOnly): public calls of six kinds during the first 199 ms - the hypotheses of the settle
   statement hold of the first nine operations - reach the driver not at all, although the second call opens the CAN interface;
   SetMode(1, 40) before the node is open silently moves the devices to 40, 41; at t0 + 202 SendConfigurationInformation completes
   Open(), and the initial claims go out from 40 and 41 (0x18eeff28, 0x18eeff29) - the call whose Open() completes is outside the
   not-open statement, the frames are the initial claims. *)
Definition api_ex_cold : rnode :=
  cold_node true 1 1000 40 5 no_lists [mk_dev true 30 d05_name []; mk_dev true 31 (d05_name + 1) []] [[]; []] ex_cfg.
Definition api_ex_cold_ops : list xop :=
  [ XApi (ASendProd 0); XBase (RBase (OTick 1)); XApi (ASendProd 0); XBase (RBase (OTick 198)); XApi (ASendHeartbeatAll true); XApi ARestart; XApi (ASetMode 1 40);
    XApi (ASendClaim 255 0 0); XBase RPoll; XBase (RBase (OTick 3)); XApi (ASendConf 0) ].
Example C04_api_nonvacuous_cold :
  ApiGateSpec.xclock_after 1000 (firstn 9 api_ex_cold_ops) = 1199 /\ ApiGateSpec.xticks_nonneg (firstn 9 api_ex_cold_ops) /\
  evs_summary (snd (xrun gf_none api_ex_cold api_ex_cold_ops)) = [ []; []; []; []; []; []; []; []; []; []; [inl 418316072; inl 418316073] ] /\
  (let r := fst (xrun gf_none api_ex_cold (firstn 3 api_ex_cold_ops)) in n_open (rn r) = 2 /\ open_completes r = false) /\
  (let r := fst (xrun gf_none api_ex_cold (firstn 10 api_ex_cold_ops)) in n_open (rn r) = 2 /\ open_completes r = true).
Proof.
  split; [vm_compute; reflexivity|]. split; [repeat constructor; vm_compute; discriminate|].
  split; [vm_compute; reflexivity|]. split; vm_compute; split; reflexivity.
Qed.
Print Assumptions C04_api_nonvacuous_cold.

(* a listen-only node: the same twenty operations as on the open node above reach the driver not at all *)
Example C04_api_nonvacuous_listen_only :
  forallb (forallb (fun e => negb (is_tx e))) (snd (xrun gf_none (ex_node 0) api_ex_ops)) = true /\
  n_mode (rn (ex_node 0)) = 0 /\ queue_empty (n_q (rn (ex_node 0))).
Proof. vm_compute. repeat split. Qed.
Print Assumptions C04_api_nonvacuous_listen_only.

(* known finding listen-only:queued-frame-flushed, machine-checked: the premise "send queue empty" of the listen-only statements cannot be
   dropped for a node that becomes listen-only at run time.  An open node queues a frame the driver refuses, the application calls
   SetMode(listen-only), and the next SendFrames hands the queued frame to the driver although the node is listen-only now. *)
Definition lo_backlog_ops : list xop :=
  [ XBase (RBase (OAccept [false])); XBase (RBase (OSend 0 {| m_pri := 2; m_pgn := 127250; m_src := 0; m_dst := 255; m_data := [1;2;3;4;5;6;7;8]; m_tp := false |}));
    XApi (ASetMode 0 22); XBase (RBase (OAccept [])); XBase (RBase OFlush) ].
Example C04_runtime_listen_only_backlog_refuted :
  let '(r', evs) := xrun gf_none (ex_node 1) lo_backlog_ops in
  n_mode (rn r') = 0 /\
  map (fun ev => map (fun e => match e with EvTx id _ _ a => (id, a) | _ => (0, false) end) (filter is_tx ev)) evs
    = [ []; [(166793758, false)]; []; []; [(166793758, true)] ].
Proof. vm_compute. split; reflexivity. Qed.
Print Assumptions C04_runtime_listen_only_backlog_refuted.
