(* C04 - Nothing is transmitted when the node is not entitled to transmit.  Statements fixed in Spec/GateSpec.v (with the abstract
   machine [Run] and the hypothesis [gf_ok] on the group function reaction); proofs in Proofs/GateProofsA..E.v.
   Out of scope: the debug modes dm_ClearText / dm_Actisense (all output diverted to a stream; not part of the shared node model).
   Known finding (D-05): without the hypothesis on the send queue the wire-level statement is false - C04_wire_level_refuted. *)
From Coq Require Import ZArith List Bool.
From N2kV Require Import Base.ListAux Model.CanId Model.Sched Model.PgnClass Model.NodeDefs Model.NodeRxDefs Gen.GenTables Gen.GenConsts
  Spec.SendSpec Spec.GateSpec Proofs.GateProofsA Proofs.GateProofsB Proofs.GateProofsC Proofs.GateProofsD Proofs.GateProofsE Proofs.GateProofsF.
Import ListNotations.
Local Open Scope Z_scope.

Theorem C04_listen_only_silent : listen_only_silent_stmt.  Proof. exact listen_only_silent. Qed.
Print Assumptions C04_listen_only_silent.
Theorem C04_open_step_silent : open_step_silent_stmt.  Proof. exact open_step_silent. Qed.
Print Assumptions C04_open_step_silent.
Theorem C04_not_open_silent : not_open_silent_stmt.  Proof. exact not_open_silent. Qed.
Print Assumptions C04_not_open_silent.
Theorem C04_settle_delay : settle_delay_stmt.  Proof. exact settle_delay. Qed.
Print Assumptions C04_settle_delay.
Theorem C04_produced_frames_entitled : produced_frames_entitled_stmt.  Proof. exact produced_frames_entitled. Qed.
Print Assumptions C04_produced_frames_entitled.
Theorem C04_run_start : run_start_stmt.  Proof. exact run_start. Qed.
Print Assumptions C04_run_start.
Theorem C04_app_send_fails_visibly : app_send_fails_visibly_stmt.  Proof. exact app_send_fails_visibly. Qed.
Print Assumptions C04_app_send_fails_visibly.
Theorem C04_wire_level : wire_level_stmt.  Proof. exact wire_level. Qed.
Print Assumptions C04_wire_level.
Theorem C04_wire_level_refuted : wire_level_refuted_stmt.  Proof. exact wire_level_refuted. Qed.
Print Assumptions C04_wire_level_refuted.
(* the hypothesis on the group function reaction is satisfied by the instance the shared driver uses *)
Theorem C04_gf_none_ok : gf_ok gf_none.  Proof. exact gf_none_ok. Qed.
Print Assumptions C04_gf_none_ok.

(* ---------- non-vacuity ---------- *)
Definition ex_cfg : rcfg :=
  {| c_only_known := false; c_iso_handler := None; c_prodinfo := [1;2;3]; c_confinfo := [4;5;6]; c_hb_on := false;
     c_inst1 := []; c_inst2 := []; c_manuf := []; c_inst_changed := false |}.
Definition ex_node (mode:Z) : rnode :=
  {| rn := opened_node true mode 5000 40 no_lists [mk_dev true 30 d05_name []; mk_dev true 31 (d05_name + 1) []];
     rx_dev := [cold_devx true []; cold_devx true []]; r_slots := repeat slot0 5; r_q := []; r_cfg := ex_cfg;
     r_open_sched := sched_disabled true; r_sync := 0; r_devinfo_changed := false; r_oob := false; r_clk := (0, 0) |}.
Definition ex_msg (b:Z) : msg := {| m_pri := 3; m_pgn := 127250; m_src := 0; m_dst := 255; m_data := [b]; m_tp := false |}.
Definition evs_summary (evs:list (list event)) : list (list (Z + bool)) :=
  map (fun l => flat_map (fun e => match e with EvTx id _ _ _ => [inl id] | EvResult b => [inr b] | _ => [] end) l) evs.

(* a two-device node: device 1 (address 31) loses its address to a lower NAME while device 0 keeps sending.  The claim for the new
   address 32 (0x18eeff20) goes out; device 0's sends are transmitted (0xdf1121e); device 1's send fails visibly inside the window,
   and succeeds from address 32 (0xdf11220) once the 250 ms are over. *)
Example C04_nonvacuous_two_devices :
  let ops := [ RRx {| r_id := 418316063; r_len := 8; r_buf := [0;0;0;0;0;0;0;0] |}; RPoll;
               RBase (OSend 0 (ex_msg 1)); RBase (OSend 1 (ex_msg 2)); RBase (OTick 250); RBase (OSend 1 (ex_msg 3)); RBase (OSend 0 (ex_msg 4));
               RBase (OTick 1); RBase (OSend 1 (ex_msg 5)) ] in
  let '(r', evs) := rrun gf_none (ex_node 1) ops in
  evs_summary evs = [ []; [inl 418316064]; [inl 233902622; inr true]; [inr false]; []; [inr false]; [inl 233902622; inr true]; []; [inl 233902624; inr true] ]
  /\ d_src (get_dev (rn r') 1) = 32.
Proof. vm_compute. split; reflexivity. Qed.
Print Assumptions C04_nonvacuous_two_devices.

(* a listen-only node receiving an ISO request for the address claim, a request for product information, a competing claim, and asked
   to send: nothing reaches the driver, the send returns false; the same history on a NodeOnly node answers all of them *)
Example C04_nonvacuous_listen_only :
  let ops := [ RRx {| r_id := 417996338; r_len := 3; r_buf := [0;238;0;255;255;255;255;255] |};       (* 0x18ea1e32: request 60928 to 30 *)
               RRx {| r_id := 418053938; r_len := 3; r_buf := [20;240;1;255;255;255;255;255] |};      (* 0x18eaff32: request 126996 to all *)
               RRx {| r_id := 418316063; r_len := 8; r_buf := [0;0;0;0;0;0;0;0] |}; RPoll; RBase (OSend 0 (ex_msg 1)); RBase (OStartClaim 0); RBase OFlush ] in
  forallb (forallb (fun e => negb (is_tx e))) (snd (rrun gf_none (ex_node 0) ops)) = true /\
  nth 4 (evs_summary (snd (rrun gf_none (ex_node 0) ops))) [] = [inr false] /\
  forallb (fun l => negb (forallb (fun e => negb (is_tx e)) l)) (firstn 3 (skipn 3 (snd (rrun gf_none (ex_node 1) ops)))) = true.
Proof. vm_compute. repeat split. Qed.
Print Assumptions C04_nonvacuous_listen_only.

(* the library's group function handlers (Model/GroupFnDefs.v, property C09) satisfy the contract gf_ok: whatever HandleGroupFunction
   does is a run of the send machine without forwarding, so statements 3 and 5 hold for the node as shipped (gf := gf_lib) *)
From N2kV Require Model.GroupFnDefs Proofs.GroupFnContractsB.
Theorem C04_gf_lib_ok : GateSpec.gf_ok GroupFnDefs.gf_lib.  Proof. exact GroupFnContractsB.gf_lib_gate_ok. Qed.
Print Assumptions C04_gf_lib_ok.
