(* C12 - heartbeats are sent on schedule with a correct interval field and sequence.  Statements: Spec/HbSpec.v;
   proofs: Proofs/HbProofs.v (grid, schedule, interval field, sequence, clipping, refutation), Proofs/HbProofsSilent.v (inactive nodes),
   Proofs/HbProofsFrame.v (frame lemmas over the whole node model).
   Not covered here: the group function handler for PGN 126993 (narrower range) - not part of the shared model.
   The two repaired findings are ordinary theorems now: `reenable-stays-off` -> hb_reenable_stmt (and the disabled case of hb_clip_stmt),
   `origin-hb-before-open` -> hb_open_resync_stmt. *)
From Coq Require Import ZArith List Bool.
From N2kV Require Import Base.ListAux Model.CanId Model.Sched Model.PgnClass Model.NodeDefs Model.NodeRxDefs Gen.GenTables Gen.GenConsts
  Spec.HbSpec Proofs.HbProofs Proofs.HbProofsSilent.
Import ListNotations.
Local Open Scope Z_scope.

Theorem C12_hb_grid : hb_grid_stmt.  Proof. exact hb_grid. Qed.
Print Assumptions C12_hb_grid.
Theorem C12_hb_schedule : hb_schedule_stmt.  Proof. exact hb_schedule. Qed.
Print Assumptions C12_hb_schedule.
Theorem C12_hb_interval_field : hb_interval_field_stmt.  Proof. exact hb_interval_field. Qed.
Print Assumptions C12_hb_interval_field.
Theorem C12_hb_sequence : hb_sequence_stmt.  Proof. exact hb_sequence. Qed.
Print Assumptions C12_hb_sequence.
Theorem C12_hb_clip : hb_clip_stmt.  Proof. exact hb_clip. Qed.
Print Assumptions C12_hb_clip.
Theorem C12_hb_inactive_silent : hb_inactive_silent_stmt.  Proof. exact hb_inactive_silent. Qed.
Print Assumptions C12_hb_inactive_silent.
Theorem C12_hb_reenable : hb_reenable_stmt.  Proof. exact hb_reenable. Qed.
Print Assumptions C12_hb_reenable.
Theorem C12_hb_open_resync : hb_open_resync_stmt.  Proof. exact hb_open_resync. Qed.
Print Assumptions C12_hb_open_resync.

(* non-vacuity 1: a cold one-device node (64-bit build, address 22) polled at 5000, 5001, 5202 (opens, claims, sync = 5202), 5453 (claim over),
   15453 (first heartbeat: grid point 15202, interval field 6000 = 0x1770, sequence 0), 75452 (second: grid point 75202, sequence 1 - the late first
   poll did not move the grid), 75453, 75454 (nothing); afterwards the scheduler stands at 135202 = 5202 + 10000 + 2 * 60000 *)
Example C12_nonvacuous_run : forall cfg,
  let r0 := cold_node true 1 5000 40 5 no_lists [mk_dev true 22 1 []] [[]] cfg in
  let ops := [RPoll; RBase (OTick 1); RPoll; RBase (OTick 201); RPoll; RBase (OTick 251); RPoll; RBase (OTick 10000); RPoll;
              RBase (OTick 59999); RPoll; RBase (OTick 1); RPoll; RBase (OTick 1); RPoll] in
  let hbid := to_can_id 7 126993 22 255 in
  skipn 5 (snd (rrun gf_none r0 ops)) =
    [[]; []; []; [EvTx hbid 8 [112; 23; 0; 255; 255; 255; 255; 255] true]; [];
     [EvTx hbid 8 [112; 23; 1; 255; 255; 255; 255; 255] true]; []; []; []; []] /\
  map (fun x => (ss_next (x_hb x), x_hb_seq x)) (rx_dev (fst (rrun gf_none r0 ops))) = [(135202, 2)] /\
  112 + 256 * 23 = 60000 / 10.
Proof. intros cfg. vm_compute. repeat split. Qed.
Print Assumptions C12_nonvacuous_run.

(* non-vacuity 2: the premises of the schedule statement are satisfiable with the heartbeat due, the grid statement on numbers,
   the interval field above 65535 ms, the sequence wrap, the clipping *)
Example C12_nonvacuous_values :
  ss_next (ss_update_next 125000 798 {| ss_next := 0; ss_offset := 10000; ss_period := 60000 |}) = 130798 /\
  m_data (heartbeat_msg 22 655320 252) = [252; 255; 252; 255; 255; 255; 255; 255] /\
  m_data (heartbeat_msg 22 100000 7) = [16; 39; 7; 255; 255; 255; 255; 255] /\
  hb_resolve_period 1 60000 = Some 1000 /\ hb_resolve_period 1000000 60000 = Some 655320 /\ hb_resolve_period 4294967295 2500 = Some 2500 /\
  hb_resolve_period 4294967294 2500 = Some 60000 /\ hb_resolve_period 0 2500 = None /\
  (252 + 1) mod 253 = 0.
Proof. vm_compute. repeat split. Qed.
Print Assumptions C12_nonvacuous_values.
Example C12_nonvacuous_due : forall cfg,
  let r0 := cold_node true 1 5000 40 5 no_lists [mk_dev true 22 1 []] [[]] cfg in
  let r := fst (rrun gf_none r0 [RPoll; RBase (OTick 1); RPoll; RBase (OTick 201); RPoll; RBase (OTick 251); RPoll; RBase (OTick 10000)]) in
  hb_due r 0 = true /\ hb_now r 0 = 15453 /\ ss_next (x_hb (get_devx r 0)) = 15202.
Proof. intros cfg. vm_compute. repeat split. Qed.
Print Assumptions C12_nonvacuous_due.

(* non-vacuity 3 (the repaired findings on their former witnesses): a heartbeat switched off with interval 0 and set to the stored 60 s / 10 s
   again runs again (next time = first grid point after now; here SyncOffset is still 0 and now = 5000); the defaults stored BEFORE Open()
   do not keep the schedule on the absolute clock: the node opens at 5202 and the first heartbeat is due after 15202 = 5202 + 10000 *)
Example C12_nonvacuous_repaired : forall cfg,
  let r := hb_reenable_witness cfg in
  ss_next (x_hb (get_devx r 0)) = ss_disabled /\
  x_hb (get_devx (set_heartbeat_all 1 r 0 60000 10000) 0) = {| ss_next := 10000; ss_offset := 10000; ss_period := 60000 |} /\
  let r0 := cold_node true 1 5000 40 5 no_lists [mk_dev true 22 1 []] [[]] cfg in
  let ops := [RSetHeartbeat 60000 10000 (-1); RPoll; RBase (OTick 1); RPoll; RBase (OTick 201); RPoll; RBase (OTick 251); RPoll;
              RBase (OTick 9749); RPoll; RBase (OTick 1); RPoll] in
  skipn 8 (snd (rrun gf_none r0 ops)) = [[]; []; []; [EvTx (to_can_id 7 126993 22 255) 8 [112; 23; 0; 255; 255; 255; 255; 255] true]] /\
  map (fun x => x_hb x) (rx_dev (fst (rrun gf_none r0 ops))) = [{| ss_next := 75202; ss_offset := 10000; ss_period := 60000 |}].
Proof. intros cfg. vm_compute. repeat split. Qed.
Print Assumptions C12_nonvacuous_repaired.

(* the library's group function handlers (Model/GroupFnDefs.v, property C09) satisfy the contract of statement 6: they never change
   the mode, so hb_inactive_silent holds for the node as shipped (gf := gf_lib) *)
From N2kV Require Model.GroupFnDefs Proofs.GroupFnContractsB.
Theorem C12_gf_lib_keeps_mode : gf_keeps_mode GroupFnDefs.gf_lib.  Proof. exact GroupFnContractsB.gf_lib_keeps_mode. Qed.
Print Assumptions C12_gf_lib_keeps_mode.
