(* C12 - heartbeats are sent on schedule with a correct interval field and sequence.  Statements: Spec/HbSpec.v;
   proofs: Proofs/HbProofs.v (grid, schedule, interval field, sequence, clipping, refutation), Proofs/HbProofsSilent.v (inactive nodes),
   Proofs/HbProofsFrame.v (frame lemmas over the whole node model).
   Not covered here: the group function handler for PGN 126993 (narrower range) - not part of the shared model.
   The two repaired findings are ordinary theorems now: `reenable-stays-off` -> hb_reenable_stmt (and the disabled case of hb_clip_stmt),
   `origin-hb-before-open` -> hb_open_resync_stmt. *)
From Coq Require Import ZArith List Bool.
From N2kV Require Import Base.ListAux Model.CanId Model.Sched Model.PgnClass Model.NodeDefs Model.NodeRxDefs Gen.GenTables Gen.GenConsts
  Spec.HbSpec Proofs.HbProofs Proofs.HbProofsSilent.
Import ListNotations.
Local Open Scope Z_scope.

Theorem C12_hb_grid : hb_grid_stmt.  Proof. exact hb_grid. Qed.
Print Assumptions C12_hb_grid.
Theorem C12_hb_schedule : hb_schedule_stmt.  Proof. exact hb_schedule. Qed.
Print Assumptions C12_hb_schedule.
Theorem C12_hb_interval_field : hb_interval_field_stmt.  Proof. exact hb_interval_field. Qed.
Print Assumptions C12_hb_interval_field.
Theorem C12_hb_sequence : hb_sequence_stmt.  Proof. exact hb_sequence. Qed.
Print Assumptions C12_hb_sequence.
Theorem C12_hb_clip : hb_clip_stmt.  Proof. exact hb_clip. Qed.
Print Assumptions C12_hb_clip.
Theorem C12_hb_inactive_silent : hb_inactive_silent_stmt.  Proof. exact hb_inactive_silent. Qed.
Print Assumptions C12_hb_inactive_silent.
Theorem C12_hb_reenable : hb_reenable_stmt.  Proof. exact hb_reenable. Qed.
Print Assumptions C12_hb_reenable.
Theorem C12_hb_open_resync : hb_open_resync_stmt.  Proof. exact hb_open_resync. Qed.
Print Assumptions C12_hb_open_resync.

(* non-vacuity 1: a cold one-device node (64-bit build, address 22) polled at 5000, 5001, 5202 (opens, claims, sync = 5202), 5453 (claim over),
   15453 (first heartbeat: grid point 15202, interval field 6000 = 0x1770, sequence 0), 75452 (second: grid point 75202, sequence 1 - the late first
   poll did not move the grid), 75453, 75454 (nothing); afterwards the scheduler stands at 135202 = 5202 + 10000 + 2 * 60000 *)
Example C12_nonvacuous_run : forall cfg,
  let r0 := cold_node true 1 5000 40 5 no_lists [mk_dev true 22 1 []] [[]] cfg in
  let ops := [RPoll; RBase (OTick 1); RPoll; RBase (OTick 201); RPoll; RBase (OTick 251); RPoll; RBase (OTick 10000); RPoll;
              RBase (OTick 59999); RPoll; RBase (OTick 1); RPoll; RBase (OTick 1); RPoll] in
  let hbid := to_can_id 7 126993 22 255 in
  skipn 5 (snd (rrun gf_none r0 ops)) =
    [[]; []; []; [EvTx hbid 8 [112; 23; 0; 255; 255; 255; 255; 255] true]; [];
     [EvTx hbid 8 [112; 23; 1; 255; 255; 255; 255; 255] true]; []; []; []; []] /\
  map (fun x => (ss_next (x_hb x), x_hb_seq x)) (rx_dev (fst (rrun gf_none r0 ops))) = [(135202, 2)] /\
  112 + 256 * 23 = 60000 / 10.
Proof. intros cfg. vm_compute. repeat split. Qed.
Print Assumptions C12_nonvacuous_run.

(* non-vacuity 2: the premises of the schedule statement are satisfiable with the heartbeat due, the grid statement on numbers,
   the interval field above 65535 ms, the sequence wrap, the clipping *)
Example C12_nonvacuous_values :
  ss_next (ss_update_next 125000 798 {| ss_next := 0; ss_offset := 10000; ss_period := 60000 |}) = 130798 /\
  m_data (heartbeat_msg 22 655320 252) = [252; 255; 252; 255; 255; 255; 255; 255] /\
  m_data (heartbeat_msg 22 100000 7) = [16; 39; 7; 255; 255; 255; 255; 255] /\
  hb_resolve_period 1 60000 = Some 1000 /\ hb_resolve_period 1000000 60000 = Some 655320 /\ hb_resolve_period 4294967295 2500 = Some 2500 /\
  hb_resolve_period 4294967294 2500 = Some 60000 /\ hb_resolve_period 0 2500 = None /\
  (252 + 1) mod 253 = 0.
Proof. vm_compute. repeat split. Qed.
Print Assumptions C12_nonvacuous_values.
Example C12_nonvacuous_due : forall cfg,
  let r0 := cold_node true 1 5000 40 5 no_lists [mk_dev true 22 1 []] [[]] cfg in
  let r := fst (rrun gf_none r0 [RPoll; RBase (OTick 1); RPoll; RBase (OTick 201); RPoll; RBase (OTick 251); RPoll; RBase (OTick 10000)]) in
  hb_due r 0 = true /\ hb_now r 0 = 15453 /\ ss_next (x_hb (get_devx r 0)) = 15202.
Proof. intros cfg. vm_compute. repeat split. Qed.
Print Assumptions C12_nonvacuous_due.

(* non-vacuity 3 (the repaired findings on their former witnesses): a heartbeat switched off with interval 0 and set to the stored 60 s / 10 s
   again runs again (next time = first grid point after now; here SyncOffset is still 0 and now = 5000); the defaults stored BEFORE Open()
   do not keep the schedule on the absolute clock: the node opens at 5202 and the first heartbeat is due after 15202 = 5202 + 10000 *)
Example C12_nonvacuous_repaired : forall cfg,
  let r := hb_reenable_witness cfg in
  ss_next (x_hb (get_devx r 0)) = ss_disabled /\
  x_hb (get_devx (set_heartbeat_all 1 r 0 60000 10000) 0) = {| ss_next := 10000; ss_offset := 10000; ss_period := 60000 |} /\
  let r0 := cold_node true 1 5000 40 5 no_lists [mk_dev true 22 1 []] [[]] cfg in
  let ops := [RSetHeartbeat 60000 10000 (-1); RPoll; RBase (OTick 1); RPoll; RBase (OTick 201); RPoll; RBase (OTick 251); RPoll;
              RBase (OTick 9749); RPoll; RBase (OTick 1); RPoll] in
  skipn 8 (snd (rrun gf_none r0 ops)) = [[]; []; []; [EvTx (to_can_id 7 126993 22 255) 8 [112; 23; 0; 255; 255; 255; 255; 255] true]] /\
  map (fun x => x_hb x) (rx_dev (fst (rrun gf_none r0 ops))) = [{| ss_next := 75202; ss_offset := 10000; ss_period := 60000 |}].
Proof. intros cfg. vm_compute. repeat split. Qed.
Print Assumptions C12_nonvacuous_repaired.

(* the library's group function handlers (Model/GroupFnDefs.v, property C09) satisfy the contract of statement 6: they never change
   the mode, so hb_inactive_silent holds for the node as shipped (gf := gf_lib) *)
From N2kV Require Model.GroupFnDefs Proofs.GroupFnContractsB.
Theorem C12_gf_lib_keeps_mode : gf_keeps_mode GroupFnDefs.gf_lib.  Proof. exact GroupFnContractsB.gf_lib_keeps_mode. Qed.
Print Assumptions C12_gf_lib_keeps_mode.

(* ================= the public heartbeat calls of the application (Model/ApiDefs.v) =================
   SendHeartbeat(bool force) = api_step r (ASendHeartbeatAll force) / send_heartbeat_api / send_heartbeat_api_dev, SendHeartbeat(int iDev) =
   api_step r (ASendHeartbeatDev iDev).  Statements: Spec/ApiHbSpec.v; proofs: Proofs/ApiHbProofs.v.  Every state, both scheduler builds. *)
From N2kV Require Import Model.ApiDefs Spec.ApiHbSpec Proofs.ApiHbProofs.

Theorem C12_api_hb_inactive_silent : api_hb_inactive_silent_stmt.  Proof. exact api_hb_inactive_silent. Qed.
Print Assumptions C12_api_hb_inactive_silent.
Theorem C12_api_hb_claiming_silent : api_hb_claiming_silent_stmt.  Proof. exact api_hb_claiming_silent. Qed.
Print Assumptions C12_api_hb_claiming_silent.
Theorem C12_api_hb_unforced_is_poll : api_hb_unforced_is_poll_stmt.  Proof. exact api_hb_unforced_is_poll. Qed.
Print Assumptions C12_api_hb_unforced_is_poll.
Theorem C12_api_hb_forced : api_hb_forced_stmt.  Proof. exact api_hb_forced. Qed.
Print Assumptions C12_api_hb_forced.
Theorem C12_api_hb_forced_grid : api_hb_forced_grid_stmt.  Proof. exact api_hb_forced_grid. Qed.
Print Assumptions C12_api_hb_forced_grid.
Theorem C12_api_hb_forced_payload : api_hb_forced_payload_stmt.  Proof. exact api_hb_forced_payload. Qed.
Print Assumptions C12_api_hb_forced_payload.
Theorem C12_api_hb_dev : api_hb_dev_stmt.  Proof. exact api_hb_dev. Qed.
Print Assumptions C12_api_hb_dev.
Theorem C12_api_hb_keeps_seq : api_hb_keeps_seq_stmt.  Proof. exact api_hb_keeps_seq. Qed.
Print Assumptions C12_api_hb_keeps_seq.
Theorem C12_api_hb_setters_keep : api_hb_setters_keep_stmt.  Proof. exact api_hb_setters_keep. Qed.
Print Assumptions C12_api_hb_setters_keep.
Theorem C12_api_hb_sequence : api_hb_sequence_stmt.  Proof. exact api_hb_sequence. Qed.
Print Assumptions C12_api_hb_sequence.

(* non-vacuity: a two-device node (addresses 22, 23) opened at 5202 (= SyncOffset), claims over at 5453, heartbeat 30 s / offset 2 s for
   device 0 and 5 s / offset 0.5 s for device 1; polled at 12453 (both heartbeats, sequence 0) and 18453 (device 1, sequence 1); now 18553 *)
Definition c12_api_cfg : rcfg :=
  {| c_only_known := false; c_iso_handler := None; c_prodinfo := [1;2;3;4;5;6;7;8;9;10]; c_confinfo := [1;2;3]; c_hb_on := true;
     c_inst1 := []; c_inst2 := []; c_manuf := []; c_inst_changed := false |}.
Definition c12_api_node (w:bool) (mode:Z) : rnode :=
  fst (rrun gf_none (cold_node w mode 5000 40 5 no_lists [mk_dev w 22 1 []; mk_dev w 23 2 []] [[]; []] c12_api_cfg)
         [RPoll; RBase (OTick 1); RPoll; RBase (OTick 201); RPoll; RBase (OTick 251); RPoll;
          RSetHeartbeat 30000 2000 0; RSetHeartbeat 5000 500 1; RBase (OTick 7000); RPoll; RBase (OTick 6000); RPoll; RBase (OTick 100)]).
Definition c12_hb_state (r:rnode) : list (ssched * Z) := map (fun x => (x_hb x, x_hb_seq x)) (rx_dev r).
Definition c12_api_ops : list xop :=
  [XApi (ASendHeartbeatAll true); XApi (ASendHeartbeatDev 1); XApi (ASetRxList 1 [126993; 0]); XApi (ASetOnlyKnown true);
   XApi (ASendHeartbeatAll false); XBase (RBase (OTick 2200));
   XApi (ASetTxList 0 [126993; 0]); XApi (ASetProductInformation [49] 666 [65] [66] [67] 2 65535 255);
   XApi (ASendHeartbeatAll false); XApi (ASendHeartbeatAll true); XBase RPoll].

Example C12_api_nonvacuous :
  let r := c12_api_node true 1 in
  let hb0 := to_can_id 7 126993 22 255 in
  let hb1 := to_can_id 7 126993 23 255 in
  (* the premises of statements 3 - 5 *)
  n_open (rn r) = 3 /\ is_active_node (rn r) = true /\ length (rx_dev r) = 2%nat /\ valid_dev r 1 = true /\
  snd (claim_started (rn r) 0) = false /\ snd (claim_started (rn r) 1) = false /\
  hb_now r 0 = 18553 /\ hb_now r 1 = 18553 /\ r_sync r = 5202 /\
  c12_hb_state r = [({| ss_next := 37202; ss_offset := 2000; ss_period := 30000 |}, 1); ({| ss_next := 20702; ss_offset := 500; ss_period := 5000 |}, 2)] /\
  (* the forced call: one frame per device, interval fields 3000 and 500 (x 10 ms), sequence byte 255; counters 1 and 2 as before; next
     times on the grids 5202 + 2000 + k * 30000 and 5202 + 500 + k * 5000, the least points after 18553 *)
  snd (api_step r (ASendHeartbeatAll true)) =
    [EvTx hb0 8 [184; 11; 255; 255; 255; 255; 255; 255] true; EvTx hb1 8 [244; 1; 255; 255; 255; 255; 255; 255] true] /\
  c12_hb_state (fst (api_step r (ASendHeartbeatAll true))) = c12_hb_state r /\
  184 + 256 * 11 = 30000 / 10 /\ 244 + 256 * 1 = 5000 / 10 /\
  37202 = 5202 + 2000 + 1 * 30000 /\ 20702 = 5202 + 500 + 3 * 5000 /\ ((20702 - 5000 <=? 18553) && (18553 <? 20702) && (37202 - 30000 <=? 18553) && (18553 <? 37202) = true) /\
  (* SendHeartbeat(1): the frame of device 1, nothing changes in the device table *)
  snd (api_step r (ASendHeartbeatDev 1)) = [EvTx hb1 8 [244; 1; 255; 255; 255; 255; 255; 255] true] /\
  rx_dev (fst (api_step r (ASendHeartbeatDev 1))) = rx_dev r /\
  (* a history with seven different calls: forced (2 frames), device 1 (1 frame), ExtendReceiveMessages and SetHandleOnlyKnownMessages
     (silent), unforced (nothing is due), 2200 ms later (20753) ExtendTransmitMessages and SetProductInformation (silent), unforced
     (device 1 is due: sequence 2, counter 2 -> 3, next time 25702), forced (2 frames, sequence 255, counter stays 3), poll (nothing) *)
  snd (xrun gf_none r c12_api_ops) =
    [[EvTx hb0 8 [184; 11; 255; 255; 255; 255; 255; 255] true; EvTx hb1 8 [244; 1; 255; 255; 255; 255; 255; 255] true];
     [EvTx hb1 8 [244; 1; 255; 255; 255; 255; 255; 255] true]; []; []; []; []; []; [];
     [EvTx hb1 8 [244; 1; 2; 255; 255; 255; 255; 255] true];
     [EvTx hb0 8 [184; 11; 255; 255; 255; 255; 255; 255] true; EvTx hb1 8 [244; 1; 255; 255; 255; 255; 255; 255] true]; []] /\
  c12_hb_state (fst (xrun gf_none r c12_api_ops)) =
    [({| ss_next := 37202; ss_offset := 2000; ss_period := 30000 |}, 1); ({| ss_next := 25702; ss_offset := 500; ss_period := 5000 |}, 3)] /\
  (* the 32-bit scheduler build does the same *)
  snd (xrun gf_none (c12_api_node false 1) c12_api_ops) = snd (xrun gf_none r c12_api_ops) /\
  c12_hb_state (fst (xrun gf_none (c12_api_node false 1) c12_api_ops)) = c12_hb_state (fst (xrun gf_none r c12_api_ops)) /\
  (* the same node in mode ListenAndSend (4): open, schedules set, and silent - nothing is sent, nothing changes *)
  let r4 := c12_api_node true 4 in
  n_open (rn r4) = 3 /\ is_active_node (rn r4) = false /\
  api_step r4 (ASendHeartbeatAll true) = (r4, []) /\ api_step r4 (ASendHeartbeatAll false) = (r4, []) /\
  api_step r4 (ASendHeartbeatDev 0) = (r4, []) /\ api_step r4 (ASendHeartbeatDev 1) = (r4, []) /\
  snd (xrun gf_none r4 c12_api_ops) = [[]; []; []; []; []; []; []; []; []; []; []] /\
  (* the setters did what they say (statement 6b is about calls that do change the state) *)
  x_rx (get_devx (fst (xrun gf_none r c12_api_ops)) 1) = [126993; 0] /\ d_tx (get_dev (rn (fst (xrun gf_none r c12_api_ops))) 0) = [126993; 0] /\
  c_only_known (r_cfg (fst (xrun gf_none r c12_api_ops))) = true /\ length (c_prodinfo (r_cfg (fst (xrun gf_none r c12_api_ops)))) = 134%nat.
Proof. vm_compute. repeat split. Qed.
Print Assumptions C12_api_nonvacuous.

(* observation (behaviour of the library as it is, reproduced on the C++ in both builds): a forced heartbeat recomputes the schedule also
   of a device whose heartbeat had been switched off with interval 0 (api_hb_forced_grid_stmt has no premise on the old next time) - after
   SetHeartbeatIntervalAndOffset(0) nothing is sent at 58553, SendHeartbeat(true) sends the two frames, and 40 s later ParseMessages sends
   scheduled heartbeats (sequence 1 and 2) again *)
Example C12_api_forced_restarts_disabled :
  let r := fst (rstep gf_none (c12_api_node true 1) (RSetHeartbeat 0 0 (-1))) in
  let ops := [XBase (RBase (OTick 40000)); XBase RPoll; XApi (ASendHeartbeatAll true); XBase (RBase (OTick 40000)); XBase RPoll] in
  map (fun p => ss_next (fst p)) (c12_hb_state r) = [ss_disabled; ss_disabled] /\
  snd (xrun gf_none r ops) =
    [[]; [];
     [EvTx (to_can_id 7 126993 22 255) 8 [184; 11; 255; 255; 255; 255; 255; 255] true; EvTx (to_can_id 7 126993 23 255) 8 [244; 1; 255; 255; 255; 255; 255; 255] true];
     [];
     [EvTx (to_can_id 7 126993 22 255) 8 [184; 11; 1; 255; 255; 255; 255; 255] true; EvTx (to_can_id 7 126993 23 255) 8 [244; 1; 2; 255; 255; 255; 255; 255] true]] /\
  c12_hb_state (fst (xrun gf_none r ops)) =
    [({| ss_next := 127202; ss_offset := 2000; ss_period := 30000 |}, 2); ({| ss_next := 100702; ss_offset := 500; ss_period := 5000 |}, 3)].
Proof. vm_compute. repeat split. Qed.
Print Assumptions C12_api_forced_restarts_disabled.
