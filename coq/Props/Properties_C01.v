(* C01 - sent messages are framed per NMEA 2000 (CAN id, single frame, fast packet).  Statements fixed in Spec/SendSpec.v. *)
From Coq Require Import ZArith List.
From N2kV Require Import Model.CanId Model.PgnClass Model.NodeDefs Spec.PgnClassRef Spec.SendSpec Proofs.SendProofs.
Import ListNotations.
Local Open Scope Z_scope.

Theorem C01_can_id_fields : can_id_fields_stmt.  Proof. exact can_id_fields. Qed.
Print Assumptions C01_can_id_fields.
Theorem C01_can_id_refusal : can_id_refusal_stmt.  Proof. exact can_id_refusal. Qed.
Print Assumptions C01_can_id_refusal.
Theorem C01_fp_frames : fp_frames_stmt.  Proof. exact fp_frames_ok. Qed.
Print Assumptions C01_fp_frames.
Theorem C01_seq_consecutive : seq_consecutive_stmt.  Proof. exact seq_consecutive. Qed.
Print Assumptions C01_seq_consecutive.
(* the statement without the "only declared PGNs are sent" premise is false of the code: known finding seqid-undeclared *)
Theorem C01_seq_unrestricted_refuted : seq_unrestricted_refuted_stmt.  Proof. exact seq_unrestricted_refuted. Qed.
Print Assumptions C01_seq_unrestricted_refuted.
Theorem C01_classification : classification_stmt.  Proof. exact classification. Qed.
Print Assumptions C01_classification.
Theorem C01_classification_ext : classification_ext_stmt.  Proof. exact classification_ext. Qed.
Print Assumptions C01_classification_ext.
Theorem C01_gate_refuses : gate_refuses_stmt.  Proof. exact gate_refuses. Qed.
Print Assumptions C01_gate_refuses.
Theorem C01_send_ok : send_ok_stmt.  Proof. exact send_ok. Qed.
Print Assumptions C01_send_ok.

(* non-vacuity: a 223-byte payload on PGN 129029 from source 22 passes the gate and gives 32 frames that decode to the payload *)
Example C01_nonvacuous :
  let n := opened_node true 1 5000 40 no_lists [mk_dev true 22 1 [129029]] in
  let m := {| m_pri := 3; m_pgn := 129029; m_src := 0; m_dst := 255; m_data := repeat 17 223; m_tp := false |} in
  (exists n1 i id, send_gate n m 0 = (n1, Some ({| m_pri := 3; m_pgn := 129029; m_src := 22; m_dst := 255; m_data := repeat 17 223; m_tp := false |}, i, id)))
  /\ length (fp_frames (Z.shiftl 7 5) (repeat 17 223)) = 32%nat
  /\ ref_decode (fp_frames (Z.shiftl 7 5) (repeat 17 223)) = Some (repeat 17 223).
Proof. cbv zeta. split; [eexists; eexists; eexists; vm_compute; reflexivity | split; vm_compute; reflexivity]. Qed.
Print Assumptions C01_nonvacuous.
