(* C01 placeholder until Proofs/SendProofs.v exists *)
From N2kV Require Import Model.NodeDefs Spec.SendSpec.
