(* C15 - setter output follows the published NMEA 2000 field layout for the protocol PGNs and the commonly used data PGNs.
   Spec/RefLayouts.v is the transcription of the public field definitions (DESIGN.md, Appendix A); layout_sound (Proofs/MsgProofs.v)
   is proved once over the field-level IR; the per-PGN obligations layout_<pgn> of Gen/GenObligations.v evaluate the check on the
   IR terms regenerated from the C++ on every run.  Fields the bit-level check cannot express (PGN list of 126464, the interval of
   126993 given in ms, the optional reference station record of 129029) are marked KSpecial in the table and are compared on the
   C++ output by tools/p_C15.py only. *)
From Coq Require Import ZArith List Bool.
From N2kV Require Import Model.SoftFloat Model.NumDefs Model.MsgIR Model.MsgExec Spec.MsgSpec Spec.RefLayouts Proofs.MsgProofs
                         Gen.GenMessages Gen.GenObligations.
Import ListNotations.
Local Open Scope Z_scope.

Theorem C15_layout_sound : layout_sound_stmt.  Proof. exact layout_sound. Qed.
Print Assumptions C15_layout_sound.

(* every listed PGN: for all arguments within their C types every reference field of the setter's payload holds the argument's bits /
   the quantisation of the argument with the published resolution and signedness / the text *)
Theorem C15_all_listed_pgns :
  forall s ref, In (s, ref) layout_pairs -> forall args, in_range (s_args s) args ->
    forall msg, exec_set s args = Some msg -> Forall (fun f => field_holds f args (m_data msg)) ref.
Proof.
  intros s ref Hin args IR msg X. assert (C := layout_pairs_checked). rewrite forallb_forall in C. specialize (C _ Hin). cbn [fst snd] in C.
  exact (proj1 (layout_sound s ref C args IR) msg X).
Qed.
Print Assumptions C15_all_listed_pgns.

(* the doubles the table names are the binary64 values nearest to the published resolutions *)
Example C15_resolutions_exact : forallb nearest_double all_res = true.
Proof. vm_compute. reflexivity. Qed.
Print Assumptions C15_resolutions_exact.

Example C15_listed_pgn_count : length layout_pairs = 32%nat.
Proof. vm_compute. reflexivity. Qed.
Print Assumptions C15_listed_pgn_count.

(* the check is not vacuous: each kind of deviation from the reference makes it fail (on the generated setter of PGN 127245) *)
Example C15_check_rejects_deviations :
  layout_matches s_SetN2kPGN127245 ref_127245 = true
  /\ layout_matches s_SetN2kPGN127245 [mk 8 8 IU 1 0] = false                  (* instance at the wrong position *)
  /\ layout_matches s_SetN2kPGN127245 [mk 8 4 IU 2 0] = false                  (* direction order wider than the 3 bits written *)
  /\ layout_matches s_SetN2kPGN127245 [mk 16 16 (US r_1e_4) 3 0] = false       (* signedness *)
  /\ layout_matches s_SetN2kPGN127245 [mk 16 16 (SS r_1e_2) 3 0] = false       (* resolution *)
  /\ layout_matches s_SetN2kPGN127245 [mk 16 16 (SS r_1e_4) 0 0] = false       (* another argument's field *)
  /\ layout_matches s_SetN2kPGN127245 [mk 16 32 (SS r_1e_4) 3 0] = false.      (* width *)
Proof. vm_compute. repeat split; reflexivity. Qed.
Print Assumptions C15_check_rejects_deviations.

(* PGN 126993 (heartbeat): the interval argument is in ms, the field in units of 10 ms (the reading of D-19, repaired in the C++):
   60000 ms -> 6000 = 0x1770; 655320 ms -> 0xfffc; above the maximum -> 0xfffe *)
Example C15_heartbeat_interval_units :
  option_map m_data (exec_set s_SetN2kPGN126993 [VI 60000; VI 5]) = Some [112; 23; 5; 255; 255; 255; 255; 255]
  /\ option_map m_data (exec_set s_SetN2kPGN126993 [VI 655320; VI 0]) = Some [252; 255; 0; 255; 255; 255; 255; 255]
  /\ option_map m_data (exec_set s_SetN2kPGN126993 [VI 655321; VI 0]) = Some [254; 255; 0; 255; 255; 255; 255; 255].
Proof. vm_compute. repeat split; reflexivity. Qed.
Print Assumptions C15_heartbeat_interval_units.

(* the enumerators of the enumerated fields carry the published codes (the generated table is what clang reads from src/N2kTypes.h) *)
From N2kV Require Spec.RefEnums Proofs.EnumProofs Gen.GenEnums.
Theorem C15_enumerator_codes : RefEnums.enum_codes_stmt GenEnums.gen_enums RefEnums.ref_enum_codes.
Proof. apply EnumProofs.enum_codes_sound. vm_compute. reflexivity. Qed.
Print Assumptions C15_enumerator_codes.
Example C15_enumerator_codes_nonvacuous :
  length RefEnums.ref_enum_codes = 14%nat /\
  RefEnums.assoc RefEnums.name_wind_true_boat (match RefEnums.assoc RefEnums.name_wind_reference GenEnums.gen_enums with Some g => g | None => [] end) = Some 3 /\
  RefEnums.enum_codes_ok [(RefEnums.name_wind_reference, [(RefEnums.name_wind_true_boat, 4)])] [(RefEnums.name_wind_reference, [(RefEnums.name_wind_true_boat, 3)])] = false.
Proof. vm_compute. repeat split; reflexivity. Qed.
Print Assumptions C15_enumerator_codes_nonvacuous.
