(* C06 placeholder: statements are added below as they are proved *)
From N2kV Require Import Model.SoftFloat Model.NumDefs.
