(* C06 - scaled numeric fields quantise, saturate and mark "not available" correctly.
   Statements are fixed in Spec/NumSpec.v; this file only closes them and prints their assumptions. *)
From Coq Require Import ZArith List.
From N2kV Require Import Model.SoftFloat Model.NumDefs Spec.NumSpec Proofs.NumProofs.
Local Open Scope Z_scope.

Theorem C06_bytes_roundtrip : bytes_roundtrip_stmt.  Proof. exact bytes_roundtrip. Qed.
Print Assumptions C06_bytes_roundtrip.
Theorem C06_set_code : set_code_stmt.  Proof. exact set_code_ok. Qed.
Print Assumptions C06_set_code.
Theorem C06_set_code8 : set_code8_stmt.  Proof. exact set_code8_ok. Qed.
Print Assumptions C06_set_code8.
Theorem C06_add_double_na : add_double_na_stmt.  Proof. exact add_double_na. Qed.
Print Assumptions C06_add_double_na.
Theorem C06_get_double : get_double_stmt.  Proof. exact get_double_ok. Qed.
Print Assumptions C06_get_double.
Theorem C06_na_roundtrip : na_roundtrip_stmt.  Proof. exact na_roundtrip. Qed.
Print Assumptions C06_na_roundtrip.
Theorem C06_rnd_nearest : rnd_nearest_stmt.  Proof. exact rnd_nearest. Qed.
Print Assumptions C06_rnd_nearest.
Theorem C06_own_round_exact : own_round_exact_stmt.  Proof. exact own_round_exact. Qed.
Print Assumptions C06_own_round_exact.
Theorem C06_float_roundtrip : float_roundtrip_stmt.  Proof. exact float_roundtrip. Qed.
Print Assumptions C06_float_roundtrip.
Theorem C06_int_roundtrip : int_roundtrip_stmt.  Proof. exact int_roundtrip. Qed.
Print Assumptions C06_int_roundtrip.

(* non-vacuity: the 3-byte signed field with a negative value, the case the unrepaired getter got wrong *)
Example C06_nonvacuous :
  get_double 3%nat true 4576918229304087675 0 0 3 (add_double 3%nat true 13846508457334753198 4576918229304087675) = (13846508457334753198, 3)
  /\ add_double 8%nat true 9221120237041090560 4576918229304087675 = NumDefs.le_bytes 8%nat (orc 8%nat true).
Proof. split; vm_compute; reflexivity. Qed.
Print Assumptions C06_nonvacuous.

(* the IEEE addition inside round(): half a step plus at most half an ulp, never more than one code off and only away from zero *)
From N2kV Require Import Spec.NumSpec2 Proofs.NumProofs2.
Theorem C06_own_round_within : own_round_within_stmt.  Proof. exact own_round_within. Qed.
Print Assumptions C06_own_round_within.
Theorem C06_own_round_adjacent : own_round_adjacent_stmt.  Proof. exact own_round_adjacent. Qed.
Print Assumptions C06_own_round_adjacent.
Theorem C06_own_round_2p52 : own_round_2p52_stmt.  Proof. exact own_round_2p52. Qed.
Print Assumptions C06_own_round_2p52.

(* the free functions SetBufNByte[U]Double and the setters with a caller-chosen UndefVal (Model/NumDefs.v, last part) *)
From N2kV Require Import Spec.NumSpec3 Proofs.NumProofs3.
Theorem C06_set_buf8_na : set_buf8_na_stmt.  Proof. exact set_buf8_na. Qed.
Print Assumptions C06_set_buf8_na.
Theorem C06_add_undef : add_undef_stmt.  Proof. exact add_undef. Qed.
Print Assumptions C06_add_undef.
Theorem C06_add_undef_roundtrip : add_undef_roundtrip_stmt.  Proof. exact add_undef_roundtrip. Qed.
Print Assumptions C06_add_undef_roundtrip.
Theorem C06_add_default : add_default_stmt.  Proof. exact add_default. Qed.
Print Assumptions C06_add_default.
Theorem C06_reserved_stays_reserved : reserved_stays_reserved_stmt.  Proof. exact reserved_stays_reserved. Qed.
Print Assumptions C06_reserved_stays_reserved.
(* non-vacuity: UndefVal 0.0 and the value -0.0 (IEEE equal), 2-byte unsigned field, precision 0.01; and N2kDoubleNA through the 8-byte free function *)
Example C06_undef_nonvacuous :
  ieee_eq 9223372036854775808 0 = true
  /\ add_double_u 2%nat false 9223372036854775808 4576918229304087675 0 = (255 :: 255 :: nil)%Z
  /\ set_buf_double 8%nat true na_double_bits 4576918229304087675 = (255 :: 255 :: 255 :: 255 :: 255 :: 255 :: 255 :: 127 :: nil)%Z
  /\ ieee_eq 4607182418800017408 0 = false.
Proof. repeat split; vm_compute; reflexivity. Qed.
Print Assumptions C06_undef_nonvacuous.
