(* C07 - no bus traffic makes the library touch memory unsafely, hang or over-deliver (node core: receive path, fast-packet and ISO-TP
   reassembly, both ISO-TP roles, address claim, commanded address, ISO requests, pending information, heartbeat, Open, ParseMessages).
   Statements fixed in Spec/SafeSpec.v.  The device list is covered under C18, the group-function handlers under C09: here they are the
   parameter gf with the contract gf_ok (and gf_keeps_rxq for the bound on ParseMessages). *)
From Coq Require Import ZArith List Bool Lia.
From N2kV Require Import Base.ListAux Model.CanId Model.Sched Model.PgnClass Model.NodeDefs Model.NodeRxDefs Spec.SendSpec Spec.SafeSpec
  Proofs.SafeProofsD Proofs.SafeProofsE.
Import ListNotations.
Local Open Scope Z_scope.

Theorem C07_node_safe : node_safe_stmt.  Proof. exact node_safe. Qed.
Print Assumptions C07_node_safe.
Theorem C07_poll_bounded : poll_bounded_stmt.  Proof. exact poll_bounded. Qed.
Print Assumptions C07_poll_bounded.
Theorem C07_slot_invariants : slot_invariants_stmt.  Proof. exact slot_invariants. Qed.
Print Assumptions C07_slot_invariants.
Theorem C07_gf_none_ok : gf_none_ok_stmt.  Proof. exact gf_none_ok. Qed.
Print Assumptions C07_gf_none_ok.

(* ---------- non-vacuity: the scenario of repaired defect D-14 ----------
   A cold single-device node (address 22) is opened and claims its address; a peer (50) starts an RTS/CTS transfer of 40 bytes (6 packets,
   a CTS is due after every 5th) to address 22; after the first TP.DT a claim with NAME 0 from address 22 arrives, the device loses the
   address and moves to 23; the peer continues with TP.DT 2..6 to address 22. *)
Definition ex_cfg : rcfg :=
  {| c_only_known := false; c_iso_handler := None; c_prodinfo := []; c_confinfo := []; c_hb_on := false;
     c_inst1 := []; c_inst2 := []; c_manuf := []; c_inst_changed := false |}.
Definition ex_node : rnode := cold_node true 1 5000 40 5 no_lists [mk_dev true 22 13849274744920080385 []] [[]] ex_cfg.
Definition fr (id:Z) (l:list Z) : rop := RRx {| r_id := id; r_len := 8; r_buf := l |}.
Definition ex_open : list rop := [RPoll; RBase (OTick 1); RPoll; RBase (OTick 201); RPoll; RBase (OTick 251); RPoll].
Definition ex_session_start : list rop :=
  [fr 485234226 [16;40;0;6;255;0;255;1]; RPoll;                (* TP.CM RTS 50 -> 22, 40 bytes, 6 packets, PGN 130816 *)
   fr 485168690 [1;1;2;3;4;5;6;7]; RPoll;                      (* TP.DT 1 *)
   fr 418316054 [0;0;0;0;0;0;0;0]; RPoll;                      (* address claim from 22 with NAME 0: we lose the address *)
   fr 485168690 [2;8;9;10;11;12;13;14]; RPoll;
   fr 485168690 [3;15;16;17;18;19;20;21]; RPoll;
   fr 485168690 [4;22;23;24;25;26;27;28]; RPoll].
Definition ex_session_end : list rop :=
  [fr 485168690 [5;29;30;31;32;33;34;35]; RPoll;               (* the 5th TP.DT: a CTS would be due, but the destination is no longer ours *)
   fr 485168690 [6;36;37;38;39;40;41;42]; RPoll].
Definition ex_ops : list rop := ex_open ++ ex_session_start ++ ex_session_end.

Definition tx_ids (evs:list (list event)) : list Z := flat_map (flat_map (fun e => match e with EvTx id _ _ _ => [id] | _ => [] end)) evs.
Definition dlv_lens (evs:list (list event)) : list (Z * Z) :=
  flat_map (flat_map (fun e => match e with EvDeliver m => [(m_pgn m, Z.of_nat (length (m_data m)))] | _ => [] end)) evs.

Lemma ex_ops_ok : Forall op_ok ex_ops.
Proof. unfold ex_ops, ex_open, ex_session_start, ex_session_end, fr; simpl. repeat (constructor; try (simpl; unfold byte_ok; lia)). Qed.
Print Assumptions ex_ops_ok.

(* the model goes through the history without an out-of-bounds access: our claim, the CTS answering the RTS and the claim for the new
   address 23 are the only frames sent (no CTS at the 5th TP.DT), the claim and the complete 40-byte message are delivered *)
Example C07_nonvacuous_d14 :
  let r' := fst (rrun gf_none ex_node ex_ops) in
  let evs := snd (rrun gf_none ex_node ex_ops) in
  Forall op_ok ex_ops /\ r_oob r' = false /\ dev_src r' 0 = 23 /\
  tx_ids evs = [418316054; 418132502; 418316055] /\ dlv_lens evs = [(60928, 8); (130816, 40)].
Proof. split; [exact ex_ops_ok|]. vm_compute. repeat split; reflexivity. Qed.
Print Assumptions C07_nonvacuous_d14.

(* the flag is not vacuous: in the state just before the 5th TP.DT the destination 22 is no device of ours (FindSourceDeviceIndex = -1), and
   the call the unrepaired code made there - SendTPCM_CTS with that index - sets r_oob *)
Example C07_oob_flag_not_vacuous :
  let r := fst (rrun gf_none ex_node (ex_open ++ ex_session_start)) in
  r_oob r = false /\ find_source_device r 22 = -1 /\
  r_oob (fst (send_tpcm_cts r 130816 50 (find_source_device r 22) 255 6)) = true /\
  r_oob (fst (send_tpcm_cts r 130816 50 (-1) 255 6)) = true /\
  r_oob (fst (send_tpcm_cts r 130816 50 0 255 6)) = false.
Proof. vm_compute. repeat split; reflexivity. Qed.
Print Assumptions C07_oob_flag_not_vacuous.

(* the theorems apply to this node and history (instance of C07_node_safe with gf_none) *)
Example C07_instance :
  let r' := fst (rrun gf_none ex_node ex_ops) in
  r_oob r' = false /\ Forall (Forall ev_ok) (snd (rrun gf_none ex_node ex_ops)) /\ WF 1 5 40 r' /\ quiet r'.
Proof.
  apply (C07_node_safe gf_none (proj1 C07_gf_none_ok) true 1 5000 40 5 no_lists [mk_dev true 22 13849274744920080385 []] [[]] ex_cfg ex_ops);
    try lia; try discriminate; auto using ex_ops_ok.
  repeat constructor; unfold dev_ok; simpl; lia.
Qed.
Print Assumptions C07_instance.

(* the library's group function handlers (Model/GroupFnDefs.v, property C09) satisfy the contract, so node_safe holds for the node
   as shipped; the device-list half of C07 is C18_heap_safe (Props/Properties_C18.v) *)
From N2kV Require Import Model.GroupFnDefs Proofs.GroupFnSafe.
Theorem C07_gf_lib_ok : gf_ok gf_lib.  Proof. exact gf_lib_ok. Qed.
Print Assumptions C07_gf_lib_ok.
Theorem C07_gf_lib_keeps_rxq : gf_keeps_rxq gf_lib.  Proof. exact gf_lib_keeps_rxq. Qed.
Print Assumptions C07_gf_lib_keeps_rxq.

(* the device-list half: for every message history the model of tN2kDeviceList never uses a freed entry and never indexes Sources[]
   outside its bounds (statement and proof shared with C18) *)
From N2kV Require Spec.DevListSpec Proofs.DevListProofs.
Theorem C07_devlist_heap_safe : DevListSpec.heap_safe_stmt.  Proof. exact DevListProofs.heap_safe. Qed.
Print Assumptions C07_devlist_heap_safe.

(* ================= the public application calls (Model/ApiDefs.v) =================
   The same conclusion for histories in which the application also calls SendIsoAddressClaim, SendProductInformation,
   SendConfigurationInformation, SendTx/RxPGNList, SendHeartbeat (both), SetDeviceInformationInstances, SetDeviceInformation, Restart,
   SetMode, the Set/Extend...Messages setters (node-wide and per device: ExtendTransmitMessages / ExtendReceiveMessages),
   SetHandleOnlyKnownMessages and SetProductInformation at any time, with ANY device index (statements in Spec/ApiSafeSpec.v; no call is
   excluded; histories containing SetMode assume at most 251 devices - the library allows 9 - because the model keeps source + i - 252
   unreduced where the C++ has a uint8_t: C07_api_unbounded_refuted is the 258-device witness). *)
From N2kV Require Import Model.ApiDefs Spec.ApiSafeSpec Proofs.ApiSafeProofs.
Theorem C07_api_node_safe : api_node_safe_stmt.  Proof. exact api_node_safe. Qed.
Print Assumptions C07_api_node_safe.
Theorem C07_api_node_safe_lib : api_node_safe_lib_stmt.  Proof. exact api_node_safe_lib. Qed.
Print Assumptions C07_api_node_safe_lib.
Theorem C07_api_slot_invariants : api_slot_invariants_stmt.  Proof. exact api_slot_invariants. Qed.
Print Assumptions C07_api_slot_invariants.
Theorem C07_api_unbounded_refuted : api_node_safe_unbounded_refuted_stmt.  Proof. exact api_node_safe_unbounded_refuted. Qed.
Print Assumptions C07_api_unbounded_refuted.

(* ---------- non-vacuity: the node of the D-14 scenario, driven through the public calls ----------
   SendProductInformation on the cold node (reaches Open() through SendMsg, nothing goes out yet), the node opens and claims 22,
   then: a claim on request (broadcast with index -1 = device 0), calls with device indices -1 / 7 / -3 / 1 / 9 that the entry points
   refuse, the receive list by ISO-TP to 50, forced heartbeats, new instances and device information (the NAME changes), a fast-packet
   list, new transmit / receive lists of device 0 (and of a device 5 that does not exist), SetHandleOnlyKnownMessages(true), new product
   information, SetMode(ListenAndNode, 251) (the device is re-addressed to 251 without a claim) and Restart (claim from 251). *)
Definition ex_api_ops : list xop :=
  [XApi (ASendProd 0);
   XBase RPoll; XBase (RBase (OTick 1)); XBase RPoll; XBase (RBase (OTick 201)); XBase RPoll; XBase (RBase (OTick 251)); XBase RPoll;
   XApi (ASendClaim 255 (-1) 0);
   XApi (ASendClaim 50 (-1) 0);
   XApi (ASendTxList 255 7 false);
   XApi (ASendRxList 50 0 true);
   XApi (ASendHeartbeatAll true);
   XApi (ASendHeartbeatDev (-3));
   XApi (ASendHeartbeatDev 0);
   XApi (ASendConf 1);
   XApi (ASetInstances 0 1 2 3);
   XApi (ASetDeviceInformation 0 12345 130 25 2046 4);
   XApi (ASetDeviceInformation 9 12345 130 25 2046 4);
   XApi (ASetPgnList 2 [130816; 0]);
   XApi (ASetTxList 0 [126992; 0]);
   XApi (ASetTxList 5 [1; 0]);
   XApi (ASetRxList 0 [127250; 0]);
   XApi (ASetOnlyKnown true);
   XApi (ASetProductInformation [49; 50] 666 [65] [66] [67] 2 65535 255);
   XApi (ASetMode 2 251);
   XApi ARestart;
   XBase RPoll].
Definition tx_per_op (evs:list (list event)) : list (list Z) := map (flat_map (fun e => match e with EvTx id _ _ _ => [id] | _ => [] end)) evs.

Lemma ex_api_ops_ok : Forall xop_ok ex_api_ops.
Proof. unfold ex_api_ops. repeat (constructor; try (simpl; unfold u8_ok, byte_ok; lia)). Qed.
Print Assumptions ex_api_ops_ok.

(* what the model does on this history (both with the library's group function handlers and without): claim 22, pending product
   information, claim on request, TP.CM RTS to 50, two forced heartbeats, claim from 251; the refused calls send nothing *)
Example C07_api_nonvacuous :
  let r' := fst (xrun gf_lib ex_node ex_api_ops) in
  let evs := snd (xrun gf_lib ex_node ex_api_ops) in
  Forall xop_ok ex_api_ops /\ devs_bound 1 ex_api_ops /\ existsb is_set_mode ex_api_ops = true /\
  r_oob r' = false /\ dev_src r' 0 = 251 /\ n_mode (rn r') = 2 /\ d_name (get_dev (rn r') 0) = 14065447600048320569 /\
  fp0 (n_pgn (rn r')) = Some [130816; 0] /\
  d_tx (get_dev (rn r') 0) = [126992; 0] /\ x_rx (get_devx r' 0) = [127250; 0] /\ c_only_known (r_cfg r') = true /\
  firstn 5 (c_prodinfo (r_cfg r')) = [53; 8; 154; 2; 65] /\ length (c_prodinfo (r_cfg r')) = 134%nat /\
  tx_per_op evs = [[]; []; []; []; []; [418316054]; []; [435164182]; [418316054]; []; []; [418132502]; [502272278]; []; [502272278];
                   []; []; []; []; []; []; []; []; []; []; []; [418316283]; []] /\
  tx_per_op (snd (xrun gf_none ex_node ex_api_ops)) = tx_per_op evs.
Proof. split; [exact ex_api_ops_ok|]. split; [left; lia|]. vm_compute. repeat split; reflexivity. Qed.
Print Assumptions C07_api_nonvacuous.

(* the guards of the entry points are what keeps the flag down: the same internal functions with the refused indices set r_oob *)
Example C07_api_guards_not_vacuous :
  let r := fst (xrun gf_lib ex_node ex_api_ops) in
  r_oob r = false /\
  r_oob (fst (send_tx_list r 7 255 false)) = true /\ r_oob (fst (api_step r (ASendTxList 255 7 false))) = false /\
  r_oob (set_name r 9 0) = true /\ r_oob (fst (api_step r (ASetDeviceInformation 9 12345 130 25 2046 4))) = false /\
  r_oob (fst (send_config_info_to r (-1) 255 false)) = true /\ r_oob (fst (api_step r (ASendConf (-1)))) = false.
Proof. vm_compute. repeat split; reflexivity. Qed.
Print Assumptions C07_api_guards_not_vacuous.

(* the theorem applies to this node and history (instance of C07_api_node_safe_lib) *)
Example C07_api_instance :
  let r' := fst (xrun gf_lib ex_node ex_api_ops) in
  r_oob r' = false /\ Forall (Forall ev_ok) (snd (xrun gf_lib ex_node ex_api_ops)) /\ WF 1 5 40 r' /\ quiet r'.
Proof.
  apply (C07_api_node_safe_lib true 1 5000 40 5 no_lists [mk_dev true 22 13849274744920080385 []] [[]] ex_cfg ex_api_ops);
    try lia; try discriminate; auto using ex_api_ops_ok.
  - repeat constructor; unfold dev_ok; simpl; lia.
  - left; simpl; lia.
Qed.
Print Assumptions C07_api_instance.
