(* C08 - ISO requests are always answered: data for the mandatory PGNs, a negative acknowledgement otherwise.
   Statements: Spec/IsoSpec.v ; proofs: Proofs/IsoProofsA-E.v.  Every statement quantifies over every requested PGN 0 <= p < 2^24, every
   requester address, every node (any number of devices), and - where the function takes one - every group function reaction gf. *)
From Coq Require Import ZArith List Bool.
From N2kV Require Import Base.ListAux Model.CanId Model.Sched Model.PgnClass Model.NodeDefs Model.NodeRxDefs Gen.GenTables Gen.GenConsts
  Spec.SendSpec Spec.IsoSpec Proofs.IsoProofsA Proofs.IsoProofsB Proofs.IsoProofsC Proofs.IsoProofsD Proofs.IsoProofsE.
Import ListNotations.
Local Open Scope Z_scope.

Theorem C08_addressed_answered : iso_addressed_answered_stmt.  Proof. exact iso_addressed_answered. Qed.
Print Assumptions C08_addressed_answered.
Theorem C08_addressed_empty_queue : iso_addressed_empty_queue_stmt.  Proof. exact iso_addressed_empty_queue. Qed.
Print Assumptions C08_addressed_empty_queue.
Theorem C08_broadcast_never_nak : iso_broadcast_never_nak_stmt.  Proof. exact iso_broadcast_never_nak. Qed.
Print Assumptions C08_broadcast_never_nak.
Theorem C08_broadcast_all_devices : iso_broadcast_all_devices_stmt.  Proof. exact iso_broadcast_all_devices. Qed.
Print Assumptions C08_broadcast_all_devices.
Theorem C08_no_config_info : iso_no_config_info_stmt.  Proof. exact iso_no_config_info. Qed.
Print Assumptions C08_no_config_info.
Theorem C08_claim_pending_silent : iso_claim_pending_silent_stmt.  Proof. exact iso_claim_pending_silent. Qed.
Print Assumptions C08_claim_pending_silent.
Theorem C08_dispatch : iso_dispatch_stmt.  Proof. exact iso_dispatch. Qed.
Print Assumptions C08_dispatch.
Theorem C08_system_dispatch : iso_system_dispatch_stmt.  Proof. exact iso_system_dispatch. Qed.
Print Assumptions C08_system_dispatch.
Theorem C08_retry : iso_retry_stmt.  Proof. exact iso_retry. Qed.
Print Assumptions C08_retry.
Theorem C08_answers_match_reference : iso_answers_match_reference_stmt.  Proof. exact iso_answers_match_reference. Qed.
Print Assumptions C08_answers_match_reference.
(* what "always" does not cover *)
Theorem C08_high_address_unanswered : iso_high_address_unanswered_stmt.  Proof. exact iso_high_address_unanswered. Qed.
Print Assumptions C08_high_address_unanswered.
Theorem C08_nak_dropped_when_queue_full : iso_nak_dropped_when_queue_full_stmt.  Proof. exact iso_nak_dropped_when_queue_full. Qed.
Print Assumptions C08_nak_dropped_when_queue_full.
Theorem C08_broadcast_flushes_earlier_nak : iso_broadcast_flushes_earlier_nak_stmt.  Proof. exact iso_broadcast_flushes_earlier_nak. Qed.
Print Assumptions C08_broadcast_flushes_earlier_nak.

(* ================= non-vacuity ================= *)
(* the library's default product / configuration information, laid out by the reference *)
Definition ex_prod : list Z :=
  ref_product_info 2101 666 [65;114;100;117;105;110;111;32;78;50;107;45;62;80;67] [49;46;48;46;48;46;48] [49;46;48;46;48] [48;48;48;48;48;48;48;49] 0 1.
Definition ex_conf : list Z :=
  ref_config_info [] [] [78;77;69;65;50;48;48;48;32;108;105;98;114;97;114;121;44;32;104;116;116;112;115;58;47;47;103;105;116;104;117;98;46;99;111;109;47;
                         116;116;108;97;112;112;97;108;97;105;110;101;110;47;78;77;69;65;50;48;48;48].
(* two devices at addresses 22 and 23, application handler accepting 129029 *)
Definition ex2 (q:sring) (d:drv) : rnode :=
  ex_rnode 2 q d [mk_dev true 22 13835058055282163713 [129029]; mk_dev true 23 13835058055282163714 []] [[127250]; []] (ex_cfg (Some [129029]) ex_prod ex_conf).
Definition ex_request (requester dst p len:Z) : slot :=
  {| s_free := false; s_ready := true; s_known := true; s_system := true; s_pri := 6; s_pgn := 59904; s_src := requester; s_dst := dst; s_tp := false;
     s_len := len; s_data := [p mod 256; (p / 256) mod 256; (p / 65536) mod 256]; s_last := 0; s_time := 0; s_tpmax := 0; s_tpreq := 0 |}.
Definition ev_data (e:event) : list Z := match e with EvTx _ _ d true => d | _ => [] end.
Definition ev_id (e:event) : Z := match e with EvTx id 8 _ true => id | _ => -1 end.

(* an addressed request for the product information is answered by the addressed device only, with 20 fast-packet frames that carry
   the configured 134 bytes, sent to everybody under the device's address *)
Example C08_nonvacuous_addressed_product_information :
  let '(r', ev) := handle_system gf_none (ex2 (sring_new 80) []) (ex_request 50 23 126996 3) in
  length ev = 20%nat /\ ref_decode (map ev_data ev) = Some ex_prod /\ length ex_prod = 134%nat /\
  forallb (fun e => ev_id e =? to_can_id 6 126996 23 255) ev = true /\ can_id_to_n2k (to_can_id 6 126996 23 255) = (6, 126996, 23, 255).
Proof. vm_compute. repeat split. Qed.
Print Assumptions C08_nonvacuous_addressed_product_information.

(* an unknown PGN: the broadcast request draws nothing, the addressed one a negative acknowledgement to the requester naming the PGN;
   the PGN the handler accepts draws no frame from the library; a short request counts as PGN 0 *)
Example C08_nonvacuous_unknown_pgn :
  snd (handle_system gf_none (ex2 (sring_new 80) []) (ex_request 50 255 127250 3)) = [] /\
  snd (handle_system gf_none (ex2 (sring_new 80) []) (ex_request 50 22 127250 3)) = [EvTx (to_can_id 6 59392 22 50) 8 [1; 255; 255; 255; 255; 18; 241; 1] true] /\
  snd (handle_system gf_none (ex2 (sring_new 80) []) (ex_request 50 23 129029 3)) = [EvNote 1129029] /\
  snd (handle_system gf_none (ex2 (sring_new 80) []) (ex_request 50 23 129029 2)) = [EvTx (to_can_id 6 59392 23 50) 8 [1; 255; 255; 255; 255; 0; 0; 0] true] /\
  can_id_to_n2k (to_can_id 6 59392 22 50) = (6, 59392, 22, 50).
Proof. vm_compute. repeat split. Qed.
Print Assumptions C08_nonvacuous_unknown_pgn.

(* no configuration information at all: the addressed request is refused to the requester, the broadcast request draws nothing *)
Definition ex2_noconf : rnode :=
  ex_rnode 2 (sring_new 80) [] [mk_dev true 22 13835058055282163713 []; mk_dev true 23 13835058055282163714 []] [[]; []] (ex_cfg None ex_prod []).
Example C08_nonvacuous_no_config_info :
  snd (handle_system gf_none ex2_noconf (ex_request 50 23 126998 3)) = [EvTx (to_can_id 6 59392 23 50) 8 [1; 255; 255; 255; 255; 22; 240; 1] true] /\
  snd (handle_system gf_none ex2_noconf (ex_request 50 255 126998 3)) = [] /\
  can_id_to_n2k (to_can_id 6 59392 23 50) = (6, 59392, 23, 50).
Proof. vm_compute. repeat split. Qed.
Print Assumptions C08_nonvacuous_no_config_info.

(* a broadcast request for the address claim / the PGN lists is answered by both devices in device order *)
Example C08_nonvacuous_broadcast_mandatory :
  snd (handle_system gf_none (ex2 (sring_new 80) []) (ex_request 50 255 60928 3)) =
    [EvTx (to_can_id 6 60928 22 255) 8 (ref_claim 13835058055282163713) true; EvTx (to_can_id 6 60928 23 255) 8 (ref_claim 13835058055282163714) true] /\
  (let ev := snd (handle_system gf_none (ex2 (sring_new 80) []) (ex_request 50 255 126464 3)) in
   map ev_id ev = repeat (to_can_id 6 126464 22 50) 5 ++ repeat (to_can_id 6 126464 22 50) 4 ++ repeat (to_can_id 6 126464 23 50) 5 ++ repeat (to_can_id 6 126464 23 50) 4 /\
   ref_decode (map ev_data (firstn 5 ev)) = Some (ref_pgn_list 0 (ref_default_tx ++ [129029])) /\
   ref_decode (map ev_data (firstn 4 (skipn 5 ev))) = Some (ref_pgn_list 1 (ref_default_rx ++ [127250])) /\
   ref_decode (map ev_data (firstn 5 (skipn 9 ev))) = Some (ref_pgn_list 0 ref_default_tx) /\
   ref_decode (map ev_data (skipn 14 ev)) = Some (ref_pgn_list 1 ref_default_rx)).
Proof. vm_compute. repeat split. Qed.
Print Assumptions C08_nonvacuous_broadcast_mandatory.

(* retry: the driver refuses and the queue (capacity 1) is full: the configuration information cannot be sent, the scheduler is armed
   at 5000 + 187 + 10 * 22; SendPendingInformation does nothing before that instant and sends the whole message after it *)
Example C08_nonvacuous_retry :
  let r0 := ex2 ex_full_ring [false; false; false] in
  let '(r1, ev1) := handle_system gf_none r0 (ex_request 50 22 126998 3) in
  let r2 := with_rn r1 (upd_q (set_now (rn r1) 5407) (n_q (rn r1)) []) in
  let r3 := with_rn r1 (upd_q (set_now (rn r1) 5408) (n_q (rn r1)) []) in
  forallb (fun e => match e with EvTx _ _ _ ok => negb ok | _ => false end) ev1 = true /\
  x_pend_conf (get_devx r1 0) = 5407 /\
  send_pending_info_dev r2 0 = (r2, []) /\
  (let '(r4, ev4) := send_pending_info_dev r3 0 in
   ref_decode (map ev_data (tl ev4)) = Some ex_conf /\ sched_is_enabled true (x_pend_conf (get_devx r4 0)) = false).
Proof. vm_compute. repeat split. Qed.
Print Assumptions C08_nonvacuous_retry.

(* the content of the configuration information answer equals what the application configured (strings up to the 70 character field limit) *)
From N2kV Require Import Model.GroupFnDefs Model.ConfInfoDefs Spec.ConfInfoSpec Proofs.ConfInfoProofs.
Theorem C08_set_conf_info_content : set_conf_info_content_stmt.  Proof. exact set_conf_info_content. Qed.
Print Assumptions C08_set_conf_info_content.
(* non-vacuity: a manufacturer information of exactly 71 characters is cut to 70, the descriptions are kept *)
Example C08_conf_info_nonvacuous :
  let c0 := {| c_only_known := false; c_iso_handler := None; c_prodinfo := []; c_confinfo := []; c_hb_on := false;
               c_inst1 := []; c_inst2 := []; c_manuf := []; c_inst_changed := false |} in
  let c := set_configuration_information c0 (repeat 77 71) [65; 66] [] in
  c_confinfo c = [4; 1; 65; 66; 2; 1; 72; 1] ++ repeat 77 70 /\ length (c_confinfo c) = 78%nat.
Proof. vm_compute. split; reflexivity. Qed.
Print Assumptions C08_conf_info_nonvacuous.

(* ================= C08 at every point of every history (tie to C07) =================
   The statements above are about one step from an arbitrary state r with the structural premise rnode_wf r.  Spec/IsoReachSpec.v: that
   premise holds after every admissible history (all node operations and all public application calls, Model/ApiDefs.v) from every state
   satisfying the C07 invariant (WF, r_oob = false, quiet: Spec/SafeSpec.v), in particular from every cold node, for every group function
   reaction satisfying the C07 contract gf_ok; hence the answer statement applies in every reachable state. *)
From Coq Require Import Lia.
From N2kV Require Import Model.ApiDefs Spec.SafeSpec Spec.ApiSafeSpec Spec.IsoReachSpec Proofs.SafeProofsD Proofs.GroupFnSafe Proofs.IsoReachProofs.
Theorem C08_reachable_wf : iso_reachable_wf_stmt.  Proof. exact iso_reachable_wf. Qed.
Print Assumptions C08_reachable_wf.
Theorem C08_reachable_wf_cold : iso_reachable_wf_cold_stmt.  Proof. exact iso_reachable_wf_cold. Qed.
Print Assumptions C08_reachable_wf_cold.
Theorem C08_addressed_answer_is_c08 : addressed_answer_is_c08_stmt.  Proof. exact addressed_answer_is_c08. Qed.
Print Assumptions C08_addressed_answer_is_c08.
Theorem C08_addressed_answered_reachable : iso_addressed_answered_reachable_stmt.  Proof. exact iso_addressed_answered_reachable. Qed.
Print Assumptions C08_addressed_answered_reachable.
Theorem C08_addressed_answered_reachable_prefix : iso_addressed_answered_reachable_prefix_stmt.  Proof. exact iso_addressed_answered_reachable_prefix. Qed.
Print Assumptions C08_addressed_answered_reachable_prefix.

(* ---------- non-vacuity: the two devices of ex2 as a COLD node (ListenAndNode, not opened, send buffer 40, 5 slots) and a history with
   public calls (SendProductInformation before Open, SetDeviceInformationInstances), clock ticks, ParseMessages, a received frame (a
   broadcast ISO request for the address claim from 50, answered by both devices), SendMsg and SendFrames ---------- *)
Definition ex_cold : rnode :=
  cold_node true 2 5000 40 5 no_lists [mk_dev true 22 13835058055282163713 [129029]; mk_dev true 23 13835058055282163714 []] [[127250]; []]
    (ex_cfg (Some [129029]) ex_prod ex_conf).
Definition tx_ids (evs:list (list event)) : list (list Z) :=
  map (flat_map (fun e => match e with EvTx id _ _ true => [id] | _ => [] end)) evs.
Definition ex_reach_ops : list xop :=
  [XApi (ASendProd 0);
   XBase RPoll; XBase (RBase (OTick 1)); XBase RPoll; XBase (RBase (OTick 201)); XBase RPoll; XBase (RBase (OTick 251)); XBase RPoll;
   XBase (RRx {| r_id := 418053938; r_len := 3; r_buf := [0; 238; 0; 255; 255; 255; 255; 255] |}); XBase RPoll;
   XApi (ASetInstances 1 1 2 3);
   XBase (RBase (OSend 0 {| m_pri := 6; m_pgn := 127250; m_src := 0; m_dst := 255; m_data := [1; 2; 3; 4; 5; 6; 7; 8]; m_tp := false |}));
   XBase (RBase OFlush)].

Lemma ex_reach_history : c07_history gf_lib 2 5 40 ex_cold ex_reach_ops.
Proof.
  destruct (cold_node_inv true 2 5000 40 5 no_lists [mk_dev true 22 13835058055282163713 [129029]; mk_dev true 23 13835058055282163714 []]
              [[127250]; []] (ex_cfg (Some [129029]) ex_prod ex_conf)) as (HW & Ho & HQ);
    [reflexivity | repeat constructor; unfold dev_ok; simpl; lia | lia |].
  refine (conj gf_lib_ok (conj HW (conj Ho (conj HQ (conj _ _))))); [|left; lia].
  unfold ex_reach_ops. repeat (constructor; try (simpl; unfold u8_ok, byte_ok; lia)).
Qed.
Print Assumptions ex_reach_history.

(* the reached state: both devices on the bus at 22 / 23, accepting driver, empty queue: the local premises of the answer statement hold
   for device 1 (and 0), and 418053938 is the identifier of a request (59904) from 50 to everybody *)
Example C08_reachable_nonvacuous :
  let r := fst (xrun gf_lib ex_cold ex_reach_ops) in
  c07_history gf_lib 2 5 40 ex_cold ex_reach_ops /\
  on_bus (rn r) 1 /\ on_bus (rn r) 0 /\ driver_accepts (rn r) /\ protocol_pgns_single (n_pgn (rn r)) /\ info_fits (r_cfg r) /\
  config_info_present (r_cfg r) 126998 /\ handler_accepts (r_cfg r) 129029 = true /\ handler_accepts (r_cfg r) 127250 = false /\
  can_id_to_n2k 418053938 = (6, 59904, 50, 255) /\
  map d_src (n_devs (rn r)) = [22; 23] /\ d_name (get_dev (rn r) 1) <> 13835058055282163714 /\
  tx_ids (snd (xrun gf_lib ex_cold ex_reach_ops)) =
    [[]; []; []; []; []; [to_can_id 6 60928 22 255; to_can_id 6 60928 23 255]; []; repeat (to_can_id 6 126996 22 255) 20; [];
     [to_can_id 6 60928 22 255; to_can_id 6 60928 23 255]; []; [to_can_id 6 127250 22 255]; []].
Proof.
  cbv zeta. split; [exact ex_reach_history|].
  unfold on_bus, driver_accepts, protocol_pgns_single, info_fits, config_info_present, ring_wf.
  repeat match goal with |- _ /\ _ => split end;
    try (vm_compute; first [reflexivity | discriminate | (left; reflexivity) | (right; reflexivity)]).
  all: apply Nat.leb_le; vm_compute; reflexivity.
Qed.
Print Assumptions C08_reachable_nonvacuous.

(* the theorem applied to this history: the addressed requests to device 1 in the reached state *)
Example C08_reachable_instance :
  let r := fst (xrun gf_lib ex_cold ex_reach_ops) in
  positive_answer r 50 126996 1 (respond_iso_request r 50 true 126996 1) /\
  positive_answer r 50 126998 1 (respond_iso_request r 50 true 126998 1) /\
  snd (respond_iso_request r 50 true 129029 1) = [EvNote 1129029] /\
  (exists ans, snd (respond_iso_request r 50 true 127250 1) = pending_flush (rn r) ++ ans /\
               single_frame ans 6 59392 (d_src (get_dev (rn r) 1)) 50 (ref_nak 127250)).
Proof.
  pose proof C08_reachable_nonvacuous as NV. cbv zeta in NV. destruct NV as (H & B1 & _ & D & P & F & C & HA & HN & _).
  pose proof (C08_addressed_answered_reachable gf_lib 2%nat 5%nat 40 ex_cold ex_reach_ops H 50) as T.
  cbv zeta. cbv zeta in T. set (r := fst (xrun gf_lib ex_cold ex_reach_ops)) in *. clearbody r.
  assert (T' : forall p, 0 <= p < 2 ^ 24 -> addressed_answer r 50 p 1) by (intros p Hp; apply T; auto; lia).
  clear T. unfold addressed_answer in T'. cbv zeta in T'.
  destruct (T' 126996 ltac:(lia)) as (A1 & _ & _). destruct (T' 126998 ltac:(lia)) as (A2 & _ & _).
  destruct (T' 129029 ltac:(lia)) as (_ & A3 & _). destruct (T' 127250 ltac:(lia)) as (_ & _ & A4).
  split; [|split; [|split]].
  - apply A1; [reflexivity|]. unfold config_info_present. intros E; discriminate E.
  - apply A2; [reflexivity|exact C].
  - apply A3; [reflexivity|exact HA].
  - destruct (A4 eq_refl HN) as (ans & E1 & _ & E2). exists ans; auto.
Qed.
Print Assumptions C08_reachable_instance.
