(* C11 - frames queued under driver back-pressure leave in order, once, with none lost.  Statements fixed in Spec/SendSpec.v;
   run_refines and no_loss_no_dup are stated in Proofs/QueueProofs.v over operation lists. *)
From Coq Require Import ZArith List.
From N2kV Require Import Model.NodeDefs Spec.SendSpec Proofs.QueueProofs.
Import ListNotations.
Local Open Scope Z_scope.

Theorem C11_queue_refines_fifo : queue_refines_fifo_stmt.  Proof. exact queue_refines_fifo. Qed.
Print Assumptions C11_queue_refines_fifo.
Theorem C11_queue_init : queue_init_stmt.  Proof. exact queue_init. Qed.
Print Assumptions C11_queue_init.
Check run_refines.
Print Assumptions run_refines.
Check no_loss_no_dup.
Print Assumptions no_loss_no_dup.

(* non-vacuity: a ring of 3 with a refusing driver holds two frames, refuses the third, then drains in order *)
Example C11_nonvacuous :
  let q0 := sring_new 3 in
  let '(q1, _, _, ok1) := send_frame q0 [false] 1 8 [1;1;1;1;1;1;1;1] true in
  let '(q2, _, _, ok2) := send_frame q1 [false] 2 8 [2;2;2;2;2;2;2;2] true in
  let '(q3, _, _, ok3) := send_frame q2 [false] 3 8 [3;3;3;3;3;3;3;3] true in
  let '(q4, _, ev, ok4) := flush q3 [] in
  (ok1, ok2, ok3, ok4) = (true, true, false, true) /\ map (fun e => match e with EvTx id _ _ _ => id | _ => 0 end) ev = [1; 2] /\ ring_contents q4 = [].
Proof. vm_compute. repeat split. Qed.
Print Assumptions C11_nonvacuous.

(* ================= C11 at node level (Spec/NodeQueueSpec.v, Proofs/NodeQueueProofsA-E.v) =================
   In EVERY history of node operations (xrun: receives, polls, application sends, timers, ISO-TP, address claim, ISO requests, group
   functions, heartbeat, the public calls) the node drives the CAN driver exactly like a FIFO would: each step is a run of SendFrames /
   SendFrame calls on the ring, its EvTx events are the driver calls of that run; hence (through run_refines' step lemma) the driver
   calls of the whole history are those of the list FIFO.  The only operation that is not such a run is the environment's OAccept. *)
From N2kV Require Import Model.NodeRxDefs Model.GroupFnDefs Model.ApiDefs Model.PgnClass Spec.NodeQueueSpec
  Proofs.NodeQueueProofsD Proofs.NodeQueueProofsE.

Theorem C11_gf_instances_qtrace : gf_instances_qtrace_stmt.  Proof. exact gf_instances_qtrace. Qed.
Print Assumptions C11_gf_instances_qtrace.
Theorem C11_node_step_qtrace : node_step_qtrace_stmt.  Proof. exact node_step_qtrace. Qed.
Print Assumptions C11_node_step_qtrace.
Theorem C11_node_step_accept : node_step_accept_stmt.  Proof. exact node_step_accept. Qed.
Print Assumptions C11_node_step_accept.
Theorem C11_node_step_accept_refuted : node_step_accept_refuted_stmt.  Proof. exact node_step_accept_refuted. Qed.
Print Assumptions C11_node_step_accept_refuted.
Theorem C11_node_run_qtrace : node_run_qtrace_stmt.  Proof. exact node_run_qtrace. Qed.
Print Assumptions C11_node_run_qtrace.
Theorem C11_node_run_qtrace_noaccept : node_run_qtrace_noaccept_stmt.  Proof. exact node_run_qtrace_noaccept. Qed.
Print Assumptions C11_node_run_qtrace_noaccept.
Theorem C11_node_run_fifo : node_run_fifo_stmt.  Proof. exact node_run_fifo. Qed.
Print Assumptions C11_node_run_fifo.
Theorem C11_node_no_loss_no_dup : node_no_loss_no_dup_stmt.  Proof. exact node_no_loss_no_dup. Qed.
Print Assumptions C11_node_no_loss_no_dup.
Theorem C11_node_retry : node_retry_stmt.  Proof. exact node_retry. Qed.
Print Assumptions C11_node_retry.

(* the node as shipped (the library's group function handlers): the hypothesis on gf is discharged *)
Theorem C11_node_run_fifo_lib :
  forall r ops r' evs, ring_wf (n_q (rn r)) -> xrun gf_lib r ops = (r', evs) ->
    ring_wf (n_q (rn r')) /\ q_max (n_q (rn r')) = q_max (n_q (rn r)) /\
    exists eops outs,
      el_run (q_max (n_q (rn r)) - 1) (ring_contents (n_q (rn r))) (n_drv (rn r)) eops = (ring_contents (n_q (rn r')), n_drv (rn r'), outs) /\
      tx_events (concat evs) = concat (map fst outs) /\ Forall eop_len_ok eops /\ scripts_of eops = accepts_of ops.
Proof. exact (node_run_fifo gf_lib (proj2 gf_instances_qtrace)). Qed.
Print Assumptions C11_node_run_fifo_lib.
Theorem C11_node_retry_lib :
  forall r ops r' evs, ring_wf (n_q (rn r)) -> xrun gf_lib r ops = (r', evs) -> retry_ok (tx_events (concat evs)).
Proof. exact (node_retry gf_lib (proj2 gf_instances_qtrace)). Qed.
Print Assumptions C11_node_retry_lib.

(* non-vacuity: two devices (addresses 30, 31), a ring of 3 (capacity 2), cold start.  Three polls open the node (the two address
   claims go out), the claim windows pass.  Then the driver refuses four calls, accepts one, refuses one: the first application send
   is refused and queued, the second finds the head refused again and is queued behind it, the third (a fast packet) finds the queue
   full and fails, the poll's SendFrames is refused once more - always for the SAME frame -, SendProductInformation flushes the two
   queued frames in order (one more refusal in between) before its own three frames.  Later calls (SendHeartbeat(iDev), SetMode,
   Restart, SendFrames) and, after the new claim windows, a final refused send that stays queued. *)
Definition c11_cfg : rcfg :=
  {| c_only_known := false; c_iso_handler := None; c_prodinfo := repeat 65 20%nat; c_confinfo := [3;1;65;2;1;2;1]; c_hb_on := false;
     c_inst1 := [65]; c_inst2 := []; c_manuf := []; c_inst_changed := false |}.
Definition c11_node : rnode := cold_node true 1 5000 3 5 no_lists [mk_dev true 30 1001 []; mk_dev true 31 1002 []] [[]; []] c11_cfg.
Definition c11_m1 (b:Z) : msg := {| m_pri := 2; m_pgn := 127250; m_src := 0; m_dst := 255; m_data := [b;1;2;3;4;5;6;7]; m_tp := false |}.
Definition c11_m2 : msg := {| m_pri := 3; m_pgn := 129029; m_src := 0; m_dst := 255; m_data := [1;2;3;4;5;6;7;8;9;10;11;12;13]; m_tp := false |}.
Definition c11_ops : list xop :=
  [ XBase RPoll; XBase (RBase (OTick 250)); XBase RPoll; XBase (RBase (OTick 300)); XBase RPoll; XBase (RBase (OTick 300)); XBase RPoll;
    XBase (RBase (OAccept [false; false; false; false; true; false]));
    XBase (RBase (OSend 0 (c11_m1 10))); XBase (RBase (OSend 1 (c11_m1 11))); XBase (RBase (OSend 0 c11_m2));
    XBase RPoll;
    XApi (ASendProd 0);
    XBase (RBase (OAccept []));
    XApi (ASendHeartbeatDev 1); XApi (ASetMode 1 40); XApi ARestart;
    XBase (RBase OFlush);
    XBase (RBase (OTick 300)); XBase (RBase (OAccept [false])); XBase (RBase (OSend 1 (c11_m1 13))) ].
Definition c11_show (e:event) : Z * bool := match e with EvTx id _ _ a => (id, a) | _ => (0, false) end.
Definition c11_results (ev:list event) : list bool := flat_map (fun e => match e with EvResult b => [b] | _ => [] end) ev.
Example C11_node_nonvacuous :
  let '(r', evs) := xrun gf_lib c11_node c11_ops in
  (2 <=? q_max (n_q (rn c11_node))) = true /\ ring_contents (n_q (rn c11_node)) = [] /\
  map c11_show (tx_events (concat evs)) =
    [ (418316062, true); (418316063, true);                                         (* the address claims when the node opens *)
      (166793758, false); (166793758, false); (166793758, false); (166793758, false); (* first send refused; retried by sends 2, 3 and the poll *)
      (166793758, true); (166793759, false); (166793759, true);                     (* SendProductInformation flushes the queue in order *)
      (435164190, true); (435164190, true); (435164190, true);                      (* ... then its three fast-packet frames *)
      (502272287, true);                                                            (* SendHeartbeat(1) *)
      (418316072, true); (418316073, true);                                         (* Restart after SetMode(.., 40): claims from 40, 41 *)
      (166793769, false) ] /\                                                       (* the last send, refused and queued *)
  c11_results (concat evs) = [true; true; false; true] /\
  map f_id (ring_contents (n_q (rn r'))) = [166793769] /\
  accepts_of c11_ops = [[false; false; false; false; true; false]; []; [false]].
Proof. vm_compute. repeat split. Qed.
Print Assumptions C11_node_nonvacuous.
