(* C11 - frames queued under driver back-pressure leave in order, once, with none lost.  Statements fixed in Spec/SendSpec.v;
   run_refines and no_loss_no_dup are stated in Proofs/QueueProofs.v over operation lists. *)
From Coq Require Import ZArith List.
From N2kV Require Import Model.NodeDefs Spec.SendSpec Proofs.QueueProofs.
Import ListNotations.
Local Open Scope Z_scope.

Theorem C11_queue_refines_fifo : queue_refines_fifo_stmt.  Proof. exact queue_refines_fifo. Qed.
Print Assumptions C11_queue_refines_fifo.
Theorem C11_queue_init : queue_init_stmt.  Proof. exact queue_init. Qed.
Print Assumptions C11_queue_init.
Check run_refines.
Print Assumptions run_refines.
Check no_loss_no_dup.
Print Assumptions no_loss_no_dup.

(* non-vacuity: a ring of 3 with a refusing driver holds two frames, refuses the third, then drains in order *)
Example C11_nonvacuous :
  let q0 := sring_new 3 in
  let '(q1, _, _, ok1) := send_frame q0 [false] 1 8 [1;1;1;1;1;1;1;1] true in
  let '(q2, _, _, ok2) := send_frame q1 [false] 2 8 [2;2;2;2;2;2;2;2] true in
  let '(q3, _, _, ok3) := send_frame q2 [false] 3 8 [3;3;3;3;3;3;3;3] true in
  let '(q4, _, ev, ok4) := flush q3 [] in
  (ok1, ok2, ok3, ok4) = (true, true, false, true) /\ map (fun e => match e with EvTx id _ _ _ => id | _ => 0 end) ev = [1; 2] /\ ring_contents q4 = [].
Proof. vm_compute. repeat split. Qed.
Print Assumptions C11_nonvacuous.
