(* C11 placeholder until Proofs/QueueProofs.v exists *)
From N2kV Require Import Model.NodeDefs Spec.SendSpec.
