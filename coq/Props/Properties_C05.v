(* C05 - every PGN setter/parser pair round-trips all field values.
   Generic theorems (Spec/MsgSpec.v, proved in Proofs/MsgProofs.v) over the field-level IR, instantiated on the IR terms that
   tools/cxx2coq.py regenerates from the C++ on every run (Gen/GenMessages.v) through the generated boolean obligations of
   Gen/GenObligations.v (one rt_<setter>__<parser> per pair and alias, one guard_<parser> per parser, closed by vm_compute).
   Pairs outside the shape the generic theorem covers (conditional fields, variable length strings, repeated records) are listed in
   GenObligations.v and in the evidence; they are tied by the correspondence and judged by the oracle only. *)
From Coq Require Import ZArith List Bool.
From N2kV Require Import Model.SoftFloat Model.NumDefs Model.MsgIR Model.MsgExec Model.MsgAppendDefs Spec.NumSpec Spec.MsgSpec Proofs.MsgProofs
                         Spec.MsgAppendSpec Proofs.MsgAppendProofs Gen.GenMessages Gen.GenObligations.
Import ListNotations.
Local Open Scope Z_scope.

Theorem C05_roundtrip_sound : roundtrip_sound_stmt.  Proof. exact roundtrip_sound. Qed.
Print Assumptions C05_roundtrip_sound.
Theorem C05_guard_sound : guard_sound_stmt.  Proof. exact guard_sound. Qed.
Print Assumptions C05_guard_sound.
Theorem C05_guard_weak_sound : guard_weak_sound_stmt.  Proof. exact guard_weak_sound. Qed.
Print Assumptions C05_guard_weak_sound.
Theorem C05_locality : locality_stmt.  Proof. exact locality. Qed.
Print Assumptions C05_locality.
Theorem C05_scaled_rt_spec : scaled_rt_spec_stmt.  Proof. exact scaled_rt_spec. Qed.
Print Assumptions C05_scaled_rt_spec.

(* every generated pair (and alias) whose obligation is stated: for all arguments in range the parser accepts the setter's message -
   whatever bytes follow the payload - and returns, for every listed (output, argument), the argument itself (integer, enumeration,
   flag) or the decoding of the code the setter stored (scaled fields: see C05_scaled_rt_spec and C06) *)
Theorem C05_all_pairs_roundtrip :
  forall s p gamma m, In (s, p, gamma, m) rt_pairs ->
  exists descs, rt_descs s p gamma m = Some descs /\
  forall sargs pargs garbage, in_range gamma sargs ->
  exists msg, exec_set s sargs = Some msg /\
    let r := exec_parse p pargs (with_garbage msg garbage) in
    r_ret r = true /\ r_ub r = false /\ r_unsup r = false /\
    forall j a d, In (j, a, d) descs -> exists v, nth_error sargs a = Some v /\ out_of r j = Some (expected d v).
Proof.
  intros s p gamma m Hin.
  assert (C := rt_pairs_checked). rewrite forallb_forall in C. specialize (C _ Hin). cbn beta iota in C.
  unfold rt_check in C. destruct (rt_descs s p gamma m) as [descs|] eqn:E; [|discriminate].
  exists descs. split; [reflexivity|]. intros sargs pargs garbage IR. exact (roundtrip_sound s p gamma m descs E sargs pargs garbage IR).
Qed.
Print Assumptions C05_all_pairs_roundtrip.

(* every parser that starts with the PGN test refuses every other PGN *)
Theorem C05_all_parsers_refuse_other_pgns :
  forall p n, In (p, n) guarded_parsers -> forall args msg, m_pgn msg <> n -> exec_parse p args msg = refused.
Proof.
  intros p n Hin. assert (C := guarded_parsers_checked). rewrite forallb_forall in C. specialize (C _ Hin). cbn [fst snd] in C.
  exact (guard_sound p n C).
Qed.
Print Assumptions C05_all_parsers_refuse_other_pgns.

(* the parsers that preset outputs before the PGN test (ParseN2kPGN59904 and its alias) return false for every other PGN *)
Theorem C05_preset_parsers_refuse_other_pgns :
  forall p n, In (p, n) weak_guarded_parsers -> forall args msg, m_pgn msg <> n -> r_ret (exec_parse p args msg) = false.
Proof.
  intros p n Hin. assert (C := weak_guarded_parsers_checked). rewrite forallb_forall in C. specialize (C _ Hin). cbn [fst snd] in C.
  exact (guard_weak_sound p n C).
Qed.
Print Assumptions C05_preset_parsers_refuse_other_pgns.

(* repeated records, PGN 129540 (GNSS satellites in view): SetN2kPGN129540, then n <= 18 appends (hand-written model of
   AppendN2kPGN129540, tied to the C++ by the "A" cases of the correspondence), then the generated parsers: every append is accepted, the
   header parser reports n, the per-record parser returns record i for i < n (PRN and usage status exactly, scaled fields as the decoding
   of the stored code - see C05_scaled_rt_spec), refuses every index n <= i < 256, and a 19th append is refused and changes nothing.
   The record codecs of PGN 129285 and 130074 (Model/MsgAppendDefs.v) have no parser in the library to round-trip with: they are
   covered by the correspondence and by the oracle's own decoder only. *)
Theorem C05_satellites_roundtrip : satellites_roundtrip_stmt.  Proof. exact satellites_roundtrip. Qed.
Print Assumptions C05_satellites_roundtrip.

(* not vacuous: two records, run *)
Example C05_satellites_nonvacuous :
  let all := [VI 7; VI 1; VI 5; VD 4607182418800017408; VD 4611686018427387904; VD 4630826316843712512; VD 0; VI 2;
                           VI 31; VD na_double_bits; VD 0; VD 0; VD 4607182418800017408; VI 15] in
  match exec_set s_SetN2kPGN129540 (hdr_of all) with
  | Some m0 => let m := snd (appends m0 all 0 2) in
               (fst (appends m0 all 0 2), m_len m, out_of (sat_parse 1 m []) 0, out_of (sat_parse 1 m []) 1, r_ret (sat_parse 2 m [])) =
               ([true; true], 27, Some (VI 31), Some (VD na_double_bits), false)
  | None => False
  end.
Proof. vm_compute. reflexivity. Qed.
Print Assumptions C05_satellites_nonvacuous.

(* ---- the check is not vacuous: it accepts a matching pair and rejects each kind of mismatch the property is about *)
Definition p01 : Z := 4576918229304087675.   (* 0.01 *)
Definition p1 : Z := 4607182418800017408.     (* 1.0 *)
Definition ex_set : setter :=
  {| s_pgn := 1; s_prio := 6; s_dest := None; s_args := [TInt 8 false; TDbl];
     s_body := WSeq (WInt 1 (EArg 0)) (WDouble 2 false p01 (DArg 1)) |}.
Definition ex_parse (first second:pstmt) : parser :=
  {| p_guard := Some 1; p_body := PSeq (PSetIdx (EConst 0)) (PSeq first (PSeq second (PRet (EConst 1)))) |}.
Definition rd_int (out:iexpr) : pstmt := PSeq (PRead 0 (RInt 1 false 255)) (POutI 0 out).
Definition rd_dbl (s:bool) (p:Z) : pstmt := PSeq (PRead 1 (RDouble 2 s p na_double_bits)) (POutD 1 (DSlot 1)).
Definition ex_map : list (nat * nat) := [(0%nat, 0%nat); (1%nat, 1%nat)].
Definition ex_gamma : list argty := [TInt 8 false; TDbl].

Example C05_check_accepts_matching_pair : rt_check ex_set (ex_parse (rd_int (ESlot 0)) (rd_dbl false p01)) ex_gamma ex_map = true.
Proof. vm_compute. reflexivity. Qed.
Print Assumptions C05_check_accepts_matching_pair.
Example C05_check_rejects_mismatches :
  rt_check ex_set (ex_parse (rd_int (ESlot 0)) (rd_dbl false p1)) ex_gamma ex_map = false                       (* different resolution *)
  /\ rt_check ex_set (ex_parse (rd_int (ESlot 0)) (rd_dbl true p01)) ex_gamma ex_map = false                    (* different signedness *)
  /\ rt_check ex_set (ex_parse (rd_int (EAnd (ESlot 0) (EConst 15))) (rd_dbl false p01)) ex_gamma ex_map = false (* parser mask narrower than the field *)
  /\ rt_check ex_set (ex_parse (rd_int (ESlot 0)) (PSeq (PRead 1 (RInt 2 false 65535)) (POutI 1 (ESlot 1)))) ex_gamma ex_map = false  (* scaled written, plain read *)
  /\ rt_check ex_set (ex_parse (rd_dbl false p01) (rd_int (ESlot 0))) ex_gamma ex_map = false                   (* different order *)
  /\ rt_check ex_set (ex_parse (rd_int (EAnd (ESlot 0) (EConst 15))) (rd_dbl false p01)) [TInt 4 false; TDbl] ex_map = false.  (* a narrower assumed range cannot hide bits the setter writes *)
Proof. vm_compute. repeat split; reflexivity. Qed.
Print Assumptions C05_check_rejects_mismatches.

(* a generated pair, run: PGN 127245 (rudder), position -0.1234 rad, instance 3, direction order 2, angle order "not available" *)
Example C05_nonvacuous :
  option_map (fun m => (m_pgn m, m_data m, r_ret (exec_parse p_ParseN2kPGN127245 [] m), out_of (exec_parse p_ParseN2kPGN127245 [] m) 1))
             (exec_set s_SetN2kPGN127245 [VD 13816928364622221043; VI 3; VI 2; VD na_double_bits])
  = Some (127245, [3; 250; 255; 127; 46; 251; 255; 255], true, Some (VI 3)).
Proof. vm_compute. reflexivity. Qed.
Print Assumptions C05_nonvacuous.

(* the bank status helpers of PGN 127501 (N2kSetStatusBinaryOnStatus / N2kGetStatusOnBinaryStatus / N2kResetBinaryStatus) *)
From N2kV Require Import Model.BinStatusDefs Spec.BinStatusSpec Proofs.BinStatusProofs.
Theorem C05_bank_status_set_get : bs_set_get_stmt.  Proof. exact bs_set_get. Qed.
Print Assumptions C05_bank_status_set_get.
Theorem C05_bank_status_index : bs_index_stmt.  Proof. exact bs_index. Qed.
Print Assumptions C05_bank_status_index.
Theorem C05_bank_status_reset : bs_reset_stmt.  Proof. exact bs_reset_ok. Qed.
Print Assumptions C05_bank_status_reset.
Example C05_bank_status_nonvacuous :
  bs_set 0xFFFFFFFFFFFFFFFF 1 3 = 0xFFFFFFFFFFFFFFDF /\ bs_get 0xFFFFFFFFFFFFFFDF 3 = 1 /\ bs_get 0xFFFFFFFFFFFFFFDF 4 = 3 /\ bs_set 5 2 29 = 5.
Proof. repeat split; vm_compute; reflexivity. Qed.
Print Assumptions C05_bank_status_nonvacuous.
