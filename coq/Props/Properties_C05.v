(* C05 - every PGN setter/parser pair round-trips all field values.  (stage 1: the generated model runs; theorems follow) *)
From Coq Require Import ZArith List.
From N2kV Require Import Model.MsgIR Model.MsgExec Gen.GenMessages.
Import ListNotations.
Local Open Scope Z_scope.

Example C05_model_runs : option_map m_len (exec_set s_SetN2kPGN127251 [VI 7; VD 0]) = Some 8.
Proof. vm_compute. reflexivity. Qed.
Print Assumptions C05_model_runs.
