(* C20 - ring buffers behave as bounded FIFO / priority FIFO queues.  Statements fixed in Spec/RingSpec.v. *)
From Coq Require Import ZArith List.
From N2kV Require Import Base.ListAux Model.RingDefs Spec.RingSpec Proofs.RingProofs.
Import ListNotations.
Local Open Scope Z_scope.

Theorem C20_ring_refines_fifo : ring_refines_fifo_stmt.  Proof. exact ring_refines_fifo. Qed.
Print Assumptions C20_ring_refines_fifo.
Theorem C20_pring_refines : pring_refines_stmt.  Proof. exact pring_refines. Qed.
Print Assumptions C20_pring_refines.
Theorem C20_span_head_live : span_head_live_stmt.  Proof. exact span_head_live. Qed.
Print Assumptions C20_span_head_live.
Theorem C20_per_priority_fifo : per_priority_fifo_stmt.  Proof. exact per_priority_fifo. Qed.
Print Assumptions C20_per_priority_fifo.

(* non-vacuity: a concrete history with out-of-order release, refusal at span = size-1 and lowest-priority-first *)
Example C20_nonvacuous :
  snd (pring_run (pring_new 4 2) [PAdd 1 10; PAdd 0 20; PAdd 1 30; PAdd 0 40; PReadPri 1; PAdd 0 50; PReadAny; PReadAny; PAdd 0 60; PCount])
  = [QBool true; QBool true; QBool true; QBool false; QVal (Some 10); QBool true; QValPri (Some (20, 0)); QValPri (Some (50, 0)); QBool true; QNum 3].
Proof. vm_compute. reflexivity. Qed.
Print Assumptions C20_nonvacuous.
