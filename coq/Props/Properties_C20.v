(* C20 placeholder until Proofs/RingProofs.v exists *)
From N2kV Require Import Model.RingDefs Spec.RingSpec.
