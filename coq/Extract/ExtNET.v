From Coq Require Import ZArith List Extraction ExtrOcamlBasic.
From N2kV Require Import Base.ListAux Model.CanId Model.Sched Model.PgnClass Model.NodeDefs Model.NodeRxDefs Model.NetDefs.
Extraction Language OCaml.
Extraction "Extract/model_NET.ml" net_run net_step mk_net mk_fnode gf_none cold_node mk_dev sched_is_enabled part_addrs part_names
  Z.add Z.sub Z.mul Z.div Z.modulo Z.opp.
