From Coq Require Import ZArith List Extraction ExtrOcamlBasic.
From N2kV Require Import Base.Res Model.SeasmartDefs.
Extraction Language OCaml.
Extraction "Extract/model_C19.ml" import export Z.add Z.mul Z.div Z.modulo Z.opp.
