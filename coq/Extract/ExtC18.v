From Coq Require Import ZArith List Extraction ExtrOcamlBasic.
From N2kV Require Import Base.Res Base.ListAux Model.TextDefs Model.DevListDefs.
Extraction Language OCaml.
Extraction "Extract/model_C18.ml" init_state handle_msg read_reset by_source by_name count claim_name src_get deref Z.add Z.sub Z.mul Z.div Z.modulo Z.opp.
