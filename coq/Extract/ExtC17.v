From Coq Require Import ZArith List Extraction ExtrOcamlBasic.
From N2kV Require Import Base.Res Model.ActisenseDefs.
Extraction Language OCaml.
Extraction "Extract/model_C17.ml" encode init run run_ro Z.add Z.sub Z.mul Z.div Z.modulo Z.opp.
