From Coq Require Import ZArith List Extraction ExtrOcamlBasic.
From N2kV Require Import Base.Res Model.ActisenseDefs Model.ForwardDefs.
Extraction Language OCaml.
Extraction "Extract/model_C17.ml" encode init run run_ro forward_decision forwarded_bytes Z.add Z.sub Z.mul Z.div Z.modulo Z.opp.
