From Coq Require Import ZArith List Extraction ExtrOcamlBasic.
From N2kV Require Import Base.ListAux Model.CanId Model.Sched Model.PgnClass Model.NodeDefs Model.NodeRxDefs Model.GroupFnDefs Model.ConfInfoDefs Model.SetModeDefs Model.ProdInfoDefs Model.ApiDefs.
Extraction Language OCaml.
Extraction "Extract/model_NODE.ml" rrun xrun gf_none cold_node set_configuration_information set_mode_src set_product_information prelude mk_dev claim_end_of sched_disabled sched_is_enabled ss_disabled to_can_id can_id_to_n2k
  Z.add Z.sub Z.mul Z.div Z.modulo Z.opp.
