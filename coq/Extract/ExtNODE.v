From Coq Require Import ZArith List Extraction ExtrOcamlBasic.
From N2kV Require Import Base.ListAux Model.CanId Model.Sched Model.PgnClass Model.NodeDefs.
Extraction Language OCaml.
Extraction "Extract/model_NODE.ml" run opened_node mk_dev sched_disabled sched_is_enabled to_can_id can_id_to_n2k
  Z.add Z.sub Z.mul Z.div Z.modulo Z.opp.
