From Coq Require Import ZArith List Extraction ExtrOcamlBasic.
From N2kV Require Import Base.Res Model.TextDefs.
Extraction Language OCaml.
Extraction "Extract/model_C16.ml" add_str add_ais_str add_var_str add_var_str2 get_str_sized get_str_unsized get_var_str get_var_str3
  Z.add Z.sub Z.mul Z.div Z.modulo Z.opp.
