From Coq Require Import ZArith List Extraction ExtrOcamlBasic.
From N2kV Require Import Base.ListAux Model.RingDefs Spec.RingSpec.
Extraction Language OCaml.
Extraction "Extract/model_C20.ml" ring_new ring_run pring_new pring_run fifo_run pspec_run clamp_size clamp_pri Z.add Z.sub Z.mul Z.div Z.modulo Z.opp.
