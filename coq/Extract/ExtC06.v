From Coq Require Import ZArith List Extraction ExtrOcamlBasic.
From N2kV Require Import Model.SoftFloat Model.NumDefs.
Extraction Language OCaml.
Extraction "Extract/model_C06.ml" add_double add_double_u set_buf_double get_double add_float get_float add_int get_int decode b64 b32 is_nan na_double_bits Z.add Z.mul Z.div Z.modulo Z.opp.
