From Coq Require Import ZArith List Extraction ExtrOcamlBasic.
From N2kV Require Import Model.HandlerDefs Spec.HandlerSpec.
Extraction Language OCaml.
Extraction "Extract/model_C14.ml" hinit hstep hrun ainit astep expected Z.add Z.sub Z.mul Z.div Z.modulo Z.opp.
