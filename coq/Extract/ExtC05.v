From Coq Require Import ZArith List Extraction ExtrOcamlBasic.
From N2kV Require Import Model.SoftFloat Model.NumDefs Model.MsgIR Model.MsgExec Model.MsgAppendDefs Gen.GenMessages.
Extraction Language OCaml.
Extraction "Extract/model_C05.ml" append_model exec_set exec_parse ieval all_setters all_parsers all_outsigs untranslated_ids fn_names decode b64 is_nan Z.add Z.mul Z.div Z.modulo Z.opp.
