From Coq Require Import ZArith List Extraction ExtrOcamlBasic.
From N2kV Require Import Model.SoftFloat Model.NumDefs Model.MsgIR Model.MsgExec Model.MsgAppendDefs Model.BinStatusDefs Gen.GenMessages.
Extraction Language OCaml.
Extraction "Extract/model_C05.ml" append_model bs_get bs_set exec_set exec_parse ieval all_setters all_parsers all_outsigs untranslated_ids fn_names decode b64 is_nan Z.add Z.mul Z.div Z.modulo Z.opp.
