(* Executable model of the message forwarding decisions of tNMEA2000 (src/NMEA2000.cpp, src/NMEA2000.h):
     ForwardEnabled, ForwardSystemMessages, ForwardOnlyKnownMessages, ForwardOwnMessages   (bits of ForwardMode, N2kMode)
     ForwardMessage(const tN2kMsg&), ForwardMessage(const tN2kCANMsg&)
     HandleReceivedSystemMessage (the part that decides about forwarding) and its call site in ParseMessages
     the call site in SendMsg:  if ( ForwardOwnMessages() ) ForwardMessage(N2kMsg);
   with ForwardType==fwdt_Actisense, so that a forwarded message is written by tN2kMsg::SendInActisenseFormat ([encode] of
   Model/ActisenseDefs.v).  Definitions only - proofs live in Proofs/ForwardProofs.v.

   What the model takes as given (computed by the C++ from the frames, by the case generator for the model):
     is_own   = IsMySource(N2kMsg.Source): some device of this node has that source address (and it is <= 253)
     known    = N2kCANMsg.KnownMessage,  system = N2kCANMsg.SystemMessage   (CheckKnownMessage on the PGN; received messages only)
     received = true : the message was completed by SetN2kCANBufMsg inside ParseMessages (single frame, fast packet or ISO-TP)
                false: the message is an own one that SendMsg has taken to its send stage (node open, device index and source
                       address valid, PGN valid for the identifier, no address claim in progress)
   The message itself is the complete tN2kMsg as the forwarding code sees it: for received messages MsgTime is the reception
   time (N2kMillis() when the slot was initialised; the time of the last TP.DT frame for ISO-TP), the priority of ISO-TP
   messages is 7; for own messages Source has been forced to the device's address and Destination to 255 for PDU2 PGNs. *)
From Coq Require Import ZArith List Bool.
From N2kV Require Import Base.Res Model.ActisenseDefs.
Import ListNotations ResNotations.
Local Open Scope Z_scope.

(* tN2kMode *)
Definition M_ListenOnly : Z := 0.
Definition M_NodeOnly : Z := 1.
Definition M_ListenAndNode : Z := 2.
Definition M_SendOnly : Z := 3.
Definition M_ListenAndSend : Z := 4.

Record fwdcfg := { fw_enable : bool;     (* ForwardMode & FwdModeBit_EnableForward     (EnableForward) *)
                   fw_system : bool;     (* ForwardMode & FwdModeBit_SystemMessages    (SetForwardSystemMessages) *)
                   fw_known : bool;      (* ForwardMode & FwdModeBit_OnlyKnownMessages (SetForwardOnlyKnownMessages) *)
                   fw_own : bool;        (* ForwardMode & FwdModeBit_OwnMessages       (SetForwardOwnMessages) *)
                   fw_mode : Z }.        (* N2kMode *)

(* the constructor: ForwardMode=0; EnableForward(); SetForwardSystemMessages(); SetForwardOwnMessages(); N2kMode=N2km_ListenOnly *)
Definition default_cfg (mode:Z) : fwdcfg :=
  {| fw_enable := true; fw_system := true; fw_known := false; fw_own := true; fw_mode := mode |}.

(* ForwardEnabled() *)
Definition forward_enabled (c:fwdcfg) : bool := fw_enable c && negb (fw_mode c =? M_SendOnly).

(* ForwardMessage(const tN2kMsg &N2kMsg): true = the switch on ForwardType is reached
   if ( !ForwardEnabled() || ( !( ForwardOwnMessages() && IsMySource(N2kMsg.Source) ) && N2kMode==N2km_NodeOnly ) ) return; *)
Definition forward_msg (c:fwdcfg) (is_own:bool) : bool :=
  if negb (forward_enabled c) || (negb (fw_own c && is_own) && (fw_mode c =? M_NodeOnly)) then false else true.

(* ForwardMessage(const tN2kCANMsg &N2kCanMsg) *)
Definition forward_canmsg (c:fwdcfg) (is_own known:bool) : bool :=
  if known || negb (fw_known c) then forward_msg c is_own else false.

(* HandleReceivedSystemMessage: (its result, whether it forwarded the message) *)
Definition handle_system (c:fwdcfg) (is_own system:bool) : bool * bool :=
  if (fw_mode c =? M_SendOnly) || (fw_mode c =? M_ListenAndSend) then (false, false) else
  if system then (true, if fw_system c then forward_msg c is_own else false) else (false, false).

(* ParseMessages:  if ( !HandleReceivedSystemMessage(MsgIndex) ) ForwardMessage(N2kCANMsgBuf[MsgIndex]); *)
Definition received_decision (c:fwdcfg) (is_own known system:bool) : bool :=
  let r := handle_system c is_own system in
  if fst r then snd r else forward_canmsg c is_own known.

(* SendMsg:  if (N2kMode==N2km_ListenOnly) return false; ... if ( ForwardOwnMessages() ) ForwardMessage(N2kMsg); *)
Definition sent_decision (c:fwdcfg) (is_own:bool) : bool :=
  if fw_mode c =? M_ListenOnly then false else
  if fw_own c then forward_msg c is_own else false.

Definition forward_decision (c:fwdcfg) (is_own known system received:bool) : bool :=
  if received then received_decision c is_own known system else sent_decision c is_own.

(* the bytes handed to ForwardStream->write for one message (SendInActisenseFormat writes nothing for a message that is not
   IsValid(): PGN 0 or no payload) *)
Definition forwarded_bytes (c:fwdcfg) (is_own known system received:bool) (m:msg) : res (list Z) :=
  if forward_decision c is_own known system received then encode m else Ok [].

(* one forwarding opportunity: the flags and the message *)
Record fitem := { i_own : bool; i_known : bool; i_system : bool; i_received : bool; i_msg : msg }.

Definition item_bytes (c:fwdcfg) (i:fitem) : res (list Z) :=
  forwarded_bytes c (i_own i) (i_known i) (i_system i) (i_received i) (i_msg i).

(* everything written to the forward stream for a sequence of opportunities *)
Fixpoint stream_bytes (c:fwdcfg) (l:list fitem) : res (list Z) :=
  match l with
  | [] => Ok []
  | i :: r => a <- item_bytes c i ;; b <- stream_bytes c r ;; Ok (a ++ b)
  end.
