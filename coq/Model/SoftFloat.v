(* A small executable model of IEEE-754 binary floating point (round to nearest even), enough for the three
   operations N2kMsg.cpp applies to scaled fields: v/precision, x +/- 0.5 inside round(), code*precision, and the
   int64 -> double conversion.  Values are exact: FFin neg m e denotes (-1)^neg * m * 2^e with m >= 0.
   Nothing is proved about this file; it is validated bit-for-bit against the hardware by the C06 correspondence
   and is named in the trusted base. *)
From Coq Require Import ZArith Bool.
Local Open Scope Z_scope.

Inductive fval : Type := FNaN | FInf (neg:bool) | FFin (neg:bool) (m:Z) (e:Z).

Record fmt := { ebits : Z; mbits : Z }.
Definition b64 : fmt := {| ebits := 11; mbits := 52 |}.
Definition b32 : fmt := {| ebits := 8; mbits := 23 |}.
Definition bias (f:fmt) : Z := 2^(ebits f - 1) - 1.
Definition emin (f:fmt) : Z := 1 - bias f - mbits f.          (* exponent of the least significant subnormal bit *)
Definition emaxp (f:fmt) : Z := bias f + 1.                    (* values >= 2^emaxp overflow *)

Definition zshift (x s:Z) : Z := if 0 <=? s then x * 2^s else x / 2^(-s).

Definition decode (f:fmt) (bits:Z) : fval :=
  let sign := Z.odd (bits / 2^(ebits f + mbits f)) in
  let ex := (bits / 2^(mbits f)) mod 2^(ebits f) in
  let man := bits mod 2^(mbits f) in
  if ex =? 2^(ebits f) - 1 then (if man =? 0 then FInf sign else FNaN)
  else if ex =? 0 then FFin sign man (emin f)
  else FFin sign (man + 2^(mbits f)) (ex - bias f - mbits f).

(* n / 2^sh rounded to nearest, ties to even (sh > 0) *)
Definition rne_shift (n sh:Z) : Z :=
  let q := n / 2^sh in let r := n mod 2^sh in let h := 2^(sh-1) in
  if r <? h then q else if h <? r then q+1 else if Z.even q then q else q+1.

(* nearest representable value of the exact magnitude n * 2^k (n >= 0) *)
Definition round_fin (f:fmt) (neg:bool) (n k:Z) : fval :=
  if n =? 0 then FFin neg 0 (emin f) else
  let E := Z.log2 n + k in
  let t := Z.max (E - mbits f) (emin f) in
  let m := if t <=? k then n * 2^(k-t) else rne_shift n (t-k) in
  if m =? 0 then FFin neg 0 (emin f) else
  if emaxp f <=? Z.log2 m + t then FInf neg else FFin neg m t.

Definition encode (f:fmt) (x:fval) : Z :=
  let sgn (b:bool) := if b then 2^(ebits f + mbits f) else 0 in
  match x with
  | FNaN => (2^(ebits f) - 1) * 2^(mbits f) + 2^(mbits f - 1)
  | FInf s => sgn s + (2^(ebits f) - 1) * 2^(mbits f)
  | FFin s m e =>
    if m =? 0 then sgn s else
    let l := Z.log2 m in
    let E := l + e in
    if E <? 1 - bias f then sgn s + zshift m (e - emin f)
    else sgn s + (E + bias f) * 2^(mbits f) + (zshift m (mbits f - l) - 2^(mbits f))
  end.

Definition is_nan (x:fval) : bool := match x with FNaN => true | _ => false end.

Definition fdiv (f:fmt) (a b:fval) : fval :=
  match a, b with
  | FNaN, _ | _, FNaN => FNaN
  | FInf _, FInf _ => FNaN
  | FInf s, FFin t _ _ => FInf (xorb s t)
  | FFin s _ _, FInf t => FFin (xorb s t) 0 (emin f)
  | FFin s m e, FFin t n g =>
    if n =? 0 then (if m =? 0 then FNaN else FInf (xorb s t))
    else if m =? 0 then FFin (xorb s t) 0 (emin f)
    else
      let a := m * 2^128 in
      let q := a / n in
      let st := if a mod n =? 0 then 0 else 1 in
      round_fin f (xorb s t) (2*q + st) (e - g - 129)
  end.

Definition fmul (f:fmt) (a b:fval) : fval :=
  match a, b with
  | FNaN, _ | _, FNaN => FNaN
  | FInf s, FInf t => FInf (xorb s t)
  | FInf s, FFin t n _ => if n =? 0 then FNaN else FInf (xorb s t)
  | FFin s m _, FInf t => if m =? 0 then FNaN else FInf (xorb s t)
  | FFin s m e, FFin t n g => round_fin f (xorb s t) (m*n) (e+g)
  end.

Definition fadd (f:fmt) (a b:fval) : fval :=
  match a, b with
  | FNaN, _ | _, FNaN => FNaN
  | FInf s, FInf t => if Bool.eqb s t then FInf s else FNaN
  | FInf s, _ => FInf s
  | _, FInf t => FInf t
  | FFin s m e, FFin t n g =>
    let k := Z.min e g in
    let x := (if s then -1 else 1) * m * 2^(e-k) + (if t then -1 else 1) * n * 2^(g-k) in
    if x =? 0 then FFin (s && t) 0 (emin f)
    else round_fin f (x <? 0) (Z.abs x) k
  end.

Definition of_int (f:fmt) (z:Z) : fval := round_fin f (z <? 0) (Z.abs z) 0.
Definition fhalf (neg:bool) : fval := FFin neg 1 (-1).

(* comparisons of a float with an exact integer (false for NaN, as in C) *)
Definition signed_m (neg:bool) (m:Z) : Z := if neg then -m else m.
Definition cmp_fin_z (neg:bool) (m e z:Z) : comparison :=
  if 0 <=? e then Z.compare (signed_m neg m * 2^e) z else Z.compare (signed_m neg m) (z * 2^(-e)).
Definition fge_z (x:fval) (z:Z) : bool :=
  match x with FNaN => false | FInf s => negb s | FFin s m e => match cmp_fin_z s m e z with Lt => false | _ => true end end.
Definition flt_z (x:fval) (z:Z) : bool :=
  match x with FNaN => false | FInf s => s | FFin s m e => match cmp_fin_z s m e z with Lt => true | _ => false end end.

(* floor / ceil / truncation of a finite value, as exact integers *)
Definition ffloor (neg:bool) (m e:Z) : Z := if 0 <=? e then signed_m neg m * 2^e else signed_m neg m / 2^(-e).
Definition fceil (neg:bool) (m e:Z) : Z := if 0 <=? e then signed_m neg m * 2^e else - ((- signed_m neg m) / 2^(-e)).
Definition ftrunc (neg:bool) (m e:Z) : Z := if neg then fceil neg m e else ffloor neg m e.
