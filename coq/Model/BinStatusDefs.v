(* N2kMessages.cpp: N2kGetStatusOnBinaryStatus / N2kSetStatusBinaryOnStatus / N2kResetBinaryStatus - the 28 two-bit items of the bank status of
   PGN 127501 (tN2kBinaryStatus = uint64_t).  ItemIndex is a uint8_t counted from 1; "ItemIndex--" wraps 0 to 255, and an index above 27 is
   refused.  Definitions only. *)
From Coq Require Import ZArith Bool.
Local Open Scope Z_scope.

Definition bs_k (i:Z) : Z := (i - 1) mod 256.
Definition bs_get (b i:Z) : Z := if bs_k i >? 27 then 3 else Z.land (Z.shiftr b (2 * bs_k i)) 3.
Definition bs_set (b s i:Z) : Z :=
  if bs_k i >? 27 then b
  else Z.lor (Z.land b (Z.lxor (2^64 - 1) (Z.shiftl 3 (2 * bs_k i)))) (Z.shiftl s (2 * bs_k i)).
Definition bs_reset : Z := 2^64 - 1.
