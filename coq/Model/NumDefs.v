(* Executable model of the scaled numeric fields of tN2kMsg (src/N2kMsg.cpp): AddNByte[U]Double / SetBufNByte[U]Double,
   GetNByte[U]Double / GetBufNByte[U]Double, AddFloat/GetFloat, the integer Add*/Get* and the bounds rule of the getters.
   Doubles enter and leave as IEEE bit patterns (Z); codes are exact integers. *)
From Coq Require Import ZArith List Bool.
From N2kV Require Import Model.SoftFloat.
Import ListNotations.
Local Open Scope Z_scope.

(* ---------- little-endian bytes (memcpy of the low n bytes of a two's complement integer on a little-endian host) ---------- *)
Fixpoint le_bytes (n:nat) (v:Z) : list Z := match n with O => [] | S k => v mod 256 :: le_bytes k (v / 256) end.
Fixpoint of_le (l:list Z) : Z := match l with [] => 0 | b::r => b + 256 * of_le r end.
Definition to_signed (n:nat) (u:Z) : Z := if u <? 256^(Z.of_nat n) / 2 then u else u - 256^(Z.of_nat n).

(* ---------- code space of an n-byte field ---------- *)
Definition lo (n:nat) (s:bool) : Z := if s then - (256^(Z.of_nat n) / 2) else 0.
Definition orc (n:nat) (s:bool) : Z := (if s then 256^(Z.of_nat n) / 2 else 256^(Z.of_nat n)) - 2.     (* "out of range" *)
Definition nac (n:nat) (s:bool) : Z := orc n s + 1.                                                     (* "not available" *)

(* ---------- round() of N2kMsg.cpp: val >= 0 ? floor(val + 0.5) : ceil(val - 0.5), on doubles ---------- *)
Inductive rounded : Type := RInt (z:Z) | RNaN | RInf (neg:bool).
Definition own_round (x:fval) : rounded :=
  match x with
  | FNaN => RNaN
  | FInf s => RInf s
  | FFin s m e =>
    if fge_z x 0
    then match fadd b64 x (fhalf false) with FFin s' m' e' => RInt (ffloor s' m' e') | FInf t => RInf t | FNaN => RNaN end
    else match fadd b64 x (fhalf true) with FFin s' m' e' => RInt (fceil s' m' e') | FInf t => RInf t | FNaN => RNaN end
  end.

(* range test + cast of SetBufNByte[U]Double for n in 1..4 *)
Definition set_code (n:nat) (s:bool) (r:rounded) : Z :=
  match r with
  | RInt z => if (lo n s <=? z) && (z <? orc n s) then z else orc n s
  | _ => orc n s
  end.

(* SetBuf8ByteDouble (after the range-test repair): truncation, no rounding *)
Definition set_code8 (q:fval) : Z :=
  if fge_z q (- 2^63) && flt_z q (2^63)
  then match q with FFin s m e => ftrunc s m e | _ => orc 8 true end
  else orc 8 true.

Definition na_double_bits : Z := encode b64 (of_int b64 (-1000000000)).      (* N2kDoubleNA = -1e9 *)

(* AddNByte[U]Double(v, precision, UndefVal = N2kDoubleNA): the bytes appended *)
Definition add_double (n:nat) (s:bool) (vbits pbits:Z) : list Z :=
  let v := decode b64 vbits in
  let code :=
    if (negb (is_nan v)) && (vbits =? na_double_bits) then nac n s
    else if (n =? 8)%nat then set_code8 (fdiv b64 v (decode b64 pbits))
    else set_code n s (own_round (fdiv b64 v (decode b64 pbits))) in
  le_bytes n (code mod 256^(Z.of_nat n)).

(* ---------- getters: a field that does not fit inside [0, DataLen) returns the default and leaves Index unchanged ---------- *)
Definition fits (n:nat) (idx datalen:Z) : bool := (0 <=? idx) && (idx + Z.of_nat n <=? datalen).
Definition field (n:nat) (idx:Z) (data:list Z) : list Z := firstn n (skipn (Z.to_nat idx) data).

Definition get_code (n:nat) (s:bool) (idx:Z) (data:list Z) : Z :=
  let u := of_le (field n idx data) in if s then to_signed n u else u.

(* GetNByte[U]Double(precision, Index, def) -> (result bits, Index') *)
Definition get_double (n:nat) (s:bool) (pbits defbits idx datalen:Z) (data:list Z) : Z * Z :=
  if fits n idx datalen then
    let c := get_code n s idx data in
    (if c =? nac n s then defbits else encode b64 (fmul b64 (of_int b64 c) (decode b64 pbits)), idx + Z.of_nat n)
  else (defbits, idx).

(* ---------- float fields ---------- *)
Definition na_float_bits : Z := 3463342888.         (* bit pattern of N2kFloatNA = -1e9f : 0xCE6E6B28 *)
Definition add_float (vbits:Z) : list Z := le_bytes 4 (if vbits =? na_float_bits then 2147483647 else vbits).
Definition get_float (defbits idx datalen:Z) (data:list Z) : Z * Z :=
  if fits 4 idx datalen then
    let u := of_le (field 4 idx data) in
    ((if u =? 2147483647 then defbits else if is_nan (decode b32 u) then defbits else u), idx + 4)
  else (defbits, idx).

(* ---------- integer fields ---------- *)
Definition add_int (n:nat) (v:Z) : list Z := le_bytes n (v mod 256^(Z.of_nat n)).
(* GetByte has no default argument: 0xff *)
Definition get_int (n:nat) (s:bool) (def idx datalen:Z) (data:list Z) : Z * Z :=
  if fits n idx datalen then (get_code n s idx data, idx + Z.of_nat n) else (def, idx).

(* ---------- the free functions and the caller-chosen "undefined" value ----------
   SetBufNByte[U]Double(v, precision, index, buf) are public functions of N2kMsg.h; only the 8-byte one knows 'not available'
   (N2kIsNA(v): v == N2kDoubleNA), the others scale whatever they are given.  AddNByte[U]Double(v, precision, UndefVal) writes the
   reserved code when v == UndefVal (IEEE comparison: a NaN equals nothing, +0 equals -0) and calls SetBuf... otherwise. *)
Definition set_buf_double (n:nat) (s:bool) (vbits pbits:Z) : list Z :=
  let v := decode b64 vbits in
  let code :=
    if (n =? 8)%nat then (if vbits =? na_double_bits then nac 8 true else set_code8 (fdiv b64 v (decode b64 pbits)))
    else set_code n s (own_round (fdiv b64 v (decode b64 pbits))) in
  le_bytes n (code mod 256^(Z.of_nat n)).
Definition ieee_eq (abits bbits:Z) : bool :=
  negb (is_nan (decode b64 abits)) && negb (is_nan (decode b64 bbits)) && ((abits =? bbits) || ((abits mod 2^63 =? 0) && (bbits mod 2^63 =? 0))).
Definition add_double_u (n:nat) (s:bool) (vbits pbits ubits:Z) : list Z :=
  if ieee_eq vbits ubits then le_bytes n (nac n s mod 256^(Z.of_nat n)) else set_buf_double n s vbits pbits.
