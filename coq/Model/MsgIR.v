(* Field-level intermediate representation of the PGN setters and parsers (N2kMessages.cpp, N2kMaretron.cpp, the system PGNs of
   NMEA2000.cpp and the inline alias wrappers).  Terms of these types are GENERATED from the C++ source on every run by
   tools/cxx2coq.py into Gen/GenMessages.v; their meaning is given by the interpreter in Model/MsgExec.v.  No proofs here. *)
From Coq Require Import ZArith List Bool.
Import ListNotations.
Local Open Scope Z_scope.

(* values that travel between caller and message: integers (also enumerations, flags, bools), doubles and floats as IEEE bit
   patterns, text as the bytes of the C string without its terminator *)
Inductive argval : Type := VI (z:Z) | VD (bits:Z) | VF (bits:Z) | VT (t:list Z).

(* double-valued operands: an argument, a literal, the result of read number k, IEEE sums and differences of those *)
Inductive dexpr : Type := DArg (a:nat) | DConst (bits:Z) | DSlot (k:nat) | DAdd (a b:dexpr) | DSub (a b:dexpr).

(* integer expressions: exact integers with explicit C conversions (ECast width signed), as clang's AST shows them *)
Inductive iexpr : Type :=
| EArg (a:nat)                      (* integer argument number a of the function *)
| ESlot (k:nat)                     (* integer result of read number k *)
| EConst (z:Z)
| EPgn                              (* N2kMsg.PGN *)
| EDataLen                          (* N2kMsg.DataLen *)
| EAnd (a b:iexpr) | EOr (a b:iexpr) | EXor (a b:iexpr)
| EShl (a:iexpr) (k:Z) | EShr (a:iexpr) (k:Z)
| EAdd (a b:iexpr) | ESub (a b:iexpr) | EMul (a b:iexpr) | EDiv (a b:iexpr)      (* EDiv truncates toward zero, as C does *)
| ENot (a:iexpr)                    (* ~a *)
| ECast (w:Z) (s:bool) (a:iexpr)    (* conversion to a w-bit unsigned / two's complement type *)
| EBool (a:iexpr)                   (* a != 0 *)
| ELNot (a:iexpr)                   (* a == 0 *)
| EEq (a b:iexpr) | ENe (a b:iexpr) | ELt (a b:iexpr) | ELe (a b:iexpr)
| ECond (c a b:iexpr)
| EDLt (a b:dexpr) | EDLe (a b:dexpr) | EDEq (a b:dexpr)      (* comparisons of doubles (false when an operand is NaN) *)
| ED2I (w:Z) (s:bool) (d:dexpr).    (* double converted to a w-bit integer type: truncation; undefined outside the type's range *)

(* ---- setters ---- *)
Inductive wstmt : Type :=
| WSkip
| WSeq (a b:wstmt)
| WInt (n:nat) (e:iexpr)                          (* AddByte / Add2ByteInt / Add2ByteUInt / Add3ByteInt / Add4ByteUInt / AddUInt64 *)
| WDouble (n:nat) (s:bool) (pbits:Z) (d:dexpr)    (* AddNByte[U]Double(d, precision) with the default UndefVal *)
| WDoubleRaw (n:nat) (s:bool) (pbits:Z) (d:dexpr) (* SetBufNByte[U]Double(d, precision): no "not available" test *)
| WStr (len:Z) (a:nat)                            (* AddStr(text a, len): fixed length, filled with 0xff *)
| WAISStr (len:Z) (a:nat)                         (* AddAISStr(text a, len): upper case 6 bit alphabet, filled with '@' *)
| WVarStr (maxlen:Z) (a:nat)                      (* AddVarStr(text a, maxlen, ...) for ASCII text: length, type 1, characters *)
| WList (n:nat) (a:nat)                           (* for each element of the zero-terminated list a: an n-byte integer field *)
| WIf (c:iexpr) (t e:wstmt).

(* C types of the arguments (from clang): integers with width and signedness (bool = 1 bit, enumerations = the range of their
   enumeration values), doubles, text / lists *)
Inductive argty : Type := TInt (w:Z) (s:bool) | TDbl | TTxt.

Record setter : Type := { s_pgn : Z; s_prio : Z; s_dest : option iexpr; s_args : list argty; s_body : wstmt }.

(* ---- parsers ---- *)
Inductive rd : Type :=
| RInt (n:nat) (s:bool) (def:Z)                   (* GetByte / Get2ByteInt / Get2ByteUInt / Get3ByteUInt / Get4ByteUInt / GetUInt64 *)
| RDouble (n:nat) (s:bool) (pbits defbits:Z)      (* GetNByte[U]Double(precision, Index, def) *)
| RStr (size:iexpr) (len:Z) (nul:Z)               (* GetStr(size, buf, len, nulChar, Index): slots k (text), k+1 (result) *)
| RVarStr (size:iexpr) (nul:Z).                   (* GetVarStr(size, buf, nulChar, Index): slots k (text), k+1 (result), k+2 (size out) *)

Inductive pstmt : Type :=
| PSkip
| PSeq (a b:pstmt)
| PRead (k:nat) (r:rd)                            (* read at Index, advance Index, bind slot k *)
| PSetIdx (e:iexpr)                               (* Index = e *)
| PAddIdx (e:iexpr)                               (* Index += e  (Index++) *)
| POutI (j:nat) (e:iexpr)                         (* integer output j := e *)
| POutD (j:nat) (d:dexpr)                         (* double output j := d *)
| POutT (j:nat) (k:nat)                           (* text output j := text of slot k (nothing if that read left the buffer alone) *)
| PIf (c:iexpr) (t e:pstmt)
| PRet (e:iexpr).                                 (* return e != 0 *)

(* p_guard = Some n: the function starts with `if (N2kMsg.PGN != n) return false;` *)
Record parser : Type := { p_guard : option Z; p_body : pstmt }.

(* how the harness initialises an output before the call (what is printed when the parser does not assign it) *)
Inductive outsig : Type :=
| OI (sentinel:Z)        (* integer output preset to a constant *)
| OIO (a:nat)            (* in/out integer: preset to input argument a *)
| OD                     (* double preset to 12345.0 *)
| OT (size:iexpr).       (* text buffer of that many bytes preset to "~" *)

(* a message as the setters leave it and the parsers see it; data may be longer than datalen (bytes beyond the payload) *)
Record msg : Type := { m_pgn : Z; m_prio : Z; m_dest : Z; m_len : Z; m_data : list Z }.
