(* tNMEA2000::SetProductInformation(serial, product code, model id, software code, model version, load, N2k version, certification) for
   device 0 (the other devices report device 0's product information unless they have their own): each string is stored in a buffer of
   Max_N2k..._len+1 bytes by ClearSetCharBuf (cut to 32 characters) and PGN 126996 is built from the stored values: two 16 bit numbers,
   four fixed 32-byte text fields padded with 0xFF, certification level, load equivalency.  Definitions only. *)
From Coq Require Import ZArith List Bool.
From N2kV Require Import Base.ListAux Model.NodeDefs Model.NodeRxDefs Gen.GenConsts.
Import ListNotations.
Local Open Scope Z_scope.

Definition le2 (v:Z) : list Z := [v mod 256; (v / 256) mod 256].
Definition fixed_text (maxlen:Z) (s:list Z) : list Z :=
  let t := firstn (Z.to_nat maxlen) s in t ++ repeat 255 (Z.to_nat maxlen - length t).

Definition prod_payload (version code:Z) (model sw ver serial:list Z) (cert load:Z) : list Z :=
  le2 version ++ le2 code ++ fixed_text c_Max_N2kModelID_len model ++ fixed_text c_Max_N2kSwCode_len sw
  ++ fixed_text c_Max_N2kModelVersion_len ver ++ fixed_text c_Max_N2kModelSerialCode_len serial ++ [cert; load].

Definition set_product_information (c:rcfg) (serial:list Z) (code:Z) (model sw ver:list Z) (load version cert:Z) : rcfg :=
  {| c_only_known := c_only_known c; c_iso_handler := c_iso_handler c;
     c_prodinfo := prod_payload (if version =? 65535 then 2101 else version) code model sw ver serial (if cert =? 255 then 0 else cert) (if load =? 255 then 1 else load);
     c_confinfo := c_confinfo c; c_hb_on := c_hb_on c;
     c_inst1 := c_inst1 c; c_inst2 := c_inst2 c; c_manuf := c_manuf c; c_inst_changed := c_inst_changed c |}.
