(* Executable model of the public calls of tNMEA2000 an application may make at run time besides SendMsg / ParseMessages /
   SetHeartbeatIntervalAndOffset (which are operations of Model/NodeRxDefs.v):
     SendIsoAddressClaim(dest, iDev, delay)          SendProductInformation(iDev)          SendConfigurationInformation(iDev)
     SendTxPGNList(dest, iDev, UseTP)                SendRxPGNList(dest, iDev, UseTP)      SendHeartbeat(bool force)   SendHeartbeat(int iDev)
     SetDeviceInformationInstances(lo, up, sys, iDev) SetDeviceInformation(unique, function, class, manufacturer, industry, iDev)
     Restart()                                       SetMode(mode, source) after initialisation
     SetSingleFrameMessages / ExtendSingleFrameMessages / SetFastPacketMessages / ExtendFastPacketMessages (any time)
     ExtendTransmitMessages / ExtendReceiveMessages (any time)   SetHandleOnlyKnownMessages   SetProductInformation (both variants)
   Each is a composition of functions the node model already has (they are what the library's own handlers call), behind the guards
   the public entry points apply (IsValidDevice, "broadcast and device -1 means device 0").  A sending call made before the node is
   open reaches Open() through SendMsg (NodeDefs.send_gate leaves that to its callers): [open_first] stands at exactly the place where
   the C++ calls SendMsg.  [xop] / [xstep] / [xrun] extend the operations
   of NodeRxDefs by these calls without touching [rop], so every theorem about [rstep] / [rrun] stays as it is; Proofs/Api*.v lift the
   node-level theorems to [xrun].  Definitions only. *)
From Coq Require Import ZArith List Bool.
From N2kV Require Import Base.ListAux Model.CanId Model.Sched Model.PgnClass Model.NodeDefs Model.NodeRxDefs Model.GroupFnDefs Model.SetModeDefs Model.ProdInfoDefs Gen.GenTables Gen.GenConsts.
Import ListNotations.
Local Open Scope Z_scope.

Definition valid_dev (r:rnode) (i:Z) : bool := (0 <=? i) && (i <? dev_count (rn r)).
(* "if (Destination==0xff && DeviceIndex==-1) DeviceIndex=0;" *)
Definition bcast_dev (dst i:Z) : Z := if (dst =? 255) && (i =? -1) then 0 else i.

(* tDeviceInformation field setters on the 64-bit NAME *)
Definition nm_set_unique (nm v:Z) : Z := nm - nm mod 2^21 + v mod 2^21.
Definition nm_set_manuf (nm v:Z) : Z := nm - ((nm / 2^21) mod 2^11) * 2^21 + (v mod 2^11) * 2^21.
Definition nm_set_function (nm v:Z) : Z := nm - ((nm / 2^40) mod 256) * 2^40 + (v mod 256) * 2^40.
Definition nm_set_class (nm v:Z) : Z := nm - ((nm / 2^48) mod 256) * 2^48 + ((v mod 128) * 2) * 2^48.
(* (old & 0x0f) | (group << 4) | 0x80, stored into an unsigned char *)
Definition nm_set_industry (nm v:Z) : Z :=
  let b7 := (nm / 2^56) mod 256 in
  nm - b7 * 2^56 + (Z.lor (Z.lor (b7 mod 16) ((v * 16) mod 256)) 128) * 2^56.

(* SetDeviceInformation(unique, function, class, manufacturer, industry, iDev): 0xffffffff / 0xff / 0xffff = keep *)
Definition set_device_information (r:rnode) (i uniq func cls manuf ind:Z) : rnode :=
  if negb (valid_dev r i) then r else
  let nm0 := d_name (get_dev (rn r) i) in
  let nm1 := if manuf =? 65535 then nm0 else nm_set_manuf nm0 manuf in
  let nm2 := if uniq =? 4294967295 then nm1 else nm_set_unique nm1 uniq in
  let nm3 := if func =? 255 then nm2 else nm_set_function nm2 func in
  let nm4 := if cls =? 255 then nm3 else nm_set_class nm3 cls in
  let nm5 := if ind =? 255 then nm4 else nm_set_industry nm4 ind in
  set_name r i nm5.

(* SendMsg on a node that is not open yet: "if ( !(Open() && OpenState==os_Open) ) return false;" - the refusal itself is send_gate's *)
Definition open_first (r:rnode) : rnode * list event :=
  if n_open (rn r) =? 3 then (r, []) else let '(r1, ev, _) := open_step r in (r1, ev).
Definition osend (r:rnode) (f:rnode -> rnode * list event) : rnode * list event :=
  let '(r1, ev0) := open_first r in let '(r2, ev) := f r1 in (r2, ev0 ++ ev).

(* SendHeartbeat(force) for one device: outside its claim window the device recomputes its schedule (when forced or due) and sends a
   heartbeat; forced heartbeats carry sequence 0xff and leave the sequence counter alone.  On an open node with force = false this is
   NodeRxDefs.send_heartbeat_dev. *)
Definition send_heartbeat_api_dev (force:bool) (r:rnode) (i:Z) : rnode * list event :=
  let r := chk_dev r i in
  let '(n1, started) := claim_started (rn r) i in
  let r := with_rn r n1 in
  if started then (r, []) else
  let '(r, due) := if force then (r, true) else let '(rc, t1) := millis64 r in (rc, ss_is_time t1 (x_hb (get_devx rc i))) in
  if negb due then (r, []) else
  let x := get_devx r i in
  let '(r, hb') := if force && (ss_period (x_hb x) =? 0) then (r, ss_update_next 0 (r_sync r) (x_hb x))
                   else let '(rc, t) := millis64 r in (rc, ss_update_next t (r_sync rc) (x_hb x)) in
  let r1 := with_devx r i {| x_pend_claim := x_pend_claim x; x_pend_prod := x_pend_prod x; x_pend_conf := x_pend_conf x; x_hb := hb'; x_hb_seq := x_hb_seq x; x_rx := x_rx x |} in
  let '(r1o, ev0) := open_first r1 in
  let '(r2, ev, _) := rsend r1o (heartbeat_msg (dev_src r1o i) (ss_period hb') (if force then 255 else x_hb_seq x)) i in
  if force then (r2, ev0 ++ ev) else
  let x2 := get_devx r2 i in
  let sq := if x_hb_seq x2 + 1 >? 252 then 0 else x_hb_seq x2 + 1 in
  (with_devx r2 i {| x_pend_claim := x_pend_claim x2; x_pend_prod := x_pend_prod x2; x_pend_conf := x_pend_conf x2; x_hb := x_hb x2; x_hb_seq := sq; x_rx := x_rx x2 |}, ev0 ++ ev).
Fixpoint send_heartbeat_api (force:bool) (k:nat) (r:rnode) (i:Z) : rnode * list event :=
  match k with
  | O => (r, [])
  | S k' => let '(r1, ev1) := send_heartbeat_api_dev force r i in let '(r2, ev2) := send_heartbeat_api force k' r1 (i+1) in (r2, ev1 ++ ev2)
  end.

(* SetMode(mode, source) on a node whose device table exists: the mode, every device's address (source + i, wrapped as at
   initialisation) and search end are overwritten, nothing is announced, and the address-changed indication is cleared *)
Fixpoint set_mode_srcs (k:nat) (r:rnode) (src i:Z) : rnode :=
  match k with
  | O => r
  | S k' => set_mode_srcs k' (set_src r i (set_mode_src src i) true) src (i+1)
  end.
Definition set_mode_api (r:rnode) (mode src:Z) : rnode :=
  let r1 := set_mode_srcs (length (n_devs (rn r))) r src 0 in
  let n := rn r1 in
  with_rn r1 {| n_w64 := n_w64 n; n_mode := mode; n_open := n_open n; n_now := n_now n; n_pgn := n_pgn n; n_devs := n_devs n; n_q := n_q n; n_drv := n_drv n;
                n_addr_changed := false |}.

(* Set/Extend SingleFrame/FastPacket Messages: which = 0 (SingleFrameMessages[0]), 1 (SingleFrameMessages[1]), 2 (FastPacketMessages[0]),
   3 (FastPacketMessages[1]); the library keeps the pointer, the model the list *)
Definition set_pgn_list (r:rnode) (which:Z) (l:list Z) : rnode :=
  let n := rn r in let c := n_pgn n in
  let c' := if which =? 0 then {| sf0 := Some l; sf1 := sf1 c; fp0 := fp0 c; fp1 := fp1 c |}
            else if which =? 1 then {| sf0 := sf0 c; sf1 := Some l; fp0 := fp0 c; fp1 := fp1 c |}
            else if which =? 2 then {| sf0 := sf0 c; sf1 := sf1 c; fp0 := Some l; fp1 := fp1 c |}
            else if which =? 3 then {| sf0 := sf0 c; sf1 := sf1 c; fp0 := fp0 c; fp1 := Some l |}
            else c in
  with_rn r {| n_w64 := n_w64 n; n_mode := n_mode n; n_open := n_open n; n_now := n_now n; n_pgn := c'; n_devs := n_devs n; n_q := n_q n; n_drv := n_drv n;
               n_addr_changed := n_addr_changed n |}.

(* ExtendTransmitMessages(list, iDev) / ExtendReceiveMessages(list, iDev): the library keeps the pointer; the table of sequence counters
   (d_cells) that an earlier fast-packet send allocated keeps its size *)
Definition set_tx_list (r:rnode) (i:Z) (l:list Z) : rnode :=
  if negb (valid_dev r i) then r else
  let d := get_dev (rn r) i in
  with_rn r (upd_dev (rn r) i {| d_src := d_src d; d_name := d_name d; d_claim_end := d_claim_end d; d_claim_timer := d_claim_timer d; d_tx := l; d_cells := d_cells d;
                                 d_tp_msg := d_tp_msg d; d_next_dt_time := d_next_dt_time d; d_next_dt_seq := d_next_dt_seq d; d_has_pending := d_has_pending d |}).
Definition set_rx_list (r:rnode) (i:Z) (l:list Z) : rnode :=
  if negb (valid_dev r i) then r else
  let x := get_devx r i in
  with_devx r i {| x_pend_claim := x_pend_claim x; x_pend_prod := x_pend_prod x; x_pend_conf := x_pend_conf x; x_hb := x_hb x; x_hb_seq := x_hb_seq x; x_rx := l |}.
Definition with_cfg (r:rnode) (c:rcfg) : rnode :=
  {| rn := rn r; rx_dev := rx_dev r; r_slots := r_slots r; r_q := r_q r; r_cfg := c; r_open_sched := r_open_sched r; r_sync := r_sync r;
     r_devinfo_changed := r_devinfo_changed r; r_oob := r_oob r; r_clk := r_clk r |}.
(* SetHandleOnlyKnownMessages(b) *)
Definition set_only_known (r:rnode) (b:bool) : rnode :=
  let c := r_cfg r in
  with_cfg r {| c_only_known := b; c_iso_handler := c_iso_handler c; c_prodinfo := c_prodinfo c; c_confinfo := c_confinfo c; c_hb_on := c_hb_on c;
                c_inst1 := c_inst1 c; c_inst2 := c_inst2 c; c_manuf := c_manuf c; c_inst_changed := c_inst_changed c |}.

Inductive api : Type :=
| ASendClaim (dst idev delay:Z)
| ASendProd (idev:Z)
| ASendConf (idev:Z)
| ASendTxList (dst idev:Z) (tp:bool)
| ASendRxList (dst idev:Z) (tp:bool)
| ASendHeartbeatAll (force:bool)
| ASendHeartbeatDev (idev:Z)
| ASetInstances (idev lo up si:Z)
| ASetDeviceInformation (idev uniq func cls manuf ind:Z)
| ARestart
| ASetMode (mode src:Z)
| ASetPgnList (which:Z) (l:list Z)
| ASetTxList (idev:Z) (l:list Z)
| ASetRxList (idev:Z) (l:list Z)
| ASetOnlyKnown (b:bool)
| ASetProductInformation (serial:list Z) (code:Z) (model sw ver:list Z) (load version cert:Z).

Definition api_step (r:rnode) (a:api) : rnode * list event :=
  match a with
  | ASendClaim dst idev delay =>
    let i := bcast_dev dst idev in
    if negb (valid_dev r i) then (r, []) else
    if 0 <? delay then
      let x := get_devx r i in (set_pending r i (sched_from_now (w64 r) (now r) delay) (x_pend_prod x) (x_pend_conf x), [])
    else osend r (fun r => rsend_claim r dst i)
  | ASendProd idev => if valid_dev r idev then osend r (fun r => send_product_info r idev) else (r, [])
  | ASendConf idev => if valid_dev r idev then osend r (fun r => send_config_info_to r idev 255 false) else (r, [])
  | ASendTxList dst idev tp => let i := bcast_dev dst idev in if valid_dev r i then osend r (fun r => send_tx_list r i dst tp) else (r, [])
  | ASendRxList dst idev tp => let i := bcast_dev dst idev in if valid_dev r i then osend r (fun r => send_rx_list r i dst tp) else (r, [])
  | ASendHeartbeatAll force =>
    (* nothing before Open() has completed (fix in /repo: the schedules still refer to the absolute clock there) *)
    if negb (is_active_node (rn r)) || negb (n_open (rn r) =? 3) then (r, []) else send_heartbeat_api force (length (n_devs (rn r))) r 0
  | ASendHeartbeatDev idev =>
    (* SetHeartbeat(N2kMsg, Devices[iDev].HeartbeatScheduler.GetPeriod(), 0xff) is evaluated before SendMsg may open the node *)
    if is_active_node (rn r) && valid_dev r idev then
      let period := ss_period (x_hb (get_devx r idev)) in
      osend r (fun r1 => let r1 := chk_dev r1 idev in let '(r2, ev, _) := rsend r1 (heartbeat_msg (dev_src r1 idev) period 255) idev in (r2, ev))
    else (r, [])
  | ASetInstances idev lo up si => if valid_dev r idev then (set_instances r idev lo up si, []) else (r, [])
  | ASetDeviceInformation idev uniq func cls manuf ind => (set_device_information r idev uniq func cls manuf ind, [])
  | ARestart => start_claim_all (length (n_devs (rn r))) r 0
  | ASetMode mode src => (set_mode_api r mode src, [])
  | ASetPgnList which l => (set_pgn_list r which l, [])
  | ASetTxList idev l => (set_tx_list r idev l, [])
  | ASetRxList idev l => (set_rx_list r idev l, [])
  | ASetOnlyKnown b => (set_only_known r b, [])
  | ASetProductInformation serial code model sw ver load version cert =>
    (with_cfg r (set_product_information (r_cfg r) serial code model sw ver load version cert), [])
  end.

Inductive xop : Type :=
| XBase (o:rop)
| XApi (a:api).
Section WithGroupFunctions.
Variable gf : rnode -> slot -> rnode * list event.
Definition xstep (r:rnode) (o:xop) : rnode * list event :=
  match o with
  | XBase o' => rstep gf r o'
  | XApi a => api_step r a
  end.
Fixpoint xrun (r:rnode) (ops:list xop) : rnode * list (list event) :=
  match ops with
  | [] => (r, [])
  | o :: rest => let '(r1, ev) := xstep r o in let '(r2, evs) := xrun r1 rest in (r2, ev :: evs)
  end.
End WithGroupFunctions.
