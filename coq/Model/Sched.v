(* Timer primitives of src/N2kTimer.h: N2kIsTimeBefore, N2kHasElapsed, tN2kScheduler (32- and 64-bit builds), tN2kSyncScheduler.
   The clock is an input: [now] is the 64-bit millisecond clock N2kMillis64(); N2kMillis() is its low 32 bits. *)
From Coq Require Import ZArith Bool.
Local Open Scope Z_scope.

Definition M32 : Z := 2^32.
Definition M64 : Z := 2^64.
Definition IMAX : Z := 2^31 - 1.
Definition u32 (x:Z) : Z := x mod M32.
Definition u64 (x:Z) : Z := x mod M64.

Definition is_time_before (t1 t2:Z) : bool := u32 (t2 - t1) <? IMAX.
Definition has_elapsed (start el now32:Z) : bool := u32 (now32 - u32 (start + el)) <? IMAX.

(* tN2kScheduler: w64 = true for the build with N2kUse64bitSchedulerTime *)
Definition sched_disabled (w64:bool) : Z := if w64 then M64 - 1 else M32 - 1.
Definition sched_is_enabled (w64:bool) (s:Z) : bool := negb (s =? sched_disabled w64).
Definition sched_is_time (w64:bool) (now s:Z) : bool :=
  if w64 then s <? now
  else sched_is_enabled false s && (u32 (u32 now - s) <? IMAX).
Definition sched_from_now (w64:bool) (now add:Z) : Z :=
  if w64 then u64 (now + add)
  else let t := u32 (u32 now + add) in if t =? sched_disabled false then 0 else t.

(* tN2kSyncScheduler *)
Record ssched := { ss_next : Z; ss_offset : Z; ss_period : Z }.
Definition ss_disabled : Z := M64 - 1.
Definition ss_is_time (now:Z) (s:ssched) : bool := ss_next s <? now.
Definition ss_update_next (now sync:Z) (s:ssched) : ssched :=
  if (ss_period s) =? 0 then {| ss_next := ss_disabled; ss_offset := ss_offset s; ss_period := 0 |}
  else
  let base := u64 (ss_offset s + sync) in
  let nt := if base >? now then base
            else u64 (sync + ss_offset s + u64 (((now - base) / ss_period s + 1) * ss_period s)) in
  {| ss_next := nt; ss_offset := ss_offset s; ss_period := ss_period s |}.
