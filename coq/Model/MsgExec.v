(* Interpreter of the field-level IR (Model/MsgIR.v) over the numeric field primitives of Model/NumDefs.v.
   exec_set  : what a setter leaves in a fresh message;  exec_parse : what a parser returns and assigns.
   Text fields are modelled only as far as the setters/parsers need them: ASCII text, fixed-length fields (AddStr/GetStr), AIS
   strings and length-prefixed variable strings of type 1 (ASCII); everything else about text belongs to C16.
   No proofs here; the file is validated against the C++ by the C05 correspondence and used by Proofs/MsgProofs.v. *)
From Coq Require Import ZArith List Bool.
From N2kV Require Import Model.SoftFloat Model.NumDefs Model.MsgIR.
Import ListNotations.
Local Open Scope Z_scope.

Definition max_data_len : Z := 223.            (* tN2kMsg::MaxDataLen *)
Definition default_prio : Z := 6.              (* priority of a freshly constructed tN2kMsg *)
Definition default_dest : Z := 255.

(* ---------- environments ---------- *)
Record env : Type := { e_args : list argval; e_slots : list (nat * argval); e_pgn : Z; e_len : Z }.

Fixpoint lookup (k:nat) (l:list (nat * argval)) : option argval :=
  match l with [] => None | (j, v) :: r => if Nat.eqb j k then Some v else lookup k r end.

Definition arg_int (args:list argval) (a:nat) : Z := match nth_error args a with Some (VI z) => z | _ => 0 end.
Definition arg_dbl (args:list argval) (a:nat) : Z := match nth_error args a with Some (VD b) => b | _ => 0 end.
Definition arg_txt (args:list argval) (a:nat) : list Z := match nth_error args a with Some (VT t) => t | _ => [] end.
Definition slot_int (sl:list (nat * argval)) (k:nat) : Z := match lookup k sl with Some (VI z) => z | _ => 0 end.
Definition slot_dbl (sl:list (nat * argval)) (k:nat) : Z := match lookup k sl with Some (VD b) => b | _ => 0 end.

(* ---------- C conversions ---------- *)
Definition wrapz (w:Z) (s:bool) (v:Z) : Z :=
  let u := v mod 2^w in if s && (2^(w-1) <=? u) then u - 2^w else u.

Definition fneg (x:fval) : fval := match x with FNaN => FNaN | FInf s => FInf (negb s) | FFin s m e => FFin (negb s) m e end.

Fixpoint deval (r:env) (d:dexpr) : Z :=
  match d with
  | DArg a => arg_dbl (e_args r) a
  | DConst b => b
  | DSlot k => slot_dbl (e_slots r) k
  | DAdd a b => encode b64 (fadd b64 (decode b64 (deval r a)) (decode b64 (deval r b)))
  | DSub a b => encode b64 (fadd b64 (decode b64 (deval r a)) (fneg (decode b64 (deval r b))))
  end.

(* comparison of two doubles as exact values; None when one of them is NaN *)
Definition fcmp (a b:fval) : option comparison :=
  match a, b with
  | FNaN, _ | _, FNaN => None
  | FInf s, FInf t => Some (if Bool.eqb s t then Eq else if s then Lt else Gt)
  | FInf s, FFin _ _ _ => Some (if s then Lt else Gt)
  | FFin _ _ _, FInf t => Some (if t then Gt else Lt)
  | FFin s m e, FFin t n g =>
    let k := Z.min e g in Some (Z.compare (signed_m s m * 2^(e-k)) (signed_m t n * 2^(g-k)))
  end.
Definition dlt (x y:Z) : bool := match fcmp (decode b64 x) (decode b64 y) with Some Lt => true | _ => false end.
Definition dle (x y:Z) : bool := match fcmp (decode b64 x) (decode b64 y) with Some Lt | Some Eq => true | _ => false end.
Definition deq (x y:Z) : bool := match fcmp (decode b64 x) (decode b64 y) with Some Eq => true | _ => false end.

(* double -> integer: the truncated value, and whether it is representable in the target type (otherwise the C++ is undefined) *)
Definition d2i_val (bits:Z) : Z := match decode b64 bits with FFin sg m e => ftrunc sg m e | _ => 0 end.
Definition d2i_ok (w:Z) (s:bool) (bits:Z) : bool :=
  match decode b64 bits with
  | FFin sg m e => let t := ftrunc sg m e in
                   if s then (- 2^(w-1) <=? t) && (t <? 2^(w-1)) else (0 <=? t) && (t <? 2^w)
  | _ => false
  end.

Definition b2z (b:bool) : Z := if b then 1 else 0.

Fixpoint ieval (r:env) (e:iexpr) : Z :=
  match e with
  | EArg a => arg_int (e_args r) a
  | ESlot k => slot_int (e_slots r) k
  | EConst z => z
  | EPgn => e_pgn r
  | EDataLen => e_len r
  | EAnd a b => Z.land (ieval r a) (ieval r b)
  | EOr a b => Z.lor (ieval r a) (ieval r b)
  | EXor a b => Z.lxor (ieval r a) (ieval r b)
  | EShl a k => Z.shiftl (ieval r a) k
  | EShr a k => Z.shiftr (ieval r a) k
  | EAdd a b => ieval r a + ieval r b
  | ESub a b => ieval r a - ieval r b
  | EMul a b => ieval r a * ieval r b
  | EDiv a b => Z.quot (ieval r a) (ieval r b)
  | ENot a => Z.lnot (ieval r a)
  | ECast w s a => wrapz w s (ieval r a)
  | EBool a => b2z (negb (ieval r a =? 0))
  | ELNot a => b2z (ieval r a =? 0)
  | EEq a b => b2z (ieval r a =? ieval r b)
  | ENe a b => b2z (negb (ieval r a =? ieval r b))
  | ELt a b => b2z (ieval r a <? ieval r b)
  | ELe a b => b2z (ieval r a <=? ieval r b)
  | ECond c a b => if ieval r c =? 0 then ieval r b else ieval r a
  | EDLt a b => b2z (dlt (deval r a) (deval r b))
  | EDLe a b => b2z (dle (deval r a) (deval r b))
  | EDEq a b => b2z (deq (deval r a) (deval r b))
  | ED2I w s d => if d2i_ok w s (deval r d) then d2i_val (deval r d) else 0
  end.

(* does evaluating e perform an undefined conversion?  (only the branch of a conditional that is taken counts) *)
Fixpoint iub (r:env) (e:iexpr) : bool :=
  match e with
  | EArg _ | ESlot _ | EConst _ | EPgn | EDataLen | EDLt _ _ | EDLe _ _ | EDEq _ _ => false
  | EAnd a b | EOr a b | EXor a b | EAdd a b | ESub a b | EMul a b | EDiv a b | EEq a b | ENe a b | ELt a b | ELe a b => iub r a || iub r b
  | EShl a _ | EShr a _ | ENot a | ECast _ _ a | EBool a | ELNot a => iub r a
  | ECond c a b => iub r c || (if ieval r c =? 0 then iub r b else iub r a)
  | ED2I w s d => negb (d2i_ok w s (deval r d))
  end.

(* ---------- text fields (ASCII only) ---------- *)
Definition zlen {A} (l:list A) : Z := Z.of_nat (length l).
Definition ztake {A} (n:Z) (l:list A) : list A := firstn (Z.to_nat n) l.
Definition zrepeat (x:Z) (n:Z) : list Z := repeat x (Z.to_nat n).

(* AddStr(str, len): SetBufStr with fillChar 0xff *)
Definition add_str (len:Z) (t:list Z) : list Z := let h := ztake len t in h ++ zrepeat 255 (len - zlen h).

(* AddAISStr(str, len) into a payload that already holds cur bytes *)
Definition ais_char (c:Z) : Z :=
  let u := if (97 <=? c) && (c <=? 122) then c - 32 else c in
  if (32 <=? u) && (u <=? 95) then u else 63.
Definition add_ais_str (cur len:Z) (t:list Z) : list Z :=
  let room := Z.max 0 (max_data_len - cur) in
  let h := map ais_char (ztake (Z.min len room) t) in
  let rest := len - zlen h in
  let room' := max_data_len - (cur + zlen h) in
  h ++ zrepeat 64 (Z.min rest room').

(* AddVarStr(str, maxLen, ...) for text that needs no Unicode *)
Definition add_var_str (cur maxlen:Z) (t:list Z) : list Z :=
  let free := if cur <? max_data_len then max_data_len - cur else 0 in
  match t with
  | [] => if 2 <=? free then [2; 1] else if free =? 1 then [1] else []
  | _ => if free <=? 2 then (if 2 <=? free then [2; 1] else if free =? 1 then [1] else [])
         else let len := Z.min (Z.min (zlen t) maxlen) (free - 2) in [len + 2; 1] ++ ztake len t
  end.

Fixpoint until_nul (nul:Z) (l:list Z) : list Z :=
  match l with [] => [] | c :: r => if (c =? 0) || (c =? nul) then [] else c :: until_nul nul r end.

(* GetStr(size, buf, len, nulChar, Index) -> (text written to the buffer, if any; result; Index') *)
Definition get_str (size len nul idx datalen:Z) (data:list Z) : option (list Z) * bool * Z :=
  if size =? 0 then (None, true, idx + len)
  else if (0 <=? idx) && (idx + len <=? datalen)
       then (Some (until_nul nul (ztake (Z.min len (size - 1)) (skipn (Z.to_nat idx) data))), true, idx + len)
       else (Some [], false, idx).

(* GetVarStr(size, buf, nulChar, Index) -> (text, result, size out, Index', supported) ; Unicode strings (type 0) are not modelled *)
Definition get_var_str (size nul idx datalen:Z) (data:list Z) : option (list Z) * bool * Z * Z * bool :=
  let '(lenb, i1) := get_int 1%nat false 255 idx datalen data in
  let '(typb, i2) := get_int 1%nat false 255 i1 datalen data in
  if (lenb <=? 2) || (lenb =? 255) || (1 <? typb) || (datalen <=? i2) then
    let txt := if 0 <? size then Some [] else None in
    if (lenb =? 2) && (typb <=? 1) then (txt, true, 0, i2, true) else (txt, false, 0, max_data_len, true)
  else
    let l0 := lenb - 2 in
    let l := if datalen <? l0 + i2 then datalen - i2 else l0 in
    if 0 <? size then
      if typb =? 1 then
        let '(txt, _, i3) := get_str size l nul i2 datalen data in (txt, true, l, i3, true)
      else (None, true, 0, i2 + l, false)
    else (None, true, 0, i2 + l, true).

(* SetBufNByte[U]Double(v, precision): quantisation without the "not available" substitution of AddNByte[U]Double *)
Definition set_double_raw (n:nat) (s:bool) (vbits pbits:Z) : list Z :=
  let q := fdiv b64 (decode b64 vbits) (decode b64 pbits) in
  let code := if (n =? 8)%nat then set_code8 q else set_code n s (own_round q) in
  le_bytes n (code mod 256^(Z.of_nat n)).

(* ---------- setters ---------- *)
Fixpoint until_zero (l:list Z) : list Z := match l with [] => [] | x :: r => if x =? 0 then [] else x :: until_zero r end.
Fixpoint exec_w (r:env) (w:wstmt) (data:list Z) : option (list Z) :=
  match w with
  | WSkip => Some data
  | WSeq a b => match exec_w r a data with Some d => exec_w r b d | None => None end
  | WInt n e => if iub r e then None else Some (data ++ add_int n (ieval r e))
  | WDouble n s p d => Some (data ++ add_double n s (deval r d) p)
  | WDoubleRaw n s p d => Some (data ++ set_double_raw n s (deval r d) p)
  | WStr len a => Some (data ++ add_str len (arg_txt (e_args r) a))
  | WAISStr len a => Some (data ++ add_ais_str (zlen data) len (arg_txt (e_args r) a))
  | WVarStr mx a => Some (data ++ add_var_str (zlen data) mx (arg_txt (e_args r) a))
  | WList n a => Some (data ++ flat_map (add_int n) (until_zero (arg_txt (e_args r) a)))
  | WIf c t e => if iub r c then None else if ieval r c =? 0 then exec_w r e data else exec_w r t data
  end.

Definition set_env (s:setter) (args:list argval) : env := {| e_args := args; e_slots := []; e_pgn := s_pgn s; e_len := 0 |}.

(* the message a setter produces in a fresh tN2kMsg; None = the C++ would execute an undefined conversion *)
Definition exec_set (s:setter) (args:list argval) : option msg :=
  let r := set_env s args in
  match exec_w r (s_body s) [] with
  | Some d =>
    let dest := match s_dest s with Some e => wrapz 8 false (ieval r e) | None => default_dest end in
    Some {| m_pgn := s_pgn s; m_prio := (if s_prio s <? 0 then default_prio else s_prio s); m_dest := dest; m_len := zlen d; m_data := d |}
  | None => None
  end.

(* ---------- parsers ---------- *)
Record pst : Type := { ps_idx : Z; ps_slots : list (nat * argval); ps_outs : list (nat * argval);
                       ps_ret : option bool; ps_ub : bool; ps_unsup : bool }.

Definition penv (args:list argval) (m:msg) (st:pst) : env :=
  {| e_args := args; e_slots := ps_slots st; e_pgn := m_pgn m; e_len := m_len m |}.

Definition bind (k:nat) (v:argval) (st:pst) : pst :=
  {| ps_idx := ps_idx st; ps_slots := (k, v) :: ps_slots st; ps_outs := ps_outs st; ps_ret := ps_ret st; ps_ub := ps_ub st; ps_unsup := ps_unsup st |}.
Definition set_idx (i:Z) (st:pst) : pst :=
  {| ps_idx := i; ps_slots := ps_slots st; ps_outs := ps_outs st; ps_ret := ps_ret st; ps_ub := ps_ub st; ps_unsup := ps_unsup st |}.
Definition add_out (j:nat) (v:argval) (st:pst) : pst :=
  {| ps_idx := ps_idx st; ps_slots := ps_slots st; ps_outs := (j, v) :: ps_outs st; ps_ret := ps_ret st; ps_ub := ps_ub st; ps_unsup := ps_unsup st |}.
Definition set_ret (b:bool) (st:pst) : pst :=
  {| ps_idx := ps_idx st; ps_slots := ps_slots st; ps_outs := ps_outs st; ps_ret := Some b; ps_ub := ps_ub st; ps_unsup := ps_unsup st |}.
Definition flag_ub (b:bool) (st:pst) : pst :=
  {| ps_idx := ps_idx st; ps_slots := ps_slots st; ps_outs := ps_outs st; ps_ret := ps_ret st; ps_ub := ps_ub st || b; ps_unsup := ps_unsup st |}.
Definition flag_unsup (b:bool) (st:pst) : pst :=
  {| ps_idx := ps_idx st; ps_slots := ps_slots st; ps_outs := ps_outs st; ps_ret := ps_ret st; ps_ub := ps_ub st; ps_unsup := ps_unsup st || b |}.

Definition vtext (o:option (list Z)) : argval := match o with Some t => VT t | None => VI 0 end.

Definition exec_read (args:list argval) (m:msg) (k:nat) (r:rd) (st:pst) : pst :=
  let idx := ps_idx st in
  match r with
  | RInt n s def => let '(v, i) := get_int n s def idx (m_len m) (m_data m) in set_idx i (bind k (VI v) st)
  | RDouble n s p def => let '(v, i) := get_double n s p def idx (m_len m) (m_data m) in set_idx i (bind k (VD v) st)
  | RStr size len nul =>
    let ev := penv args m st in
    let '(txt, ok, i) := get_str (ieval ev size) len nul idx (m_len m) (m_data m) in
    flag_ub (iub ev size) (set_idx i (bind (S k) (VI (b2z ok)) (bind k (vtext txt) st)))
  | RVarStr size nul =>
    let ev := penv args m st in
    let '(txt, ok, so, i, sup) := get_var_str (ieval ev size) nul idx (m_len m) (m_data m) in
    flag_unsup (negb sup) (flag_ub (iub ev size) (set_idx i (bind (S (S k)) (VI so) (bind (S k) (VI (b2z ok)) (bind k (vtext txt) st)))))
  end.

Fixpoint exec_p (args:list argval) (m:msg) (p:pstmt) (st:pst) : pst :=
  match ps_ret st with
  | Some _ => st
  | None =>
    match p with
    | PSkip => st
    | PSeq a b => exec_p args m b (exec_p args m a st)
    | PRead k r => exec_read args m k r st
    | PSetIdx e => let ev := penv args m st in flag_ub (iub ev e) (set_idx (ieval ev e) st)
    | PAddIdx e => let ev := penv args m st in flag_ub (iub ev e) (set_idx (ps_idx st + ieval ev e) st)
    | POutI j e => let ev := penv args m st in flag_ub (iub ev e) (add_out j (VI (ieval ev e)) st)
    | POutD j d => add_out j (VD (deval (penv args m st) d)) st
    | POutT j k => match lookup k (ps_slots st) with Some (VT t) => add_out j (VT t) st | _ => st end
    | PIf c t e => let ev := penv args m st in
                   let st' := flag_ub (iub ev c) st in
                   if ieval ev c =? 0 then exec_p args m e st' else exec_p args m t st'
    | PRet e => let ev := penv args m st in flag_ub (iub ev e) (set_ret (negb (ieval ev e =? 0)) st)
    end
  end.

Definition pst0 : pst := {| ps_idx := 0; ps_slots := []; ps_outs := []; ps_ret := None; ps_ub := false; ps_unsup := false |}.

(* result of a parser call: the boolean it returns, the outputs it assigned (latest first), and the two "outside the model" flags *)
Record pres : Type := { r_ret : bool; r_outs : list (nat * argval); r_ub : bool; r_unsup : bool }.
Definition refused : pres := {| r_ret := false; r_outs := []; r_ub := false; r_unsup := false |}.

Definition exec_parse (p:parser) (args:list argval) (m:msg) : pres :=
  let run := let st := exec_p args m (p_body p) pst0 in
             {| r_ret := match ps_ret st with Some b => b | None => false end; r_outs := ps_outs st; r_ub := ps_ub st; r_unsup := ps_unsup st |} in
  match p_guard p with
  | Some n => if m_pgn m =? n then run else refused
  | None => run
  end.

(* the value a parser call leaves in output j (None = not assigned) *)
Definition out_of (r:pres) (j:nat) : option argval := lookup j (r_outs r).
